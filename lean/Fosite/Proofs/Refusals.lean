/-
  Refusal paths of `grant_type=authorization_code` (C02, second half).

  * `evalS`: the fault-free, transaction-less interpretation of a program as a function of the
    storage state alone (what `step` computes), with the storage-call log;
  * `wpG`: a weakest-precondition calculus over `evalS` that threads an assumed invariant `I`
    and demands a guard `G` of every call (both trivial in this file; `Proofs/PKCEHistory.lean`
    instantiates them);
  * `redeemPure`: the code-redemption handler as a pure decision tree, and the proof that the
    handler program computes exactly this function (`redeem_refines`) — every exit, not only the
    successful one;
  * consequences: which error each refusal gets, that a refusal outside the replay branch leaves
    the store untouched, and that outcomes do not depend on the mint counter.
-/
import Fosite.Proofs.History
import Fosite.Proofs.Effects
namespace Fosite.Model

/-! ### the plain interpretation as a function of the storage state -/

/-- fault-free run over the plain reference store: final state, value, storage-call log
    (`newId` and — the store not being transactional — `beginTx/commitTx/rollbackTx` are not logged) -/
def evalS {α} : SState → Prog α → SState × α × List (Call × Res)
  | ss, .ret a => (ss, a, [])
  | ss, .call c k =>
    let t := evalS (ss.exec c).1 (k (ss.exec c).2)
    (t.1, t.2.1, if c.isSilent || c.isTx then t.2.2 else (c, (ss.exec c).2) :: t.2.2)

theorem step_plain (rc : RunCfg) (hp : Plain rc) (rs : RState) (c : Call) :
    (rs.step rc c).1.ss = (rs.ss.exec c).1 ∧ (rs.step rc c).2 = (rs.ss.exec c).2 ∧
    (rs.step rc c).1.log = rs.log ++ (if c.isSilent || c.isTx then [] else [(c, (rs.ss.exec c).2)]) := by
  unfold RState.step
  by_cases hs : c.isSilent = true
  · simp [hs]
  · simp only [hs, Bool.false_eq_true, if_false, hp.2, Bool.not_false, Bool.and_true, Bool.false_or]
    by_cases ht : c.isTx = true
    · simp only [ht, if_true, List.append_nil, and_true]
      cases c <;> simp_all [Call.isTx, SState.exec]
    · simp only [ht, Bool.false_eq_true, if_false, hp.1 rs.idx]
      cases c <;> simp_all [Call.isTx]

theorem run_evalS {α} (rc : RunCfg) (hp : Plain rc) (p : Prog α) (rs : RState) :
    (run rc rs p).1.ss = (evalS rs.ss p).1 ∧ (run rc rs p).2 = (evalS rs.ss p).2.1 ∧
    (run rc rs p).1.log = rs.log ++ (evalS rs.ss p).2.2 := by
  induction p generalizing rs with
  | ret a => simp [evalS]
  | call c k ih =>
    obtain ⟨h1, h2, h3⟩ := step_plain rc hp rs c
    simp only [run_call, evalS]
    rw [h2]
    have := ih (rs.ss.exec c).2 (rs.step rc c).1
    rw [h1] at this
    refine ⟨this.1, this.2.1, ?_⟩
    rw [this.2.2, h3]
    split <;> simp

/-- `step` of an endpoint operation is `evalS` of its program -/
theorem step_evalS (s : MState) (op : Op) (p : Prog Out) (h : op.prog s = some p) :
    step s op = ({ s with ss := (evalS s.ss p).1 }, (evalS s.ss p).2.1, (evalS s.ss p).2.2) := by
  have hr := run_evalS {} plain_default p { ss := s.ss }
  have hs : step s op = ({ s with ss := (run {} { ss := s.ss } p).1.ss }, (run {} { ss := s.ss } p).2,
      (run {} { ss := s.ss } p).1.log) := by
    cases op <;> simp_all [step, Op.prog, runSeq]
  rw [hs, hr.1, hr.2.1, hr.2.2]
  simp

/-! ### weakest preconditions over `evalS`, with an assumed invariant and a call guard -/

/-- `Q` holds of the outcome, every call `c` made from a state `ss` satisfies `G ss c`, and the
    invariant `I` may be assumed of the state after every call -/
def wpG {α} (I : SState → Prop) (G : SState → Call → Prop) : Prog α → (SState → α → Prop) → SState → Prop
  | .ret a, Q, ss => Q ss a
  | .call c k, Q, ss => G ss c ∧ (I (ss.exec c).1 → wpG I G (k (ss.exec c).2) Q (ss.exec c).1)

theorem wpG_sound {α} (I : SState → Prop) (G : SState → Call → Prop)
    (hI : ∀ ss c, I ss → G ss c → I (ss.exec c).1) (p : Prog α) (Q : SState → α → Prop) (ss : SState)
    (h0 : I ss) (h : wpG I G p Q ss) : I (evalS ss p).1 ∧ Q (evalS ss p).1 (evalS ss p).2.1 := by
  induction p generalizing ss with
  | ret a => exact ⟨h0, h⟩
  | call c k ih =>
    obtain ⟨hg, hk⟩ := h
    have h1 := hI ss c h0 hg
    exact ih _ _ h1 (hk h1)

theorem wpG_mono {α} (I G) (p : Prog α) (Q Q' : SState → α → Prop) (ss)
    (h : ∀ ss' a, Q ss' a → Q' ss' a) : wpG I G p Q ss → wpG I G p Q' ss := by
  induction p generalizing ss with
  | ret a => exact h ss a
  | call c k ih => intro ⟨h1, h2⟩; exact ⟨h1, fun hi => ih _ _ (h2 hi)⟩

theorem wpG_bind {α β} (I G) (p : Prog α) (f : α → Prog β) (Q) (ss) :
    wpG I G (p.bind f) Q ss ↔ wpG I G p (fun ss' a => wpG I G (f a) Q ss') ss := by
  induction p generalizing ss with
  | ret a => exact Iff.rfl
  | call c k ih => simp only [Prog.bind, wpG, ih]

theorem wpG_pbind {α β} (I G) (p : Prog α) (f : α → Prog β) (Q) (ss) :
    wpG I G (p >>= f) Q ss ↔ wpG I G p (fun ss' a => wpG I G (f a) Q ss') ss := wpG_bind I G p f Q ss

theorem wpG_ret {α} (I G) (a : α) (Q) (ss) : wpG I G (Prog.ret a) Q ss ↔ Q ss a := Iff.rfl
theorem wpG_pure {α} (I G) (a : α) (Q) (ss) : wpG I G (pure a : Prog α) Q ss ↔ Q ss a := Iff.rfl
theorem wpG_retErr (I G) (e : Err) (Q) (ss) : wpG I G (retErr e) Q ss ↔ Q ss e := Iff.rfl
theorem wpG_call (I G) (c : Call) (Q) (ss : SState) :
    wpG I G (call c) Q ss ↔ G ss c ∧ (I (ss.exec c).1 → Q (ss.exec c).1 (ss.exec c).2) := Iff.rfl

/-- two-sided form for handler programs -/
def wpGH {α} (I : SState → Prop) (G : SState → Call → Prop) (x : HP α) (Kok : SState → α → Prop) (Kerr : SState → Err → Prop) (ss : SState) : Prop :=
  wpG I G x.toProg (fun ss' r => match r with | .ok a => Kok ss' a | .error e => Kerr ss' e) ss

theorem wpGH_ok {α} (I G) (a : α) (Kok Kerr) (ss) : wpGH I G (HP.ok a) Kok Kerr ss ↔ Kok ss a := Iff.rfl
theorem wpGH_pure {α} (I G) (a : α) (Kok Kerr) (ss) : wpGH I G (pure a : HP α) Kok Kerr ss ↔ Kok ss a := Iff.rfl
theorem wpGH_fail {α} (I G) (e : Err) (Kok : SState → α → Prop) (Kerr) (ss) :
    wpGH I G (HP.fail e) Kok Kerr ss ↔ Kerr ss e := Iff.rfl

theorem wpGH_mono {α} (I G) (x : HP α) (Kok Kok' : SState → α → Prop) (Kerr Kerr' : SState → Err → Prop) (ss)
    (h1 : ∀ ss' a, Kok ss' a → Kok' ss' a) (h2 : ∀ ss' e, Kerr ss' e → Kerr' ss' e) :
    wpGH I G x Kok Kerr ss → wpGH I G x Kok' Kerr' ss := by
  apply wpG_mono
  intro ss' r h
  cases r with
  | ok a => exact h1 _ _ h
  | error e => exact h2 _ _ h

theorem wpGH_bind {α β} (I G) (x : HP α) (f : α → HP β) (Kok Kerr) (ss) :
    wpGH I G (x >>= f) Kok Kerr ss ↔ wpGH I G x (fun ss' a => wpGH I G (f a) Kok Kerr ss') Kerr ss := by
  show wpGH I G (HP.bind x f) Kok Kerr ss ↔ _
  unfold wpGH HP.bind HP.mk
  show wpG I G (Prog.bind x.toProg _) _ ss ↔ _
  rw [wpG_bind]
  constructor <;>
  · apply wpG_mono
    intro ss' r h
    cases r with
    | ok a => exact h
    | error e => exact h

theorem wpGH_guard (I G) (c : Bool) (e : Err) (Kok Kerr) (ss) :
    wpGH I G (HP.guard c e) Kok Kerr ss ↔ (c = true → Kok ss ()) ∧ (c = false → Kerr ss e) := by
  unfold HP.guard
  cases c
  · simp only [Bool.false_eq_true, if_false, false_implies, true_and, true_implies]; exact Iff.rfl
  · simp only [if_true, true_implies, Bool.true_eq_false, false_implies, and_true]; exact Iff.rfl

theorem wpGH_callH (I G) (c : Call) (Kok Kerr) (ss : SState) :
    wpGH I G (callH c) Kok Kerr ss ↔ G ss c ∧ (I (ss.exec c).1 → Kok (ss.exec c).1 (ss.exec c).2) := Iff.rfl

theorem wpGH_failWith {α} (I G) (p : Prog Err) (Kok : SState → α → Prop) (Kerr) (ss) :
    wpGH I G (HP.failWith p) Kok Kerr ss ↔ wpG I G p Kerr ss := by
  unfold wpGH HP.failWith HP.mk HP.toProg
  rw [wpG_bind]
  exact Iff.rfl

theorem wpGH_optErr (I G) (o : Option Err) (Kok Kerr) (ss) :
    wpGH I G (optErr o) Kok Kerr ss ↔ (o = none → Kok ss ()) ∧ (∀ e, o = some e → Kerr ss e) := by
  cases o with
  | none => simp only [optErr, true_implies, reduceCtorEq, false_implies, implies_true, and_true]; exact Iff.rfl
  | some e => simp only [optErr, reduceCtorEq, false_implies, true_and, Option.some.injEq, forall_eq']; exact Iff.rfl

theorem wpGH_ite {α} (I G) (c : Prop) [Decidable c] (x y : HP α) (Kok Kerr) (ss) :
    wpGH I G (if c then x else y) Kok Kerr ss ↔ (c → wpGH I G x Kok Kerr ss) ∧ (¬c → wpGH I G y Kok Kerr ss) := by
  split <;> simp_all

theorem wpGH_expectReq (I G) (c : Call) (other) (Kok Kerr) (ss : SState) :
    wpGH I G (expectReq c other) Kok Kerr ss ↔
      G ss c ∧ (I (ss.exec c).1 →
        (∀ x, (ss.exec c).2 = .req x → Kok (ss.exec c).1 x) ∧
        ((∀ x, (ss.exec c).2 ≠ .req x) → wpG I G (other (ss.exec c).2) Kerr (ss.exec c).1)) := by
  unfold expectReq wpGH HP.mk
  show wpG I G (Prog.call c _) _ ss ↔ _
  simp only [wpG]
  generalize (ss.exec c).2 = r
  generalize (ss.exec c).1 = s1
  apply and_congr_right; intro _
  apply imp_congr_right; intro _
  cases r <;> simp only [reduceCtorEq, false_implies, implies_true, true_and, Res.req.injEq, forall_eq', ne_eq, not_false_eq_true,
    forall_const, and_true]
  all_goals first
    | exact Iff.rfl
    | exact wpGH_failWith I G _ Kok Kerr _
    | (simp only [not_forall, not_not]; exact ⟨fun h => ⟨h, fun ⟨x, hx⟩ => absurd rfl hx⟩, fun h => h.1⟩)

theorem wpGH_expectNat (I G) (c : Call) (other) (Kok Kerr) (ss : SState) :
    wpGH I G (expectNat c other) Kok Kerr ss ↔
      G ss c ∧ (I (ss.exec c).1 →
        (∀ n, (ss.exec c).2 = .nat n → Kok (ss.exec c).1 n) ∧
        ((∀ n, (ss.exec c).2 ≠ .nat n) → wpG I G (other (ss.exec c).2) Kerr (ss.exec c).1)) := by
  unfold expectNat wpGH HP.mk
  show wpG I G (Prog.call c _) _ ss ↔ _
  simp only [wpG]
  generalize (ss.exec c).2 = r
  generalize (ss.exec c).1 = s1
  apply and_congr_right; intro _
  apply imp_congr_right; intro _
  cases r <;> simp only [reduceCtorEq, false_implies, implies_true, true_and, Res.nat.injEq, forall_eq', ne_eq, not_false_eq_true,
    forall_const, and_true]
  all_goals first
    | exact Iff.rfl
    | exact wpGH_failWith I G _ Kok Kerr _
    | (simp only [not_forall, not_not]; exact ⟨fun h => ⟨h, fun ⟨x, hx⟩ => absurd rfl hx⟩, fun h => h.1⟩)

theorem wpGH_expectPar (I G) (c : Call) (other) (Kok Kerr) (ss : SState) :
    wpGH I G (expectPar c other) Kok Kerr ss ↔
      G ss c ∧ (I (ss.exec c).1 →
        (∀ x, (ss.exec c).2 = .par x → Kok (ss.exec c).1 x) ∧
        ((∀ x, (ss.exec c).2 ≠ .par x) → wpG I G (other (ss.exec c).2) Kerr (ss.exec c).1)) := by
  unfold expectPar wpGH HP.mk
  show wpG I G (Prog.call c _) _ ss ↔ _
  simp only [wpG]
  generalize (ss.exec c).2 = r
  generalize (ss.exec c).1 = s1
  apply and_congr_right; intro _
  apply imp_congr_right; intro _
  cases r <;> simp only [reduceCtorEq, false_implies, implies_true, true_and, Res.par.injEq, forall_eq', ne_eq, not_false_eq_true,
    forall_const, and_true]
  all_goals first
    | exact Iff.rfl
    | exact wpGH_failWith I G _ Kok Kerr _
    | (simp only [not_forall, not_not]; exact ⟨fun h => ⟨h, fun ⟨x, hx⟩ => absurd rfl hx⟩, fun h => h.1⟩)

theorem wpGH_expectDev (I G) (c : Call) (other) (Kok Kerr) (ss : SState) :
    wpGH I G (expectDev c other) Kok Kerr ss ↔
      G ss c ∧ (I (ss.exec c).1 →
        (∀ x, (ss.exec c).2 = .dev x → Kok (ss.exec c).1 x) ∧
        ((∀ x, (ss.exec c).2 ≠ .dev x) → wpG I G (other (ss.exec c).2) Kerr (ss.exec c).1)) := by
  unfold expectDev wpGH HP.mk
  show wpG I G (Prog.call c _) _ ss ↔ _
  simp only [wpG]
  generalize (ss.exec c).2 = r
  generalize (ss.exec c).1 = s1
  apply and_congr_right; intro _
  apply imp_congr_right; intro _
  cases r <;> simp only [reduceCtorEq, false_implies, implies_true, true_and, Res.dev.injEq, forall_eq', ne_eq, not_false_eq_true,
    forall_const, and_true]
  all_goals first
    | exact Iff.rfl
    | exact wpGH_failWith I G _ Kok Kerr _
    | (simp only [not_forall, not_not]; exact ⟨fun h => ⟨h, fun ⟨x, hx⟩ => absurd rfl hx⟩, fun h => h.1⟩)

theorem wpGH_expectClient (I G) (c : Call) (e) (Kok Kerr) (ss : SState) :
    wpGH I G (expectClient c e) Kok Kerr ss ↔
      G ss c ∧ (I (ss.exec c).1 →
        (∀ x, (ss.exec c).2 = .client x → Kok (ss.exec c).1 x) ∧
        ((∀ x, (ss.exec c).2 ≠ .client x) → Kerr (ss.exec c).1 e)) := by
  unfold expectClient wpGH HP.mk
  show wpG I G (Prog.call c _) _ ss ↔ _
  simp only [wpG]
  generalize (ss.exec c).2 = r
  generalize (ss.exec c).1 = s1
  apply and_congr_right; intro _
  apply imp_congr_right; intro _
  cases r <;> simp only [reduceCtorEq, false_implies, implies_true, true_and, Res.client.injEq, forall_eq', ne_eq, not_false_eq_true,
    forall_const, and_true]
  all_goals first
    | exact Iff.rfl
    | (simp only [not_forall, not_not]; exact ⟨fun h => ⟨h, fun ⟨x, hx⟩ => absurd rfl hx⟩, fun h => h.1⟩)

theorem wpGH_expectOk (I G) (c : Call) (other) (Kok Kerr) (ss : SState) :
    wpGH I G (expectOk c other) Kok Kerr ss ↔
      G ss c ∧ (I (ss.exec c).1 →
        ((ss.exec c).2.errKind = none → Kok (ss.exec c).1 ()) ∧
        (∀ e, (ss.exec c).2.errKind = some e → wpG I G (other e) Kerr (ss.exec c).1)) := by
  unfold expectOk wpGH HP.mk
  show wpG I G (Prog.call c _) _ ss ↔ _
  simp only [wpG]
  generalize (ss.exec c).2.errKind = r
  generalize (ss.exec c).1 = s1
  apply and_congr_right; intro _
  apply imp_congr_right; intro _
  cases r with
  | none => simp only [true_implies, reduceCtorEq, false_implies, implies_true, and_true]; exact Iff.rfl
  | some e =>
    simp only [reduceCtorEq, false_implies, true_and, Option.some.injEq, forall_eq']
    exact wpGH_failWith I G _ Kok Kerr _

theorem wpG_toProg {α} (I G) (x : HP α) (Q : SState → Except Err α → Prop) (ss) :
    wpG I G x.toProg Q ss ↔ wpGH I G x (fun ss' a => Q ss' (.ok a)) (fun ss' e => Q ss' (.error e)) ss := by
  unfold wpGH
  constructor <;>
  · apply wpG_mono
    intro ss' r h
    cases r <;> exact h

/-- closing a handler -/
theorem wpG_run (I G) (x : HP Out) (Q : SState → Out → Prop) (ss) :
    wpG I G x.run Q ss ↔ wpGH I G x Q (fun ss' e => Q ss' (.err e)) ss := by
  unfold HP.run wpGH
  rw [wpG_bind]
  constructor <;>
  · apply wpG_mono
    intro ss' r h
    cases r <;> exact h

/-! ### sub-handlers in terms of the stored sessions -/


/-- the PKCE handler's verdict in terms of the stored PKCE session (if any) -/
def pkceVerdict (cfg : Config) (pk : Option Req) (verifier : String) (clientPublic : Bool) : Option Err :=
  match pk with
  | some pr =>
    match pkceValidate cfg (pr.formGet "code_challenge") (pr.formGet "code_challenge_method") pr.client.isPublic with
    | some e => some e
    | none => pkceVerify cfg (pr.formGet "code_challenge") (pr.formGet "code_challenge_method") verifier
  | none => if verifier.length == 0 then validateNoPKCE cfg clientPublic else some .invalid_grant

/-- the OIDC explicit handler's verdict in terms of the stored OIDC session (if any) -/
def oidcVerdict (oidc : Option Req) (client : Client) : Except Err Bool :=
  match oidc with
  | none => .ok false
  | some ar =>
    if !ar.grantedScopes.contains "openid" then .error .misconfiguration
    else if !client.grants.contains "authorization_code" then .error .unauthorized_client
    else if !(ar.sess.idSubject != "") then .error .server_error
    else .ok true

theorem exec_getPKCE_snd (ss : SState) (k : Option Nat) :
    (ss.exec (.getPKCE k)).2 = match k.bind (alookup ss.store.pkce) with | none => .notFound | some r => .req r := by
  simp only [SState.exec]; split <;> rename_i h <;> simp only [h]

theorem exec_getOIDC_snd (ss : SState) (k : Option Nat) :
    (ss.exec (.getOIDC k)).2 = match k.bind (alookup ss.store.oidc) with | none => .notFound | some r => .req r := by
  simp only [SState.exec]; split <;> rename_i h <;> simp only [h]

abbrev anyState : SState → Prop := fun _ => True
abbrev anyCall : SState → Call → Prop := fun _ _ => True

theorem wpGH_pkceHandle (I G) (cfg : Config) (code : Presented) (v : String) (client : Client) (Kok Kerr) (ss : SState) :
    wpGH I G (pkceHandle cfg code v client) Kok Kerr ss ↔
      G ss (.getPKCE code.sig) ∧ (I ss →
        match pkceVerdict cfg (code.sig.bind (alookup ss.store.pkce)) v client.isPublic with
        | none => Kok ss ()
        | some e => Kerr ss e) := by
  unfold pkceHandle
  simp only [wpGH_bind, wpGH_callH, exec_getPKCE_fst, exec_getPKCE_snd]
  apply and_congr_right; intro _
  apply imp_congr_right; intro _
  unfold pkceVerdict
  cases hpk : code.sig.bind (alookup ss.store.pkce) with
  | none =>
    simp only [Res.errKind]
    by_cases hv : (v.length == 0) = true
    · simp only [hv, if_true, wpGH_optErr]
      cases validateNoPKCE cfg client.isPublic <;> simp
    · simp only [hv, Bool.false_eq_true, if_false]; exact Iff.rfl
  | some pr =>
    simp only [wpGH_bind, wpGH_optErr]
    cases pkceValidate cfg (pr.formGet "code_challenge") (pr.formGet "code_challenge_method") pr.client.isPublic with
    | some e => simp
    | none =>
      simp only [true_implies, reduceCtorEq, false_implies, implies_true, and_true]
      cases pkceVerify cfg (pr.formGet "code_challenge") (pr.formGet "code_challenge_method") v <;> simp


theorem exec_deleteOIDC_snd (ss : SState) (k) : (ss.exec (.deleteOIDC k)).2 = .ok := by
  simp only [SState.exec]; split <;> rfl
theorem exec_deletePKCE_snd (ss : SState) (k) : (ss.exec (.deletePKCE k)).2 = .ok := by
  simp only [SState.exec]; split <;> rfl
theorem exec_getClient_res (ss : SState) (id : String) :
    (ss.exec (.getClient id)).2 = match ss.clients.find? (fun c => c.id == id) with | some c => .client c | none => .notFound := by
  simp only [SState.exec]; split <;> rename_i h <;> simp only [h]
theorem exec_getCode_snd (ss : SState) (k : Option Nat) :
    (ss.exec (.getCode k)).2 = match k.bind (alookup ss.store.codes) with
      | none => .notFound
      | some rec => if rec.active then .req rec.req else .inactive rec.req := by
  simp only [SState.exec]; split <;> rename_i h <;> simp only [h] <;> split <;> rfl
theorem exec_newId_fst (ss : SState) : (ss.exec .newId).1 = { ss with next := ss.next + 1 } := rfl
theorem exec_newId_snd (ss : SState) : (ss.exec .newId).2 = .nat ss.next := rfl
theorem exec_beginTx (ss : SState) : ss.exec .beginTx = (ss, .ok) := rfl
theorem exec_commitTx (ss : SState) : ss.exec .commitTx = (ss, .ok) := rfl
theorem exec_rollbackTx (ss : SState) : ss.exec .rollbackTx = (ss, .ok) := rfl
theorem exec_createAccess_snd (ss : SState) (r : Req) : (ss.exec (.createAccess r)).2 = .nat ss.next := rfl
theorem exec_createRefresh_snd (ss : SState) (a : Nat) (r : Req) : (ss.exec (.createRefresh a r)).2 = .nat ss.next := rfl

/-- `OpenIDConnectExplicitHandler.PopulateTokenEndpointResponse` in terms of the stored OIDC session -/
theorem wpGH_oidcExplicitPopulate (I G) (code : Presented) (client : Client) (Kok Kerr) (ss : SState) :
    wpGH I G (oidcExplicitPopulate code client) Kok Kerr ss ↔
      G ss (.getOIDC (if code.exact then code.sig else none)) ∧ (I ss →
        match oidcVerdict ((if code.exact then code.sig else none).bind (alookup ss.store.oidc)) client with
        | .error e => Kerr ss e
        | .ok false => Kok ss false
        | .ok true => G ss (.deleteOIDC (if code.exact then code.sig else none)) ∧
            (I (ss.exec (.deleteOIDC (if code.exact then code.sig else none))).1 →
              Kok (ss.exec (.deleteOIDC (if code.exact then code.sig else none))).1 true)) := by
  unfold oidcExplicitPopulate
  simp only [wpGH_bind, wpGH_callH, exec_getOIDC_fst, exec_getOIDC_snd]
  generalize (if code.exact = true then code.sig else none) = key
  apply and_congr_right; intro _
  apply imp_congr_right; intro _
  unfold oidcVerdict
  cases hk : key.bind (alookup ss.store.oidc) with
  | none => simp only [Res.errKind]; exact Iff.rfl
  | some ar =>
    simp only [wpGH_bind, wpGH_guard, wpGH_expectOk, wpGH_pure, exec_deleteOIDC_snd, Res.errKind, true_implies,
      reduceCtorEq, false_implies, implies_true, and_true]
    cases h1 : ar.grantedScopes.contains "openid"
    · simp
    cases h2 : client.grants.contains "authorization_code"
    · simp
    cases h3 : (ar.sess.idSubject != "")
    · simp
    simp

theorem wpGH_pkcePopulate (I G) (code : Presented) (Kok Kerr) (ss : SState) :
    wpGH I G (pkcePopulate code) Kok Kerr ss ↔
      G ss (.deletePKCE code.sig) ∧ (I (ss.exec (.deletePKCE code.sig)).1 → Kok (ss.exec (.deletePKCE code.sig)).1 ()) := by
  unfold pkcePopulate
  simp only [wpGH_bind, wpGH_callH, exec_deletePKCE_snd, Res.errKind]
  exact Iff.rfl


/-! ### the redemption handler as a pure decision tree -/


/-- what the checks of the code-redemption handler decide, as a function of the token tables and
    the client registry alone (the mint counter plays no part) -/
inductive RedeemVerdict
  | refuse (e : Err)                          -- refused before anything is written
  | replay (rec : CodeRec)                    -- the code was used before: revoke, then `invalid_grant`
  | issue (client : Client) (rec : CodeRec)   -- every check passed: the issuing bracket runs
  deriving Repr

def redeemVerdict (cfg : Config) (now : Time) (q : RedeemReq) (st : Store) (clients : List Client) : RedeemVerdict :=
  match clients.find? (fun c => c.id == q.clientId) with
  | none => .refuse .invalid_client
  | some client =>
    if !(client.isPublic || q.credOk) then .refuse .invalid_client
    else if !client.grants.contains "authorization_code" then .refuse .unauthorized_client
    else
    match q.code.sig.bind (alookup st.codes) with
    | none => .refuse .invalid_grant
    | some rec =>
      if !rec.active then .replay rec
      else if !q.code.exact then .refuse .invalid_grant
      else if !(rec.req.client.id == client.id) then .refuse .invalid_grant
      else if rec.req.formGet "redirect_uri" != "" && rec.req.formGet "redirect_uri" != q.redirect then .refuse .invalid_grant
      else
      match pkceVerdict cfg (q.code.sig.bind (alookup st.pkce)) q.verifier client.isPublic with
      | some e => .refuse e
      | none =>
        if expiredAt rec.req.sess.expCode now cfg.codeLife now then .refuse .invalid_request
        else .issue client rec

/-- the issuing bracket and the two `Populate…` handlers after it, from the state `s1` in which the
    request id has been allocated -/
def redeemIssue (cfg : Config) (now : Time) (q : RedeemReq) (s1 : SState) (client : Client) (rec : CodeRec) : SState × Out :=
  let req := redeemStoreReq cfg now q client rec.req rec.req
  let s2 := (s1.exec (.invalidateCode q.code.sig)).1
  let s3 := (s2.exec (.createAccess (req.sanitize []))).1
  let s4 := if canIssueRefresh cfg rec.req then (s3.exec (.createRefresh s1.next (req.sanitize []))).1 else s3
  let rt := if canIssueRefresh cfg rec.req then some (s1.next + 1) else none
  match oidcVerdict (q.code.sig.bind (alookup s1.store.oidc)) client with
  | .error e => (s4, .err e)
  | .ok idt =>
    let s5 := if idt then (s4.exec (.deleteOIDC q.code.sig)).1 else s4
    ((s5.exec (.deletePKCE q.code.sig)).1,
      .tokens s1.next rt idt (expiresIn req.sess now cfg.atLife) req.grantedScopes)

/-- **The code-redemption handler as a pure function** of the storage state: final state and answer.
    `s1` is the state after the request id has been allocated; a refusal returns `s1` (nothing but the
    mint counter moved). -/
def redeemPure (cfg : Config) (now : Time) (q : RedeemReq) (ss : SState) : SState × Out :=
  let s1 : SState := { ss with next := ss.next + 1 }
  match redeemVerdict cfg now q ss.store ss.clients with
  | .refuse e => (s1, .err e)
  | .replay rec => (((s1.exec (.revokeAccess rec.req.id)).1.exec (.revokeRefresh rec.req.id)).1, .err .invalid_grant)
  | .issue client rec => redeemIssue cfg now q s1 client rec


theorem exec_invalidateCode_snd (ss : SState) (k : Option Nat) (rec : CodeRec)
    (h : k.bind (alookup ss.store.codes) = some rec) : (ss.exec (.invalidateCode k)).2 = .ok := by
  cases k with
  | none => simp at h
  | some sig => simp only [Option.bind_some] at h; simp only [SState.exec, Option.bind_some, h]
theorem exec_invalidateCode_frame (ss : SState) (k : Option Nat) :
    (ss.exec (.invalidateCode k)).1.next = ss.next ∧ (ss.exec (.invalidateCode k)).1.store.oidc = ss.store.oidc ∧
    (ss.exec (.invalidateCode k)).1.store.pkce = ss.store.pkce ∧ (ss.exec (.invalidateCode k)).1.clients = ss.clients := by
  simp only [SState.exec]; split <;> simp
theorem exec_createAccess_frame' (ss : SState) (r : Req) :
    (ss.exec (.createAccess r)).1.next = ss.next + 1 ∧ (ss.exec (.createAccess r)).1.store.oidc = ss.store.oidc ∧
    (ss.exec (.createAccess r)).1.store.pkce = ss.store.pkce ∧ (ss.exec (.createAccess r)).1.store.codes = ss.store.codes ∧
    (ss.exec (.createAccess r)).1.clients = ss.clients := by
  simp [SState.exec]
theorem exec_createRefresh_frame' (ss : SState) (a : Nat) (r : Req) :
    (ss.exec (.createRefresh a r)).1.next = ss.next + 1 ∧ (ss.exec (.createRefresh a r)).1.store.oidc = ss.store.oidc ∧
    (ss.exec (.createRefresh a r)).1.store.pkce = ss.store.pkce ∧ (ss.exec (.createRefresh a r)).1.store.codes = ss.store.codes ∧
    (ss.exec (.createRefresh a r)).1.clients = ss.clients := by
  simp [SState.exec]

theorem wpG_redeemLookupFailed (r : Res) (Q : SState → Err → Prop) (ss : SState) :
    wpG anyState anyCall (redeemLookupFailed r) Q ss ↔
      match r with
      | .inactive ar => Q ((ss.exec (.revokeAccess ar.id)).1.exec (.revokeRefresh ar.id)).1 .invalid_grant
      | r => Q ss (match r.errKind with | some .not_found => .invalid_grant | _ => .server_error) := by
  unfold redeemLookupFailed
  cases r <;> simp only [Res.errKind, wpG_retErr]
  case inactive ar =>
    simp only [wpG_pbind, wpG_call, wpG_pure, anyState, anyCall, true_and, true_implies]
  case fail e => cases e <;> exact Iff.rfl

set_option linter.unusedSimpArgs false in
theorem redeem_wpG (cfg : Config) (now : Time) (q : RedeemReq) (ss : SState) :
    wpG anyState anyCall (redeemProg cfg now q) (fun ss' o => (ss', o) = redeemPure cfg now q ss) ss := by
  unfold redeemProg
  rw [wpG_run]
  unfold redeemH authenticate
  simp only [wpGH_bind, wpGH_callH, wpGH_expectClient, wpGH_guard, wpGH_expectReq, wpGH_pkceHandle, wpGH_expectOk,
    wpGH_expectNat, wpGH_ite, wpGH_pure, wpGH_ok, wpGH_oidcExplicitPopulate, wpGH_pkcePopulate,
    exec_newId_fst, exec_getClient_fst, exec_getCode_fst, exec_getClient_res, exec_getCode_snd,
    exec_beginTx, exec_commitTx, exec_createAccess_snd, exec_createRefresh_snd, Res.errKind,
    anyState, anyCall, true_and, true_implies]
  cases hcl : List.find? (fun c => c.id == q.clientId) ss.clients with
  | none => simp [redeemPure, redeemVerdict, redeemIssue, hcl]
  | some client =>
  simp only [Res.client.injEq, forall_eq', ne_eq, Classical.not_forall, Classical.not_not, exists_eq', not_true_eq_false, false_implies, and_true]
  cases hcred : (client.isPublic || q.credOk) with
  | false => simp [redeemPure, redeemVerdict, redeemIssue, hcl, hcred]
  | true =>
  cases hgr : client.grants.contains "authorization_code" with
  | false =>
    simp only [redeemPure, redeemVerdict, redeemIssue, hcl, hcred, hgr, Bool.not_true, Bool.not_false, Bool.false_eq_true, ↓reduceIte, false_implies,
      true_implies, true_and, reduceCtorEq]
  | true =>
  simp only [true_implies, reduceCtorEq, false_implies, and_true]
  cases hcode : q.code.sig.bind (alookup ss.store.codes) with
  | none =>
    simp only [redeemPure, redeemVerdict, redeemIssue, hcl, hcred, hgr, hcode, Bool.not_true, Bool.not_false, Bool.false_eq_true, ↓reduceIte, false_implies,
      true_implies, true_and, reduceCtorEq, wpG_redeemLookupFailed, Res.errKind, implies_true]
  | some rec =>
  cases hact : rec.active with
  | false =>
    simp only [redeemPure, redeemVerdict, redeemIssue, hcl, hcred, hgr, hcode, hact, Bool.not_true, Bool.not_false, Bool.false_eq_true, ↓reduceIte, false_implies,
      true_implies, true_and, reduceCtorEq, wpG_redeemLookupFailed, Res.errKind, implies_true]
  | true =>
  simp only [hact, ↓reduceIte, Res.req.injEq, forall_eq', Classical.not_forall, Classical.not_not, exists_eq', not_true_eq_false,
    false_implies, and_true, exec_invalidateCode_snd _ _ _ hcode, (exec_invalidateCode_frame _ _).1,
    (exec_invalidateCode_frame _ _).2.1, (exec_createAccess_frame' _ _).1, (exec_createAccess_frame' _ _).2.1,
    (exec_createRefresh_frame' _ _ _).1, (exec_createRefresh_frame' _ _ _).2.1, Res.nat.injEq, true_implies,
    reduceCtorEq, implies_true]
  have hinv : (({ ss with next := ss.next + 1 } : SState).exec (.invalidateCode q.code.sig)).2 = .ok :=
    exec_invalidateCode_snd _ _ _ hcode
  simp only [hinv, true_implies, reduceCtorEq, false_implies, implies_true, and_true]
  cases hexact : q.code.exact with
  | false =>
    simp only [redeemPure, redeemVerdict, redeemIssue, hcl, hcred, hgr, hcode, hact, hexact, Bool.not_true, Bool.not_false, Bool.false_eq_true, ↓reduceIte,
      false_implies, true_implies, true_and, reduceCtorEq]
  | true =>
  cases hcid : (rec.req.client.id == client.id) with
  | false =>
    simp only [redeemPure, redeemVerdict, redeemIssue, hcl, hcred, hgr, hcode, hact, hexact, hcid, Bool.not_true, Bool.not_false, Bool.false_eq_true, ↓reduceIte,
      false_implies, true_implies, true_and, reduceCtorEq]
  | true =>
  cases hred : (rec.req.formGet "redirect_uri" != "" && rec.req.formGet "redirect_uri" != q.redirect) with
  | true =>
    simp only [redeemPure, redeemVerdict, redeemIssue, hcl, hcred, hgr, hcode, hact, hexact, hcid, hred, Bool.not_true, Bool.not_false, Bool.false_eq_true, ↓reduceIte,
      false_implies, true_implies, true_and, reduceCtorEq]
  | false =>
  simp only [Bool.not_false, true_implies, reduceCtorEq, false_implies, and_true]
  cases hpk : pkceVerdict cfg (q.code.sig.bind (alookup ss.store.pkce)) q.verifier client.isPublic with
  | some e =>
    simp only [redeemPure, redeemVerdict, redeemIssue, hcl, hcred, hgr, hcode, hact, hexact, hcid, hred, hpk, Bool.not_true, Bool.not_false, Bool.false_eq_true, ↓reduceIte,
      false_implies, true_implies, true_and, reduceCtorEq]
  | none =>
  cases hexp : expiredAt rec.req.sess.expCode now cfg.codeLife now with
  | true =>
    simp only [redeemPure, redeemVerdict, redeemIssue, hcl, hcred, hgr, hcode, hact, hexact, hcid, hred, hpk, hexp, Bool.not_true, Bool.not_false, Bool.false_eq_true, ↓reduceIte,
      false_implies, true_implies, true_and, reduceCtorEq]
  | false =>
  simp only [Bool.not_false, true_implies, reduceCtorEq, false_implies, and_true, ↓reduceIte]
  cases hcan : canIssueRefresh cfg rec.req <;> cases hoidc : oidcVerdict (q.code.sig.bind (alookup ss.store.oidc)) client with
  | error e =>
    simp only [redeemPure, redeemVerdict, redeemIssue, hcl, hcred, hgr, hcode, hact, hexact, hcid, hred, hpk, hexp, hcan, hoidc, Bool.not_true, Bool.not_false,
      Bool.false_eq_true, ↓reduceIte, false_implies, true_implies, true_and, and_true, reduceCtorEq, not_true_eq_false, not_false_eq_true]
  | ok b =>
    cases b <;>
    simp only [redeemPure, redeemVerdict, redeemIssue, hcl, hcred, hgr, hcode, hact, hexact, hcid, hred, hpk, hexp, hcan, hoidc, Bool.not_true, Bool.not_false,
      Bool.false_eq_true, ↓reduceIte, false_implies, true_implies, true_and, and_true, reduceCtorEq, not_true_eq_false, not_false_eq_true,
      Nat.add_assoc, Nat.reduceAdd]


/-- **The handler program computes `redeemPure`** — final state and answer, on every path. -/
theorem redeem_refines (cfg : Config) (now : Time) (q : RedeemReq) (ss : SState) :
    ((evalS ss (redeemProg cfg now q)).1, (evalS ss (redeemProg cfg now q)).2.1) = redeemPure cfg now q ss :=
  (wpG_sound anyState anyCall (fun _ _ _ _ => trivial) _ _ ss trivial (redeem_wpG cfg now q ss)).2

theorem step_redeem_pure (s : MState) (q : RedeemReq) :
    (step s (.redeem q)).1 = { s with ss := (redeemPure s.cfg s.now q s.ss).1 } ∧
    (step s (.redeem q)).2.1 = (redeemPure s.cfg s.now q s.ss).2 ∧
    (step s (.redeem q)).2.2 = (evalS s.ss (redeemProg s.cfg s.now q)).2.2 := by
  rw [step_evalS s (.redeem q) (redeemProg s.cfg s.now q) rfl]
  have h := redeem_refines s.cfg s.now q s.ss
  rw [← h]
  exact ⟨rfl, rfl, rfl⟩

/-- the presented code, if the server knows it, has not been redeemed yet (the request does not
    enter the replay branch, which revokes the tokens of the authorization) -/
def NotReplay (ss : SState) (q : RedeemReq) : Prop :=
  ∀ rec, q.code.sig.bind (alookup ss.store.codes) = some rec → rec.active = true

/-- the OpenID Connect session stored under the presented code (if the code is known and has one) is
    one the authorization endpoint writes: `openid` granted, subject set -/
def OidcSessionOk (ss : SState) (q : RedeemReq) : Prop :=
  ∀ r rec, q.code.sig.bind (alookup ss.store.oidc) = some r → q.code.sig.bind (alookup ss.store.codes) = some rec →
    r.grantedScopes.contains "openid" = true ∧ (r.sess.idSubject != "") = true

instance (ss : SState) (q : RedeemReq) : Decidable (NotReplay ss q) :=
  decidable_of_iff ((match q.code.sig.bind (alookup ss.store.codes) with | some rec => rec.active | none => true) = true) (by
    unfold NotReplay
    cases q.code.sig.bind (alookup ss.store.codes) with
    | none => simp
    | some rec => simp)

instance (ss : SState) (q : RedeemReq) : Decidable (OidcSessionOk ss q) :=
  decidable_of_iff ((match q.code.sig.bind (alookup ss.store.oidc), q.code.sig.bind (alookup ss.store.codes) with
      | some r, some _ => r.grantedScopes.contains "openid" && (r.sess.idSubject != "") | _, _ => true) = true) (by
    unfold OidcSessionOk
    cases q.code.sig.bind (alookup ss.store.oidc) with
    | none => simp
    | some r =>
      cases q.code.sig.bind (alookup ss.store.codes) with
      | none => simp
      | some rec => simp)

/-- the error of an error answer (`Out` has no decidable equality) -/
def Out.error? : Out → Option Err
  | .err e => some e
  | _ => none

def Out.tokensIssued : Out → Bool
  | .tokens .. => true
  | _ => false

theorem oidcVerdict_ok (o : Option Req) (client : Client) (hg : client.grants.contains "authorization_code" = true)
    (ho : ∀ r, o = some r → r.grantedScopes.contains "openid" = true ∧ (r.sess.idSubject != "") = true) :
    ∃ b, oidcVerdict o client = .ok b := by
  cases o with
  | none => exact ⟨false, rfl⟩
  | some r =>
    obtain ⟨h1, h2⟩ := ho r rfl
    exact ⟨true, by simp only [oidcVerdict, h1, hg, h2, Bool.not_true, Bool.false_eq_true, ↓reduceIte]⟩

theorem redeemVerdict_issue (cfg now q st clients client rec) (h : redeemVerdict cfg now q st clients = .issue client rec) :
    clients.find? (fun c => c.id == q.clientId) = some client ∧ (client.isPublic || q.credOk) = true ∧
    client.grants.contains "authorization_code" = true ∧ q.code.sig.bind (alookup st.codes) = some rec ∧
    rec.active = true ∧ q.code.exact = true ∧ (rec.req.client.id == client.id) = true ∧
    (rec.req.formGet "redirect_uri" != "" && rec.req.formGet "redirect_uri" != q.redirect) = false ∧
    pkceVerdict cfg (q.code.sig.bind (alookup st.pkce)) q.verifier client.isPublic = none ∧
    expiredAt rec.req.sess.expCode now cfg.codeLife now = false := by
  unfold redeemVerdict at h
  split at h
  · cases h
  · rename_i c hc
    split at h
    · cases h
    · split at h
      · cases h
      · split at h
        · cases h
        · rename_i r hr
          split at h
          · cases h
          · split at h
            · cases h
            · split at h
              · cases h
              · split at h
                · cases h
                · split at h
                  · cases h
                  · split at h
                    · cases h
                    · cases h
                      simp_all
                      refine ⟨?_, by assumption⟩
                      cases hp : client.isPublic <;> simp_all


theorem redeemVerdict_replay (cfg now q st clients rec) (h : redeemVerdict cfg now q st clients = .replay rec) :
    q.code.sig.bind (alookup st.codes) = some rec ∧ rec.active = false := by
  unfold redeemVerdict at h
  split at h
  · cases h
  · split at h
    · cases h
    · split at h
      · cases h
      · split at h
        · cases h
        · rename_i r hr
          split at h
          · cases h; exact ⟨hr, by simp_all⟩
          · split at h
            · cases h
            · split at h
              · cases h
              · split at h
                · cases h
                · split at h
                  · cases h
                  · split at h <;> cases h

/-- a foreign client is answered `invalid_grant` -/
theorem redeemVerdict_foreign_client (cfg : Config) (now : Time) (q : RedeemReq) (st : Store) (clients : List Client)
    (client : Client) (rec : CodeRec)
    (hcl : clients.find? (fun c => c.id == q.clientId) = some client) (hcred : (client.isPublic || q.credOk) = true)
    (hgr : client.grants.contains "authorization_code" = true)
    (hrec : q.code.sig.bind (alookup st.codes) = some rec) (hact : rec.active = true) (hexact : q.code.exact = true)
    (hne : (rec.req.client.id == client.id) = false) :
    redeemVerdict cfg now q st clients = .refuse .invalid_grant := by
  simp only [redeemVerdict, hcl, hcred, hgr, hrec, hact, hexact, hne, Bool.not_true, Bool.not_false, Bool.false_eq_true, ↓reduceIte]

/-- a different redirect_uri is answered `invalid_grant` -/
theorem redeemVerdict_different_redirect (cfg : Config) (now : Time) (q : RedeemReq) (st : Store) (clients : List Client)
    (client : Client) (rec : CodeRec)
    (hcl : clients.find? (fun c => c.id == q.clientId) = some client) (hcred : (client.isPublic || q.credOk) = true)
    (hgr : client.grants.contains "authorization_code" = true)
    (hrec : q.code.sig.bind (alookup st.codes) = some rec) (hact : rec.active = true) (hexact : q.code.exact = true)
    (hown : (rec.req.client.id == client.id) = true)
    (hred : (rec.req.formGet "redirect_uri" != "" && rec.req.formGet "redirect_uri" != q.redirect) = true) :
    redeemVerdict cfg now q st clients = .refuse .invalid_grant := by
  simp only [redeemVerdict, hcl, hcred, hgr, hrec, hact, hexact, hown, hred, Bool.not_true, Bool.false_eq_true, ↓reduceIte]

/-- an expired code presented by its owner (who passes every other check) is answered `invalid_request` -/
theorem redeemVerdict_expired (cfg : Config) (now : Time) (q : RedeemReq) (st : Store) (clients : List Client)
    (client : Client) (rec : CodeRec)
    (hcl : clients.find? (fun c => c.id == q.clientId) = some client) (hcred : (client.isPublic || q.credOk) = true)
    (hgr : client.grants.contains "authorization_code" = true)
    (hrec : q.code.sig.bind (alookup st.codes) = some rec) (hact : rec.active = true) (hexact : q.code.exact = true)
    (hown : (rec.req.client.id == client.id) = true)
    (hred : (rec.req.formGet "redirect_uri" != "" && rec.req.formGet "redirect_uri" != q.redirect) = false)
    (hpk : pkceVerdict cfg (q.code.sig.bind (alookup st.pkce)) q.verifier client.isPublic = none)
    (hexp : expiredAt rec.req.sess.expCode now cfg.codeLife now = true) :
    redeemVerdict cfg now q st clients = .refuse .invalid_request := by
  simp only [redeemVerdict, hcl, hcred, hgr, hrec, hact, hexact, hown, hred, hpk, hexp, Bool.not_true, Bool.false_eq_true, ↓reduceIte]

/-- … and an expired code is never redeemed, whoever presents it: the verdict is a refusal or the replay branch -/
theorem redeemVerdict_expired_any (cfg : Config) (now : Time) (q : RedeemReq) (st : Store) (clients : List Client) (rec : CodeRec)
    (hrec : q.code.sig.bind (alookup st.codes) = some rec)
    (hexp : expiredAt rec.req.sess.expCode now cfg.codeLife now = true) :
    ∀ client rec', redeemVerdict cfg now q st clients ≠ .issue client rec' := by
  intro client rec' h
  have hi := redeemVerdict_issue cfg now q st clients client rec' h
  rw [hrec] at hi
  obtain ⟨_, _, _, h4, _, _, _, _, _, h10⟩ := hi
  cases h4
  rw [hexp] at h10; cases h10

theorem redeemPure_refuse (cfg now q ss e) (h : redeemVerdict cfg now q ss.store ss.clients = .refuse e) :
    redeemPure cfg now q ss = ({ ss with next := ss.next + 1 }, .err e) := by
  simp only [redeemPure, h]

/-- **A refusal outside the replay branch writes nothing**: whenever the answer is not a token
    response, the code is not a replayed one and the code's OIDC session (if any) is well-formed,
    the request was refused by one of the checks and the state is the old one with the mint counter
    advanced by the request id. -/
theorem redeemPure_not_tokens (cfg : Config) (now : Time) (q : RedeemReq) (ss : SState)
    (hnr : NotReplay ss q) (hoidc : OidcSessionOk ss q) (hout : (redeemPure cfg now q ss).2.tokensIssued = false) :
    ∃ e, redeemVerdict cfg now q ss.store ss.clients = .refuse e ∧
      redeemPure cfg now q ss = ({ ss with next := ss.next + 1 }, .err e) := by
  cases hv : redeemVerdict cfg now q ss.store ss.clients with
  | refuse e => exact ⟨e, rfl, redeemPure_refuse cfg now q ss e hv⟩
  | replay rec =>
    obtain ⟨h1, h2⟩ := redeemVerdict_replay cfg now q _ _ rec hv
    rw [hnr rec h1] at h2; cases h2
  | issue client rec =>
    obtain ⟨_, _, hgr, hrec, _⟩ := redeemVerdict_issue cfg now q _ _ client rec hv
    obtain ⟨b, hb⟩ := oidcVerdict_ok (q.code.sig.bind (alookup ss.store.oidc)) client hgr (fun r hr => hoidc r rec hr hrec)
    simp only [redeemPure, hv, redeemIssue, hb, Out.tokensIssued] at hout
    cases hout

/-- an answer with the minted signatures blanked: what a client can observe of a response apart
    from the token values themselves -/
def Out.shape : Out → Out
  | .tokens _ rt i e sc => .tokens 0 (rt.map (fun _ => 0)) i e sc
  | o => o

/-- **The answer does not depend on the mint counter** (nor on anything but the token tables and the
    client registry): same outcome class, same scopes, same `expires_in`, same presence of a refresh
    token and of an ID token. -/
theorem redeemPure_shape_congr (cfg : Config) (now : Time) (q : RedeemReq) (ss ss' : SState)
    (hs : ss'.store = ss.store) (hc : ss'.clients = ss.clients) :
    (redeemPure cfg now q ss').2.shape = (redeemPure cfg now q ss).2.shape := by
  simp only [redeemPure, hs, hc]
  cases redeemVerdict cfg now q ss.store ss.clients with
  | refuse e => rfl
  | replay rec => rfl
  | issue client rec =>
    simp only [redeemIssue]
    cases oidcVerdict (q.code.sig.bind (alookup ss.store.oidc)) client with
    | error e => rfl
    | ok b => simp only [Out.shape]; split <;> rfl


/-- the replay branch: the answer is `invalid_grant`; only access and refresh tokens are touched -/
theorem redeemPure_replay (cfg now q ss rec) (h : redeemVerdict cfg now q ss.store ss.clients = .replay rec) :
    (redeemPure cfg now q ss).2 = .err .invalid_grant ∧
    (redeemPure cfg now q ss).1.store.codes = ss.store.codes ∧ (redeemPure cfg now q ss).1.store.pkce = ss.store.pkce ∧
    (redeemPure cfg now q ss).1.store.oidc = ss.store.oidc ∧ (redeemPure cfg now q ss).1.clients = ss.clients ∧
    (redeemPure cfg now q ss).1.next = ss.next + 1 := by
  simp only [redeemPure, h, SState.exec, revokeAccessS]
  refine ⟨trivial, ?_⟩
  unfold revokeRefreshS
  (repeat' split) <;> simp

/-- exact shift of the minted signatures when the mint counter is one further -/
def Out.shift (d : Nat) : Out → Out
  | .tokens a rt i e sc => .tokens (a + d) (rt.map (· + d)) i e sc
  | o => o

/-- the same request against the same tables with the counter one further gets the same answer
    with the fresh signatures one further -/
theorem redeemPure_shift (cfg : Config) (now : Time) (q : RedeemReq) (ss : SState) :
    (redeemPure cfg now q { ss with next := ss.next + 1 }).2 = (redeemPure cfg now q ss).2.shift 1 := by
  simp only [redeemPure]
  cases redeemVerdict cfg now q ss.store ss.clients with
  | refuse e => rfl
  | replay rec => rfl
  | issue client rec =>
    simp only [redeemIssue]
    cases oidcVerdict (q.code.sig.bind (alookup ss.store.oidc)) client with
    | error e => rfl
    | ok b => simp only [Out.shift]; split <;> rfl

/-! ### refusals issue nothing: the storage-call log -/

/-- the calls that store a new access or refresh token -/
def Call.isIssue : Call → Bool
  | .createAccess _ | .createRefresh _ _ => true
  | _ => false

theorem exec_next_issue (ss : SState) (c : Call) : ss.next + (if c.isIssue then 1 else 0) ≤ (ss.exec c).1.next := by
  cases hi : c.isIssue with
  | false => simp only [Bool.false_eq_true, if_false, Nat.add_zero]; exact exec_next_mono ss c
  | true => cases c <;> simp_all [Call.isIssue, SState.exec]

/-- every logged token-creating call advanced the mint counter -/
theorem evalS_next_issue {α} (p : Prog α) (ss : SState) :
    ss.next + ((evalS ss p).2.2.filter (fun e => e.1.isIssue)).length ≤ (evalS ss p).1.next := by
  induction p generalizing ss with
  | ret a => simp [evalS]
  | call c k ih =>
    have h1 := exec_next_issue ss c
    have h2 := ih (ss.exec c).2 (ss.exec c).1
    simp only [evalS]
    cases hi : c.isIssue with
    | false =>
      simp only [hi, Bool.false_eq_true, if_false, Nat.add_zero] at h1
      split
      · omega
      · simp only [List.filter_cons, hi, Bool.false_eq_true, if_false]; omega
    | true =>
      simp only [hi, if_true] at h1
      have hst : (c.isSilent || c.isTx) = false := by cases c <;> simp_all [Call.isIssue, Call.isSilent, Call.isTx]
      simp only [hst, Bool.false_eq_true, if_false, List.filter_cons, hi, if_true, List.length_cons]
      omega

theorem redeemProg_first (cfg : Config) (now : Time) (q : RedeemReq) : ∃ k, redeemProg cfg now q = Prog.call .newId k :=
  ⟨_, rfl⟩

/-- if a redemption leaves the mint counter at "old + request id", no token-creating call was made -/
theorem redeem_log_no_issue (cfg : Config) (now : Time) (q : RedeemReq) (ss : SState)
    (h : (evalS ss (redeemProg cfg now q)).1.next = ss.next + 1) :
    ∀ e ∈ (evalS ss (redeemProg cfg now q)).2.2, e.1.isIssue = false := by
  obtain ⟨k, hk⟩ := redeemProg_first cfg now q
  rw [hk] at h ⊢
  have hle := evalS_next_issue (k (ss.exec .newId).2) (ss.exec .newId).1
  simp only [evalS, Call.isSilent, Bool.true_or, if_true] at h ⊢
  rw [h] at hle
  have hn : (ss.exec .newId).1.next = ss.next + 1 := rfl
  rw [hn] at hle
  have hz : ((evalS (ss.exec .newId).1 (k (ss.exec .newId).2)).2.2.filter (fun e => e.1.isIssue)).length = 0 := by omega
  intro e he
  cases hi : e.1.isIssue with
  | false => rfl
  | true =>
    have : e ∈ (evalS (ss.exec .newId).1 (k (ss.exec .newId).2)).2.2.filter (fun e => e.1.isIssue) :=
      List.mem_filter.mpr ⟨he, hi⟩
    rw [List.length_eq_zero_iff.mp hz] at this
    cases this


end Fosite.Model

/-
  How one interpreter step relates to one store operation, and what the store operations do.
-/
import Fosite.Proofs.WP
namespace Fosite.Model

/-- a step whose result is not an injected failure is exactly the store operation -/
theorem step_eq_exec (rc : RunCfg) (rs : RState) (c : Call) (hc : c.isTx = false) (r : Res)
    (h : (rs.step rc c).2 = r) (hnf : ∀ e, r ≠ .fail e) :
    (rs.step rc c).1.ss = (rs.ss.exec c).1 ∧ (rs.ss.exec c).2 = r := by
  unfold RState.step at h ⊢
  by_cases hs : c.isSilent = true
  · simp only [hs, if_true] at h ⊢
    exact ⟨trivial, h⟩
  · simp only [hs, hc, Bool.false_and, Bool.false_eq_true, if_false] at h ⊢
    cases hp : rc.plan rs.idx with
    | some e => simp only [hp] at h; exact absurd h.symm (hnf e)
    | none =>
      simp only [hp] at h ⊢
      cases c <;> simp_all [Call.isTx]

/-- an injected failure leaves the store untouched -/
theorem step_fail_ss (rc : RunCfg) (rs : RState) (c : Call) (e : Err)
    (h : (rs.step rc c).2 = .fail e) (hx : ∀ e', (rs.ss.exec c).2 ≠ .fail e') : (rs.step rc c).1.ss = rs.ss := by
  unfold RState.step at h ⊢
  by_cases hs : c.isSilent = true
  · simp only [hs, if_true] at h ⊢
    exact absurd h (hx e)
  · simp only [hs, Bool.false_eq_true, if_false] at h ⊢
    split
    · rfl
    · cases hp : rc.plan rs.idx with
      | some e' => rfl
      | none =>
        simp only [hp] at h ⊢
        cases c <;> simp_all [Call.isTx] <;> exact absurd h (hx e)

/-- `MaybeBeginTx` / `MaybeCommitTx` never change the store contents -/
theorem step_begin_ss (rc : RunCfg) (rs : RState) : (rs.step rc .beginTx).1.ss = rs.ss := by
  unfold RState.step
  simp only [Call.isSilent, Call.isTx, Bool.false_eq_true, if_false, Bool.true_and]
  by_cases ht : rc.tx = true
  · simp only [ht, Bool.not_true, Bool.false_eq_true, if_false]
    cases rc.plan rs.idx <;> rfl
  · simp [ht]

theorem step_commit_ss (rc : RunCfg) (rs : RState) : (rs.step rc .commitTx).1.ss = rs.ss := by
  unfold RState.step
  simp only [Call.isSilent, Call.isTx, Bool.false_eq_true, if_false, Bool.true_and]
  by_cases ht : rc.tx = true
  · simp only [ht, Bool.not_true, Bool.false_eq_true, if_false]
    cases rc.plan rs.idx <;> rfl
  · simp [ht]

/-! ### read-only calls -/

@[simp] theorem exec_getClient_fst (ss : SState) (id : String) : (ss.exec (.getClient id)).1 = ss := by
  simp only [SState.exec]; split <;> rfl
@[simp] theorem exec_getCode_fst (ss : SState) (k) : (ss.exec (.getCode k)).1 = ss := by
  simp only [SState.exec]; split <;> (try split) <;> rfl
@[simp] theorem exec_getAccess_fst (ss : SState) (k) : (ss.exec (.getAccess k)).1 = ss := by
  simp only [SState.exec]; split <;> rfl
@[simp] theorem exec_getRefresh_fst (ss : SState) (k) : (ss.exec (.getRefresh k)).1 = ss := by
  simp only [SState.exec]; split <;> (try split) <;> rfl
@[simp] theorem exec_getPKCE_fst (ss : SState) (k) : (ss.exec (.getPKCE k)).1 = ss := by
  simp only [SState.exec]; split <;> rfl
@[simp] theorem exec_getOIDC_fst (ss : SState) (k) : (ss.exec (.getOIDC k)).1 = ss := by
  simp only [SState.exec]; split <;> rfl

/-! ### what a successful lookup tells about the store -/

theorem exec_getCode_req (ss : SState) (k : Option Nat) (x : Req) (h : (ss.exec (.getCode k)).2 = .req x) :
    ∃ sig rec, k = some sig ∧ alookup ss.store.codes sig = some rec ∧ rec.active = true ∧ rec.req = x := by
  simp only [SState.exec] at h
  cases k with
  | none => simp at h
  | some sig =>
    simp only [Option.bind_some] at h
    cases hl : alookup ss.store.codes sig with
    | none => simp [hl] at h
    | some rec =>
      simp only [hl] at h
      by_cases ha : rec.active = true
      · simp only [ha, if_true] at h
        exact ⟨sig, rec, rfl, hl, ha, by cases h; rfl⟩
      · simp [ha] at h

theorem exec_getCode_inactive (ss : SState) (k : Option Nat) (x : Req) (h : (ss.exec (.getCode k)).2 = .inactive x) :
    ∃ sig rec, k = some sig ∧ alookup ss.store.codes sig = some rec ∧ rec.active = false ∧ rec.req = x := by
  simp only [SState.exec] at h
  cases k with
  | none => simp at h
  | some sig =>
    simp only [Option.bind_some] at h
    cases hl : alookup ss.store.codes sig with
    | none => simp [hl] at h
    | some rec =>
      simp only [hl] at h
      by_cases ha : rec.active = true
      · simp [ha] at h
      · simp only [ha, Bool.false_eq_true, if_false] at h
        exact ⟨sig, rec, rfl, hl, by simpa using ha, by cases h; rfl⟩

theorem exec_getRefresh_req (ss : SState) (k : Option Nat) (x : Req) (h : (ss.exec (.getRefresh k)).2 = .req x) :
    ∃ sig rec, k = some sig ∧ alookup ss.store.refresh sig = some rec ∧ rec.active = true ∧ rec.req = x := by
  simp only [SState.exec] at h
  cases k with
  | none => simp at h
  | some sig =>
    simp only [Option.bind_some] at h
    cases hl : alookup ss.store.refresh sig with
    | none => simp [hl] at h
    | some rec =>
      simp only [hl] at h
      by_cases ha : rec.active = true
      · simp only [ha, if_true] at h
        exact ⟨sig, rec, rfl, hl, ha, by cases h; rfl⟩
      · simp [ha] at h

theorem exec_getAccess_req (ss : SState) (k : Option Nat) (x : Req) (h : (ss.exec (.getAccess k)).2 = .req x) :
    ∃ sig, k = some sig ∧ alookup ss.store.access sig = some x := by
  simp only [SState.exec] at h
  cases k with
  | none => simp at h
  | some sig =>
    simp only [Option.bind_some] at h
    cases hl : alookup ss.store.access sig with
    | none => simp [hl] at h
    | some r => simp only [hl] at h; exact ⟨sig, rfl, by cases h; exact hl⟩

theorem exec_getClient_client (ss : SState) (id : String) (c : Client) (h : (ss.exec (.getClient id)).2 = .client c) :
    c ∈ ss.clients ∧ c.id = id := by
  simp only [SState.exec] at h
  cases hf : ss.clients.find? (fun c => c.id == id) with
  | none => simp [hf] at h
  | some c' =>
    simp only [hf] at h
    cases h
    exact ⟨List.mem_of_find?_eq_some hf, by simpa using List.find?_some hf⟩

theorem exec_never_fails (ss : SState) (c : Call) (e : Err) : (ss.exec c).2 ≠ .fail e := by
  cases c <;> simp only [SState.exec, revokeRefreshS, revokeAccessS] <;> (repeat' split) <;> simp_all

/-- no storage call fails unexpectedly -/
def NoFaults (rc : RunCfg) : Prop := ∀ i, rc.plan i = none

theorem step_no_fail (rc : RunCfg) (hnf : NoFaults rc) (rs : RState) (c : Call) (e : Err) :
    (rs.step rc c).2 ≠ .fail e := by
  unfold RState.step
  by_cases hs : c.isSilent = true
  · simp only [hs, if_true]; exact exec_never_fails _ _ _
  · simp only [hs, Bool.false_eq_true, if_false]
    split
    · simp
    · simp only [hnf rs.idx]
      cases c <;> simp <;> exact exec_never_fails _ _ _

end Fosite.Model

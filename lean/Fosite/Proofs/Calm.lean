/- Programs that never issue a guarded call (`calm`): error paths, revocation, introspection. -/
import Fosite.Proofs.Safe
import Fosite.Model.Step
namespace Fosite.Model

/-- the call is none of `createCode` / `createRefresh` / `createDevice` / `createPAR` -/
def Guardless (c : Call) : Prop := c.guarded = false

theorem calm_ret {α} (a : α) : calm (Prog.ret a) := trivial
theorem calm_pure {α} (a : α) : calm (pure a : Prog α) := trivial
theorem calm_pbind {α β} (p : Prog α) (f : α → Prog β) (hp : calm p) (hf : ∀ a, calm (f a)) : calm (p >>= f) :=
  calm_bind p f hp hf
theorem calm_call' (c : Call) (h : Guardless c) : calm (call c) := calm_call c h
theorem calm_retErr (e : Err) : calm (retErr e) := trivial

/-- calmness of handler programs -/
def calmH {α} (x : HP α) : Prop := calm x.toProg

theorem calmH_ok {α} (a : α) : calmH (HP.ok a) := trivial
theorem calmH_pure {α} (a : α) : calmH (pure a : HP α) := trivial
theorem calmH_fail {α} (e : Err) : calmH (HP.fail e : HP α) := trivial
theorem calmH_failWith {α} (p : Prog Err) (h : calm p) : calmH (HP.failWith p : HP α) :=
  calm_bind p _ h (fun _ => trivial)
theorem calmH_bind {α β} (x : HP α) (f : α → HP β) (hx : calmH x) (hf : ∀ a, calmH (f a)) : calmH (x >>= f) := by
  show calm (HP.bind x f).toProg
  unfold HP.bind HP.mk HP.toProg
  apply calm_bind _ _ hx
  intro r; cases r with
  | ok a => exact hf a
  | error e => trivial
theorem calmH_guard (c : Bool) (e : Err) : calmH (HP.guard c e) := by
  unfold HP.guard; split <;> trivial
theorem calmH_lift {α} (p : Prog α) (h : calm p) : calmH (HP.lift p) := calm_bind p _ h (fun _ => trivial)
theorem calmH_callH (c : Call) (h : Guardless c) : calmH (callH c) := calmH_lift _ (calm_call' c h)
theorem calmH_expectReq (c : Call) (other) (h : Guardless c) (ho : ∀ r, calm (other r)) : calmH (expectReq c other) := by
  refine ⟨h, fun res => ?_⟩
  cases res <;> first | trivial | exact calmH_failWith _ (ho _)
theorem calmH_expectNat (c : Call) (other) (h : Guardless c) (ho : ∀ r, calm (other r)) : calmH (expectNat c other) := by
  refine ⟨h, fun res => ?_⟩
  cases res <;> first | trivial | exact calmH_failWith _ (ho _)
theorem calmH_expectOk (c : Call) (other) (h : Guardless c) (ho : ∀ e, calm (other e)) : calmH (expectOk c other) := by
  refine ⟨h, fun res => ?_⟩
  show calm (match res.errKind with | none => _ | some e => _)
  cases res.errKind <;> first | trivial | exact calmH_failWith _ (ho _)
theorem calmH_expectClient (c : Call) (e) (h : Guardless c) : calmH (expectClient c e) := by
  refine ⟨h, fun res => ?_⟩
  cases res <;> trivial
theorem calmH_optErr (o : Option Err) : calmH (optErr o) := by cases o <;> trivial

theorem calm_run (x : HP Out) (h : calmH x) : calm x.run := by
  unfold HP.run
  apply calm_bind _ _ h
  intro r; cases r <;> trivial

macro "guardless" : tactic => `(tactic| (show Call.guarded _ = false; rfl))

/-! ### the error-path programs -/

theorem calm_rollbackThen (e : Err) : calm (rollbackThen e) := by
  unfold rollbackThen
  apply calm_pbind _ _ (calm_call' _ (by guardless))
  intro r; split <;> trivial

theorem calm_refreshStorageError (e : Err) : calm (refreshStorageError e) := by
  unfold refreshStorageError
  apply calm_pbind _ _ (calm_call' _ (by guardless))
  intro r; split <;> trivial

theorem calm_refreshReuse (sig : Option Nat) (rid : Nat) : calm (refreshReuse sig rid) := by
  unfold refreshReuse
  apply calm_pbind _ _ (calm_call' _ (by guardless)); intro r
  split
  · trivial
  · apply calm_pbind _ _ (calm_call' _ (by guardless)); intro r
    split
    · exact calm_refreshStorageError _
    · apply calm_pbind _ _ (calm_call' _ (by guardless)); intro r
      show calm (if _ then _ else _)
      split
      · exact calm_refreshStorageError _
      · apply calm_pbind _ _ (calm_call' _ (by guardless)); intro r
        show calm (if _ then _ else _)
        split
        · exact calm_refreshStorageError _
        · apply calm_pbind _ _ (calm_call' _ (by guardless)); intro r
          split
          · exact calm_refreshStorageError _
          · trivial

theorem calm_redeemLookupFailed (r : Res) : calm (redeemLookupFailed r) := by
  unfold redeemLookupFailed
  split
  · apply calm_pbind _ _ (calm_call' _ (by guardless)); intro _
    apply calm_pbind _ _ (calm_call' _ (by guardless)); intro _
    trivial
  · split <;> trivial

theorem calm_refreshLookupFailed (sig : Option Nat) (r : Res) : calm (refreshLookupFailed sig r) := by
  unfold refreshLookupFailed
  split
  · exact calm_refreshReuse _ _
  · split <;> trivial

/-! ### whole endpoints that are calm -/

theorem calmH_authenticate (id : String) (ok : Bool) : calmH (authenticate id ok) := by
  unfold authenticate
  apply calmH_bind _ _ (calmH_expectClient _ _ (by guardless)); intro c
  apply calmH_bind _ _ (calmH_guard _ _); intro _
  exact calmH_pure _

theorem calmH_revocationError (e1 e2 : Option Err) : calmH (revocationError e1 e2) := by
  unfold revocationError; split <;> trivial

theorem calmH_revokeFound (client : Client) (ar : Req) : calmH (revokeH.revokeFound client ar) := by
  unfold revokeH.revokeFound
  apply calmH_bind _ _ (calmH_guard _ _); intro _
  apply calmH_bind _ _ (calmH_callH _ (by guardless)); intro _
  apply calmH_bind _ _ (calmH_callH _ (by guardless)); intro _
  exact calmH_revocationError _ _

theorem calm_revokeProg (q : RevokeReq) : calm (revokeProg q) := by
  apply calm_run
  unfold revokeH
  apply calmH_bind _ _ (calmH_authenticate _ _); intro client
  apply calmH_bind _ _ (calmH_callH _ (by unfold revokeFirst; split <;> guardless)); intro r1
  split
  · exact calmH_revokeFound _ _
  · apply calmH_bind _ _ (calmH_callH _ (by unfold revokeSecond; split <;> guardless)); intro r2
    split
    · exact calmH_revokeFound _ _
    · exact calmH_revocationError _ _

theorem calmH_introspectAccess (cfg now q) : calmH (introspectAccess cfg now q) := by
  unfold introspectAccess
  apply calmH_bind _ _ (calmH_expectReq _ _ (by guardless) (fun _ => calm_retErr _)); intro r
  apply calmH_bind _ _ (calmH_guard _ _); intro _
  apply calmH_bind _ _ (calmH_guard _ _); intro _
  apply calmH_bind _ _ (calmH_guard _ _); intro _
  exact calmH_pure _

theorem calmH_introspectRefresh (cfg now q) : calmH (introspectRefresh cfg now q) := by
  unfold introspectRefresh
  apply calmH_bind _ _ (calmH_expectReq _ _ (by guardless) (fun _ => calm_retErr _)); intro r
  apply calmH_bind _ _ (calmH_guard _ _); intro _
  apply calmH_bind _ _ (calmH_guard _ _); intro _
  apply calmH_bind _ _ (calmH_guard _ _); intro _
  exact calmH_pure _

theorem calm_introspectProg (cfg now q) : calm (introspectProg cfg now q) := by
  unfold introspectProg attempt
  split
  · apply calm_pbind _ _ (calmH_introspectAccess cfg now q); intro r; split <;> trivial
  · split
    · apply calm_pbind _ _ (calmH_introspectRefresh cfg now q); intro r
      split
      · trivial
      · apply calm_pbind _ _ (calmH_introspectAccess cfg now q); intro r; split <;> trivial
    · apply calm_pbind _ _ (calmH_introspectAccess cfg now q); intro r
      split
      · trivial
      · apply calm_pbind _ _ (calmH_introspectRefresh cfg now q); intro r; split <;> trivial

theorem calm_introspectEndpointProg (cfg now q) : calm (introspectEndpointProg cfg now q) := by
  unfold introspectEndpointProg
  have hinspect : calm (do
      match ← introspectProg cfg now q.q with
      | .active use x => return .active use x
      | _ => return Out.inactive .token_inactive : Prog Out) := by
    apply calm_pbind _ _ (calm_introspectProg cfg now q.q); intro r; split <;> trivial
  cases q.caller with
  | bearer tok identical =>
    simp only
    split
    · trivial
    · apply calm_pbind _ _ (calm_introspectProg cfg now _); intro r
      split
      · split
        · trivial
        · exact hinspect
      · trivial
  | basic id secretOk =>
    simp only
    apply calm_pbind _ _ (calm_call' _ (by guardless)); intro r
    split
    · split
      · exact hinspect
      · trivial
    · trivial
  | anonymous => trivial

end Fosite.Model

/-
  Success-path characterisation of `grant_type=refresh_token`.
-/
import Fosite.Proofs.Inv
namespace Fosite.Model

/-- What a successful refresh tells about the state before it, and the exact state it leaves. -/
structure RefreshOk (cfg : Config) (now : Time) (q : RefreshReq) (ss ss' : SState)
    (atk : Nat) (rt : Option Nat) (sc : List String) : Prop where
  ex : ∃ sig rec client,
    q.token.sig = some sig ∧ alookup ss.store.refresh sig = some rec ∧ rec.active = true ∧ q.token.exact = true ∧
    client ∈ ss.clients ∧ client.id = q.clientId ∧ (client.isPublic || q.credOk) = true ∧
    client.grants.contains "refresh_token" = true ∧
    refreshExpired rec.req now = false ∧
    (cfg.refreshScopes.isEmpty || hasOneOf rec.req.grantedScopes cfg.refreshScopes) = true ∧
    rec.req.client.id = client.id ∧
    scopesStillAllowed cfg client rec.req.grantedScopes = true ∧
    audienceMatch cfg.audStrategy client.audience rec.req.grantedAud = none ∧
    sc = appendAllUniq [] rec.req.grantedScopes ∧
    -- the state afterwards: rotate by request id, then the two creates
    (let s1 := (ss.exec .newId).1
     let s2 := (s1.exec (.rotateRefresh rec.req.id (some sig))).1
     let sreq := (refreshStoreReq cfg now q client rec.req).sanitize []
     let s3 := (s2.exec (.createAccess sreq)).1
     let s4 := (s3.exec (.createRefresh s2.next sreq)).1
     (s1.exec (.rotateRefresh rec.req.id (some sig))).2.errKind = none ∧
     atk = s2.next ∧ rt = some s3.next ∧ ss' = s4)

theorem exec_createAccess_nat (ss : SState) (r : Req) (n : Nat) (h : (ss.exec (.createAccess r)).2 = .nat n) : n = ss.next := by
  simp only [SState.exec] at h; cases h; rfl
theorem exec_createRefresh_nat (ss : SState) (a) (r : Req) (n : Nat) (h : (ss.exec (.createRefresh a r)).2 = .nat n) : n = ss.next := by
  simp only [SState.exec] at h; cases h; rfl

theorem optErr_audience (rc) (o : Option Err) (Q) (rs) : wpOk rc (optErr o) Q rs ↔ (o = none → Q rs ()) := optErr_ok rc o Q rs

theorem refresh_wp (rc : RunCfg) (hnf : NoFaults rc) (cfg : Config) (now : Time) (q : RefreshReq) (rs : RState) :
    wpOk rc (refreshH cfg now q)
      (fun rs' o => ∀ a r i e sc, o = .tokens a r i e sc → RefreshOk cfg now q rs.ss rs'.ss a r sc) rs := by
  unfold refreshH
  simp only [wpOk_bind, wpOk_callH, wpOk_expectReq, wpOk_expectNat, wpOk_expectOk, wpOk_guard, wpOk_pure,
    authenticate, wpOk_expectClient, wpOk_ite, wpOk_ok, optErr_ok]
  intro client hcl hcred hgr orig hgr1 hexp hexact hrs hcid hsc haud hbegin hrot atk hat rt hrt hcommit hoidc
  have nf : ∀ rs c e, (RState.step rc rs c).2 ≠ .fail e := fun rs c e => step_no_fail rc hnf rs c e
  have h1 := step_eq_exec rc rs .newId rfl _ rfl (nf _ _)
  have h2 := step_eq_exec rc (rs.step rc .newId).1 (.getClient q.clientId) rfl _ hcl (by intro e; simp)
  have h3 := step_eq_exec rc _ (.getRefresh q.token.sig) rfl _ hgr1 (by intro e; simp)
  rw [exec_getClient_fst] at h2
  rw [exec_getRefresh_fst] at h3
  obtain ⟨hclm, hclid⟩ := exec_getClient_client _ _ _ h2.2
  rw [h1.1, (exec_newId_ss rs.ss).2] at hclm
  obtain ⟨sig, rec, hsig, hrec, hact, hreq⟩ := exec_getRefresh_req _ _ _ h3.2
  rw [h2.1, h1.1, (exec_newId_ss rs.ss).1] at hrec
  subst hreq
  -- the issuing bracket
  have h4 := step_begin_ss rc (RState.step rc (RState.step rc (RState.step rc rs .newId).1 (.getClient q.clientId)).1 (.getRefresh q.token.sig)).1
  have hss4 : (RState.step rc (RState.step rc (RState.step rc (RState.step rc rs .newId).1 (.getClient q.clientId)).1 (.getRefresh q.token.sig)).1 .beginTx).1.ss
      = (rs.ss.exec .newId).1 := by rw [h4, h3.1, h2.1, h1.1]
  have h5 := step_eq_exec rc _ (.rotateRefresh (refreshStoreReq cfg now q client rec.req).id q.token.sig) rfl _ rfl
    (by intro e he; rw [he] at hrot; simp [Res.errKind] at hrot)
  have h6 := step_eq_exec rc _ (.createAccess _) rfl _ hat (by intro e; simp)
  have h7 := step_eq_exec rc _ (.createRefresh atk _) rfl _ hrt (by intro e; simp)
  have h8 := step_commit_ss rc (RState.step rc (RState.step rc (RState.step rc (RState.step rc
      (RState.step rc (RState.step rc (RState.step rc rs .newId).1 (.getClient q.clientId)).1 (.getRefresh q.token.sig)).1 .beginTx).1
      (.rotateRefresh (refreshStoreReq cfg now q client rec.req).id q.token.sig)).1
      (.createAccess ((refreshStoreReq cfg now q client rec.req).sanitize []))).1
      (.createRefresh atk ((refreshStoreReq cfg now q client rec.req).sanitize []))).1
  intro a r i e sc ho
  cases ho
  have hid : (refreshStoreReq cfg now q client rec.req).id = rec.req.id := rfl
  rw [hss4] at h5
  rw [h5.1] at h6
  rw [h6.1] at h7
  rw [h7.1] at h8
  have hatk := exec_createAccess_nat _ _ _ h6.2
  have hrtn := exec_createRefresh_nat _ _ _ _ h7.2
  refine ⟨sig, rec, client, hsig, hrec, hact, hexact, hclm, hclid, hcred, hgr, by simpa using hexp, hrs,
    by simpa using hcid, hsc, haud, rfl, ?_⟩
  simp only
  rw [← hsig, ← hid]
  refine ⟨?_, hatk, ?_, ?_⟩
  · rw [h5.2]; exact hrot
  · rw [hrtn]
  · rw [h8, hatk]

/-- **Characterisation of a successful refresh** (any state, any request; fault-free runs). -/
theorem refresh_success (rc : RunCfg) (hnf : NoFaults rc) (cfg : Config) (now : Time) (q : RefreshReq) (rs : RState)
    (a : Nat) (r : Option Nat) (i : Bool) (e : Int) (sc : List String)
    (h : (run rc rs (refreshProg cfg now q)).2 = .tokens a r i e sc) :
    RefreshOk cfg now q rs.ss (run rc rs (refreshProg cfg now q)).1.ss a r sc :=
  run_HP_ok rc (refreshH cfg now q) rs _ _ (refresh_wp rc hnf cfg now q rs) h (by intro e; simp) a r i e sc rfl

end Fosite.Model

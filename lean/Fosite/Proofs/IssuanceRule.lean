/-
  When is a refresh token issued?  Success-path characterisations of the refresh-token decision of the
  device_code grant, the password grant and the client_credentials grant (the code flow's is in
  `Proofs/Redeem.lean`, the refresh flow's in `Proofs/Refresh.lean`), and list lemmas about
  `appendAllUniq` / `hasOneOf`.  Lemmas for `Props/C05b.lean`.
-/
import Fosite.Proofs.DevicePar
import Fosite.Proofs.Introspect
import Fosite.Proofs.Revoke
namespace Fosite.Model

/-! ### `appendAllUniq` keeps exactly the members -/

theorem mem_appendUniq (xs : List String) (x y : String) : y ∈ appendUniq xs x ↔ y ∈ xs ∨ y = x := by
  unfold appendUniq
  by_cases h : xs.contains x = true
  · simp only [h, if_true]
    constructor
    · exact Or.inl
    · rintro (h1 | h1)
      · exact h1
      · subst h1; simpa using h
  · simp only [h, Bool.false_eq_true, if_false, List.mem_append, List.mem_singleton]

theorem mem_foldl_appendUniq (ys xs : List String) (y : String) : y ∈ ys.foldl appendUniq xs ↔ y ∈ xs ∨ y ∈ ys := by
  induction ys generalizing xs with
  | nil => simp
  | cons z zs ih =>
    simp only [List.foldl_cons, ih, mem_appendUniq, List.mem_cons]
    constructor
    · rintro ((h | h) | h)
      · exact Or.inl h
      · exact Or.inr (Or.inl h)
      · exact Or.inr (Or.inr h)
    · rintro (h | h | h)
      · exact Or.inl (Or.inl h)
      · exact Or.inl (Or.inr h)
      · exact Or.inr h

theorem mem_appendAllUniq (xs ys : List String) (y : String) : y ∈ appendAllUniq xs ys ↔ y ∈ xs ∨ y ∈ ys :=
  mem_foldl_appendUniq ys xs y

theorem mem_appendAllUniq_nil (ys : List String) (y : String) : y ∈ appendAllUniq [] ys ↔ y ∈ ys := by
  rw [mem_appendAllUniq]; simp

theorem hasOneOf_congr (h1 h2 needles : List String) (h : ∀ y, y ∈ h1 ↔ y ∈ h2) :
    hasOneOf h1 needles = hasOneOf h2 needles := by
  unfold hasOneOf
  rw [Bool.eq_iff_iff]
  simp only [List.any_eq_true, List.contains_iff_mem, h]

/-- the refresh-scope test does not care about the de-duplication of the granted list -/
theorem hasOneOf_appendAllUniq (granted needles : List String) :
    hasOneOf (appendAllUniq [] granted) needles = hasOneOf granted needles :=
  hasOneOf_congr _ _ _ (mem_appendAllUniq_nil granted)

theorem hasOneOf_iff (hay needles : List String) : hasOneOf hay needles = true ↔ ∃ x, x ∈ needles ∧ x ∈ hay := by
  unfold hasOneOf
  simp only [List.any_eq_true, List.contains_iff_mem]



theorem wpOk_deviceStateGate (rc) (d : DevRec) (Q : RState → Unit → Prop) (rs) :
    wpOk rc (deviceStateGate d) Q rs ↔ (d.state ≠ 0 → d.state ≠ 2 → Q rs ()) := by
  unfold deviceStateGate
  by_cases h0 : d.state = 0
  · simp [h0, wpOk_fail]
  · by_cases h2 : d.state = 2
    · simp [h2, wpOk_fail]
    · simp [h0, h2, wpOk_ok]

/-- the refresh-token decision of the device flow, as the handler takes it -/
def deviceWantRT (cfg : Config) (client : Client) (d : DevRec) : Bool :=
  (cfg.refreshScopes.isEmpty || hasOneOf d.req.grantedScopes cfg.refreshScopes) && client.grants.contains "refresh_token"

/-- What a successful device-code exchange tells about the state before it, and about the refresh token. -/
structure DevicePollRT (cfg : Config) (now : Time) (q : DevicePollReq) (ss : SState) (rt : Option Nat) (sc : List String) : Prop where
  ex : ∃ sig d client,
    q.code.sig = some sig ∧ alookup ss.store.device sig = some d ∧ d.used = false ∧ d.state = 1 ∧
    ss.clients.find? (fun c => c.id == q.clientId) = some client ∧
    d.req.client.id = client.id ∧
    rt.isSome = deviceWantRT cfg client d ∧
    sc = appendAllUniq [] d.req.grantedScopes

theorem exec_getClient_find (ss : SState) (id : String) (c : Client) (h : (ss.exec (.getClient id)).2 = .client c) :
    ss.clients.find? (fun c => c.id == id) = some c := by
  simp only [SState.exec] at h
  cases hf : ss.clients.find? (fun c => c.id == id) with
  | none => simp [hf] at h
  | some c' => simp only [hf] at h; cases h; rfl

theorem devicePoll_rt_wp (rc : RunCfg) (hnf : NoFaults rc) (cfg : Config) (now : Time) (q : DevicePollReq) (rs : RState) :
    wpOk rc (devicePollH cfg now q)
      (fun _ o => ∀ a r i e sc, o = .tokens a r i e sc → DevicePollRT cfg now q rs.ss r sc) rs := by
  unfold devicePollH
  simp only [wpOk_bind, wpOk_callH, wpOk_expectDev, authenticate, wpOk_expectClient, wpOk_guard, wpOk_pure,
    wpOk_deviceStateGate, wpOk_expectOk, wpOk_expectNat, wpOk_ite, wpOk_ok]
  intro client hcl hcred hgr d hgd hs0 hs2 hexp hexact hcid d2 hgd2 hst2 hexp2 hbegin hinv atk hat
  have nf : ∀ rs c e, (RState.step rc rs c).2 ≠ .fail e := fun rs c e => step_no_fail rc hnf rs c e
  have h1 := step_eq_exec rc rs .newId rfl _ rfl (nf _ _)
  have h2 := step_eq_exec rc (rs.step rc .newId).1 (.getClient q.clientId) rfl _ hcl (by intro e; simp)
  have h3 := step_eq_exec rc _ (.getDevice q.code.sig) rfl _ hgd (by intro e; simp)
  rw [exec_getClient_fst] at h2
  have hfind := exec_getClient_find _ _ _ h2.2
  rw [h1.1] at hfind
  obtain ⟨sig, hsig, hdev, hunused⟩ := exec_getDevice_dev _ _ _ h3.2
  rw [h2.1, h1.1, (exec_newId_ss rs.ss).1] at hdev
  have h5 := step_eq_exec rc _ (.getDevice q.code.sig) rfl _ hgd2 (by intro e; simp)
  obtain ⟨sig2, hsig2, hdev2, _⟩ := exec_getDevice_dev _ _ _ h5.2
  rw [h3.1, exec_getDevice_fst, h2.1, h1.1, (exec_newId_ss rs.ss).1] at hdev2
  rw [hsig] at hsig2; cases hsig2
  rw [hdev] at hdev2; cases hdev2
  have hfinal : ∀ (rtv : Option Nat), rtv.isSome = deviceWantRT cfg client d →
      DevicePollRT cfg now q rs.ss rtv (deviceStoreReq cfg now q client d d).grantedScopes := by
    intro rtv hrtv
    exact ⟨sig, d, client, hsig, hdev, hunused, by simpa using hst2, hfind, by simpa using hcid, hrtv, rfl⟩
  have hwant : ((cfg.refreshScopes.isEmpty || hasOneOf (deviceStoreReq cfg now q client d d).grantedScopes cfg.refreshScopes) &&
      client.grants.contains "refresh_token") = deviceWantRT cfg client d := by
    unfold deviceWantRT
    show ((cfg.refreshScopes.isEmpty || hasOneOf (appendAllUniq [] d.req.grantedScopes) cfg.refreshScopes) && _) = _
    rw [hasOneOf_appendAllUniq]
  rw [hwant]
  constructor
  · intro hw rt hrt hcommit
    apply wpOk_of_forall
    intro rsE b a r i e sc ho
    cases ho
    exact hfinal _ (by simp [hw])
  · intro hw hcommit
    apply wpOk_of_forall
    intro rsE b a r i e sc ho
    cases ho
    exact hfinal _ (by simpa using hw)




/-- the refresh-token decision of the password grant: the scope rule only -/
def passwordWantRT (cfg : Config) (q : DirectReq) : Bool :=
  cfg.refreshScopes.isEmpty || hasOneOf q.scopes cfg.refreshScopes

/-- What a successful password grant tells about the request and the registration. -/
structure PasswordOk (cfg : Config) (q : DirectReq) (ss : SState) (rt : Option Nat) (sc : List String) : Prop where
  ex : ∃ client,
    ss.clients.find? (fun c => c.id == q.clientId) = some client ∧ (client.isPublic || q.credOk) = true ∧
    client.grants.contains "password" = true ∧
    scopesAllowed cfg client (appendAllUniq [] q.scopes) = true ∧
    audienceMatch cfg.audStrategy client.audience (appendAllUniq [] q.aud) = none ∧
    q.userOk = true ∧
    rt.isSome = passwordWantRT cfg q ∧
    sc = appendAllUniq [] q.scopes

theorem password_wp (rc : RunCfg) (hnf : NoFaults rc) (cfg : Config) (now : Time) (q : DirectReq) (rs : RState) :
    wpOk rc (passwordH cfg now q)
      (fun _ o => ∀ a r i e sc, o = .tokens a r i e sc → PasswordOk cfg q rs.ss r sc) rs := by
  unfold passwordH
  simp only [wpOk_bind, wpOk_callH, authenticate, wpOk_expectClient, wpOk_guard, wpOk_pure, wpOk_expectNat, optErr_ok]
  intro rid hrid client hcl hcred hgr hsc haud huser
  have nf : ∀ rs c e, (RState.step rc rs c).2 ≠ .fail e := fun rs c e => step_no_fail rc hnf rs c e
  have h1 := step_eq_exec rc rs .newId rfl _ hrid (by intro e; simp)
  have h2 := step_eq_exec rc (rs.step rc .newId).1 (.getClient q.clientId) rfl _ hcl (by intro e; simp)
  have hfind := exec_getClient_find _ _ _ h2.2
  rw [h1.1] at hfind
  have h3 := step_eq_exec rc (RState.step rc (RState.step rc rs .newId).1 (.getClient q.clientId)).1
    (.authenticateUser q.username q.userOk) rfl _ rfl (nf _ _)
  generalize (RState.step rc (RState.step rc (RState.step rc rs .newId).1 (.getClient q.clientId)).1
    (.authenticateUser q.username q.userOk)).2 = ures at h3 ⊢
  generalize (RState.step rc (RState.step rc (RState.step rc rs .newId).1 (.getClient q.clientId)).1
    (.authenticateUser q.username q.userOk)).1 = rs3 at h3 ⊢
  have hfinal : ures = .ok → ∀ (rtv : Option Nat), rtv.isSome = passwordWantRT cfg q →
      PasswordOk cfg q rs.ss rtv (appendAllUniq [] q.scopes) := by
    intro hu rtv hrtv
    have huok : q.userOk = true := by
      have := h3.2; rw [hu] at this
      simp only [SState.exec] at this
      by_cases hq : q.userOk = true
      · exact hq
      · simp [hq] at this
    exact ⟨client, hfind, hcred, hgr, hsc, haud, huok, hrtv, rfl⟩
  have hwant : (cfg.refreshScopes.isEmpty || hasOneOf (appendAllUniq [] q.scopes) cfg.refreshScopes) = passwordWantRT cfg q := by
    unfold passwordWantRT; rw [hasOneOf_appendAllUniq]
  cases ures with
  | ok =>
    simp only [wpOk_bind, wpOk_expectNat, wpOk_ite, wpOk_pure, hwant]
    intro atk hat
    constructor
    · intro hw rt hrt a r i e sc ho
      cases ho
      exact hfinal rfl _ (by simp [hw])
    · intro hw a r i e sc ho
      cases ho
      exact hfinal rfl _ (by simpa using hw)
  | notFound => simp only [Res.errKind]; exact wpOk_fail rc _ _ _
  | req _ => simp only [Res.errKind]; exact wpOk_fail rc _ _ _
  | inactive _ => simp only [Res.errKind]; exact wpOk_fail rc _ _ _
  | client _ => simp only [Res.errKind]; exact wpOk_fail rc _ _ _
  | nat _ => simp only [Res.errKind]; exact wpOk_fail rc _ _ _
  | par _ => simp only [Res.errKind]; exact wpOk_fail rc _ _ _
  | dev _ => simp only [Res.errKind]; exact wpOk_fail rc _ _ _
  | usedDev _ => simp only [Res.errKind]; exact wpOk_fail rc _ _ _
  | fail e => simp only [Res.errKind]; cases e <;> exact wpOk_fail rc _ _ _

/-- What a successful client_credentials grant tells about the request and the registration. -/
structure ClientCredOk (cfg : Config) (q : DirectReq) (ss : SState) (rt : Option Nat) (sc : List String) : Prop where
  ex : ∃ client,
    ss.clients.find? (fun c => c.id == q.clientId) = some client ∧ (client.isPublic || q.credOk) = true ∧
    client.isPublic = false ∧ client.grants.contains "client_credentials" = true ∧
    scopesAllowed cfg client (appendAllUniq [] q.scopes) = true ∧
    audienceMatch cfg.audStrategy client.audience (appendAllUniq [] q.aud) = none ∧
    rt = none ∧ sc = appendAllUniq [] q.scopes

theorem clientCredentials_wp (rc : RunCfg) (cfg : Config) (now : Time) (q : DirectReq) (rs : RState) :
    wpOk rc (clientCredentialsH cfg now q)
      (fun _ o => ∀ a r i e sc, o = .tokens a r i e sc → ClientCredOk cfg q rs.ss r sc) rs := by
  unfold clientCredentialsH
  simp only [wpOk_bind, authenticate, wpOk_expectClient, wpOk_guard, wpOk_pure, wpOk_expectNat, optErr_ok]
  intro rid hrid client hcl hcred hsc haud hpub hgr atk hat a r i e sc ho
  cases ho
  have h1 := step_eq_exec rc rs .newId rfl _ hrid (by intro e; simp)
  have h2 := step_eq_exec rc (rs.step rc .newId).1 (.getClient q.clientId) rfl _ hcl (by intro e; simp)
  have hfind := exec_getClient_find _ _ _ h2.2
  rw [h1.1] at hfind
  exact ⟨client, hfind, hcred, by simpa using hpub, hgr, hsc, haud, rfl, rfl⟩



def Out.isTokens : Out → Bool
  | .tokens .. => true
  | _ => false

theorem run_noTokens (rc) (x : HP Out) (rs : RState) (h : wpOk rc x (fun _ o => o.isTokens = false) rs) :
    (run rc rs x.run).2.isTokens = false := by
  have key : wp rc x.run (fun _ o => o.isTokens = false) rs := by
    unfold HP.run
    rw [wp_bind]
    apply wp_mono rc x.toProg _ _ rs _ h
    intro rs' r hr
    cases r with
    | ok a => exact hr a rfl
    | error e => rfl
  exact (wp_run rc x.run _ rs).mp key

macro "no_tokens" : tactic => `(tactic| repeat (first
  | (rw [wpOk_bind]; apply wpOk_of_forall; intro _ _)
  | (rw [wpOk_pure]; rfl)
  | (rw [wpOk_ok]; rfl)
  | exact wpOk_fail _ _ _ _
  | split
  | (simp only [])))

theorem authorize_noTokens (rc cfg now mn q rs) : wpOk rc (authorizeH cfg now mn q) (fun _ o => o.isTokens = false) rs := by
  unfold authorizeH; no_tokens
theorem authorizePar_noTokens (rc cfg now mn q rs) : wpOk rc (authorizeParH cfg now mn q) (fun _ o => o.isTokens = false) rs := by
  unfold authorizeParH; no_tokens
theorem parPush_noTokens (rc cfg now q rs) : wpOk rc (parPushH cfg now q) (fun _ o => o.isTokens = false) rs := by
  unfold parPushH; no_tokens
theorem deviceAuth_noTokens (rc cfg now q rs) : wpOk rc (deviceAuthH cfg now q) (fun _ o => o.isTokens = false) rs := by
  unfold deviceAuthH; no_tokens
theorem revoke_noTokens (rc q rs) : wpOk rc (revokeH q) (fun _ o => o.isTokens = false) rs := by
  unfold revokeH revokeH.revokeFound revocationError; no_tokens


/-! ### one `step` of the history model -/

theorem devicePoll_rt_success (rc : RunCfg) (hnf : NoFaults rc) (cfg : Config) (now : Time) (q : DevicePollReq) (rs : RState)
    (a : Nat) (r : Option Nat) (i : Bool) (e : Int) (sc : List String)
    (h : (run rc rs (devicePollProg cfg now q)).2 = .tokens a r i e sc) : DevicePollRT cfg now q rs.ss r sc :=
  run_HP_ok rc (devicePollH cfg now q) rs _ _ (devicePoll_rt_wp rc hnf cfg now q rs) h (by intro e; simp) a r i e sc rfl

theorem password_success (rc : RunCfg) (hnf : NoFaults rc) (cfg : Config) (now : Time) (q : DirectReq) (rs : RState)
    (a : Nat) (r : Option Nat) (i : Bool) (e : Int) (sc : List String)
    (h : (run rc rs (passwordProg cfg now q)).2 = .tokens a r i e sc) : PasswordOk cfg q rs.ss r sc :=
  run_HP_ok rc (passwordH cfg now q) rs _ _ (password_wp rc hnf cfg now q rs) h (by intro e; simp) a r i e sc rfl

theorem clientCredentials_success (rc : RunCfg) (cfg : Config) (now : Time) (q : DirectReq) (rs : RState)
    (a : Nat) (r : Option Nat) (i : Bool) (e : Int) (sc : List String)
    (h : (run rc rs (clientCredentialsProg cfg now q)).2 = .tokens a r i e sc) : ClientCredOk cfg q rs.ss r sc :=
  run_HP_ok rc (clientCredentialsH cfg now q) rs _ _ (clientCredentials_wp rc cfg now q rs) h (by intro e; simp) a r i e sc rfl

theorem introspectPure_noTokens (cfg now q st) : (introspectPure cfg now q st).isTokens = false := by
  unfold introspectPure; (repeat' split) <;> rfl

theorem introspectEndpointPure_noTokens (cfg now r ss) : (introspectEndpointPure cfg now r ss).isTokens = false := by
  unfold introspectEndpointPure inspectPure; (repeat' split) <;> rfl

theorem isTokens_ne (o : Out) (h : o.isTokens = false) (a r i e sc) : o ≠ .tokens a r i e sc := by
  intro ho; rw [ho] at h; cases h

/-- the operations that are not one of the five grants of the token endpoint never answer with tokens -/
theorem step_noTokens (s : MState) (op : Op)
    (h1 : ∀ q, op ≠ .redeem q) (h2 : ∀ q, op ≠ .refresh q) (h3 : ∀ q, op ≠ .clientCredentials q)
    (h4 : ∀ q, op ≠ .password q) (h5 : ∀ q, op ≠ .devicePoll q) (a r i e sc) :
    (step s op).2.1 ≠ .tokens a r i e sc := by
  cases hp : op.prog s with
  | none => exact (step_noprog s op hp).2.2.2.2.2 a r i e sc
  | some p =>
    rw [(step_prog s op p hp).2]
    apply isTokens_ne
    cases op with
    | authorize q => cases hp; exact run_noTokens _ _ _ (authorize_noTokens _ _ _ _ _ _)
    | authorizePar q => cases hp; exact run_noTokens _ _ _ (authorizePar_noTokens _ _ _ _ _ _)
    | parPush q => cases hp; exact run_noTokens _ _ _ (parPush_noTokens _ _ _ _ _)
    | deviceAuthorize q => cases hp; exact run_noTokens _ _ _ (deviceAuth_noTokens _ _ _ _ _)
    | revoke q => cases hp; exact run_noTokens _ _ _ (revoke_noTokens _ _ _)
    | introspect q =>
      cases hp; rw [(run_introspectProg {} plain_default _ _ _ _).2]; exact introspectPure_noTokens _ _ _ _
    | introspectEndpoint q =>
      cases hp; rw [(run_introspectEndpointProg {} plain_default _ _ _ _).2]; exact introspectEndpointPure_noTokens _ _ _ _
    | redeem q => exact absurd rfl (h1 q)
    | refresh q => exact absurd rfl (h2 q)
    | clientCredentials q => exact absurd rfl (h3 q)
    | password q => exact absurd rfl (h4 q)
    | devicePoll q => exact absurd rfl (h5 q)
    | setCfg _ => cases hp
    | setClient _ => cases hp
    | advance _ => cases hp
    | deviceDecide _ _ _ _ _ => cases hp

/-! ### the rule, per operation -/

/-- the scope half: no refresh scopes configured, or one of them granted -/
def scopeRule (cfg : Config) (granted : List String) : Prop :=
  cfg.refreshScopes.isEmpty = true ∨ hasOneOf granted cfg.refreshScopes = true

/-- the condition under which an operation may hand out a refresh token, in terms of the state it runs in:
    * code flow: the STORED authorize request's granted scopes obey the scope rule and the client it was
      issued to (snapshot stored with the code) is registered for `refresh_token`;
    * device flow: the stored device request's granted scopes obey the scope rule and the CURRENT
      registration of the polling client (which is the client that started the flow) has `refresh_token`;
    * password flow: the scope rule on the scopes requested (= granted by the application), nothing else;
    * refresh flow: the scope rule on the original grant, and the presenting client (the owner) has `refresh_token`;
    * every other operation: never. -/
def RefreshTokenRule (s : MState) : Op → Prop
  | .redeem q => ∃ sig rec, q.code.sig = some sig ∧ alookup s.ss.store.codes sig = some rec ∧
      scopeRule s.cfg rec.req.grantedScopes ∧ rec.req.client.grants.contains "refresh_token" = true
  | .devicePoll q => ∃ sig d client, q.code.sig = some sig ∧ alookup s.ss.store.device sig = some d ∧
      s.ss.clients.find? (fun c => c.id == q.clientId) = some client ∧ d.req.client.id = client.id ∧
      scopeRule s.cfg d.req.grantedScopes ∧ client.grants.contains "refresh_token" = true
  | .password q => scopeRule s.cfg q.scopes
  | .refresh q => ∃ sig rec client, q.token.sig = some sig ∧ alookup s.ss.store.refresh sig = some rec ∧
      client ∈ s.ss.clients ∧ client.id = q.clientId ∧ rec.req.client.id = client.id ∧
      scopeRule s.cfg rec.req.grantedScopes ∧ client.grants.contains "refresh_token" = true
  | _ => False

theorem deviceWantRT_iff (cfg : Config) (client : Client) (d : DevRec) :
    deviceWantRT cfg client d = true ↔ scopeRule cfg d.req.grantedScopes ∧ client.grants.contains "refresh_token" = true := by
  simp [deviceWantRT, scopeRule]

theorem passwordWantRT_iff (cfg : Config) (q : DirectReq) : passwordWantRT cfg q = true ↔ scopeRule cfg q.scopes := by
  simp [passwordWantRT, scopeRule]

theorem canIssueRefresh_iff (cfg : Config) (ar : Req) :
    canIssueRefresh cfg ar = true ↔ scopeRule cfg ar.grantedScopes ∧ ar.client.grants.contains "refresh_token" = true := by
  simp [canIssueRefresh, scopeRule]

theorem step_devicePoll_rt (s : MState) (q : DevicePollReq) (a r i e sc)
    (h : (step s (.devicePoll q)).2.1 = .tokens a r i e sc) : DevicePollRT s.cfg s.now q s.ss r sc := by
  rw [(step_prog s (.devicePoll q) (devicePollProg s.cfg s.now q) rfl).2] at h
  exact devicePoll_rt_success {} plain_default.1 s.cfg s.now q { ss := s.ss } a r i e sc h

theorem step_password (s : MState) (q : DirectReq) (a r i e sc)
    (h : (step s (.password q)).2.1 = .tokens a r i e sc) : PasswordOk s.cfg q s.ss r sc := by
  rw [(step_prog s (.password q) (passwordProg s.cfg s.now q) rfl).2] at h
  exact password_success {} plain_default.1 s.cfg s.now q { ss := s.ss } a r i e sc h

theorem step_clientCredentials (s : MState) (q : DirectReq) (a r i e sc)
    (h : (step s (.clientCredentials q)).2.1 = .tokens a r i e sc) : ClientCredOk s.cfg q s.ss r sc := by
  rw [(step_prog s (.clientCredentials q) (clientCredentialsProg s.cfg s.now q) rfl).2] at h
  exact clientCredentials_success {} s.cfg s.now q { ss := s.ss } a r i e sc h

theorem step_redeem (s : MState) (q : RedeemReq) (a r i e sc)
    (h : (step s (.redeem q)).2.1 = .tokens a r i e sc) : RedeemOk s.cfg s.now q s.ss (step s (.redeem q)).1.ss r sc := by
  have hp := step_prog s (.redeem q) (redeemProg s.cfg s.now q) rfl
  rw [hp.2] at h; rw [hp.1]
  exact redeem_success {} plain_default.1 s.cfg s.now q { ss := s.ss } a r i e sc h

theorem step_refresh (s : MState) (q : RefreshReq) (a r i e sc)
    (h : (step s (.refresh q)).2.1 = .tokens a r i e sc) : RefreshOk s.cfg s.now q s.ss (step s (.refresh q)).1.ss a r sc := by
  have hp := step_prog s (.refresh q) (refreshProg s.cfg s.now q) rfl
  rw [hp.2] at h; rw [hp.1]
  exact refresh_success {} plain_default.1 s.cfg s.now q { ss := s.ss } a r i e sc h

/-- **every refresh token handed out obeys the rule of its flow** (one step, any state) -/
theorem step_refresh_token_rule (s : MState) (op : Op) (a rt i e sc)
    (h : (step s op).2.1 = .tokens a (some rt) i e sc) : RefreshTokenRule s op := by
  cases op with
  | redeem q =>
    obtain ⟨sig, rec, _, hsig, hrec, _, _, _, _, _, _, _, _, _, _, _, hrt, _⟩ := (step_redeem s q a _ i e sc h).ex
    have := (canIssueRefresh_iff s.cfg rec.req).mp (by rw [← hrt]; rfl)
    exact ⟨sig, rec, hsig, hrec, this.1, this.2⟩
  | devicePoll q =>
    obtain ⟨sig, d, client, hsig, hdev, _, _, hfind, hcid, hrt, _⟩ := (step_devicePoll_rt s q a _ i e sc h).ex
    have := (deviceWantRT_iff s.cfg client d).mp (by rw [← hrt]; rfl)
    exact ⟨sig, d, client, hsig, hdev, hfind, hcid, this.1, this.2⟩
  | password q =>
    obtain ⟨client, _, _, _, _, _, _, hrt, _⟩ := (step_password s q a _ i e sc h).ex
    exact (passwordWantRT_iff s.cfg q).mp (by rw [← hrt]; rfl)
  | refresh q =>
    obtain ⟨sig, rec, client, hsig, hrec, _, _, hm, hid, _, hgr, _, hrs, hown, _⟩ := (step_refresh s q a _ i e sc h).ex
    refine ⟨sig, rec, client, hsig, hrec, hm, hid, hown, ?_, hgr⟩
    simpa [scopeRule] using hrs
  | clientCredentials q =>
    obtain ⟨client, _, _, _, _, _, _, hrt, _⟩ := (step_clientCredentials s q a _ i e sc h).ex
    cases hrt
  | authorize q => exact absurd h (step_noTokens s _ (by simp) (by simp) (by simp) (by simp) (by simp) _ _ _ _ _)
  | authorizePar q => exact absurd h (step_noTokens s _ (by simp) (by simp) (by simp) (by simp) (by simp) _ _ _ _ _)
  | parPush q => exact absurd h (step_noTokens s _ (by simp) (by simp) (by simp) (by simp) (by simp) _ _ _ _ _)
  | deviceAuthorize q => exact absurd h (step_noTokens s _ (by simp) (by simp) (by simp) (by simp) (by simp) _ _ _ _ _)
  | revoke q => exact absurd h (step_noTokens s _ (by simp) (by simp) (by simp) (by simp) (by simp) _ _ _ _ _)
  | introspect q => exact absurd h (step_noTokens s _ (by simp) (by simp) (by simp) (by simp) (by simp) _ _ _ _ _)
  | introspectEndpoint q => exact absurd h (step_noTokens s _ (by simp) (by simp) (by simp) (by simp) (by simp) _ _ _ _ _)
  | setCfg _ => exact absurd h (step_noTokens s _ (by simp) (by simp) (by simp) (by simp) (by simp) _ _ _ _ _)
  | setClient _ => exact absurd h (step_noTokens s _ (by simp) (by simp) (by simp) (by simp) (by simp) _ _ _ _ _)
  | advance _ => exact absurd h (step_noTokens s _ (by simp) (by simp) (by simp) (by simp) (by simp) _ _ _ _ _)
  | deviceDecide _ _ _ _ _ => exact absurd h (step_noTokens s _ (by simp) (by simp) (by simp) (by simp) (by simp) _ _ _ _ _)

/-- position `i` of a trace is the operation at position `i`, with the outcome it has in the state the
    preceding operations lead to -/
theorem trace_getElem? (s : MState) (ops : List Op) (i : Nat) (op : Op) (o : Out)
    (h : (trace s ops)[i]? = some (op, o)) :
    ops[i]? = some op ∧ o = (step (after s (ops.take i)) op).2.1 := by
  induction ops generalizing s i with
  | nil => simp [trace] at h
  | cons x xs ih =>
    cases i with
    | zero =>
      simp only [trace, List.getElem?_cons_zero, Option.some.injEq, Prod.mk.injEq] at h
      obtain ⟨h1, h2⟩ := h
      subst h1
      exact ⟨rfl, by rw [← h2]; rfl⟩
    | succ n =>
      simp only [trace, List.getElem?_cons_succ] at h
      have := ih _ n h
      exact ⟨by simpa using this.1, by rw [this.2]; rfl⟩

end Fosite.Model

/-
  Lemmas for C07 (expiry arithmetic, advertised lifetimes, lifespan table).
  Property theorems are in `Fosite/Props/C07.lean`.
-/
import Fosite.Spec.Expiry
import Fosite.Model.Token
namespace Fosite.Proofs.Expiry
open Fosite.Model Fosite.Model.Expiry Fosite.Spec.Expiry

/-! ### instants -/

theorem before_iff (a : Int) (b : Nat) : before a b = true ↔ a < Int.ofNat b := by
  simp [before]

/-- The two guards of the `Validate*` functions decide exactly "`now` is after the expiry instant". -/
theorem expiredWithFallback_iff (exp : Option Nat) (req : Nat) (life : Dur) (now : Nat) :
    expiredWithFallback exp req life now = true ↔ ¬ honouredAt (expiryInstant exp req life) now := by
  cases exp with
  | none =>
    simp only [expiredWithFallback, Option.isNone_none, Option.isSome_none, Bool.true_and, Bool.false_and,
      expiryInstant, honouredAt, addI, before]
    by_cases h : Int.ofNat req + life < Int.ofNat now
    · simp only [h, decide_true, if_true, true_iff]; omega
    · simp only [h, decide_false, Bool.false_eq_true, if_false, false_iff, Classical.not_not]; omega
  | some e =>
    simp only [expiredWithFallback, Option.isNone_some, Option.isSome_some, Bool.true_and, Bool.false_and,
      expiryInstant, honouredAt, before, Option.getD_some]
    by_cases h : Int.ofNat e < Int.ofNat now
    · simp only [h, decide_true, if_true, Bool.false_eq_true, if_false, true_iff]; omega
    · simp only [h, decide_false, Bool.false_eq_true, if_false, false_iff, Classical.not_not]; omega

theorem expiredWithFallback_false_iff (exp : Option Nat) (req : Nat) (life : Dur) (now : Nat) :
    expiredWithFallback exp req life now = false ↔ honouredAt (expiryInstant exp req life) now := by
  have := expiredWithFallback_iff exp req life now
  cases h : expiredWithFallback exp req life now
  · simp only [h, Bool.false_eq_true, false_iff, Classical.not_not] at this
    simp [this]
  · simp only [h, true_iff] at this
    simp [this]

/-- generic shape shared by the four opaque validators -/
theorem guarded_eq_spec (err : Err) (exp : Option Nat) (req : Nat) (life : Dur) (now : Nat) (mac : Option Err) :
    (if expiredWithFallback exp req life now then Except.error err else macResult mac) =
      opaqueVerdict err (expiryInstant exp req life) now mac := by
  unfold opaqueVerdict
  cases h : expiredWithFallback exp req life now
  · have := (expiredWithFallback_false_iff exp req life now).1 h
    simp [this]
  · have := (expiredWithFallback_iff exp req life now).1 h
    simp [this]

theorem refresh_eq_spec (exp : Option Nat) (now : Nat) (mac : Option Err) :
    validateRefreshToken exp now mac = refreshVerdict exp now mac := by
  cases exp with
  | none => simp [validateRefreshToken, refreshVerdict, refreshHonouredAt]
  | some e =>
    simp only [validateRefreshToken, refreshVerdict, refreshHonouredAt, before, Int.ofNat_eq_natCast]
    by_cases h : now ≤ e
    · have : ¬ ((e : Int) < (now : Int)) := by omega
      simp [h, this]
    · have : (e : Int) < (now : Int) := by omega
      simp [h, this]

theorem macResult_ok (mac : Option Err) : macResult mac = .ok () ↔ mac = none := by
  cases mac <;> simp [macResult]

theorem opaqueVerdict_ok (err : Err) (X : Int) (now : Nat) (mac : Option Err) :
    opaqueVerdict err X now mac = .ok () ↔ honouredAt X now ∧ mac = none := by
  unfold opaqueVerdict
  by_cases h : honouredAt X now
  · simp [h, macResult_ok]
  · simp [h]

theorem opaqueVerdict_expired (err : Err) (X : Int) (now : Nat) (mac : Option Err) (h : X < Int.ofNat now) :
    opaqueVerdict err X now mac = .error err := by
  unfold opaqueVerdict
  have : ¬ honouredAt X now := by unfold honouredAt; omega
  simp only [this, if_false]

/-! ### NumericDate claims -/

theorem unix_pos_of_second_le (e : Nat) (h : second ≤ e) : unix e ≠ 0 := by
  unfold unix second at *
  simp only [Int.ofNat_eq_natCast]
  omega

/-- whole-second granularity in nanoseconds: honoured exactly before the next whole second -/
theorem honouredNumeric_iff (e now : Nat) :
    honouredNumeric (expClaimOf e) now ↔ now < (e / second + 1) * second := by
  unfold honouredNumeric expClaimOf second
  simp only [Int.ofNat_eq_natCast]
  omega

theorem honouredNumeric_of_le (e now : Nat) (h : now ≤ e) : honouredNumeric (expClaimOf e) now := by
  rw [honouredNumeric_iff]; unfold second; omega

theorem not_honouredNumeric_of_second_later (e now : Nat) (h : e + second ≤ now) :
    ¬ honouredNumeric (expClaimOf e) now := by
  rw [honouredNumeric_iff]; unfold second at *; omega

/-- the `exp` claim emitted for a session expiry is its whole second -/
theorem numericDate_some (e : Nat) : numericDate (some e) = .int (expClaimOf e) := rfl

theorem verifyExpiresAt_int (x n : Int) (hx : x ≠ 0) : verifyExpiresAt (.int x) n false = decide (n ≤ x) := by
  simp [verifyExpiresAt, toInt64, verifyExp, hx]

/-- the `expired` bit of `MapClaims.Valid` for a minted token with a session expiry after the first
    second of 1970 -/
theorem expired_bit (e : Nat) (iat nbf : Option Nat) (issue now : Nat) (h : second ≤ e) :
    (mapClaimsValid (jwtClaimsAtIssue (some e) iat nbf issue) now).expired =
      !decide (honouredNumeric (expClaimOf e) now) := by
  have hne : expClaimOf e ≠ 0 := unix_pos_of_second_le e h
  simp only [mapClaimsValid, jwtClaimsAtIssue, numericDate_some, verifyExpiresAt_int _ _ hne]
  rfl

theorem expired_bit_absent (iat nbf : Option Nat) (issue now : Nat) :
    (mapClaimsValid (jwtClaimsAtIssue none iat nbf issue) now).expired = false := by
  simp [mapClaimsValid, jwtClaimsAtIssue, numericDate, verifyExpiresAt, toInt64]

/-! ### seconds -/

theorem wholeSeconds_eq (d : Int) : wholeSeconds d = secondsOf d := by
  unfold wholeSeconds secondsOf
  split
  · rename_i h
    rw [Int.tdiv_eq_ediv_of_nonneg h]
    simp only [Int.ofNat_eq_natCast]
    unfold second
    omega
  · rename_i h
    have : d = -(-d) := by omega
    rw [this, Int.neg_tdiv, Int.tdiv_eq_ediv_of_nonneg (by omega)]
    simp only [Int.ofNat_eq_natCast]
    unfold second
    omega

/-- truncation toward zero: what it means for the remaining lifetime -/
theorem secondsOf_bounds (d : Int) :
    (0 < secondsOf d → secondsOf d * Int.ofNat second ≤ d) ∧ d - secondsOf d * Int.ofNat second < Int.ofNat second ∧
    (0 ≤ d → 0 ≤ d - secondsOf d * Int.ofNat second) := by
  unfold secondsOf second
  simp only [Int.ofNat_eq_natCast]
  split <;> omega

/-! ### rounding -/

theorem roundSecond_near (t : Nat) :
    2 * ((roundSecond t : Nat) : Int) ≤ 2 * (t : Int) + 1000000000 ∧ 2 * (t : Int) < 2 * ((roundSecond t : Nat) : Int) + 1000000000 + 1 := by
  unfold roundSecond second
  omega

theorem roundSecond_whole (t : Nat) : roundSecond t % second = 0 := by
  unfold roundSecond
  exact Nat.mul_mod_left _ _

theorem roundSecond_of_whole (t : Nat) (h : t % second = 0) : roundSecond t = t := by
  unfold roundSecond second at *
  show ((t + 1000000000 / 2) / 1000000000 * 1000000000 : Nat) = t
  omega

theorem stamp_consistent (s : Site) (now : Nat) (life : Dur) (h : 0 ≤ Int.ofNat now + life) :
    StampConsistent now life (stamp s now life) := by
  have hr := roundSecond_near (addDur now life)
  unfold StampConsistent stamp stampRounded stampPlain
  unfold addDur at *
  unfold second
  simp only [Int.ofNat_eq_natCast] at *
  split <;> omega

/-! ### lifespan table -/

/-- the rule, enumerated -/
theorem lifespanTable_eq : lifespanTable =
    [("GrantTypeAuthorizationCode", "AccessToken", "AuthorizationCodeGrantAccessTokenLifespan"),
     ("GrantTypeAuthorizationCode", "IDToken", "AuthorizationCodeGrantIDTokenLifespan"),
     ("GrantTypeAuthorizationCode", "RefreshToken", "AuthorizationCodeGrantRefreshTokenLifespan"),
     ("GrantTypeClientCredentials", "AccessToken", "ClientCredentialsGrantAccessTokenLifespan"),
     ("GrantTypeImplicit", "AccessToken", "ImplicitGrantAccessTokenLifespan"),
     ("GrantTypeImplicit", "IDToken", "ImplicitGrantIDTokenLifespan"),
     ("GrantTypeJWTBearer", "AccessToken", "JwtBearerGrantAccessTokenLifespan"),
     ("GrantTypePassword", "AccessToken", "PasswordGrantAccessTokenLifespan"),
     ("GrantTypePassword", "RefreshToken", "PasswordGrantRefreshTokenLifespan"),
     ("GrantTypeRefreshToken", "AccessToken", "RefreshTokenGrantAccessTokenLifespan"),
     ("GrantTypeRefreshToken", "IDToken", "RefreshTokenGrantIDTokenLifespan"),
     ("GrantTypeRefreshToken", "RefreshToken", "RefreshTokenGrantRefreshTokenLifespan")] := by
  decide

/-- the Go `if / else if` ladder reads exactly the field the table assigns to the pair -/
theorem select_eq_override (c : ClientLifespanConfig) (gt : GrantType) (tt : TokenType) :
    selectLifespan c gt tt = override c gt tt := by
  cases gt <;> cases tt <;> rfl

theorem effective_eq (c : ClientLifespans) (gt : GrantType) (tt : TokenType) (fb : Dur) :
    effectiveLifespan c gt tt fb = (clientOverride c gt tt).getD fb := by
  cases c with
  | plain => rfl
  | unset => rfl
  | set cfg =>
    simp only [effectiveLifespan, clientOverride, select_eq_override]
    cases override cfg gt tt <;> rfl

/-! ### the history model (`Model/Token.lean`, `Model/Introspect.lean`) uses the same arithmetic -/

/-- `Model.expiredAt` (code redemption, access-token introspection in histories) is the pair of guards
    modelled here (its clamped `addDur` differs only at the Unix epoch itself). -/
theorem hist_expiredAt_eq (exp : Option Nat) (req : Nat) (life : Dur) (now : Nat) (h : 0 < now) :
    Fosite.Model.expiredAt exp req life now = expiredWithFallback exp req life now := by
  cases exp with
  | none =>
    simp only [Fosite.Model.expiredAt, expiredWithFallback, Option.isNone_none, Option.isSome_none,
      Bool.true_and, Bool.false_and, before, addI, addDur, Int.ofNat_eq_natCast]
    by_cases h1 : (req : Int) + life < (now : Int)
    · have : ((req : Int) + life).toNat < now := by omega
      simp [h1, this]
    · have : ¬ ((req : Int) + life).toNat < now := by omega
      simp [h1, this]
  | some e =>
    simp only [Fosite.Model.expiredAt, expiredWithFallback, Option.isNone_some, Option.isSome_some,
      Bool.true_and, Bool.false_and, before, Option.getD_some, Int.ofNat_eq_natCast]
    by_cases h1 : e < now
    · have : (e : Int) < (now : Int) := by omega
      simp [h1, this]
    · have : ¬ (e : Int) < (now : Int) := by omega
      simp [h1, this]

theorem refreshGuard_iff (x : Option Nat) (now : Nat) :
    (match x with | some e => decide (e < now) | none => false) = true ↔
      validateRefreshToken x now none = .error .token_expired := by
  cases x with
  | none => simp [validateRefreshToken, macResult]
  | some e =>
    simp only [validateRefreshToken, before, Int.ofNat_eq_natCast]
    by_cases h1 : e < now
    · have : (e : Int) < (now : Int) := by omega
      simp [h1, this]
    · have : ¬ (e : Int) < (now : Int) := by omega
      simp [h1, this, macResult]

/-- `Model.refreshExpired` is the refresh-token guard modelled here. -/
theorem hist_refreshExpired_iff (r : Req) (now : Nat) :
    refreshExpired r now = true ↔ validateRefreshToken r.sess.expRefresh now none = .error .token_expired :=
  refreshGuard_iff r.sess.expRefresh now

/-- `Model.stampSession` stamps like the rounding token-endpoint sites. -/
theorem hist_stampSession (cfg : Config) (now : Nat) (s : Sess) :
    (stampSession cfg now s).expAccess = some (stamp .codeToken now cfg.atLife) ∧
    (stampSession cfg now s).expRefresh = stampRefresh .codeToken now cfg.rtLife s.expRefresh := by
  constructor <;> rfl

/-- `Model.expiresIn` is `expires_in` as modelled here whenever the session expiry is not in the past
    (it floors where Go truncates toward zero). -/
theorem hist_expiresIn_eq (s : Sess) (e now : Nat) (l : Dur) (hs : s.expAccess = some e) (h : now ≤ e) :
    Fosite.Model.expiresIn s now l = expiresInField (some e) l now := by
  unfold Fosite.Model.expiresIn expiresInField getExpiresIn
  rw [hs, wholeSeconds_eq]
  unfold secondsOf second
  simp only [Int.ofNat_eq_natCast]
  split <;> omega

end Fosite.Proofs.Expiry

/-
  C19 — a small generic lockset development.

  Threads execute lists of operations (`Op`: acquire / release of an RWMutex in read or write
  mode, access to a data field in read or write mode).  A configuration gives, for every
  thread id (any number of threads: ids are natural numbers, threads that never start stay
  idle), the operations it still has to execute and the locks it holds with their modes.

  RWMutex semantics (`Step`): a write acquisition needs that no *other* thread holds the lock in
  any mode, a read acquisition needs that no other thread holds it in write mode; a thread whose
  next operation is a disabled acquisition does not move.  A thread that has finished its
  program may start any program of `progs` again (a goroutine serving request after request).

  This is deliberately the most permissive reading: Go's `sync.RWMutex` blocks in strictly more
  situations (a reader also waits for a *queued* writer; re-acquisition by the holder blocks),
  so every execution of the Go runtime's mutex is an execution of this system, and what is
  proved for all reachable configurations here holds for those.

  Results
  * `lockset_sound` — if every access of every program is protected by its guard
    (`ProtFrom`, the Prop the checker `protViolFrom … = []` decides), no reachable
    configuration has two distinct threads positioned at conflicting accesses.
  * `no_lock_deadlock` — if lock operations are balanced (`BalFrom`) and the "acquired while
    holding" relation admits a rank that strictly decreases along every edge
    (`OrderAcyclic`), then in no reachable configuration is every unfinished thread waiting for
    a lock that somebody holds.  (Waiting for a held lock is *necessary* for being blocked both
    in the semantics above and under Go's writer preference and non-reentrancy, hence this
    covers the runtime's notion of a lock deadlock.  A re-acquisition is a self-edge of the
    order relation, so `OrderAcyclic` subsumes `NoReacquire`; `reacquire_edge` states it.)
-/
import Fosite.Model.Locks

namespace Fosite.Proofs.Lockset
open Fosite.Model.Locks

/-! ### Prop-level reading of the checkers -/

/-- `protectsB` spelled out. -/
def Protects (guard : Res → Option Res) (held : Held) (f : Res) : Mode → Prop
  | .read => ∃ g, guard f = some g ∧ ((g, Mode.read) ∈ held ∨ (g, Mode.write) ∈ held)
  | .write => ∃ g, guard f = some g ∧ (g, Mode.write) ∈ held

theorem protectsB_iff (guard : Res → Option Res) (held : Held) (f : Res) (mode : Mode) :
    protectsB guard held f mode = true ↔ Protects guard held f mode := by
  unfold protectsB
  cases hg : guard f with
  | none => cases mode <;> simp [Protects, hg]
  | some g => cases mode <;> simp [Protects, hg]

/-- Every access in `ops`, executed from lockset `held`, is protected; no unresolved call. -/
def ProtFrom (guard : Res → Option Res) : Held → List Op → Prop
  | _, [] => True
  | h, .acq l mode :: r => ProtFrom guard ((l, mode) :: h) r
  | h, .rel l mode :: r => ProtFrom guard (h.erase (l, mode)) r
  | h, .access f mode :: r => Protects guard h f mode ∧ ProtFrom guard h r
  | _, .unresolved _ :: _ => False

/-- Releases match a held entry, nothing is held at the end, no unresolved call. -/
def BalFrom : Held → List Op → Prop
  | h, [] => h = []
  | h, .acq l mode :: r => BalFrom ((l, mode) :: h) r
  | h, .rel l mode :: r => (l, mode) ∈ h ∧ BalFrom (h.erase (l, mode)) r
  | h, .access _ _ :: r => BalFrom h r
  | _, .unresolved _ :: _ => False

theorem protViolFrom_nil_iff (guard : Res → Option Res) (name : String) :
    ∀ (ops : List Op) (i : Nat) (h : Held), protViolFrom guard name i h ops = [] ↔ ProtFrom guard h ops := by
  intro ops
  induction ops with
  | nil => intro i h; simp [protViolFrom, ProtFrom]
  | cons op r ih =>
    intro i h
    cases op with
    | acq l mode => simp [protViolFrom, ProtFrom, stepHeld, ih]
    | rel l mode => simp [protViolFrom, ProtFrom, stepHeld, ih]
    | access f mode =>
      simp only [protViolFrom, ProtFrom, List.append_eq_nil_iff, ih, ← protectsB_iff]
      cases protectsB guard h f mode <;> simp
    | unresolved c => simp [protViolFrom, ProtFrom]

theorem balViolFrom_nil_iff (name : String) :
    ∀ (ops : List Op) (i : Nat) (h : Held), balViolFrom name i h ops = [] ↔ BalFrom h ops := by
  intro ops
  induction ops with
  | nil => intro i h; simp [balViolFrom, BalFrom]
  | cons op r ih =>
    intro i h
    cases op with
    | acq l mode => simp [balViolFrom, BalFrom, stepHeld, ih]
    | rel l mode =>
      simp only [balViolFrom, BalFrom, List.append_eq_nil_iff, ih]
      by_cases hc : (l, mode) ∈ h <;> simp [hc]
    | access f mode => simp [balViolFrom, BalFrom, stepHeld, ih]
    | unresolved c => simp [balViolFrom, BalFrom]

/-! ### The transition system -/

structure Thread where
  rest : List Op
  held : Held

abbrev Config := Nat → Thread

def idle : Thread := ⟨[], []⟩

def initial : Config := fun _ => idle

def upd (c : Config) (i : Nat) (t : Thread) : Config := fun k => if k = i then t else c k

@[simp] theorem upd_same (c : Config) (i : Nat) (t : Thread) : upd c i t i = t := by simp [upd]
theorem upd_other (c : Config) (i k : Nat) (t : Thread) (h : k ≠ i) : upd c i t k = c k := by simp [upd, h]

inductive Step (progs : List (List Op)) : Config → Config → Prop
  /-- a finished thread starts another program (locks it leaked, if any, stay held) -/
  | start (c : Config) (i : Nat) (p : List Op) :
      p ∈ progs → (c i).rest = [] → Step progs c (upd c i ⟨p, (c i).held⟩)
  | acqW (c : Config) (i : Nat) (l : Res) (r : List Op) :
      (c i).rest = .acq l .write :: r → (∀ j, j ≠ i → ∀ m, (l, m) ∉ (c j).held) →
      Step progs c (upd c i ⟨r, (l, .write) :: (c i).held⟩)
  | acqR (c : Config) (i : Nat) (l : Res) (r : List Op) :
      (c i).rest = .acq l .read :: r → (∀ j, j ≠ i → (l, Mode.write) ∉ (c j).held) →
      Step progs c (upd c i ⟨r, (l, .read) :: (c i).held⟩)
  | rel (c : Config) (i : Nat) (l : Res) (m : Mode) (r : List Op) :
      (c i).rest = .rel l m :: r → Step progs c (upd c i ⟨r, (c i).held.erase (l, m)⟩)
  | access (c : Config) (i : Nat) (f : Res) (m : Mode) (r : List Op) :
      (c i).rest = .access f m :: r → Step progs c (upd c i ⟨r, (c i).held⟩)
  | skip (c : Config) (i : Nat) (callee : Res) (r : List Op) :
      (c i).rest = .unresolved callee :: r → Step progs c (upd c i ⟨r, (c i).held⟩)

inductive Reachable (progs : List (List Op)) : Config → Prop
  | init : Reachable progs initial
  | step {c c' : Config} : Reachable progs c → Step progs c c' → Reachable progs c'

/-- Two distinct threads are positioned at accesses to the same field, at least one a write. -/
def Conflict (c : Config) : Prop :=
  ∃ i j, i ≠ j ∧ ∃ f m1 m2 r1 r2,
    (c i).rest = .access f m1 :: r1 ∧ (c j).rest = .access f m2 :: r2 ∧ (m1 = .write ∨ m2 = .write)

/-- Entries for the same lock in two different threads are both read entries. -/
def Excl (c : Config) : Prop :=
  ∀ i j, i ≠ j → ∀ l m1 m2, (l, m1) ∈ (c i).held → (l, m2) ∈ (c j).held → m1 = .read ∧ m2 = .read

/-- A per-thread invariant `P held rest` that holds of every program from the empty lockset, of
    the idle thread with any lockset it may be left with, and is preserved by executing the head
    operation, holds of every thread of every reachable configuration. -/
theorem thread_invariant (progs : List (List Op)) (P : Held → List Op → Prop)
    (hstart : ∀ p ∈ progs, ∀ h, P h [] → P h p)
    (hidle : P [] [])
    (hacq : ∀ h l m r, P h (.acq l m :: r) → P ((l, m) :: h) r)
    (hrel : ∀ h l m r, P h (.rel l m :: r) → P (h.erase (l, m)) r)
    (hacc : ∀ h f m r, P h (.access f m :: r) → P h r)
    (hskip : ∀ h x r, P h (.unresolved x :: r) → P h r)
    {c : Config} (hr : Reachable progs c) : ∀ i, P (c i).held (c i).rest := by
  induction hr with
  | init => intro i; exact hidle
  | @step c c' _ hs ih =>
    intro k
    cases hs with
    | start i p hp hrest =>
      by_cases hk : k = i
      · subst hk; simp only [upd_same]
        have := ih k; rw [hrest] at this; exact hstart p hp _ this
      · rw [upd_other _ _ _ _ hk]; exact ih k
    | acqW i l r hrest _ =>
      by_cases hk : k = i
      · subst hk; simp only [upd_same]
        have := ih k; rw [hrest] at this; exact hacq _ _ _ _ this
      · rw [upd_other _ _ _ _ hk]; exact ih k
    | acqR i l r hrest _ =>
      by_cases hk : k = i
      · subst hk; simp only [upd_same]
        have := ih k; rw [hrest] at this; exact hacq _ _ _ _ this
      · rw [upd_other _ _ _ _ hk]; exact ih k
    | rel i l m r hrest =>
      by_cases hk : k = i
      · subst hk; simp only [upd_same]
        have := ih k; rw [hrest] at this; exact hrel _ _ _ _ this
      · rw [upd_other _ _ _ _ hk]; exact ih k
    | access i f m r hrest =>
      by_cases hk : k = i
      · subst hk; simp only [upd_same]
        have := ih k; rw [hrest] at this; exact hacc _ _ _ _ this
      · rw [upd_other _ _ _ _ hk]; exact ih k
    | skip i x r hrest =>
      by_cases hk : k = i
      · subst hk; simp only [upd_same]
        have := ih k; rw [hrest] at this; exact hskip _ _ _ this
      · rw [upd_other _ _ _ _ hk]; exact ih k

/-- Mutual exclusion of the RWMutex semantics: an invariant of every reachable configuration,
    whatever the programs. -/
theorem reachable_excl (progs : List (List Op)) {c : Config} (hr : Reachable progs c) : Excl c := by
  induction hr with
  | init => intro i j _ l m1 m2 h1; simp [initial, idle] at h1
  | @step c c' _ hs ih =>
    cases hs with
    | start i p _ _ =>
      intro a b hab l m1 m2 h1 h2
      have e1 : (upd c i ⟨p, (c i).held⟩ a).held = (c a).held := by
        by_cases h : a = i
        · subst h; simp
        · rw [upd_other _ _ _ _ h]
      have e2 : (upd c i ⟨p, (c i).held⟩ b).held = (c b).held := by
        by_cases h : b = i
        · subst h; simp
        · rw [upd_other _ _ _ _ h]
      rw [e1] at h1; rw [e2] at h2
      exact ih a b hab l m1 m2 h1 h2
    | acqW i l r _ hfree =>
      intro a b hab l' m1 m2 h1 h2
      by_cases ha : a = i
      · subst ha
        have hb : b ≠ a := fun h => hab h.symm
        rw [upd_same] at h1; rw [upd_other _ _ _ _ hb] at h2
        simp only [List.mem_cons] at h1
        cases h1 with
        | inl h => cases h; exact absurd h2 (hfree b hb m2)
        | inr h => exact ih a b hab l' m1 m2 h h2
      · rw [upd_other _ _ _ _ ha] at h1
        by_cases hb : b = i
        · subst hb
          rw [upd_same] at h2
          simp only [List.mem_cons] at h2
          cases h2 with
          | inl h => cases h; exact absurd h1 (hfree a ha m1)
          | inr h => exact ih a b hab l' m1 m2 h1 h
        · rw [upd_other _ _ _ _ hb] at h2; exact ih a b hab l' m1 m2 h1 h2
    | acqR i l r _ hfree =>
      intro a b hab l' m1 m2 h1 h2
      by_cases ha : a = i
      · subst ha
        have hb : b ≠ a := fun h => hab h.symm
        rw [upd_same] at h1; rw [upd_other _ _ _ _ hb] at h2
        simp only [List.mem_cons] at h1
        cases h1 with
        | inl h =>
          cases h
          cases m2 with
          | read => exact ⟨rfl, rfl⟩
          | write => exact absurd h2 (hfree b hb)
        | inr h => exact ih a b hab l' m1 m2 h h2
      · rw [upd_other _ _ _ _ ha] at h1
        by_cases hb : b = i
        · subst hb
          rw [upd_same] at h2
          simp only [List.mem_cons] at h2
          cases h2 with
          | inl h =>
            cases h
            cases m1 with
            | read => exact ⟨rfl, rfl⟩
            | write => exact absurd h1 (hfree a ha)
          | inr h => exact ih a b hab l' m1 m2 h1 h
        · rw [upd_other _ _ _ _ hb] at h2; exact ih a b hab l' m1 m2 h1 h2
    | rel i l m r _ =>
      intro a b hab l' m1 m2 h1 h2
      have s1 : (l', m1) ∈ (c a).held := by
        by_cases h : a = i
        · subst h; rw [upd_same] at h1; exact List.mem_of_mem_erase h1
        · rw [upd_other _ _ _ _ h] at h1; exact h1
      have s2 : (l', m2) ∈ (c b).held := by
        by_cases h : b = i
        · subst h; rw [upd_same] at h2; exact List.mem_of_mem_erase h2
        · rw [upd_other _ _ _ _ h] at h2; exact h2
      exact ih a b hab l' m1 m2 s1 s2
    | access i f m r _ =>
      intro a b hab l m1 m2 h1 h2
      have e1 : (upd c i ⟨r, (c i).held⟩ a).held = (c a).held := by
        by_cases h : a = i
        · subst h; simp
        · rw [upd_other _ _ _ _ h]
      have e2 : (upd c i ⟨r, (c i).held⟩ b).held = (c b).held := by
        by_cases h : b = i
        · subst h; simp
        · rw [upd_other _ _ _ _ h]
      rw [e1] at h1; rw [e2] at h2
      exact ih a b hab l m1 m2 h1 h2
    | skip i x r _ =>
      intro a b hab l m1 m2 h1 h2
      have e1 : (upd c i ⟨r, (c i).held⟩ a).held = (c a).held := by
        by_cases h : a = i
        · subst h; simp
        · rw [upd_other _ _ _ _ h]
      have e2 : (upd c i ⟨r, (c i).held⟩ b).held = (c b).held := by
        by_cases h : b = i
        · subst h; simp
        · rw [upd_other _ _ _ _ h]
      rw [e1] at h1; rw [e2] at h2
      exact ih a b hab l m1 m2 h1 h2

/-- Every access of every program is protected when the program is run from the empty lockset. -/
def DisciplinedProgs (guard : Res → Option Res) (progs : List (List Op)) : Prop :=
  ∀ p ∈ progs, ProtFrom guard [] p

/-- `Protects` only looks at membership, so it survives enlarging the lockset. -/
theorem protects_mono (guard : Res → Option Res) {h h' : Held} (hsub : ∀ x, x ∈ h → x ∈ h')
    (f : Res) (m : Mode) : Protects guard h f m → Protects guard h' f m := by
  cases m with
  | read =>
    intro ⟨g, hg, hm⟩
    exact ⟨g, hg, hm.elim (fun x => Or.inl (hsub _ x)) (fun x => Or.inr (hsub _ x))⟩
  | write =>
    intro ⟨g, hg, hm⟩
    exact ⟨g, hg, hsub _ hm⟩

/-- Per-thread invariant behind `lockset_sound`: the rest of the program is protected from a
    lockset the thread really holds (a sublist of it: a thread restarted while still holding a
    leaked lock holds *more* than the analysis of the new program assumes). -/
def ProtInv (guard : Res → Option Res) (h : Held) (rest : List Op) : Prop :=
  ∃ h0 : Held, h0.Sublist h ∧ ProtFrom guard h0 rest

theorem reachable_protInv (guard : Res → Option Res) (progs : List (List Op))
    (hd : DisciplinedProgs guard progs) {c : Config} (hr : Reachable progs c) :
    ∀ i, ProtInv guard (c i).held (c i).rest := by
  apply thread_invariant progs (ProtInv guard) _ _ _ _ _ _ hr
  · intro p hp h _
    exact ⟨[], List.nil_sublist _, hd p hp⟩
  · exact ⟨[], List.Sublist.refl _, trivial⟩
  · intro h l m r ⟨h0, hs, hp⟩
    exact ⟨(l, m) :: h0, hs.cons_cons _, hp⟩
  · intro h l m r ⟨h0, hs, hp⟩
    exact ⟨h0.erase (l, m), hs.erase _, hp⟩
  · intro h f m r ⟨h0, hs, hp⟩
    exact ⟨h0, hs, hp.2⟩
  · intro h x r ⟨h0, hs, hp⟩
    exact hp.elim

/-- **Lockset soundness.**  If every access of every program holds the guard of its field (read
    or write mode for a read, write mode for a write), then in no reachable configuration of any
    number of threads, each running any sequence of the programs, are two distinct threads
    simultaneously positioned at conflicting accesses. -/
theorem lockset_sound (guard : Res → Option Res) (progs : List (List Op))
    (hd : DisciplinedProgs guard progs) {c : Config} (hr : Reachable progs c) : ¬ Conflict c := by
  intro ⟨i, j, hij, f, m1, m2, r1, r2, h1, h2, hw⟩
  have hx := reachable_excl progs hr
  obtain ⟨a0, sa, pa⟩ := reachable_protInv guard progs hd hr i
  obtain ⟨b0, sb, pb⟩ := reachable_protInv guard progs hd hr j
  rw [h1] at pa; rw [h2] at pb
  have qa := protects_mono guard (fun x hx => sa.subset hx) f m1 pa.1
  have qb := protects_mono guard (fun x hx => sb.subset hx) f m2 pb.1
  -- both hold the guard `g` of `f`; the writer holds it in write mode: contradicts `Excl`
  have key : ∀ (a b : Nat) (ma mb : Mode), a ≠ b → ma = .write →
      Protects guard (c a).held f ma → Protects guard (c b).held f mb → False := by
    intro a b ma mb hab hma pa pb
    subst hma
    obtain ⟨g, hg, hga⟩ := pa
    cases mb with
    | read =>
      obtain ⟨g', hg', hgb⟩ := pb
      rw [hg] at hg'; cases hg'
      cases hgb with
      | inl hb => exact Mode.noConfusion (hx a b hab g _ _ hga hb).1
      | inr hb => exact Mode.noConfusion (hx a b hab g _ _ hga hb).1
    | write =>
      obtain ⟨g', hg', hgb⟩ := pb
      rw [hg] at hg'; cases hg'
      exact Mode.noConfusion (hx a b hab g _ _ hga hgb).1
  cases hw with
  | inl h => exact key i j m1 m2 hij h qa qb
  | inr h => exact key j i m2 m1 (fun e => hij e.symm) h qb qa

/-! ### Lock order and deadlock -/

/-- The "acquired while holding" relation admits a rank strictly decreasing along every edge.
    (Equivalent to acyclicity of a finite relation; `acyclicB_sound` gives the computable
    sufficient check, `orderAcyclic_no_cycle` the reading as "no cycle".) -/
def OrderAcyclic (edges : List (Res × Res)) : Prop :=
  ∃ rank : Res → Nat, ∀ e ∈ edges, rank e.2 < rank e.1

theorem acyclicB_sound (edges : List (Res × Res)) (h : acyclicB edges = true) : OrderAcyclic edges := by
  refine ⟨rankOf edges.eraseDups, ?_⟩
  intro e he
  have := (List.all_eq_true.mp h) e he
  exact of_decide_eq_true this

/-- No non-empty path of edges leads from a lock back to itself. -/
theorem orderAcyclic_no_cycle (edges : List (Res × Res)) (h : OrderAcyclic edges) (a : Res) :
    ¬ Relation.TransGen (fun x y => (x, y) ∈ edges) a a := by
  obtain ⟨rank, hr⟩ := h
  have mono : ∀ x y, Relation.TransGen (fun x y => (x, y) ∈ edges) x y → rank y < rank x := by
    intro x y hxy
    induction hxy with
    | single h1 => exact hr _ h1
    | tail _ h2 ih => exact Nat.lt_trans (hr _ h2) ih
  intro hc
  exact Nat.lt_irrefl _ (mono a a hc)

/-- Acquiring a lock one already holds is a self-edge of the order relation. -/
theorem reacquire_edge (h : Held) (l : Res) (m m' : Mode) (r : List Op) (hh : (l, m') ∈ h) :
    (l, l) ∈ orderFrom h (.acq l m :: r) := by
  simp only [orderFrom, List.mem_append, List.mem_map]
  exact Or.inl ⟨(l, m'), hh, rfl⟩

def BalancedProgs (progs : List (List Op)) : Prop := ∀ p ∈ progs, BalFrom [] p

def orderOf (progs : List (List Op)) : List (Res × Res) := progs.flatMap (orderFrom [])

/-- Per-thread invariant behind the deadlock theorem. -/
def OrdInv (edges : List (Res × Res)) (h : Held) (rest : List Op) : Prop :=
  BalFrom h rest ∧ ∀ e ∈ orderFrom h rest, e ∈ edges

theorem reachable_ordInv (progs : List (List Op)) (hb : BalancedProgs progs)
    {c : Config} (hr : Reachable progs c) : ∀ i, OrdInv (orderOf progs) (c i).held (c i).rest := by
  apply thread_invariant progs (OrdInv (orderOf progs)) _ _ _ _ _ _ hr
  · intro p hp h ⟨hbal, _⟩
    have : h = [] := hbal
    subst this
    refine ⟨hb p hp, ?_⟩
    intro e he
    exact List.mem_flatMap.mpr ⟨p, hp, he⟩
  · exact ⟨rfl, by intro e he; simp [orderFrom] at he⟩
  · intro h l m r ⟨hbal, ho⟩
    refine ⟨hbal, ?_⟩
    intro e he
    apply ho
    simp only [orderFrom, List.mem_append]
    exact Or.inr he
  · intro h l m r ⟨hbal, ho⟩
    exact ⟨hbal.2, fun e he => ho e (by simpa [orderFrom, stepHeld] using he)⟩
  · intro h f m r ⟨hbal, ho⟩
    exact ⟨hbal, fun e he => ho e (by simpa [orderFrom, stepHeld] using he)⟩
  · intro h x r ⟨hbal, _⟩
    exact hbal.elim

/-- Thread `i` has not finished and its next operation is an acquisition of a lock that some
    thread (possibly `i` itself) currently holds in some mode.  This is *necessary* for `i` to be
    blocked: in the semantics above, under Go's writer preference (a reader queued behind a
    waiting writer: the writer waits for a holder), and for a non-reentrant re-acquisition. -/
def WaitsOnHeld (c : Config) (i : Nat) : Prop :=
  ∃ l m r, (c i).rest = .acq l m :: r ∧ ∃ j m', (l, m') ∈ (c j).held

/-- Some thread is unfinished or still holds a lock, and every such thread waits for a held lock. -/
def LockDeadlock (c : Config) : Prop :=
  (∃ i, (c i).rest ≠ [] ∨ (c i).held ≠ []) ∧
  ∀ i, ((c i).rest ≠ [] ∨ (c i).held ≠ []) → WaitsOnHeld c i

/-- **No lock deadlock.**  Balanced lock operations + a strictly decreasing rank on the
    "acquired while holding" relation of the programs ⇒ no reachable configuration in which every
    unfinished thread waits for a held lock. -/
theorem no_lock_deadlock (progs : List (List Op)) (hb : BalancedProgs progs)
    (ha : OrderAcyclic (orderOf progs)) {c : Config} (hr : Reachable progs c) : ¬ LockDeadlock c := by
  intro ⟨⟨i0, hi0⟩, hall⟩
  obtain ⟨rank, hrank⟩ := ha
  have inv := reachable_ordInv progs hb hr
  -- a thread waiting for `l` cannot exist, by induction on the rank of `l`
  have key : ∀ n l, rank l = n → ∀ i m r, (c i).rest = .acq l m :: r →
      (∃ j m', (l, m') ∈ (c j).held) → False := by
    intro n
    induction n using Nat.strongRecOn with
    | _ n ih =>
      intro l hl i m r _ ⟨j, m', hj⟩
      -- the holder `j` holds something, hence is itself waiting, for some `l2`
      have hjne : (c j).rest ≠ [] ∨ (c j).held ≠ [] := Or.inr (by intro h; rw [h] at hj; cases hj)
      obtain ⟨l2, m2, r2, hrest2, hheld2⟩ := hall j hjne
      have hedge : (l, l2) ∈ orderOf progs := by
        apply (inv j).2
        rw [hrest2]
        simp only [orderFrom, List.mem_append, List.mem_map]
        exact Or.inl ⟨(l, m'), hj, rfl⟩
      have hlt : rank l2 < rank l := hrank _ hedge
      exact ih (rank l2) (hl ▸ hlt) l2 rfl j m2 r2 hrest2 hheld2
  obtain ⟨l, m, r, hrest, hheld⟩ := hall i0 hi0
  exact key (rank l) l rfl i0 m r hrest hheld

/-! ### The checkers of `Model/Locks.lean` decide these properties of a fact table -/

/-- No acquisition of a lock the thread already holds (in any mode). -/
def NoReacqFrom : Held → List Op → Prop
  | _, [] => True
  | h, .acq l mode :: r => (∀ m', (l, m') ∉ h) ∧ NoReacqFrom ((l, mode) :: h) r
  | h, .rel l mode :: r => NoReacqFrom (h.erase (l, mode)) r
  | h, .access _ _ :: r => NoReacqFrom h r
  | h, .unresolved _ :: r => NoReacqFrom h r

theorem holdsB_false_iff (h : Held) (l : Res) : holdsB h l = false ↔ ∀ m', (l, m') ∉ h := by
  unfold holdsB
  constructor
  · intro hf m' hm
    have := List.any_eq_false.mp hf (l, m') hm
    simp at this
  · intro hn
    apply List.any_eq_false.mpr
    intro x hx
    cases x with
    | mk a b =>
      simp only [beq_iff_eq]
      intro e
      subst e
      exact hn b hx

theorem reacqViolFrom_nil_iff (name : String) :
    ∀ (ops : List Op) (i : Nat) (h : Held), reacqViolFrom name i h ops = [] ↔ NoReacqFrom h ops := by
  intro ops
  induction ops with
  | nil => intro i h; simp [reacqViolFrom, NoReacqFrom]
  | cons op r ih =>
    intro i h
    cases op with
    | acq l mode =>
      simp only [reacqViolFrom, NoReacqFrom, List.append_eq_nil_iff, ih, ← holdsB_false_iff]
      cases holdsB h l <;> simp
    | rel l mode => simp [reacqViolFrom, NoReacqFrom, stepHeld, ih]
    | access f mode => simp [reacqViolFrom, NoReacqFrom, stepHeld, ih]
    | unresolved c => simp [reacqViolFrom, NoReacqFrom, stepHeld, ih]

/-- Every access of every method (intra-receiver calls inlined) holds the guard `guardOf`
    assigns to the field: in read or write mode for a read, in write mode for a write. -/
def Disciplined (facts : List MethodFacts) : Prop := DisciplinedProgs guardOf (programs facts)

/-- Every release matches a lock held in that mode and no method returns holding a lock. -/
def Balanced (facts : List MethodFacts) : Prop := BalancedProgs (programs facts)

def NoReacquire (facts : List MethodFacts) : Prop := ∀ p ∈ programs facts, NoReacqFrom [] p

theorem perMethod_nil_iff (facts : List MethodFacts) (f : String → List Op → List Violation)
    (P : List Op → Prop) (hf : ∀ n p, f n p = [] ↔ P p) :
    perMethod facts f = [] ↔ ∀ p ∈ programs facts, P p := by
  simp only [perMethod, programs, List.flatMap_eq_nil_iff, List.mem_map, hf]
  constructor
  · intro h p ⟨m, hm, e⟩; subst e; exact h m hm
  · intro h m hm; exact h _ ⟨m, hm, rfl⟩

theorem disciplined_iff (facts : List MethodFacts) :
    disciplineViolations facts = [] ↔ Disciplined facts :=
  perMethod_nil_iff facts _ _ (fun n p => protViolFrom_nil_iff guardOf n p 0 [])

theorem balanced_iff (facts : List MethodFacts) : balanceViolations facts = [] ↔ Balanced facts :=
  perMethod_nil_iff facts _ _ (fun n p => balViolFrom_nil_iff n p 0 [])

theorem noReacquire_iff (facts : List MethodFacts) : reacquireViolations facts = [] ↔ NoReacquire facts :=
  perMethod_nil_iff facts _ _ (fun n p => reacqViolFrom_nil_iff n p 0 [])

theorem lockOrder_eq (facts : List MethodFacts) : lockOrder facts = orderOf (programs facts) := rfl

/-- A fact table with an empty discipline report is race free at lock granularity. -/
theorem race_free_of_no_violations (facts : List MethodFacts) (h : disciplineViolations facts = [])
    {c : Config} (hr : Reachable (programs facts) c) : ¬ Conflict c :=
  lockset_sound guardOf (programs facts) ((disciplined_iff facts).mp h) hr

/-- A fact table with an empty balance report and an acyclic lock order has no lock deadlock. -/
theorem no_deadlock_of_reports (facts : List MethodFacts) (hb : balanceViolations facts = [])
    (ha : acyclicB (lockOrder facts) = true) {c : Config} (hr : Reachable (programs facts) c) :
    ¬ LockDeadlock c :=
  no_lock_deadlock (programs facts) ((balanced_iff facts).mp hb) (acyclicB_sound _ ha) hr

/-- The same for a subset of the methods (programs still flattened against the whole table):
    the methods selected by `keep` are race free among themselves if none of them is reported. -/
theorem race_free_subset (facts : List MethodFacts) (keep : MethodFacts → Bool)
    (h : (facts.filter keep).flatMap (fun m => protViolFrom guardOf m.name 0 [] (flat facts m)) = [])
    {c : Config} (hr : Reachable ((facts.filter keep).map (flat facts)) c) : ¬ Conflict c := by
  apply lockset_sound guardOf _ _ hr
  intro p hp
  obtain ⟨m, hm, e⟩ := List.mem_map.mp hp
  subst e
  exact (protViolFrom_nil_iff guardOf m.name _ 0 []).mp (List.flatMap_eq_nil_iff.mp h m hm)

/-! ### one critical section per mutex and invocation -/

/-- the acquisitions in `p` are of pairwise different mutexes, none of which is in `seen` -/
def SingleSectionFrom : List Res → List Op → Prop
  | _, [] => True
  | seen, .acq l _ :: r => l ∉ seen ∧ SingleSectionFrom (l :: seen) r
  | seen, _ :: r => SingleSectionFrom seen r

theorem resectionViolFrom_nil_iff (name : String) (p : List Op) (i : Nat) (seen : List Res) :
    resectionViolFrom name i seen p = [] ↔ SingleSectionFrom seen p := by
  induction p generalizing i seen with
  | nil => simp [resectionViolFrom, SingleSectionFrom]
  | cons op r ih =>
    cases op with
    | acq l mode =>
      simp only [resectionViolFrom, SingleSectionFrom, List.append_eq_nil_iff, ih]
      constructor
      · rintro ⟨h1, h2⟩
        refine ⟨?_, h2⟩
        intro hm
        simp [hm] at h1
      · rintro ⟨h1, h2⟩
        refine ⟨?_, h2⟩
        simp [h1]
    | rel l mode => simpa [resectionViolFrom, SingleSectionFrom] using ih (i + 1) seen
    | access f mode => simpa [resectionViolFrom, SingleSectionFrom] using ih (i + 1) seen
    | unresolved c => simpa [resectionViolFrom, SingleSectionFrom] using ih (i + 1) seen

/-- every store operation is one critical section per mutex: no method takes a mutex again after
    having released it (after inlining its callees) -/
def SingleSection (facts : List MethodFacts) : Prop := ∀ p ∈ programs facts, SingleSectionFrom [] p

theorem singleSection_iff (facts : List MethodFacts) : sectionViolations facts = [] ↔ SingleSection facts :=
  perMethod_nil_iff facts _ _ (fun n p => resectionViolFrom_nil_iff n p 0 [])

/-- what it means: a program in which some mutex is acquired at two positions is reported -/
theorem singleSectionFrom_no_second_acq {seen : List Res} {p : List Op} (h : SingleSectionFrom seen p)
    (l : Res) (hl : l ∈ seen) : ∀ mode, Op.acq l mode ∉ p := by
  induction p generalizing seen with
  | nil => intro _ hm; cases hm
  | cons op r ih =>
    intro mode hm
    cases op with
    | acq l' mode' =>
      obtain ⟨h1, h2⟩ := h
      rcases List.mem_cons.mp hm with he | hr
      · cases he; exact h1 hl
      · exact ih h2 (List.mem_cons_of_mem _ hl) mode hr
    | rel l' mode' =>
      rcases List.mem_cons.mp hm with he | hr
      · cases he
      · exact ih h hl mode hr
    | access f mode' =>
      rcases List.mem_cons.mp hm with he | hr
      · cases he
      · exact ih h hl mode hr
    | unresolved c =>
      rcases List.mem_cons.mp hm with he | hr
      · cases he
      · exact ih h hl mode hr

end Fosite.Proofs.Lockset

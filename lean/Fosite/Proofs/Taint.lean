/-
  C20, storage half: what the handler programs hand to the storage layer.

  `allCalls P p` — every storage call the program `p` can issue, on ANY path (the continuation of every call is
  quantified over ALL storage results: found / not found / inactive / injected failure / any record), satisfies `P`.
  `cleanProg := allCalls Call.clean`, where `Call.clean` says that the request form inside the record handed to a
  record-creating call has no entry under a parameter name that carries a credential.  The calculus is the one of
  `calm` (`Proofs/Safe.lean`, `Proofs/Calm.lean`) with the guard test replaced by an arbitrary call predicate.

  The readings (which names, for which call) are stated at `Call.clean` below and in `Props/C20b.lean`.
-/
import Fosite.Model.Fault
namespace Fosite.Model

/-! ### secret-bearing parameter names -/

/-- Request parameters under which an endpoint receives a usable secret:
    * `client_secret`, `client_assertion` — client authentication (token, PAR, device-authorization, revocation,
      introspection endpoints);
    * `password` — resource-owner password grant;
    * `code_verifier`, `code` — authorization_code grant (S256 verifier, complete authorization code);
    * `refresh_token` — refresh grant;  `device_code` — device grant;
    * `token` — revocation / introspection (a complete access or refresh token);
    * `access_token` — RFC 6750 §2.2 body parameter. -/
def secretParams : List String :=
  ["client_secret", "client_assertion", "password", "code_verifier", "code", "refresh_token", "device_code",
   "token", "access_token"]

/-- `secretParams` without `code`: the authorize-code record keeps the authorize request's `code` form entry
    (`AuthorizeExplicitGrantHandler.GetSanitationWhiteList` = `["code", "redirect_uri"]`). -/
def codeRecordSecretParams : List String :=
  ["client_secret", "client_assertion", "password", "code_verifier", "refresh_token", "device_code",
   "token", "access_token"]

/-- what `PushedAuthorizeHandler` deletes from the form before `CreatePARSession` (fix a85a3e2) -/
def parRemovedParams : List String := ["client_secret", "client_assertion", "client_assertion_type"]

/-- no entry of the form sits under one of the names `bad` -/
def formAvoids (bad : List String) (form : List (String × String)) : Bool :=
  form.all (fun kv => !bad.contains kv.1)

/-- every key of the form is one of `allowed` -/
def formWithin (allowed : List String) (form : List (String × String)) : Bool :=
  form.all (fun kv => allowed.contains kv.1)

theorem formAvoids_of_within (allowed bad : List String) (form : List (String × String))
    (hd : bad.all (fun k => !allowed.contains k) = true) (hw : formWithin allowed form = true) :
    formAvoids bad form = true := by
  unfold formAvoids
  unfold formWithin at hw
  rw [List.all_eq_true] at hw ⊢
  intro kv hkv
  have h1 := hw kv hkv
  rw [List.all_eq_true] at hd
  cases hb : bad.contains kv.1 with
  | false => rfl
  | true =>
    have hm : kv.1 ∈ bad := by simpa using hb
    have := hd kv.1 hm
    simp only [h1, Bool.not_true, Bool.false_eq_true] at this

theorem sanitize_within (r : Req) (allowed : List String) :
    formWithin (allowed ++ defaultAllowed) (r.sanitize allowed).form = true := by
  unfold formWithin Req.sanitize
  rw [List.all_eq_true]
  intro kv hkv
  exact (List.mem_filter.mp hkv).2

/-- a sanitised request avoids every name outside its whitelist -/
theorem sanitize_avoids (r : Req) (allowed bad : List String)
    (hd : bad.all (fun k => !(allowed ++ defaultAllowed).contains k) = true) :
    formAvoids bad (r.sanitize allowed).form = true :=
  formAvoids_of_within _ _ _ hd (sanitize_within r allowed)

theorem filter_avoids (form : List (String × String)) (bad : List String) :
    formAvoids bad (form.filter (fun kv => !(bad.contains kv.1))) = true := by
  unfold formAvoids
  rw [List.all_eq_true]
  intro kv hkv
  exact (List.mem_filter.mp hkv).2

/-! ### clean calls -/

/-- The form handed to the storage layer inside the record of a record-creating call (none for every other call). -/
def Call.storedForm : Call → Option (List (String × String))
  | .createCode r | .createAccess r | .createRefresh _ r | .createPKCE _ r | .createOIDC _ r => some r.form
  | .createPAR p => some p.req.form
  | .createDevice d => some d.req.form
  | _ => none

/-- The names the stored form of this call must avoid: all of `secretParams`, except
    * `createCode`: all but `code` (Go's whitelist for the authorize-code record keeps `code`; at the authorization
      endpoint `code` is not a credential parameter — the code being minted is never written into the form);
    * `createPAR`: the client-authentication parameters the fix removes (the pushed request is stored whole otherwise). -/
def Call.forbidden : Call → List String
  | .createCode _ => codeRecordSecretParams
  | .createPAR _ => parRemovedParams
  | _ => secretParams

def Call.cleanB (c : Call) : Bool :=
  match c.storedForm with
  | none => true
  | some f => formAvoids c.forbidden f

/-- `Call.clean c`: the request form handed to storage by `c` (if `c` creates a record) has no entry under a
    secret-bearing parameter name (`Call.forbidden c`).  Lookups, deletions, revocations, transaction calls carry no
    form and are clean.  KEYS: every key position of `Call` is a signature (`Nat`, the model has no complete token)
    — EXCEPT the key of `createOIDC / getOIDC / deleteOIDC`, which in Go is the complete authorization code
    (known finding `C20:storage-sees-secret:{create,get,delete}OIDC:key:complete_authorization_code`); `Call.clean`
    says nothing about that key.  `authenticateUser` hands the user name only (the password goes to the store's
    `Authenticate`, whose purpose is to check it; the harness scan leaves it out as well). -/
def Call.clean (c : Call) : Prop := c.cleanB = true

instance (c : Call) : Decidable c.clean := inferInstanceAs (Decidable (c.cleanB = true))

/-- the calls whose key is a complete credential in the Go code (the known finding) -/
def Call.keyIsCompleteCode : Call → Bool
  | .createOIDC _ _ | .getOIDC _ | .deleteOIDC _ => true
  | _ => false

theorem clean_of_noForm (c : Call) (h : c.storedForm = none) : c.clean := by
  unfold Call.clean Call.cleanB; rw [h]

theorem clean_createAccess (r : Req) : Call.clean (.createAccess (r.sanitize [])) :=
  sanitize_avoids r [] secretParams (by decide)
theorem clean_createRefresh (a : Nat) (r : Req) : Call.clean (.createRefresh a (r.sanitize [])) :=
  sanitize_avoids r [] secretParams (by decide)
theorem clean_createDevice (r : Req) : Call.clean (.createDevice { req := r.sanitize [] }) :=
  sanitize_avoids r [] secretParams (by decide)
theorem clean_createCode (r : Req) : Call.clean (.createCode (r.sanitize ["code", "redirect_uri"])) :=
  sanitize_avoids r ["code", "redirect_uri"] codeRecordSecretParams (by decide)
theorem clean_createPKCE (c : Nat) (r : Req) :
    Call.clean (.createPKCE c (r.sanitize ["code_challenge", "code_challenge_method"])) :=
  sanitize_avoids r ["code_challenge", "code_challenge_method"] secretParams (by decide)

/-! ### the calculus -/

/-- every call the program can issue, whatever the storage layer answers, satisfies `P` -/
def allCalls {α} (P : Call → Prop) : Prog α → Prop
  | .ret _ => True
  | .call c k => P c ∧ ∀ res, allCalls P (k res)

/-- every record the program can hand to storage, on any path, has a clean form -/
def cleanProg {α} (p : Prog α) : Prop := allCalls Call.clean p

theorem allCalls_mono {α} (P Q : Call → Prop) (h : ∀ c, P c → Q c) (p : Prog α) : allCalls P p → allCalls Q p := by
  induction p with
  | ret a => exact fun _ => trivial
  | call c k ih => exact fun hp => ⟨h c hp.1, fun res => ih res (hp.2 res)⟩

theorem allCalls_ret {α} (P) (a : α) : allCalls P (Prog.ret a) := trivial
theorem allCalls_pure {α} (P) (a : α) : allCalls P (pure a : Prog α) := trivial
theorem allCalls_retErr (P) (e : Err) : allCalls P (retErr e) := trivial

theorem allCalls_bind {α β} (P) (p : Prog α) (f : α → Prog β) (hp : allCalls P p) (hf : ∀ a, allCalls P (f a)) :
    allCalls P (p.bind f) := by
  induction p with
  | ret a => exact hf a
  | call c k ih => exact ⟨hp.1, fun res => ih res (hp.2 res)⟩

theorem allCalls_pbind {α β} (P) (p : Prog α) (f : α → Prog β) (hp : allCalls P p) (hf : ∀ a, allCalls P (f a)) :
    allCalls P (p >>= f) := allCalls_bind P p f hp hf

/-- the converse: the calls of `p` are among those of `p >>= f` -/
theorem allCalls_of_bind {α β} (P) (p : Prog α) (f : α → Prog β) (h : allCalls P (p.bind f)) : allCalls P p := by
  induction p with
  | ret a => trivial
  | call c k ih => exact ⟨h.1, fun res => ih res (h.2 res)⟩

theorem allCalls_call (P) (c : Call) (h : P c) : allCalls P (call c) := ⟨h, fun _ => trivial⟩

/-- handler programs -/
def allCallsH {α} (P : Call → Prop) (x : HP α) : Prop := allCalls P x.toProg

theorem allH_ok {α} (P) (a : α) : allCallsH P (HP.ok a) := trivial
theorem allH_pure {α} (P) (a : α) : allCallsH P (pure a : HP α) := trivial
theorem allH_fail {α} (P) (e : Err) : allCallsH P (HP.fail e : HP α) := trivial
theorem allH_failWith {α} (P) (p : Prog Err) (h : allCalls P p) : allCallsH P (HP.failWith p : HP α) :=
  allCalls_bind P p _ h (fun _ => trivial)
theorem allH_bind {α β} (P) (x : HP α) (f : α → HP β) (hx : allCallsH P x) (hf : ∀ a, allCallsH P (f a)) :
    allCallsH P (x >>= f) := by
  show allCalls P (HP.bind x f).toProg
  unfold HP.bind HP.mk HP.toProg
  apply allCalls_bind P _ _ hx
  intro r; cases r with
  | ok a => exact hf a
  | error e => trivial
theorem allH_guard (P) (c : Bool) (e : Err) : allCallsH P (HP.guard c e) := by
  unfold HP.guard; split <;> trivial
theorem allH_lift {α} (P) (p : Prog α) (h : allCalls P p) : allCallsH P (HP.lift p) :=
  allCalls_bind P p _ h (fun _ => trivial)
theorem allH_callH (P) (c : Call) (h : P c) : allCallsH P (callH c) := allH_lift P _ (allCalls_call P c h)
theorem allH_expectReq (P) (c : Call) (other) (h : P c) (ho : ∀ r, allCalls P (other r)) :
    allCallsH P (expectReq c other) := by
  refine ⟨h, fun res => ?_⟩
  cases res <;> first | trivial | exact allH_failWith P _ (ho _)
theorem allH_expectNat (P) (c : Call) (other) (h : P c) (ho : ∀ r, allCalls P (other r)) :
    allCallsH P (expectNat c other) := by
  refine ⟨h, fun res => ?_⟩
  cases res <;> first | trivial | exact allH_failWith P _ (ho _)
theorem allH_expectDev (P) (c : Call) (other) (h : P c) (ho : ∀ r, allCalls P (other r)) :
    allCallsH P (expectDev c other) := by
  refine ⟨h, fun res => ?_⟩
  cases res <;> first | trivial | exact allH_failWith P _ (ho _)
theorem allH_expectPar (P) (c : Call) (other) (h : P c) (ho : ∀ r, allCalls P (other r)) :
    allCallsH P (expectPar c other) := by
  refine ⟨h, fun res => ?_⟩
  cases res <;> first | trivial | exact allH_failWith P _ (ho _)
theorem allH_expectOk (P) (c : Call) (other) (h : P c) (ho : ∀ e, allCalls P (other e)) :
    allCallsH P (expectOk c other) := by
  refine ⟨h, fun res => ?_⟩
  show allCalls P (match res.errKind with | none => _ | some e => _)
  cases res.errKind <;> first | trivial | exact allH_failWith P _ (ho _)
theorem allH_expectClient (P) (c : Call) (e) (h : P c) : allCallsH P (expectClient c e) := by
  refine ⟨h, fun res => ?_⟩
  cases res <;> trivial
theorem allH_optErr (P) (o : Option Err) : allCallsH P (optErr o) := by cases o <;> trivial

theorem allCalls_run (P) (x : HP Out) (h : allCallsH P x) : allCalls P x.run := by
  unfold HP.run
  apply allCalls_bind P _ _ h
  intro r; cases r <;> trivial

/-! ### the walker: one tactic for all handler programs

  `walk_with (side) (known)` decomposes a handler program along binds, guards, `expect*`, `if` and `match`;
  `side` proves the call predicate at each call, `known` closes sub-programs that already have a lemma.
  Leaf lemmas are tried with reducible transparency so that nothing of the handlers is unfolded by unification. -/

syntax "walk_with" "(" tactic ")" "(" tactic ")" : tactic
macro_rules
  | `(tactic| walk_with ($side) ($known)) => `(tactic| repeat' (first
      | with_reducible exact allH_optErr _ _
      | with_reducible exact allH_guard _ _ _
      | with_reducible exact allH_pure _ _
      | with_reducible exact allH_ok _ _
      | with_reducible exact allH_fail _ _
      | with_reducible exact allCalls_retErr _ _
      | with_reducible exact allCalls_ret _ _
      | with_reducible exact allCalls_pure _ _
      | with_reducible assumption
      | with_reducible ($known:tactic)
      | with_reducible refine allH_callH _ _ ?_
      | with_reducible refine allH_expectClient _ _ _ ?_
      | with_reducible refine allCalls_call _ _ ?_
      | with_reducible refine allH_expectReq _ _ _ ?_ ?_
      | with_reducible refine allH_expectNat _ _ _ ?_ ?_
      | with_reducible refine allH_expectOk _ _ _ ?_ ?_
      | with_reducible refine allH_expectDev _ _ _ ?_ ?_
      | with_reducible refine allH_expectPar _ _ _ ?_ ?_
      | with_reducible refine allH_failWith _ _ ?_
      | with_reducible refine allH_bind _ _ _ ?_ ?_
      | with_reducible refine allCalls_pbind _ _ _ ?_ ?_
      | intro _
      | ($side:tactic)
      | split
      | dsimp only))

/-! ### quiet programs: no record handed over, no OIDC-session call

  Error paths, client authentication, PKCE verification, revocation and introspection only look up, flag, delete or
  revoke by signature / request id.  They satisfy every call predicate that holds of such calls. -/

/-- the call hands no record to storage and is not one of the three OIDC-session calls -/
def Call.handsNothing (c : Call) : Bool := c.storedForm.isNone && !c.keyIsCompleteCode

def Quiet (c : Call) : Prop := c.handsNothing = true

theorem allCalls_of_quiet {α} (P : Call → Prop) (hP : ∀ c, Quiet c → P c) (p : Prog α) (h : allCalls Quiet p) :
    allCalls P p := allCalls_mono Quiet P hP p h
theorem allH_of_quiet {α} (P : Call → Prop) (hP : ∀ c, Quiet c → P c) (x : HP α) (h : allCallsH Quiet x) :
    allCallsH P x := allCalls_mono Quiet P hP _ h

theorem clean_of_quiet (c : Call) (h : Quiet c) : c.clean := by
  cases c <;> first | exact clean_of_noForm _ rfl | cases h

syntax "quiet_known" : tactic
macro_rules | `(tactic| quiet_known) => `(tactic| fail "no quiet lemma")
macro "quiet_side" : tactic => `(tactic| ((with_reducible show Quiet _); exact rfl))
macro "quiet_walk" : tactic => `(tactic| walk_with (quiet_side) (quiet_known))

theorem quiet_rollbackThen (e : Err) : allCalls Quiet (rollbackThen e) := by
  unfold rollbackThen; quiet_walk
macro_rules | `(tactic| quiet_known) => `(tactic| exact quiet_rollbackThen _)

theorem quietH_authenticate (id : String) (ok : Bool) : allCallsH Quiet (authenticate id ok) := by
  unfold authenticate; quiet_walk
macro_rules | `(tactic| quiet_known) => `(tactic| exact quietH_authenticate _ _)

theorem quiet_redeemLookupFailed (r : Res) : allCalls Quiet (redeemLookupFailed r) := by
  unfold redeemLookupFailed; quiet_walk
macro_rules | `(tactic| quiet_known) => `(tactic| exact quiet_redeemLookupFailed _)

theorem quietH_pkceHandle (cfg code v client) : allCallsH Quiet (pkceHandle cfg code v client) := by
  unfold pkceHandle; quiet_walk
macro_rules | `(tactic| quiet_known) => `(tactic| exact quietH_pkceHandle _ _ _ _)

theorem quietH_pkcePopulate (code) : allCallsH Quiet (pkcePopulate code) := by
  unfold pkcePopulate; quiet_walk
macro_rules | `(tactic| quiet_known) => `(tactic| exact quietH_pkcePopulate _)

theorem quiet_refreshStorageError (e : Err) : allCalls Quiet (refreshStorageError e) := by
  unfold refreshStorageError; quiet_walk
macro_rules | `(tactic| quiet_known) => `(tactic| exact quiet_refreshStorageError _)

theorem quiet_refreshReuse (sig : Option Nat) (rid : Nat) : allCalls Quiet (refreshReuse sig rid) := by
  unfold refreshReuse; quiet_walk
macro_rules | `(tactic| quiet_known) => `(tactic| exact quiet_refreshReuse _ _)

theorem quiet_refreshLookupFailed (sig : Option Nat) (r : Res) : allCalls Quiet (refreshLookupFailed sig r) := by
  unfold refreshLookupFailed; quiet_walk
macro_rules | `(tactic| quiet_known) => `(tactic| exact quiet_refreshLookupFailed _ _)

theorem quietH_deviceStateGate (d : DevRec) : allCallsH Quiet (deviceStateGate d) := by
  unfold deviceStateGate; quiet_walk
macro_rules | `(tactic| quiet_known) => `(tactic| exact quietH_deviceStateGate _)

theorem quiet_deviceReplay (rid : Nat) : allCalls Quiet (deviceReplay rid) := by
  unfold deviceReplay; quiet_walk
macro_rules | `(tactic| quiet_known) => `(tactic| exact quiet_deviceReplay _)

theorem quiet_deviceLookupFailed (rid : Nat) (r : Res) : allCalls Quiet (deviceLookupFailed rid r) := by
  unfold deviceLookupFailed; quiet_walk
macro_rules | `(tactic| quiet_known) => `(tactic| exact quiet_deviceLookupFailed _ _)

/-! revocation and introspection are quiet as whole endpoints -/

theorem quietH_revocationError (e1 e2 : Option Err) : allCallsH Quiet (revocationError e1 e2) := by
  unfold revocationError; quiet_walk
macro_rules | `(tactic| quiet_known) => `(tactic| exact quietH_revocationError _ _)

theorem quietH_revokeFound (client : Client) (ar : Req) : allCallsH Quiet (revokeH.revokeFound client ar) := by
  unfold revokeH.revokeFound; quiet_walk
macro_rules | `(tactic| quiet_known) => `(tactic| exact quietH_revokeFound _ _)

theorem quiet_revokeFirst (q : RevokeReq) : Quiet (revokeFirst q) := by
  unfold revokeFirst; split <;> rfl
theorem quiet_revokeSecond (q : RevokeReq) : Quiet (revokeSecond q) := by
  unfold revokeSecond; split <;> rfl

theorem quietH_revokeH (q) : allCallsH Quiet (revokeH q) := by
  unfold revokeH
  walk_with (first | exact quiet_revokeFirst _ | exact quiet_revokeSecond _) (quiet_known)

theorem quiet_revokeProg (q) : allCalls Quiet (revokeProg q) := allCalls_run _ _ (quietH_revokeH q)

theorem quietH_introspectAccess (cfg now q) : allCallsH Quiet (introspectAccess cfg now q) := by
  unfold introspectAccess; quiet_walk
theorem quietH_introspectRefresh (cfg now q) : allCallsH Quiet (introspectRefresh cfg now q) := by
  unfold introspectRefresh; quiet_walk

theorem quiet_attemptAccess (cfg now q) : allCalls Quiet (attempt (introspectAccess cfg now q)) :=
  quietH_introspectAccess cfg now q
theorem quiet_attemptRefresh (cfg now q) : allCalls Quiet (attempt (introspectRefresh cfg now q)) :=
  quietH_introspectRefresh cfg now q
macro_rules | `(tactic| quiet_known) => `(tactic| exact quiet_attemptAccess _ _ _)
macro_rules | `(tactic| quiet_known) => `(tactic| exact quiet_attemptRefresh _ _ _)

theorem quiet_introspectProg (cfg now q) : allCalls Quiet (introspectProg cfg now q) := by
  unfold introspectProg; quiet_walk
macro_rules | `(tactic| quiet_known) => `(tactic| exact quiet_introspectProg _ _ _)

theorem quiet_introspectEndpointProg (cfg now r) : allCalls Quiet (introspectEndpointProg cfg now r) := by
  unfold introspectEndpointProg; quiet_walk

/-! ### clean programs -/

theorem clean_createOIDC (c : Nat) (r : Req) : Call.clean (.createOIDC c (r.sanitize oidcParameters)) :=
  sanitize_avoids r oidcParameters secretParams (by decide)

theorem clean_createPAR (p : ParRec) (form : List (String × String))
    (h : p.req.form = form.filter (fun kv => !(parRemovedParams.contains kv.1))) : Call.clean (.createPAR p) := by
  show formAvoids parRemovedParams p.req.form = true
  rw [h]; exact filter_avoids form parRemovedParams

macro "clean_side" : tactic => `(tactic| first
  | exact clean_of_noForm _ rfl
  | exact clean_createAccess _ | exact clean_createRefresh _ _ | exact clean_createDevice _
  | exact clean_createCode _ | exact clean_createPKCE _ _ | exact clean_createOIDC _ _
  | exact clean_createPAR _ _ rfl)

syntax "clean_known" : tactic
macro_rules | `(tactic| clean_known) => `(tactic| first
  | exact allH_of_quiet _ clean_of_quiet _ (by quiet_known)
  | exact allCalls_of_quiet _ clean_of_quiet _ (by quiet_known))
macro "clean_walk" : tactic => `(tactic| walk_with (clean_side) (clean_known))

theorem cleanH_oidcExplicitPopulate (code client) : allCallsH Call.clean (oidcExplicitPopulate code client) := by
  unfold oidcExplicitPopulate; clean_walk
macro_rules | `(tactic| clean_known) => `(tactic| exact cleanH_oidcExplicitPopulate _ _)

theorem cleanH_oidcDevicePopulate (code client) : allCallsH Call.clean (oidcDevicePopulate code client) := by
  unfold oidcDevicePopulate; clean_walk
macro_rules | `(tactic| clean_known) => `(tactic| exact cleanH_oidcDevicePopulate _ _)

/-- `grant_type=authorization_code`: whatever the token request's form carries -/
theorem cleanH_redeemH (cfg now q) : allCallsH Call.clean (redeemH cfg now q) := by
  unfold redeemH; clean_walk
theorem clean_redeemProg (cfg : Config) (now : Time) (q : RedeemReq) : cleanProg (redeemProg cfg now q) :=
  allCalls_run _ _ (cleanH_redeemH cfg now q)

/-- `grant_type=refresh_token` -/
theorem cleanH_refreshH (cfg now q) : allCallsH Call.clean (refreshH cfg now q) := by
  unfold refreshH; clean_walk
theorem clean_refreshProg (cfg : Config) (now : Time) (q : RefreshReq) : cleanProg (refreshProg cfg now q) :=
  allCalls_run _ _ (cleanH_refreshH cfg now q)

/-! authorization endpoint -/

theorem cleanH_authzExplicit (cfg now client q acc) : allCallsH Call.clean (authzExplicit cfg now client q acc) := by
  unfold authzExplicit; clean_walk
macro_rules | `(tactic| clean_known) => `(tactic| exact cleanH_authzExplicit _ _ _ _ _)

theorem cleanH_authzImplicit (cfg now client q acc) : allCallsH Call.clean (authzImplicit cfg now client q acc) := by
  unfold authzImplicit; clean_walk
macro_rules | `(tactic| clean_known) => `(tactic| exact cleanH_authzImplicit _ _ _ _ _)

theorem cleanH_authzOIDCExplicit (q acc) : allCallsH Call.clean (authzOIDCExplicit q acc) := by
  unfold authzOIDCExplicit; clean_walk
macro_rules | `(tactic| clean_known) => `(tactic| exact cleanH_authzOIDCExplicit _ _)

theorem cleanH_authzHybrid (cfg now minNonce client q acc) :
    allCallsH Call.clean (authzHybrid cfg now minNonce client q acc) := by
  unfold authzHybrid; clean_walk
macro_rules | `(tactic| clean_known) => `(tactic| exact cleanH_authzHybrid _ _ _ _ _ _)

theorem cleanH_authzPKCE (cfg client q acc) : allCallsH Call.clean (authzPKCE cfg client q acc) := by
  unfold authzPKCE; clean_walk
macro_rules | `(tactic| clean_known) => `(tactic| exact cleanH_authzPKCE _ _ _ _)

theorem cleanH_authorizeH (cfg now minNonce q) : allCallsH Call.clean (authorizeH cfg now minNonce q) := by
  unfold authorizeH; clean_walk
theorem clean_authorizeProg (cfg : Config) (now : Time) (minNonce : Nat) (q : AuthzReq) :
    cleanProg (authorizeProg cfg now minNonce q) :=
  allCalls_run _ _ (cleanH_authorizeH cfg now minNonce q)

/-! client_credentials, password -/

theorem cleanH_clientCredentialsH (cfg now q) : allCallsH Call.clean (clientCredentialsH cfg now q) := by
  unfold clientCredentialsH; clean_walk
theorem clean_clientCredentialsProg (cfg : Config) (now : Time) (q : DirectReq) :
    cleanProg (clientCredentialsProg cfg now q) :=
  allCalls_run _ _ (cleanH_clientCredentialsH cfg now q)

theorem cleanH_passwordH (cfg now q) : allCallsH Call.clean (passwordH cfg now q) := by
  unfold passwordH; clean_walk
theorem clean_passwordProg (cfg : Config) (now : Time) (q : DirectReq) : cleanProg (passwordProg cfg now q) :=
  allCalls_run _ _ (cleanH_passwordH cfg now q)

/-! device flow -/

theorem cleanH_deviceAuthH (cfg now q) : allCallsH Call.clean (deviceAuthH cfg now q) := by
  unfold deviceAuthH; clean_walk
theorem clean_deviceAuthProg (cfg : Config) (now : Time) (q : DeviceAuthReq) : cleanProg (deviceAuthProg cfg now q) :=
  allCalls_run _ _ (cleanH_deviceAuthH cfg now q)

theorem cleanH_devicePollH (cfg now q) : allCallsH Call.clean (devicePollH cfg now q) := by
  unfold devicePollH; clean_walk
theorem clean_devicePollProg (cfg : Config) (now : Time) (q : DevicePollReq) : cleanProg (devicePollProg cfg now q) :=
  allCalls_run _ _ (cleanH_devicePollH cfg now q)

/-! pushed authorization requests -/

theorem cleanH_parPushH (cfg now p) : allCallsH Call.clean (parPushH cfg now p) := by
  unfold parPushH; clean_walk
theorem clean_parPushProg (cfg : Config) (now : Time) (p : ParPushReq) : cleanProg (parPushProg cfg now p) :=
  allCalls_run _ _ (cleanH_parPushH cfg now p)

theorem cleanH_authorizeParH (cfg now minNonce a) : allCallsH Call.clean (authorizeParH cfg now minNonce a) := by
  unfold authorizeParH; clean_walk
theorem clean_authorizeParProg (cfg : Config) (now : Time) (minNonce : Nat) (a : AuthzParReq) :
    cleanProg (authorizeParProg cfg now minNonce a) :=
  allCalls_run _ _ (cleanH_authorizeParH cfg now minNonce a)

/-! revocation, introspection -/

theorem clean_revokeProg (q : RevokeReq) : cleanProg (revokeProg q) :=
  allCalls_of_quiet _ clean_of_quiet _ (quiet_revokeProg q)
theorem clean_introspectProg (cfg : Config) (now : Time) (q : IntrospectReq) : cleanProg (introspectProg cfg now q) :=
  allCalls_of_quiet _ clean_of_quiet _ (quiet_introspectProg cfg now q)
theorem clean_introspectEndpointProg (cfg : Config) (now : Time) (r : IntrospectEndpointReq) :
    cleanProg (introspectEndpointProg cfg now r) :=
  allCalls_of_quiet _ clean_of_quiet _ (quiet_introspectEndpointProg cfg now r)

/-! ### every endpoint program -/

theorem allCalls_clean_prog (s : MState) (op : Op) (p : Prog Out) (h : op.prog s = some p) : cleanProg p := by
  cases op <;> simp only [Op.prog, Option.some.injEq, reduceCtorEq] at h <;> subst h
  · exact clean_authorizeProg _ _ _ _
  · exact clean_redeemProg _ _ _
  · exact clean_refreshProg _ _ _
  · exact clean_revokeProg _
  · exact clean_introspectProg _ _ _
  · exact clean_introspectEndpointProg _ _ _
  · exact clean_clientCredentialsProg _ _ _
  · exact clean_passwordProg _ _ _
  · exact clean_deviceAuthProg _ _ _
  · exact clean_devicePollProg _ _ _
  · exact clean_parPushProg _ _ _
  · exact clean_authorizeParProg _ _ _ _

/-! ### from programs to runs: the storage-call log -/

/-- one interpreter step appends at most the call itself to the log -/
theorem step_log_tn (rc : RunCfg) (rs : RState) (c : Call) :
    (rs.step rc c).1.log = rs.log ∨ ∃ r, (rs.step rc c).1.log = rs.log ++ [(c, r)] := by
  unfold RState.step
  split
  · exact Or.inl rfl
  · split
    · exact Or.inl rfl
    · split
      · exact Or.inr ⟨_, rfl⟩
      · cases c <;> exact Or.inr ⟨_, rfl⟩

/-- every call a run logs satisfies what every call of the program satisfies — under any fault plan, with or
    without transactions, from any interpreter state -/
theorem run_log_all {α} (P : Call → Prop) (rc : RunCfg) (p : Prog α) (rs : RState) (hp : allCalls P p)
    (hl : ∀ e ∈ rs.log, P e.1) : ∀ e ∈ (run rc rs p).1.log, P e.1 := by
  induction p generalizing rs with
  | ret a => exact hl
  | call c k ih =>
    rw [run_call]
    apply ih _ _ (hp.2 _)
    intro e he
    rcases step_log_tn rc rs c with h | ⟨r, h⟩
    · rw [h] at he; exact hl e he
    · rw [h] at he
      rcases List.mem_append.mp he with h1 | h1
      · exact hl e h1
      · rw [List.mem_singleton] at h1; subst h1; exact hp.1

theorem stepWith_noprog_log (rc : RunCfg) (s : MState) (op : Op) (h : op.prog s = none) :
    (stepWith rc s op).2.2 = [] := by
  unfold stepWith; rw [h]
  cases op <;> first | rfl | (simp only [Op.prog, reduceCtorEq] at h) | skip
  -- deviceDecide: the consent application writes the decision itself; no handler, no storage call
  simp only [step]
  split <;> rfl

/-- the log of one operation under any run configuration, for a predicate its endpoint program satisfies -/
theorem stepWith_log_of_prog (P : Call → Prop) (rc : RunCfg) (s : MState) (op : Op) (p : Prog Out)
    (h : op.prog s = some p) (hp : allCalls P p) : ∀ e ∈ (stepWith rc s op).2.2, P e.1 := by
  rw [stepWith_prog rc s op p h]
  exact run_log_all P rc p _ hp (fun e he => by cases he)

theorem stepWith_log_all (P : Call → Prop) (hprog : ∀ (s : MState) (op : Op) (p : Prog Out), op.prog s = some p → allCalls P p)
    (rc : RunCfg) (s : MState) (op : Op) : ∀ e ∈ (stepWith rc s op).2.2, P e.1 := by
  cases h : op.prog s with
  | none => rw [stepWith_noprog_log rc s op h]; intro e he; cases he
  | some p => exact stepWith_log_of_prog P rc s op p h (hprog s op p h)

/-! ### the OIDC-session key (known finding) and the pushed-request record, exactly -/

/-- every OIDC-session lookup / deletion uses the key `key`, and no OIDC session is created -/
def oidcKeyIs (key : Option Nat) (c : Call) : Prop :=
  match c with
  | .getOIDC k | .deleteOIDC k => k = key
  | .createOIDC _ _ => False
  | _ => True

theorem oidcKeyIs_of_quiet (key : Option Nat) (c : Call) (h : Quiet c) : oidcKeyIs key c := by
  cases c <;> first | trivial | cases h

macro "oidc_side" : tactic => `(tactic| ((with_reducible show oidcKeyIs _ _); first | exact trivial | exact rfl))
macro "oidc_known0" : tactic => `(tactic| first
  | exact allH_of_quiet _ (oidcKeyIs_of_quiet _) _ (by quiet_known)
  | exact allCalls_of_quiet _ (oidcKeyIs_of_quiet _) _ (by quiet_known))

/-- the storage key that stands for the COMPLETE presented code: it names a record only when the whole presented
    string is the minted one (`exact`); a string with the right signature part but another random part names nothing -/
def Presented.completeKey (code : Presented) : Option Nat := if code.exact then code.sig else none

theorem oidcKeyH_explicit (code : Presented) (client : Client) :
    allCallsH (oidcKeyIs code.completeKey) (oidcExplicitPopulate code client) := by
  unfold oidcExplicitPopulate
  walk_with (oidc_side) (oidc_known0)

theorem oidcKeyH_device (code : Presented) (client : Client) :
    allCallsH (oidcKeyIs code.sig) (oidcDevicePopulate code client) := by
  unfold oidcDevicePopulate
  walk_with (oidc_side) (oidc_known0)

macro "oidc_known" : tactic => `(tactic| first
  | exact oidcKeyH_explicit _ _ | exact oidcKeyH_device _ _ | oidc_known0)

/-- code flow at the token endpoint: the OIDC session is looked up and deleted under the complete-code key -/
theorem oidcKey_redeemProg (cfg : Config) (now : Time) (q : RedeemReq) :
    allCalls (oidcKeyIs q.code.completeKey) (redeemProg cfg now q) := by
  apply allCalls_run
  unfold redeemH
  walk_with (oidc_side) (oidc_known)

/-- device flow at the token endpoint: the OIDC session is looked up and deleted under the device-code SIGNATURE
    (fix a1ba3bd), whatever the rest of the presented device code is -/
theorem oidcKey_devicePollProg (cfg : Config) (now : Time) (q : DevicePollReq) :
    allCalls (oidcKeyIs q.code.sig) (devicePollProg cfg now q) := by
  apply allCalls_run
  unfold devicePollH
  walk_with (oidc_side) (oidc_known)

/-- the form keys an `AuthzReq` can produce -/
def authzFormKeys : List String :=
  ["response_type", "client_id", "redirect_uri", "scope", "state", "nonce", "audience", "code_challenge",
   "code_challenge_method"]

theorem formWithin_append (a : List String) (f g : List (String × String)) :
    formWithin a (f ++ g) = (formWithin a f && formWithin a g) := by
  unfold formWithin; rw [List.all_append]
theorem formAvoids_append (b : List String) (f g : List (String × String)) :
    formAvoids b (f ++ g) = (formAvoids b f && formAvoids b g) := by
  unfold formAvoids; rw [List.all_append]
theorem formAvoids_filter (b : List String) (f : List (String × String)) (keep : String × String → Bool)
    (h : formAvoids b f = true) : formAvoids b (f.filter keep) = true := by
  unfold formAvoids at h ⊢
  rw [List.all_eq_true] at h ⊢
  exact fun kv hkv => h kv (List.mem_filter.mp hkv).1

theorem authzForm_within (q : AuthzReq) : formWithin authzFormKeys q.form = true := by
  have hopt : ∀ (k v : String), authzFormKeys.contains k = true →
      formWithin authzFormKeys (if (v == "") = true then [] else [(k, v)]) = true := by
    intro k v hk
    split
    · rfl
    · simp only [formWithin, List.all_cons, List.all_nil, Bool.and_true]; exact hk
  unfold AuthzReq.form
  simp only [formWithin_append, Bool.and_eq_true]
  refine ⟨⟨⟨⟨⟨⟨⟨rfl, ?_⟩, ?_⟩, ?_⟩, ?_⟩, ?_⟩, ?_⟩, ?_⟩ <;> exact hopt _ _ (by decide)

/-- whatever an authorization request is made of, its form has no secret-bearing name (there is no field for one) -/
theorem authzForm_avoids (q : AuthzReq) : formAvoids secretParams q.form = true :=
  formAvoids_of_within authzFormKeys secretParams q.form (by decide) (authzForm_within q)

/-- the only record `parPush` hands over is the `createPAR` one, and its form is exactly the pushed form minus the
    client-authentication parameters -/
def parRecordIs (p : ParPushReq) (c : Call) : Prop :=
  match c with
  | .createPAR r => r.req.form = (p.q.form ++ p.extraForm).filter (fun kv => !(parRemovedParams.contains kv.1))
  | c => c.storedForm = none

theorem parRecordIs_of_quiet (p : ParPushReq) (c : Call) (h : Quiet c) : parRecordIs p c := by
  cases c <;> first | rfl | cases h

macro "par_side" : tactic => `(tactic| ((with_reducible show parRecordIs _ _); exact rfl))

theorem parRecord_parPushProg (cfg : Config) (now : Time) (p : ParPushReq) :
    allCalls (parRecordIs p) (parPushProg cfg now p) := by
  apply allCalls_run
  unfold parPushH
  walk_with (par_side)
    (first | exact allH_of_quiet _ (parRecordIs_of_quiet _) _ (by quiet_known)
           | exact allCalls_of_quiet _ (parRecordIs_of_quiet _) _ (by quiet_known))

/-- every record-creating call avoids ALL of `secretParams` (no exception for `code`, none for PAR) -/
def Call.strictB (c : Call) : Bool :=
  match c.storedForm with
  | none => true
  | some f => formAvoids secretParams f
def Call.strict (c : Call) : Prop := c.strictB = true
instance (c : Call) : Decidable c.strict := inferInstanceAs (Decidable (c.strictB = true))

theorem strict_of_parRecordIs (p : ParPushReq) (h : formAvoids secretParams p.extraForm = true) (c : Call)
    (hc : parRecordIs p c) : c.strict := by
  cases c with
  | createPAR r =>
    show formAvoids secretParams r.req.form = true
    rw [show r.req.form = _ from hc]
    apply formAvoids_filter
    rw [formAvoids_append, authzForm_avoids, h]; rfl
  | _ => first | rfl | cases hc

/-- the same when the extra body parameters are client-authentication parameters or harmless -/
theorem strict_of_parRecordIs_auth (p : ParPushReq)
    (h : p.extraForm.all (fun kv => parRemovedParams.contains kv.1 || !secretParams.contains kv.1) = true) (c : Call)
    (hc : parRecordIs p c) : c.strict := by
  cases c with
  | createPAR r =>
    show formAvoids secretParams r.req.form = true
    rw [show r.req.form = _ from hc]
    unfold formAvoids
    rw [List.all_eq_true]
    intro kv hkv
    obtain ⟨hmem, hkeep⟩ := List.mem_filter.mp hkv
    rcases List.mem_append.mp hmem with h1 | h1
    · have := authzForm_avoids p.q
      unfold formAvoids at this
      exact (List.all_eq_true.mp this) kv h1
    · have h2 := (List.all_eq_true.mp h) kv h1
      cases hr : parRemovedParams.contains kv.1 with
      | true => rw [hr] at hkeep; cases hkeep
      | false => rw [hr] at h2; simpa using h2
  | _ => first | rfl | cases hc

/-- the two calls for which `Call.clean` uses a shorter list than `secretParams` -/
def Call.relaxed : Call → Bool
  | .createCode _ | .createPAR _ => true
  | _ => false

/-- for every other call, clean means: none of `secretParams` at all -/
theorem strict_of_clean (c : Call) (hr : c.relaxed = false) (h : c.clean) : c.strict := by
  cases c <;> first | exact h | cases hr

/-- a push whose extra body parameters carry no secret-bearing name stores no secret-bearing name -/
theorem strict_parPushProg (cfg : Config) (now : Time) (p : ParPushReq)
    (h : formAvoids secretParams p.extraForm = true) : allCalls Call.strict (parPushProg cfg now p) :=
  allCalls_mono _ _ (strict_of_parRecordIs p h) _ (parRecord_parPushProg cfg now p)

end Fosite.Model

/-
  C18 — transaction discipline as a trace automaton, and a calculus over handler programs that is
  independent of the store contents and of the fault plan: `txK` quantifies over EVERY result of
  every storage call, hence covers every store, every fault plan (single faults, pairs, …) and
  every error kind at once.

  Classification of call results (`Res.cls`, by `Res.errKind`, i.e. as `errors.Is` sees them):
    * `ok`  — `errKind = none`;
    * `nf`  — `errKind = some .not_found` (the store's own "not found" answer, or an injected one);
    * `bad` — any other error: injected generic / serialization / inactive / … failures AND the
              store's own `ErrInvalidatedAuthorizeCode` / `ErrInactiveToken` / `ErrInvalidatedDeviceCode`.

  `failed` (`unexp c r`, `Unexpected`): the call returned `bad`, or it returned `nf` at a call where
  the handlers do NOT treat not-found as an ordinary lookup answer.  Not-found is an ordinary answer
  only at `getPKCE` (`pkce.Handler.HandleTokenEndpointRequest`: "no PKCE session"), `getOIDC`
  (`OpenIDConnect*Handler.PopulateTokenEndpointResponse`: `ErrNoSessionFound` ⇒ no ID token) and
  `deletePKCE` (`pkce.Handler.PopulateTokenEndpointResponse`: `!errors.Is(err, ErrNotFound)`)
  — `Call.nfOk`.  Everywhere else the handlers turn not-found into an error response anyway, so it
  counts (this makes the theorems stronger, not weaker).

  `dirty` (`dirtying c r`): the same inside the open transaction, except that not-found is ALSO
  tolerated at `revokeRefresh` / `revokeAccess` (`Call.nfTxOk`): `handleRefreshTokenReuse` commits
  after `RevokeRefreshToken` / `RevokeAccessToken` answered `ErrNotFound`.  A failed `commitTx` also
  sets `dirty` (a second commit attempt is a violation).

  `wroteOutside`: a store-mutating call (`Call.mutates`) returned `ok` while no transaction was open.
-/
import Fosite.Model.Fault
namespace Fosite.Model

/-! ### the automaton -/

/-- `idle`: no transaction opened yet; `inTx`: open; `abandoned`: the rollback itself failed -/
inductive Phase | idle | inTx | committed | rolledBack | abandoned
  deriving DecidableEq, Repr

structure TxSt where
  phase : Phase := .idle
  dirty : Bool := false
  failed : Bool := false
  wroteOutside : Bool := false
  deriving DecidableEq, Repr

def TxSt.init : TxSt := {}

inductive RCls | ok | nf | bad
  deriving DecidableEq, Repr

/-- how `errors.Is` classifies a storage result -/
def Res.cls (r : Res) : RCls :=
  match r.errKind with
  | none => .ok
  | some e => if e = .not_found then .nf else .bad

/-- calls at which the handlers treat not-found as an ordinary lookup answer -/
def Call.nfOk : Call → Bool
  | .getPKCE _ | .getOIDC _ | .deletePKCE _ => true
  | _ => false

/-- calls after whose not-found answer a handler still commits -/
def Call.nfTxOk : Call → Bool
  | .revokeRefresh _ | .revokeAccess _ => true
  | c => c.nfOk

/-- calls that change a table of the store when they succeed -/
def Call.mutates : Call → Bool
  | .createCode _ | .invalidateCode _ | .createAccess _ | .deleteAccess _ | .revokeAccess _
  | .createRefresh _ _ | .deleteRefresh _ | .revokeRefresh _ | .rotateRefresh _ _
  | .createPKCE _ _ | .deletePKCE _ | .createOIDC _ _ | .deleteOIDC _ | .createPAR _ | .deletePAR _
  | .createDevice _ | .invalidateDevice _ => true
  | _ => false

def unexpC (c : Call) : RCls → Bool
  | .ok => false
  | .nf => !c.nfOk
  | .bad => true

def dirtyC (c : Call) : RCls → Bool
  | .ok => false
  | .nf => !c.nfTxOk
  | .bad => true

/-- the storage call returned an error the statement calls unexpected -/
def unexp (c : Call) (r : Res) : Bool := unexpC c r.cls
def Unexpected (c : Call) (r : Res) : Prop := unexp c r = true

theorem Unexpected_iff (c : Call) (r : Res) :
    Unexpected c r ↔ ∃ e, r.errKind = some e ∧ (e = .not_found → c.nfOk = false) := by
  unfold Unexpected unexp Res.cls
  cases h : r.errKind with
  | none => simp [unexpC]
  | some e =>
    by_cases he : e = .not_found
    · simp [he, unexpC]
    · simp [he, unexpC]

/-- one automaton step on a classified result (`none` = discipline violated) -/
def txStepC (t : TxSt) (c : Call) (k : RCls) : Option TxSt :=
  match c with
  | .newId => some t
  | .beginTx =>
    if t.phase = .idle then
      (if k = .ok then some { t with phase := .inTx } else some { t with failed := true })
    else none
  | .commitTx =>
    if t.phase = .inTx ∧ t.dirty = false then
      (if k = .ok then some { t with phase := .committed } else some { t with dirty := true, failed := true })
    else none
  | .rollbackTx =>
    if t.phase = .inTx then
      (if k = .ok then some { t with phase := .rolledBack } else some { t with phase := .abandoned, failed := true })
    else none
  | c => some { t with
      failed := t.failed || unexpC c k,
      dirty := t.dirty || (t.phase == .inTx && dirtyC c k),
      wroteOutside := t.wroteOutside || (t.phase != .inTx && c.mutates && k == .ok) }

def txStep (t : TxSt) (e : Call × Res) : Option TxSt := txStepC t e.1 e.2.cls

def traceOK (t : TxSt) : List (Call × Res) → Option TxSt
  | [] => some t
  | e :: l => match txStep t e with
    | none => none
    | some t' => traceOK t' l

@[simp] theorem traceOK_nil (t) : traceOK t [] = some t := rfl
theorem traceOK_cons (t e l) : traceOK t (e :: l) = (txStep t e).bind (fun t' => traceOK t' l) := by
  simp only [traceOK]; cases txStep t e <;> rfl

theorem traceOK_append (t : TxSt) (l1 l2 : List (Call × Res)) :
    traceOK t (l1 ++ l2) = (traceOK t l1).bind (fun t' => traceOK t' l2) := by
  induction l1 generalizing t with
  | nil => rfl
  | cons e l ih =>
    simp only [List.cons_append, traceOK]
    cases txStep t e with
    | none => rfl
    | some t' => exact ih t'

theorem txStep_silent (t : TxSt) (c : Call) (r : Res) (h : c.isSilent = true) : txStep t (c, r) = some t := by
  cases c <;> simp [Call.isSilent] at h
  rfl

/-- the `failed` flag is exactly "some logged call so far returned an unexpected error" -/
theorem txStep_failed (t t' : TxSt) (c : Call) (r : Res) (h : txStep t (c, r) = some t') :
    t'.failed = (t.failed || (!c.isSilent && unexp c r)) := by
  unfold txStep at h
  simp only at h
  unfold unexp
  generalize r.cls = k at h ⊢
  cases c <;> simp only [txStepC] at h <;> (try (cases h; simp [Call.isSilent]; done))
  all_goals (split at h <;> try (cases h; done))
  all_goals (cases k <;> simp at h <;> subst h <;> simp [unexpC, Call.nfOk, Call.isSilent])

/-! ### the calculus -/

/-- every run of the program, whatever the storage calls answer, keeps the discipline and ends in a
    state/value satisfying `K` -/
def txK {α} : TxSt → Prog α → (TxSt → α → Prop) → Prop
  | t, .ret a, K => K t a
  | t, .call c k, K => ∀ r, ∃ t', txStep t (c, r) = some t' ∧ txK t' (k r) K

theorem txK_mono {α} (t : TxSt) (p : Prog α) (K K' : TxSt → α → Prop)
    (h : ∀ t' a, K t' a → K' t' a) : txK t p K → txK t p K' := by
  induction p generalizing t with
  | ret a => exact h t a
  | call c k ih =>
    intro hk r
    obtain ⟨t', h1, h2⟩ := hk r
    exact ⟨t', h1, ih r t' h2⟩

theorem txK_bind {α β} (t : TxSt) (p : Prog α) (f : α → Prog β) (K : TxSt → β → Prop) :
    txK t (p.bind f) K ↔ txK t p (fun t' a => txK t' (f a) K) := by
  induction p generalizing t with
  | ret a => exact Iff.rfl
  | call c k ih =>
    simp only [Prog.bind, txK]
    constructor
    · intro h r; obtain ⟨t', h1, h2⟩ := h r; exact ⟨t', h1, (ih r t').mp h2⟩
    · intro h r; obtain ⟨t', h1, h2⟩ := h r; exact ⟨t', h1, (ih r t').mpr h2⟩

theorem txK_call (t : TxSt) (c : Call) (K : TxSt → Res → Prop) :
    txK t (call c) K ↔ ∀ r, ∃ t', txStep t (c, r) = some t' ∧ K t' r := Iff.rfl

theorem txK_retErr (t : TxSt) (e : Err) (K : TxSt → Err → Prop) : txK t (retErr e) K ↔ K t e := Iff.rfl

/-- handler-level: success and error exits -/
def txH {α} (t : TxSt) (x : HP α) (Kok : TxSt → α → Prop) (Kerr : TxSt → Err → Prop) : Prop :=
  txK t x.toProg (fun t' r => match r with | .ok a => Kok t' a | .error e => Kerr t' e)

theorem txH_ok {α} (t) (a : α) (Kok Kerr) : txH t (HP.ok a) Kok Kerr ↔ Kok t a := Iff.rfl
theorem txH_pure {α} (t) (a : α) (Kok Kerr) : txH t (pure a : HP α) Kok Kerr ↔ Kok t a := Iff.rfl
theorem txH_fail {α} (t) (e : Err) (Kok : TxSt → α → Prop) (Kerr) : txH t (HP.fail e) Kok Kerr ↔ Kerr t e := Iff.rfl

theorem txH_failWith {α} (t) (p : Prog Err) (Kok : TxSt → α → Prop) (Kerr) :
    txH t (HP.failWith p) Kok Kerr ↔ txK t p Kerr := by
  unfold txH HP.failWith HP.mk HP.toProg
  rw [txK_bind]
  exact Iff.rfl

theorem txH_bind {α β} (t) (x : HP α) (f : α → HP β) (Kok Kerr) :
    txH t (x >>= f) Kok Kerr ↔ txH t x (fun t' a => txH t' (f a) Kok Kerr) Kerr := by
  show txH t (HP.bind x f) Kok Kerr ↔ _
  unfold txH HP.bind HP.mk
  show txK t (Prog.bind x.toProg _) _ ↔ _
  rw [txK_bind]
  constructor <;>
  · apply txK_mono
    intro t' r h
    cases r with
    | ok a => exact h
    | error e => exact h

theorem txH_guard (t) (c : Bool) (e : Err) (Kok Kerr) :
    txH t (HP.guard c e) Kok Kerr ↔ (c = true → Kok t ()) ∧ (c = false → Kerr t e) := by
  unfold HP.guard
  cases c
  · simp only [Bool.false_eq_true, if_false, false_implies, true_and, true_implies]; exact Iff.rfl
  · simp only [if_true, true_implies, Bool.true_eq_false, false_implies, and_true]; exact Iff.rfl

theorem txH_ite {α} (t) (c : Prop) [Decidable c] (x y : HP α) (Kok Kerr) :
    txH t (if c then x else y) Kok Kerr ↔ (c → txH t x Kok Kerr) ∧ (¬c → txH t y Kok Kerr) := by
  split <;> simp_all

theorem txH_lift {α} (t) (p : Prog α) (Kok Kerr) : txH t (HP.lift p) Kok Kerr ↔ txK t p Kok := by
  unfold txH HP.lift HP.mk HP.toProg
  rw [txK_bind]
  exact Iff.rfl

theorem txH_callH (t) (c : Call) (Kok Kerr) :
    txH t (callH c) Kok Kerr ↔ ∀ r, ∃ t', txStep t (c, r) = some t' ∧ Kok t' r := by
  unfold callH; rw [txH_lift]; exact Iff.rfl

theorem txH_expectReq (t) (c : Call) (other) (Kok Kerr) :
    txH t (expectReq c other) Kok Kerr ↔
      (∀ x, ∃ t', txStep t (c, .req x) = some t' ∧ Kok t' x) ∧
      (∀ r, (∀ x, r ≠ .req x) → ∃ t', txStep t (c, r) = some t' ∧ txK t' (other r) Kerr) := by
  unfold expectReq txH HP.mk
  show txK t (Prog.call c _) _ ↔ _
  simp only [txK]
  constructor
  · intro h
    refine ⟨fun x => h (.req x), ?_⟩
    intro r hr
    obtain ⟨t', h1, h2⟩ := h r
    refine ⟨t', h1, ?_⟩
    cases r <;> first
      | exact absurd rfl (hr _)
      | exact (txH_failWith t' _ Kok Kerr).mp h2
  · intro ⟨h1, h2⟩ r
    by_cases hr : ∃ x, r = .req x
    · obtain ⟨x, rfl⟩ := hr; exact h1 x
    · have hr' : ∀ x, r ≠ .req x := fun x hx => hr ⟨x, hx⟩
      obtain ⟨t', h3, h4⟩ := h2 r hr'
      refine ⟨t', h3, ?_⟩
      cases r <;> first
        | exact absurd rfl (hr' _)
        | exact (txH_failWith t' _ Kok Kerr).mpr h4

theorem txH_expectNat (t) (c : Call) (other) (Kok Kerr) :
    txH t (expectNat c other) Kok Kerr ↔
      (∀ x, ∃ t', txStep t (c, .nat x) = some t' ∧ Kok t' x) ∧
      (∀ r, (∀ x, r ≠ .nat x) → ∃ t', txStep t (c, r) = some t' ∧ txK t' (other r) Kerr) := by
  unfold expectNat txH HP.mk
  show txK t (Prog.call c _) _ ↔ _
  simp only [txK]
  constructor
  · intro h
    refine ⟨fun x => h (.nat x), ?_⟩
    intro r hr
    obtain ⟨t', h1, h2⟩ := h r
    refine ⟨t', h1, ?_⟩
    cases r <;> first
      | exact absurd rfl (hr _)
      | exact (txH_failWith t' _ Kok Kerr).mp h2
  · intro ⟨h1, h2⟩ r
    by_cases hr : ∃ x, r = .nat x
    · obtain ⟨x, rfl⟩ := hr; exact h1 x
    · have hr' : ∀ x, r ≠ .nat x := fun x hx => hr ⟨x, hx⟩
      obtain ⟨t', h3, h4⟩ := h2 r hr'
      refine ⟨t', h3, ?_⟩
      cases r <;> first
        | exact absurd rfl (hr' _)
        | exact (txH_failWith t' _ Kok Kerr).mpr h4

theorem txH_expectDev (t) (c : Call) (other) (Kok Kerr) :
    txH t (expectDev c other) Kok Kerr ↔
      (∀ x, ∃ t', txStep t (c, .dev x) = some t' ∧ Kok t' x) ∧
      (∀ r, (∀ x, r ≠ .dev x) → ∃ t', txStep t (c, r) = some t' ∧ txK t' (other r) Kerr) := by
  unfold expectDev txH HP.mk
  show txK t (Prog.call c _) _ ↔ _
  simp only [txK]
  constructor
  · intro h
    refine ⟨fun x => h (.dev x), ?_⟩
    intro r hr
    obtain ⟨t', h1, h2⟩ := h r
    refine ⟨t', h1, ?_⟩
    cases r <;> first
      | exact absurd rfl (hr _)
      | exact (txH_failWith t' _ Kok Kerr).mp h2
  · intro ⟨h1, h2⟩ r
    by_cases hr : ∃ x, r = .dev x
    · obtain ⟨x, rfl⟩ := hr; exact h1 x
    · have hr' : ∀ x, r ≠ .dev x := fun x hx => hr ⟨x, hx⟩
      obtain ⟨t', h3, h4⟩ := h2 r hr'
      refine ⟨t', h3, ?_⟩
      cases r <;> first
        | exact absurd rfl (hr' _)
        | exact (txH_failWith t' _ Kok Kerr).mpr h4

theorem txH_expectPar (t) (c : Call) (other) (Kok Kerr) :
    txH t (expectPar c other) Kok Kerr ↔
      (∀ x, ∃ t', txStep t (c, .par x) = some t' ∧ Kok t' x) ∧
      (∀ r, (∀ x, r ≠ .par x) → ∃ t', txStep t (c, r) = some t' ∧ txK t' (other r) Kerr) := by
  unfold expectPar txH HP.mk
  show txK t (Prog.call c _) _ ↔ _
  simp only [txK]
  constructor
  · intro h
    refine ⟨fun x => h (.par x), ?_⟩
    intro r hr
    obtain ⟨t', h1, h2⟩ := h r
    refine ⟨t', h1, ?_⟩
    cases r <;> first
      | exact absurd rfl (hr _)
      | exact (txH_failWith t' _ Kok Kerr).mp h2
  · intro ⟨h1, h2⟩ r
    by_cases hr : ∃ x, r = .par x
    · obtain ⟨x, rfl⟩ := hr; exact h1 x
    · have hr' : ∀ x, r ≠ .par x := fun x hx => hr ⟨x, hx⟩
      obtain ⟨t', h3, h4⟩ := h2 r hr'
      refine ⟨t', h3, ?_⟩
      cases r <;> first
        | exact absurd rfl (hr' _)
        | exact (txH_failWith t' _ Kok Kerr).mpr h4

theorem txH_expectClient (t) (c : Call) (e) (Kok Kerr) :
    txH t (expectClient c e) Kok Kerr ↔
      (∀ x, ∃ t', txStep t (c, .client x) = some t' ∧ Kok t' x) ∧
      (∀ r, (∀ x, r ≠ .client x) → ∃ t', txStep t (c, r) = some t' ∧ Kerr t' e) := by
  unfold expectClient txH HP.mk
  show txK t (Prog.call c _) _ ↔ _
  simp only [txK]
  constructor
  · intro h
    refine ⟨fun x => h (.client x), ?_⟩
    intro r hr
    obtain ⟨t', h1, h2⟩ := h r
    refine ⟨t', h1, ?_⟩
    cases r <;> first
      | exact absurd rfl (hr _)
      | exact h2
  · intro ⟨h1, h2⟩ r
    by_cases hr : ∃ x, r = .client x
    · obtain ⟨x, rfl⟩ := hr; exact h1 x
    · have hr' : ∀ x, r ≠ .client x := fun x hx => hr ⟨x, hx⟩
      obtain ⟨t', h3, h4⟩ := h2 r hr'
      refine ⟨t', h3, ?_⟩
      cases r <;> first
        | exact absurd rfl (hr' _)
        | exact h4

theorem txH_expectOk (t) (c : Call) (other) (Kok Kerr) :
    txH t (expectOk c other) Kok Kerr ↔
      (∀ r, r.errKind = none → ∃ t', txStep t (c, r) = some t' ∧ Kok t' ()) ∧
      (∀ r e, r.errKind = some e → ∃ t', txStep t (c, r) = some t' ∧ txK t' (other e) Kerr) := by
  unfold expectOk txH HP.mk
  show txK t (Prog.call c _) _ ↔ _
  simp only [txK]
  constructor
  · intro h
    constructor
    · intro r hr
      obtain ⟨t', h1, h2⟩ := h r
      rw [hr] at h2
      exact ⟨t', h1, h2⟩
    · intro r e hr
      obtain ⟨t', h1, h2⟩ := h r
      rw [hr] at h2
      exact ⟨t', h1, (txH_failWith t' _ Kok Kerr).mp h2⟩
  · intro ⟨h1, h2⟩ r
    cases hr : r.errKind with
    | none => obtain ⟨t', h3, h4⟩ := h1 r hr; exact ⟨t', h3, h4⟩
    | some e => obtain ⟨t', h3, h4⟩ := h2 r e hr; exact ⟨t', h3, (txH_failWith t' _ Kok Kerr).mpr h4⟩

/-- closing a handler -/
theorem txK_run (t) (x : HP Out) (K : TxSt → Out → Prop) :
    txK t x.run K ↔ txH t x K (fun t' e => K t' (.err e)) := by
  unfold HP.run txH
  rw [txK_bind]
  constructor <;>
  · apply txK_mono
    intro t' r h
    cases r with
    | ok a => exact h
    | error e => exact h

/-! ### the interpreter's trace -/

/-- what one interpreter step appends to the log -/
def stepLog (rc : RunCfg) (rs : RState) (c : Call) : List (Call × Res) :=
  if c.isSilent then [] else if c.isTx && !rc.tx then [] else [(c, (rs.step rc c).2)]

theorem step_log (rc : RunCfg) (rs : RState) (c : Call) : (rs.step rc c).1.log = rs.log ++ stepLog rc rs c := by
  unfold stepLog RState.step
  by_cases hs : c.isSilent = true
  · simp [hs]
  · simp only [hs, Bool.false_eq_true, if_false]
    by_cases ht : (c.isTx && !rc.tx) = true
    · simp [ht]
    · simp only [ht, Bool.false_eq_true, if_false]
      cases hp : rc.plan rs.idx with
      | some e => rfl
      | none => cases c <;> rfl

/-- the log entries a run appends -/
def runLog {α} (rc : RunCfg) : RState → Prog α → List (Call × Res)
  | _, .ret _ => []
  | rs, .call c k => stepLog rc rs c ++ runLog rc (rs.step rc c).1 (k (rs.step rc c).2)

theorem run_log {α} (rc : RunCfg) (rs : RState) (p : Prog α) : (run rc rs p).1.log = rs.log ++ runLog rc rs p := by
  induction p generalizing rs with
  | ret a => simp [runLog]
  | call c k ih => simp only [run_call, runLog, ih, step_log, List.append_assoc]

theorem run_log_nil {α} (rc : RunCfg) (rs : RState) (p : Prog α) (h : rs.log = []) : (run rc rs p).1.log = runLog rc rs p := by
  rw [run_log, h, List.nil_append]

/-- an unlogged call (silent, or a transaction call over a non-transactional store) never answers an error -/
theorem step_unlogged_ok (rc : RunCfg) (rs : RState) (c : Call) (h : stepLog rc rs c = []) :
    (rs.step rc c).2.errKind = none := by
  unfold stepLog at h
  unfold RState.step
  by_cases hs : c.isSilent = true
  · cases c <;> simp [Call.isSilent] at hs
    simp [Call.isSilent, SState.exec, Res.errKind]
  · simp only [hs, Bool.false_eq_true, if_false] at h ⊢
    by_cases ht : (c.isTx && !rc.tx) = true
    · simp [ht, Res.errKind]
    · simp [ht] at h

/-! ### soundness -/

/-- **Soundness, transactional store.**  Whatever the store contains and whichever calls the fault
    plan fails, the trace of the run is accepted by the automaton and ends in a `K`-state. -/
theorem txK_sound {α} (rc : RunCfg) (htx : rc.tx = true) (p : Prog α) (K : TxSt → α → Prop) (t : TxSt) (rs : RState)
    (h : txK t p K) : ∃ t', traceOK t (runLog rc rs p) = some t' ∧ K t' (run rc rs p).2 := by
  induction p generalizing t rs with
  | ret a => exact ⟨t, rfl, h⟩
  | call c k ih =>
    obtain ⟨t1, h1, h2⟩ := h (rs.step rc c).2
    obtain ⟨t', h3, h4⟩ := ih _ t1 (rs.step rc c).1 h2
    refine ⟨t', ?_, h4⟩
    simp only [runLog, traceOK_append]
    unfold stepLog
    by_cases hs : c.isSilent = true
    · rw [txStep_silent t c _ hs] at h1; cases h1
      simp only [hs, if_true, traceOK_nil, Option.bind_some]; exact h3
    · simp only [hs, Bool.false_eq_true, if_false, htx, Bool.not_true, Bool.and_false, traceOK, h1, Option.bind_some]
      exact h3

theorem txK_sound_log {α} (rc : RunCfg) (htx : rc.tx = true) (p : Prog α) (K : TxSt → α → Prop) (t : TxSt) (rs : RState)
    (hl : rs.log = []) (h : txK t p K) : ∃ t', traceOK t (run rc rs p).1.log = some t' ∧ K t' (run rc rs p).2 := by
  rw [run_log_nil rc rs p hl]; exact txK_sound rc htx p K t rs h

/-- **Soundness, any store (transactional or not), any fault plan**: the final automaton state the
    calculus speaks about has `failed` set exactly when some logged call returned an unexpected error.
    (Over a non-transactional store the transaction calls are no storage calls: not logged, answer `ok`.) -/
theorem txK_sound_failed {α} (rc : RunCfg) (p : Prog α) (K : TxSt → α → Prop) (t : TxSt) (rs : RState)
    (h : txK t p K) :
    ∃ t', K t' (run rc rs p).2 ∧ t'.failed = (t.failed || (runLog rc rs p).any (fun e => unexp e.1 e.2)) := by
  induction p generalizing t rs with
  | ret a => exact ⟨t, h, by simp [runLog]⟩
  | call c k ih =>
    obtain ⟨t1, h1, h2⟩ := h (rs.step rc c).2
    obtain ⟨t', h3, h4⟩ := ih _ t1 (rs.step rc c).1 h2
    refine ⟨t', h3, ?_⟩
    rw [h4, txStep_failed t t1 c _ h1]
    simp only [runLog, List.any_append]
    rw [← Bool.or_assoc]
    congr 2
    by_cases hl : stepLog rc rs c = []
    · have hk := step_unlogged_ok rc rs c hl
      rw [hl]
      have : unexp c (rs.step rc c).2 = false := by unfold unexp Res.cls; rw [hk]; rfl
      simp [this]
    · unfold stepLog at hl ⊢
      by_cases hs : c.isSilent = true
      · simp [hs] at hl
      · simp only [hs, Bool.false_eq_true, if_false] at hl ⊢
        by_cases ht : (c.isTx && !rc.tx) = true
        · simp [ht] at hl
        · simp [ht]

/-! ### what the interpreter does to the store -/

/-- a storage call that answers an error leaves every table as it was -/
theorem exec_err_store (ss : SState) (c : Call) (h : (ss.exec c).2.errKind ≠ none) : (ss.exec c).1.store = ss.store := by
  cases c <;> simp only [SState.exec, revokeRefreshS, revokeAccessS] at h ⊢ <;> (repeat' split) <;>
    simp_all [Res.errKind]

/-- a read call leaves every table as it was -/
theorem exec_read_store (ss : SState) (c : Call) (h : c.mutates = false) : (ss.exec c).1.store = ss.store := by
  cases c <;> simp only [Call.mutates, Bool.true_eq_false] at h <;> simp only [SState.exec] <;> (repeat' split) <;> rfl

theorem cls_ok_iff (r : Res) : r.cls = .ok ↔ r.errKind = none := by
  unfold Res.cls
  cases r.errKind with
  | none => simp
  | some e => by_cases he : e = .not_found <;> simp [he]

theorem exec_unwritten_store (ss : SState) (c : Call) (h : (c.mutates && (ss.exec c).2.cls == .ok) = false) :
    (ss.exec c).1.store = ss.store := by
  by_cases hm : c.mutates = true
  · simp only [hm, Bool.true_and, beq_eq_false_iff_ne, ne_eq, cls_ok_iff] at h
    exact exec_err_store ss c h
  · exact exec_read_store ss c (by simpa using hm)

/-- storage calls never touch the client table or the store variant -/
theorem exec_frame (ss : SState) (c : Call) :
    (ss.exec c).1 = { ss with store := (ss.exec c).1.store, next := (ss.exec c).1.next } := by
  cases c <;> simp only [SState.exec, revokeRefreshS, revokeAccessS] <;> (repeat' split) <;> rfl

/-- every way one interpreter step can go, for every run configuration -/
theorem step_cases (rc : RunCfg) (rs : RState) (c : Call) :
    ((c.isTx = true ∧ rc.tx = false) ∧ (rs.step rc c).1 = rs ∧ (rs.step rc c).2 = .ok) ∨
    (c.isSilent = false ∧ (∃ e, (rs.step rc c).2 = .fail e) ∧ (rs.step rc c).1.ss = rs.ss ∧ (rs.step rc c).1.snap = rs.snap) ∨
    (c.isTx = false ∧ (rs.step rc c).2 = (rs.ss.exec c).2 ∧ (rs.step rc c).1.ss = (rs.ss.exec c).1 ∧
      (rs.step rc c).1.snap = rs.snap) ∨
    (c = .beginTx ∧ rc.tx = true ∧ (rs.step rc c).2 = .ok ∧ (rs.step rc c).1.ss = rs.ss ∧ (rs.step rc c).1.snap = some rs.ss.store) ∨
    (c = .commitTx ∧ rc.tx = true ∧ (rs.step rc c).2 = .ok ∧ (rs.step rc c).1.ss = rs.ss ∧ (rs.step rc c).1.snap = none) ∨
    (c = .rollbackTx ∧ rc.tx = true ∧ (rs.step rc c).2 = .ok ∧
      (rs.step rc c).1.ss = { rs.ss with store := (match rs.snap with | some s => s | none => rs.ss.store) } ∧
      (rs.step rc c).1.snap = none) := by
  unfold RState.step
  by_cases hs : c.isSilent = true
  · cases c <;> simp [Call.isSilent] at hs
    right; right; left
    simp [Call.isSilent, Call.isTx]
  · simp only [hs, Bool.false_eq_true, if_false]
    by_cases ht : (c.isTx && !rc.tx) = true
    · left
      simp only [ht, if_true, and_self, and_true]
      simp at ht; exact ht
    · simp only [ht, Bool.false_eq_true, if_false]
      cases hp : rc.plan rs.idx with
      | some e => right; left; exact ⟨trivial, ⟨e, rfl⟩, rfl, rfl⟩
      | none =>
        have htx : c.isTx = true → rc.tx = true := by
          intro h; cases hr : rc.tx <;> simp [h, hr] at ht ⊢
        cases c <;> first
          | (right; right; right; left; exact ⟨rfl, htx rfl, rfl, rfl, rfl⟩)
          | (right; right; right; right; left; exact ⟨rfl, htx rfl, rfl, rfl, rfl⟩)
          | (right; right; right; right; right; exact ⟨rfl, htx rfl, rfl, rfl, rfl⟩)
          | (right; right; left; exact ⟨rfl, rfl, rfl, rfl⟩)

/-! ### automaton facts -/

theorem txStepC_other (t : TxSt) (c : Call) (k : RCls) (h1 : c.isTx = false) (h2 : c.isSilent = false) :
    txStepC t c k = some { t with
      failed := t.failed || unexpC c k,
      dirty := t.dirty || (t.phase == .inTx && dirtyC c k),
      wroteOutside := t.wroteOutside || (t.phase != .inTx && c.mutates && k == .ok) } := by
  cases c <;> first | rfl | (simp [Call.isTx] at h1; done) | (simp [Call.isSilent] at h2; done)

theorem cls_fail_ne_ok (e : Err) : (Res.fail e).cls ≠ .ok := by
  intro h; rw [cls_ok_iff] at h; simp [Res.errKind] at h

/-- a step on an error answer changes neither `wroteOutside` nor (except to `abandoned`) the phase -/
theorem txStepC_notok (t t1 : TxSt) (c : Call) (k : RCls) (hk : k ≠ .ok) (h : txStepC t c k = some t1) :
    t1.wroteOutside = t.wroteOutside ∧ (t1.phase = t.phase ∨ t1.phase = .abandoned) := by
  have hk' : (k == RCls.ok) = false := by simpa using hk
  cases c <;> simp only [txStepC] at h
  case newId => cases h; exact ⟨rfl, Or.inl rfl⟩
  case beginTx =>
    split at h <;> first
      | (cases h; done)
      | (exfalso; apply hk; assumption)
      | (cases h; exact ⟨rfl, Or.inl rfl⟩)
  case commitTx =>
    split at h <;> first
      | (cases h; done)
      | (exfalso; apply hk; assumption)
      | (cases h; exact ⟨rfl, Or.inl rfl⟩)
  case rollbackTx =>
    split at h <;> first
      | (cases h; done)
      | (exfalso; apply hk; assumption)
      | (cases h; exact ⟨rfl, Or.inr rfl⟩)
  all_goals (cases h; simp [hk'])

/-! ### atomicity, at the level of the interpreter -/

/-- how the automaton state constrains the interpreter state (`B`: the store before the request) -/
structure AInv (B : Store) (t : TxSt) (rs : RState) : Prop where
  idle : t.phase = .idle → t.wroteOutside = false → rs.ss.store = B
  inTx : t.phase = .inTx → t.wroteOutside = false → rs.snap = some B
  rolled : t.phase = .rolledBack → t.wroteOutside = false → rs.ss.store = B

theorem step_AInv (rc : RunCfg) (htx : rc.tx = true) (B : Store) (t t1 : TxSt) (rs : RState) (c : Call)
    (hi : AInv B t rs) (h : traceOK t (stepLog rc rs c) = some t1) : AInv B t1 (rs.step rc c).1 := by
  unfold stepLog at h
  by_cases hs : c.isSilent = true
  · simp only [hs, if_true, traceOK_nil, Option.some.injEq] at h
    subst h
    cases c <;> simp [Call.isSilent] at hs
    have : (rs.step rc .newId).1.ss.store = rs.ss.store ∧ (rs.step rc .newId).1.snap = rs.snap := by
      simp [RState.step, Call.isSilent, SState.exec]
    exact ⟨fun a b => by rw [this.1]; exact hi.idle a b, fun a b => by rw [this.2]; exact hi.inTx a b,
      fun a b => by rw [this.1]; exact hi.rolled a b⟩
  · have hs' : c.isSilent = false := by simpa using hs
    simp only [hs, Bool.false_eq_true, if_false, htx, Bool.not_true, Bool.and_false, traceOK] at h
    have h' : txStepC t c (rs.step rc c).2.cls = some t1 := by
      unfold txStep at h; simp only at h
      cases hx : txStepC t c (rs.step rc c).2.cls with
      | none => rw [hx] at h; cases h
      | some t2 => rw [hx] at h; exact h
    rcases step_cases rc rs c with ⟨⟨_, hf⟩, _⟩ | ⟨_, ⟨e, he⟩, hss, hsn⟩ | ⟨hnt, hr, hss, hsn⟩ |
      ⟨hc, _, hr, hss, hsn⟩ | ⟨hc, _, hr, hss, hsn⟩ | ⟨hc, _, hr, hss, hsn⟩
    · rw [htx] at hf; cases hf
    · -- an injected failure
      rw [he] at h'
      obtain ⟨hw, hph⟩ := txStepC_notok t t1 c _ (cls_fail_ne_ok e) h'
      refine ⟨?_, ?_, ?_⟩ <;> intro a b <;> rw [hw] at b <;>
        (rcases hph with hph | hph <;> rw [hph] at a)
      · rw [hss]; exact hi.idle a b
      · cases a
      · rw [hsn]; exact hi.inTx a b
      · cases a
      · rw [hss]; exact hi.rolled a b
      · cases a
    · -- an ordinary storage call
      rw [txStepC_other t c _ hnt hs', hr] at h'
      cases h'
      refine ⟨?_, ?_, ?_⟩ <;> intro a b <;> simp only at a b
      · simp only [a, Bool.or_eq_false_iff] at b
        have : (Phase.idle != Phase.inTx) = true := by decide
        simp only [this, Bool.true_and] at b
        rw [hss, exec_unwritten_store rs.ss c b.2]; exact hi.idle a b.1
      · simp only [a, bne_self_eq_false, Bool.false_and, Bool.or_false] at b
        rw [hsn]; exact hi.inTx a b
      · simp only [a, Bool.or_eq_false_iff] at b
        have : (Phase.rolledBack != Phase.inTx) = true := by decide
        simp only [this, Bool.true_and] at b
        rw [hss, exec_unwritten_store rs.ss c b.2]; exact hi.rolled a b.1
    · -- begin
      subst hc
      rw [hr] at h'
      simp only [txStepC] at h'
      split at h' <;> try (cases h'; done)
      rename_i hph
      have : (Res.ok).cls = .ok := rfl
      simp only [this, if_true, Option.some.injEq] at h'
      subst h'
      refine ⟨?_, ?_, ?_⟩ <;> intro a b <;> simp only at a b <;> try (cases a; done)
      rw [hsn, hi.idle hph b]
    · -- commit
      subst hc
      rw [hr] at h'
      simp only [txStepC] at h'
      split at h' <;> try (cases h'; done)
      have : (Res.ok).cls = .ok := rfl
      simp only [this, if_true, Option.some.injEq] at h'
      subst h'
      refine ⟨?_, ?_, ?_⟩ <;> intro a b <;> simp only at a b <;> (cases a; done)
    · -- rollback
      subst hc
      rw [hr] at h'
      simp only [txStepC] at h'
      split at h' <;> try (cases h'; done)
      rename_i hph
      have : (Res.ok).cls = .ok := rfl
      simp only [this, if_true, Option.some.injEq] at h'
      subst h'
      refine ⟨?_, ?_, ?_⟩ <;> intro a b <;> simp only at a b <;> try (cases a; done)
      rw [hss, hi.inTx hph b]

theorem run_AInv {α} (rc : RunCfg) (htx : rc.tx = true) (B : Store) (p : Prog α) (t t' : TxSt) (rs : RState)
    (hi : AInv B t rs) (h : traceOK t (runLog rc rs p) = some t') : AInv B t' (run rc rs p).1 := by
  induction p generalizing t rs with
  | ret a => simp only [runLog, traceOK_nil, Option.some.injEq] at h; subst h; exact hi
  | call c k ih =>
    simp only [runLog, traceOK_append] at h
    cases h1 : traceOK t (stepLog rc rs c) with
    | none => rw [h1] at h; cases h
    | some t1 =>
      rw [h1] at h
      exact ih _ t1 _ (step_AInv rc htx B t t1 rs c hi h1) h

/-- **Atomicity (interpreter level, any program).**  Over a transactional store, if the trace of the
    run is accepted by the automaton from its initial state, ends rolled back and no mutating call
    succeeded outside the transaction, then EVERY table of the store (codes, access and refresh tokens,
    indices, PKCE, OIDC, PAR, device) is exactly as before the run. -/
theorem rolledBack_store_unchanged {α} (rc : RunCfg) (htx : rc.tx = true) (p : Prog α) (rs : RState) (t' : TxSt)
    (h : traceOK .init (runLog rc rs p) = some t') (hph : t'.phase = .rolledBack) (hw : t'.wroteOutside = false) :
    (run rc rs p).1.ss.store = rs.ss.store :=
  (run_AInv rc htx rs.ss.store p .init t' rs ⟨fun _ _ => rfl, fun a _ => absurd a (by decide), fun a _ => absurd a (by decide)⟩ h).rolled hph hw

/-! ### what acceptance by the automaton means for the log itself -/

/-- a successful `beginTx` -/
def isBeginOk (e : Call × Res) : Bool :=
  match e.1 with
  | .beginTx => e.2.cls == .ok
  | _ => false

/-- an entry that ends the open transaction: a successful commit, or a rollback attempt (a failed
    rollback abandons the transaction) -/
def isTxEnd (e : Call × Res) : Bool :=
  match e.1 with
  | .commitTx => e.2.cls == .ok
  | .rollbackTx => true
  | _ => false

/-- an entry after which the open transaction must not be committed -/
def dirtying (e : Call × Res) : Bool :=
  match e.1 with
  | .commitTx => e.2.cls != .ok
  | .beginTx | .rollbackTx | .newId => false
  | c => dirtyC c e.2.cls

def TxSt.opened (t : TxSt) : Nat := if t.phase = .idle then 0 else 1
def TxSt.closed (t : TxSt) : Nat := if t.phase = .idle ∨ t.phase = .inTx then 0 else 1

theorem txStep_counts (t t' : TxSt) (e : Call × Res) (h : txStep t e = some t') :
    t'.opened = t.opened + (if isBeginOk e then 1 else 0) ∧ t'.closed = t.closed + (if isTxEnd e then 1 else 0) := by
  obtain ⟨c, r⟩ := e
  unfold txStep at h
  simp only at h
  unfold isBeginOk isTxEnd
  simp only
  generalize r.cls = k at h ⊢
  cases c <;> simp only [txStepC] at h <;> (try (cases h; simp [TxSt.opened, TxSt.closed]; done))
  all_goals (split at h <;> try (cases h; done))
  all_goals (rename_i hph; cases k <;> simp at h <;> subst h <;> simp [TxSt.opened, TxSt.closed, hph])

theorem traceOK_counts (t t' : TxSt) (l : List (Call × Res)) (h : traceOK t l = some t') :
    t'.opened = t.opened + l.countP isBeginOk ∧ t'.closed = t.closed + l.countP isTxEnd := by
  induction l generalizing t with
  | nil => cases h; simp
  | cons e l ih =>
    simp only [traceOK] at h
    cases h1 : txStep t e with
    | none => rw [h1] at h; cases h
    | some t1 =>
      rw [h1] at h
      obtain ⟨a, b⟩ := ih t1 h
      obtain ⟨c, d⟩ := txStep_counts t t1 e h1
      rw [a, b, c, d, List.countP_cons, List.countP_cons]
      constructor <;> omega

/-- **begin is matched by exactly one commit or rollback.**  If the automaton accepts the log and does
    not end inside a transaction, the log contains at most one successful `beginTx`, and exactly as
    many transaction-ending entries (successful commits, rollback attempts). -/
theorem traceOK_begin_matched (t' : TxSt) (l : List (Call × Res)) (h : traceOK .init l = some t')
    (hph : t'.phase ≠ .inTx) : l.countP isBeginOk = l.countP isTxEnd ∧ l.countP isBeginOk ≤ 1 := by
  obtain ⟨a, b⟩ := traceOK_counts .init t' l h
  have h0 : TxSt.init.opened = 0 := rfl
  have h1 : TxSt.init.closed = 0 := rfl
  rw [h0, Nat.zero_add] at a
  rw [h1, Nat.zero_add] at b
  rw [← a, ← b]
  unfold TxSt.opened TxSt.closed
  cases hp : t'.phase <;> simp_all

/-- a step never returns to `idle`, and enters `inTx` only by a successful begin from `idle` -/
theorem txStep_phase (t t' : TxSt) (e : Call × Res) (h : txStep t e = some t') :
    (t'.phase = .idle → t.phase = .idle) ∧
    (t'.phase = .inTx → (t.phase = .idle ∧ isBeginOk e = true) ∨
      (t.phase = .inTx ∧ t'.dirty = (t.dirty || dirtying e))) := by
  obtain ⟨c, r⟩ := e
  unfold txStep at h
  simp only at h
  unfold isBeginOk dirtying
  simp only
  generalize r.cls = k at h ⊢
  cases c <;> simp only [txStepC] at h <;>
    (try (cases h; simp only [imp_self, true_and]; intro hp; right; exact ⟨hp, by simp [hp]⟩))
  all_goals (split at h <;> try (cases h; done))
  all_goals (rename_i hph; cases k <;> simp at h <;> subst h <;> simp_all)

theorem traceOK_inTx_src (t t' : TxSt) (l : List (Call × Res)) (h : traceOK t l = some t') (h1 : t'.phase = .inTx) :
    t.phase = .idle ∨ t.phase = .inTx := by
  induction l generalizing t with
  | nil => cases h; exact Or.inr h1
  | cons e l ih =>
    simp only [traceOK] at h
    cases hs : txStep t e with
    | none => rw [hs] at h; cases h
    | some t1 =>
      rw [hs] at h
      rcases ih t1 h with hp | hp
      · exact Or.inl ((txStep_phase t t1 e hs).1 hp)
      · rcases (txStep_phase t t1 e hs).2 hp with ⟨a, _⟩ | ⟨a, _⟩
        · exact Or.inl a
        · exact Or.inr a

/-- while the transaction stays open and clean, no entry was dirtying -/
theorem traceOK_inTx_clean (t t' : TxSt) (l : List (Call × Res)) (h : traceOK t l = some t')
    (h0 : t.phase = .inTx) (h1 : t'.phase = .inTx) (h2 : t'.dirty = false) :
    t.dirty = false ∧ ∀ e ∈ l, dirtying e = false := by
  induction l generalizing t with
  | nil => cases h; exact ⟨h2, by simp⟩
  | cons e l ih =>
    simp only [traceOK] at h
    cases hs : txStep t e with
    | none => rw [hs] at h; cases h
    | some t1 =>
      rw [hs] at h
      have hp1 : t1.phase = .inTx := by
        rcases traceOK_inTx_src t1 t' l h h1 with hp | hp
        · have := (txStep_phase t t1 e hs).1 hp; rw [h0] at this; cases this
        · exact hp
      obtain ⟨hd1, hall⟩ := ih t1 h hp1
      rcases (txStep_phase t t1 e hs).2 hp1 with ⟨a, _⟩ | ⟨_, hd⟩
      · rw [h0] at a; cases a
      · rw [hd1] at hd
        have hd' := hd.symm
        rw [Bool.or_eq_false_iff] at hd'
        refine ⟨hd'.1, ?_⟩
        intro e' he'
        rcases List.mem_cons.mp he' with rfl | hm
        · exact hd'.2
        · exact hall e' hm

/-- **never a commit after a failed write.**  In an accepted log, between a successful `beginTx` and any
    later `commitTx` attempt no entry is dirtying: no call answered an error (other than a tolerated
    not-found) and no earlier commit attempt failed. -/
theorem traceOK_commit_clean (t t' : TxSt) (l0 l1 l2 : List (Call × Res)) (r0 r : Res)
    (h : traceOK t (l0 ++ (Call.beginTx, r0) :: (l1 ++ (Call.commitTx, r) :: l2)) = some t') (hr0 : r0.cls = .ok) :
    ∀ e ∈ l1, dirtying e = false := by
  rw [traceOK_append] at h
  cases ha : traceOK t l0 with
  | none => rw [ha] at h; cases h
  | some ta =>
    rw [ha] at h
    simp only [Option.bind_some, traceOK] at h
    cases hb : txStep ta (Call.beginTx, r0) with
    | none => rw [hb] at h; cases h
    | some tb =>
      rw [hb] at h
      simp only at h
      rw [traceOK_append] at h
      cases hc : traceOK tb l1 with
      | none => rw [hc] at h; cases h
      | some tc =>
        rw [hc] at h
        simp only [Option.bind_some, traceOK] at h
        cases hd : txStep tc (Call.commitTx, r) with
        | none => rw [hd] at h; cases h
        | some td =>
          have hbph : tb.phase = .inTx := by
            unfold txStep at hb
            simp only [hr0, txStepC] at hb
            split at hb
            · simp only [if_true, Option.some.injEq] at hb; subst hb; rfl
            · cases hb
          have hcph : tc.phase = .inTx ∧ tc.dirty = false := by
            unfold txStep at hd
            simp only [txStepC] at hd
            split at hd
            · assumption
            · cases hd
          exact (traceOK_inTx_clean tb tc l1 hc hbph hcph.1 hcph.2).2

/-- structural facts about reachable automaton states -/
structure TxSt.WF (t : TxSt) : Prop where
  dirty_failed : t.dirty = true → t.failed = true
  dirty_phase : t.dirty = true → t.phase ≠ .idle ∧ t.phase ≠ .committed

theorem txStep_WF (t t' : TxSt) (e : Call × Res) (h : txStep t e = some t') (hw : t.WF) : t'.WF := by
  obtain ⟨c, r⟩ := e
  obtain ⟨h1, h2⟩ := hw
  unfold txStep at h
  simp only at h
  generalize r.cls = k at h
  cases c <;> simp only [txStepC] at h
  case newId => cases h; exact ⟨h1, h2⟩
  case beginTx =>
    split at h <;> try (cases h; done)
    rename_i hph
    have := h2
    cases k <;> simp at h <;> subst h <;> constructor <;> simp_all
  case commitTx =>
    split at h <;> try (cases h; done)
    rename_i hph
    cases k <;> simp at h <;> subst h <;> constructor <;> simp_all
  case rollbackTx =>
    split at h <;> try (cases h; done)
    rename_i hph
    cases k <;> simp at h <;> subst h <;> constructor <;> simp_all
  all_goals
    cases h
    constructor
    · simp only [Bool.or_eq_true, Bool.and_eq_true, beq_iff_eq]
      rintro (hd | ⟨_, hd⟩)
      · exact Or.inl (h1 hd)
      · right; cases k <;> simp_all [dirtyC, unexpC, Call.nfTxOk, Call.nfOk]
    · simp only [Bool.or_eq_true, Bool.and_eq_true, beq_iff_eq]
      rintro (hd | ⟨hp, _⟩)
      · exact h2 hd
      · rw [hp]; exact ⟨by decide, by decide⟩

theorem traceOK_WF (t t' : TxSt) (l : List (Call × Res)) (h : traceOK t l = some t') (hw : t.WF) : t'.WF := by
  induction l generalizing t with
  | nil => cases h; exact hw
  | cons e l ih =>
    simp only [traceOK] at h
    cases hs : txStep t e with
    | none => rw [hs] at h; cases h
    | some t1 => rw [hs] at h; exact ih t1 h (txStep_WF t t1 e hs hw)

theorem TxSt.init_WF : TxSt.init.WF := ⟨fun h => absurd h (by decide), fun h => absurd h (by decide)⟩

/-! ### proof interface for handlers: state predicates along the main path and at the exits

  A handler proof walks the main path with a predicate `M` on the automaton state (`At T` for a
  concrete state, or a symbolic one), and shows that every exit lands in `E` (the state right after
  the failing call), from which the error-path program (`other`) reaches the final error predicate `F`. -/

def At (T : TxSt) : TxSt → Prop := fun t => t = T

/-- the call answers without error -/
def OkStep (M : TxSt → Prop) (c : Call) (M' : TxSt → Prop) : Prop := ∀ t, M t → ∃ t', txStepC t c .ok = some t' ∧ M' t'
/-- the call answers not-found -/
def NfStep (M : TxSt → Prop) (c : Call) (M' : TxSt → Prop) : Prop := ∀ t, M t → ∃ t', txStepC t c .nf = some t' ∧ M' t'
/-- the call answers an error -/
def ErrStep (M : TxSt → Prop) (c : Call) (E : TxSt → Prop) : Prop := ∀ t k, k ≠ .ok → M t → ∃ t', txStepC t c k = some t' ∧ E t'
/-- the call answers anything -/
def AnyStep (M : TxSt → Prop) (c : Call) (E : TxSt → Prop) : Prop := ∀ t k, M t → ∃ t', txStepC t c k = some t' ∧ E t'

theorem AnyStep.err {M c E} (h : AnyStep M c E) : ErrStep M c E := fun t k _ hM => h t k hM

theorem cls_of_errKind_none (r : Res) (h : r.errKind = none) : r.cls = .ok := (cls_ok_iff r).mpr h
theorem cls_of_errKind_some (r : Res) (e : Err) (h : r.errKind = some e) : r.cls ≠ .ok := by
  intro hc; rw [cls_ok_iff, h] at hc; cases hc
theorem cls_of_errKind_nf (r : Res) (h : r.errKind = some .not_found) : r.cls = .nf := by
  unfold Res.cls; rw [h]; rfl
theorem cls_of_errKind_bad (r : Res) (e : Err) (h : r.errKind = some e) (he : e ≠ .not_found) : r.cls = .bad := by
  unfold Res.cls; rw [h]; simp [he]

section combinators
variable {α β : Type} {M M' E F : TxSt → Prop} {t : TxSt} {c : Call}
  {Kok : TxSt → β → Prop}

theorem txH_pure_M (a : β) (h : Kok t a) : txH t (pure a : HP β) Kok (fun t _ => F t) := h

theorem txH_fail_M (e : Err) (h : F t) : txH t (HP.fail e : HP β) Kok (fun t _ => F t) := h

theorem txH_guard_bind (b : Bool) (e : Err) (rest : Unit → HP β) (hF : F t)
    (hk : b = true → txH t (rest ()) Kok (fun t _ => F t)) :
    txH t (HP.guard b e >>= rest) Kok (fun t _ => F t) := by
  rw [txH_bind, txH_guard]
  exact ⟨hk, fun _ => hF⟩

theorem txH_expectReq_bind (other) (rest : Req → HP β) (hM : M t) (hok : OkStep M c M') (herr : AnyStep M c E)
    (hother : ∀ r t', E t' → txK t' (other r) (fun t _ => F t))
    (hk : ∀ x t', M' t' → txH t' (rest x) Kok (fun t _ => F t)) :
    txH t (expectReq c other >>= rest) Kok (fun t _ => F t) := by
  rw [txH_bind, txH_expectReq]
  constructor
  · intro x; obtain ⟨t', h1, h2⟩ := hok t hM; exact ⟨t', h1, hk x t' h2⟩
  · intro r _; obtain ⟨t', h1, h2⟩ := herr t r.cls hM; exact ⟨t', h1, hother r t' h2⟩

theorem txH_expectNat_bind (other) (rest : Nat → HP β) (hM : M t) (hok : OkStep M c M') (herr : AnyStep M c E)
    (hother : ∀ r t', E t' → txK t' (other r) (fun t _ => F t))
    (hk : ∀ x t', M' t' → txH t' (rest x) Kok (fun t _ => F t)) :
    txH t (expectNat c other >>= rest) Kok (fun t _ => F t) := by
  rw [txH_bind, txH_expectNat]
  constructor
  · intro x; obtain ⟨t', h1, h2⟩ := hok t hM; exact ⟨t', h1, hk x t' h2⟩
  · intro r _; obtain ⟨t', h1, h2⟩ := herr t r.cls hM; exact ⟨t', h1, hother r t' h2⟩

theorem txH_expectDev_bind (other) (rest : DevRec → HP β) (hM : M t) (hok : OkStep M c M') (herr : AnyStep M c E)
    (hother : ∀ r t', E t' → txK t' (other r) (fun t _ => F t))
    (hk : ∀ x t', M' t' → txH t' (rest x) Kok (fun t _ => F t)) :
    txH t (expectDev c other >>= rest) Kok (fun t _ => F t) := by
  rw [txH_bind, txH_expectDev]
  constructor
  · intro x; obtain ⟨t', h1, h2⟩ := hok t hM; exact ⟨t', h1, hk x t' h2⟩
  · intro r _; obtain ⟨t', h1, h2⟩ := herr t r.cls hM; exact ⟨t', h1, hother r t' h2⟩

theorem txH_expectPar_bind (other) (rest : ParRec → HP β) (hM : M t) (hok : OkStep M c M') (herr : AnyStep M c E)
    (hother : ∀ r t', E t' → txK t' (other r) (fun t _ => F t))
    (hk : ∀ x t', M' t' → txH t' (rest x) Kok (fun t _ => F t)) :
    txH t (expectPar c other >>= rest) Kok (fun t _ => F t) := by
  rw [txH_bind, txH_expectPar]
  constructor
  · intro x; obtain ⟨t', h1, h2⟩ := hok t hM; exact ⟨t', h1, hk x t' h2⟩
  · intro r _; obtain ⟨t', h1, h2⟩ := herr t r.cls hM; exact ⟨t', h1, hother r t' h2⟩

theorem txH_expectClient_bind (e : Err) (rest : Client → HP β) (hM : M t) (hok : OkStep M c M') (herr : AnyStep M c E)
    (hEF : ∀ t', E t' → F t')
    (hk : ∀ x t', M' t' → txH t' (rest x) Kok (fun t _ => F t)) :
    txH t (expectClient c e >>= rest) Kok (fun t _ => F t) := by
  rw [txH_bind, txH_expectClient]
  constructor
  · intro x; obtain ⟨t', h1, h2⟩ := hok t hM; exact ⟨t', h1, hk x t' h2⟩
  · intro r _; obtain ⟨t', h1, h2⟩ := herr t r.cls hM; exact ⟨t', h1, hEF t' h2⟩

theorem txH_expectOk_bind (other) (rest : Unit → HP β) (hM : M t) (hok : OkStep M c M') (herr : ErrStep M c E)
    (hother : ∀ e t', E t' → txK t' (other e) (fun t _ => F t))
    (hk : ∀ t', M' t' → txH t' (rest ()) Kok (fun t _ => F t)) :
    txH t (expectOk c other >>= rest) Kok (fun t _ => F t) := by
  rw [txH_bind, txH_expectOk]
  constructor
  · intro r hr
    obtain ⟨t', h1, h2⟩ := hok t hM
    refine ⟨t', ?_, hk t' h2⟩
    unfold txStep; simp only; rw [cls_of_errKind_none r hr]; exact h1
  · intro r e hr
    obtain ⟨t', h1, h2⟩ := herr t r.cls (cls_of_errKind_some r e hr) hM
    exact ⟨t', h1, hother e t' h2⟩

theorem txH_mono {α} (t : TxSt) (x : HP α) (Kok Kok' : TxSt → α → Prop) (Kerr Kerr' : TxSt → Err → Prop)
    (h1 : ∀ t a, Kok t a → Kok' t a) (h2 : ∀ t e, Kerr t e → Kerr' t e) : txH t x Kok Kerr → txH t x Kok' Kerr' := by
  unfold txH
  apply txK_mono
  intro t' r h
  cases r with
  | ok a => exact h1 t' a h
  | error e => exact h2 t' e h

/-- a sub-handler that keeps the main-path predicate, then the rest -/
theorem txH_seq {γ : Type} {Kerr : TxSt → Err → Prop} (x : HP γ) (rest : γ → HP β)
    (hx : txH t x (fun t' _ => M' t') Kerr) (hk : ∀ a t', M' t' → txH t' (rest a) Kok Kerr) :
    txH t (x >>= rest) Kok Kerr := by
  rw [txH_bind]
  exact txH_mono t x _ _ _ _ (fun t' a h => hk a t' h) (fun _ _ h => h) hx

/-- a call whose answer the handler inspects itself -/
theorem txH_callH_bind (rest : Res → HP β) (Kerr)
    (hk : ∀ r, ∃ t', txStepC t c r.cls = some t' ∧ txH t' (rest r) Kok Kerr) :
    txH t (callH c >>= rest) Kok Kerr := by
  rw [txH_bind, txH_callH]
  exact hk

end combinators

theorem txK_retErr_M {F : TxSt → Prop} (t : TxSt) (e : Err) (h : F t) : txK t (retErr e) (fun t _ => F t) := h

/-! #### state predicates -/

def T0 : TxSt := {}
def T1 : TxSt := { phase := .inTx }

/-- before any transaction, nothing failed so far (non-transactional handlers; writes allowed) -/
def Clean (t : TxSt) : Prop := t.phase = .idle ∧ t.dirty = false ∧ t.failed = false
/-- after the commit, nothing failed so far -/
def Done (t : TxSt) : Prop := t.phase = .committed ∧ t.dirty = false ∧ t.failed = false
/-- no transaction is open and none was left dirty: the request may end here with an error -/
def Settled (txn : Bool) (t : TxSt) : Prop := (t.phase = .idle ∨ (txn = true ∧ t.phase = .committed)) ∧ t.dirty = false
/-- inside the transaction, about to roll back -/
def InTxE (t : TxSt) : Prop := t.phase = .inTx ∧ t.wroteOutside = false

theorem txStepC_nonTx (t : TxSt) (c : Call) (k : RCls) (h : c.isTx = false) :
    ∃ t', txStepC t c k = some t' ∧ t'.phase = t.phase ∧
      t'.failed = (t.failed || (!c.isSilent && unexpC c k)) ∧
      t'.dirty = (t.dirty || (!c.isSilent && (t.phase == .inTx && dirtyC c k))) ∧
      t'.wroteOutside = (t.wroteOutside || (!c.isSilent && (t.phase != .inTx && c.mutates && k == .ok))) := by
  by_cases hs : c.isSilent = true
  · cases c <;> simp [Call.isSilent] at hs
    exact ⟨t, rfl, rfl, by simp [Call.isSilent], by simp [Call.isSilent], by simp [Call.isSilent]⟩
  · have hs' : c.isSilent = false := by simpa using hs
    exact ⟨_, txStepC_other t c k h hs', rfl, by simp [hs'], by simp [hs'], by simp [hs']⟩

theorem TxSt.eq_of (t t' : TxSt) (h1 : t'.phase = t.phase) (h2 : t'.dirty = t.dirty) (h3 : t'.failed = t.failed)
    (h4 : t'.wroteOutside = t.wroteOutside) : t' = t := by
  cases t; cases t'; simp_all

theorem Settled.of_clean {t} (txn) (h : Clean t) : Settled txn t := ⟨Or.inl h.1, h.2.1⟩
theorem Settled.of_done {t} (h : Done t) : Settled true t := ⟨Or.inr ⟨rfl, h.1⟩, h.2.1⟩
theorem Settled.of_T0 {t} (txn) (h : At T0 t) : Settled txn t := by cases h; exact ⟨Or.inl rfl, rfl⟩
theorem Clean.of_T0 {t} (h : At T0 t) : Clean t := by cases h; exact ⟨rfl, rfl, rfl⟩

/-- outside a transaction every ordinary call, whatever it answers, leaves the request settled -/
theorem anyStep_settled {M : TxSt → Prop} (txn : Bool) (c : Call) (hc : c.isTx = false) (hM : ∀ t, M t → Settled txn t) :
    AnyStep M c (Settled txn) := by
  intro t k hm
  obtain ⟨t', h1, hp, _, hd, _⟩ := txStepC_nonTx t c k hc
  obtain ⟨hph, hdirty⟩ := hM t hm
  refine ⟨t', h1, by rw [hp]; exact hph, ?_⟩
  rw [hd, hdirty]
  rcases hph with hph | ⟨_, hph⟩ <;> simp [hph]

/-- a read that answers `ok` leaves the automaton state as it was -/
theorem okStep_read (T : TxSt) (c : Call) (hc : c.isTx = false) (hm : c.mutates = false) : OkStep (At T) c (At T) := by
  intro t ht
  cases ht
  obtain ⟨t', h1, hp, hf, hd, hw⟩ := txStepC_nonTx T c .ok hc
  refine ⟨t', h1, TxSt.eq_of T t' hp ?_ ?_ ?_⟩
  · rw [hd]; simp [dirtyC]
  · rw [hf]; simp [unexpC]
  · rw [hw]; simp [hm]

/-- a tolerated not-found outside a transaction leaves the automaton state as it was -/
theorem nfStep_tolerated (T : TxSt) (c : Call) (hc : c.isTx = false) (hn : c.nfOk = true) (hph : T.phase ≠ .inTx) :
    NfStep (At T) c (At T) := by
  intro t ht
  cases ht
  obtain ⟨t', h1, hp, hf, hd, hw⟩ := txStepC_nonTx T c .nf hc
  refine ⟨t', h1, TxSt.eq_of T t' hp ?_ ?_ ?_⟩
  · rw [hd]; simp [hph]
  · rw [hf]; simp [unexpC, hn]
  · rw [hw]; simp

theorem okStep_clean (c : Call) (hc : c.isTx = false) : OkStep Clean c Clean := by
  intro t ⟨h1, h2, h3⟩
  obtain ⟨t', hs, hp, hf, hd, _⟩ := txStepC_nonTx t c .ok hc
  refine ⟨t', hs, by rw [hp]; exact h1, ?_, ?_⟩
  · rw [hd, h2, h1]; simp
  · rw [hf, h3]; simp [unexpC]

theorem okStep_done (c : Call) (hc : c.isTx = false) : OkStep Done c Done := by
  intro t ⟨h1, h2, h3⟩
  obtain ⟨t', hs, hp, hf, hd, _⟩ := txStepC_nonTx t c .ok hc
  refine ⟨t', hs, by rw [hp]; exact h1, ?_, ?_⟩
  · rw [hd, h2, h1]; simp
  · rw [hf, h3]; simp [unexpC]

theorem nfStep_done (c : Call) (hc : c.isTx = false) (hn : c.nfOk = true) : NfStep Done c Done := by
  intro t ⟨h1, h2, h3⟩
  obtain ⟨t', hs, hp, hf, hd, _⟩ := txStepC_nonTx t c .nf hc
  refine ⟨t', hs, by rw [hp]; exact h1, ?_, ?_⟩
  · rw [hd, h2, h1]; simp
  · rw [hf, h3]; simp [unexpC, hn]

/-- inside the clean open transaction an `ok` answer changes nothing -/
theorem okStep_inTx (c : Call) (hc : c.isTx = false) : OkStep (At T1) c (At T1) := by
  intro t ht
  cases ht
  obtain ⟨t', h1, hp, hf, hd, hw⟩ := txStepC_nonTx T1 c .ok hc
  refine ⟨t', h1, TxSt.eq_of T1 t' hp ?_ ?_ ?_⟩
  · rw [hd]; simp [dirtyC]
  · rw [hf]; simp [unexpC]
  · rw [hw]; simp [T1]

/-- the open transaction is clean and nothing was written outside it (`failed` is free: the reuse path
    of the refresh flow opens its transaction after the lookup answered "inactive") -/
def OpenClean (t : TxSt) : Prop := t.phase = .inTx ∧ t.dirty = false ∧ t.wroteOutside = false
/-- no transaction yet, nothing written -/
def IdleRO (t : TxSt) : Prop := t.phase = .idle ∧ t.dirty = false ∧ t.wroteOutside = false

theorem okStep_open (c : Call) (hc : c.isTx = false) : OkStep OpenClean c OpenClean := by
  intro t ⟨h1, h2, h3⟩
  obtain ⟨t', hs, hp, _, hd, hw⟩ := txStepC_nonTx t c .ok hc
  refine ⟨t', hs, by rw [hp]; exact h1, ?_, ?_⟩
  · rw [hd, h2]; simp [dirtyC]
  · rw [hw, h3, h1]; simp

/-- … and so does a not-found at a call after which the handler commits regardless -/
theorem nfStep_open (c : Call) (hc : c.isTx = false) (hn : c.nfTxOk = true) : NfStep OpenClean c OpenClean := by
  intro t ⟨h1, h2, h3⟩
  obtain ⟨t', hs, hp, _, hd, hw⟩ := txStepC_nonTx t c .nf hc
  refine ⟨t', hs, by rw [hp]; exact h1, ?_, ?_⟩
  · rw [hd, h2]; simp [dirtyC, hn]
  · rw [hw, h3, h1]; simp

theorem anyStep_idleRO (c : Call) (hc : c.isTx = false) (hm : c.mutates = false) : AnyStep (At T0) c IdleRO := by
  intro t k ht
  cases ht
  obtain ⟨t', hs, hp, _, hd, hw⟩ := txStepC_nonTx T0 c k hc
  refine ⟨t', hs, by rw [hp]; rfl, ?_, ?_⟩
  · rw [hd]; simp [T0]
  · rw [hw]; simp [T0, hm]

theorem okStep_begin_ro : OkStep IdleRO .beginTx OpenClean := by
  intro t ⟨h1, h2, h3⟩
  exact ⟨{ t with phase := .inTx }, by simp [txStepC, h1], rfl, h2, h3⟩
theorem errStep_begin_ro (txn : Bool) : ErrStep IdleRO .beginTx (Settled txn) := by
  intro t k hk ⟨h1, h2, h3⟩
  exact ⟨{ t with failed := true }, by simp [txStepC, h1, hk], Or.inl h1, h2⟩
theorem okStep_commit_open : OkStep OpenClean .commitTx (Settled true) := by
  intro t ⟨h1, h2, h3⟩
  exact ⟨{ t with phase := .committed }, by simp [txStepC, h1, h2], Or.inr ⟨rfl, rfl⟩, h2⟩
theorem errStep_commit_open : ErrStep OpenClean .commitTx InTxE := by
  intro t k hk ⟨h1, h2, h3⟩
  exact ⟨{ t with dirty := true, failed := true }, by simp [txStepC, h1, h2, hk], h1, h3⟩
theorem InTxE.of_open {t} (h : OpenClean t) : InTxE t := ⟨h.1, h.2.2⟩

/-- inside the transaction any answer keeps the transaction open with nothing written outside -/
theorem anyStep_inTx {M : TxSt → Prop} (c : Call) (hc : c.isTx = false) (hM : ∀ t, M t → InTxE t) : AnyStep M c InTxE := by
  intro t k hm
  obtain ⟨hph, hw0⟩ := hM t hm
  obtain ⟨t', h1, hp, _, _, hw⟩ := txStepC_nonTx t c k hc
  refine ⟨t', h1, by rw [hp]; exact hph, ?_⟩
  rw [hw, hw0, hph]; simp

theorem InTxE.of_T1 {t} (h : At T1 t) : InTxE t := by cases h; exact ⟨rfl, rfl⟩

/-- `MaybeBeginTx` from the untouched state -/
theorem okStep_begin : OkStep (At T0) .beginTx (At T1) := fun t ht => by cases ht; exact ⟨T1, rfl, rfl⟩
theorem errStep_begin (txn : Bool) : ErrStep (At T0) .beginTx (Settled txn) := by
  intro t k hk ht
  cases ht
  cases k
  · exact absurd rfl hk
  · exact ⟨_, rfl, Or.inl rfl, rfl⟩
  · exact ⟨_, rfl, Or.inl rfl, rfl⟩

/-- `MaybeCommitTx` of the clean open transaction -/
theorem okStep_commit : OkStep (At T1) .commitTx Done := fun t ht => by cases ht; exact ⟨_, rfl, rfl, rfl, rfl⟩
theorem errStep_commit : ErrStep (At T1) .commitTx InTxE := by
  intro t k hk ht
  cases ht
  cases k
  · exact absurd rfl hk
  · exact ⟨_, rfl, rfl, rfl⟩
  · exact ⟨_, rfl, rfl, rfl⟩

/-! ### fail-closed: store properties that survive every run, faulty and transactional ones included

  A rollback restores the snapshot taken by `beginTx` INSIDE the same run, so a property that held
  before the run and is preserved by every storage call also holds of the snapshot (with the mint
  counter advanced) — provided it is monotone in the mint counter. -/

theorem exec_next_le (ss : SState) (c : Call) : ss.next ≤ (ss.exec c).1.next := by
  cases c <;> simp only [SState.exec, revokeAccessS, revokeRefreshS] <;> (repeat' split) <;> simp_all

theorem step_preserves_any (rc : RunCfg) (P : SState → Prop)
    (hP : ∀ ss c, P ss → P (ss.exec c).1)
    (hN : ∀ (ss : SState) n, P ss → ss.next ≤ n → P { ss with next := n })
    (rs : RState) (c : Call) (h : P rs.ss) (hs : ∀ s0, rs.snap = some s0 → P { rs.ss with store := s0 }) :
    P (rs.step rc c).1.ss ∧ ∀ s0, (rs.step rc c).1.snap = some s0 → P { (rs.step rc c).1.ss with store := s0 } := by
  rcases step_cases rc rs c with ⟨_, hf, _⟩ | ⟨_, _, hss, hsn⟩ | ⟨_, _, hss, hsn⟩ |
    ⟨_, _, _, hss, hsn⟩ | ⟨_, _, _, hss, hsn⟩ | ⟨_, _, _, hss, hsn⟩
  · rw [hf]; exact ⟨h, hs⟩
  · rw [hss, hsn]; exact ⟨h, hs⟩
  · rw [hss, hsn]
    refine ⟨hP _ _ h, ?_⟩
    intro s0 h0
    rw [exec_frame]
    exact hN { rs.ss with store := s0 } _ (hs s0 h0) (exec_next_le rs.ss c)
  · rw [hss, hsn]
    refine ⟨h, ?_⟩
    intro s0 h0
    cases h0
    exact h
  · rw [hss, hsn]
    exact ⟨h, fun s0 h0 => by cases h0⟩
  · rw [hss, hsn]
    refine ⟨?_, fun s0 h0 => by cases h0⟩
    cases hsnap : rs.snap with
    | none => exact h
    | some s0 => exact hs s0 hsnap

/-- **No resurrection.**  For every fault plan, with or without transactions: a store property that
    every storage call preserves (and that is monotone in the mint counter) survives the run. -/
theorem run_preserves_any {α} (rc : RunCfg) (P : SState → Prop)
    (hP : ∀ ss c, P ss → P (ss.exec c).1)
    (hN : ∀ (ss : SState) n, P ss → ss.next ≤ n → P { ss with next := n })
    (p : Prog α) (rs : RState) (h : P rs.ss) (hs : ∀ s0, rs.snap = some s0 → P { rs.ss with store := s0 }) :
    P (run rc rs p).1.ss ∧ ∀ s0, (run rc rs p).1.snap = some s0 → P { (run rc rs p).1.ss with store := s0 } := by
  induction p generalizing rs with
  | ret a => exact ⟨h, hs⟩
  | call c k ih =>
    simp only [run_call]
    obtain ⟨h1, h2⟩ := step_preserves_any rc P hP hN rs c h hs
    exact ih _ _ h1 h2

/-- without transactions a step either leaves the store state alone or is the storage call -/
theorem step_notx_cases (rc : RunCfg) (htx : rc.tx = false) (rs : RState) (c : Call) :
    (rs.step rc c).1.ss = rs.ss ∨
    ((rs.step rc c).1.ss = (rs.ss.exec c).1 ∧ (rs.step rc c).2 = (rs.ss.exec c).2) := by
  rcases step_cases rc rs c with ⟨_, hf, _⟩ | ⟨_, _, hss, _⟩ | ⟨_, hr, hss, _⟩ |
    ⟨_, h, _⟩ | ⟨_, h, _⟩ | ⟨_, h, _⟩
  · left; rw [hf]
  · left; exact hss
  · right; exact ⟨hss, hr⟩
  all_goals (rw [htx] at h; cases h)

theorem run_preserves_notx {α} (rc : RunCfg) (htx : rc.tx = false) (P : SState → Prop)
    (hP : ∀ ss c, P ss → P (ss.exec c).1) (p : Prog α) (rs : RState) (h : P rs.ss) : P (run rc rs p).1.ss := by
  induction p generalizing rs with
  | ret a => exact h
  | call c k ih =>
    simp only [run_call]
    apply ih
    rcases step_notx_cases rc htx rs c with h' | ⟨h', _⟩
    · rw [h']; exact h
    · rw [h']; exact hP _ _ h

/-- **Without transactions a successful write is final**, whatever fails afterwards: if the log shows
    that call `c0` answered `r0` (not an injected failure) and that establishes `P`, which every storage
    call preserves, then `P` holds at the end of the run. -/
theorem run_mark_persists {α} (rc : RunCfg) (htx : rc.tx = false) (I P : SState → Prop)
    (hI : ∀ ss c, I ss → I (ss.exec c).1) (hP : ∀ ss c, I ss ∧ P ss → P (ss.exec c).1)
    (c0 : Call) (r0 : Res) (hr0 : ∀ e, r0 ≠ .fail e)
    (hmark : ∀ ss, I ss → (ss.exec c0).2 = r0 → P (ss.exec c0).1)
    (p : Prog α) (rs : RState) (hI0 : I rs.ss) (hmem : (c0, r0) ∈ runLog rc rs p) : P (run rc rs p).1.ss := by
  induction p generalizing rs with
  | ret a => simp [runLog] at hmem
  | call c k ih =>
    simp only [run_call]
    simp only [runLog, List.mem_append] at hmem
    have hI1 : I (rs.step rc c).1.ss := by
      rcases step_notx_cases rc htx rs c with h' | ⟨h', _⟩
      · rw [h']; exact hI0
      · rw [h']; exact hI _ _ hI0
    rcases hmem with hm | hm
    · -- this is the marked step
      unfold stepLog at hm
      by_cases hs : c.isSilent = true
      · simp [hs] at hm
      · simp only [hs, Bool.false_eq_true, if_false] at hm
        by_cases ht : (c.isTx && !rc.tx) = true
        · simp [ht] at hm
        · simp only [ht, Bool.false_eq_true, if_false, List.mem_singleton, Prod.mk.injEq] at hm
          obtain ⟨hc, hr⟩ := hm
          subst hc
          have hP1 : P (rs.step rc c0).1.ss := by
            rcases step_cases rc rs c0 with ⟨⟨ht1, ht2⟩, _⟩ | ⟨_, ⟨e, he⟩, _⟩ | ⟨_, hres, hss, _⟩ |
              ⟨_, h, _⟩ | ⟨_, h, _⟩ | ⟨_, h, _⟩
            · simp [ht1, ht2] at ht
            · rw [he] at hr; exact absurd hr (hr0 e)
            · rw [hss]; exact hmark rs.ss hI0 (by rw [← hres, ← hr])
            all_goals (rw [htx] at h; cases h)
          exact (run_preserves_notx rc htx (fun ss => I ss ∧ P ss) (fun ss c h => ⟨hI ss c h.1, hP ss c h⟩) _ _ ⟨hI1, hP1⟩).2
    · exact ih _ _ hI1 hm

end Fosite.Model

/-
  The device-authorization and pushed-authorization endpoints are safe: `createDevice` /
  `createPAR` store their record under a request id allocated in the same request, and the
  device_code grant / the authorization endpoint with a `request_uri` create their tokens / code
  under the id of a stored record only after that record has been invalidated / deleted.
-/
import Fosite.Proofs.SafeHandlers
namespace Fosite.Model

/-! ### store-level facts -/

theorem getDevice_live (ss : SState) (k : Option Nat) (d : DevRec) (h : (ss.exec (.getDevice k)).2 = .dev d) :
    ∃ sig, k = some sig ∧ alookup ss.store.device sig = some d ∧ d.used = false := by
  simp only [SState.exec] at h
  cases k with
  | none => simp at h
  | some sig =>
    simp only [Option.bind_some] at h
    cases hl : alookup ss.store.device sig with
    | none => simp [hl] at h
    | some d' =>
      simp only [hl] at h
      by_cases hu : d'.used = true
      · simp [hu] at h
      · simp only [hu, Bool.false_eq_true, if_false] at h
        cases h
        exact ⟨sig, rfl, hl, by simpa using hu⟩

theorem getDevice_ss (ss : SState) (k) : (ss.exec (.getDevice k)).1 = ss := by
  simp only [SState.exec]; split <;> (try split) <;> rfl

theorem getPAR_found (ss : SState) (k : Option Nat) (p : ParRec) (h : (ss.exec (.getPAR k)).2 = .par p) :
    ∃ u, k = some u ∧ alookup ss.store.par u = some p := by
  simp only [SState.exec] at h
  cases k with
  | none => simp at h
  | some u =>
    simp only [Option.bind_some] at h
    cases hl : alookup ss.store.par u with
    | none => simp [hl] at h
    | some p' => simp only [hl] at h; cases h; exact ⟨u, rfl, hl⟩

theorem getPAR_ss (ss : SState) (k) : (ss.exec (.getPAR k)).1 = ss := by
  simp only [SState.exec]; split <;> rfl

theorem exec_newId_GInv (ss : SState) (h : GInv ss) : GInv (ss.exec .newId).1 := exec_GInv ss .newId h trivial

/-- an id that has just been allocated is unused -/
theorem idUnused_after_newId (ss : SState) (h : GInv ss) : IdUnused (ss.exec .newId).1 ss.next := by
  refine ⟨by rw [exec_newId_next]; omega, ?_, ?_, ?_, ?_⟩
  · intro sig rec hl; rw [(exec_newId_ss ss).1] at hl; have := (h.refreshBelow sig rec hl).2; omega
  · intro s c hl; rw [(exec_newId_ss ss).1] at hl; have := (h.codesBelow s c hl).2; omega
  · intro s d hl; rw [(exec_newId_ss ss).1] at hl; have := (h.devBelow s d hl).2; omega
  · intro u p hl; rw [(exec_newId_ss ss).1] at hl; have := (h.parBelow u p hl).2; omega

/-- `InvalidateDeviceCodeSession` (deleting or marking) leaves the other tables alone -/
theorem exec_invalidateDevice_frame (ss : SState) (sig : Nat) :
    (ss.exec (.invalidateDevice (some sig))).1.store.refresh = ss.store.refresh ∧
    (ss.exec (.invalidateDevice (some sig))).1.store.codes = ss.store.codes ∧
    (ss.exec (.invalidateDevice (some sig))).1.store.par = ss.store.par ∧
    (ss.exec (.invalidateDevice (some sig))).1.next = ss.next := by
  simp only [SState.exec]; (repeat' split) <;> exact ⟨rfl, rfl, rfl, rfl⟩

/-- a record that is live after `InvalidateDeviceCodeSession` is a live record of before stored
    under another signature -/
theorem exec_invalidateDevice_live (ss : SState) (sig : Nat) (s : Nat) (d : DevRec)
    (hd : alookup (ss.exec (.invalidateDevice (some sig))).1.store.device s = some d) (hu : d.used = false) :
    s ≠ sig ∧ alookup ss.store.device s = some d := by
  simp only [SState.exec] at hd
  by_cases hm : ss.devMark = true
  · simp only [hm, if_true] at hd
    cases hl : alookup ss.store.device sig with
    | none =>
      simp only [hl] at hd
      refine ⟨?_, hd⟩
      intro hs; subst hs; rw [hl] at hd; cases hd
    | some d0 =>
      simp only [hl] at hd
      rw [alookup_aset] at hd
      by_cases hs : s = sig
      · simp only [hs, if_true] at hd; cases hd; cases hu
      · simp only [hs, if_false] at hd; exact ⟨hs, hd⟩
  · simp only [hm, Bool.false_eq_true, if_false] at hd
    rw [alookup_adel] at hd
    by_cases hs : s = sig
    · simp [hs] at hd
    · simp only [hs, if_false] at hd; exact ⟨hs, hd⟩

/-- the guard of the refresh token of the device_code grant: once the device authorization has
    been invalidated nothing pending carries its request id any more -/
theorem devicePoll_guard (ss : SState) (h : GInv ss) (sig : Nat) (d : DevRec)
    (hl : alookup ss.store.device sig = some d) (hu : d.used = false) (r1 r : Req) (a : Nat) (hid : r.id = d.req.id) :
    Guard ((ss.exec (.invalidateDevice (some sig))).1.exec (.createAccess r1)).1 (.createRefresh a r) := by
  obtain ⟨ir, ic, ip, inx⟩ := exec_invalidateDevice_frame ss sig
  obtain ⟨fr, fc, _, fn⟩ := exec_createAccess_frame (ss.exec (.invalidateDevice (some sig))).1 r1
  obtain ⟨fd, fp⟩ := exec_createAccess_frame2 (ss.exec (.invalidateDevice (some sig))).1 r1
  obtain ⟨f1, f2⟩ := h.devFresh sig d hl hu
  show r.id < _ ∧ _ ∧ _ ∧ NoPending _ r.id
  rw [hid]
  refine ⟨?_, ?_, ?_, ?_, ?_⟩
  · rw [fn, inx]; have := (h.devBelow sig d hl).2; omega
  · intro s rec hrl _; rw [fr, ir] at hrl; exact f1 s rec hrl
  · intro s c hcl _; rw [fc, ic] at hcl; exact f2 s c hcl
  · intro s d' hdl hu' heq
    rw [fd] at hdl
    obtain ⟨hne, hdl0⟩ := exec_invalidateDevice_live ss sig s d' hdl hu'
    exact hne (h.devIds s sig d' d hdl0 hl heq)
  · intro u p hpl heq
    rw [fp, ip] at hpl
    exact h.devPar sig d u p hl hpl heq.symm

theorem exec_deletePAR_effect (ss : SState) (u : Nat) :
    (ss.exec (.deletePAR (some u))).1.store.refresh = ss.store.refresh ∧
    (ss.exec (.deletePAR (some u))).1.store.codes = ss.store.codes ∧
    (ss.exec (.deletePAR (some u))).1.store.device = ss.store.device ∧
    (ss.exec (.deletePAR (some u))).1.store.par = adel ss.store.par u ∧
    (ss.exec (.deletePAR (some u))).1.next = ss.next := by
  simp [SState.exec]

/-- once a pushed request has been deleted nothing stored carries its request id -/
theorem idFresh_after_deletePAR (ss : SState) (h : GInv ss) (u : Nat) (p : ParRec)
    (hl : alookup ss.store.par u = some p) : IdFresh (ss.exec (.deletePAR (some u))).1 p.req.id := by
  obtain ⟨dr, dc, dd, dp, dn⟩ := exec_deletePAR_effect ss u
  obtain ⟨f1, f2⟩ := h.parFresh u p hl
  refine ⟨?_, ?_, ?_, ?_, ?_⟩
  · rw [dn]; exact (h.parBelow u p hl).2
  · intro s rec hrl; rw [dr] at hrl; exact f1 s rec hrl
  · intro s c hcl; rw [dc] at hcl; exact f2 s c hcl
  · intro s d hdl _; rw [dd] at hdl; exact h.devPar s d u p hdl hl
  · intro u' p' hpl heq
    rw [dp, alookup_adel] at hpl
    by_cases hs : u' = u
    · simp [hs] at hpl
    · simp only [hs, if_false] at hpl
      exact hs (h.parIds u' u p' p hpl hl heq)

/-! ### the endpoints -/

/-- the device authorization is stored under a request id allocated in the same request -/
theorem deviceAuth_safe (rc : RunCfg) (_hp : Plain rc) (cfg : Config) (now : Time) (q : DeviceAuthReq) (rs : RState)
    (hinv : GInv rs.ss) : safeH rc (deviceAuthH cfg now q) (fun _ _ => True) rs := by
  unfold deviceAuthH
  simp only [safeH_bind, safeH_guard, safeH_pure, authenticate, safeH_expectClient, safeH_optErr,
    safeH_expectNat _ _ _ _ _ (fun _ => calm_retErr _)]
  refine ⟨guard_trivial _ _ (by guardless), ?_⟩
  intro client hcl _ _ _ _ _
  refine ⟨guard_trivial _ _ (by guardless), ?_⟩
  intro rid hrid
  have h1 := step_eq_exec rc rs (.getClient q.clientId) rfl _ hcl (by intro e; simp)
  rw [exec_getClient_fst] at h1
  have h2 := step_eq_exec rc (rs.step rc (.getClient q.clientId)).1 .newId rfl _ hrid (by intro e; simp)
  rw [h1.1] at h2
  have hnn := exec_newId_nat _ _ h2.2
  subst hnn
  refine ⟨?_, fun _ _ => trivial⟩
  intro _
  rw [h2.1]
  exact idUnused_after_newId rs.ss hinv

/-- the pushed request is stored under a request id allocated in the same request -/
theorem parPush_safe (rc : RunCfg) (_hp : Plain rc) (cfg : Config) (now : Time) (p : ParPushReq) (rs : RState)
    (hinv : GInv rs.ss) : safeH rc (parPushH cfg now p) (fun _ _ => True) rs := by
  unfold parPushH
  simp only [safeH_bind, safeH_guard, safeH_pure, authenticate, safeH_expectClient, safeH_optErr, safeH_ite,
    safeH_expectNat _ _ _ _ _ (fun _ => calm_retErr _)]
  refine ⟨guard_trivial _ _ (by guardless), ?_⟩
  intro c0 hc0 _ _
  refine ⟨guard_trivial _ _ (by guardless), ?_⟩
  intro client hcl _ _ _
  refine ⟨fun _ => trivial, ?_⟩
  intro _ _ _ _
  refine ⟨guard_trivial _ _ (by guardless), ?_⟩
  intro rid hrid
  have h1 := step_eq_exec rc rs (.getClient p.q.clientId) rfl _ hc0 (by intro e; simp)
  rw [exec_getClient_fst] at h1
  have h2 := step_eq_exec rc (rs.step rc (.getClient p.q.clientId)).1 (.getClient p.q.clientId) rfl _ hcl (by intro e; simp)
  rw [exec_getClient_fst, h1.1] at h2
  have h3 := step_eq_exec rc (RState.step rc (rs.step rc (.getClient p.q.clientId)).1 (.getClient p.q.clientId)).1
    .newId rfl _ hrid (by intro e; simp)
  rw [h2.1] at h3
  have hnn := exec_newId_nat _ _ h3.2
  subst hnn
  refine ⟨?_, fun _ _ => trivial⟩
  intro _
  rw [h3.1]
  exact idUnused_after_newId rs.ss hinv

theorem calm_deviceReplay (rid : Nat) : calm (deviceReplay rid) := by
  unfold deviceReplay
  apply calm_pbind _ _ (calm_call' _ (by guardless)); intro _
  apply calm_pbind _ _ (calm_call' _ (by guardless)); intro _
  trivial

theorem calm_deviceLookupFailed (rid : Nat) (r : Res) : calm (deviceLookupFailed rid r) := by
  unfold deviceLookupFailed
  split
  · exact calm_deviceReplay _
  · split <;> trivial

theorem calmH_oidcDevicePopulate (code client) : calmH (oidcDevicePopulate code client) := by
  unfold oidcDevicePopulate
  apply calmH_bind _ _ (calmH_guard _ _); intro _
  apply calmH_bind _ _ (calmH_callH _ (by guardless)); intro r
  split
  · apply calmH_bind _ _ (calmH_guard _ _); intro _
    apply calmH_bind _ _ (calmH_guard _ _); intro _
    apply calmH_bind _ _ (calmH_expectOk _ _ (by guardless) (fun _ => calm_retErr _)); intro _
    exact calmH_pure _
  · split
    · exact calmH_pure _
    · exact calmH_fail _

/-- the device_code grant creates its refresh token under the request id of the device
    authorization it has just invalidated -/
theorem devicePoll_safe (rc : RunCfg) (hp : Plain rc) (cfg : Config) (now : Time) (q : DevicePollReq) (rs : RState)
    (hinv : GInv rs.ss) : safeH rc (devicePollH cfg now q) (fun _ _ => True) rs := by
  have hnf := hp.1
  have nf : ∀ rs c e, (RState.step rc rs c).2 ≠ .fail e := fun rs c e => step_no_fail rc hnf rs c e
  unfold devicePollH
  simp only [safeH_bind, safeH_callH, safeH_guard, safeH_pure, authenticate, safeH_expectClient, safeH_ite, safeH_ok,
    safeH_expectDev _ _ _ _ _ (calm_deviceLookupFailed _),
    safeH_expectDev _ _ _ _ _ (fun _ => calm_retErr _),
    safeH_expectOk _ _ _ _ _ (fun _ => calm_retErr _),
    safeH_expectOk _ _ _ _ _ (fun _ => calm_rollbackThen _),
    safeH_expectNat _ _ _ _ _ (fun _ => calm_rollbackThen _)]
  refine ⟨guard_trivial _ _ (by guardless), guard_trivial _ _ (by guardless), ?_⟩
  intro client hcl hcred hgr
  refine ⟨guard_trivial _ _ (by guardless), ?_⟩
  intro d hgd
  have h1 := step_eq_exec rc rs .newId rfl _ rfl (nf _ _)
  have h2 := step_eq_exec rc (rs.step rc .newId).1 (.getClient q.clientId) rfl _ hcl (by intro e; simp)
  have h3 := step_eq_exec rc _ (.getDevice q.code.sig) rfl _ hgd (by intro e; simp)
  rw [exec_getClient_fst] at h2
  rw [getDevice_ss] at h3
  obtain ⟨sig, hsig, hdev, hunused⟩ := getDevice_live _ _ _ h3.2
  rw [h2.1, h1.1] at hdev
  unfold deviceStateGate
  by_cases hs0 : (d.state == 0) = true
  · simp only [hs0, if_true]; exact safeH_fail rc _ _ _
  · by_cases hs2 : (d.state == 2) = true
    · simp only [hs0, hs2, Bool.false_eq_true, if_false, if_true]; exact safeH_fail rc _ _ _
    · simp only [hs0, hs2, Bool.false_eq_true, if_false, safeH_ok]
      intro _ _ _
      refine ⟨guard_trivial _ _ (by guardless), ?_⟩
      intro d2 hgd2 _ _
      refine ⟨guard_trivial _ _ (by guardless), ?_⟩
      intro _
      refine ⟨guard_trivial _ _ (by guardless), ?_⟩
      intro hinvd
      refine ⟨guard_trivial _ _ (by guardless), ?_⟩
      intro atk hat
      have h4 := step_eq_exec rc _ (.getDevice q.code.sig) rfl _ hgd2 (by intro e; simp)
      rw [getDevice_ss] at h4
      have h5 := step_begin_ss rc (RState.step rc (RState.step rc (RState.step rc (RState.step rc rs .newId).1
        (.getClient q.clientId)).1 (.getDevice q.code.sig)).1 (.getDevice q.code.sig)).1
      have h6 := step_eq_exec rc _ (.invalidateDevice q.code.sig) rfl _ rfl
        (by intro e he; rw [he] at hinvd; simp [Res.errKind] at hinvd)
      have h7 := step_eq_exec rc _ (.createAccess _) rfl _ hat (by intro e; simp)
      refine ⟨fun _ => ⟨?_, fun n _ => ?_⟩, fun _ => ?_⟩
      · -- the guard of createRefresh
        intro _
        rw [h7.1, h6.1, h5, h4.1, h3.1, h2.1, h1.1, hsig]
        exact devicePoll_guard _ (exec_newId_GInv _ hinv) sig d hdev hunused _ _ _ rfl
      · refine ⟨guard_trivial _ _ (by guardless), ?_⟩
        intro _
        apply safeH_calm_then rc _ _ _ (calmH_oidcDevicePopulate _ _); intro _ _
        trivial
      · refine ⟨guard_trivial _ _ (by guardless), ?_⟩
        intro _
        apply safeH_calm_then rc _ _ _ (calmH_oidcDevicePopulate _ _); intro _ _
        trivial

/-- the authorization endpoint creates the code of a pushed request under the request id of the
    pushed record it has just deleted -/
theorem authorizePar_safe (rc : RunCfg) (_hp : Plain rc) (cfg : Config) (now : Time) (minNonce : Nat) (a : AuthzParReq)
    (rs : RState) (hinv : GInv rs.ss) : safeH rc (authorizeParH cfg now minNonce a) (fun _ _ => True) rs := by
  unfold authorizeParH
  simp only [safeH_bind, safeH_guard,
    safeH_expectPar _ _ _ _ _ (fun _ => calm_retErr _), safeH_expectOk _ _ _ _ _ (fun _ => calm_retErr _)]
  refine ⟨guard_trivial _ _ (by guardless), ?_⟩
  intro p hgp _
  refine ⟨guard_trivial _ _ (by guardless), ?_⟩
  intro hdel _
  have h1 := step_eq_exec rc rs (.getPAR a.uri) rfl _ hgp (by intro e; simp)
  rw [getPAR_ss] at h1
  obtain ⟨u, hu, hl⟩ := getPAR_found _ _ _ h1.2
  have h2 := step_eq_exec rc (rs.step rc (.getPAR a.uri)).1 (.deletePAR a.uri) rfl _ rfl
    (by intro e he; rw [he] at hdel; simp [Res.errKind] at hdel)
  have hfresh : IdFresh (RState.step rc (RState.step rc rs (.getPAR a.uri)).1 (.deletePAR a.uri)).1.ss p.req.id := by
    rw [h2.1, h1.1, hu]; exact idFresh_after_deletePAR rs.ss hinv u p hl
  exact authz_pipeline_safe rc cfg now minNonce p.req.client (authzReqOfPar p a) _ _ hfresh

end Fosite.Model

/-
  Token families: what revocation by request id achieves (every access token of the grant gone,
  every refresh token of the grant inactive), that individual dead tokens stay dead through every
  storage call, and which request id the tokens of a successful exchange carry.  Used by the
  family clauses of C01 (replay), C04 (rotation, reuse) and C08 (revocation).
-/
import Fosite.Proofs.GrantHistory
import Fosite.Proofs.Refresh
import Fosite.Proofs.Revoke
namespace Fosite.Model

/-! ### association lists under `filter` -/

theorem alookup_filter_pred {β} (l : List (Nat × β)) (p : Nat × β → Bool) (k : Nat) (v : β)
    (h : alookup (l.filter p) k = some v) : p (k, v) = true := by
  induction l with
  | nil => simp [alookup] at h
  | cons x t ih =>
    obtain ⟨k', v'⟩ := x
    by_cases hp : p (k', v') = true
    · simp only [List.filter_cons, hp, if_true, alookup] at h
      by_cases hk : k' = k
      · subst hk; simp only [if_true] at h; cases h; exact hp
      · simp only [hk, if_false] at h; exact ih h
    · simp only [List.filter_cons, hp, Bool.false_eq_true, if_false] at h
      exact ih h

theorem alookup_filter_kept {β} (l : List (Nat × β)) (p : Nat × β → Bool) (k : Nat) (v : β)
    (h : alookup l k = some v) (hp : p (k, v) = true) : alookup (l.filter p) k = some v := by
  induction l with
  | nil => simp [alookup] at h
  | cons x t ih =>
    obtain ⟨k', v'⟩ := x
    by_cases hk : k' = k
    · subst hk
      simp only [alookup, if_true] at h; cases h
      simp [List.filter_cons, hp, alookup]
    · simp only [alookup, hk, if_false] at h
      by_cases hq : p (k', v') = true
      · simp only [List.filter_cons, hq, if_true, alookup, hk, if_false]; exact ih h
      · simp only [List.filter_cons, hq, Bool.false_eq_true, if_false]; exact ih h

theorem alookup_filter_absent {β} (l : List (Nat × β)) (p : Nat × β → Bool) (k : Nat)
    (h : alookup l k = none) : alookup (l.filter p) k = none := by
  induction l with
  | nil => rfl
  | cons x t ih =>
    obtain ⟨k', v'⟩ := x
    by_cases hk : k' = k
    · subst hk; simp [alookup] at h
    · simp only [alookup, hk, if_false] at h
      by_cases hq : p (k', v') = true
      · simp only [List.filter_cons, hq, if_true, alookup, hk, if_false]; exact ih h
      · simp only [List.filter_cons, hq, Bool.false_eq_true, if_false]; exact ih h

/-! ### what is dead -/

/-- no access token of request id `rid` is stored -/
def NoAccess (ss : SState) (rid : Nat) : Prop :=
  ∀ sig r, alookup ss.store.access sig = some r → r.id ≠ rid

/-- no refresh token of request id `rid` is active -/
def NoActiveRT (ss : SState) (rid : Nat) : Prop :=
  ∀ sig rec, alookup ss.store.refresh sig = some rec → rec.req.id = rid → rec.active = false

/-- every token of the grant `rid` is unusable -/
def GrantDead (ss : SState) (rid : Nat) : Prop := NoAccess ss rid ∧ NoActiveRT ss rid

/-- the access token is known to the server and its record is gone -/
def ATGone (ss : SState) (sig : Nat) : Prop := sig < ss.next ∧ alookup ss.store.access sig = none

/-! ### revocation by request id -/

theorem revokeAccessS_noAccess (s : Store) (rid : Nat) (sig : Nat) (r : Req)
    (h : alookup (revokeAccessS s rid).1.access sig = some r) : r.id ≠ rid := by
  unfold revokeAccessS at h
  have := alookup_filter_pred _ _ _ _ h
  simpa using this

/-- other grants keep their access tokens -/
theorem revokeAccessS_frame (s : Store) (rid : Nat) (sig : Nat) (r : Req)
    (h : alookup s.access sig = some r) (hne : r.id ≠ rid) :
    alookup (revokeAccessS s rid).1.access sig = some r := by
  unfold revokeAccessS
  exact alookup_filter_kept _ _ _ _ h (by simpa using hne)

theorem revokeAccessS_gone (s : Store) (rid : Nat) (sig : Nat)
    (h : alookup s.access sig = none) : alookup (revokeAccessS s rid).1.access sig = none := by
  unfold revokeAccessS
  exact alookup_filter_absent _ _ _ h

/-- with the index invariant, revoking by request id leaves no active refresh token of that grant,
    whatever the call answers -/
theorem revokeRefreshS_noActive (s : Store) (rid : Nat)
    (hidx : ∀ sig rec, alookup s.refresh sig = some rec → rec.active = true → alookup s.rtIdx rec.req.id = some sig)
    (sig : Nat) (rec : RefreshRec)
    (h : alookup (revokeRefreshS s rid).1.refresh sig = some rec) (hid : rec.req.id = rid) : rec.active = false := by
  unfold revokeRefreshS at h
  cases hi : alookup s.rtIdx rid with
  | none =>
    simp only [hi] at h
    cases ha : rec.active with
    | false => rfl
    | true => have := hidx sig rec h ha; rw [hid, hi] at this; cases this
  | some s0 =>
    simp only [hi] at h
    cases hl : alookup s.refresh s0 with
    | none =>
      simp only [hl] at h
      cases ha : rec.active with
      | false => rfl
      | true =>
        have := hidx sig rec h ha; rw [hid, hi] at this; cases this
        rw [hl] at h; cases h
    | some rec0 =>
      simp only [hl] at h
      rw [alookup_aset] at h
      by_cases hs : sig = s0
      · simp only [hs, if_true] at h; cases h; rfl
      · simp only [hs, if_false] at h
        cases ha : rec.active with
        | false => rfl
        | true => have := hidx sig rec h ha; rw [hid, hi] at this; cases this; exact absurd rfl hs

/-- refresh tokens of other grants are left alone -/
theorem revokeRefreshS_frame (s : Store) (rid : Nat)
    (hidx : ∀ sig rec, alookup s.refresh sig = some rec → rec.active = true → alookup s.rtIdx rec.req.id = some sig)
    (hbelow : ∀ r sig, alookup s.rtIdx r = some sig → ∀ rec, alookup s.refresh sig = some rec → rec.active = true → rec.req.id = r)
    (sig : Nat) (rec : RefreshRec) (h : alookup s.refresh sig = some rec) (hne : rec.req.id ≠ rid) (hact : rec.active = true) :
    alookup (revokeRefreshS s rid).1.refresh sig = some rec := by
  unfold revokeRefreshS
  cases hi : alookup s.rtIdx rid with
  | none => exact h
  | some s0 =>
    simp only
    cases hl : alookup s.refresh s0 with
    | none => exact h
    | some rec0 =>
      simp only
      rw [alookup_aset]
      by_cases hs : sig = s0
      · subst hs
        rw [h] at hl; cases hl
        have := hidx sig rec h hact
        -- the index of `rec.req.id` is `sig`, the index of `rid` is `sig` too; nothing ties them without `hbelow`
        exact absurd (hbelow rid sig hi rec h hact) hne
      · simp only [hs, if_false]; exact h

theorem NoActiveRT_of_refresh_eq {ss ss' : SState} {rid : Nat} (h : NoActiveRT ss rid)
    (he : ss'.store.refresh = ss.store.refresh) : NoActiveRT ss' rid := by
  intro sig rec hl; rw [he] at hl; exact h sig rec hl

theorem NoAccess_of_access_eq {ss ss' : SState} {rid : Nat} (h : NoAccess ss rid)
    (he : ss'.store.access = ss.store.access) : NoAccess ss' rid := by
  intro sig r hl; rw [he] at hl; exact h sig r hl

theorem exec_revokeAccess_noAccess (ss : SState) (rid : Nat) : NoAccess (ss.exec (.revokeAccess rid)).1 rid := by
  intro sig r hl
  simp only [SState.exec] at hl
  exact revokeAccessS_noAccess ss.store rid sig r hl

theorem exec_revokeAccess_refresh (ss : SState) (rid : Nat) :
    (ss.exec (.revokeAccess rid)).1.store.refresh = ss.store.refresh ∧
    (ss.exec (.revokeAccess rid)).1.store.rtIdx = ss.store.rtIdx := by
  simp [SState.exec, revokeAccessS]

theorem exec_revokeRefresh_noActive (ss : SState) (hinv : GInv ss) (rid : Nat) :
    NoActiveRT (ss.exec (.revokeRefresh rid)).1 rid := by
  intro sig rec hl hid
  simp only [SState.exec] at hl
  exact revokeRefreshS_noActive ss.store rid hinv.idx sig rec hl hid

theorem exec_revokeRefresh_access (ss : SState) (rid : Nat) :
    (ss.exec (.revokeRefresh rid)).1.store.access = ss.store.access := by
  simp only [SState.exec]
  exact (revokeRefreshS_effect ss.store rid).2.2.2.1

/-- both revocations, in either order, kill the grant -/
theorem revoke_both_dead_AR (ss : SState) (hinv : GInv ss) (rid : Nat) :
    GrantDead ((ss.exec (.revokeAccess rid)).1.exec (.revokeRefresh rid)).1 rid := by
  have hinv' : GInv (ss.exec (.revokeAccess rid)).1 := exec_GInv_other ss _ hinv rfl
  refine ⟨?_, exec_revokeRefresh_noActive _ hinv' rid⟩
  exact NoAccess_of_access_eq (exec_revokeAccess_noAccess ss rid) (exec_revokeRefresh_access _ rid)

theorem revoke_both_dead_RA (ss : SState) (hinv : GInv ss) (rid : Nat) :
    GrantDead ((ss.exec (.revokeRefresh rid)).1.exec (.revokeAccess rid)).1 rid := by
  refine ⟨exec_revokeAccess_noAccess _ rid, ?_⟩
  exact NoActiveRT_of_refresh_eq (exec_revokeRefresh_noActive ss hinv rid) (exec_revokeAccess_refresh _ rid).1

/-! ### dead tokens stay dead -/

theorem exec_rotate_access (ss : SState) (rid : Nat) (k : Option Nat) :
    (ss.exec (.rotateRefresh rid k)).1.store.access = ss.store.access ∨
    (ss.exec (.rotateRefresh rid k)).1.store.access = (revokeAccessS ss.store rid).1.access := by
  have he := (revokeRefreshS_effect ss.store rid).2.2.2.1
  simp only [SState.exec]
  rcases h : revokeRefreshS ss.store rid with ⟨s1, r1⟩
  rw [h] at he
  simp only at he
  cases r1
  case ok => right; simp only [revokeAccessS, he]
  all_goals (left; exact he)

theorem exec_access_shapes (ss : SState) (c : Call) :
    (ss.exec c).1.store.access = ss.store.access ∨
    (∃ r, c = .createAccess r ∧ (ss.exec c).1.store.access = aset ss.store.access ss.next r) ∨
    (∃ sig, (ss.exec c).1.store.access = adel ss.store.access sig) ∨
    (∃ rid, (ss.exec c).1.store.access = (revokeAccessS ss.store rid).1.access) := by
  cases c with
  | rotateRefresh rid k =>
    rcases exec_rotate_access ss rid k with h | h
    · left; exact h
    · right; right; right; exact ⟨rid, h⟩
  | createAccess r => right; left; exact ⟨_, rfl, rfl⟩
  | deleteAccess k =>
    cases k with
    | none => left; rfl
    | some sig => right; right; left; exact ⟨sig, rfl⟩
  | revokeAccess rid => right; right; right; exact ⟨_, rfl⟩
  | _ => left; simp only [SState.exec, revokeRefreshS] <;> (repeat' split) <;> (try rfl)

theorem exec_ATGone (ss : SState) (c : Call) (sig : Nat) (h : ATGone ss sig) : ATGone (ss.exec c).1 sig := by
  obtain ⟨hlt, hn⟩ := h
  refine ⟨Nat.lt_of_lt_of_le hlt (exec_next_mono ss c), ?_⟩
  rcases exec_access_shapes ss c with he | ⟨r, _, he⟩ | ⟨s2, he⟩ | ⟨rid, he⟩
  · rw [he]; exact hn
  · rw [he, alookup_aset]; simp [Nat.ne_of_lt hlt, hn]
  · rw [he, alookup_adel]; split <;> simp [hn]
  · rw [he]; exact revokeAccessS_gone ss.store rid sig hn

theorem step_ATGone (s : MState) (op : Op) (sig : Nat) (h : ATGone s.ss sig) : ATGone (step s op).1.ss sig :=
  step_preserves (fun ss => ATGone ss sig) (fun ss c h => exec_ATGone ss c sig h) (fun _ _ h => h) (fun _ _ _ h => h) s op h

theorem after_ATGone (ops : List Op) (s : MState) (sig : Nat) (h : ATGone s.ss sig) : ATGone (after s ops).ss sig := by
  induction ops generalizing s with
  | nil => exact h
  | cons op ops ih => exact ih _ (step_ATGone s op sig h)

theorem after_RTDead (ops : List Op) (s : MState) (sig : Nat) (h : RTDead s.ss sig) : RTDead (after s ops).ss sig := by
  induction ops generalizing s with
  | nil => exact h
  | cons op ops ih => exact ih _ (step_RTDead s op sig h)

end Fosite.Model

namespace Fosite.Model

/-! ### the replay branch of the code exchange -/

theorem run_expectReq (rc) (c : Call) (other : Res → Prog Err) (rs : RState) :
    run rc rs (expectReq c other).toProg =
      match (rs.step rc c).2 with
      | .req x => ((rs.step rc c).1, .ok x)
      | r => ((run rc (rs.step rc c).1 (other r)).1, .error (run rc (rs.step rc c).1 (other r)).2) := by
  unfold expectReq HP.mk HP.toProg
  rw [run_call]
  cases hr : (rs.step rc c).2 <;> simp only [HP.ok, HP.mk, HP.toProg, run_ret, HP.failWith, run_bind]

theorem step_newId_ss (rc : RunCfg) (rs : RState) : (rs.step rc .newId).1.ss = (rs.ss.exec .newId).1 := rfl

/-- **Replay.** An authenticated client entitled to the grant type presents a code whose record is
    inactive: the answer is `invalid_grant` and no token of that authorization survives. -/
theorem run_redeem_replay (rc : RunCfg) (hp : Plain rc) (cfg : Config) (now : Time) (q : RedeemReq) (rs : RState)
    (hinv : GInv rs.ss) (client : Client) (sig : Nat) (rec : CodeRec)
    (hauth : authVerdict rs.ss.clients q.clientId q.credOk = .ok client)
    (hgrant : client.grants.contains "authorization_code" = true)
    (hsig : q.code.sig = some sig) (hrec : alookup rs.ss.store.codes sig = some rec) (hdead : rec.active = false) :
    (run rc rs (redeemProg cfg now q)).2 = .err .invalid_grant ∧
    GrantDead (run rc rs (redeemProg cfg now q)).1.ss rec.req.id := by
  unfold redeemProg
  rw [run_HPrun]
  unfold redeemH
  rw [run_HPbind, run_callH]
  simp only
  rw [run_HPbind]
  obtain ⟨ha1, ha2⟩ := run_authenticate rc hp q.clientId q.credOk (rs.step rc .newId).1
  have hss1 : (rs.step rc .newId).1.ss = (rs.ss.exec .newId).1 := rfl
  have hcl : (rs.ss.exec .newId).1.clients = rs.ss.clients := (exec_newId_ss rs.ss).2
  have hst : (rs.ss.exec .newId).1.store = rs.ss.store := (exec_newId_ss rs.ss).1
  rw [hss1, hcl, hauth] at ha2
  rw [ha2]
  simp only
  rw [run_HPbind, run_HPguard]
  simp only [hgrant, if_true]
  rw [run_HPbind, run_expectReq]
  -- the lookup answers "inactive"
  obtain ⟨hr1, hr2⟩ := step_read rc hp (run rc (rs.step rc .newId).1 (authenticate q.clientId q.credOk).toProg).1
    (.getCode q.code.sig) rfl (exec_getCode_fst _ _)
  have hlook : ((run rc (rs.step rc .newId).1 (authenticate q.clientId q.credOk).toProg).1.ss.exec (.getCode q.code.sig)).2 = .inactive rec.req := by
    rw [ha1, hss1]
    simp only [SState.exec, hst, hsig, Option.bind_some, hrec, hdead]
    rfl
  rw [hlook] at hr2
  rw [hr2]
  simp only [redeemLookupFailed, closeOut]
  -- the two revocations
  refine ⟨?_, ?_⟩
  · rfl
  · show GrantDead (run rc _ (do let _ ← call (.revokeAccess rec.req.id); let _ ← call (.revokeRefresh rec.req.id); return Err.invalid_grant)).1.ss rec.req.id
    simp only [bind, Prog.bind, call, run_call, run_ret, pure]
    obtain ⟨w1s, _⟩ := step_write rc hp (RState.step rc (run rc (rs.step rc .newId).1 (authenticate q.clientId q.credOk).toProg).1 (.getCode q.code.sig)).1
      (.revokeAccess rec.req.id) rfl
    obtain ⟨w2s, _⟩ := step_write rc hp (RState.step rc (RState.step rc (run rc (rs.step rc .newId).1 (authenticate q.clientId q.credOk).toProg).1 (.getCode q.code.sig)).1
      (.revokeAccess rec.req.id)).1 (.revokeRefresh rec.req.id) rfl
    rw [w2s, w1s, hr1, ha1, hss1]
    exact revoke_both_dead_AR _ (exec_newId_GInv _ hinv) _

end Fosite.Model

namespace Fosite.Model

/-! ### the index is sound: an index entry names a refresh token of that request id -/

/-- `RefreshTokenRequestIDs[r]` only ever names minted signatures, and the record it names (if it
    still exists) belongs to request id `r` -/
def IdxSound (ss : SState) : Prop :=
  (∀ r s, alookup ss.store.rtIdx r = some s → s < ss.next) ∧
  (∀ s rec, alookup ss.store.refresh s = some rec → s < ss.next) ∧
  (∀ r s rec, alookup ss.store.rtIdx r = some s → alookup ss.store.refresh s = some rec → rec.req.id = r)

theorem init_IdxSound : IdxSound ({} : MState).ss := by
  refine ⟨?_, ?_, ?_⟩ <;> intros <;> simp_all [alookup]

theorem exec_IdxSound (ss : SState) (c : Call) (h : IdxSound ss) : IdxSound (ss.exec c).1 := by
  obtain ⟨h1, h2, h3⟩ := h
  have hm := exec_next_mono ss c
  by_cases hc : ∃ a r, c = .createRefresh a r
  · obtain ⟨a, r, hc⟩ := hc
    subst hc
    obtain ⟨_, er, ei, en⟩ := exec_createRefresh_effect ss a r
    refine ⟨?_, ?_, ?_⟩
    · intro r' s hl
      rw [ei, alookup_aset] at hl
      rw [en]
      split at hl
      · cases hl; omega
      · have := h1 _ _ hl; omega
    · intro s rec hl
      rw [er, alookup_aset] at hl
      rw [en]
      split at hl
      · omega
      · have := h2 _ _ hl; omega
    · intro r' s rec hi hl
      rw [ei, alookup_aset] at hi
      rw [er, alookup_aset] at hl
      by_cases hr : r' = r.id
      · simp only [hr, if_true] at hi; cases hi
        simp only [if_true] at hl; cases hl; exact hr.symm
      · simp only [hr, if_false] at hi
        have hs : s ≠ ss.next := Nat.ne_of_lt (h1 _ _ hi)
        simp only [hs, if_false] at hl
        exact h3 _ _ _ hi hl
  · obtain ⟨hw, hi⟩ := exec_refresh_weaker ss c (by intro a r h; exact hc ⟨a, r, h⟩)
    refine ⟨?_, ?_, ?_⟩
    · intro r s hl; rw [hi] at hl; exact Nat.lt_of_lt_of_le (h1 _ _ hl) hm
    · intro s rec hl
      obtain ⟨rec0, hl0, _, _⟩ := hw s rec hl
      exact Nat.lt_of_lt_of_le (h2 _ _ hl0) hm
    · intro r s rec hx hl
      rw [hi] at hx
      obtain ⟨rec0, hl0, hreq, _⟩ := hw s rec hl
      rw [← hreq]; exact h3 _ _ _ hx hl0

theorem step_IdxSound (s : MState) (op : Op) (h : IdxSound s.ss) : IdxSound (step s op).1.ss :=
  step_preserves IdxSound exec_IdxSound (fun _ _ h => h) (fun _ _ _ h => h) s op h

theorem after_IdxSound (ops : List Op) (s : MState) (h : IdxSound s.ss) : IdxSound (after s ops).ss := by
  induction ops generalizing s with
  | nil => exact h
  | cons op ops ih => exact ih _ (step_IdxSound s op h)

/-- refresh tokens of other grants are left alone by a revocation by request id -/
theorem revokeRefreshS_frame' (s : Store) (rid : Nat)
    (hsound : ∀ r s0 rec, alookup s.rtIdx r = some s0 → alookup s.refresh s0 = some rec → rec.req.id = r)
    (sig : Nat) (rec : RefreshRec) (h : alookup s.refresh sig = some rec) (hne : rec.req.id ≠ rid) :
    alookup (revokeRefreshS s rid).1.refresh sig = some rec := by
  unfold revokeRefreshS
  cases hi : alookup s.rtIdx rid with
  | none => exact h
  | some s0 =>
    simp only
    cases hl : alookup s.refresh s0 with
    | none => exact h
    | some rec0 =>
      simp only
      rw [alookup_aset]
      by_cases hs : sig = s0
      · subst hs; rw [h] at hl; cases hl
        exact absurd (hsound rid sig rec hi h) hne
      · simp only [hs, if_false]; exact h

/-! ### plain interpretation of the transaction bracket -/

theorem step_tx_plain (rc : RunCfg) (hp : Plain rc) (rs : RState) (c : Call) (hc : c.isTx = true) :
    rs.step rc c = (rs, .ok) := by
  unfold RState.step
  have hs : c.isSilent = false := by cases c <;> simp_all [Call.isTx, Call.isSilent]
  simp [hs, hc, hp.2]

/-! ### reuse detection in the refresh flow -/

theorem errKind_ok : Res.ok.errKind = none := rfl

/-- plain semantics, state and value only: the transaction bracket is a no-op, every other call is
    the store operation -/
def runP {α} : SState → Prog α → SState × α
  | ss, .ret a => (ss, a)
  | ss, .call c k => if c.isTx then runP ss (k .ok) else runP (ss.exec c).1 (k (ss.exec c).2)

theorem run_eq_runP {α} (rc : RunCfg) (hp : Plain rc) (p : Prog α) (rs : RState) :
    (run rc rs p).1.ss = (runP rs.ss p).1 ∧ (run rc rs p).2 = (runP rs.ss p).2 := by
  induction p generalizing rs with
  | ret a => exact ⟨rfl, rfl⟩
  | call c k ih =>
    rw [run_call]
    unfold runP
    by_cases hc : c.isTx = true
    · rw [step_tx_plain rc hp rs c hc]; simp only [hc, if_true]; exact ih _ _
    · have hc' : c.isTx = false := by simpa using hc
      obtain ⟨ws, wr⟩ := step_write rc hp rs c hc'
      simp only [hc', Bool.false_eq_true, if_false]
      rw [wr, ← ws]; exact ih _ _

theorem exec_deleteRefresh_errKind (ss : SState) (k : Option Nat) : ((ss.exec (.deleteRefresh k)).2).errKind = none := by
  cases k <;> rfl
theorem exec_revokeAccess_errKind (ss : SState) (rid : Nat) : ((ss.exec (.revokeAccess rid)).2).errKind = none := rfl
theorem exec_revokeRefresh_benign (ss : SState) (rid : Nat) :
    (((ss.exec (.revokeRefresh rid)).2).errKind.isSome && ((ss.exec (.revokeRefresh rid)).2).errKind != some .not_found) = false := by
  simp only [SState.exec, revokeRefreshS]
  (repeat' split) <;> rfl

theorem runP_refreshReuse (sig rid : Nat) (ss : SState) :
    runP ss (refreshReuse (some sig) rid) =
      ((((ss.exec (.deleteRefresh (some sig))).1.exec (.revokeRefresh rid)).1.exec (.revokeAccess rid)).1, .invalid_grant) := by
  unfold refreshReuse
  simp only [bind, Prog.bind, call, pure, runP, Call.isTx, if_true, Bool.false_eq_true, if_false, errKind_ok,
    exec_deleteRefresh_errKind, exec_revokeRefresh_benign, exec_revokeAccess_errKind, Option.isSome_none, Bool.false_and]

end Fosite.Model

namespace Fosite.Model

/-- **Reuse.** An authenticated client entitled to the grant type presents a refresh token whose
    record is inactive: the answer is `invalid_grant`, the state afterwards is the presented record
    deleted and the grant revoked by request id — no token of that grant survives. -/
theorem run_refresh_reuse (rc : RunCfg) (hp : Plain rc) (cfg : Config) (now : Time) (q : RefreshReq) (rs : RState)
    (hinv : GInv rs.ss) (client : Client) (sig : Nat) (rec : RefreshRec)
    (hauth : authVerdict rs.ss.clients q.clientId q.credOk = .ok client)
    (hgrant : client.grants.contains "refresh_token" = true)
    (hsig : q.token.sig = some sig) (hrec : alookup rs.ss.store.refresh sig = some rec) (hdead : rec.active = false) :
    (run rc rs (refreshProg cfg now q)).2 = .err .invalid_grant ∧
    (run rc rs (refreshProg cfg now q)).1.ss =
      ((((rs.ss.exec .newId).1.exec (.deleteRefresh (some sig))).1.exec (.revokeRefresh rec.req.id)).1.exec (.revokeAccess rec.req.id)).1 ∧
    GrantDead (run rc rs (refreshProg cfg now q)).1.ss rec.req.id := by
  have key : (run rc rs (refreshProg cfg now q)).2 = .err .invalid_grant ∧
      (run rc rs (refreshProg cfg now q)).1.ss =
        ((((rs.ss.exec .newId).1.exec (.deleteRefresh (some sig))).1.exec (.revokeRefresh rec.req.id)).1.exec (.revokeAccess rec.req.id)).1 := by
    unfold refreshProg
    rw [run_HPrun]
    unfold refreshH
    rw [run_HPbind, run_callH]
    simp only
    rw [run_HPbind]
    obtain ⟨ha1, ha2⟩ := run_authenticate rc hp q.clientId q.credOk (rs.step rc .newId).1
    have hss1 : (rs.step rc .newId).1.ss = (rs.ss.exec .newId).1 := rfl
    have hcl : (rs.ss.exec .newId).1.clients = rs.ss.clients := (exec_newId_ss rs.ss).2
    have hst : (rs.ss.exec .newId).1.store = rs.ss.store := (exec_newId_ss rs.ss).1
    rw [hss1, hcl, hauth] at ha2
    rw [ha2]
    simp only
    rw [run_HPbind, run_HPguard]
    simp only [hgrant, if_true]
    rw [run_HPbind, run_expectReq]
    obtain ⟨hr1, hr2⟩ := step_read rc hp (run rc (rs.step rc .newId).1 (authenticate q.clientId q.credOk).toProg).1
      (.getRefresh q.token.sig) rfl (exec_getRefresh_fst _ _)
    have hlook : ((run rc (rs.step rc .newId).1 (authenticate q.clientId q.credOk).toProg).1.ss.exec (.getRefresh q.token.sig)).2 = .inactive rec.req := by
      rw [ha1, hss1]
      simp only [SState.exec, hst, hsig, Option.bind_some, hrec, hdead]
      rfl
    rw [hlook] at hr2
    rw [hr2]
    simp only [refreshLookupFailed, closeOut, hsig]
    obtain ⟨e1, e2⟩ := run_eq_runP rc hp (refreshReuse (some sig) rec.req.id)
      (RState.step rc (run rc (rs.step rc .newId).1 (authenticate q.clientId q.credOk).toProg).1 (.getRefresh (some sig))).1
    rw [hsig] at hr1
    rw [e1, e2, runP_refreshReuse, hr1, ha1, hss1]
    exact ⟨rfl, rfl⟩
  refine ⟨key.1, key.2, ?_⟩
  rw [key.2]
  have h1 : GInv (rs.ss.exec .newId).1 := exec_newId_GInv _ hinv
  have h2 : GInv ((rs.ss.exec .newId).1.exec (.deleteRefresh (some sig))).1 := exec_GInv_other _ _ h1 rfl
  exact revoke_both_dead_RA _ h2 _

end Fosite.Model

namespace Fosite.Model

/-! ### which request id the tokens of an exchange carry -/

/-- what a successful exchange hands out belongs to grant `rid`: signatures minted during this
    operation, whose records carry `rid` -/
def TokensOf (ss ss' : SState) (rid : Nat) (a : Nat) (r : Option Nat) : Prop :=
  ss.next ≤ a ∧ a < ss'.next ∧ (∃ x, alookup ss'.store.access a = some x ∧ x.id = rid) ∧
  (∀ t, r = some t → ss.next ≤ t ∧ t < ss'.next ∧ ∃ y, alookup ss'.store.refresh t = some y ∧ y.req.id = rid)

theorem redeem_wp_tokens (rc : RunCfg) (hnf : NoFaults rc) (cfg : Config) (now : Time) (q : RedeemReq) (rs : RState) :
    wpOk rc (redeemH cfg now q)
      (fun rs' o => ∀ a r i e sc, o = .tokens a r i e sc →
        ∃ sig rec, q.code.sig = some sig ∧ alookup rs.ss.store.codes sig = some rec ∧
          TokensOf rs.ss rs'.ss rec.req.id a r) rs := by
  unfold redeemH
  simp only [wpOk_bind, wpOk_callH, wpOk_expectReq, wpOk_expectNat, wpOk_expectOk, wpOk_guard, wpOk_pure,
    authenticate, wpOk_expectClient, wpOk_ite, wpOk_ok]
  intro client hcl hcred hgr ar hgc hexact hcid hredir
  have nf : ∀ rs c e, (RState.step rc rs c).2 ≠ .fail e := fun rs c e => step_no_fail rc hnf rs c e
  have h1 := step_eq_exec rc rs .newId rfl _ rfl (nf _ _)
  have h2 := step_eq_exec rc (rs.step rc .newId).1 (.getClient q.clientId) rfl _ hcl (by intro e; simp)
  have h3 := step_eq_exec rc _ (.getCode q.code.sig) rfl _ hgc (by intro e; simp)
  rw [exec_getClient_fst] at h2
  rw [exec_getCode_fst] at h3
  have hss3 : (RState.step rc (RState.step rc (RState.step rc rs .newId).1 (.getClient q.clientId)).1 (.getCode q.code.sig)).1.ss
      = (rs.ss.exec .newId).1 := by rw [h3.1, h2.1, h1.1]
  obtain ⟨sig, rec, hsig, hrec, hact, hreq⟩ := exec_getCode_req _ _ _ h3.2
  rw [h2.1, h1.1, (exec_newId_ss rs.ss).1] at hrec
  subst hreq
  apply wpOk_pkceHandle rc cfg q.code q.verifier client _ _ hnf
  intro rs4 hsame _
  intro ar2 hgc2 hexp hbegin hinv atk hat
  have hnext4 : rs4.ss.next = rs.ss.next + 1 := by rw [hsame.1, hss3, exec_newId_next]
  have h5 := step_eq_exec rc rs4 (.getCode q.code.sig) rfl _ hgc2 (by intro e; simp)
  rw [exec_getCode_fst] at h5
  have h6 := step_begin_ss rc (RState.step rc rs4 (.getCode q.code.sig)).1
  have h7 := step_eq_exec rc _ (.invalidateCode q.code.sig) rfl _ rfl
    (by intro e he; rw [he] at hinv; simp [Res.errKind] at hinv)
  obtain ⟨sig3, rec3, _, _, hinvst⟩ := exec_invalidateCode_ok _ _ (by rw [h7.2]; exact hinv)
  have h8 := step_eq_exec rc _ (.createAccess _) rfl _ hat (by intro e; simp)
  -- the state in which the access token is created
  have hnext7 : (RState.step rc (RState.step rc (RState.step rc rs4 (.getCode q.code.sig)).1 .beginTx).1
      (.invalidateCode q.code.sig)).1.ss.next = rs.ss.next + 1 := by
    rw [h7.1, hinvst, h6, h5.1]; exact hnext4
  have hatk : atk = rs.ss.next + 1 := by
    have := exec_createAccess_nat _ _ _ h8.2; rw [this, hnext7]
  have hacc8 : alookup (RState.step rc (RState.step rc (RState.step rc (RState.step rc rs4 (.getCode q.code.sig)).1 .beginTx).1
      (.invalidateCode q.code.sig)).1 (.createAccess ((redeemStoreReq cfg now q client rec.req ar2).sanitize []))).1.ss.store.access atk
        = some ((redeemStoreReq cfg now q client rec.req ar2).sanitize []) := by
    rw [h8.1]
    simp only [SState.exec]
    rw [hnext7, hatk]; exact alookup_aset_self _ _ _
  have hnext8 : (RState.step rc (RState.step rc (RState.step rc (RState.step rc rs4 (.getCode q.code.sig)).1 .beginTx).1
      (.invalidateCode q.code.sig)).1 (.createAccess ((redeemStoreReq cfg now q client rec.req ar2).sanitize []))).1.ss.next = rs.ss.next + 2 := by
    rw [h8.1]; simp only [SState.exec]; rw [hnext7]
  have hid : ((redeemStoreReq cfg now q client rec.req ar2).sanitize []).id = rec.req.id := rfl
  constructor
  · intro hcan rt hrt hcommit
    have h9 := step_eq_exec rc _ (.createRefresh atk _) rfl _ hrt (by intro e; simp)
    have hrtn : rt = rs.ss.next + 2 := by
      have := exec_createRefresh_nat _ _ _ _ h9.2; rw [this, hnext8]
    apply wpOk_oidcExplicitPopulate rc q.code client _ _ hnf
    intro rsE b hsameE
    apply wpOk_pkcePopulate rc q.code _ _ hnf
    intro rsF hsameF a r i e sc ho
    cases ho
    refine ⟨sig, rec, hsig, hrec, ?_, ?_, ⟨_, ?_, hid⟩, ?_⟩
    · omega
    · rw [hsameF.1, hsameE.1, step_commit_ss, h9.1]
      simp only [SState.exec]; rw [hnext8]; omega
    · rw [hsameF.2.2.2.1, hsameE.2.2.2.1, step_commit_ss, h9.1]
      simp only [SState.exec]
      exact hacc8
    · intro t ht
      cases ht
      refine ⟨by omega, ?_, ⟨{ active := true, atSig := atk, req := (redeemStoreReq cfg now q client rec.req ar2).sanitize [] }, ?_, hid⟩⟩
      · rw [hsameF.1, hsameE.1, step_commit_ss, h9.1]
        simp only [SState.exec]; rw [hnext8]; omega
      · rw [hsameF.2.2.2.2.1, hsameE.2.2.2.2.1, step_commit_ss, h9.1]
        simp only [SState.exec]
        rw [hnext8, hrtn]; exact alookup_aset_self _ _ _
  · intro hcan hcommit
    apply wpOk_oidcExplicitPopulate rc q.code client _ _ hnf
    intro rsE b hsameE
    apply wpOk_pkcePopulate rc q.code _ _ hnf
    intro rsF hsameF a r i e sc ho
    cases ho
    refine ⟨sig, rec, hsig, hrec, ?_, ?_, ⟨_, ?_, hid⟩, ?_⟩
    · omega
    · rw [hsameF.1, hsameE.1, step_commit_ss, hnext8]; omega
    · rw [hsameF.2.2.2.1, hsameE.2.2.2.1, step_commit_ss]
      exact hacc8
    · intro t ht; cases ht

/-- the tokens a successful code redemption returns are records of the code's authorization -/
theorem redeem_tokens (rc : RunCfg) (hnf : NoFaults rc) (cfg : Config) (now : Time) (q : RedeemReq) (rs : RState)
    (a : Nat) (r : Option Nat) (i : Bool) (e : Int) (sc : List String)
    (h : (run rc rs (redeemProg cfg now q)).2 = .tokens a r i e sc) :
    ∃ sig rec, q.code.sig = some sig ∧ alookup rs.ss.store.codes sig = some rec ∧
      TokensOf rs.ss (run rc rs (redeemProg cfg now q)).1.ss rec.req.id a r :=
  run_HP_ok rc (redeemH cfg now q) rs _ _ (redeem_wp_tokens rc hnf cfg now q rs) h (by intro e; simp) a r i e sc rfl

end Fosite.Model

namespace Fosite.Model

theorem revokeRefreshS_res (s : Store) (rid : Nat) :
    (revokeRefreshS s rid).2 = .ok ∨ (revokeRefreshS s rid).2 = .notFound := by
  unfold revokeRefreshS
  (repeat' split) <;> simp

theorem exec_rotate_next (ss : SState) (rid : Nat) (k : Option Nat) : (ss.exec (.rotateRefresh rid k)).1.next = ss.next := by
  simp only [SState.exec]
  rcases revokeRefreshS ss.store rid with ⟨s1, r1⟩
  cases r1 <;> rfl

/-- a rotation that answers without error leaves no usable token of the grant -/
theorem exec_rotate_dead (ss : SState) (hinv : GInv ss) (rid : Nat) (k : Option Nat)
    (h : ((ss.exec (.rotateRefresh rid k)).2).errKind = none) :
    GrantDead (ss.exec (.rotateRefresh rid k)).1 rid := by
  have hna := revokeRefreshS_noActive ss.store rid hinv.idx
  have hres := revokeRefreshS_res ss.store rid
  simp only [SState.exec] at h ⊢
  rcases hq : revokeRefreshS ss.store rid with ⟨s1, r1⟩
  rw [hq] at h hna hres
  simp only at h hna hres
  rcases hres with hr | hr
  · subst hr
    simp only
    refine ⟨?_, ?_⟩
    · intro sig r hl; exact revokeAccessS_noAccess s1 rid sig r hl
    · intro sig rec hl hid
      have : (revokeAccessS s1 rid).1.refresh = s1.refresh := (revokeAccessS_effect s1 rid).1
      simp only at hl
      rw [this] at hl
      exact hna sig rec hl hid
  · subst hr
    simp [Res.errKind] at h

/-- **What a successful refresh leaves behind**: the new pair belongs to the presented token's
    grant, and it is the only usable pair of that grant — every access token the grant had before is
    gone and every other refresh token of the grant is inactive. -/
theorem refresh_tokens (rc : RunCfg) (hnf : NoFaults rc) (cfg : Config) (now : Time) (q : RefreshReq) (rs : RState)
    (hinv : GInv rs.ss)
    (a : Nat) (r : Option Nat) (i : Bool) (e : Int) (sc : List String)
    (h : (run rc rs (refreshProg cfg now q)).2 = .tokens a r i e sc) :
    ∃ sig rec, q.token.sig = some sig ∧ alookup rs.ss.store.refresh sig = some rec ∧ rec.active = true ∧
      TokensOf rs.ss (run rc rs (refreshProg cfg now q)).1.ss rec.req.id a r ∧
      (∀ a' x, alookup (run rc rs (refreshProg cfg now q)).1.ss.store.access a' = some x → x.id = rec.req.id → a' = a) ∧
      (∀ t rec', alookup (run rc rs (refreshProg cfg now q)).1.ss.store.refresh t = some rec' →
          rec'.req.id = rec.req.id → rec'.active = true → r = some t) := by
  obtain ⟨sig, rec, client, hsig, hrec, hact, _, _, _, _, _, _, _, _, _, _, _, hpost⟩ :=
    (refresh_success rc hnf cfg now q rs a r i e sc h).ex
  simp only at hpost
  obtain ⟨hrot, hatk, hrt, hss'⟩ := hpost
  refine ⟨sig, rec, hsig, hrec, hact, ?_⟩
  rw [hss']
  -- names for the intermediate states
  generalize hs1 : (rs.ss.exec .newId).1 = s1 at *
  have hinv1 : GInv s1 := by rw [← hs1]; exact exec_newId_GInv _ hinv
  have hn1 : s1.next = rs.ss.next + 1 := by rw [← hs1]; exact exec_newId_next _
  have hdead := exec_rotate_dead s1 hinv1 rec.req.id (some sig) hrot
  generalize hs2 : (s1.exec (.rotateRefresh rec.req.id (some sig))).1 = s2 at *
  have hn2 : s2.next = s1.next := by rw [← hs2]; exact exec_rotate_next _ _ _
  have hid : ((refreshStoreReq cfg now q client rec.req).sanitize []).id = rec.req.id := rfl
  generalize hsr : (refreshStoreReq cfg now q client rec.req).sanitize [] = sreq at *
  have ha : a = rs.ss.next + 1 := by rw [hatk, hn2, hn1]
  have hacc4 : ((s2.exec (.createAccess sreq)).1.exec (.createRefresh s2.next sreq)).1.store.access = aset s2.store.access s2.next sreq := by
    simp [SState.exec]
  have href4 : ((s2.exec (.createAccess sreq)).1.exec (.createRefresh s2.next sreq)).1.store.refresh
      = aset s2.store.refresh (s2.next + 1) { active := true, atSig := s2.next, req := sreq } := by
    simp [SState.exec]
  have hn4 : ((s2.exec (.createAccess sreq)).1.exec (.createRefresh s2.next sreq)).1.next = s2.next + 2 := by
    simp [SState.exec]
  have hn3 : (s2.exec (.createAccess sreq)).1.next = s2.next + 1 := by simp [SState.exec]
  have hr : r = some (s2.next + 1) := by rw [hrt, hn3]
  refine ⟨⟨by omega, by rw [hn4]; omega, ⟨sreq, ?_, hid⟩, ?_⟩, ?_, ?_⟩
  · rw [hacc4, hatk]; exact alookup_aset_self _ _ _
  · intro t ht
    rw [hr] at ht; cases ht
    refine ⟨by omega, by rw [hn4]; omega, ⟨{ active := true, atSig := s2.next, req := sreq }, ?_, hid⟩⟩
    rw [href4]; exact alookup_aset_self _ _ _
  · intro a' x hl hx
    rw [hacc4, alookup_aset] at hl
    by_cases hq : a' = s2.next
    · rw [hatk]; exact hq
    · simp only [hq, if_false] at hl
      exact absurd hx (hdead.1 a' x hl)
  · intro t rec' hl hx hact'
    rw [href4, alookup_aset] at hl
    by_cases hq : t = s2.next + 1
    · rw [hr, hq]
    · simp only [hq, if_false] at hl
      have := hdead.2 t rec' hl hx
      rw [hact'] at this; cases this

end Fosite.Model

/-
  C18 — every endpoint program keeps the transaction discipline, whatever the storage calls answer
  (`txK` quantifies over all results: every store content, every fault plan).
-/
import Fosite.Proofs.Tx
import Fosite.Proofs.DevicePar
namespace Fosite.Model

/-! ### what is demanded of the final automaton state and the response -/

/-- the response hands something out: tokens, an authorize response (code / access token / ID token),
    device and user codes, a request_uri -/
def Out.issues : Out → Bool
  | .tokens .. => true | .authz .. => true | .device .. => true | .par .. => true
  | _ => false

/-- the response contains an access, refresh or ID token -/
def Out.bearsToken : Out → Bool
  | .tokens .. => true
  | .authz _ atk idt => atk.isSome || idt
  | _ => false

def Out.isErr : Out → Bool
  | .err _ => true
  | _ => false

theorem Out.issues_of_bearsToken (o : Out) (h : o.bearsToken = true) : o.issues = true := by
  cases o <;> simp_all [Out.bearsToken, Out.issues]

/-- `txn`: the handler issues inside a transaction.
    (i)   no transaction is left open;
    (ii)  an issuing response ⇒ no call failed, and the transaction (if the handler uses one) was committed;
    (iii) a failure inside the open transaction ⇒ it was rolled back (or the rollback failed) and the answer is an error;
    (iv)  after a rollback attempt the answer is an error;
    (v)   rolled back ⇒ no mutating call succeeded outside the transaction;
    (vi)  a handler that does not use transactions never opens one;
    (vii) `strict` (every endpoint but revocation and introspection): the answer either hands something
          out or is an error. -/
def postB (txn strict : Bool) (t : TxSt) (issues isErr : Bool) : Bool :=
  (t.phase != .inTx) &&
  (!issues || (!t.failed && !t.dirty && t.phase == (if txn then Phase.committed else Phase.idle))) &&
  (!t.dirty || ((t.phase == .rolledBack || t.phase == .abandoned) && isErr)) &&
  (!(t.phase == .rolledBack || t.phase == .abandoned) || isErr) &&
  (!(t.phase == .rolledBack) || !t.wroteOutside) &&
  (txn || t.phase == .idle) &&
  (!strict || issues || isErr)

def Post (txn strict : Bool) (t : TxSt) (o : Out) : Prop := postB txn strict t o.issues o.isErr = true
def ErrF (txn : Bool) (t : TxSt) : Prop := postB txn true t false true = true

theorem Post_err (txn strict : Bool) (t : TxSt) (e : Err) : Post txn strict t (.err e) ↔ ErrF txn t := by
  unfold Post ErrF postB
  cases strict <;> simp [Out.issues, Out.isErr]

theorem Post_spec (txn strict : Bool) (t : TxSt) (o : Out) (h : Post txn strict t o) :
    t.phase ≠ .inTx ∧
    (o.issues = true → t.failed = false ∧ t.dirty = false ∧ t.phase = (if txn then Phase.committed else Phase.idle)) ∧
    (t.dirty = true → (t.phase = .rolledBack ∨ t.phase = .abandoned) ∧ o.isErr = true) ∧
    (t.phase = .rolledBack ∨ t.phase = .abandoned → o.isErr = true) ∧
    (t.phase = .rolledBack → t.wroteOutside = false) ∧
    (txn = false → t.phase = .idle) ∧
    (strict = true → o.issues = true ∨ o.isErr = true) := by
  unfold Post postB at h
  simp only [Bool.and_eq_true, Bool.or_eq_true, Bool.not_eq_true', bne_iff_ne, ne_eq, beq_iff_eq] at h
  obtain ⟨⟨⟨⟨⟨⟨h1, h2⟩, h3⟩, h4⟩, h5⟩, h6⟩, h7⟩ := h
  refine ⟨h1, ?_, ?_, ?_, ?_, ?_, ?_⟩
  · intro hi; rcases h2 with h2 | h2
    · rw [hi] at h2; cases h2
    · exact ⟨h2.1.1, h2.1.2, h2.2⟩
  · intro hd; rcases h3 with h3 | h3
    · rw [hd] at h3; cases h3
    · exact h3
  · intro hp; rcases h4 with h4 | h4
    · exact absurd hp (by rcases hp with hp | hp <;> simp [hp] at h4)
    · exact h4
  · intro hp; rcases h5 with h5 | h5
    · rw [hp] at h5; simp at h5
    · exact h5
  · intro ht; rcases h6 with h6 | h6
    · rw [ht] at h6; cases h6
    · exact h6
  · intro hs; rcases h7 with (h7 | h7) | h7
    · rw [hs] at h7; cases h7
    · exact Or.inl h7
    · exact Or.inr h7

theorem ErrF.of_settled {txn : Bool} {t : TxSt} (h : Settled txn t) : ErrF txn t := by
  obtain ⟨hp, hd⟩ := h
  unfold ErrF postB
  rcases hp with hp | ⟨ht, hp⟩
  · simp [hp, hd]
  · simp [hp, hd, ht]

theorem Post.of_done {t : TxSt} (h : Done t) (o : Out) (ho : o.isErr = false) (hi : o.issues = true) : Post true true t o := by
  obtain ⟨hp, hd, hf⟩ := h
  unfold Post postB
  simp [hp, hd, hf, ho, hi]

theorem Post.of_clean {t : TxSt} (h : Clean t) (o : Out) (ho : o.isErr = false) (hi : o.issues = true) : Post false true t o := by
  obtain ⟨hp, hd, hf⟩ := h
  unfold Post postB
  simp [hp, hd, hf, ho, hi]

/-- a non-issuing answer of a handler without transactions only needs the request to be settled -/
theorem Post.of_settled {t : TxSt} (h : Settled false t) (o : Out) (ho : o.issues = false) : Post false false t o := by
  obtain ⟨hp, hd⟩ := h
  unfold Post postB
  rcases hp with hp | ⟨ht, _⟩
  · simp [hp, hd, ho]
  · cases ht

/-! ### error-path programs -/

/-- programs that make no transaction call -/
def noTx {α} : Prog α → Prop
  | .ret _ => True
  | .call c k => c.isTx = false ∧ ∀ r, noTx (k r)

theorem txK_noTx {α} (txn : Bool) (p : Prog α) (t : TxSt) (h : noTx p) (hs : Settled txn t) :
    txK t p (fun t' _ => Settled txn t') := by
  induction p generalizing t with
  | ret a => exact hs
  | call c k ih =>
    intro r
    obtain ⟨t', h1, h2⟩ := anyStep_settled (M := Settled txn) txn c h.1 (fun _ h => h) t r.cls hs
    exact ⟨t', h1, ih r t' (h.2 r) h2⟩

theorem txK_noTx_F {txn : Bool} (p : Prog Err) (t : TxSt) (h : noTx p) (hs : Settled txn t) :
    txK t p (fun t' _ => ErrF txn t') :=
  txK_mono t p _ _ (fun _ _ h => ErrF.of_settled h) (txK_noTx txn p t h hs)

/-- the deferred rollback: from inside the transaction it ends rolled back or abandoned -/
theorem ErrF.after_rollback (t : TxSt) (h : InTxE t) (k : RCls) :
    ∃ t', txStepC t .rollbackTx k = some t' ∧ ErrF true t' := by
  obtain ⟨hp, hw⟩ := h
  cases k
  · exact ⟨{ t with phase := .rolledBack }, by simp [txStepC, hp], by simp [ErrF, postB, hw]⟩
  · exact ⟨{ t with phase := .abandoned, failed := true }, by simp [txStepC, hp], by simp [ErrF, postB]⟩
  · exact ⟨{ t with phase := .abandoned, failed := true }, by simp [txStepC, hp], by simp [ErrF, postB]⟩

theorem txK_rollbackThen (e : Err) (t : TxSt) (h : InTxE t) : txK t (rollbackThen e) (fun t' _ => ErrF true t') := by
  unfold rollbackThen
  show txK t (Prog.bind (call .rollbackTx) _) _
  rw [txK_bind, txK_call]
  intro r
  obtain ⟨t', h1, h2⟩ := ErrF.after_rollback t h r.cls
  refine ⟨t', h1, ?_⟩
  cases r.errKind <;> exact h2

theorem txK_refreshStorageError (e : Err) (t : TxSt) (h : InTxE t) :
    txK t (refreshStorageError e) (fun t' _ => ErrF true t') := by
  unfold refreshStorageError
  show txK t (Prog.bind (call .rollbackTx) _) _
  rw [txK_bind, txK_call]
  intro r
  obtain ⟨t', h1, h2⟩ := ErrF.after_rollback t h r.cls
  refine ⟨t', h1, ?_⟩
  cases r.errKind <;> exact h2

/-! ### shared sub-handlers -/

section sub
variable {M E F : TxSt → Prop} {t : TxSt}

theorem tx_optErr (o : Option Err) (hM : M t) (hF : F t) : txH t (optErr o) (fun t' _ => M t') (fun t' _ => F t') := by
  cases o with
  | none => exact hM
  | some e => exact hF

theorem tx_authenticate (id : String) (ok : Bool) (hM : M t)
    (hok : OkStep M (.getClient id) M) (herr : AnyStep M (.getClient id) E)
    (hEF : ∀ t, E t → F t) (hMF : ∀ t, M t → F t) :
    txH t (authenticate id ok) (fun t' _ => M t') (fun t' _ => F t') := by
  unfold authenticate
  refine txH_expectClient_bind _ _ hM hok herr hEF ?_
  intro x t' ht'
  refine txH_guard_bind _ _ _ (hMF t' ht') ?_
  intro _
  exact ht'

/-- `pkce.Handler.HandleTokenEndpointRequest`: one lookup; "no PKCE session" is an ordinary answer -/
theorem tx_pkceHandle (cfg : Config) (code : Presented) (v : String) (client : Client) (hM : M t)
    (hok : OkStep M (.getPKCE code.sig) M) (hnf : NfStep M (.getPKCE code.sig) M)
    (herr : AnyStep M (.getPKCE code.sig) E) (hEF : ∀ t, E t → F t) (hMF : ∀ t, M t → F t) :
    txH t (pkceHandle cfg code v client) (fun t' _ => M t') (fun t' _ => F t') := by
  unfold pkceHandle
  refine txH_callH_bind _ _ ?_
  intro r
  have hbad : ∀ e, r.errKind = some e → e ≠ .not_found → ∃ t', txStepC t (.getPKCE code.sig) r.cls = some t' ∧ F t' := by
    intro e _ _
    obtain ⟨t', h1, h2⟩ := herr t r.cls hM
    exact ⟨t', h1, hEF t' h2⟩
  have hodd : ∃ t', txStepC t (.getPKCE code.sig) r.cls = some t' ∧ F t' := by
    obtain ⟨t', h1, h2⟩ := herr t r.cls hM
    exact ⟨t', h1, hEF t' h2⟩
  have hnf' : r.errKind = some .not_found → ∃ t', txStepC t (.getPKCE code.sig) r.cls = some t' ∧ M t' := by
    intro h; rw [cls_of_errKind_nf r h]; exact hnf t hM
  cases r with
  | req pr =>
    obtain ⟨t', h1, h2⟩ := hok t hM
    refine ⟨t', h1, ?_⟩
    refine txH_seq _ _ (tx_optErr _ h2 (hMF t' h2)) ?_
    intro _ t2 h3
    exact tx_optErr _ h3 (hMF t2 h3)
  | notFound =>
    obtain ⟨t', h1, h2⟩ := hnf' rfl
    refine ⟨t', h1, ?_⟩
    simp only [Res.errKind]
    split
    · exact tx_optErr _ h2 (hMF t' h2)
    · exact hMF t' h2
  | fail e =>
    by_cases he : e = .not_found
    · subst he
      obtain ⟨t', h1, h2⟩ := hnf' rfl
      refine ⟨t', h1, ?_⟩
      simp only [Res.errKind]
      split
      · exact tx_optErr _ h2 (hMF t' h2)
      · exact hMF t' h2
    · obtain ⟨t', h1, h2⟩ := hbad e rfl he
      refine ⟨t', h1, ?_⟩
      simp only [Res.errKind]
      split
      · rename_i heq; cases heq; exact absurd rfl he
      · exact h2
  | inactive x => obtain ⟨t', h1, h2⟩ := hodd; exact ⟨t', h1, h2⟩
  | usedDev x => obtain ⟨t', h1, h2⟩ := hodd; exact ⟨t', h1, h2⟩
  | ok => obtain ⟨t', h1, h2⟩ := hodd; exact ⟨t', h1, h2⟩
  | client x => obtain ⟨t', h1, h2⟩ := hodd; exact ⟨t', h1, h2⟩
  | nat x => obtain ⟨t', h1, h2⟩ := hodd; exact ⟨t', h1, h2⟩
  | par x => obtain ⟨t', h1, h2⟩ := hodd; exact ⟨t', h1, h2⟩
  | dev x => obtain ⟨t', h1, h2⟩ := hodd; exact ⟨t', h1, h2⟩

/-- `pkce.Handler.PopulateTokenEndpointResponse`: one delete; not-found is tolerated -/
theorem tx_pkcePopulate (code : Presented) (hM : M t)
    (hok : OkStep M (.deletePKCE code.sig) M) (hnf : NfStep M (.deletePKCE code.sig) M)
    (herr : AnyStep M (.deletePKCE code.sig) E) (hEF : ∀ t, E t → F t) :
    txH t (pkcePopulate code) (fun t' _ => M t') (fun t' _ => F t') := by
  unfold pkcePopulate
  refine txH_callH_bind _ _ ?_
  intro r
  cases hk : r.errKind with
  | none =>
    rw [cls_of_errKind_none r hk]
    obtain ⟨t', h1, h2⟩ := hok t hM
    exact ⟨t', h1, h2⟩
  | some e =>
    by_cases he : e = .not_found
    · subst he
      rw [cls_of_errKind_nf r hk]
      obtain ⟨t', h1, h2⟩ := hnf t hM
      exact ⟨t', h1, h2⟩
    · obtain ⟨t', h1, h2⟩ := herr t r.cls hM
      refine ⟨t', h1, ?_⟩
      split
      · rename_i heq; cases heq
      · rename_i heq; cases heq; exact absurd rfl he
      · exact hEF t' h2

/-- the shape shared by the two `OpenIDConnect*Handler.PopulateTokenEndpointResponse`s: look the OIDC
    session up (absent ⇒ no ID token), check, delete it -/
theorem tx_oidcLookupDelete (key : Option Nat) (body : Req → HP Bool) (hM : M t)
    (hok : OkStep M (.getOIDC key) M) (hnf : NfStep M (.getOIDC key) M) (herr : AnyStep M (.getOIDC key) E)
    (hEF : ∀ t, E t → F t)
    (hbody : ∀ ar t', M t' → txH t' (body ar) (fun t' _ => M t') (fun t' _ => F t')) :
    txH t (callH (.getOIDC key) >>= fun r => match r with
      | .req ar => body ar
      | r => match r.errKind with
        | some .not_found => (pure false : HP Bool)
        | _ => HP.fail .server_error) (fun t' _ => M t') (fun t' _ => F t') := by
  refine txH_callH_bind _ _ ?_
  intro r
  have hodd : ∃ t', txStepC t (.getOIDC key) r.cls = some t' ∧ F t' := by
    obtain ⟨t', h1, h2⟩ := herr t r.cls hM
    exact ⟨t', h1, hEF t' h2⟩
  have hnf' : r.errKind = some .not_found → ∃ t', txStepC t (.getOIDC key) r.cls = some t' ∧ M t' := by
    intro h; rw [cls_of_errKind_nf r h]; exact hnf t hM
  cases r with
  | req ar => obtain ⟨t', h1, h2⟩ := hok t hM; exact ⟨t', h1, hbody ar t' h2⟩
  | notFound => obtain ⟨t', h1, h2⟩ := hnf' rfl; exact ⟨t', h1, h2⟩
  | fail e =>
    by_cases he : e = .not_found
    · subst he; obtain ⟨t', h1, h2⟩ := hnf' rfl; exact ⟨t', h1, h2⟩
    · obtain ⟨t', h1, h2⟩ := hodd
      refine ⟨t', h1, ?_⟩
      simp only [Res.errKind]
      split
      · rename_i heq; cases heq; exact absurd rfl he
      · exact h2
  | inactive x => obtain ⟨t', h1, h2⟩ := hodd; exact ⟨t', h1, h2⟩
  | usedDev x => obtain ⟨t', h1, h2⟩ := hodd; exact ⟨t', h1, h2⟩
  | ok => obtain ⟨t', h1, h2⟩ := hodd; exact ⟨t', h1, h2⟩
  | client x => obtain ⟨t', h1, h2⟩ := hodd; exact ⟨t', h1, h2⟩
  | nat x => obtain ⟨t', h1, h2⟩ := hodd; exact ⟨t', h1, h2⟩
  | par x => obtain ⟨t', h1, h2⟩ := hodd; exact ⟨t', h1, h2⟩
  | dev x => obtain ⟨t', h1, h2⟩ := hodd; exact ⟨t', h1, h2⟩

theorem tx_oidcExplicitPopulate (code : Presented) (client : Client) (hM : M t)
    (hok : ∀ k, OkStep M (.getOIDC k) M) (hnf : ∀ k, NfStep M (.getOIDC k) M) (herr : ∀ k, AnyStep M (.getOIDC k) E)
    (hdok : ∀ k, OkStep M (.deleteOIDC k) M) (hderr : ∀ k, AnyStep M (.deleteOIDC k) E)
    (hEF : ∀ t, E t → F t) (hMF : ∀ t, M t → F t) :
    txH t (oidcExplicitPopulate code client) (fun t' _ => M t') (fun t' _ => F t') := by
  unfold oidcExplicitPopulate
  refine tx_oidcLookupDelete _ _ hM (hok _) (hnf _) (herr _) hEF ?_
  intro ar t' ht'
  refine txH_guard_bind _ _ _ (hMF t' ht') (fun _ => ?_)
  refine txH_guard_bind _ _ _ (hMF t' ht') (fun _ => ?_)
  refine txH_guard_bind _ _ _ (hMF t' ht') (fun _ => ?_)
  refine txH_expectOk_bind _ _ ht' (hdok _) (hderr _).err (fun e t2 h2 => txK_retErr_M t2 _ (hEF t2 h2)) ?_
  intro t2 h2
  exact h2

theorem tx_oidcDevicePopulate (code : Presented) (client : Client) (hM : M t)
    (hok : ∀ k, OkStep M (.getOIDC k) M) (hnf : ∀ k, NfStep M (.getOIDC k) M) (herr : ∀ k, AnyStep M (.getOIDC k) E)
    (hdok : ∀ k, OkStep M (.deleteOIDC k) M) (hderr : ∀ k, AnyStep M (.deleteOIDC k) E)
    (hEF : ∀ t, E t → F t) (hMF : ∀ t, M t → F t) :
    txH t (oidcDevicePopulate code client) (fun t' _ => M t') (fun t' _ => F t') := by
  unfold oidcDevicePopulate
  refine txH_guard_bind _ _ _ (hMF t hM) (fun _ => ?_)
  refine tx_oidcLookupDelete _ _ hM (hok _) (hnf _) (herr _) hEF ?_
  intro ar t' ht'
  refine txH_guard_bind _ _ _ (hMF t' ht') (fun _ => ?_)
  refine txH_guard_bind _ _ _ (hMF t' ht') (fun _ => ?_)
  refine txH_expectOk_bind _ _ ht' (hdok _) (hderr _).err (fun e t2 h2 => txK_retErr_M t2 _ (hEF t2 h2)) ?_
  intro t2 h2
  exact h2

end sub

/-! ### `grant_type=authorization_code` -/

theorem rd_ok (c : Call) (hc : c.isTx = false) (hm : c.mutates = false) : OkStep (At T0) c (At T0) := okStep_read T0 c hc hm
theorem rd_any (txn : Bool) (c : Call) (hc : c.isTx = false) : AnyStep (At T0) c (Settled txn) :=
  anyStep_settled txn c hc (fun _ => Settled.of_T0 txn)
theorem in_ok (c : Call) (hc : c.isTx = false) : OkStep (At T1) c (At T1) := okStep_inTx c hc
theorem in_any (c : Call) (hc : c.isTx = false) : AnyStep (At T1) c InTxE := anyStep_inTx c hc (fun _ => InTxE.of_T1)
theorem dn_any (c : Call) (hc : c.isTx = false) : AnyStep Done c (Settled true) :=
  anyStep_settled true c hc (fun _ => Settled.of_done)

theorem noTx_redeemLookupFailed (r : Res) : noTx (redeemLookupFailed r) := by
  cases r <;> simp only [redeemLookupFailed, Res.errKind] <;> (try split) <;>
    first | trivial | exact ⟨rfl, fun _ => ⟨rfl, fun _ => trivial⟩⟩

theorem tx_redeemH (cfg : Config) (now : Time) (q : RedeemReq) :
    txH T0 (redeemH cfg now q) (fun t o => Post true true t o) (fun t _ => ErrF true t) := by
  have hMF : ∀ t, At T0 t → ErrF true t := fun t h => ErrF.of_settled (Settled.of_T0 true h)
  have hEF : ∀ t, Settled true t → ErrF true t := fun t h => ErrF.of_settled h
  unfold redeemH
  refine txH_callH_bind _ _ (fun r => ⟨T0, rfl, ?_⟩)
  refine txH_seq _ _ (tx_authenticate (M := At T0) (E := Settled true) _ _ rfl (rd_ok _ rfl rfl) (rd_any _ _ rfl) hEF hMF) ?_
  intro client t ht; cases ht
  refine txH_guard_bind _ _ _ (hMF _ rfl) (fun _ => ?_)
  refine txH_expectReq_bind (M := At T0) (M' := At T0) (E := Settled true) _ _ rfl (rd_ok _ rfl rfl) (rd_any _ _ rfl)
    (fun r t' h => txK_noTx_F _ t' (noTx_redeemLookupFailed r) h) ?_
  intro ar t ht; cases ht
  refine txH_guard_bind _ _ _ (hMF _ rfl) (fun _ => ?_)
  refine txH_guard_bind _ _ _ (hMF _ rfl) (fun _ => ?_)
  refine txH_guard_bind _ _ _ (hMF _ rfl) (fun _ => ?_)
  refine txH_seq _ _ (tx_pkceHandle (M := At T0) (E := Settled true) _ _ _ _ rfl (rd_ok _ rfl rfl)
    (nfStep_tolerated T0 _ rfl rfl (by decide)) (rd_any _ _ rfl) hEF hMF) ?_
  intro _ t ht; cases ht
  refine txH_expectReq_bind (M := At T0) (M' := At T0) (E := Settled true) _ _ rfl (rd_ok _ rfl rfl) (rd_any _ _ rfl)
    (fun r t' h => txK_retErr_M t' _ (hEF t' h)) ?_
  intro ar2 t ht; cases ht
  refine txH_guard_bind _ _ _ (hMF _ rfl) (fun _ => ?_)
  -- the issuing transaction
  refine txH_expectOk_bind (M := At T0) (M' := At T1) (E := Settled true) _ _ rfl okStep_begin (errStep_begin true)
    (fun e t' h => txK_retErr_M t' _ (hEF t' h)) ?_
  intro t ht; cases ht
  refine txH_expectOk_bind (M := At T1) (M' := At T1) (E := InTxE) _ _ rfl (in_ok _ rfl) (in_any _ rfl).err
    (fun e t' h => txK_rollbackThen _ t' h) ?_
  intro t ht; cases ht
  refine txH_expectNat_bind (M := At T1) (M' := At T1) (E := InTxE) _ _ rfl (in_ok _ rfl) (in_any _ rfl)
    (fun e t' h => txK_rollbackThen _ t' h) ?_
  intro atk t ht; cases ht
  extract_lets jp
  have hjp : ∀ rt, txH T1 (jp rt) (fun t o => Post true true t o) (fun t _ => ErrF true t) := by
    intro rt
    refine txH_expectOk_bind (M := At T1) (M' := Done) (E := InTxE) _ _ rfl okStep_commit errStep_commit
      (fun e t' h => txK_rollbackThen _ t' h) ?_
    intro t ht
    -- after the commit
    refine txH_seq _ _ (tx_oidcExplicitPopulate (M := Done) (E := Settled true) _ _ ht
      (fun _ => okStep_done _ rfl) (fun _ => nfStep_done _ rfl rfl) (fun _ => dn_any _ rfl)
      (fun _ => okStep_done _ rfl) (fun _ => dn_any _ rfl) hEF (fun t h => ErrF.of_settled (Settled.of_done h))) ?_
    intro idt t ht
    refine txH_seq _ _ (tx_pkcePopulate (M := Done) (E := Settled true) _ ht (okStep_done _ rfl) (nfStep_done _ rfl rfl)
      (dn_any _ rfl) hEF) ?_
    intro _ t ht
    exact Post.of_done ht _ rfl rfl
  rw [txH_ite]
  constructor
  · intro _
    refine txH_seq (M' := At T1) _ _ ?_ (fun rt t ht => by cases ht; exact hjp rt)
    refine txH_expectNat_bind (M := At T1) (M' := At T1) (E := InTxE) _ _ rfl (in_ok _ rfl) (in_any _ rfl)
      (fun e t' h => txK_rollbackThen _ t' h) ?_
    intro n t ht
    exact ht
  · intro _
    rw [txH_bind]
    exact hjp none

/-- **authorization_code exchange**: discipline, no tokens after any failure, rollback on every failure
    inside the transaction, nothing written before the transaction. -/
theorem tx_redeemProg (cfg : Config) (now : Time) (q : RedeemReq) : txK T0 (redeemProg cfg now q) (Post true true) := by
  unfold redeemProg
  rw [txK_run]
  exact tx_redeemH cfg now q

/-! ### `grant_type=refresh_token` -/

theorem txK_call_bind {β} {t : TxSt} (c : Call) (f : Res → Prog β) (K : TxSt → β → Prop)
    (h : ∀ r, ∃ t', txStepC t c r.cls = some t' ∧ txK t' (f r) K) : txK t (call c >>= f) K := h

theorem Settled.of_idleRO {t} (txn) (h : IdleRO t) : Settled txn t := ⟨Or.inl h.1, h.2.1⟩

theorem open_any (c : Call) (hc : c.isTx = false) : AnyStep OpenClean c InTxE := anyStep_inTx c hc (fun _ => InTxE.of_open)

/-- `handleRefreshTokenReuse`: its own transaction, committed unless a call fails; always an error answer -/
theorem txK_refreshReuse (sig : Option Nat) (rid : Nat) (t : TxSt) (h : IdleRO t) :
    txK t (refreshReuse sig rid) (fun t' _ => ErrF true t') := by
  unfold refreshReuse
  refine txK_call_bind _ _ _ ?_
  intro r
  cases hk : r.errKind with
  | some e =>
    obtain ⟨t1, h1, h2⟩ := errStep_begin_ro true t r.cls (cls_of_errKind_some r e hk) h
    exact ⟨t1, h1, ErrF.of_settled h2⟩
  | none =>
  rw [cls_of_errKind_none r hk]
  obtain ⟨t1, h1, h2⟩ := okStep_begin_ro t h
  refine ⟨t1, h1, ?_⟩
  refine txK_call_bind _ _ _ ?_
  intro r
  cases hk : r.errKind with
  | some e =>
    obtain ⟨t2, h3, h4⟩ := open_any (.deleteRefresh sig) rfl t1 r.cls h2
    exact ⟨t2, h3, txK_refreshStorageError e t2 h4⟩
  | none =>
  rw [cls_of_errKind_none r hk]
  obtain ⟨t2, h3, h4⟩ := okStep_open (.deleteRefresh sig) rfl t1 h2
  refine ⟨t2, h3, ?_⟩
  refine txK_call_bind _ _ _ ?_
  intro r
  -- revokeRefresh: not-found tolerated
  have step3 : ∀ (c : Call), c.isTx = false → c.nfTxOk = true → ∀ (t2 : TxSt), OpenClean t2 → ∀ (r : Res) (A : Prog Err) (B : Prog Err),
      (∀ t3, OpenClean t3 → txK t3 B (fun t' _ => ErrF true t')) →
      (∀ t3, InTxE t3 → txK t3 A (fun t' _ => ErrF true t')) →
      ∃ t3, txStepC t2 c r.cls = some t3 ∧
        txK t3 (if (r.errKind.isSome && r.errKind != some Err.not_found) = true then A else B) (fun t' _ => ErrF true t') := by
    intro c hc hn t2 h4 r A B hB hA
    cases hk : r.errKind with
    | none =>
      rw [cls_of_errKind_none r hk]
      obtain ⟨t3, h5, h6⟩ := okStep_open c hc t2 h4
      exact ⟨t3, h5, by simpa using hB t3 h6⟩
    | some e =>
      by_cases he : e = .not_found
      · subst he
        rw [cls_of_errKind_nf r hk]
        obtain ⟨t3, h5, h6⟩ := nfStep_open c hc hn t2 h4
        exact ⟨t3, h5, by simpa using hB t3 h6⟩
      · obtain ⟨t3, h5, h6⟩ := open_any c hc t2 r.cls h4
        refine ⟨t3, h5, ?_⟩
        have : (Option.isSome (some e) && (some e != some Err.not_found)) = true := by simp [he]
        rw [if_pos this]
        exact hA t3 h6
  refine step3 (.revokeRefresh rid) rfl rfl t2 h4 r _ _ ?_ (fun t3 h => txK_refreshStorageError _ t3 h)
  intro t3 h6
  refine txK_call_bind _ _ _ ?_
  intro r
  refine step3 (.revokeAccess rid) rfl rfl t3 h6 r _ _ ?_ (fun t4 h => txK_refreshStorageError _ t4 h)
  intro t4 h8
  refine txK_call_bind _ _ _ ?_
  intro r
  cases hk : r.errKind with
  | some e =>
    obtain ⟨t5, h9, h10⟩ := errStep_commit_open t4 r.cls (cls_of_errKind_some r e hk) h8
    exact ⟨t5, h9, txK_refreshStorageError e t5 h10⟩
  | none =>
    rw [cls_of_errKind_none r hk]
    obtain ⟨t5, h9, h10⟩ := okStep_commit_open t4 h8
    exact ⟨t5, h9, ErrF.of_settled h10⟩

theorem txK_refreshLookupFailed (sig : Option Nat) (r : Res) (t : TxSt) (h : IdleRO t) :
    txK t (refreshLookupFailed sig r) (fun t' _ => ErrF true t') := by
  have hF : ErrF true t := ErrF.of_settled (Settled.of_idleRO true h)
  cases r <;> simp only [refreshLookupFailed, Res.errKind] <;> (try split) <;>
    first | exact hF | exact txK_refreshReuse sig _ t h

theorem tx_refreshH (cfg : Config) (now : Time) (q : RefreshReq) :
    txH T0 (refreshH cfg now q) (fun t o => Post true true t o) (fun t _ => ErrF true t) := by
  have hMF : ∀ t, At T0 t → ErrF true t := fun t h => ErrF.of_settled (Settled.of_T0 true h)
  have hEF : ∀ t, Settled true t → ErrF true t := fun t h => ErrF.of_settled h
  unfold refreshH
  refine txH_callH_bind _ _ (fun r => ⟨T0, rfl, ?_⟩)
  refine txH_seq _ _ (tx_authenticate (M := At T0) (E := Settled true) _ _ rfl (rd_ok _ rfl rfl) (rd_any _ _ rfl) hEF hMF) ?_
  intro client t ht; cases ht
  refine txH_guard_bind _ _ _ (hMF _ rfl) (fun _ => ?_)
  refine txH_expectReq_bind (M := At T0) (M' := At T0) (E := IdleRO) _ _ rfl (rd_ok _ rfl rfl) (anyStep_idleRO _ rfl rfl)
    (fun r t' h => txK_refreshLookupFailed _ r t' h) ?_
  intro orig t ht; cases ht
  refine txH_guard_bind _ _ _ (hMF _ rfl) (fun _ => ?_)
  refine txH_guard_bind _ _ _ (hMF _ rfl) (fun _ => ?_)
  refine txH_guard_bind _ _ _ (hMF _ rfl) (fun _ => ?_)
  refine txH_guard_bind _ _ _ (hMF _ rfl) (fun _ => ?_)
  refine txH_guard_bind _ _ _ (hMF _ rfl) (fun _ => ?_)
  refine txH_seq (M' := At T0) _ _ (tx_optErr _ rfl (hMF _ rfl)) ?_
  intro _ t ht; cases ht
  -- the issuing transaction
  refine txH_expectOk_bind (M := At T0) (M' := At T1) (E := Settled true) _ _ rfl okStep_begin (errStep_begin true)
    (fun e t' h => txK_retErr_M t' _ (hEF t' h)) ?_
  intro t ht; cases ht
  refine txH_expectOk_bind (M := At T1) (M' := At T1) (E := InTxE) _ _ rfl (in_ok _ rfl) (in_any _ rfl).err
    (fun e t' h => txK_refreshStorageError _ t' h) ?_
  intro t ht; cases ht
  refine txH_expectNat_bind (M := At T1) (M' := At T1) (E := InTxE) _ _ rfl (in_ok _ rfl) (in_any _ rfl)
    (fun e t' h => txK_refreshStorageError _ t' h) ?_
  intro atk t ht; cases ht
  refine txH_expectNat_bind (M := At T1) (M' := At T1) (E := InTxE) _ _ rfl (in_ok _ rfl) (in_any _ rfl)
    (fun e t' h => txK_refreshStorageError _ t' h) ?_
  intro rt t ht; cases ht
  refine txH_expectOk_bind (M := At T1) (M' := Done) (E := InTxE) _ _ rfl okStep_commit errStep_commit
    (fun e t' h => txK_refreshStorageError _ t' h) ?_
  intro t ht
  refine txH_guard_bind _ _ _ (ErrF.of_settled (Settled.of_done ht)) (fun _ => ?_)
  exact Post.of_done ht _ rfl rfl

/-- **refresh_token exchange** (including the reuse path, which commits its revocations and answers
    `invalid_grant`). -/
theorem tx_refreshProg (cfg : Config) (now : Time) (q : RefreshReq) : txK T0 (refreshProg cfg now q) (Post true true) := by
  unfold refreshProg
  rw [txK_run]
  exact tx_refreshH cfg now q

/-! ### `grant_type=urn:ietf:params:oauth:grant-type:device_code` -/

theorem noTx_deviceLookupFailed (rid : Nat) (r : Res) : noTx (deviceLookupFailed rid r) := by
  cases r <;> simp only [deviceLookupFailed, Res.errKind] <;> (try split) <;>
    first | trivial | exact ⟨rfl, fun _ => ⟨rfl, fun _ => trivial⟩⟩

theorem tx_deviceStateGate {M F : TxSt → Prop} {t : TxSt} (d : DevRec) (hM : M t) (hF : F t) :
    txH t (deviceStateGate d) (fun t' _ => M t') (fun t' _ => F t') := by
  unfold deviceStateGate
  split
  · exact hF
  · split
    · exact hF
    · exact hM

theorem tx_devicePollH (cfg : Config) (now : Time) (q : DevicePollReq) :
    txH T0 (devicePollH cfg now q) (fun t o => Post true true t o) (fun t _ => ErrF true t) := by
  have hMF : ∀ t, At T0 t → ErrF true t := fun t h => ErrF.of_settled (Settled.of_T0 true h)
  have hEF : ∀ t, Settled true t → ErrF true t := fun t h => ErrF.of_settled h
  unfold devicePollH
  refine txH_callH_bind _ _ (fun r => ⟨T0, rfl, ?_⟩)
  refine txH_seq _ _ (tx_authenticate (M := At T0) (E := Settled true) _ _ rfl (rd_ok _ rfl rfl) (rd_any _ _ rfl) hEF hMF) ?_
  intro client t ht; cases ht
  refine txH_guard_bind _ _ _ (hMF _ rfl) (fun _ => ?_)
  refine txH_expectDev_bind (M := At T0) (M' := At T0) (E := Settled true) _ _ rfl (rd_ok _ rfl rfl) (rd_any _ _ rfl)
    (fun r t' h => txK_noTx_F _ t' (noTx_deviceLookupFailed _ r) h) ?_
  intro d t ht; cases ht
  refine txH_seq (M' := At T0) _ _ (tx_deviceStateGate d rfl (hMF _ rfl)) ?_
  intro _ t ht; cases ht
  refine txH_guard_bind _ _ _ (hMF _ rfl) (fun _ => ?_)
  refine txH_guard_bind _ _ _ (hMF _ rfl) (fun _ => ?_)
  refine txH_guard_bind _ _ _ (hMF _ rfl) (fun _ => ?_)
  refine txH_expectDev_bind (M := At T0) (M' := At T0) (E := Settled true) _ _ rfl (rd_ok _ rfl rfl) (rd_any _ _ rfl)
    (fun r t' h => txK_retErr_M t' _ (hEF t' h)) ?_
  intro d2 t ht; cases ht
  refine txH_guard_bind _ _ _ (hMF _ rfl) (fun _ => ?_)
  refine txH_guard_bind _ _ _ (hMF _ rfl) (fun _ => ?_)
  -- the issuing transaction
  refine txH_expectOk_bind (M := At T0) (M' := At T1) (E := Settled true) _ _ rfl okStep_begin (errStep_begin true)
    (fun e t' h => txK_retErr_M t' _ (hEF t' h)) ?_
  intro t ht; cases ht
  refine txH_expectOk_bind (M := At T1) (M' := At T1) (E := InTxE) _ _ rfl (in_ok _ rfl) (in_any _ rfl).err
    (fun e t' h => txK_rollbackThen _ t' h) ?_
  intro t ht; cases ht
  refine txH_expectNat_bind (M := At T1) (M' := At T1) (E := InTxE) _ _ rfl (in_ok _ rfl) (in_any _ rfl)
    (fun e t' h => txK_rollbackThen _ t' h) ?_
  intro atk t ht; cases ht
  extract_lets jp
  have hjp : ∀ rt, txH T1 (jp rt) (fun t o => Post true true t o) (fun t _ => ErrF true t) := by
    intro rt
    refine txH_expectOk_bind (M := At T1) (M' := Done) (E := InTxE) _ _ rfl okStep_commit errStep_commit
      (fun e t' h => txK_rollbackThen _ t' h) ?_
    intro t ht
    refine txH_seq _ _ (tx_oidcDevicePopulate (M := Done) (E := Settled true) _ _ ht
      (fun _ => okStep_done _ rfl) (fun _ => nfStep_done _ rfl rfl) (fun _ => dn_any _ rfl)
      (fun _ => okStep_done _ rfl) (fun _ => dn_any _ rfl) hEF (fun t h => ErrF.of_settled (Settled.of_done h))) ?_
    intro idt t ht
    exact Post.of_done ht _ rfl rfl
  rw [txH_ite]
  constructor
  · intro _
    refine txH_seq (M' := At T1) _ _ ?_ (fun rt t ht => by cases ht; exact hjp rt)
    refine txH_expectNat_bind (M := At T1) (M' := At T1) (E := InTxE) _ _ rfl (in_ok _ rfl) (in_any _ rfl)
      (fun e t' h => txK_rollbackThen _ t' h) ?_
    intro n t ht
    exact ht
  · intro _
    rw [txH_bind]
    exact hjp none

/-- **device_code exchange** -/
theorem tx_devicePollProg (cfg : Config) (now : Time) (q : DevicePollReq) : txK T0 (devicePollProg cfg now q) (Post true true) := by
  unfold devicePollProg
  rw [txK_run]
  exact tx_devicePollH cfg now q

/-! ### handlers that use no transaction: every write is immediately effective -/

theorem cl_ok (c : Call) (hc : c.isTx = false) : OkStep Clean c Clean := okStep_clean c hc
theorem cl_any (c : Call) (hc : c.isTx = false) : AnyStep Clean c (Settled false) :=
  anyStep_settled false c hc (fun _ => Settled.of_clean false)

theorem tx_clientCredentialsH (cfg : Config) (now : Time) (q : DirectReq) {t : TxSt} (ht : Clean t) :
    txH t (clientCredentialsH cfg now q) (fun t o => Post false true t o) (fun t _ => ErrF false t) := by
  have hMF : ∀ t, Clean t → ErrF false t := fun t h => ErrF.of_settled (Settled.of_clean false h)
  have hEF : ∀ t, Settled false t → ErrF false t := fun t h => ErrF.of_settled h
  unfold clientCredentialsH
  refine txH_expectNat_bind (M := Clean) (M' := Clean) (E := Settled false) _ _ ht (cl_ok _ rfl) (cl_any _ rfl)
    (fun r t' h => txK_retErr_M t' _ (hEF t' h)) ?_
  intro rid t ht
  refine txH_seq _ _ (tx_authenticate (M := Clean) (E := Settled false) _ _ ht (cl_ok _ rfl) (cl_any _ rfl) hEF hMF) ?_
  intro client t ht
  refine txH_guard_bind _ _ _ (hMF _ ht) (fun _ => ?_)
  refine txH_seq (M' := Clean) _ _ (tx_optErr _ ht (hMF _ ht)) ?_
  intro _ t ht
  refine txH_guard_bind _ _ _ (hMF _ ht) (fun _ => ?_)
  refine txH_guard_bind _ _ _ (hMF _ ht) (fun _ => ?_)
  refine txH_expectNat_bind (M := Clean) (M' := Clean) (E := Settled false) _ _ ht (cl_ok _ rfl) (cl_any _ rfl)
    (fun r t' h => txK_retErr_M t' _ (hEF t' h)) ?_
  intro atk t ht
  exact Post.of_clean ht _ rfl rfl

theorem tx_clientCredentialsProg (cfg : Config) (now : Time) (q : DirectReq) :
    txK T0 (clientCredentialsProg cfg now q) (Post false true) := by
  unfold clientCredentialsProg
  rw [txK_run]
  exact tx_clientCredentialsH cfg now q (Clean.of_T0 rfl)

theorem tx_passwordH (cfg : Config) (now : Time) (q : DirectReq) {t : TxSt} (ht : Clean t) :
    txH t (passwordH cfg now q) (fun t o => Post false true t o) (fun t _ => ErrF false t) := by
  have hMF : ∀ t, Clean t → ErrF false t := fun t h => ErrF.of_settled (Settled.of_clean false h)
  have hEF : ∀ t, Settled false t → ErrF false t := fun t h => ErrF.of_settled h
  unfold passwordH
  refine txH_expectNat_bind (M := Clean) (M' := Clean) (E := Settled false) _ _ ht (cl_ok _ rfl) (cl_any _ rfl)
    (fun r t' h => txK_retErr_M t' _ (hEF t' h)) ?_
  intro rid t ht
  refine txH_seq _ _ (tx_authenticate (M := Clean) (E := Settled false) _ _ ht (cl_ok _ rfl) (cl_any _ rfl) hEF hMF) ?_
  intro client t ht
  refine txH_guard_bind _ _ _ (hMF _ ht) (fun _ => ?_)
  refine txH_guard_bind _ _ _ (hMF _ ht) (fun _ => ?_)
  refine txH_seq (M' := Clean) _ _ (tx_optErr _ ht (hMF _ ht)) ?_
  intro _ t ht
  refine txH_guard_bind _ _ _ (hMF _ ht) (fun _ => ?_)
  refine txH_callH_bind _ _ ?_
  intro r
  have hodd : ∃ t', txStepC t (.authenticateUser q.username q.userOk) r.cls = some t' ∧ ErrF false t' := by
    obtain ⟨t', h1, h2⟩ := cl_any (.authenticateUser q.username q.userOk) rfl t r.cls ht
    exact ⟨t', h1, hEF t' h2⟩
  cases r with
  | ok =>
    obtain ⟨t', h1, h2⟩ := cl_ok (.authenticateUser q.username q.userOk) rfl t ht
    refine ⟨t', h1, ?_⟩
    refine txH_expectNat_bind (M := Clean) (M' := Clean) (E := Settled false) _ _ h2 (cl_ok _ rfl) (cl_any _ rfl)
      (fun r t' h => txK_retErr_M t' _ (hEF t' h)) ?_
    intro atk t ht
    rw [txH_ite]
    constructor
    · intro _
      refine txH_expectNat_bind (M := Clean) (M' := Clean) (E := Settled false) _ _ ht (cl_ok _ rfl) (cl_any _ rfl)
        (fun r t' h => txK_retErr_M t' _ (hEF t' h)) ?_
      intro rt t ht
      exact Post.of_clean ht _ rfl rfl
    · intro _
      exact Post.of_clean ht _ rfl rfl
  | fail e =>
    obtain ⟨t', h1, h2⟩ := hodd
    refine ⟨t', h1, ?_⟩
    simp only [Res.errKind]
    split <;> exact h2
  | notFound => obtain ⟨t', h1, h2⟩ := hodd; exact ⟨t', h1, h2⟩
  | inactive x => obtain ⟨t', h1, h2⟩ := hodd; exact ⟨t', h1, h2⟩
  | usedDev x => obtain ⟨t', h1, h2⟩ := hodd; exact ⟨t', h1, h2⟩
  | req x => obtain ⟨t', h1, h2⟩ := hodd; exact ⟨t', h1, h2⟩
  | client x => obtain ⟨t', h1, h2⟩ := hodd; exact ⟨t', h1, h2⟩
  | nat x => obtain ⟨t', h1, h2⟩ := hodd; exact ⟨t', h1, h2⟩
  | par x => obtain ⟨t', h1, h2⟩ := hodd; exact ⟨t', h1, h2⟩
  | dev x => obtain ⟨t', h1, h2⟩ := hodd; exact ⟨t', h1, h2⟩

theorem tx_passwordProg (cfg : Config) (now : Time) (q : DirectReq) : txK T0 (passwordProg cfg now q) (Post false true) := by
  unfold passwordProg
  rw [txK_run]
  exact tx_passwordH cfg now q (Clean.of_T0 rfl)

theorem tx_deviceAuthH (cfg : Config) (now : Time) (q : DeviceAuthReq) {t : TxSt} (ht : Clean t) :
    txH t (deviceAuthH cfg now q) (fun t o => Post false true t o) (fun t _ => ErrF false t) := by
  have hMF : ∀ t, Clean t → ErrF false t := fun t h => ErrF.of_settled (Settled.of_clean false h)
  have hEF : ∀ t, Settled false t → ErrF false t := fun t h => ErrF.of_settled h
  unfold deviceAuthH
  refine txH_seq _ _ (tx_authenticate (M := Clean) (E := Settled false) _ _ ht (cl_ok _ rfl) (cl_any _ rfl) hEF hMF) ?_
  intro client t ht
  refine txH_guard_bind _ _ _ (hMF _ ht) (fun _ => ?_)
  refine txH_guard_bind _ _ _ (hMF _ ht) (fun _ => ?_)
  refine txH_guard_bind _ _ _ (hMF _ ht) (fun _ => ?_)
  refine txH_seq (M' := Clean) _ _ (tx_optErr _ ht (hMF _ ht)) ?_
  intro _ t ht
  refine txH_expectNat_bind (M := Clean) (M' := Clean) (E := Settled false) _ _ ht (cl_ok _ rfl) (cl_any _ rfl)
    (fun r t' h => txK_retErr_M t' _ (hEF t' h)) ?_
  intro rid t ht
  refine txH_expectNat_bind (M := Clean) (M' := Clean) (E := Settled false) _ _ ht (cl_ok _ rfl) (cl_any _ rfl)
    (fun r t' h => txK_retErr_M t' _ (hEF t' h)) ?_
  intro d t ht
  exact Post.of_clean ht _ rfl rfl

theorem tx_deviceAuthProg (cfg : Config) (now : Time) (q : DeviceAuthReq) : txK T0 (deviceAuthProg cfg now q) (Post false true) := by
  unfold deviceAuthProg
  rw [txK_run]
  exact tx_deviceAuthH cfg now q (Clean.of_T0 rfl)

theorem tx_parPushH (cfg : Config) (now : Time) (p : ParPushReq) {t : TxSt} (ht : Clean t) :
    txH t (parPushH cfg now p) (fun t o => Post false true t o) (fun t _ => ErrF false t) := by
  have hMF : ∀ t, Clean t → ErrF false t := fun t h => ErrF.of_settled (Settled.of_clean false h)
  have hEF : ∀ t, Settled false t → ErrF false t := fun t h => ErrF.of_settled h
  unfold parPushH
  refine txH_seq _ _ (tx_authenticate (M := Clean) (E := Settled false) _ _ ht (cl_ok _ rfl) (cl_any _ rfl) hEF hMF) ?_
  intro _ t ht
  refine txH_guard_bind _ _ _ (hMF _ ht) (fun _ => ?_)
  refine txH_expectClient_bind (M := Clean) (M' := Clean) (E := Settled false) _ _ ht (cl_ok _ rfl) (cl_any _ rfl) hEF ?_
  intro client t ht
  refine txH_guard_bind _ _ _ (hMF _ ht) (fun _ => ?_)
  refine txH_seq (M' := Clean) _ _ (tx_optErr _ ht (hMF _ ht)) ?_
  intro _ t ht
  refine txH_guard_bind _ _ _ (hMF _ ht) (fun _ => ?_)
  rw [txH_ite]
  constructor
  · intro _; exact Post.of_clean ht _ rfl rfl
  · intro _
    refine txH_guard_bind _ _ _ (hMF _ ht) (fun _ => ?_)
    refine txH_guard_bind _ _ _ (hMF _ ht) (fun _ => ?_)
    refine txH_seq (M' := Clean) _ _ (tx_optErr _ ht (hMF _ ht)) ?_
    intro _ t ht
    refine txH_expectNat_bind (M := Clean) (M' := Clean) (E := Settled false) _ _ ht (cl_ok _ rfl) (cl_any _ rfl)
      (fun r t' h => txK_retErr_M t' _ (hEF t' h)) ?_
    intro rid t ht
    refine txH_expectNat_bind (M := Clean) (M' := Clean) (E := Settled false) _ _ ht (cl_ok _ rfl) (cl_any _ rfl)
      (fun r t' h => txK_retErr_M t' _ (hEF t' h)) ?_
    intro uri t ht
    exact Post.of_clean ht _ rfl rfl

theorem tx_parPushProg (cfg : Config) (now : Time) (p : ParPushReq) : txK T0 (parPushProg cfg now p) (Post false true) := by
  unfold parPushProg
  rw [txK_run]
  exact tx_parPushH cfg now p (Clean.of_T0 rfl)

/-! ### the authorization endpoint (implicit and hybrid flows hand out access tokens here) -/

section authz
variable {t : TxSt}

private theorem hMFc : ∀ t, Clean t → ErrF false t := fun _ h => ErrF.of_settled (Settled.of_clean false h)
private theorem hEFc : ∀ t, Settled false t → ErrF false t := fun _ h => ErrF.of_settled h

theorem tx_authzExplicit (cfg now client q acc) (ht : Clean t) :
    txH t (authzExplicit cfg now client q acc) (fun t' _ => Clean t') (fun t' _ => ErrF false t') := by
  unfold authzExplicit
  rw [txH_ite]
  constructor
  · intro _; exact ht
  · intro _
    refine txH_guard_bind _ _ _ (hMFc _ ht) (fun _ => ?_)
    refine txH_guard_bind _ _ _ (hMFc _ ht) (fun _ => ?_)
    refine txH_seq (M' := Clean) _ _ (tx_optErr _ ht (hMFc _ ht)) ?_
    intro _ t ht
    refine txH_expectNat_bind (M := Clean) (M' := Clean) (E := Settled false) _ _ ht (cl_ok _ rfl) (cl_any _ rfl)
      (fun r t' h => txK_retErr_M t' _ (hEFc t' h)) ?_
    intro c t ht
    exact ht

theorem tx_authzImplicit (cfg now client q acc) (ht : Clean t) :
    txH t (authzImplicit cfg now client q acc) (fun t' _ => Clean t') (fun t' _ => ErrF false t') := by
  unfold authzImplicit
  rw [txH_ite]
  constructor
  · intro _; exact ht
  · intro _
    refine txH_guard_bind _ _ _ (hMFc _ ht) (fun _ => ?_)
    refine txH_guard_bind _ _ _ (hMFc _ ht) (fun _ => ?_)
    refine txH_seq (M' := Clean) _ _ (tx_optErr _ ht (hMFc _ ht)) ?_
    intro _ t ht
    refine txH_expectNat_bind (M := Clean) (M' := Clean) (E := Settled false) _ _ ht (cl_ok _ rfl) (cl_any _ rfl)
      (fun r t' h => txK_retErr_M t' _ (hEFc t' h)) ?_
    intro c t ht
    exact ht

theorem tx_authzOIDCExplicit (q acc) (ht : Clean t) :
    txH t (authzOIDCExplicit q acc) (fun t' _ => Clean t') (fun t' _ => ErrF false t') := by
  unfold authzOIDCExplicit
  rw [txH_ite]
  constructor
  · intro _; exact ht
  · intro _
    split
    · exact hMFc _ ht
    · refine txH_guard_bind _ _ _ (hMFc _ ht) (fun _ => ?_)
      refine txH_guard_bind _ _ _ (hMFc _ ht) (fun _ => ?_)
      refine txH_expectOk_bind (M := Clean) (M' := Clean) (E := Settled false) _ _ ht (cl_ok _ rfl) (cl_any _ rfl).err
        (fun r t' h => txK_retErr_M t' _ (hEFc t' h)) ?_
      intro t ht
      exact ht

theorem tx_authzPKCE (cfg client q acc) (ht : Clean t) :
    txH t (authzPKCE cfg client q acc) (fun t' _ => Clean t') (fun t' _ => ErrF false t') := by
  unfold authzPKCE
  rw [txH_ite]
  constructor
  · intro _; exact ht
  · intro _
    refine txH_seq (M' := Clean) _ _ (tx_optErr _ ht (hMFc _ ht)) ?_
    intro _ t ht
    rw [txH_ite]
    constructor
    · intro _; exact ht
    · intro _
      split
      · exact hMFc _ ht
      · refine txH_expectOk_bind (M := Clean) (M' := Clean) (E := Settled false) _ _ ht (cl_ok _ rfl) (cl_any _ rfl).err
          (fun r t' h => txK_retErr_M t' _ (hEFc t' h)) ?_
        intro t ht
        exact ht

theorem tx_authzHybrid (cfg now minNonce client q acc) (ht : Clean t) :
    txH t (authzHybrid cfg now minNonce client q acc) (fun t' _ => Clean t') (fun t' _ => ErrF false t') := by
  unfold authzHybrid
  extract_lets rt
  rw [txH_ite]
  constructor
  · intro _; exact ht
  · intro _
    refine txH_guard_bind _ _ _ (hMFc _ ht) (fun _ => ?_)
    refine txH_guard_bind _ _ _ (hMFc _ ht) (fun _ => ?_)
    refine txH_guard_bind _ _ _ (hMFc _ ht) (fun _ => ?_)
    refine txH_guard_bind _ _ _ (hMFc _ ht) (fun _ => ?_)
    refine txH_guard_bind _ _ _ (hMFc _ ht) (fun _ => ?_)
    refine txH_guard_bind _ _ _ (hMFc _ ht) (fun _ => ?_)
    refine txH_expectNat_bind (M := Clean) (M' := Clean) (E := Settled false) _ _ ht (cl_ok _ rfl) (cl_any _ rfl)
      (fun r t' h => txK_retErr_M t' _ (hEFc t' h)) ?_
    intro c t ht
    extract_lets jp
    have hjp : ∀ u t', Clean t' → txH t' (jp u) (fun t' _ => Clean t') (fun t' _ => ErrF false t') := by
      intro u t' ht'
      show txH t' (if _ then _ else _) _ _
      rw [txH_ite]
      constructor
      · intro _
        refine txH_guard_bind _ _ _ (hMFc _ ht') (fun _ => ?_)
        refine txH_expectNat_bind (M := Clean) (M' := Clean) (E := Settled false) _ _ ht' (cl_ok _ rfl) (cl_any _ rfl)
          (fun r t' h => txK_retErr_M t' _ (hEFc t' h)) ?_
        intro a t2 ht2
        exact ht2
      · intro _; exact ht'
    rw [txH_ite]
    constructor
    · intro _
      refine txH_expectOk_bind (M := Clean) (M' := Clean) (E := Settled false) _ _ ht (cl_ok _ rfl) (cl_any _ rfl).err
        (fun r t' h => txK_retErr_M t' _ (hEFc t' h)) ?_
      intro t2 ht2
      exact hjp () t2 ht2
    · intro _; exact hjp () t ht

theorem tx_authorizeH (cfg : Config) (now : Time) (minNonce : Nat) (q : AuthzReq) (ht : Clean t) :
    txH t (authorizeH cfg now minNonce q) (fun t o => Post false true t o) (fun t _ => ErrF false t) := by
  unfold authorizeH
  refine txH_guard_bind _ _ _ (hMFc _ ht) (fun _ => ?_)
  refine txH_expectClient_bind (M := Clean) (M' := Clean) (E := Settled false) _ _ ht (cl_ok _ rfl) (cl_any _ rfl) hEFc ?_
  intro client t ht
  refine txH_guard_bind _ _ _ (hMFc _ ht) (fun _ => ?_)
  refine txH_seq (M' := Clean) _ _ (tx_optErr _ ht (hMFc _ ht)) ?_
  intro _ t ht
  refine txH_expectNat_bind (M := Clean) (M' := Clean) (E := Settled false) _ _ ht (cl_ok _ rfl) (cl_any _ rfl)
    (fun r t' h => txK_retErr_M t' _ (hEFc t' h)) ?_
  intro rid t ht
  refine txH_seq (M' := Clean) _ _ (tx_authzExplicit _ _ _ _ _ ht) ?_
  intro acc1 t ht
  refine txH_seq (M' := Clean) _ _ (tx_authzImplicit _ _ _ _ _ ht) ?_
  intro acc2 t ht
  refine txH_seq (M' := Clean) _ _ (tx_authzOIDCExplicit _ _ ht) ?_
  intro acc3 t ht
  refine txH_guard_bind _ _ _ (hMFc _ ht) (fun _ => ?_)
  refine txH_seq (M' := Clean) _ _ (tx_authzHybrid _ _ _ _ _ _ ht) ?_
  intro acc5 t ht
  refine txH_seq (M' := Clean) _ _ (tx_authzPKCE _ _ _ _ ht) ?_
  intro acc6 t ht
  exact Post.of_clean ht _ rfl rfl

theorem tx_authorizeProg (cfg : Config) (now : Time) (minNonce : Nat) (q : AuthzReq) :
    txK T0 (authorizeProg cfg now minNonce q) (Post false true) := by
  unfold authorizeProg
  rw [txK_run]
  exact tx_authorizeH cfg now minNonce q (Clean.of_T0 rfl)

theorem tx_authorizeParH (cfg : Config) (now : Time) (minNonce : Nat) (a : AuthzParReq) (ht : Clean t) :
    txH t (authorizeParH cfg now minNonce a) (fun t o => Post false true t o) (fun t _ => ErrF false t) := by
  unfold authorizeParH
  refine txH_expectPar_bind (M := Clean) (M' := Clean) (E := Settled false) _ _ ht (cl_ok _ rfl) (cl_any _ rfl)
    (fun r t' h => txK_retErr_M t' _ (hEFc t' h)) ?_
  intro p t ht
  refine txH_guard_bind _ _ _ (hMFc _ ht) (fun _ => ?_)
  refine txH_expectOk_bind (M := Clean) (M' := Clean) (E := Settled false) _ _ ht (cl_ok _ rfl) (cl_any _ rfl).err
    (fun r t' h => txK_retErr_M t' _ (hEFc t' h)) ?_
  intro t ht
  refine txH_guard_bind _ _ _ (hMFc _ ht) (fun _ => ?_)
  refine txH_seq (M' := Clean) _ _ (tx_authzExplicit _ _ _ _ _ ht) ?_
  intro acc1 t ht
  refine txH_seq (M' := Clean) _ _ (tx_authzImplicit _ _ _ _ _ ht) ?_
  intro acc2 t ht
  refine txH_seq (M' := Clean) _ _ (tx_authzOIDCExplicit _ _ ht) ?_
  intro acc3 t ht
  refine txH_guard_bind _ _ _ (hMFc _ ht) (fun _ => ?_)
  refine txH_seq (M' := Clean) _ _ (tx_authzHybrid _ _ _ _ _ _ ht) ?_
  intro acc5 t ht
  refine txH_seq (M' := Clean) _ _ (tx_authzPKCE _ _ _ _ ht) ?_
  intro acc6 t ht
  exact Post.of_clean ht _ rfl rfl

theorem tx_authorizeParProg (cfg : Config) (now : Time) (minNonce : Nat) (a : AuthzParReq) :
    txK T0 (authorizeParProg cfg now minNonce a) (Post false true) := by
  unfold authorizeParProg
  rw [txK_run]
  exact tx_authorizeParH cfg now minNonce a (Clean.of_T0 rfl)

end authz

/-! ### revocation and introspection: no transaction, nothing handed out -/

theorem st_ok (c : Call) (hc : c.isTx = false) : OkStep (Settled false) c (Settled false) :=
  fun t h => anyStep_settled false c hc (fun _ h => h) t .ok h
theorem st_any (c : Call) (hc : c.isTx = false) : AnyStep (Settled false) c (Settled false) :=
  anyStep_settled false c hc (fun _ h => h)

theorem tx_revocationError (e1 e2 : Option Err) {t : TxSt} (ht : Settled false t) :
    txH t (revocationError e1 e2) (fun t o => Post false false t o) (fun t _ => ErrF false t) := by
  unfold revocationError
  split
  · exact Post.of_settled ht _ rfl
  · exact ErrF.of_settled ht

theorem tx_revokeFound (client : Client) (ar : Req) {t : TxSt} (ht : Settled false t) :
    txH t (revokeH.revokeFound client ar) (fun t o => Post false false t o) (fun t _ => ErrF false t) := by
  unfold revokeH.revokeFound
  refine txH_guard_bind _ _ _ (ErrF.of_settled ht) (fun _ => ?_)
  refine txH_callH_bind _ _ ?_
  intro r1
  obtain ⟨t1, h1, h2⟩ := st_any (.revokeRefresh ar.id) rfl t r1.cls ht
  refine ⟨t1, h1, ?_⟩
  refine txH_callH_bind _ _ ?_
  intro r2
  obtain ⟨t2, h3, h4⟩ := st_any (.revokeAccess ar.id) rfl t1 r2.cls h2
  exact ⟨t2, h3, tx_revocationError _ _ h4⟩

theorem tx_revokeH (q : RevokeReq) {t : TxSt} (ht : Settled false t) :
    txH t (revokeH q) (fun t o => Post false false t o) (fun t _ => ErrF false t) := by
  have hF : ∀ t, Settled false t → ErrF false t := fun _ h => ErrF.of_settled h
  unfold revokeH
  refine txH_seq _ _ (tx_authenticate (M := Settled false) (E := Settled false) _ _ ht (st_ok _ (by rfl)) (st_any _ (by rfl)) hF hF) ?_
  intro client t ht
  have hc1 : (revokeFirst q).isTx = false := by unfold revokeFirst; split <;> rfl
  have hc2 : (revokeSecond q).isTx = false := by unfold revokeSecond; split <;> rfl
  refine txH_callH_bind _ _ ?_
  intro r1
  obtain ⟨t1, h1, h2⟩ := st_any _ hc1 t r1.cls ht
  refine ⟨t1, h1, ?_⟩
  have hsecond : txH t1 (callH (revokeSecond q) >>= fun r2 => match r2 with
      | .req ar => revokeH.revokeFound client ar
      | _ => revocationError r1.errKind r2.errKind) (fun t o => Post false false t o) (fun t _ => ErrF false t) := by
    refine txH_callH_bind _ _ ?_
    intro r2
    obtain ⟨t2, h3, h4⟩ := st_any _ hc2 t1 r2.cls h2
    refine ⟨t2, h3, ?_⟩
    cases r2 <;> first | exact tx_revokeFound client _ h4 | exact tx_revocationError _ _ h4
  cases r1 <;> first | exact tx_revokeFound client _ h2 | exact hsecond

theorem tx_revokeProg (q : RevokeReq) : txK T0 (revokeProg q) (Post false false) := by
  unfold revokeProg
  rw [txK_run]
  exact tx_revokeH q (Settled.of_T0 false rfl)

theorem txK_attempt_bind {α β} {t : TxSt} (x : HP α) (f : Except Err α → Prog β) (K : TxSt → β → Prop)
    (h : txH t x (fun t' a => txK t' (f (.ok a)) K) (fun t' e => txK t' (f (.error e)) K)) :
    txK t (attempt x >>= f) K := by
  show txK t (Prog.bind x.toProg f) K
  rw [txK_bind]
  apply txK_mono t x.toProg _ _ _ h
  intro t' r hr
  cases r <;> exact hr

theorem tx_introspectAccess (cfg : Config) (now : Time) (q : IntrospectReq) {t : TxSt} (ht : Settled false t) :
    txH t (introspectAccess cfg now q) (fun t' _ => Settled false t') (fun t' _ => Settled false t') := by
  unfold introspectAccess
  refine txH_expectReq_bind (M := Settled false) (M' := Settled false) (E := Settled false) _ _ ht (st_ok _ rfl) (st_any _ rfl)
    (fun r t' h => txK_retErr_M t' _ h) ?_
  intro r t ht
  refine txH_guard_bind _ _ _ ht (fun _ => ?_)
  refine txH_guard_bind _ _ _ ht (fun _ => ?_)
  refine txH_guard_bind _ _ _ ht (fun _ => ?_)
  exact ht

theorem tx_introspectRefresh (cfg : Config) (now : Time) (q : IntrospectReq) {t : TxSt} (ht : Settled false t) :
    txH t (introspectRefresh cfg now q) (fun t' _ => Settled false t') (fun t' _ => Settled false t') := by
  unfold introspectRefresh
  refine txH_expectReq_bind (M := Settled false) (M' := Settled false) (E := Settled false) _ _ ht (st_ok _ rfl) (st_any _ rfl)
    (fun r t' h => txK_retErr_M t' _ h) ?_
  intro r t ht
  refine txH_guard_bind _ _ _ ht (fun _ => ?_)
  refine txH_guard_bind _ _ _ ht (fun _ => ?_)
  refine txH_guard_bind _ _ _ ht (fun _ => ?_)
  exact ht

/-- the validator answers `.active` or `.inactive`, never anything else -/
def Out.isVerdict : Out → Bool
  | .active .. => true | .inactive _ => true
  | _ => false

theorem tx_introspect_settled (cfg : Config) (now : Time) (q : IntrospectReq) {t : TxSt} (ht : Settled false t) :
    txK t (introspectProg cfg now q) (fun t' o => Settled false t' ∧ o.isVerdict = true) := by
  have one : ∀ (x : HP Req) (use : String) (t : TxSt), Settled false t →
      (∀ t, Settled false t → txH t x (fun t' _ => Settled false t') (fun t' _ => Settled false t')) →
      ∀ (g : Err → Prog Out), (∀ e t', Settled false t' → txK t' (g e) (fun t' o => Settled false t' ∧ o.isVerdict = true)) →
      txK t (attempt x >>= fun r => match r with
        | .ok r => pure (.active use r)
        | .error e => g e) (fun t' o => Settled false t' ∧ o.isVerdict = true) := by
    intro x use t ht hx g hg
    refine txK_attempt_bind _ _ _ ?_
    refine txH_mono t x _ _ _ _ ?_ ?_ (hx t ht)
    · intro t' a h; exact ⟨h, rfl⟩
    · intro t' e h; exact hg e t' h
  unfold introspectProg
  split
  · exact one _ _ t ht (fun t h => tx_introspectAccess cfg now q h) _ (fun e t' h => ⟨h, rfl⟩)
  · split
    · refine one _ _ t ht (fun t h => tx_introspectRefresh cfg now q h) _ ?_
      intro _ t' h
      exact one _ _ t' h (fun t h => tx_introspectAccess cfg now q h) _ (fun e t' h => ⟨h, rfl⟩)
    · refine one _ _ t ht (fun t h => tx_introspectAccess cfg now q h) _ ?_
      intro e t' h
      exact one _ _ t' h (fun t h => tx_introspectRefresh cfg now q h) _ (fun _ t' h => ⟨h, rfl⟩)

theorem Post.of_verdict {t : TxSt} {o : Out} (h : Settled false t) (ho : o.isVerdict = true) : Post false false t o :=
  Post.of_settled h o (by cases o <;> simp_all [Out.isVerdict, Out.issues])

theorem tx_introspectProg (cfg : Config) (now : Time) (q : IntrospectReq) : txK T0 (introspectProg cfg now q) (Post false false) :=
  txK_mono _ _ _ _ (fun _ _ h => Post.of_verdict h.1 h.2) (tx_introspect_settled cfg now q (Settled.of_T0 false rfl))

theorem tx_introspectEndpoint_settled (cfg : Config) (now : Time) (r : IntrospectEndpointReq) {t : TxSt} (ht : Settled false t) :
    txK t (introspectEndpointProg cfg now r) (fun t' o => Settled false t' ∧ o.issues = false) := by
  unfold introspectEndpointProg
  extract_lets inspect
  have hinspect : ∀ t, Settled false t → txK t inspect (fun t' o => Settled false t' ∧ o.issues = false) := by
    intro t ht
    show txK t (Prog.bind (introspectProg cfg now r.q) _) _
    rw [txK_bind]
    apply txK_mono _ _ _ _ _ (tx_introspect_settled cfg now r.q ht)
    intro t' o h
    cases o <;> exact ⟨h.1, rfl⟩
  split
  · -- bearer
    split
    · exact ⟨ht, rfl⟩
    · show txK t (Prog.bind (introspectProg cfg now _) _) _
      rw [txK_bind]
      apply txK_mono _ _ _ _ _ (tx_introspect_settled cfg now _ ht)
      intro t' o h
      cases o <;> first
        | exact ⟨h.1, rfl⟩
        | (show txK t' (if _ then _ else _) _
           split
           · exact ⟨h.1, rfl⟩
           · exact hinspect t' h.1)
  · -- basic
    refine txK_call_bind _ _ _ ?_
    intro res
    obtain ⟨t1, h1, h2⟩ := st_any (.getClient _) rfl t res.cls ht
    refine ⟨t1, h1, ?_⟩
    cases res <;> first
      | exact ⟨h2, rfl⟩
      | (show txK t1 (if _ then _ else _) _
         split
         · exact hinspect t1 h2
         · exact ⟨h2, rfl⟩)
  · exact ⟨ht, rfl⟩

theorem tx_introspectEndpointProg (cfg : Config) (now : Time) (r : IntrospectEndpointReq) :
    txK T0 (introspectEndpointProg cfg now r) (Post false false) :=
  txK_mono _ _ _ _ (fun _ o h => Post.of_settled h.1 o h.2) (tx_introspectEndpoint_settled cfg now r (Settled.of_T0 false rfl))

/-! ### every endpoint program -/

/-- does the operation issue inside a transaction? -/
def Op.txn : Op → Bool
  | .redeem _ | .refresh _ | .devicePoll _ => true
  | _ => false

/-- every endpoint but revocation and introspection either hands something out or refuses -/
def Op.strict : Op → Bool
  | .revoke _ | .introspect _ | .introspectEndpoint _ => false
  | _ => true

/-- **Every endpoint program keeps the discipline**, whatever the storage calls answer. -/
theorem tx_op (s : MState) (op : Op) (p : Prog Out) (h : op.prog s = some p) : txK T0 p (Post op.txn op.strict) := by
  cases op <;> simp only [Op.prog, Option.some.injEq, reduceCtorEq] at h <;> subst h
  case authorize q => exact tx_authorizeProg _ _ _ q
  case redeem q => exact tx_redeemProg _ _ q
  case refresh q => exact tx_refreshProg _ _ q
  case revoke q => exact tx_revokeProg q
  case introspect q => exact tx_introspectProg _ _ q
  case introspectEndpoint q => exact tx_introspectEndpointProg _ _ q
  case clientCredentials q => exact tx_clientCredentialsProg _ _ q
  case password q => exact tx_passwordProg _ _ q
  case deviceAuthorize q => exact tx_deviceAuthProg _ _ q
  case devicePoll q => exact tx_devicePollProg _ _ q
  case parPush q => exact tx_parPushProg _ _ q
  case authorizePar q => exact tx_authorizeParProg _ _ _ q

/-! ### lifting to `stepWith` -/

/-- harness-level operations make no storage call and answer `ok` -/
theorem stepWith_noprog (rc : RunCfg) (s : MState) (op : Op) (h : op.prog s = none) :
    stepWith rc s op = step s op ∧ (step s op).2.1 = .ok ∧ (step s op).2.2 = [] := by
  refine ⟨by unfold stepWith; rw [h], ?_⟩
  cases op <;> simp only [Op.prog, reduceCtorEq] at h <;> simp only [step] <;> (try split) <;> simp

theorem stepWith_log (rc : RunCfg) (s : MState) (op : Op) (p : Prog Out) (h : op.prog s = some p) :
    (stepWith rc s op).2.2 = runLog rc { ss := s.ss } p ∧ (stepWith rc s op).2.1 = (run rc { ss := s.ss } p).2 ∧
    (stepWith rc s op).1.ss = (run rc { ss := s.ss } p).1.ss := by
  rw [stepWith_prog rc s op p h]
  exact ⟨run_log_nil rc _ p rfl, rfl, rfl⟩

/-- once rolled back, the automaton stays rolled back -/
theorem traceOK_rolledBack_stable (t t' : TxSt) (l : List (Call × Res)) (h : traceOK t l = some t')
    (hp : t.phase = .rolledBack) : t'.phase = .rolledBack := by
  induction l generalizing t with
  | nil => cases h; exact hp
  | cons e l ih =>
    simp only [traceOK] at h
    cases hs : txStep t e with
    | none => rw [hs] at h; cases h
    | some t1 =>
      rw [hs] at h
      refine ih t1 h ?_
      obtain ⟨c, r⟩ := e
      unfold txStep at hs
      simp only at hs
      cases c <;> simp only [txStepC, hp, reduceCtorEq, if_false, false_and] at hs <;> cases hs <;> first | exact hp | rfl

/-- a successful rollback in an accepted log means the run ended rolled back -/
theorem traceOK_of_rollback_ok (t t' : TxSt) (l : List (Call × Res)) (h : traceOK t l = some t')
    (r : Res) (hr : r.errKind = none) (hm : (Call.rollbackTx, r) ∈ l) : t'.phase = .rolledBack := by
  induction l generalizing t with
  | nil => cases hm
  | cons e l ih =>
    simp only [traceOK] at h
    cases hs : txStep t e with
    | none => rw [hs] at h; cases h
    | some t1 =>
      rw [hs] at h
      rcases List.mem_cons.mp hm with hm | hm
      · subst hm
        refine traceOK_rolledBack_stable t1 t' l h ?_
        unfold txStep at hs
        simp only [txStepC, cls_of_errKind_none r hr] at hs
        split at hs
        · simp only [if_true, Option.some.injEq] at hs; subst hs; rfl
        · cases hs
      · exact ih t1 h hm

/-- storage calls and transaction calls never touch the client table or the store variant -/
theorem run_frame {α} (rc : RunCfg) (p : Prog α) (rs : RState) :
    (run rc rs p).1.ss.clients = rs.ss.clients ∧ (run rc rs p).1.ss.devMark = rs.ss.devMark ∧
    rs.ss.next ≤ (run rc rs p).1.ss.next := by
  induction p generalizing rs with
  | ret a => exact ⟨rfl, rfl, Nat.le_refl _⟩
  | call c k ih =>
    simp only [run_call]
    obtain ⟨h1, h2, h3⟩ := ih (rs.step rc c).2 (rs.step rc c).1
    have : (rs.step rc c).1.ss.clients = rs.ss.clients ∧ (rs.step rc c).1.ss.devMark = rs.ss.devMark ∧
        rs.ss.next ≤ (rs.step rc c).1.ss.next := by
      rcases step_cases rc rs c with ⟨_, hf, _⟩ | ⟨_, _, hss, _⟩ | ⟨_, _, hss, _⟩ |
        ⟨_, _, _, hss, _⟩ | ⟨_, _, _, hss, _⟩ | ⟨_, _, _, hss, _⟩
      · rw [hf]; exact ⟨rfl, rfl, Nat.le_refl _⟩
      · rw [hss]; exact ⟨rfl, rfl, Nat.le_refl _⟩
      · rw [hss, exec_frame]; exact ⟨rfl, rfl, exec_next_le rs.ss c⟩
      · rw [hss]; exact ⟨rfl, rfl, Nat.le_refl _⟩
      · rw [hss]; exact ⟨rfl, rfl, Nat.le_refl _⟩
      · rw [hss]; exact ⟨rfl, rfl, Nat.le_refl _⟩
    exact ⟨h1.trans this.1, h2.trans this.2.1, Nat.le_trans this.2.2 h3⟩

/-! ### the dead-credential predicates are monotone in the mint counter -/

theorem CodeDeadInv_next (sig : Nat) (ss : SState) (n : Nat) (h : CodesBelow ss ∧ CodeDead ss sig) (hn : ss.next ≤ n) :
    CodesBelow { ss with next := n } ∧ CodeDead { ss with next := n } sig :=
  ⟨fun s rec hl => Nat.lt_of_lt_of_le (h.1 s rec hl) hn, h.2⟩

theorem RTDead_next (sig : Nat) (ss : SState) (n : Nat) (h : RTDead ss sig) (hn : ss.next ≤ n) : RTDead { ss with next := n } sig :=
  ⟨Nat.lt_of_lt_of_le h.1 hn, h.2⟩

theorem DevDead_next (sig : Nat) (ss : SState) (n : Nat) (h : DevDead ss sig) (hn : ss.next ≤ n) : DevDead { ss with next := n } sig :=
  ⟨Nat.lt_of_lt_of_le h.1 hn, h.2⟩

theorem ParDead_next (u : Nat) (ss : SState) (n : Nat) (h : ParDead ss u) (hn : ss.next ≤ n) : ParDead { ss with next := n } u :=
  ⟨Nat.lt_of_lt_of_le h.1 hn, h.2⟩

/-- a store property as in `run_preserves_any` that the harness-level operations respect as well
    survives `stepWith` under every run configuration -/
theorem stepWith_preserves (rc : RunCfg) (P : SState → Prop)
    (hP : ∀ ss c, P ss → P (ss.exec c).1)
    (hN : ∀ (ss : SState) n, P ss → ss.next ≤ n → P { ss with next := n })
    (hH : ∀ s op, op.prog s = none → P s.ss → P (step s op).1.ss)
    (s : MState) (op : Op) (h : P s.ss) : P (stepWith rc s op).1.ss := by
  cases hp : op.prog s with
  | none => rw [(stepWith_noprog rc s op hp).1]; exact hH s op hp h
  | some p =>
    rw [(stepWith_log rc s op p hp).2.2]
    exact (run_preserves_any rc P hP hN p { ss := s.ss } h (fun s0 h0 => by cases h0)).1

end Fosite.Model

/-
  Lemmas for C10: the model of `DefaultClientAuthenticationStrategy` decides exactly the documented
  relation of `Spec/ClientAuth.lean`; structural facts about the `NewAccessRequest` handler loop.
-/
import Fosite.Model.ClientAuth
import Fosite.Spec.ClientAuth
namespace Fosite.Proofs.ClientAuth
open Fosite.Model.ClientAuth Fosite.Spec.ClientAuth

/-! ### secrets -/

theorem rotatedLoop_eq_any (H : Hasher) (s : String) (hs : List Hash) :
    rotatedLoop H s hs = hs.any (fun h => H h s) := by
  induction hs with
  | nil => rfl
  | cons h t ih =>
    simp only [rotatedLoop, List.any_cons, ih]
    cases H h s <;> simp

theorem checkClientSecret_eq (H : Hasher) (c : Registration) (s : String) :
    checkClientSecret H c s = secretProvenB H c s := by
  simp only [checkClientSecret, secretProvenB, rotatedLoop_eq_any]
  cases H c.hash s <;> simp

theorem secretProvenB_iff (H : Hasher) (c : Registration) (s : String) :
    secretProvenB H c s = true ↔ SecretProven H c s := by
  simp only [secretProvenB, SecretProven, Bool.or_eq_true, List.any_eq_true]

/-! ### method gating -/

theorem methodPermitsB_iff (r : Request) (c : Registration) :
    methodPermitsB r c = true ↔ MethodPermits r c := by
  unfold methodPermitsB MethodPermits UsesPost UsesBasic
  cases c.oidc <;> cases c.isPublic <;> cases r.basic.hasSecret <;>
    by_cases h1 : r.clientId = "" <;> by_cases h2 : r.clientSecret = "" <;>
    simp [h1, h2, and_assoc]

theorem methodGate_eq (r : Request) (c : Registration) :
    methodGate r c = if methodPermitsB r c then none else some errInvalidClient := by
  unfold methodGate methodPermitsB
  cases c.oidc <;> cases c.isPublic <;> cases r.basic.hasSecret <;>
    by_cases h1 : r.clientId = "" <;> by_cases h2 : r.clientSecret = "" <;>
    by_cases h3 : c.authMethod = "client_secret_post" <;>
    by_cases h4 : c.authMethod = "client_secret_basic" <;>
    by_cases h5 : c.authMethod = "none" <;>
    simp [h1, h2, h3, h4, h5]

/-! ### credentials -/

theorem credentials_eq (r : Request) :
    clientCredentialsFromRequest r =
      match presented r with
      | some p => .ok p
      | none => .error errInvalidRequest := by
  unfold clientCredentialsFromRequest presented clientCredentialsFromRequestBody
  cases hb : r.basic with
  | absent => by_cases h : r.clientId = "" <;> simp [h]
  | present raw id secret => cases id <;> cases secret <;> rfl

/-- The model decides exactly the documented verdict — for every hasher, registry and request. -/
theorem authenticate_eq_verdict (H : Hasher) (lookup : String → Option Registration) (r : Request) :
    authenticate H lookup r = verdict H lookup r := by
  unfold authenticate verdict
  by_cases hj : r.assertionType = clientAssertionJWTBearerType
  · simp only [hj, if_true]
    cases r.assertion <;> rfl
  · simp only [hj, if_false]
    by_cases he : r.assertionType = ""
    · simp only [if_false, he, ne_eq, not_true_eq_false]
      rw [credentials_eq]
      cases presented r with
      | none => rfl
      | some p =>
        obtain ⟨id, secret⟩ := p
        simp only
        cases lookup id with
        | none => rfl
        | some c =>
          simp only [methodGate_eq, checkClientSecret_eq]
          cases methodPermitsB r c <;> cases c.isPublic <;> cases secretProvenB H c secret <;> simp
    · have hl : r.assertionType.length > 0 := by
        have h1 : r.assertionType.length ≠ 0 := fun h0 => he (String.length_eq_zero_iff.1 h0)
        omega
      simp only [hl, if_true, ne_eq, he, not_false_eq_true]

/-! ### the documented verdict, as propositions -/

theorem presented_iff (r : Request) (id secret : String) :
    presented r = some (id, secret) ↔ ∃ t, Presents r t id secret := by
  unfold presented Presents
  cases hb : r.basic with
  | absent =>
    by_cases h : r.clientId = ""
    · simp [h]
    · simp only [h, if_false, Option.some.injEq, Prod.mk.injEq]
      constructor
      · rintro ⟨h1, h2⟩; exact ⟨.body, rfl, h, h1.symm, h2.symm⟩
      · rintro ⟨_, _, _, h1, h2⟩; exact ⟨h1.symm, h2.symm⟩
  | present raw i s =>
    cases i with
    | none => simp
    | some i' =>
      cases s with
      | none => simp
      | some s' =>
        simp only [Option.some.injEq, Prod.mk.injEq]
        constructor
        · rintro ⟨h1, h2⟩; exact ⟨.basic, rfl, by rw [h1], by rw [h2]⟩
        · rintro ⟨_, _, h1, h2⟩; exact ⟨h1, h2⟩

theorem presented_none_iff (r : Request) : presented r = none ↔ Malformed r := by
  unfold presented Malformed
  cases hb : r.basic with
  | absent => by_cases h : r.clientId = "" <;> simp [h]
  | present raw i s => cases i <;> cases s <;> simp

theorem presented_unique (r : Request) (t t' : Transport) (id id' s s' : String)
    (h : Presents r t id s) (h' : Presents r t' id' s') : t = t' ∧ id = id' ∧ s = s' := by
  have a := (presented_iff r id s).2 ⟨t, h⟩
  have b := (presented_iff r id' s').2 ⟨t', h'⟩
  rw [a] at b
  simp only [Option.some.injEq, Prod.mk.injEq] at b
  refine ⟨?_, b.1, b.2⟩
  unfold Presents at h h'
  cases hb : r.basic with
  | absent => rw [hb] at h h'; rw [h.1, h'.1]
  | present raw i s => rw [hb] at h h'; rw [h.1, h'.1]

theorem verdict_ok_iff (H : Hasher) (lookup : String → Option Registration) (r : Request) (c : Registration) :
    verdict H lookup r = .ok c ↔ Accepts H lookup r c := by
  unfold verdict Accepts
  by_cases hj : r.assertionType = clientAssertionJWTBearerType
  · have hne : r.assertionType ≠ "" := by rw [hj]; decide
    simp only [hj, if_true, true_and]
    cases r.assertion with
    | ok c' =>
      constructor
      · intro h; injection h with h; exact Or.inl (by rw [h])
      · rintro (h | ⟨h, _⟩)
        · injection h with h; rw [h]
        · exact absurd h (by decide)
    | err e =>
      constructor
      · intro h; cases h
      · rintro (h | ⟨h, _⟩)
        · cases h
        · exact absurd h (by decide)
  · simp only [hj, if_false, false_and, false_or]
    by_cases he : r.assertionType = ""
    · simp only [he, ne_eq, not_true_eq_false, if_false, true_and]
      unfold AcceptsSecret
      cases hp : presented r with
      | none =>
        simp only
        constructor
        · intro h; cases h
        · rintro ⟨t, id, s, hpr, _⟩
          have := (presented_iff r id s).2 ⟨t, hpr⟩
          rw [hp] at this; cases this
      | some p =>
        obtain ⟨id, secret⟩ := p
        obtain ⟨t, ht⟩ := (presented_iff r id secret).1 hp
        simp only
        cases hl : lookup id with
        | none =>
          simp only
          constructor
          · intro h; cases h
          · rintro ⟨t', id', s', hpr, hlk, _⟩
            obtain ⟨_, hid, _⟩ := presented_unique r t t' id id' secret s' ht hpr
            rw [← hid, hl] at hlk; cases hlk
        | some c' =>
          simp only
          constructor
          · intro h
            by_cases hc : (methodPermitsB r c' && (c'.isPublic || secretProvenB H c' secret)) = true
            · simp only [hc, if_true] at h
              injection h with h
              subst h
              simp only [Bool.and_eq_true, Bool.or_eq_true] at hc
              exact ⟨t, id, secret, ht, hl, (methodPermitsB_iff r c').1 hc.1,
                hc.2.imp (fun x => x) (secretProvenB_iff H c' secret).1⟩
            · simp only [hc] at h; cases h
          · rintro ⟨t', id', s', hpr, hlk, hm, hs⟩
            obtain ⟨_, hid, hsec⟩ := presented_unique r t t' id id' secret s' ht hpr
            rw [← hid, hl] at hlk
            injection hlk with hlk
            subst hlk
            have h1 := (methodPermitsB_iff r c').2 hm
            have h2 : (c'.isPublic || secretProvenB H c' secret) = true := by
              rw [Bool.or_eq_true]
              exact hs.imp (fun x => x) (fun h => (secretProvenB_iff H c' secret).2 (hsec ▸ h))
            simp [h1, h2]
    · simp only [ne_eq, he, not_false_eq_true, if_true, false_and]
      constructor
      · intro h; cases h
      · intro h; exact h.elim

theorem verdict_error_class (H : Hasher) (lookup : String → Option Registration) (r : Request) (e : Err)
    (h : verdict H lookup r = .error e) : RejectionClass r e := by
  unfold verdict at h
  unfold RejectionClass
  by_cases hj : r.assertionType = clientAssertionJWTBearerType
  · have hne : r.assertionType ≠ "" := by rw [hj]; decide
    simp only [hj, if_true] at h
    refine ⟨fun _ => ?_, fun h' => absurd hj h', fun h' => absurd h' hne, fun h' => absurd h' hne⟩
    cases ha : r.assertion with
    | ok c => rw [ha] at h; cases h
    | err e' => rw [ha] at h; injection h with h; rw [h]
  · simp only [hj, if_false] at h
    by_cases he : r.assertionType = ""
    · simp only [he, ne_eq, not_true_eq_false, if_false] at h
      refine ⟨fun h' => absurd h' hj, fun _ h' => absurd he h', fun _ hm => ?_, fun _ hm => ?_⟩
      · rw [(presented_none_iff r).2 hm] at h
        injection h with h; exact h.symm
      · cases hp : presented r with
        | none => exact absurd ((presented_none_iff r).1 hp) hm
        | some p =>
          obtain ⟨id, secret⟩ := p
          rw [hp] at h
          simp only at h
          cases hl : lookup id with
          | none => rw [hl] at h; injection h with h; exact h.symm
          | some c =>
            rw [hl] at h
            simp only at h
            by_cases hc : (methodPermitsB r c && (c.isPublic || secretProvenB H c secret)) = true
            · simp only [hc, if_true] at h; cases h
            · simp only [hc] at h; injection h with h; exact h.symm
    · simp only [ne_eq, he, not_false_eq_true, if_true] at h
      injection h with h
      exact ⟨fun h' => absurd h' hj, fun _ _ => h.symm, fun h' => absurd h' he, fun h' => absurd h' he⟩

/-! ### the handler loop of NewAccessRequest -/

/-- the loop only ever appends to `ran` and `writes` -/
theorem handlerLoop_ran_extends (cfg : Config) (a : Except Err Registration) (hs : List Handler) :
    ∀ (found : Bool) (ran : List Stage) (ws : List String),
      ∃ extra, (handlerLoop cfg a hs found ran ws).2.1 = ran ++ extra ∧
        ∀ s ∈ extra, ∃ h ∈ hs, s = .handler h.kind ∧ h.canHandle = true ∧
          (a.toOption = none → canSkipClientAuth h.kind cfg = true) := by
  induction hs with
  | nil =>
    intro found ran ws
    refine ⟨[], ?_, by simp⟩
    unfold handlerLoop
    cases found <;> simp
  | cons h t ih =>
    intro found ran ws
    unfold handlerLoop
    by_cases hc : h.canHandle = true
    · simp only [hc, Bool.not_true, Bool.false_eq_true, if_false]
      have lift : ∀ (found' : Bool) (ws' : List String) (hk : a.toOption = none → canSkipClientAuth h.kind cfg = true),
          ∃ extra, (handlerLoop cfg a t found' (ran ++ [.handler h.kind]) ws').2.1 = ran ++ extra ∧
            ∀ s ∈ extra, ∃ h' ∈ h :: t, s = .handler h'.kind ∧ h'.canHandle = true ∧
              (a.toOption = none → canSkipClientAuth h'.kind cfg = true) := by
        intro found' ws' hk
        obtain ⟨ex, he, hp⟩ := ih found' (ran ++ [.handler h.kind]) ws'
        refine ⟨.handler h.kind :: ex, by rw [he]; simp, ?_⟩
        intro s hs
        rcases List.mem_cons.1 hs with rfl | hs
        · exact ⟨h, List.mem_cons_self, rfl, hc, hk⟩
        · obtain ⟨h', hm, r⟩ := hp s hs
          exact ⟨h', List.mem_cons_of_mem _ hm, r⟩
      have stop : ∀ (hk : a.toOption = none → canSkipClientAuth h.kind cfg = true),
          ∃ extra, ran ++ [Stage.handler h.kind] = ran ++ extra ∧
            ∀ s ∈ extra, ∃ h' ∈ h :: t, s = .handler h'.kind ∧ h'.canHandle = true ∧
              (a.toOption = none → canSkipClientAuth h'.kind cfg = true) := by
        intro hk
        refine ⟨[.handler h.kind], rfl, ?_⟩
        intro s hs
        rw [List.mem_singleton] at hs
        exact ⟨h, List.mem_cons_self, hs, hc, hk⟩
      cases a with
      | error clientErr =>
        simp only
        by_cases hk : canSkipClientAuth h.kind cfg = true
        · simp only [hk, Bool.not_true, Bool.false_eq_true, if_false]
          cases hr : (h.handle none).res with
          | ok => simp only; exact lift true _ (fun _ => hk)
          | unknownRequest => simp only; exact lift found _ (fun _ => hk)
          | err e => simp only; exact stop (fun _ => hk)
        · simp only [hk, Bool.not_false, if_true]
          exact ⟨[], by simp, by simp⟩
      | ok c =>
        have hk : (Except.ok c : Except Err Registration).toOption = none → canSkipClientAuth h.kind cfg = true := by
          intro h'; cases h'
        simp only
        cases hr : (h.handle (some c)).res with
        | ok => simp only; exact lift true _ hk
        | unknownRequest => simp only; exact lift found _ hk
        | err e => simp only; exact stop hk
    · have hc' : h.canHandle = false := by cases hh : h.canHandle <;> simp_all
      simp only [hc', Bool.not_false, if_true]
      obtain ⟨ex, he, hp⟩ := ih found ran ws
      refine ⟨ex, he, ?_⟩
      intro s hs
      obtain ⟨h', hm, r⟩ := hp s hs
      exact ⟨h', List.mem_cons_of_mem _ hm, r⟩

/-- Authentication failed and no responsible handler may skip it: the loop runs nothing, writes nothing, and
    answers the authentication error (or `invalid_request` when nobody is responsible). -/
theorem handlerLoop_rejects (cfg : Config) (e : Err) (hs : List Handler)
    (hno : ∀ h ∈ hs, h.canHandle = true → canSkipClientAuth h.kind cfg = false) :
    ∀ (ran : List Stage) (ws : List String),
      handlerLoop cfg (.error e) hs false ran ws =
        (.error (if hs.any (fun h => h.canHandle) then e else errInvalidRequest), ran, ws) := by
  induction hs with
  | nil => intro ran ws; simp [handlerLoop]
  | cons h t ih =>
    intro ran ws
    unfold handlerLoop
    by_cases hc : h.canHandle = true
    · have hk := hno h List.mem_cons_self hc
      simp [hc, hk]
    · have hc' : h.canHandle = false := by cases hh : h.canHandle <;> simp_all
      simp only [hc', Bool.not_false, if_true, List.any_cons, Bool.false_or]
      exact ih (fun h' hm => hno h' (List.mem_cons_of_mem _ hm)) ran ws

/-- A responsible handler that refuses the authenticated client makes the whole loop fail. -/
theorem handlerLoop_fails_of_refusing_handler (cfg : Config) (c : Registration) (hs : List Handler)
    (h : Handler) (hm : h ∈ hs) (hc : h.canHandle = true) (e : Err) (hr : (h.handle (some c)).res = .err e) :
    ∀ (found : Bool) (ran : List Stage) (ws : List String),
      ∃ e', (handlerLoop cfg (.ok c) hs found ran ws).1 = .error e' := by
  induction hs with
  | nil => cases hm
  | cons h' t ih =>
    intro found ran ws
    unfold handlerLoop
    by_cases hc' : h'.canHandle = true
    · simp only [hc', Bool.not_true, Bool.false_eq_true, if_false]
      rcases List.mem_cons.1 hm with rfl | hm'
      · simp only [hr]; exact ⟨e, rfl⟩
      · cases hr' : (h'.handle (some c)).res with
        | ok => simp only; exact ih hm' _ _ _
        | unknownRequest => simp only; exact ih hm' _ _ _
        | err e'' => simp only; exact ⟨e'', rfl⟩
    · have hc'' : h'.canHandle = false := by cases hh : h'.canHandle <;> simp_all
      simp only [hc'', Bool.not_false, if_true]
      rcases List.mem_cons.1 hm with rfl | hm'
      · rw [hc] at hc''; cases hc''
      · exact ih hm' _ _ _

end Fosite.Proofs.ClientAuth

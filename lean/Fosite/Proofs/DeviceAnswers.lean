/-
  The refusals of the device_code grant at the token endpoint (`devicePollProg`), both exits:
  which RFC error an authenticated client gets for a stored device code, in which order the
  conditions are looked at, and what the refusal leaves in the store.  Lemmas for `Props/C16b.lean`.
-/
import Fosite.Proofs.WPH
import Fosite.Proofs.DevicePar
import Fosite.Model.Fault
namespace Fosite.Model

/-- fault-free interpretation of a non-transactional call is the store operation -/
theorem step_exec_nf (rc : RunCfg) (hnf : NoFaults rc) (rs : RState) (c : Call) (hc : c.isTx = false) :
    (rs.step rc c).1.ss = (rs.ss.exec c).1 ∧ (rs.step rc c).2 = (rs.ss.exec c).2 := by
  have h := step_eq_exec rc rs c hc _ rfl (step_no_fail rc hnf rs c)
  exact ⟨h.1, h.2.symm⟩

theorem wpH_expectClient_client (rc) (c : Call) (e) (Kok : RState → Client → Prop) (Kerr) (rs : RState) (x : Client)
    (h : (rs.step rc c).2 = .client x) :
    wpH rc (expectClient c e) Kok Kerr rs ↔ Kok (rs.step rc c).1 x := by
  rw [wpH_expectClient]
  constructor
  · intro hh; exact hh.1 x h
  · intro hh; exact ⟨fun y hy => by rw [h] at hy; cases hy; exact hh, fun hne => absurd h (hne x)⟩

theorem wpH_expectDev (rc) (c : Call) (other) (Kok : RState → DevRec → Prop) (Kerr) (rs : RState) :
    wpH rc (expectDev c other) Kok Kerr rs ↔
      (∀ x, (rs.step rc c).2 = .dev x → Kok (rs.step rc c).1 x) ∧
      ((∀ x, (rs.step rc c).2 ≠ .dev x) → wp rc (other (rs.step rc c).2) Kerr (rs.step rc c).1) := by
  unfold expectDev wpH HP.mk
  show wp rc (Prog.call c _) _ rs ↔ _
  simp only [wp_call]
  generalize (rs.step rc c).2 = r
  cases r <;> simp only [reduceCtorEq, false_implies, implies_true, true_and, Res.dev.injEq, forall_eq', ne_eq, not_false_eq_true,
    forall_const, not_true_eq_false, and_true]
  all_goals first
    | exact Iff.rfl
    | exact wpH_failWith rc _ Kok Kerr _
    | (simp only [not_forall, not_not]; exact ⟨fun h => ⟨h, fun ⟨x, hx⟩ => absurd rfl hx⟩, fun h => h.1⟩)

theorem wpH_expectDev_dev (rc) (c : Call) (other) (Kok : RState → DevRec → Prop) (Kerr) (rs : RState) (d : DevRec)
    (h : (rs.step rc c).2 = .dev d) :
    wpH rc (expectDev c other) Kok Kerr rs ↔ Kok (rs.step rc c).1 d := by
  rw [wpH_expectDev]
  constructor
  · intro hh; exact hh.1 d h
  · intro hh; exact ⟨fun y hy => by rw [h] at hy; cases hy; exact hh, fun hne => absurd h (hne d)⟩

theorem wpH_expectDev_other (rc) (c : Call) (other) (Kok : RState → DevRec → Prop) (Kerr) (rs : RState)
    (h : ∀ x, (rs.step rc c).2 ≠ .dev x) :
    wpH rc (expectDev c other) Kok Kerr rs ↔ wp rc (other (rs.step rc c).2) Kerr (rs.step rc c).1 := by
  rw [wpH_expectDev]
  constructor
  · intro hh; exact hh.2 h
  · intro hh; exact ⟨fun y hy => absurd hy (h y), fun _ => hh⟩

theorem wpH_guard_true (rc) (c : Bool) (e : Err) (Kok Kerr) (rs) (h : c = true) :
    wpH rc (HP.guard c e) Kok Kerr rs ↔ Kok rs () := by
  subst h; rw [wpH_guard]; simp

theorem wpH_guard_false (rc) (c : Bool) (e : Err) (Kok Kerr) (rs) (h : c = false) :
    wpH rc (HP.guard c e) Kok Kerr rs ↔ Kerr rs e := by
  subst h; rw [wpH_guard]; simp

/-- The order in which `DeviceCodeTokenEndpointHandler.HandleTokenEndpointRequest` looks at a found,
    live device authorization: user-code state (undecided, then denied) before expiry, expiry before
    the MAC of the presented code, the MAC before the client comparison.  `none` = nothing to object. -/
def deviceAnswer (cfg : Config) (now : Time) (q : DevicePollReq) (client : Client) (d : DevRec) : Option Err :=
  if d.state == 0 then some .authorization_pending
  else if d.state == 2 then some .access_denied
  else if deviceExpired d cfg now then some .expired_token
  else if !q.code.exact then some .token_signature_mismatch
  else if d.req.client.id != client.id then some .invalid_grant
  else none

/-- the state every refusal after the lookup leaves: the request id allocated for the token request
    is the only trace -/
theorem exec_newId_eq (ss : SState) : (ss.exec .newId).1 = { ss with next := ss.next + 1 } := rfl

/-- what the handler needs to reach the device-code lookup -/
structure PollPrefix (q : DevicePollReq) (ss : SState) (client : Client) : Prop where
  found : ss.clients.find? (fun c => c.id == q.clientId) = some client
  cred : (client.isPublic || q.credOk) = true
  grant : client.grants.contains deviceGrant = true

theorem exec_getClient_of_find (ss : SState) (id : String) (c : Client)
    (h : ss.clients.find? (fun c => c.id == id) = some c) : (ss.exec (.getClient id)).2 = .client c := by
  simp only [SState.exec, h]

theorem exec_getDevice_of_lookup (ss : SState) (sig : Nat) (d : DevRec) (h : alookup ss.store.device sig = some d) :
    (ss.exec (.getDevice (some sig))).2 = if d.used then .usedDev d else .dev d := by
  simp only [SState.exec, Option.bind_some, h]
  split <;> rfl



theorem devicePoll_refusal_wp (rc : RunCfg) (hnf : NoFaults rc) (cfg : Config) (now : Time) (q : DevicePollReq) (rs : RState)
    (client : Client) (sig : Nat) (d : DevRec) (e : Err)
    (hpre : PollPrefix q rs.ss client) (hsig : q.code.sig = some sig)
    (hdev : alookup rs.ss.store.device sig = some d) (hused : d.used = false)
    (hans : deviceAnswer cfg now q client d = some e) :
    wp rc (devicePollProg cfg now q) (fun rs' o => o = .err e ∧ rs'.ss = (rs.ss.exec .newId).1) rs := by
  unfold devicePollProg
  rw [wpH_run]
  unfold devicePollH
  simp only [wpH_bind, wpH_callH, authenticate]
  have h1 := step_exec_nf rc hnf rs .newId rfl
  have h2 := step_exec_nf rc hnf (rs.step rc .newId).1 (.getClient q.clientId) rfl
  rw [h1.1, exec_getClient_fst] at h2
  have hc : ((rs.ss.exec .newId).1.exec (.getClient q.clientId)).2 = .client client :=
    exec_getClient_of_find _ _ _ hpre.found
  rw [wpH_expectClient_client rc _ _ _ _ _ client (h2.2.trans hc)]
  rw [wpH_guard_true rc _ _ _ _ _ hpre.cred, wpH_pure, wpH_guard_true rc _ _ _ _ _ hpre.grant]
  have h3 := step_exec_nf rc hnf (RState.step rc (RState.step rc rs .newId).1 (.getClient q.clientId)).1 (.getDevice q.code.sig) rfl
  rw [h2.1, exec_getDevice_fst] at h3
  have hd : ((rs.ss.exec .newId).1.exec (.getDevice q.code.sig)).2 = .dev d := by
    rw [hsig, exec_getDevice_of_lookup (rs.ss.exec .newId).1 sig d hdev, hused]; rfl
  rw [wpH_expectDev_dev rc _ _ _ _ _ d (h3.2.trans hd)]
  generalize (RState.step rc (RState.step rc (RState.step rc rs .newId).1 (.getClient q.clientId)).1 (.getDevice q.code.sig)).1 = rs3 at h3 ⊢
  have hss := h3.1
  unfold deviceAnswer at hans
  unfold deviceStateGate
  by_cases hs0 : (d.state == 0) = true
  · simp only [hs0, if_true] at hans ⊢
    cases hans
    rw [wpH_fail]; exact ⟨rfl, hss⟩
  · by_cases hs2 : (d.state == 2) = true
    · simp only [hs0, hs2, Bool.false_eq_true, if_false, if_true] at hans ⊢
      cases hans
      rw [wpH_fail]; exact ⟨rfl, hss⟩
    · simp only [hs0, hs2, Bool.false_eq_true, if_false] at hans ⊢
      rw [wpH_ok]
      by_cases hexp : deviceExpired d cfg now = true
      · simp only [hexp, if_true] at hans
        cases hans
        rw [wpH_guard_false rc _ _ _ _ _ (by simp [hexp])]; exact ⟨rfl, hss⟩
      · simp only [hexp, Bool.false_eq_true, if_false] at hans
        rw [wpH_guard_true rc _ _ _ _ _ (by simpa using hexp)]
        by_cases hex : q.code.exact = true
        · simp only [hex, Bool.not_true, Bool.false_eq_true, if_false] at hans
          rw [wpH_guard_true rc _ _ _ _ _ hex]
          by_cases hcid : (d.req.client.id != client.id) = true
          · simp only [hcid, if_true] at hans
            cases hans
            rw [wpH_guard_false rc _ _ _ _ _ (by simpa using hcid)]; exact ⟨rfl, hss⟩
          · simp [hcid] at hans
        · simp only [hex, Bool.not_false, if_true] at hans
          cases hans
          rw [wpH_guard_false rc _ _ _ _ _ (by simpa using hex)]; exact ⟨rfl, hss⟩


/-- the state the replay branch leaves -/
def replayState (ss : SState) (rid : Nat) : SState :=
  (((ss.exec .newId).1.exec (.revokeAccess rid)).1.exec (.revokeRefresh rid)).1

theorem devicePoll_replay_wp (rc : RunCfg) (hnf : NoFaults rc) (cfg : Config) (now : Time) (q : DevicePollReq) (rs : RState)
    (client : Client) (sig : Nat) (d : DevRec)
    (hpre : PollPrefix q rs.ss client) (hsig : q.code.sig = some sig)
    (hdev : alookup rs.ss.store.device sig = some d) (hused : d.used = true) :
    wp rc (devicePollProg cfg now q) (fun rs' o => o = .err .invalid_grant ∧ rs'.ss = replayState rs.ss d.req.id) rs := by
  unfold devicePollProg
  rw [wpH_run]
  unfold devicePollH
  simp only [wpH_bind, wpH_callH, authenticate]
  have h1 := step_exec_nf rc hnf rs .newId rfl
  have h2 := step_exec_nf rc hnf (rs.step rc .newId).1 (.getClient q.clientId) rfl
  rw [h1.1, exec_getClient_fst] at h2
  have hc : ((rs.ss.exec .newId).1.exec (.getClient q.clientId)).2 = .client client :=
    exec_getClient_of_find _ _ _ hpre.found
  rw [wpH_expectClient_client rc _ _ _ _ _ client (h2.2.trans hc)]
  rw [wpH_guard_true rc _ _ _ _ _ hpre.cred, wpH_pure, wpH_guard_true rc _ _ _ _ _ hpre.grant]
  have h3 := step_exec_nf rc hnf (RState.step rc (RState.step rc rs .newId).1 (.getClient q.clientId)).1 (.getDevice q.code.sig) rfl
  rw [h2.1, exec_getDevice_fst] at h3
  have hd : ((rs.ss.exec .newId).1.exec (.getDevice q.code.sig)).2 = .usedDev d := by
    rw [hsig, exec_getDevice_of_lookup (rs.ss.exec .newId).1 sig d hdev, hused]; rfl
  have h3' := h3.2.trans hd
  rw [wpH_expectDev_other rc _ _ _ _ _ (by intro x hx; rw [h3'] at hx; cases hx), h3']
  generalize (RState.step rc (RState.step rc (RState.step rc rs .newId).1 (.getClient q.clientId)).1 (.getDevice q.code.sig)).1 = rs3 at h3 ⊢
  have hss := h3.1
  show wp rc (deviceReplay d.req.id) _ rs3
  unfold deviceReplay
  have h4 := step_exec_nf rc hnf rs3 (.revokeAccess d.req.id) rfl
  have h5 := step_exec_nf rc hnf (rs3.step rc (.revokeAccess d.req.id)).1 (.revokeRefresh d.req.id) rfl
  show wp rc (Prog.bind (call (.revokeAccess d.req.id)) _) _ rs3
  simp only [wp_bind, call, wp_call, wp_ret]
  refine ⟨rfl, ?_⟩
  rw [h5.1, h4.1, hss]; rfl



theorem alookup_of_filter {β} (l : List (Nat × β)) (p : Nat × β → Bool) (k : Nat) (v : β)
    (h : alookup (l.filter p) k = some v) : p (k, v) = true ∧ ∃ v', alookup l k = some v' := by
  induction l with
  | nil => simp [alookup] at h
  | cons x t ih =>
    obtain ⟨k', v'⟩ := x
    by_cases hp : p (k', v') = true
    · simp only [List.filter_cons, hp, if_true, alookup] at h ⊢
      by_cases hk : k' = k
      · subst hk; simp only [if_true] at h ⊢; cases h; exact ⟨hp, _, rfl⟩
      · simp only [hk, if_false] at h ⊢; exact ih h
    · simp only [List.filter_cons, hp, Bool.false_eq_true, if_false] at h
      obtain ⟨h1, v'', h2⟩ := ih h
      refine ⟨h1, ?_⟩
      simp only [alookup]
      by_cases hk : k' = k
      · exact ⟨v', by simp [hk]⟩
      · exact ⟨v'', by simp [hk, h2]⟩

theorem revokeRefreshS_access (s : Store) (rid : Nat) : (revokeRefreshS s rid).1.access = s.access := by
  unfold revokeRefreshS; (repeat' split) <;> rfl

theorem revokeRefreshS_device (s : Store) (rid : Nat) : (revokeRefreshS s rid).1.device = s.device := by
  unfold revokeRefreshS; (repeat' split) <;> rfl

theorem replayState_access (ss : SState) (rid : Nat) :
    (replayState ss rid).store.access = ss.store.access.filter (fun p => p.2.id != rid) := by
  simp only [replayState, SState.exec, revokeAccessS, revokeRefreshS_access]

theorem replayState_device (ss : SState) (rid : Nat) : (replayState ss rid).store.device = ss.store.device := by
  simp only [replayState, SState.exec, revokeAccessS, revokeRefreshS_device]

/-- after the replay branch no access-token record of the request id is left -/
theorem replayState_no_access (ss : SState) (rid : Nat) (sig : Nat) (r : Req)
    (h : alookup (replayState ss rid).store.access sig = some r) : r.id ≠ rid := by
  rw [replayState_access] at h
  have := (alookup_of_filter _ _ _ _ h).1
  simpa using this

/-- the refresh-token half of the grant invariant: an active refresh token is the one its request id points at -/
def RtIdxOk (ss : SState) : Prop :=
  ∀ sig rec, alookup ss.store.refresh sig = some rec → rec.active = true → alookup ss.store.rtIdx rec.req.id = some sig

theorem revokeRefreshS_inactive (s : Store) (rid : Nat)
    (hidx : ∀ sig rec, alookup s.refresh sig = some rec → rec.active = true → alookup s.rtIdx rec.req.id = some sig)
    (sig : Nat) (rec : RefreshRec)
    (h : alookup (revokeRefreshS s rid).1.refresh sig = some rec) (hid : rec.req.id = rid) : rec.active = false := by
  cases ha : rec.active with
  | false => rfl
  | true =>
    exfalso
    unfold revokeRefreshS at h
    cases hi : alookup s.rtIdx rid with
    | none =>
      simp only [hi] at h
      have := hidx sig rec h ha
      rw [hid, hi] at this; cases this
    | some sg =>
      simp only [hi] at h
      cases hl : alookup s.refresh sg with
      | none =>
        simp only [hl] at h
        have := hidx sig rec h ha
        rw [hid, hi] at this; cases this
        rw [hl] at h; cases h
      | some rc0 =>
        simp only [hl] at h
        rw [alookup_aset] at h
        by_cases hs : sig = sg
        · simp only [hs, if_true] at h; cases h; cases ha
        · simp only [hs, if_false] at h
          have := hidx sig rec h ha
          rw [hid, hi] at this; cases this; exact hs rfl

theorem replayState_no_active_refresh (ss : SState) (rid : Nat) (hidx : RtIdxOk ss) (sig : Nat) (rec : RefreshRec)
    (h : alookup (replayState ss rid).store.refresh sig = some rec) (hid : rec.req.id = rid) : rec.active = false := by
  simp only [replayState, SState.exec, revokeAccessS] at h
  exact revokeRefreshS_inactive { ss.store with access := ss.store.access.filter (fun p => p.2.id != rid) } rid
    (fun sg rc hl ha => hidx sg rc hl ha) sig rec h hid


/-- an unknown device code (no record under its signature — in particular one the reference store has
    deleted after a successful exchange) is answered `invalid_grant`; nothing changes -/
theorem devicePoll_unknown_wp (rc : RunCfg) (hnf : NoFaults rc) (cfg : Config) (now : Time) (q : DevicePollReq) (rs : RState)
    (client : Client) (hpre : PollPrefix q rs.ss client)
    (hnone : q.code.sig.bind (alookup rs.ss.store.device) = none) :
    wp rc (devicePollProg cfg now q) (fun rs' o => o = .err .invalid_grant ∧ rs'.ss = (rs.ss.exec .newId).1) rs := by
  unfold devicePollProg
  rw [wpH_run]
  unfold devicePollH
  simp only [wpH_bind, wpH_callH, authenticate]
  have h1 := step_exec_nf rc hnf rs .newId rfl
  have h2 := step_exec_nf rc hnf (rs.step rc .newId).1 (.getClient q.clientId) rfl
  rw [h1.1, exec_getClient_fst] at h2
  have hc : ((rs.ss.exec .newId).1.exec (.getClient q.clientId)).2 = .client client :=
    exec_getClient_of_find _ _ _ hpre.found
  rw [wpH_expectClient_client rc _ _ _ _ _ client (h2.2.trans hc)]
  rw [wpH_guard_true rc _ _ _ _ _ hpre.cred, wpH_pure, wpH_guard_true rc _ _ _ _ _ hpre.grant]
  have h3 := step_exec_nf rc hnf (RState.step rc (RState.step rc rs .newId).1 (.getClient q.clientId)).1 (.getDevice q.code.sig) rfl
  rw [h2.1, exec_getDevice_fst] at h3
  have hd : ((rs.ss.exec .newId).1.exec (.getDevice q.code.sig)).2 = .notFound := by
    simp only [SState.exec, hnone]
  have h3' := h3.2.trans hd
  rw [wpH_expectDev_other rc _ _ _ _ _ (by intro x hx; rw [h3'] at hx; cases hx), h3']
  exact ⟨rfl, h3.1⟩

/-! ### the same, for one `step` of the history model -/

theorem step_devicePoll_run (s : MState) (q : DevicePollReq) (Q : RState → Out → Prop)
    (h : wp {} (devicePollProg s.cfg s.now q) Q { ss := s.ss }) :
    ∃ rs', Q rs' (step s (.devicePoll q)).2.1 ∧ (step s (.devicePoll q)).1.ss = rs'.ss := by
  have hp := step_prog s (.devicePoll q) (devicePollProg s.cfg s.now q) rfl
  refine ⟨(run {} { ss := s.ss } (devicePollProg s.cfg s.now q)).1, ?_, hp.1⟩
  rw [hp.2]
  exact (wp_run {} _ Q _).mp h

theorem stepWith_devicePoll_run (rc : RunCfg) (s : MState) (q : DevicePollReq) (Q : RState → Out → Prop)
    (h : wp rc (devicePollProg s.cfg s.now q) Q { ss := s.ss }) :
    ∃ rs', Q rs' (stepWith rc s (.devicePoll q)).2.1 ∧ (stepWith rc s (.devicePoll q)).1.ss = rs'.ss := by
  rw [stepWith_prog rc s (.devicePoll q) (devicePollProg s.cfg s.now q) rfl]
  exact ⟨(run rc { ss := s.ss } (devicePollProg s.cfg s.now q)).1, (wp_run rc _ Q _).mp h, rfl⟩


/-- an authenticated client, registered for the device grant, presents a device code whose signature
    is the key of a stored device authorization -/
structure PresentsCode (s : MState) (q : DevicePollReq) (client : Client) (sig : Nat) (d : DevRec) : Prop where
  authd : PollPrefix q s.ss client
  key : q.code.sig = some sig
  stored : alookup s.ss.store.device sig = some d

/-- the endpoint answered with this RFC error -/
def Out.answers (e : Err) : Out → Bool
  | .err e' => e' == e
  | _ => false

theorem Out.answers_err (e : Err) : Out.answers e (.err e) = true := by simp [Out.answers]

/-- the empty state of a store that marks device codes as used satisfies the grant invariant -/
theorem init_GInv_devMark : GInv ({ ss := { devMark := true } } : MState).ss := by
  constructor <;> intros <;> simp_all [alookup]

end Fosite.Model

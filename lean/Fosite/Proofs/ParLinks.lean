/-
  Links that earlier history-level work left open (helper lemmas for `Props/C03c.lean`,
  `Props/C12d.lean`, `Props/C05c.lean`).

  1. PKCE (C03): what `authorizePar` leaves behind for a code it returns.  The authorization request is
     rebuilt from the pushed record, but the `Req` handed to the handlers carries the MERGED form
     (`mergeForm`): stored values overwrite same-named query values, other query values stay.  `AccF` is
     `AccOK` of `Proofs/PKCEHistory.lean` with the form as a parameter; `authorizePar_wpG` is the analogue
     of `authorize_wpG`; `history_respects_issuer` is `history_respects_bindings` for any family of
     issuing operations (`Issuer`), instantiated with `authorize`, `authorizePar`, and both.
  2. Confinement (C12): `ParCovered`, the history invariant "every stored pushed request was covered by
     the pushing client's registration under the configuration in force when it was pushed".
  3. Refresh issuance (C05): `wpP`, a call-log calculus in the style of `allCalls` / `cleanProg` whose call predicate
     also sees the path so far; `prog_refresh_rule` (every program, every path), `stepWith_refresh_rule` (runs).
-/
import Fosite.Proofs.PKCEHistory
import Fosite.Proofs.Confinement
import Fosite.Proofs.Taint
namespace Fosite.Model

attribute [local irreducible] wpG wpGH

/-! ## 1. PKCE binding of codes issued through a pushed authorization request -/

/-- first value stored under key `k` in a form ("" when absent): `url.Values.Get` -/
def formFind (l : List (String × String)) (k : String) : String :=
  match l.find? (fun p => p.1 == k) with
  | some p => p.2
  | none => ""

theorem formGet_eq_formFind (r : Req) (k : String) : r.formGet k = formFind r.form k := rfl

/-- `Sanitize` keeps the values of whitelisted keys -/
theorem find_filter_allowed (l : List (String × String)) (S : List String) (k : String) (hk : S.contains k = true) :
    (l.filter (fun p => S.contains p.1)).find? (fun p => p.1 == k) = l.find? (fun p => p.1 == k) := by
  induction l with
  | nil => rfl
  | cons p t ih =>
    by_cases hp : (p.1 == k) = true
    · have : S.contains p.1 = true := by rw [beq_iff_eq] at hp; rw [hp]; exact hk
      simp only [List.filter_cons, this, if_true, List.find?_cons, hp]
    · have hp' : (p.1 == k) = false := by simpa using hp
      by_cases hs : S.contains p.1 = true
      · simp only [List.filter_cons, hs, if_true, List.find?_cons, hp', ih]
      · simp only [List.filter_cons, hs, if_false, List.find?_cons, hp', ih, Bool.false_eq_true]

theorem sanitize_formGet (r : Req) (allowed : List String) (k : String) (hk : (allowed ++ defaultAllowed).contains k = true) :
    (r.sanitize allowed).formGet k = r.formGet k := by
  unfold Req.formGet Req.sanitize
  simp only [find_filter_allowed _ _ _ hk]

theorem any_key_intro (l : List (String × String)) (k : String) (x : String × String) (hx : x ∈ l)
    (hk : (x.1 == k) = true) : l.any (fun s => s.1 == k) = true :=
  List.any_eq_true.mpr ⟨x, hx, hk⟩

/-- `Request.Merge` on one key: the stored value when the stored form has the key, the query value otherwise -/
theorem formFind_mergeForm (query stored : List (String × String)) (k : String) :
    formFind (mergeForm query stored) k =
      if stored.any (fun s => s.1 == k) = true then formFind stored k else formFind query k := by
  unfold formFind mergeForm
  rw [List.find?_append]
  by_cases hs : stored.any (fun s => s.1 == k) = true
  · simp only [hs, if_true]
    have : (query.filter (fun kv => !(stored.any (fun s => s.1 == kv.1)))).find? (fun p => p.1 == k) = none := by
      rw [List.find?_eq_none]
      intro x hx hxk
      rw [List.mem_filter] at hx
      rw [beq_iff_eq] at hxk
      rw [hxk, hs] at hx
      exact absurd hx.2 (by simp)
    rw [this]; rfl
  · simp only [hs, if_false, Bool.false_eq_true]
    have hnone : stored.find? (fun p => p.1 == k) = none := by
      rw [List.find?_eq_none]
      intro x hx hxk
      exact hs (any_key_intro _ _ x hx hxk)
    rw [hnone, Option.or_none]
    have hsf : stored.any (fun s => s.1 == k) = false := Bool.eq_false_iff.mpr hs
    congr 1
    induction query with
    | nil => rfl
    | cons p t ih =>
      by_cases hp : (p.1 == k) = true
      · have hpk : p.1 = k := by simpa using hp
        have : (!(stored.any (fun s => s.1 == p.1))) = true := by rw [hpk, hsf]; rfl
        simp only [List.filter_cons, this, if_true, List.find?_cons, hp]
      · have hp' : (p.1 == k) = false := by simpa using hp
        by_cases hf : (!(stored.any (fun s => s.1 == p.1))) = true
        · simp only [List.filter_cons, hf, if_true, List.find?_cons, hp', ih]
        · simp only [List.filter_cons, hf, if_false, List.find?_cons, hp', ih, Bool.false_eq_true]

/-- a key with a non-empty value is present -/
theorem any_of_formFind_ne (l : List (String × String)) (k : String) (h : formFind l k ≠ "") :
    l.any (fun s => s.1 == k) = true := by
  unfold formFind at h
  split at h
  · rename_i p hp
    exact any_key_intro _ _ p (List.mem_of_find?_eq_some hp) (List.find?_some (p := fun (p : String × String) => p.1 == k) hp)
  · exact absurd rfl h

/-- the `code_challenge_method` the PKCE session of a code issued through a pushed request records:
    the pushed one when the pushed form has the key, else the one sent next to the `request_uri` -/
def parMethod (p : ParRec) (a : AuthzParReq) : String :=
  if p.req.form.any (fun s => s.1 == "code_challenge_method") = true then p.req.formGet "code_challenge_method"
  else formFind a.extra "code_challenge_method"

theorem parMethod_pushed (p : ParRec) (a : AuthzParReq)
    (h : p.req.form.any (fun s => s.1 == "code_challenge_method") = true ∨ a.extra.any (fun s => s.1 == "code_challenge_method") = false) :
    parMethod p a = p.req.formGet "code_challenge_method" := by
  unfold parMethod
  split
  · rfl
  · rename_i hn
    rcases h with h | h
    · exact absurd h hn
    · have h1 : a.extra.find? (fun p => p.1 == "code_challenge_method") = none := by
        rw [List.find?_eq_none]; intro x hx hxk
        have := any_key_intro _ _ x hx hxk
        rw [h] at this; cases this
      have h2 : p.req.form.find? (fun p => p.1 == "code_challenge_method") = none := by
        rw [List.find?_eq_none]; intro x hx hxk
        exact hn (any_key_intro _ _ x hx hxk)
      simp only [formFind, Req.formGet, h1, h2]

/-- the merged form of `authorizeParH`, read at the two PKCE keys -/
theorem merged_challenge (p : ParRec) (a : AuthzParReq) (hch : p.req.formGet "code_challenge" ≠ "") :
    formFind (mergeForm ([("client_id", a.clientId)] ++ a.extra) p.req.form) "code_challenge" = p.req.formGet "code_challenge" := by
  rw [formFind_mergeForm, any_of_formFind_ne _ _ hch, if_pos rfl]; rfl

theorem merged_method (p : ParRec) (a : AuthzParReq) :
    formFind (mergeForm ([("client_id", a.clientId)] ++ a.extra) p.req.form) "code_challenge_method" = parMethod p a := by
  rw [formFind_mergeForm]
  unfold parMethod
  split
  · rfl
  · show formFind (("client_id", a.clientId) :: a.extra) "code_challenge_method" = _
    unfold formFind
    rw [List.find?_cons]
    have : (("client_id", a.clientId).1 == "code_challenge_method") = false := by
      show ("client_id" == "code_challenge_method") = false
      decide
    simp only [this]

/-- `AccOK` of `Proofs/PKCEHistory.lean` with the request's form as a parameter `F` -/
def AccF (n0 : Nat) (q : AuthzReq) (F : List (String × String)) (ss : SState) (acc : AuthzAcc) : Prop :=
  acc.ar.form = F ∧ n0 ≤ ss.next ∧
  ∀ c, acc.code = some c → q.responseTypes.contains "code" = true ∧ n0 ≤ c ∧ c < ss.next ∧
    ∃ rec, alookup ss.store.codes c = some rec ∧ rec.active = true

theorem AccF_exec (n0 : Nat) (q F) (ss : SState) (acc : AuthzAcc) (c : Call) (hc : ∀ k, c ≠ .invalidateCode k)
    (h : AccF n0 q F ss acc) : AccF n0 q F (ss.exec c).1 acc := by
  obtain ⟨h1, h2, h3⟩ := h
  have hm := exec_next_mono ss c
  refine ⟨h1, Nat.le_trans h2 hm, ?_⟩
  intro cd hcd
  obtain ⟨a0, a1, a2, rec, a3, a4⟩ := h3 cd hcd
  refine ⟨a0, a1, Nat.lt_of_lt_of_le a2 hm, rec, ?_, a4⟩
  rcases exec_codes_cases ss c with he | ⟨r, _, he⟩ | ⟨s2, rec2, hc', _, _⟩
  · rw [he]; exact a3
  · rw [he, alookup_aset]; simp [Nat.ne_of_lt a2, a3]
  · exact absurd hc' (hc _)

theorem AccF_createCode (n0 : Nat) (q F) (ss : SState) (acc acc' : AuthzAcc) (r : Req)
    (h : AccF n0 q F ss acc) (hrt : q.responseTypes.contains "code" = true)
    (hf : acc'.ar.form = F) (hcode : acc'.code = some ss.next) :
    AccF n0 q F (ss.exec (.createCode r)).1 acc' := by
  obtain ⟨_, h2, _⟩ := h
  refine ⟨hf, ?_, ?_⟩
  · rw [exec_next_createCode]; omega
  · intro c hc
    rw [hcode] at hc; cases hc
    refine ⟨hrt, h2, by rw [exec_next_createCode]; omega, { active := true, req := r }, ?_, rfl⟩
    rw [(exec_createCode_effect ss r).1]; exact alookup_aset_self _ _ _

theorem AccF_congr (n0 : Nat) (q F) (ss : SState) (acc acc' : AuthzAcc) (h : AccF n0 q F ss acc)
    (hf : acc'.ar.form = acc.ar.form) (hc : acc'.code = acc.code) : AccF n0 q F ss acc' :=
  ⟨hf.trans h.1, h.2.1, fun c hcd => h.2.2 c (hc ▸ hcd)⟩

section
variable (n0 : Nat) (F : List (String × String))

theorem accF_authzExplicit (cfg : Config) (now : Time) (client : Client) (q : AuthzReq) (acc : AuthzAcc)
    (Kok : SState → AuthzAcc → Prop) (ss : SState) (h : AccF n0 q F ss acc)
    (hok : ∀ ss' acc', AccF n0 q F ss' acc' → Kok ss' acc') :
    wpGH anyState anyCall (authzExplicit cfg now client q acc) Kok (fun _ _ => True) ss := by
  unfold authzExplicit
  wps_step
  refine ⟨fun _ => hok _ _ h, fun hrt _ _ _ => ?_⟩
  simp only [exec_createCode_snd, Res.nat.injEq, forall_eq']
  exact hok _ _ (AccF_createCode n0 q F ss acc _ _ h (code_of_explicit _ (by simpa using hrt)) h.1 rfl)

theorem accF_authzImplicit (cfg : Config) (now : Time) (client : Client) (q : AuthzReq) (acc : AuthzAcc)
    (Kok : SState → AuthzAcc → Prop) (ss : SState) (h : AccF n0 q F ss acc)
    (hok : ∀ ss' acc', AccF n0 q F ss' acc' → Kok ss' acc') :
    wpGH anyState anyCall (authzImplicit cfg now client q acc) Kok (fun _ _ => True) ss := by
  unfold authzImplicit
  wps_step
  refine ⟨fun _ => hok _ _ h, fun _ _ _ _ n _ => ?_⟩
  apply hok
  exact AccF_congr n0 q F _ acc _ (AccF_exec n0 q F ss acc _ (by intro k hk; cases hk) h) rfl rfl

theorem accF_authzOIDCExplicit (q : AuthzReq) (acc : AuthzAcc)
    (Kok : SState → AuthzAcc → Prop) (ss : SState) (h : AccF n0 q F ss acc)
    (hok : ∀ ss' acc', AccF n0 q F ss' acc' → Kok ss' acc') :
    wpGH anyState anyCall (authzOIDCExplicit q acc) Kok (fun _ _ => True) ss := by
  unfold authzOIDCExplicit
  wps_step
  refine ⟨fun _ => hok _ _ h, fun _ => ?_⟩
  split
  · wps_step
  · wps_step
    intro _ _ _
    exact hok _ _ (AccF_exec n0 q F ss acc _ (by intro k hk; cases hk) h)

theorem accF_authzHybrid (cfg : Config) (now : Time) (minNonce : Nat) (client : Client) (q : AuthzReq) (acc : AuthzAcc)
    (Kok : SState → AuthzAcc → Prop) (ss : SState) (h : AccF n0 q F ss acc)
    (hok : ∀ ss' acc', AccF n0 q F ss' acc' → Kok ss' acc') :
    wpGH anyState anyCall (authzHybrid cfg now minNonce client q acc) Kok (fun _ _ => True) ss := by
  unfold authzHybrid
  wps_step
  refine ⟨fun _ => hok _ _ h, fun hrt _ _ _ _ _ _ => ?_⟩
  have hrt' : q.responseTypes.contains "code" = true := isHybrid_code _ (by simpa using hrt)
  simp only [exec_createCode_snd, Res.nat.injEq, forall_eq']
  refine ⟨fun _ _ => ⟨fun _ _ n _ => ?_, fun _ => ?_⟩, fun _ => ⟨fun _ _ n _ => ?_, fun _ => ?_⟩⟩
  all_goals
    apply hok
    repeat (first
      | exact AccF_createCode n0 q F ss acc _ _ h hrt' h.1 rfl
      | apply AccF_exec _ _ _ _ _ _ (by intro k hk; cases hk))

/-- the PKCE handler of the authorization endpoint, the request's form being `F`: when the request the
    handlers see carries a challenge, the code's PKCE session records the form's challenge and method -/
theorem accF_authzPKCE (cfg : Config) (client : Client) (q : AuthzReq) (acc : AuthzAcc)
    (Kok : SState → AuthzAcc → Prop) (ss : SState) (h : AccF n0 q F ss acc)
    (hok : ∀ ss', AccF n0 q F ss' acc →
      (q.challenge ≠ "" → ∀ c, acc.code = some c → ∃ pr, alookup ss'.store.pkce c = some pr ∧
        pr.formGet "code_challenge" = formFind F "code_challenge" ∧
        pr.formGet "code_challenge_method" = formFind F "code_challenge_method") → Kok ss' acc) :
    wpGH anyState anyCall (authzPKCE cfg client q acc) Kok (fun _ _ => True) ss := by
  unfold authzPKCE
  wps_step
  refine ⟨fun hrt => ?_, fun _ _ => ⟨fun hemp => ?_, fun _ => ?_⟩⟩
  · apply hok _ h
    intro _ c hc
    have := (h.2.2 c hc).1
    rw [this] at hrt; cases hrt
  · apply hok _ h
    intro hch
    simp only [Bool.and_eq_true, beq_iff_eq] at hemp
    exact absurd hemp.1 hch
  · split
    · wps_step
    · rename_i c hc
      wps_step
      intro _
      apply hok _ (AccF_exec n0 q F ss acc _ (by intro k hk; cases hk) h)
      intro hch c' hc'
      rw [hc] at hc'; cases hc'
      refine ⟨acc.ar.sanitize ["code_challenge", "code_challenge_method"], ?_, ?_, ?_⟩
      · simp only [SState.exec]
        exact alookup_aset_self _ _ _
      · rw [sanitize_formGet _ _ _ (by decide), formGet_eq_formFind, h.1]
      · rw [sanitize_formGet _ _ _ (by decide), formGet_eq_formFind, h.1]

end

/-- what `authorizePar`, started in `ss`, leaves behind for a code it returns (see `authorizePar_wpG`) -/
def ParPost (a : AuthzParReq) (ss : SState) (ss' : SState) (o : Out) : Prop :=
  ∀ c atk idt, o = .authz (some c) atk idt →
    ∃ u p, a.uri = some u ∧ alookup ss.store.par u = some p ∧
    ss.next ≤ c ∧ c < ss'.next ∧ (∃ rec, alookup ss'.store.codes c = some rec ∧ rec.active = true) ∧
    (p.req.formGet "code_challenge" ≠ "" → ∃ pr, alookup ss'.store.pkce c = some pr ∧
      pr.formGet "code_challenge" = p.req.formGet "code_challenge" ∧
      pr.formGet "code_challenge_method" = parMethod p a)

theorem ParPost_err (a : AuthzParReq) (ss ss' : SState) (e : Err) : ParPost a ss ss' (.err e) :=
  fun _ _ _ h => by cases h

/-- **What the authorization endpoint leaves behind for a code it returns for a `request_uri`**: the
    pushed record it worked on, a fresh signature, a stored unredeemed code, and — when the PUSHED form
    carried a `code_challenge` — a PKCE session recording that challenge and `parMethod`. -/
theorem authorizePar_wpG (cfg : Config) (now : Time) (minNonce : Nat) (a : AuthzParReq) (ss : SState) :
    wpG anyState anyCall (authorizeParProg cfg now minNonce a) (ParPost a ss) ss := by
  unfold authorizeParProg authorizeParH
  wps_step
  refine ⟨fun p hp => ⟨fun _ => ⟨fun _ => ⟨fun _ => ?_, fun _ => ParPost_err _ _ _ _⟩, fun e _ => ParPost_err _ _ _ _⟩,
    fun _ => ParPost_err _ _ _ _⟩, fun _ => ParPost_err _ _ _ _⟩
  obtain ⟨u, hu, hl⟩ := exec_getPAR_par _ _ _ hp
  have weaken : ∀ {α} (x : HP α) (Kok : SState → α → Prop) (s' : SState),
      wpGH anyState anyCall x Kok (fun _ _ => True) s' →
      wpGH anyState anyCall x Kok (fun ss' e => ParPost a ss ss' (Out.err e)) s' := by
    intro α x Kok s' hw
    exact wpGH_mono _ _ x Kok Kok _ _ s' (fun _ _ h => h) (fun _ e _ => ParPost_err _ _ _ _) hw
  have h0 : ∀ acc0 : AuthzAcc, acc0.ar.form = mergeForm ([("client_id", a.clientId)] ++ a.extra) p.req.form → acc0.code = none →
      AccF ss.next (authzReqOfPar p a) (mergeForm ([("client_id", a.clientId)] ++ a.extra) p.req.form)
        ((ss.exec (Call.getPAR a.uri)).fst.exec (Call.deletePAR a.uri)).fst acc0 := by
    intro acc0 hf hc
    refine ⟨hf, ?_, fun c hcc => by rw [hc] at hcc; cases hcc⟩
    exact Nat.le_trans (exec_next_mono _ _) (exec_next_mono _ _)
  apply weaken
  apply accF_authzExplicit ss.next _ _ _ _ _ _ _ _ (h0 _ rfl rfl)
  intro s1 a1 h1
  apply weaken
  apply accF_authzImplicit ss.next _ _ _ _ _ _ _ _ h1
  intro s2 a2 h2
  apply weaken
  apply accF_authzOIDCExplicit ss.next _ _ _ _ _ h2
  intro s3 a3 h3
  refine ⟨?_, fun _ => ParPost_err _ _ _ _⟩
  intro _
  apply weaken
  apply accF_authzHybrid ss.next _ _ _ _ _ _ _ _ _ h3
  intro s5 a5 h5
  apply weaken
  apply accF_authzPKCE ss.next _ _ _ _ _ _ _ h5
  intro s6 h6 hpk
  intro c atk idt ho
  have hcode : a5.code = some c := by injection ho
  obtain ⟨_, b1, b2, b3⟩ := h6.2.2 c hcode
  refine ⟨u, p, hu, hl, b1, b2, b3, fun hch => ?_⟩
  obtain ⟨pr, e1, e2, e3⟩ := hpk hch c hcode
  exact ⟨pr, e1, e2.trans (merged_challenge p a hch), e3.trans (merged_method p a)⟩

/-- `authorizePar_wpG` for `step` -/
theorem authorizePar_establishes (s : MState) (a : AuthzParReq) (c : Nat) (atk : Option Nat) (idt : Bool)
    (h : (step s (.authorizePar a)).2.1 = .authz (some c) atk idt) :
    ∃ u p, a.uri = some u ∧ alookup s.ss.store.par u = some p ∧
      s.ss.next ≤ c ∧ c < (step s (.authorizePar a)).1.ss.next ∧
      (∃ rec, alookup (step s (.authorizePar a)).1.ss.store.codes c = some rec ∧ rec.active = true) ∧
      (p.req.formGet "code_challenge" ≠ "" →
        PKCEBound (step s (.authorizePar a)).1.ss c (p.req.formGet "code_challenge") (parMethod p a)) := by
  rw [step_evalS s (.authorizePar a) (authorizeParProg s.cfg s.now s.minNonce a) rfl] at h ⊢
  have hw := (wpG_sound anyState anyCall (fun _ _ _ _ => trivial) _ _ s.ss trivial
    (authorizePar_wpG s.cfg s.now s.minNonce a s.ss)).2 c atk idt h
  obtain ⟨u, p, hu, hl, h1, h2, h3, h4⟩ := hw
  exact ⟨u, p, hu, hl, h1, h2, h3, fun hch => ⟨hch, h3, h4 hch⟩⟩

/-! ### all bindings of all histories, for any family of issuing operations -/

/-- (code signature, challenge, method) -/
abbrev PkceBinding := Nat × String × String

/-- the bindings a history establishes, `f s op` being those the operation `op` establishes when run in `s` -/
def issuedBy (f : MState → Op → List PkceBinding) (s : MState) : List Op → List PkceBinding
  | [] => []
  | op :: ops => f s op ++ issuedBy f (step s op).1 ops

/-- `f` reports bindings that are in place after the operation, under freshly minted signatures, and
    none for a code redemption -/
structure Issuer (f : MState → Op → List PkceBinding) : Prop where
  bound : ∀ s op x, x ∈ f s op → BoundOrSpent (step s op).1.ss x.1 x.2.1 x.2.2
  fresh : ∀ s op x, x ∈ f s op → s.ss.next ≤ x.1
  notRedeem : ∀ s q, f s (.redeem q) = []

theorem issuedBy_ge (f) (hf : Issuer f) (ops : List Op) (s : MState) : ∀ x ∈ issuedBy f s ops, s.ss.next ≤ x.1 := by
  induction ops generalizing s with
  | nil => intro x hx; cases hx
  | cons op ops ih =>
    intro x hx
    simp only [issuedBy, List.mem_append] at hx
    rcases hx with hx | hx
    · exact hf.fresh s op x hx
    · exact Nat.le_trans (step_next_mono s op) (ih _ x hx)

/-- `history_respects_bindings` for any issuer: a token response for a bound code means the PKCE
    handler compared the presented verifier with the recorded challenge, and accepted -/
theorem history_respects_issuer (f) (hf : Issuer f) (ops : List Op) (s : MState) (hcb : CodesBelow s.ss)
    (K : List PkceBinding) (hK : ∀ x ∈ K, BoundOrSpent s.ss x.1 x.2.1 x.2.2) :
    ∀ q out, (Op.redeem q, out) ∈ trace s ops → out.tokensIssued = true →
      ∀ x ∈ K ++ issuedBy f s ops, q.code.sig = some x.1 →
        x.2.1 ≠ "" ∧ ∃ cfg pub, pkceVerify cfg x.2.1 x.2.2 q.verifier = none ∧ pkceValidate cfg x.2.1 x.2.2 pub = none := by
  induction ops generalizing s K with
  | nil => intro q out h; cases h
  | cons op ops ih =>
    intro q out hmem htok x hx hsig
    simp only [issuedBy] at hx
    simp only [trace, List.mem_cons] at hmem
    rcases hmem with hhead | htail
    · injection hhead with h1 h2
      subst h1
      rw [hf.notRedeem s q, List.nil_append] at hx
      rw [h2] at htok
      rcases List.mem_append.mp hx with hk | hfut
      · have hb := hK x hk
        obtain ⟨client, _, hB, hpk⟩ := redeem_tokens_SpentOr x.1 (BoundAt x.2.1 x.2.2) s q hb hsig htok
        obtain ⟨hch, _, pr, hpr, e1, e2⟩ := hB
        rw [hpr] at hpk
        obtain ⟨v1, v2⟩ := pkceVerdict_some _ _ _ _ hpk
        rw [e1, e2] at v1 v2
        exact ⟨hch, s.cfg, _, v2, v1⟩
      · exfalso
        have hge := issuedBy_ge f hf ops (step s (.redeem q)).1 x hfut
        rw [(step_redeem_pure s q).2.1] at htok
        obtain ⟨client, rec, hv⟩ := redeemPure_tokens s.cfg s.now q s.ss htok
        obtain ⟨_, _, _, hrec, _⟩ := redeemVerdict_issue _ _ _ _ _ _ _ hv
        rw [hsig] at hrec
        simp only [Option.bind_some] at hrec
        have hlt := hcb _ _ hrec
        have := step_next_mono s (.redeem q)
        omega
    · have := ih (step s op).1 (step_CodesBelow s op hcb) (K ++ f s op) (by
        intro y hy
        rcases List.mem_append.mp hy with hy | hy
        · exact step_SpentOr y.1 (BoundAt y.2.1 y.2.2) s op (hK y hy)
        · exact hf.bound s op y hy) q out htail htok x (by rw [List.append_assoc]; exact hx) hsig
      exact this

/-- bindings established by `authorize` (as `issuedWithChallenge`) -/
def authzIssue (s : MState) : Op → List PkceBinding
  | .authorize q =>
    match (step s (.authorize q)).2.1 with
    | .authz (some c) _ _ => if q.challenge != "" then [(c, q.challenge, q.method)] else []
    | _ => []
  | _ => []

/-- bindings established by `authorizePar`: the code returned, the PUSHED challenge, and `parMethod` -/
def parIssue (s : MState) : Op → List PkceBinding
  | .authorizePar a =>
    match (step s (.authorizePar a)).2.1, a.uri.bind (alookup s.ss.store.par) with
    | .authz (some c) _ _, some p =>
      if p.req.formGet "code_challenge" != "" then [(c, p.req.formGet "code_challenge", parMethod p a)] else []
    | _, _ => []
  | _ => []

theorem authzIssue_issuer : Issuer authzIssue := by
  refine ⟨?_, ?_, fun _ _ => rfl⟩
  · intro s op x hx
    cases op <;> try (cases hx)
    rename_i q
    simp only [authzIssue] at hx
    split at hx
    · rename_i c atk idt hout
      split at hx
      · rename_i hch
        simp only [List.mem_singleton] at hx; subst hx
        obtain ⟨_, h2, _, h4⟩ := authorize_establishes s q c atk idt hout
        exact ⟨h2, Or.inr (h4 (by simpa using hch))⟩
      · cases hx
    · cases hx
  · intro s op x hx
    cases op <;> try (cases hx)
    rename_i q
    simp only [authzIssue] at hx
    split at hx
    · rename_i c atk idt hout
      split at hx
      · simp only [List.mem_singleton] at hx; subst hx
        exact (authorize_establishes s q c atk idt hout).1
      · cases hx
    · cases hx

theorem parIssue_mem (s : MState) (a : AuthzParReq) (x : PkceBinding) (hx : x ∈ parIssue s (.authorizePar a)) :
    ∃ c atk idt u p, (step s (.authorizePar a)).2.1 = .authz (some c) atk idt ∧ a.uri = some u ∧
      alookup s.ss.store.par u = some p ∧ p.req.formGet "code_challenge" ≠ "" ∧
      x = (c, p.req.formGet "code_challenge", parMethod p a) := by
  simp only [parIssue] at hx
  split at hx
  · rename_i c atk idt p hout hp
    split at hx
    · rename_i hch
      simp only [List.mem_singleton] at hx
      cases hu : a.uri with
      | none => rw [hu] at hp; cases hp
      | some u =>
        rw [hu] at hp
        exact ⟨c, atk, idt, u, p, hout, rfl, hp, by simpa using hch, hx⟩
    · cases hx
  · cases hx

theorem parIssue_issuer : Issuer parIssue := by
  refine ⟨?_, ?_, fun _ _ => rfl⟩
  · intro s op x hx
    cases op <;> try (cases hx)
    rename_i a
    obtain ⟨c, atk, idt, u, p, hout, hu, hl, hch, rfl⟩ := parIssue_mem s a x hx
    obtain ⟨u', p', hu', hl', _, h2, _, h4⟩ := authorizePar_establishes s a c atk idt hout
    rw [hu] at hu'; cases hu'
    rw [hl] at hl'; cases hl'
    exact ⟨h2, Or.inr (h4 hch)⟩
  · intro s op x hx
    cases op <;> try (cases hx)
    rename_i a
    obtain ⟨c, atk, idt, u, p, hout, hu, hl, hch, rfl⟩ := parIssue_mem s a x hx
    obtain ⟨_, _, _, _, h1, _⟩ := authorizePar_establishes s a c atk idt hout
    exact h1

theorem Issuer_append (f g) (hf : Issuer f) (hg : Issuer g) : Issuer (fun s op => f s op ++ g s op) := by
  refine ⟨?_, ?_, fun s q => by simp only [hf.notRedeem, hg.notRedeem, List.append_nil]⟩
  · intro s op x hx
    rcases List.mem_append.mp hx with h | h
    · exact hf.bound s op x h
    · exact hg.bound s op x h
  · intro s op x hx
    rcases List.mem_append.mp hx with h | h
    · exact hf.fresh s op x h
    · exact hg.fresh s op x h

theorem issuedBy_append_mem (f g) (s : MState) (ops : List Op) (x : PkceBinding) :
    x ∈ issuedBy (fun s op => f s op ++ g s op) s ops ↔ x ∈ issuedBy f s ops ∨ x ∈ issuedBy g s ops := by
  induction ops generalizing s with
  | nil => simp [issuedBy]
  | cons op ops ih =>
    simp only [issuedBy, List.mem_append, ih]
    constructor
    · rintro ((h | h) | (h | h))
      · exact Or.inl (Or.inl h)
      · exact Or.inr (Or.inl h)
      · exact Or.inl (Or.inr h)
      · exact Or.inr (Or.inr h)
    · rintro ((h | h) | (h | h))
      · exact Or.inl (Or.inl h)
      · exact Or.inr (Or.inl h)
      · exact Or.inl (Or.inr h)
      · exact Or.inr (Or.inr h)

/-- `issuedBy authzIssue` is `issuedWithChallenge` of the trace -/
theorem issuedBy_authz (s : MState) (ops : List Op) : issuedBy authzIssue s ops = issuedWithChallenge (trace s ops) := by
  induction ops generalizing s with
  | nil => rfl
  | cons op ops ih =>
    simp only [issuedBy, trace, ih]
    cases op <;> try rfl
    rename_i q
    simp only [authzIssue]
    cases hout : (step s (.authorize q)).2.1 <;> try rfl
    rename_i code atk idt
    cases code <;> rfl


/-! ## 2. Stored pushed requests were covered at push time -/

def Call.isCreatePAR : Call → Bool
  | .createPAR _ => true
  | _ => false

/-- the call does not store a pushed authorization request -/
def NoPAR (c : Call) : Prop := c.isCreatePAR = false

/-- the pushed-request table of `ss` holds nothing that `ss0` did not hold -/
def ParShrinks (ss0 ss : SState) : Prop :=
  ∀ u p, alookup ss.store.par u = some p → alookup ss0.store.par u = some p

theorem exec_par_noPAR (ss : SState) (c : Call) (h : NoPAR c) : ParShrinks ss (ss.exec c).1 := by
  intro u p hl
  cases c with
  | createPAR r => cases h
  | deletePAR k =>
    cases k with
    | none => exact hl
    | some k' =>
      simp only [SState.exec, alookup_adel] at hl
      split at hl
      · cases hl
      · exact hl
  | _ =>
    simp only [SState.exec, revokeAccessS, revokeRefreshS] at hl
    (repeat' split at hl) <;> exact hl

/-- what every call of a program preserves, its fault-free run preserves -/
theorem evalS_allCalls_inv {α} (P : Call → Prop) (I : SState → Prop) (hI : ∀ ss c, P c → I ss → I (ss.exec c).1)
    (p : Prog α) (ss : SState) (hp : allCalls P p) (h : I ss) : I (evalS ss p).1 := by
  induction p generalizing ss with
  | ret a => exact h
  | call c k ih => exact ih _ _ (hp.2 _) (hI ss c hp.1 h)

/-- what `parPush`, run under `cfg` against the client table `clients`, stores: the registration looked up
    (which authenticated), the de-duplicated requested scopes and audiences, covered by that registration
    under `cfg`'s scope and audience strategies -/
structure PushedOk (cfg : Config) (clients : List Client) (pp : ParPushReq) (p : ParRec) : Prop where
  client : clients.find? (fun c => c.id == pp.q.clientId) = some p.req.client
  auth : (p.req.client.isPublic || pp.credOk) = true
  scopes : p.req.reqScopes = appendAllUniq [] pp.q.scopes
  aud : p.req.reqAud = appendAllUniq [] pp.q.aud
  shape : p.redirect = pp.q.redirect ∧ p.responseTypes = pp.q.responseTypes ∧ p.state = pp.q.state
  covers : Covers cfg p.req.client p.req.reqScopes p.req.reqAud

/-- after a `parPush` started in `ss`: every stored pushed request was there before, or is fresh and `PushedOk` -/
def PushPost (cfg : Config) (pp : ParPushReq) (ss ss' : SState) : Prop :=
  ∀ u p, alookup ss'.store.par u = some p →
    alookup ss.store.par u = some p ∨ (ss.next ≤ u ∧ PushedOk cfg ss.clients pp p)

theorem PushPost_same (cfg pp) (ss ss' : SState) (h : ss'.store.par = ss.store.par) : PushPost cfg pp ss ss' := by
  intro u p hl; rw [h] at hl; exact Or.inl hl

theorem parPush_wpG (cfg : Config) (now : Time) (pp : ParPushReq) (ss : SState) :
    wpG anyState anyCall (parPushProg cfg now pp) (fun ss' _ => PushPost cfg pp ss ss') ss := by
  unfold parPushProg parPushH authenticate
  wps_step
  simp only [exec_getClient_fst]
  have hsame : ∀ s1 : SState, s1.store.par = ss.store.par → PushPost cfg pp ss s1 :=
    fun s1 h => PushPost_same _ _ _ _ h
  refine ⟨fun c0 hc0 => ⟨fun hauth => ⟨fun _ => ⟨fun client hcl => ?_, fun _ => hsame _ rfl⟩, fun _ => hsame _ rfl⟩,
    fun _ => hsame _ rfl⟩, fun _ => hsame _ rfl⟩
  have hcc : c0 = client := by rw [hc0] at hcl; cases hcl; rfl
  subst hcc
  have hfind := exec_getClient_find _ _ _ hc0
  refine ⟨fun _ => ⟨fun _ => ⟨fun _ => ⟨fun _ => hsame _ rfl, fun _ => ?_⟩, fun _ => hsame _ rfl⟩, fun _ _ => hsame _ rfl⟩,
    fun _ => hsame _ rfl⟩
  refine ⟨fun _ => ⟨fun hsc => ⟨fun haud => ⟨fun n hn => ⟨fun u _ => ?_, fun _ => ?_⟩, fun _ => hsame _ rfl⟩,
    fun _ _ => hsame _ rfl⟩, fun _ => hsame _ rfl⟩, fun _ => hsame _ rfl⟩
  all_goals
    intro u' p' hl
    simp only [SState.exec, alookup_aset] at hl
    split at hl
    · rename_i hk
      cases hl
      exact Or.inr ⟨by omega, hfind, hauth, rfl, rfl, ⟨rfl, rfl, rfl⟩, hsc, haud⟩
    · exact Or.inl hl

theorem parPush_establishes (s : MState) (pp : ParPushReq) :
    PushPost s.cfg pp s.ss (step s (.parPush pp)).1.ss := by
  rw [step_evalS s (.parPush pp) (parPushProg s.cfg s.now pp) rfl]
  exact (wpG_sound anyState anyCall (fun _ _ _ _ => trivial) _ _ s.ss trivial (parPush_wpG s.cfg s.now pp s.ss)).2

/-! no other endpoint program stores a pushed request -/

theorem noPAR_of_quiet (c : Call) (h : Quiet c) : NoPAR c := by
  cases c <;> first | rfl | cases h

macro "nopar_side" : tactic => `(tactic| ((with_reducible show NoPAR _); exact rfl))
macro "nopar_known" : tactic => `(tactic| first
  | exact allH_of_quiet _ noPAR_of_quiet _ (by quiet_known)
  | exact allCalls_of_quiet _ noPAR_of_quiet _ (by quiet_known))
macro "nopar_walk" : tactic => `(tactic| walk_with (nopar_side) (nopar_known))

theorem noPAR_authorizeProg (cfg now mn q) : allCalls NoPAR (authorizeProg cfg now mn q) := by
  apply allCalls_run
  unfold authorizeH authzExplicit authzImplicit authzOIDCExplicit authzHybrid authzPKCE
  nopar_walk
theorem noPAR_authorizeParProg (cfg now mn a) : allCalls NoPAR (authorizeParProg cfg now mn a) := by
  apply allCalls_run
  unfold authorizeParH authzExplicit authzImplicit authzOIDCExplicit authzHybrid authzPKCE
  nopar_walk
theorem noPAR_redeemProg (cfg now q) : allCalls NoPAR (redeemProg cfg now q) := by
  apply allCalls_run
  unfold redeemH oidcExplicitPopulate
  nopar_walk
theorem noPAR_refreshProg (cfg now q) : allCalls NoPAR (refreshProg cfg now q) := by
  apply allCalls_run
  unfold refreshH
  nopar_walk
theorem noPAR_clientCredentialsProg (cfg now q) : allCalls NoPAR (clientCredentialsProg cfg now q) := by
  apply allCalls_run
  unfold clientCredentialsH
  nopar_walk
theorem noPAR_passwordProg (cfg now q) : allCalls NoPAR (passwordProg cfg now q) := by
  apply allCalls_run
  unfold passwordH
  nopar_walk
theorem noPAR_deviceAuthProg (cfg now q) : allCalls NoPAR (deviceAuthProg cfg now q) := by
  apply allCalls_run
  unfold deviceAuthH
  nopar_walk
theorem noPAR_devicePollProg (cfg now q) : allCalls NoPAR (devicePollProg cfg now q) := by
  apply allCalls_run
  unfold devicePollH oidcDevicePopulate
  nopar_walk

/-- every endpoint program other than the PAR push makes no `createPAR` call, on any path -/
theorem prog_noPAR (s : MState) (op : Op) (p : Prog Out) (h : op.prog s = some p) (hop : ∀ pp, op ≠ .parPush pp) :
    allCalls NoPAR p := by
  cases op <;> simp only [Op.prog, Option.some.injEq, reduceCtorEq] at h <;> subst h
  · exact noPAR_authorizeProg _ _ _ _
  · exact noPAR_redeemProg _ _ _
  · exact noPAR_refreshProg _ _ _
  · exact allCalls_of_quiet _ noPAR_of_quiet _ (quiet_revokeProg _)
  · exact allCalls_of_quiet _ noPAR_of_quiet _ (quiet_introspectProg _ _ _)
  · exact allCalls_of_quiet _ noPAR_of_quiet _ (quiet_introspectEndpointProg _ _ _)
  · exact noPAR_clientCredentialsProg _ _ _
  · exact noPAR_passwordProg _ _ _
  · exact noPAR_deviceAuthProg _ _ _
  · exact noPAR_devicePollProg _ _ _
  · exact absurd rfl (hop _)
  · exact noPAR_authorizeParProg _ _ _ _

/-- **every operation other than a PAR push only deletes pushed requests** -/
theorem step_par_shrinks (s : MState) (op : Op) (hop : ∀ pp, op ≠ .parPush pp) : ParShrinks s.ss (step s op).1.ss := by
  cases hp : op.prog s with
  | some p =>
    rw [step_evalS s op p hp]
    exact evalS_allCalls_inv NoPAR (ParShrinks s.ss)
      (fun ss c hc hi u p hl => hi u p (exec_par_noPAR ss c hc u p hl)) p s.ss (prog_noPAR s op p hp hop) (fun _ _ h => h)
  | none =>
    cases op with
    | setCfg c => exact fun _ _ h => h
    | setClient c => exact fun _ _ h => h
    | advance d => exact fun _ _ h => h
    | deviceDecide sg acc gs ga sub =>
      simp only [step]
      cases hl : alookup s.ss.store.device sg with
      | none => exact fun _ _ h => h
      | some d => exact fun _ _ h => h
    | _ => simp [Op.prog] at hp

theorem step_ParBelow (s : MState) (op : Op) (h : ParBelow s.ss) : ParBelow (step s op).1.ss :=
  step_preserves ParBelow exec_ParBelow (fun _ _ h => h) (fun _ _ _ h => h) s op h

/-- the pushed request `u ↦ p` was stored by a `parPush` of the history `ops` (run from `s0`): the
    operation, the state it ran in (`after s0 pre`), freshness of `u` there, and what it checked -/
def PushedIn (s0 : MState) (ops : List Op) (u : Nat) (p : ParRec) : Prop :=
  ∃ pre pp post, ops = pre ++ Op.parPush pp :: post ∧ alookup (after s0 pre).ss.store.par u = none ∧
    PushedOk (after s0 pre).cfg (after s0 pre).ss.clients pp p

/-- **history invariant**: every pushed request stored in `ss` was there at the start of the history,
    or was pushed during it — under the configuration and client table of that moment -/
def ParCovered (s0 : MState) (ops : List Op) (ss : SState) : Prop :=
  ∀ u p, alookup ss.store.par u = some p → alookup s0.ss.store.par u = some p ∨ PushedIn s0 ops u p

theorem PushedIn_cons (s0 : MState) (op : Op) (ops : List Op) (u : Nat) (p : ParRec)
    (h : PushedIn (step s0 op).1 ops u p) : PushedIn s0 (op :: ops) u p := by
  obtain ⟨pre, pp, post, h1, h2, h3⟩ := h
  exact ⟨op :: pre, pp, post, by rw [h1]; rfl, h2, h3⟩

/-- one operation, seen from the front of a history: a record stored after it was stored before it, or
    this operation is the push that created it -/
theorem step_par_origin (s : MState) (op : Op) (hb : ParBelow s.ss) (u : Nat) (p : ParRec)
    (hl : alookup (step s op).1.ss.store.par u = some p) :
    alookup s.ss.store.par u = some p ∨
      ∃ pp, op = .parPush pp ∧ alookup s.ss.store.par u = none ∧ PushedOk s.cfg s.ss.clients pp p := by
  by_cases hop : ∃ pp, op = .parPush pp
  · obtain ⟨pp, rfl⟩ := hop
    rcases parPush_establishes s pp u p hl with h | ⟨hge, hok⟩
    · exact Or.inl h
    · refine Or.inr ⟨pp, rfl, ?_, hok⟩
      cases hn : alookup s.ss.store.par u with
      | none => rfl
      | some p0 => have := hb u p0 hn; omega
  · exact Or.inl (step_par_shrinks s op (fun pp h => hop ⟨pp, h⟩) u p hl)

/-- **`ParCovered` holds along every history** from a state whose `request_uri`s are below the mint counter -/
theorem history_ParCovered (ops : List Op) (s0 : MState) (hb : ParBelow s0.ss) : ParCovered s0 ops (after s0 ops).ss := by
  induction ops generalizing s0 with
  | nil => exact fun u p h => Or.inl h
  | cons op ops ih =>
    intro u p hl
    rcases ih (step s0 op).1 (step_ParBelow s0 op hb) u p hl with h | h
    · rcases step_par_origin s0 op hb u p h with h0 | ⟨pp, rfl, hnone, hok⟩
      · exact Or.inl h0
      · exact Or.inr ⟨[], pp, ops, rfl, hnone, hok⟩
    · exact Or.inr (PushedIn_cons s0 op ops u p h)

theorem init_ParBelow : ParBelow ({} : MState).ss := by intro u p h; simp [alookup] at h

/-- from the empty state every stored pushed request has its push in the history -/
theorem reachable_par_pushed (ops : List Op) (u : Nat) (p : ParRec)
    (h : alookup (after {} ops).ss.store.par u = some p) : PushedIn {} ops u p := by
  rcases history_ParCovered ops {} init_ParBelow u p h with h0 | h0
  · simp [alookup] at h0
  · exact h0

/-! ## 3. The refresh-token issuance rule at the level of storage calls

  `wpP P h p Q`: a call-log calculus in the style of `allCalls` (the continuation of every call is
  quantified over ALL storage results), in which the call predicate also sees the PATH so far — the
  calls already made on this path with the results assumed for them, newest first.  The rules below use
  the path only through membership ("a `getCode` call on this path was answered with `ar`"). -/

/-- the calls made so far on a path of a program, with their results, newest first -/
abbrev Path := List (Call × Res)

def wpP {α} (P : Path → Call → Prop) : Path → Prog α → (Path → α → Prop) → Prop
  | h, .ret a, Q => Q h a
  | h, .call c k, Q => P h c ∧ ∀ res, wpP P ((c, res) :: h) (k res) Q

theorem wpP_mono {α} (P) (p : Prog α) (Q Q' : Path → α → Prop) (h : Path)
    (hq : ∀ h' a, Q h' a → Q' h' a) : wpP P h p Q → wpP P h p Q' := by
  induction p generalizing h with
  | ret a => exact hq h a
  | call c k ih => intro ⟨h1, h2⟩; exact ⟨h1, fun res => ih res _ (h2 res)⟩

theorem wpP_bind {α β} (P) (p : Prog α) (f : α → Prog β) (Q) (h : Path) :
    wpP P h (p.bind f) Q ↔ wpP P h p (fun h' a => wpP P h' (f a) Q) := by
  induction p generalizing h with
  | ret a => exact Iff.rfl
  | call c k ih => simp only [Prog.bind, wpP, ih]

theorem wpP_pbind {α β} (P) (p : Prog α) (f : α → Prog β) (Q) (h : Path) :
    wpP P h (p >>= f) Q ↔ wpP P h p (fun h' a => wpP P h' (f a) Q) := wpP_bind P p f Q h

/-- `h'` contains every entry of `h` -/
def Sub (h h' : Path) : Prop := ∀ e ∈ h, e ∈ h'

theorem Sub.refl (h : Path) : Sub h h := fun _ he => he
theorem Sub.cons (h h' : Path) (x : Call × Res) (hs : Sub (x :: h) h') : Sub h h' :=
  fun e he => hs e (List.mem_cons_of_mem _ he)

/-- a program all of whose calls satisfy a path-independent predicate that implies `P` -/
theorem wpP_of_allCalls {α} (P : Path → Call → Prop) (Q0 : Call → Prop) (hQ : ∀ h c, Q0 c → P h c)
    (p : Prog α) (h : Path) (Q : Path → α → Prop) (hp : allCalls Q0 p) (hq : ∀ h' a, Sub h h' → Q h' a) :
    wpP P h p Q := by
  induction p generalizing h with
  | ret a => exact hq h a (Sub.refl h)
  | call c k ih =>
    exact ⟨hQ h c hp.1, fun res => ih res _ (hp.2 res) (fun h' a hs => hq h' a (Sub.cons _ _ _ hs))⟩

/-- handler programs; errors may leave at any point (nothing is claimed of the outcome) -/
def wpPT {α} (P : Path → Call → Prop) (h : Path) (x : HP α) (K : Path → α → Prop) : Prop :=
  wpP P h x.toProg (fun h' r => match r with | .ok a => K h' a | .error _ => True)

theorem wpPT_ok {α} (P) (h : Path) (a : α) (K) : wpPT P h (HP.ok a) K ↔ K h a := Iff.rfl
theorem wpPT_pure {α} (P) (h : Path) (a : α) (K) : wpPT P h (pure a : HP α) K ↔ K h a := Iff.rfl
theorem wpPT_fail {α} (P) (h : Path) (e : Err) (K : Path → α → Prop) : wpPT P h (HP.fail e) K := trivial

theorem wpPT_bind {α β} (P) (h : Path) (x : HP α) (f : α → HP β) (K) :
    wpPT P h (x >>= f) K ↔ wpPT P h x (fun h' a => wpPT P h' (f a) K) := by
  show wpPT P h (HP.bind x f) K ↔ _
  unfold wpPT HP.bind HP.mk
  show wpP P h (Prog.bind x.toProg _) _ ↔ _
  rw [wpP_bind]
  constructor <;>
  · apply wpP_mono
    intro h' r hr
    cases r with
    | ok a => exact hr
    | error e => trivial

theorem wpPT_mono {α} (P) (h : Path) (x : HP α) (K K' : Path → α → Prop)
    (hk : ∀ h' a, K h' a → K' h' a) : wpPT P h x K → wpPT P h x K' := by
  unfold wpPT
  apply wpP_mono
  intro h' r hr
  cases r with
  | ok a => exact hk h' a hr
  | error e => trivial

theorem wpPT_guard (P) (h : Path) (c : Bool) (e : Err) (K) : wpPT P h (HP.guard c e) K ↔ (c = true → K h ()) := by
  unfold HP.guard
  cases c
  · simp only [Bool.false_eq_true, if_false, false_implies, iff_true]; exact wpPT_fail P h e K
  · simp only [if_true, true_implies]; exact wpPT_ok P h () K

theorem wpPT_optErr (P) (h : Path) (o : Option Err) (K) : wpPT P h (optErr o) K ↔ (o = none → K h ()) := by
  cases o
  · simp only [optErr, true_implies]; exact wpPT_ok P h () K
  · simp only [optErr, reduceCtorEq, false_implies, iff_true]; exact wpPT_fail P h _ K

theorem wpPT_ite {α} (P) (h : Path) (c : Prop) [Decidable c] (x y : HP α) (K) :
    wpPT P h (if c then x else y) K ↔ (c → wpPT P h x K) ∧ (¬c → wpPT P h y K) := by
  split <;> simp_all

theorem wpPT_callH (P) (h : Path) (c : Call) (K) :
    wpPT P h (callH c) K ↔ P h c ∧ ∀ res, K ((c, res) :: h) res := Iff.rfl

def Call.isCreateRefresh : Call → Bool
  | .createRefresh _ _ => true
  | _ => false

/-- the call does not store a refresh token -/
def NoRT (c : Call) : Prop := c.isCreateRefresh = false

theorem noRT_of_quiet (c : Call) (h : Quiet c) : NoRT c := by
  cases c <;> first | rfl | cases h

/-- `P` constrains `createRefresh` calls only -/
def OnlyRT (P : Path → Call → Prop) : Prop := ∀ h c, NoRT c → P h c

theorem wpPT_failWith {α} (P) (hP : OnlyRT P) (h : Path) (p : Prog Err) (K : Path → α → Prop) (hq : allCalls NoRT p) :
    wpPT P h (HP.failWith p) K := by
  unfold wpPT HP.failWith HP.mk HP.toProg
  rw [wpP_bind]
  exact wpP_of_allCalls P NoRT hP p h _ hq (fun _ _ _ => trivial)

/-- a sub-handler that stores no refresh token is stepped over: its continuation runs on some extension of the path -/
theorem wpPT_stepOver {α} (P) (hP : OnlyRT P) (h : Path) (x : HP α) (K : Path → α → Prop) (hx : allCallsH NoRT x)
    (hk : ∀ h' a, Sub h h' → K h' a) : wpPT P h x K := by
  unfold wpPT
  apply wpP_of_allCalls P NoRT hP _ h _ hx
  intro h' r hs
  cases r with
  | ok a => exact hk h' a hs
  | error e => trivial

theorem wpPT_expectReq (P) (hP : OnlyRT P) (h : Path) (c : Call) (other) (K) (hq : ∀ r, allCalls NoRT (other r)) :
    wpPT P h (expectReq c other) K ↔ P h c ∧ ∀ x, K ((c, .req x) :: h) x := by
  unfold expectReq wpPT HP.mk
  show wpP P h (Prog.call c _) _ ↔ _
  simp only [wpP]
  apply and_congr_right; intro _
  constructor
  · intro hh x; exact hh (.req x)
  · intro hh res
    cases res <;> first | exact hh _ | exact wpPT_failWith P hP _ _ K (hq _)

theorem wpPT_expectNat (P) (hP : OnlyRT P) (h : Path) (c : Call) (other) (K) (hq : ∀ r, allCalls NoRT (other r)) :
    wpPT P h (expectNat c other) K ↔ P h c ∧ ∀ n, K ((c, .nat n) :: h) n := by
  unfold expectNat wpPT HP.mk
  show wpP P h (Prog.call c _) _ ↔ _
  simp only [wpP]
  apply and_congr_right; intro _
  constructor
  · intro hh x; exact hh (.nat x)
  · intro hh res
    cases res <;> first | exact hh _ | exact wpPT_failWith P hP _ _ K (hq _)

theorem wpPT_expectDev (P) (hP : OnlyRT P) (h : Path) (c : Call) (other) (K) (hq : ∀ r, allCalls NoRT (other r)) :
    wpPT P h (expectDev c other) K ↔ P h c ∧ ∀ d, K ((c, .dev d) :: h) d := by
  unfold expectDev wpPT HP.mk
  show wpP P h (Prog.call c _) _ ↔ _
  simp only [wpP]
  apply and_congr_right; intro _
  constructor
  · intro hh x; exact hh (.dev x)
  · intro hh res
    cases res <;> first | exact hh _ | exact wpPT_failWith P hP _ _ K (hq _)

theorem wpPT_expectClient (P) (h : Path) (c : Call) (e) (K) :
    wpPT P h (expectClient c e) K ↔ P h c ∧ ∀ x, K ((c, .client x) :: h) x := by
  unfold expectClient wpPT HP.mk
  show wpP P h (Prog.call c _) _ ↔ _
  simp only [wpP]
  apply and_congr_right; intro _
  constructor
  · intro hh x; exact hh (.client x)
  · intro hh res
    cases res <;> first | exact hh _ | trivial

theorem wpPT_expectOk (P) (hP : OnlyRT P) (h : Path) (c : Call) (other) (K) (hq : ∀ e, allCalls NoRT (other e)) :
    wpPT P h (expectOk c other) K ↔ P h c ∧ ∀ res, res.errKind = none → K ((c, res) :: h) () := by
  unfold expectOk wpPT HP.mk
  show wpP P h (Prog.call c _) _ ↔ _
  simp only [wpP]
  apply and_congr_right; intro _
  constructor
  · intro hh res hres
    have := hh res
    rw [hres] at this
    exact this
  · intro hh res
    cases hres : res.errKind with
    | none => exact hh res hres
    | some e => exact wpPT_failWith P hP _ _ K (hq _)

theorem wpP_run (P) (h : Path) (x : HP Out) (hx : wpPT P h x (fun _ _ => True)) : wpP P h x.run (fun _ _ => True) := by
  unfold HP.run
  rw [wpP_bind]
  apply wpP_mono P _ _ _ h _ hx
  intro h' r _
  cases r <;> trivial

/-! ### soundness for runs: the storage-call log -/

/-- the interpreter writes the call to the log (`newId` never is; transaction calls only over a transactional store) -/
def isLogged (rc : RunCfg) (c : Call) : Bool := !c.isSilent && !(c.isTx && !rc.tx)

theorem step_log_exact (rc : RunCfg) (rs : RState) (c : Call) :
    (rs.step rc c).1.log = if isLogged rc c = true then rs.log ++ [(c, (rs.step rc c).2)] else rs.log := by
  unfold RState.step isLogged
  by_cases hs : c.isSilent = true
  · simp [hs]
  · simp only [hs, Bool.false_eq_true, if_false, Bool.not_false, Bool.true_and]
    by_cases ht : (c.isTx && !rc.tx) = true
    · simp [ht]
    · simp only [ht, Bool.false_eq_true, if_false, Bool.not_false, if_true]
      split
      · rfl
      · split <;> rfl

/-- every entry of the log satisfies `P` with respect to the entries before it -/
def LogRule (P : Path → Call → Prop) (log : List (Call × Res)) : Prop :=
  ∀ n e, log[n]? = some e → P (log.take n) e.1

theorem LogRule_snoc (P) (log : List (Call × Res)) (x : Call × Res) (h : LogRule P log) (hx : P log x.1) :
    LogRule P (log ++ [x]) := by
  intro n e he
  by_cases hn : n < log.length
  · rw [List.getElem?_append_left hn] at he
    rw [List.take_append_of_le_length (Nat.le_of_lt hn)]
    exact h n e he
  · have hge : log.length ≤ n := Nat.le_of_not_lt hn
    rw [List.getElem?_append_right hge] at he
    by_cases h0 : n - log.length = 0
    · rw [h0] at he
      simp only [List.getElem?_cons_zero, Option.some.injEq] at he
      subst he
      have : n = log.length := by omega
      subst this
      rw [List.take_append_of_le_length (Nat.le_refl _), List.take_length]
      exact hx
    · obtain ⟨m, hm⟩ := Nat.exists_eq_succ_of_ne_zero h0
      rw [hm] at he
      simp at he

/-- **soundness of `wpP` for runs**, under any fault plan, with or without transactions: when `P` only
    looks at logged entries of the path (`hmono`), every entry of the run's log satisfies `P` with respect
    to the log entries before it. -/
theorem run_log_rule {α} (P : Path → Call → Prop) (rc : RunCfg)
    (hmono : ∀ (h L : Path) (c : Call), (∀ e ∈ h, isLogged rc e.1 = true → e ∈ L) → P h c → P L c)
    (p : Prog α) (Q : Path → α → Prop) (rs : RState) (h : Path)
    (hinv : ∀ e ∈ h, isLogged rc e.1 = true → e ∈ rs.log)
    (hw : wpP P h p Q) (hpre : LogRule P rs.log) : LogRule P (run rc rs p).1.log := by
  induction p generalizing rs h with
  | ret a => exact hpre
  | call c k ih =>
    rw [run_call]
    have hlog := step_log_exact rc rs c
    apply ih _ (rs.step rc c).1 ((c, (rs.step rc c).2) :: h) _ (hw.2 _)
    · rw [hlog]
      split
      · exact LogRule_snoc P rs.log _ hpre (hmono h rs.log c hinv hw.1)
      · exact hpre
    · intro e he hl
      rw [hlog]
      rcases List.mem_cons.mp he with he | he
      · subst he
        rw [if_pos hl]
        exact List.mem_append_right _ (List.mem_singleton.mpr rfl)
      · split
        · exact List.mem_append_left _ (hinv e he hl)
        · exact hinv e he hl

/-! ### the rules, flow by flow -/

/-- code flow: the record obeys the scope rule; its granted scopes are those of an authorize request `ar`
    that a `getCode` call for the presented code returned earlier on this path, and the client stored with
    THAT request is registered for the `refresh_token` grant -/
def codeRule (cfg : Config) (q : RedeemReq) : Path → Call → Prop
  | h, .createRefresh _ r => scopeRule cfg r.grantedScopes ∧
      ∃ ar, (Call.getCode q.code.sig, Res.req ar) ∈ h ∧ r.grantedScopes = appendAllUniq [] ar.grantedScopes ∧
        ar.client.grants.contains "refresh_token" = true
  | _, _ => True

/-- device flow: the record obeys the scope rule and its client (the polling client) is registered for
    `refresh_token`; its granted scopes are those of a device request returned by an earlier `getDevice` call -/
def deviceRule (cfg : Config) (q : DevicePollReq) : Path → Call → Prop
  | h, .createRefresh _ r => scopeRule cfg r.grantedScopes ∧ r.client.grants.contains "refresh_token" = true ∧
      ∃ d, (Call.getDevice q.code.sig, Res.dev d) ∈ h ∧ r.grantedScopes = appendAllUniq [] d.req.grantedScopes
  | _, _ => True

/-- password flow: the scope half -/
def passwordRule (cfg : Config) : Path → Call → Prop
  | _, .createRefresh _ r => scopeRule cfg r.grantedScopes
  | _, _ => True

/-- refresh flow: always issued — the record obeys the scope rule and its client (the presenting client)
    holds `refresh_token`, both checked on the ORIGINAL grant `orig` returned by an earlier `getRefresh` call -/
def refreshRule (cfg : Config) (q : RefreshReq) : Path → Call → Prop
  | h, .createRefresh _ r => scopeRule cfg r.grantedScopes ∧ r.client.grants.contains "refresh_token" = true ∧
      ∃ orig, (Call.getRefresh q.token.sig, Res.req orig) ∈ h ∧ r.grantedScopes = appendAllUniq [] orig.grantedScopes ∧
        scopeRule cfg orig.grantedScopes
  | _, _ => True

theorem OnlyRT_codeRule (cfg q) : OnlyRT (codeRule cfg q) := by
  intro h c hc; cases c <;> first | trivial | cases hc
theorem OnlyRT_deviceRule (cfg q) : OnlyRT (deviceRule cfg q) := by
  intro h c hc; cases c <;> first | trivial | cases hc
theorem OnlyRT_passwordRule (cfg) : OnlyRT (passwordRule cfg) := by
  intro h c hc; cases c <;> first | trivial | cases hc
theorem OnlyRT_refreshRule (cfg q) : OnlyRT (refreshRule cfg q) := by
  intro h c hc; cases c <;> first | trivial | cases hc

theorem scopeRule_dedupe (cfg : Config) (granted : List String) :
    scopeRule cfg (appendAllUniq [] granted) ↔ scopeRule cfg granted := by
  unfold scopeRule; rw [hasOneOf_appendAllUniq]

/-! sub-handlers and error paths store no refresh token -/

macro "nort_side" : tactic => `(tactic| ((with_reducible show NoRT _); exact rfl))
macro "nort_known" : tactic => `(tactic| first
  | exact allH_of_quiet _ noRT_of_quiet _ (by quiet_known)
  | exact allCalls_of_quiet _ noRT_of_quiet _ (by quiet_known))
macro "nort_walk" : tactic => `(tactic| walk_with (nort_side) (nort_known))

theorem noRTH_authenticate (id ok) : allCallsH NoRT (authenticate id ok) :=
  allH_of_quiet _ noRT_of_quiet _ (quietH_authenticate id ok)
theorem noRTH_pkceHandle (cfg code v client) : allCallsH NoRT (pkceHandle cfg code v client) :=
  allH_of_quiet _ noRT_of_quiet _ (quietH_pkceHandle cfg code v client)
theorem noRTH_pkcePopulate (code) : allCallsH NoRT (pkcePopulate code) :=
  allH_of_quiet _ noRT_of_quiet _ (quietH_pkcePopulate code)
theorem noRTH_deviceStateGate (d) : allCallsH NoRT (deviceStateGate d) :=
  allH_of_quiet _ noRT_of_quiet _ (quietH_deviceStateGate d)
theorem noRTH_oidcExplicitPopulate (code client) : allCallsH NoRT (oidcExplicitPopulate code client) := by
  unfold oidcExplicitPopulate; nort_walk
theorem noRTH_oidcDevicePopulate (code client) : allCallsH NoRT (oidcDevicePopulate code client) := by
  unfold oidcDevicePopulate; nort_walk
theorem noRT_rollbackThen (e) : allCalls NoRT (rollbackThen e) :=
  allCalls_of_quiet _ noRT_of_quiet _ (quiet_rollbackThen e)
theorem noRT_redeemLookupFailed (r) : allCalls NoRT (redeemLookupFailed r) :=
  allCalls_of_quiet _ noRT_of_quiet _ (quiet_redeemLookupFailed r)
theorem noRT_refreshStorageError (e) : allCalls NoRT (refreshStorageError e) :=
  allCalls_of_quiet _ noRT_of_quiet _ (quiet_refreshStorageError e)
theorem noRT_refreshLookupFailed (sig r) : allCalls NoRT (refreshLookupFailed sig r) :=
  allCalls_of_quiet _ noRT_of_quiet _ (quiet_refreshLookupFailed sig r)
theorem noRT_deviceLookupFailed (rid r) : allCalls NoRT (deviceLookupFailed rid r) :=
  allCalls_of_quiet _ noRT_of_quiet _ (quiet_deviceLookupFailed rid r)

theorem code_rule_redeemProg (cfg : Config) (now : Time) (q : RedeemReq) :
    wpP (codeRule cfg q) [] (redeemProg cfg now q) (fun _ _ => True) := by
  have hP := OnlyRT_codeRule cfg q
  apply wpP_run
  unfold redeemH
  simp only [wpPT_bind, wpPT_callH, wpPT_guard, wpPT_pure, wpPT_ite, wpPT_ok,
    wpPT_expectReq _ hP _ _ _ _ noRT_redeemLookupFailed,
    wpPT_expectReq _ hP _ _ _ _ (fun _ => allCalls_retErr _ _),
    wpPT_expectOk _ hP _ _ _ _ (fun _ => allCalls_retErr _ _),
    wpPT_expectOk _ hP _ _ _ _ (fun _ => noRT_rollbackThen _),
    wpPT_expectNat _ hP _ _ _ _ (fun _ => noRT_rollbackThen _)]
  refine ⟨trivial, fun res => ?_⟩
  apply wpPT_stepOver _ hP _ _ _ (noRTH_authenticate _ _)
  intro h1 client _ _
  refine ⟨trivial, fun ar _ _ _ => ?_⟩
  apply wpPT_stepOver _ hP _ _ _ (noRTH_pkceHandle _ _ _ _)
  intro h2 _ _
  have tail : ∀ (h : Path), wpPT (codeRule cfg q) h (oidcExplicitPopulate q.code client) fun h' _ =>
      wpPT (codeRule cfg q) h' (pkcePopulate q.code) fun _ _ => True := by
    intro h
    apply wpPT_stepOver _ hP _ _ _ (noRTH_oidcExplicitPopulate _ _)
    intro h' _ _
    exact wpPT_stepOver _ hP _ _ _ (noRTH_pkcePopulate _) (fun _ _ _ => trivial)
  refine ⟨trivial, fun ar2 _ => ⟨trivial, fun r1 _ => ⟨trivial, fun r2 _ => ⟨trivial, fun n =>
    ⟨fun hcan => ⟨?_, fun n1 => ⟨trivial, fun r3 _ => tail _⟩⟩, fun _ => ⟨trivial, fun r3 _ => tail _⟩⟩⟩⟩⟩⟩
  obtain ⟨hs, hg⟩ := (canIssueRefresh_iff cfg ar2).mp hcan
  exact ⟨(scopeRule_dedupe cfg _).mpr hs, ar2,
    List.mem_cons_of_mem _ (List.mem_cons_of_mem _ (List.mem_cons_of_mem _ (List.mem_cons_self ..))), rfl, hg⟩

theorem refresh_rule_refreshProg (cfg : Config) (now : Time) (q : RefreshReq) :
    wpP (refreshRule cfg q) [] (refreshProg cfg now q) (fun _ _ => True) := by
  have hP := OnlyRT_refreshRule cfg q
  apply wpP_run
  unfold refreshH
  simp only [wpPT_bind, wpPT_callH, wpPT_guard, wpPT_pure, wpPT_optErr,
    wpPT_expectReq _ hP _ _ _ _ (noRT_refreshLookupFailed _),
    wpPT_expectOk _ hP _ _ _ _ (fun _ => allCalls_retErr _ _),
    wpPT_expectOk _ hP _ _ _ _ noRT_refreshStorageError,
    wpPT_expectNat _ hP _ _ _ _ (fun _ => noRT_refreshStorageError _)]
  refine ⟨trivial, fun res => ?_⟩
  apply wpPT_stepOver _ hP _ _ _ (noRTH_authenticate _ _)
  intro h1 client _ hgrant
  refine ⟨trivial, fun orig _ _ hscope _ _ _ => ⟨trivial, fun r1 _ => ⟨trivial, fun r2 _ => ⟨trivial, fun n =>
    ⟨?_, fun n1 => ⟨trivial, fun _ _ _ => trivial⟩⟩⟩⟩⟩⟩
  have hs : scopeRule cfg orig.grantedScopes := by simpa [scopeRule] using hscope
  exact ⟨(scopeRule_dedupe cfg _).mpr hs, hgrant, orig,
    List.mem_cons_of_mem _ (List.mem_cons_of_mem _ (List.mem_cons_of_mem _ (List.mem_cons_self ..))), rfl, hs⟩

theorem password_rule_passwordProg (cfg : Config) (now : Time) (q : DirectReq) :
    wpP (passwordRule cfg) [] (passwordProg cfg now q) (fun _ _ => True) := by
  have hP := OnlyRT_passwordRule cfg
  apply wpP_run
  unfold passwordH
  simp only [wpPT_bind, wpPT_callH, wpPT_guard, wpPT_optErr,
    wpPT_expectNat _ hP _ _ _ _ (fun _ => allCalls_retErr _ _)]
  refine ⟨trivial, fun n => ?_⟩
  apply wpPT_stepOver _ hP _ _ _ (noRTH_authenticate _ _)
  intro h1 client _ _ _ _ _
  refine ⟨trivial, fun res => ?_⟩
  split
  · simp only [wpPT_bind, wpPT_pure, wpPT_ite, wpPT_expectNat _ hP _ _ _ _ (fun _ => allCalls_retErr _ _)]
    refine ⟨trivial, fun atk => ⟨fun hsc => ⟨?_, fun _ => trivial⟩, fun _ => trivial⟩⟩
    show scopeRule cfg (appendAllUniq [] q.scopes)
    simp only [Bool.or_eq_true] at hsc
    exact hsc
  · split <;> exact wpPT_fail _ _ _ _

theorem device_rule_devicePollProg (cfg : Config) (now : Time) (q : DevicePollReq) :
    wpP (deviceRule cfg q) [] (devicePollProg cfg now q) (fun _ _ => True) := by
  have hP := OnlyRT_deviceRule cfg q
  apply wpP_run
  unfold devicePollH
  simp only [wpPT_bind, wpPT_callH, wpPT_guard, wpPT_pure, wpPT_ite, wpPT_ok,
    wpPT_expectDev _ hP _ _ _ _ (noRT_deviceLookupFailed _),
    wpPT_expectDev _ hP _ _ _ _ (fun _ => allCalls_retErr _ _),
    wpPT_expectOk _ hP _ _ _ _ (fun _ => allCalls_retErr _ _),
    wpPT_expectOk _ hP _ _ _ _ (fun _ => noRT_rollbackThen _),
    wpPT_expectNat _ hP _ _ _ _ (fun _ => noRT_rollbackThen _)]
  refine ⟨trivial, fun res => ?_⟩
  apply wpPT_stepOver _ hP _ _ _ (noRTH_authenticate _ _)
  intro h1 client _ _
  refine ⟨trivial, fun d => ?_⟩
  apply wpPT_stepOver _ hP _ _ _ (noRTH_deviceStateGate _)
  intro h2 _ _ _ _ _
  have tail : ∀ (h : Path), wpPT (deviceRule cfg q) h (oidcDevicePopulate q.code client) fun _ _ => True :=
    fun h => wpPT_stepOver _ hP _ _ _ (noRTH_oidcDevicePopulate _ _) (fun _ _ _ => trivial)
  refine ⟨trivial, fun d2 _ _ => ⟨trivial, fun r1 _ => ⟨trivial, fun r2 _ => ⟨trivial, fun n =>
    ⟨fun hw => ⟨?_, fun n1 => ⟨trivial, fun r3 _ => tail _⟩⟩, fun _ => ⟨trivial, fun r3 _ => tail _⟩⟩⟩⟩⟩⟩
  simp only [Bool.and_eq_true, Bool.or_eq_true] at hw
  exact ⟨hw.1, hw.2, d2,
    List.mem_cons_of_mem _ (List.mem_cons_of_mem _ (List.mem_cons_of_mem _ (List.mem_cons_self ..))), rfl⟩

/-! the other endpoint programs store no refresh token at all -/

theorem noRT_authorizeProg (cfg now mn q) : allCalls NoRT (authorizeProg cfg now mn q) := by
  apply allCalls_run
  unfold authorizeH authzExplicit authzImplicit authzOIDCExplicit authzHybrid authzPKCE
  nort_walk
theorem noRT_authorizeParProg (cfg now mn a) : allCalls NoRT (authorizeParProg cfg now mn a) := by
  apply allCalls_run
  unfold authorizeParH authzExplicit authzImplicit authzOIDCExplicit authzHybrid authzPKCE
  nort_walk
theorem noRT_clientCredentialsProg (cfg now q) : allCalls NoRT (clientCredentialsProg cfg now q) := by
  apply allCalls_run
  unfold clientCredentialsH
  nort_walk
theorem noRT_deviceAuthProg (cfg now q) : allCalls NoRT (deviceAuthProg cfg now q) := by
  apply allCalls_run
  unfold deviceAuthH
  nort_walk
theorem noRT_parPushProg (cfg now p) : allCalls NoRT (parPushProg cfg now p) := by
  apply allCalls_run
  unfold parPushH
  nort_walk

/-- the rule of the flow an operation belongs to; every other operation: no `createRefresh` call -/
def opRule (s : MState) : Op → Path → Call → Prop
  | .redeem q => codeRule s.cfg q
  | .devicePoll q => deviceRule s.cfg q
  | .password _ => passwordRule s.cfg
  | .refresh q => refreshRule s.cfg q
  | _ => fun _ c => NoRT c

/-- **every endpoint program, every path**: each `createRefresh` call is made only under the rule of its flow -/
theorem prog_refresh_rule (s : MState) (op : Op) (p : Prog Out) (h : op.prog s = some p) :
    wpP (opRule s op) [] p (fun _ _ => True) := by
  have plain : ∀ (p : Prog Out), allCalls NoRT p → wpP (fun _ c => NoRT c) [] p (fun _ _ => True) :=
    fun p hp => wpP_of_allCalls _ NoRT (fun _ _ hc => hc) p [] _ hp (fun _ _ _ => trivial)
  cases op <;> simp only [Op.prog, Option.some.injEq, reduceCtorEq] at h <;> subst h
  · exact plain _ (noRT_authorizeProg _ _ _ _)
  · exact code_rule_redeemProg _ _ _
  · exact refresh_rule_refreshProg _ _ _
  · exact plain _ (allCalls_of_quiet _ noRT_of_quiet _ (quiet_revokeProg _))
  · exact plain _ (allCalls_of_quiet _ noRT_of_quiet _ (quiet_introspectProg _ _ _))
  · exact plain _ (allCalls_of_quiet _ noRT_of_quiet _ (quiet_introspectEndpointProg _ _ _))
  · exact plain _ (noRT_clientCredentialsProg _ _ _)
  · exact password_rule_passwordProg _ _ _
  · exact plain _ (noRT_deviceAuthProg _ _ _)
  · exact device_rule_devicePollProg _ _ _
  · exact plain _ (noRT_parPushProg _ _ _)
  · exact plain _ (noRT_authorizeParProg _ _ _ _)

/-- the rules look at the path only through `getCode` / `getDevice` / `getRefresh` entries, which every
    interpreter logs -/
theorem opRule_logged (rc : RunCfg) (s : MState) (op : Op) (h L : Path) (c : Call)
    (hsub : ∀ e ∈ h, isLogged rc e.1 = true → e ∈ L) (hr : opRule s op h c) : opRule s op L c := by
  cases op <;> (try exact hr) <;> cases c <;> (try exact hr)
  · obtain ⟨h1, ar, hm, h2, h3⟩ := hr
    exact ⟨h1, ar, hsub _ hm rfl, h2, h3⟩
  · obtain ⟨h1, h2, orig, hm, h3, h4⟩ := hr
    exact ⟨h1, h2, orig, hsub _ hm rfl, h3, h4⟩
  · obtain ⟨h1, h2, d, hm, h3⟩ := hr
    exact ⟨h1, h2, d, hsub _ hm rfl, h3⟩

/-- **run level, any fault plan, with or without transactions**: every entry of the storage-call log of an
    operation satisfies the rule of its flow with respect to the log entries before it -/
theorem stepWith_refresh_rule (rc : RunCfg) (s : MState) (op : Op) : LogRule (opRule s op) (stepWith rc s op).2.2 := by
  cases hp : op.prog s with
  | none =>
    rw [stepWith_noprog_log rc s op hp]
    intro n e he; simp at he
  | some p =>
    rw [stepWith_prog rc s op p hp]
    exact run_log_rule (opRule s op) rc (opRule_logged rc s op) p _ { ss := s.ss } []
      (fun e he => by cases he) (prog_refresh_rule s op p hp) (fun n e he => by simp at he)

end Fosite.Model

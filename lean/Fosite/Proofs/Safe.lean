/-
  Safety calculus: every `createCode` / `createRefresh` / `createDevice` / `createPAR` a program
  issues happens under its guard, hence the grant invariant survives the whole run — on every path, not only the
  successful one.
-/
import Fosite.Proofs.GrantInv
namespace Fosite.Model

/-- all guarded calls of the program are issued under their guard (which may assume the invariant
    at that point); `K` is what is demanded of the final state/value -/
def safeK {α} (rc : RunCfg) : Prog α → (RState → α → Prop) → RState → Prop
  | .ret a, K, rs => K rs a
  | .call c k, K, rs => (GInv rs.ss → Guard rs.ss c) ∧ safeK rc (k (rs.step rc c).2) K (rs.step rc c).1

theorem safeK_mono {α} (rc) (p : Prog α) (K K' : RState → α → Prop) (rs)
    (h : ∀ rs' a, K rs' a → K' rs' a) : safeK rc p K rs → safeK rc p K' rs := by
  induction p generalizing rs with
  | ret a => exact h rs a
  | call c k ih => intro ⟨h1, h2⟩; exact ⟨h1, ih _ _ h2⟩

theorem safeK_bind {α β} (rc) (p : Prog α) (f : α → Prog β) (K) (rs) :
    safeK rc (p.bind f) K rs ↔ safeK rc p (fun rs' a => safeK rc (f a) K rs') rs := by
  induction p generalizing rs with
  | ret a => exact Iff.rfl
  | call c k ih => simp only [Prog.bind, safeK, ih]

/-- **A safe program preserves the grant invariant** (plain sequential interpretation). -/
theorem safeK_sound {α} (rc : RunCfg) (hp : Plain rc) (p : Prog α) (K : RState → α → Prop) (rs : RState)
    (hinv : GInv rs.ss) (hs : safeK rc p K rs) :
    GInv (run rc rs p).1.ss ∧ K (run rc rs p).1 (run rc rs p).2 := by
  induction p generalizing rs with
  | ret a => exact ⟨hinv, hs⟩
  | call c k ih =>
    simp only [run_call]
    obtain ⟨hg, hrest⟩ := hs
    apply ih _ _ _ hrest
    rcases step_ss_cases rc hp rs c with h' | h'
    · rw [h']; exact hinv
    · rw [h']; exact exec_GInv _ _ hinv (hg hinv)

/-- programs that never issue a guarded call (create codes, refresh tokens, device authorizations
    or pushed requests) -/
def calm {α} : Prog α → Prop
  | .ret _ => True
  | .call c k => c.guarded = false ∧ ∀ res, calm (k res)

theorem guard_of_guardless (ss : SState) (c : Call) (h : c.guarded = false) : Guard ss c := by
  cases c <;> first | trivial | cases h

theorem safeK_of_calm {α} (rc) (p : Prog α) (rs) (h : calm p) : safeK rc p (fun _ _ => True) rs := by
  induction p generalizing rs with
  | ret a => trivial
  | call c k ih => exact ⟨fun _ => guard_of_guardless _ _ h.1, ih _ _ (h.2 _)⟩

theorem calm_bind {α β} (p : Prog α) (f : α → Prog β) (hp : calm p) (hf : ∀ a, calm (f a)) : calm (p.bind f) := by
  induction p with
  | ret a => exact hf a
  | call c k ih => exact ⟨hp.1, fun res => ih res (hp.2 res)⟩

theorem calm_call (c : Call) (h : c.guarded = false) : calm (call c) :=
  ⟨h, fun _ => trivial⟩

/-- handler-level safety: errors may leave at any point -/
def safeH {α} (rc : RunCfg) (x : HP α) (K : RState → α → Prop) (rs : RState) : Prop :=
  safeK rc x.toProg (fun rs' r => match r with | .ok a => K rs' a | .error _ => True) rs

theorem safeH_ok {α} (rc) (a : α) (K) (rs) : safeH rc (HP.ok a) K rs ↔ K rs a := Iff.rfl
theorem safeH_pure {α} (rc) (a : α) (K) (rs) : safeH rc (pure a : HP α) K rs ↔ K rs a := Iff.rfl
theorem safeH_fail {α} (rc) (e : Err) (K : RState → α → Prop) (rs) : safeH rc (HP.fail e) K rs := trivial

theorem safeH_failWith {α} (rc) (p : Prog Err) (K : RState → α → Prop) (rs) (h : calm p) :
    safeH rc (HP.failWith p) K rs := by
  unfold safeH HP.failWith HP.mk HP.toProg
  rw [safeK_bind]
  exact safeK_mono rc p _ _ rs (fun _ _ _ => trivial) (safeK_of_calm rc p rs h)

theorem safeH_bind {α β} (rc) (x : HP α) (f : α → HP β) (K) (rs) :
    safeH rc (x >>= f) K rs ↔ safeH rc x (fun rs' a => safeH rc (f a) K rs') rs := by
  show safeH rc (HP.bind x f) K rs ↔ _
  unfold safeH HP.bind HP.mk
  show safeK rc (Prog.bind x.toProg _) _ rs ↔ _
  rw [safeK_bind]
  constructor <;>
  · apply safeK_mono
    intro rs' r h
    cases r with
    | ok a => exact h
    | error e => trivial

theorem safeH_guard (rc) (c : Bool) (e : Err) (K) (rs) : safeH rc (HP.guard c e) K rs ↔ (c = true → K rs ()) := by
  unfold HP.guard
  cases c
  · simp only [Bool.false_eq_true, if_false, false_implies, iff_true]; exact safeH_fail rc e K rs
  · simp only [if_true, true_implies]; exact safeH_ok rc () K rs

theorem safeH_callH (rc) (c : Call) (K) (rs : RState) :
    safeH rc (callH c) K rs ↔ (GInv rs.ss → Guard rs.ss c) ∧ K (rs.step rc c).1 (rs.step rc c).2 := Iff.rfl

theorem safeH_expectReq (rc) (c : Call) (other) (K) (rs : RState) (hcalm : ∀ r, calm (other r)) :
    safeH rc (expectReq c other) K rs ↔
      (GInv rs.ss → Guard rs.ss c) ∧ ∀ x, (rs.step rc c).2 = .req x → K (rs.step rc c).1 x := by
  unfold expectReq safeH HP.mk
  show safeK rc (Prog.call c _) _ rs ↔ _
  simp only [safeK]
  generalize (rs.step rc c).2 = r
  cases r <;> simp only [reduceCtorEq, false_implies, implies_true, and_true, Res.req.injEq, forall_eq']
  all_goals first
    | exact Iff.rfl
    | exact ⟨fun h => h.1, fun h => ⟨h, safeH_failWith rc _ K _ (hcalm _)⟩⟩

theorem safeH_expectNat (rc) (c : Call) (other) (K) (rs : RState) (hcalm : ∀ r, calm (other r)) :
    safeH rc (expectNat c other) K rs ↔
      (GInv rs.ss → Guard rs.ss c) ∧ ∀ n, (rs.step rc c).2 = .nat n → K (rs.step rc c).1 n := by
  unfold expectNat safeH HP.mk
  show safeK rc (Prog.call c _) _ rs ↔ _
  simp only [safeK]
  generalize (rs.step rc c).2 = r
  cases r <;> simp only [reduceCtorEq, false_implies, implies_true, and_true, Res.nat.injEq, forall_eq']
  all_goals first
    | exact Iff.rfl
    | exact ⟨fun h => h.1, fun h => ⟨h, safeH_failWith rc _ K _ (hcalm _)⟩⟩

theorem safeH_expectOk (rc) (c : Call) (other) (K) (rs : RState) (hcalm : ∀ e, calm (other e)) :
    safeH rc (expectOk c other) K rs ↔
      (GInv rs.ss → Guard rs.ss c) ∧ ((rs.step rc c).2.errKind = none → K (rs.step rc c).1 ()) := by
  unfold expectOk safeH HP.mk
  show safeK rc (Prog.call c _) _ rs ↔ _
  simp only [safeK]
  generalize (rs.step rc c).2.errKind = r
  cases r
  · simp only [true_implies]; exact Iff.rfl
  · simp only [reduceCtorEq, false_implies, and_true]
    exact ⟨fun h => h.1, fun h => ⟨h, safeH_failWith rc _ K _ (hcalm _)⟩⟩

theorem safeH_expectClient (rc) (c : Call) (e) (K) (rs : RState) :
    safeH rc (expectClient c e) K rs ↔
      (GInv rs.ss → Guard rs.ss c) ∧ ∀ x, (rs.step rc c).2 = .client x → K (rs.step rc c).1 x := by
  unfold expectClient safeH HP.mk
  show safeK rc (Prog.call c _) _ rs ↔ _
  simp only [safeK]
  generalize (rs.step rc c).2 = r
  cases r <;> simp only [reduceCtorEq, false_implies, implies_true, and_true, Res.client.injEq, forall_eq']
  all_goals first
    | exact Iff.rfl
    | exact ⟨fun h => h.1, fun h => ⟨h, safeH_fail rc _ K _⟩⟩

theorem safeH_expectDev (rc) (c : Call) (other) (K) (rs : RState) (hcalm : ∀ r, calm (other r)) :
    safeH rc (expectDev c other) K rs ↔
      (GInv rs.ss → Guard rs.ss c) ∧ ∀ x, (rs.step rc c).2 = .dev x → K (rs.step rc c).1 x := by
  unfold expectDev safeH HP.mk
  show safeK rc (Prog.call c _) _ rs ↔ _
  simp only [safeK]
  generalize (rs.step rc c).2 = r
  cases r <;> simp only [reduceCtorEq, false_implies, implies_true, and_true, Res.dev.injEq, forall_eq']
  all_goals first
    | exact Iff.rfl
    | exact ⟨fun h => h.1, fun h => ⟨h, safeH_failWith rc _ K _ (hcalm _)⟩⟩

theorem safeH_expectPar (rc) (c : Call) (other) (K) (rs : RState) (hcalm : ∀ r, calm (other r)) :
    safeH rc (expectPar c other) K rs ↔
      (GInv rs.ss → Guard rs.ss c) ∧ ∀ x, (rs.step rc c).2 = .par x → K (rs.step rc c).1 x := by
  unfold expectPar safeH HP.mk
  show safeK rc (Prog.call c _) _ rs ↔ _
  simp only [safeK]
  generalize (rs.step rc c).2 = r
  cases r <;> simp only [reduceCtorEq, false_implies, implies_true, and_true, Res.par.injEq, forall_eq']
  all_goals first
    | exact Iff.rfl
    | exact ⟨fun h => h.1, fun h => ⟨h, safeH_failWith rc _ K _ (hcalm _)⟩⟩

theorem safeH_ite {α} (rc) (c : Prop) [Decidable c] (x y : HP α) (K) (rs) :
    safeH rc (if c then x else y) K rs ↔ (c → safeH rc x K rs) ∧ (¬c → safeH rc y K rs) := by
  split <;> simp_all

/-- closing a handler -/
theorem safeH_run (rc) (x : HP Out) (rs) (h : safeH rc x (fun _ _ => True) rs) :
    safeK rc x.run (fun _ _ => True) rs := by
  unfold HP.run
  rw [safeK_bind]
  apply safeK_mono rc x.toProg _ _ rs _ h
  intro rs' r _
  cases r <;> trivial

end Fosite.Model

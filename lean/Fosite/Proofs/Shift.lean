/-
  Renaming of freshly minted names (C18, "retry" clause).

  Signatures and request ids are natural numbers handed out by the mint counter `SState.next`.
  `shN n k` is the renaming that moves every name `≥ n` up by `k` and leaves the names `< n` alone;
  it is extended to requests, records, the store, the storage state (also `next`), storage calls,
  their results, endpoint answers and call logs (`*.sh n k`).

  * `exec_sh`: one storage call commutes with the renaming (for a state whose counter is `≥ n`);
  * `step_sh`: so does one interpreter step, for every run configuration (fault plans are indexed by
    call position and transactions snapshot the store, both untouched by the renaming);
  * `AllBelow ss`: every signature and request id in the store (keys, ids / signatures inside records and
    index tables) is `< ss.next`; such a state is fixed by `sh ss.next k` except for the counter itself
    (`SState.sh_of_allBelow`); `exec_Below`: a storage call keeps the state well-formed provided the names
    a record-CREATING call puts into the store are minted ones (`Call.Below`; lookups, deletions and
    revocations add no name whatever key they are given), and its answer names only minted names;
  * `eqvK n k p p' m K`: a relational calculus over pairs of programs — `p'` makes the renamed calls of `p`
    when fed the renamed answers ("feeding a renamed result yields the renamed continuation"; continuations
    are Lean functions, so this is a predicate on the program pair, proved handler by handler in
    `Proofs/ShiftHandlers.lean`), every creating call of `p` is `Below` the bound of its time, numeric answers
    are fresh (`Res.Above n`); sound for `run` under every run configuration (`eqvK_sound`): the two runs end
    in renamed states (also transaction snapshot, call index and log) with related values, and `AllBelow`
    survives.
-/
import Fosite.Proofs.TxHandlers
namespace Fosite.Model

/-! ### the renaming on names -/

/-- names `≥ n` move up by `k` -/
def shN (n k x : Nat) : Nat := if x < n then x else x + k

theorem shN_lt {n k x : Nat} (h : x < n) : shN n k x = x := by simp [shN, h]
theorem shN_ge {n k x : Nat} (h : n ≤ x) : shN n k x = x + k := by
  simp [shN, Nat.not_lt.mpr h]
theorem shN_inj {n k x y : Nat} : shN n k x = shN n k y ↔ x = y := by
  unfold shN; split <;> split <;> omega
theorem shN_succ {n k x : Nat} (h : n ≤ x) : shN n k (x + 1) = shN n k x + 1 := by
  rw [shN_ge h, shN_ge (Nat.le_succ_of_le h)]; omega
theorem shN_add {n k x : Nat} (h : n ≤ x) (j : Nat) : shN n k (x + j) = shN n k x + j := by
  rw [shN_ge h, shN_ge (Nat.le_trans h (Nat.le_add_right x j))]; omega
theorem shN_zero (n x : Nat) : shN n 0 x = x := by unfold shN; split <;> rfl
theorem shN_ne {n k x y : Nat} : (shN n k x != shN n k y) = (x != y) := by
  cases h : (x != y) <;> simp_all [shN_inj]

/-! ### the renaming on requests, records, the store and the storage state -/

def Req.sh (n k : Nat) (r : Req) : Req := { r with id := shN n k r.id }
def CodeRec.sh (n k : Nat) (c : CodeRec) : CodeRec := { c with req := c.req.sh n k }
def RefreshRec.sh (n k : Nat) (c : RefreshRec) : RefreshRec :=
  { c with atSig := shN n k c.atSig, req := c.req.sh n k }
def ParRec.sh (n k : Nat) (p : ParRec) : ParRec := { p with req := p.req.sh n k }
def DevRec.sh (n k : Nat) (d : DevRec) : DevRec := { d with req := d.req.sh n k, userSig := shN n k d.userSig }

/-- a table: keys are names, values are renamed by `f` -/
def shT {β} (n k : Nat) (f : β → β) (l : List (Nat × β)) : List (Nat × β) :=
  l.map (fun p => (shN n k p.1, f p.2))

def Store.sh (n k : Nat) (s : Store) : Store :=
  { codes := shT n k (CodeRec.sh n k) s.codes
    access := shT n k (Req.sh n k) s.access
    refresh := shT n k (RefreshRec.sh n k) s.refresh
    atIdx := shT n k (shN n k) s.atIdx
    rtIdx := shT n k (shN n k) s.rtIdx
    pkce := shT n k (Req.sh n k) s.pkce
    oidc := shT n k (Req.sh n k) s.oidc
    par := shT n k (ParRec.sh n k) s.par
    device := shT n k (DevRec.sh n k) s.device }

def SState.sh (n k : Nat) (ss : SState) : SState :=
  { ss with store := ss.store.sh n k, next := shN n k ss.next }

/-- storage calls: keys, request ids and record arguments.  (`createDevice` ignores the `userSig` of
    its argument — the store overwrites it with the user-code signature it mints — so it is not renamed.) -/
def Call.sh (n k : Nat) : Call → Call
  | .getClient id => .getClient id
  | .createCode r => .createCode (r.sh n k)
  | .getCode x => .getCode (x.map (shN n k))
  | .invalidateCode x => .invalidateCode (x.map (shN n k))
  | .createAccess r => .createAccess (r.sh n k)
  | .getAccess x => .getAccess (x.map (shN n k))
  | .deleteAccess x => .deleteAccess (x.map (shN n k))
  | .revokeAccess rid => .revokeAccess (shN n k rid)
  | .createRefresh a r => .createRefresh (shN n k a) (r.sh n k)
  | .getRefresh x => .getRefresh (x.map (shN n k))
  | .deleteRefresh x => .deleteRefresh (x.map (shN n k))
  | .revokeRefresh rid => .revokeRefresh (shN n k rid)
  | .rotateRefresh rid x => .rotateRefresh (shN n k rid) (x.map (shN n k))
  | .createPKCE s r => .createPKCE (shN n k s) (r.sh n k)
  | .getPKCE x => .getPKCE (x.map (shN n k))
  | .deletePKCE x => .deletePKCE (x.map (shN n k))
  | .createOIDC s r => .createOIDC (shN n k s) (r.sh n k)
  | .getOIDC x => .getOIDC (x.map (shN n k))
  | .deleteOIDC x => .deleteOIDC (x.map (shN n k))
  | .createPAR p => .createPAR (p.sh n k)
  | .getPAR x => .getPAR (x.map (shN n k))
  | .deletePAR x => .deletePAR (x.map (shN n k))
  | .createDevice d => .createDevice { d with req := d.req.sh n k }
  | .getDevice x => .getDevice (x.map (shN n k))
  | .invalidateDevice x => .invalidateDevice (x.map (shN n k))
  | .authenticateUser nm ok => .authenticateUser nm ok
  | .beginTx => .beginTx
  | .commitTx => .commitTx
  | .rollbackTx => .rollbackTx
  | .newId => .newId

def Res.sh (n k : Nat) : Res → Res
  | .ok => .ok
  | .notFound => .notFound
  | .req r => .req (r.sh n k)
  | .inactive r => .inactive (r.sh n k)
  | .client c => .client c
  | .nat x => .nat (shN n k x)
  | .par p => .par (p.sh n k)
  | .dev d => .dev (d.sh n k)
  | .usedDev d => .usedDev (d.sh n k)
  | .fail e => .fail e

/-- endpoint answers: codes, tokens, device / user codes, request URIs and the introspected request -/
def Out.sh (n k : Nat) : Out → Out
  | .ok => .ok
  | .err e => .err e
  | .authz code atk idt => .authz (code.map (shN n k)) (atk.map (shN n k)) idt
  | .tokens atk rt idt e sc => .tokens (shN n k atk) (rt.map (shN n k)) idt e sc
  | .active use r => .active use (r.sh n k)
  | .inactive e => .inactive e
  | .device dc uc e => .device (shN n k dc) (shN n k uc) e
  | .par uri e => .par (shN n k uri) e

/-- storage-call logs -/
def shLog (n k : Nat) (l : List (Call × Res)) : List (Call × Res) :=
  l.map (fun e => (e.1.sh n k, e.2.sh n k))

def RState.sh (n k : Nat) (rs : RState) : RState :=
  { ss := rs.ss.sh n k, snap := rs.snap.map (Store.sh n k), idx := rs.idx, log := shLog n k rs.log }

/-! ### projections -/

section proj
variable (n k : Nat)

@[simp] theorem Req.sh_id (r : Req) : (r.sh n k).id = shN n k r.id := rfl
@[simp] theorem Req.sh_client (r : Req) : (r.sh n k).client = r.client := rfl
@[simp] theorem Req.sh_requestedAt (r : Req) : (r.sh n k).requestedAt = r.requestedAt := rfl
@[simp] theorem Req.sh_reqScopes (r : Req) : (r.sh n k).reqScopes = r.reqScopes := rfl
@[simp] theorem Req.sh_grantedScopes (r : Req) : (r.sh n k).grantedScopes = r.grantedScopes := rfl
@[simp] theorem Req.sh_reqAud (r : Req) : (r.sh n k).reqAud = r.reqAud := rfl
@[simp] theorem Req.sh_grantedAud (r : Req) : (r.sh n k).grantedAud = r.grantedAud := rfl
@[simp] theorem Req.sh_form (r : Req) : (r.sh n k).form = r.form := rfl
@[simp] theorem Req.sh_sess (r : Req) : (r.sh n k).sess = r.sess := rfl
@[simp] theorem Req.sh_formGet (r : Req) (key : String) : (r.sh n k).formGet key = r.formGet key := rfl
@[simp] theorem Req.sh_sanitize (r : Req) (l : List String) : (r.sh n k).sanitize l = (r.sanitize l).sh n k := rfl
@[simp] theorem CodeRec.sh_active (c : CodeRec) : (c.sh n k).active = c.active := rfl
@[simp] theorem CodeRec.sh_req (c : CodeRec) : (c.sh n k).req = c.req.sh n k := rfl
@[simp] theorem RefreshRec.sh_active (c : RefreshRec) : (c.sh n k).active = c.active := rfl
@[simp] theorem RefreshRec.sh_req (c : RefreshRec) : (c.sh n k).req = c.req.sh n k := rfl
@[simp] theorem RefreshRec.sh_atSig (c : RefreshRec) : (c.sh n k).atSig = shN n k c.atSig := rfl
@[simp] theorem ParRec.sh_req (p : ParRec) : (p.sh n k).req = p.req.sh n k := rfl
@[simp] theorem ParRec.sh_redirect (p : ParRec) : (p.sh n k).redirect = p.redirect := rfl
@[simp] theorem ParRec.sh_responseTypes (p : ParRec) : (p.sh n k).responseTypes = p.responseTypes := rfl
@[simp] theorem ParRec.sh_state (p : ParRec) : (p.sh n k).state = p.state := rfl
@[simp] theorem DevRec.sh_req (d : DevRec) : (d.sh n k).req = d.req.sh n k := rfl
@[simp] theorem DevRec.sh_state (d : DevRec) : (d.sh n k).state = d.state := rfl
@[simp] theorem DevRec.sh_used (d : DevRec) : (d.sh n k).used = d.used := rfl
@[simp] theorem DevRec.sh_userSig (d : DevRec) : (d.sh n k).userSig = shN n k d.userSig := rfl
@[simp] theorem SState.sh_clients (ss : SState) : (ss.sh n k).clients = ss.clients := rfl
@[simp] theorem SState.sh_devMark (ss : SState) : (ss.sh n k).devMark = ss.devMark := rfl
@[simp] theorem SState.sh_next (ss : SState) : (ss.sh n k).next = shN n k ss.next := rfl
@[simp] theorem SState.sh_store (ss : SState) : (ss.sh n k).store = ss.store.sh n k := rfl

@[simp] theorem Call.sh_isSilent (c : Call) : (c.sh n k).isSilent = c.isSilent := by cases c <;> rfl
@[simp] theorem Call.sh_isTx (c : Call) : (c.sh n k).isTx = c.isTx := by cases c <;> rfl
@[simp] theorem Res.sh_errKind (r : Res) : (r.sh n k).errKind = r.errKind := by cases r <;> rfl
@[simp] theorem Res.sh_fail (e : Err) : (Res.fail e).sh n k = .fail e := rfl
@[simp] theorem Res.sh_ok : Res.ok.sh n k = .ok := rfl

end proj

/-! ### association lists under the renaming -/

section alist
variable {β : Type} (n k : Nat) (f : β → β)

theorem alookup_shT (l : List (Nat × β)) (x : Nat) :
    alookup (shT n k f l) (shN n k x) = (alookup l x).map f := by
  induction l with
  | nil => rfl
  | cons p t ih =>
    obtain ⟨a, b⟩ := p
    simp only [shT, List.map_cons, alookup, shN_inj] at ih ⊢
    split
    · rfl
    · exact ih

theorem aset_shT (l : List (Nat × β)) (x : Nat) (v : β) :
    aset (shT n k f l) (shN n k x) (f v) = shT n k f (aset l x v) := by
  induction l with
  | nil => rfl
  | cons p t ih =>
    obtain ⟨a, b⟩ := p
    simp only [shT, List.map_cons, aset, shN_inj] at ih ⊢
    split
    · rfl
    · simp only [List.map_cons, ih]

theorem adel_shT (l : List (Nat × β)) (x : Nat) :
    adel (shT n k f l) (shN n k x) = shT n k f (adel l x) := by
  unfold adel shT
  rw [List.filter_map]
  congr 1
  apply List.filter_congr
  intro p _
  simp only [Function.comp, shN_ne]

theorem filter_id_shT (l : List (Nat × Req)) (rid : Nat) :
    (shT n k (Req.sh n k) l).filter (fun p => p.2.id != shN n k rid) =
      shT n k (Req.sh n k) (l.filter (fun p => p.2.id != rid)) := by
  unfold shT
  rw [List.filter_map]
  congr 1
  apply List.filter_congr
  intro p _
  simp only [Function.comp, Req.sh_id, shN_ne]

end alist

/-! ### one storage call commutes with the renaming -/

theorem revokeRefreshS_sh (n k : Nat) (s : Store) (rid : Nat) :
    revokeRefreshS (s.sh n k) (shN n k rid) = ((revokeRefreshS s rid).1.sh n k, (revokeRefreshS s rid).2.sh n k) := by
  unfold revokeRefreshS
  simp only [Store.sh, alookup_shT]
  cases h1 : alookup s.rtIdx rid with
  | none => rfl
  | some sig =>
    simp only [Option.map_some, alookup_shT]
    cases h2 : alookup s.refresh sig with
    | none => rfl
    | some rec =>
      simp only [Option.map_some]
      have := aset_shT n k (RefreshRec.sh n k) s.refresh sig { rec with active := false }
      simp only [RefreshRec.sh] at this ⊢
      simp only [this, Res.sh]

theorem revokeAccessS_sh (n k : Nat) (s : Store) (rid : Nat) :
    revokeAccessS (s.sh n k) (shN n k rid) = ((revokeAccessS s rid).1.sh n k, (revokeAccessS s rid).2.sh n k) := by
  unfold revokeAccessS
  simp only [Store.sh, filter_id_shT, Res.sh]

theorem exec_sh (n k : Nat) (ss : SState) (c : Call) (h : n ≤ ss.next) :
    (ss.sh n k).exec (c.sh n k) = ((ss.exec c).1.sh n k, (ss.exec c).2.sh n k) := by
  have h1 := shN_succ (k := k) h
  have h2 := shN_add (k := k) h 2
  cases c with
  | getClient id =>
    simp only [Call.sh, SState.exec, SState.sh_clients]
    cases ss.clients.find? (fun c => c.id == id) <;> rfl
  | newId => simp only [Call.sh, SState.exec, SState.sh, Res.sh, h1]
  | createCode r =>
    simp only [Call.sh, SState.exec, SState.sh, Store.sh, Res.sh, h1]
    rw [← aset_shT]; rfl
  | createAccess r =>
    simp only [Call.sh, SState.exec, SState.sh, Store.sh, Res.sh, h1, Req.sh_id]
    rw [← aset_shT, ← aset_shT]
  | createRefresh a r =>
    simp only [Call.sh, SState.exec, SState.sh, Store.sh, Res.sh, h1, Req.sh_id]
    rw [← aset_shT, ← aset_shT]; rfl
  | createPKCE s r =>
    simp only [Call.sh, SState.exec, SState.sh, Store.sh, Res.sh]
    rw [← aset_shT]
  | createOIDC s r =>
    simp only [Call.sh, SState.exec, SState.sh, Store.sh, Res.sh]
    rw [← aset_shT]
  | createPAR r =>
    simp only [Call.sh, SState.exec, SState.sh, Store.sh, Res.sh, h1]
    rw [← aset_shT]
  | createDevice r =>
    simp only [Call.sh, SState.exec, SState.sh, Store.sh, Res.sh, h2]
    rw [← aset_shT]
    simp only [DevRec.sh, h1]
  | getCode x =>
    cases x with
    | none => rfl
    | some x =>
      simp only [Call.sh, SState.exec, SState.sh, Store.sh, Option.map_some, Option.bind_some, alookup_shT]
      cases alookup ss.store.codes x with
      | none => rfl
      | some rec =>
        simp only [Option.map_some, CodeRec.sh_active]
        by_cases hact : rec.active = true
        · simp only [hact, ↓reduceIte]; rfl
        · simp only [hact]; rfl
  | invalidateCode x =>
    cases x with
    | none => rfl
    | some x =>
      simp only [Call.sh, SState.exec, SState.sh, Store.sh, Option.map_some, Option.bind_some, alookup_shT]
      cases alookup ss.store.codes x with
      | none => rfl
      | some rec =>
        simp only [Option.map_some]
        have := aset_shT n k (CodeRec.sh n k) ss.store.codes x { rec with active := false }
        simp only [CodeRec.sh] at this ⊢
        simp only [this, Res.sh]
  | getAccess x =>
    cases x with
    | none => rfl
    | some x =>
      simp only [Call.sh, SState.exec, SState.sh, Store.sh, Option.map_some, Option.bind_some, alookup_shT]
      cases alookup ss.store.access x <;> rfl
  | getRefresh x =>
    cases x with
    | none => rfl
    | some x =>
      simp only [Call.sh, SState.exec, SState.sh, Store.sh, Option.map_some, Option.bind_some, alookup_shT]
      cases alookup ss.store.refresh x with
      | none => rfl
      | some rec =>
        simp only [Option.map_some, RefreshRec.sh_active]
        by_cases hact : rec.active = true
        · simp only [hact, ↓reduceIte]; rfl
        · simp only [hact]; rfl
  | getPKCE x =>
    cases x with
    | none => rfl
    | some x =>
      simp only [Call.sh, SState.exec, SState.sh, Store.sh, Option.map_some, Option.bind_some, alookup_shT]
      cases alookup ss.store.pkce x <;> rfl
  | getOIDC x =>
    cases x with
    | none => rfl
    | some x =>
      simp only [Call.sh, SState.exec, SState.sh, Store.sh, Option.map_some, Option.bind_some, alookup_shT]
      cases alookup ss.store.oidc x <;> rfl
  | getPAR x =>
    cases x with
    | none => rfl
    | some x =>
      simp only [Call.sh, SState.exec, SState.sh, Store.sh, Option.map_some, Option.bind_some, alookup_shT]
      cases alookup ss.store.par x <;> rfl
  | getDevice x =>
    cases x with
    | none => rfl
    | some x =>
      simp only [Call.sh, SState.exec, SState.sh, Store.sh, Option.map_some, Option.bind_some, alookup_shT]
      cases alookup ss.store.device x with
      | none => rfl
      | some d =>
        simp only [Option.map_some, DevRec.sh_used]
        by_cases hact : d.used = true
        · simp only [hact, ↓reduceIte]; rfl
        · simp only [hact]; rfl
  | deleteAccess x =>
    cases x with
    | none => rfl
    | some x => simp only [Call.sh, SState.exec, SState.sh, Store.sh, Option.map_some, adel_shT, Res.sh]
  | deleteRefresh x =>
    cases x with
    | none => rfl
    | some x => simp only [Call.sh, SState.exec, SState.sh, Store.sh, Option.map_some, adel_shT, Res.sh]
  | deletePKCE x =>
    cases x with
    | none => rfl
    | some x => simp only [Call.sh, SState.exec, SState.sh, Store.sh, Option.map_some, adel_shT, Res.sh]
  | deleteOIDC x =>
    cases x with
    | none => rfl
    | some x => simp only [Call.sh, SState.exec, SState.sh, Store.sh, Option.map_some, adel_shT, Res.sh]
  | deletePAR x =>
    cases x with
    | none => rfl
    | some x => simp only [Call.sh, SState.exec, SState.sh, Store.sh, Option.map_some, adel_shT, Res.sh]
  | invalidateDevice x =>
    cases x with
    | none => rfl
    | some x =>
      simp only [Call.sh, SState.exec, SState.sh, Store.sh, Option.map_some, alookup_shT, adel_shT, Res.sh]
      split
      · cases alookup ss.store.device x with
        | none => rfl
        | some d =>
          simp only [Option.map_some]
          have := aset_shT n k (DevRec.sh n k) ss.store.device x { d with used := true }
          simp only [DevRec.sh] at this ⊢
          simp only [this]
      · rfl
  | revokeAccess rid =>
    simp only [Call.sh, SState.exec]
    have := revokeAccessS_sh n k ss.store rid
    simp only [SState.sh_store, this]; rfl
  | revokeRefresh rid =>
    simp only [Call.sh, SState.exec]
    have := revokeRefreshS_sh n k ss.store rid
    simp only [SState.sh_store, this]; rfl
  | rotateRefresh rid x =>
    simp only [Call.sh, SState.exec]
    have e1 := revokeRefreshS_sh n k ss.store rid
    simp only [SState.sh_store, e1]
    cases hr : (revokeRefreshS ss.store rid).2 <;> simp only [Res.sh] <;> try rfl
    have e2 := revokeAccessS_sh n k (revokeRefreshS ss.store rid).1 rid
    simp only [e2]; rfl
  | authenticateUser nm ok => cases ok <;> rfl
  | beginTx => rfl
  | commitTx => rfl
  | rollbackTx => rfl

/-! ### every name is below a bound -/

def Req.Below (m : Nat) (r : Req) : Prop := r.id < m
def CodeRec.Below (m : Nat) (c : CodeRec) : Prop := c.req.id < m
def RefreshRec.Below (m : Nat) (c : RefreshRec) : Prop := c.atSig < m ∧ c.req.id < m
def ParRec.Below (m : Nat) (p : ParRec) : Prop := p.req.id < m
def DevRec.Below (m : Nat) (d : DevRec) : Prop := d.req.id < m ∧ d.userSig < m
def NatBelow (m : Nat) (x : Nat) : Prop := x < m
def OptBelow (m : Nat) : Option Nat → Prop
  | none => True
  | some x => x < m

instance (m : Nat) (r : Req) : Decidable (r.Below m) := by unfold Req.Below; infer_instance
instance (m : Nat) (r : CodeRec) : Decidable (r.Below m) := by unfold CodeRec.Below; infer_instance
instance (m : Nat) (r : RefreshRec) : Decidable (r.Below m) := by unfold RefreshRec.Below; infer_instance
instance (m : Nat) (r : ParRec) : Decidable (r.Below m) := by unfold ParRec.Below; infer_instance
instance (m : Nat) (r : DevRec) : Decidable (r.Below m) := by unfold DevRec.Below; infer_instance
instance (m x : Nat) : Decidable (NatBelow m x) := by unfold NatBelow; infer_instance
instance (m : Nat) (x : Option Nat) : Decidable (OptBelow m x) := by cases x <;> unfold OptBelow <;> infer_instance

/-- a table all of whose keys are `< m` and whose values satisfy `P m` -/
def TBelow {β} (m : Nat) (P : Nat → β → Prop) (l : List (Nat × β)) : Prop := ∀ p ∈ l, p.1 < m ∧ P m p.2

instance {β} (m : Nat) (P : Nat → β → Prop) [∀ v, Decidable (P m v)] (l : List (Nat × β)) : Decidable (TBelow m P l) := by
  unfold TBelow; infer_instance

structure Store.Below (m : Nat) (s : Store) : Prop where
  codes : TBelow m CodeRec.Below s.codes
  access : TBelow m Req.Below s.access
  refresh : TBelow m RefreshRec.Below s.refresh
  atIdx : TBelow m NatBelow s.atIdx
  rtIdx : TBelow m NatBelow s.rtIdx
  pkce : TBelow m Req.Below s.pkce
  oidc : TBelow m Req.Below s.oidc
  par : TBelow m ParRec.Below s.par
  device : TBelow m DevRec.Below s.device

instance (m : Nat) (s : Store) : Decidable (s.Below m) :=
  decidable_of_iff (TBelow m CodeRec.Below s.codes ∧ TBelow m Req.Below s.access ∧ TBelow m RefreshRec.Below s.refresh ∧
      TBelow m NatBelow s.atIdx ∧ TBelow m NatBelow s.rtIdx ∧ TBelow m Req.Below s.pkce ∧ TBelow m Req.Below s.oidc ∧
      TBelow m ParRec.Below s.par ∧ TBelow m DevRec.Below s.device)
    ⟨fun ⟨a, b, c, d, e, f, g, h, i⟩ => ⟨a, b, c, d, e, f, g, h, i⟩,
     fun ⟨a, b, c, d, e, f, g, h, i⟩ => ⟨a, b, c, d, e, f, g, h, i⟩⟩

/-- **well-formedness**: every signature and request id in the store is below the mint counter -/
def AllBelow (ss : SState) : Prop := ss.store.Below ss.next

instance (ss : SState) : Decidable (AllBelow ss) := by unfold AllBelow; infer_instance

/-- every name a record-creating storage call puts into the store is `< m` (lookups, deletions and
    revocations put no name into the store whatever key they are given; as for `Call.sh`, the `userSig`
    of a `createDevice` argument does not count: the store overwrites it) -/
def Call.Below (m : Nat) : Call → Prop
  | .createCode r | .createAccess r => r.id < m
  | .createRefresh a r => a < m ∧ r.id < m
  | .createPKCE s r | .createOIDC s r => s < m ∧ r.id < m
  | .createPAR p => p.req.id < m
  | .createDevice d => d.req.id < m
  | _ => True

def Res.Below (m : Nat) : Res → Prop
  | .req r | .inactive r => r.id < m
  | .nat x => x < m
  | .par p => p.req.id < m
  | .dev d | .usedDev d => d.req.id < m ∧ d.userSig < m
  | _ => True

section below
variable {β : Type} {P : Nat → β → Prop}

theorem TBelow.mono {m m' : Nat} {l : List (Nat × β)} (hP : ∀ v, P m v → P m' v) (hm : m ≤ m')
    (h : TBelow m P l) : TBelow m' P l :=
  fun p hp => ⟨Nat.lt_of_lt_of_le (h p hp).1 hm, hP _ (h p hp).2⟩

theorem TBelow.nil (m : Nat) : TBelow m P ([] : List (Nat × β)) := fun _ hp => by cases hp

theorem TBelow.aset {m : Nat} {l : List (Nat × β)} (h : TBelow m P l) (x : Nat) (v : β) (hx : x < m) (hv : P m v) :
    TBelow m P (aset l x v) := by
  induction l with
  | nil => intro p hp; simp only [Fosite.Model.aset, List.mem_singleton] at hp; subst hp; exact ⟨hx, hv⟩
  | cons q t ih =>
    obtain ⟨a, b⟩ := q
    have ht : TBelow m P t := fun p hp => h p (List.mem_cons_of_mem _ hp)
    intro p hp
    simp only [Fosite.Model.aset] at hp
    split at hp
    · rcases List.mem_cons.mp hp with hp | hp
      · subst hp; exact ⟨hx, hv⟩
      · exact ht p hp
    · rcases List.mem_cons.mp hp with hp | hp
      · subst hp; exact h _ List.mem_cons_self
      · exact ih ht p hp

theorem TBelow.adel {m : Nat} {l : List (Nat × β)} (h : TBelow m P l) (x : Nat) : TBelow m P (adel l x) :=
  fun p hp => h p (List.mem_filter.mp hp).1

theorem TBelow.filter {m : Nat} {l : List (Nat × β)} (h : TBelow m P l) (f : Nat × β → Bool) : TBelow m P (l.filter f) :=
  fun p hp => h p (List.mem_filter.mp hp).1

theorem alookup_mem {l : List (Nat × β)} {x : Nat} {v : β} (h : alookup l x = some v) : (x, v) ∈ l := by
  induction l with
  | nil => cases h
  | cons q t ih =>
    obtain ⟨a, b⟩ := q
    simp only [alookup] at h
    split at h
    · cases h; rename_i hk; subst hk; exact List.mem_cons_self
    · exact List.mem_cons_of_mem _ (ih h)

theorem TBelow.lookup {m : Nat} {l : List (Nat × β)} (h : TBelow m P l) {x : Nat} {v : β} (hl : alookup l x = some v) :
    x < m ∧ P m v := h _ (alookup_mem hl)

/-- a table whose names are below `n` is fixed by the renaming at `n` -/
theorem shT_fixed {n k : Nat} {f : β → β} {l : List (Nat × β)} (h : TBelow n P l) (hf : ∀ v, P n v → f v = v) :
    shT n k f l = l := by
  unfold shT
  conv => rhs; rw [← List.map_id l]
  apply List.map_congr_left
  intro p hp
  obtain ⟨a, b⟩ := p
  simp only [id, shN_lt (h _ hp).1, hf _ (h _ hp).2]

end below

theorem Req.sh_fixed {n k : Nat} {r : Req} (h : r.Below n) : r.sh n k = r := by
  unfold Req.sh; rw [shN_lt h]
theorem Req.sh_fixed' {n k : Nat} {r : Req} (h : r.id < n) : r.sh n k = r := Req.sh_fixed h
theorem CodeRec.sh_fixed {n k : Nat} {r : CodeRec} (h : r.Below n) : r.sh n k = r := by
  unfold CodeRec.sh; rw [Req.sh_fixed' h]
theorem RefreshRec.sh_fixed {n k : Nat} {r : RefreshRec} (h : r.Below n) : r.sh n k = r := by
  unfold RefreshRec.sh; rw [Req.sh_fixed' h.2, shN_lt h.1]
theorem ParRec.sh_fixed {n k : Nat} {r : ParRec} (h : r.Below n) : r.sh n k = r := by
  unfold ParRec.sh; rw [Req.sh_fixed' h]
theorem DevRec.sh_fixed {n k : Nat} {r : DevRec} (h : r.Below n) : r.sh n k = r := by
  unfold DevRec.sh; rw [Req.sh_fixed' h.1, shN_lt h.2]

/-- a store whose names are below `n` is fixed by the renaming at `n` -/
theorem Store.sh_fixed {n k : Nat} {s : Store} (h : s.Below n) : s.sh n k = s := by
  unfold Store.sh
  rw [shT_fixed h.codes (fun _ => CodeRec.sh_fixed), shT_fixed h.access (fun _ => Req.sh_fixed),
    shT_fixed h.refresh (fun _ => RefreshRec.sh_fixed), shT_fixed h.atIdx (fun _ hv => shN_lt hv),
    shT_fixed h.rtIdx (fun _ hv => shN_lt hv), shT_fixed h.pkce (fun _ => Req.sh_fixed),
    shT_fixed h.oidc (fun _ => Req.sh_fixed), shT_fixed h.par (fun _ => ParRec.sh_fixed),
    shT_fixed h.device (fun _ => DevRec.sh_fixed)]

/-- **a well-formed state is renamed only in its mint counter** -/
theorem SState.sh_of_allBelow (k : Nat) (ss : SState) (h : AllBelow ss) :
    ss.sh ss.next k = { ss with next := ss.next + k } := by
  unfold SState.sh
  rw [Store.sh_fixed h, shN_ge (Nat.le_refl _)]

theorem Store.Below.mono {m m' : Nat} {s : Store} (h : s.Below m) (hm : m ≤ m') : s.Below m' :=
  { codes := h.codes.mono (fun _ hv => Nat.lt_of_lt_of_le hv hm) hm
    access := h.access.mono (fun _ hv => Nat.lt_of_lt_of_le hv hm) hm
    refresh := h.refresh.mono (fun _ hv => ⟨Nat.lt_of_lt_of_le hv.1 hm, Nat.lt_of_lt_of_le hv.2 hm⟩) hm
    atIdx := h.atIdx.mono (fun _ hv => Nat.lt_of_lt_of_le hv hm) hm
    rtIdx := h.rtIdx.mono (fun _ hv => Nat.lt_of_lt_of_le hv hm) hm
    pkce := h.pkce.mono (fun _ hv => Nat.lt_of_lt_of_le hv hm) hm
    oidc := h.oidc.mono (fun _ hv => Nat.lt_of_lt_of_le hv hm) hm
    par := h.par.mono (fun _ hv => Nat.lt_of_lt_of_le hv hm) hm
    device := h.device.mono (fun _ hv => ⟨Nat.lt_of_lt_of_le hv.1 hm, Nat.lt_of_lt_of_le hv.2 hm⟩) hm }

theorem Res.Below.mono {m m' : Nat} {r : Res} (h : r.Below m) (hm : m ≤ m') : r.Below m' := by
  cases r <;> simp only [Res.Below] at h ⊢ <;> omega

theorem OptBelow.mono {m m' : Nat} {x : Option Nat} (h : OptBelow m x) (hm : m ≤ m') : OptBelow m' x := by
  cases x with
  | none => trivial
  | some x => exact Nat.lt_of_lt_of_le h hm

theorem Call.Below.mono {m m' : Nat} {c : Call} (h : c.Below m) (hm : m ≤ m') : c.Below m' := by
  cases c <;> simp only [Call.Below] at h ⊢ <;> omega

/-! ### storage calls keep the state well-formed -/

theorem revokeRefreshS_Below {m : Nat} {s : Store} (h : s.Below m) (rid : Nat) : (revokeRefreshS s rid).1.Below m := by
  unfold revokeRefreshS
  split
  · exact h
  · split
    · exact h
    · rename_i rec h2
      have := h.refresh.lookup h2
      exact { h with refresh := h.refresh.aset _ _ this.1 this.2 }

theorem revokeAccessS_Below {m : Nat} {s : Store} (h : s.Below m) (rid : Nat) : (revokeAccessS s rid).1.Below m := by
  unfold revokeAccessS
  exact { h with access := h.access.filter _ }

theorem exec_Below (ss : SState) (c : Call) (h : AllBelow ss) (hc : c.Below ss.next) :
    AllBelow (ss.exec c).1 ∧ (ss.exec c).2.Below (ss.exec c).1.next := by
  unfold AllBelow at h ⊢
  have h1 : ss.store.Below (ss.next + 1) := h.mono (Nat.le_succ _)
  have h2 : ss.store.Below (ss.next + 2) := h.mono (Nat.le_add_right _ _)
  cases c with
  | getClient id =>
    simp only [SState.exec]
    cases ss.clients.find? (fun c => c.id == id) <;> exact ⟨h, trivial⟩
  | newId => exact ⟨h1, Nat.lt_succ_self _⟩
  | createCode r =>
    simp only [Call.Below] at hc
    exact ⟨{ h1 with codes := h1.codes.aset _ _ (Nat.lt_succ_self _) (Nat.lt_succ_of_lt hc) }, Nat.lt_succ_self _⟩
  | createAccess r =>
    simp only [Call.Below] at hc
    exact ⟨{ h1 with access := h1.access.aset _ _ (Nat.lt_succ_self _) (Nat.lt_succ_of_lt hc)
                     atIdx := h1.atIdx.aset _ _ (Nat.lt_succ_of_lt hc) (Nat.lt_succ_self _) }, Nat.lt_succ_self _⟩
  | createRefresh a r =>
    simp only [Call.Below] at hc
    exact ⟨{ h1 with refresh := h1.refresh.aset _ _ (Nat.lt_succ_self _) ⟨Nat.lt_succ_of_lt hc.1, Nat.lt_succ_of_lt hc.2⟩
                     rtIdx := h1.rtIdx.aset _ _ (Nat.lt_succ_of_lt hc.2) (Nat.lt_succ_self _) }, Nat.lt_succ_self _⟩
  | createPKCE s r =>
    simp only [Call.Below] at hc
    exact ⟨{ h with pkce := h.pkce.aset _ _ hc.1 hc.2 }, trivial⟩
  | createOIDC s r =>
    simp only [Call.Below] at hc
    exact ⟨{ h with oidc := h.oidc.aset _ _ hc.1 hc.2 }, trivial⟩
  | createPAR r =>
    simp only [Call.Below] at hc
    exact ⟨{ h1 with par := h1.par.aset _ _ (Nat.lt_succ_self _) (Nat.lt_succ_of_lt hc) }, Nat.lt_succ_self _⟩
  | createDevice r =>
    simp only [Call.Below] at hc
    refine ⟨{ h2 with device := h2.device.aset _ _ ?_ ⟨?_, ?_⟩ }, ?_⟩
    · show ss.next < ss.next + 2; omega
    · show r.req.id < ss.next + 2; omega
    · show ss.next + 1 < ss.next + 2; omega
    · show ss.next < ss.next + 2; omega
  | getCode x =>
    cases x with
    | none => exact ⟨h, trivial⟩
    | some x =>
      simp only [SState.exec, Option.bind_some]
      cases hl : alookup ss.store.codes x with
      | none => exact ⟨h, trivial⟩
      | some rec =>
        have := (h.codes.lookup hl).2
        by_cases hact : rec.active = true
        · simp only [hact, ↓reduceIte]; exact ⟨h, this⟩
        · simp only [hact]; exact ⟨h, this⟩
  | invalidateCode x =>
    cases x with
    | none => exact ⟨h, trivial⟩
    | some x =>
      simp only [SState.exec, Option.bind_some]
      cases hl : alookup ss.store.codes x with
      | none => exact ⟨h, trivial⟩
      | some rec =>
        have := h.codes.lookup hl
        exact ⟨{ h with codes := h.codes.aset _ _ this.1 this.2 }, trivial⟩
  | getAccess x =>
    cases x with
    | none => exact ⟨h, trivial⟩
    | some x =>
      simp only [SState.exec, Option.bind_some]
      cases hl : alookup ss.store.access x with
      | none => exact ⟨h, trivial⟩
      | some r => exact ⟨h, (h.access.lookup hl).2⟩
  | getRefresh x =>
    cases x with
    | none => exact ⟨h, trivial⟩
    | some x =>
      simp only [SState.exec, Option.bind_some]
      cases hl : alookup ss.store.refresh x with
      | none => exact ⟨h, trivial⟩
      | some rec =>
        have := (h.refresh.lookup hl).2.2
        by_cases hact : rec.active = true
        · simp only [hact, ↓reduceIte]; exact ⟨h, this⟩
        · simp only [hact]; exact ⟨h, this⟩
  | getPKCE x =>
    cases x with
    | none => exact ⟨h, trivial⟩
    | some x =>
      simp only [SState.exec, Option.bind_some]
      cases hl : alookup ss.store.pkce x with
      | none => exact ⟨h, trivial⟩
      | some r => exact ⟨h, (h.pkce.lookup hl).2⟩
  | getOIDC x =>
    cases x with
    | none => exact ⟨h, trivial⟩
    | some x =>
      simp only [SState.exec, Option.bind_some]
      cases hl : alookup ss.store.oidc x with
      | none => exact ⟨h, trivial⟩
      | some r => exact ⟨h, (h.oidc.lookup hl).2⟩
  | getPAR x =>
    cases x with
    | none => exact ⟨h, trivial⟩
    | some x =>
      simp only [SState.exec, Option.bind_some]
      cases hl : alookup ss.store.par x with
      | none => exact ⟨h, trivial⟩
      | some r => exact ⟨h, (h.par.lookup hl).2⟩
  | getDevice x =>
    cases x with
    | none => exact ⟨h, trivial⟩
    | some x =>
      simp only [SState.exec, Option.bind_some]
      cases hl : alookup ss.store.device x with
      | none => exact ⟨h, trivial⟩
      | some d =>
        have := (h.device.lookup hl).2
        by_cases hact : d.used = true
        · simp only [hact, ↓reduceIte]; exact ⟨h, this⟩
        · simp only [hact]; exact ⟨h, this⟩
  | deleteAccess x =>
    cases x with
    | none => exact ⟨h, trivial⟩
    | some x => exact ⟨{ h with access := h.access.adel x }, trivial⟩
  | deleteRefresh x =>
    cases x with
    | none => exact ⟨h, trivial⟩
    | some x => exact ⟨{ h with refresh := h.refresh.adel x }, trivial⟩
  | deletePKCE x =>
    cases x with
    | none => exact ⟨h, trivial⟩
    | some x => exact ⟨{ h with pkce := h.pkce.adel x }, trivial⟩
  | deleteOIDC x =>
    cases x with
    | none => exact ⟨h, trivial⟩
    | some x => exact ⟨{ h with oidc := h.oidc.adel x }, trivial⟩
  | deletePAR x =>
    cases x with
    | none => exact ⟨h, trivial⟩
    | some x => exact ⟨{ h with par := h.par.adel x }, trivial⟩
  | invalidateDevice x =>
    cases x with
    | none => exact ⟨h, trivial⟩
    | some x =>
      simp only [SState.exec]
      split
      · cases hl : alookup ss.store.device x with
        | none => exact ⟨h, trivial⟩
        | some d =>
          have := h.device.lookup hl
          exact ⟨{ h with device := h.device.aset _ _ this.1 this.2 }, trivial⟩
      · exact ⟨{ h with device := h.device.adel x }, trivial⟩
  | revokeAccess rid =>
    simp only [SState.exec]
    exact ⟨revokeAccessS_Below h rid, trivial⟩
  | revokeRefresh rid =>
    simp only [SState.exec]
    refine ⟨revokeRefreshS_Below h rid, ?_⟩
    unfold revokeRefreshS
    (repeat' split) <;> trivial
  | rotateRefresh rid x =>
    simp only [SState.exec]
    have e1 := revokeRefreshS_Below h rid
    cases hr : (revokeRefreshS ss.store rid).2 with
    | ok => exact ⟨revokeAccessS_Below e1 rid, trivial⟩
    | notFound => exact ⟨e1, trivial⟩
    | _ =>
      exfalso
      unfold revokeRefreshS at hr
      (repeat' split at hr) <;> cases hr
  | authenticateUser nm ok => cases ok <;> exact ⟨h, trivial⟩
  | beginTx => exact ⟨h, trivial⟩
  | commitTx => exact ⟨h, trivial⟩
  | rollbackTx => exact ⟨h, trivial⟩

/-! ### freshly minted names are not below the threshold -/

/-- a numeric answer (a freshly minted signature / id) is `≥ n` -/
def Res.Above (n : Nat) (r : Res) : Prop := ∀ x, r = .nat x → n ≤ x

theorem exec_Above (n : Nat) (ss : SState) (c : Call) (h : n ≤ ss.next) : (ss.exec c).2.Above n := by
  intro x hx
  cases c <;> simp only [SState.exec, revokeRefreshS, revokeAccessS] at hx <;>
    first
      | (cases hx; exact h)
      | (exfalso; revert hx; repeat' split) <;> intro hx <;> cases hx

/-! ### one interpreter step commutes with the renaming -/

theorem shLog_append (n k : Nat) (l1 l2 : List (Call × Res)) : shLog n k (l1 ++ l2) = shLog n k l1 ++ shLog n k l2 := by
  simp [shLog]

theorem step_sh (n k : Nat) (rc : RunCfg) (rs : RState) (c : Call) (hn : n ≤ rs.ss.next) :
    (rs.sh n k).step rc (c.sh n k) = ((rs.step rc c).1.sh n k, (rs.step rc c).2.sh n k) := by
  unfold RState.step
  simp only [Call.sh_isSilent, Call.sh_isTx]
  by_cases hs : c.isSilent = true
  · simp only [hs, if_true]
    have := exec_sh n k rs.ss c hn
    simp only [RState.sh] at this ⊢
    rw [this]
  · simp only [hs, Bool.false_eq_true, if_false]
    by_cases ht : (c.isTx && !rc.tx) = true
    · simp only [ht, if_true]; rfl
    · simp only [ht, Bool.false_eq_true, if_false]
      have hidx : (rs.sh n k).idx = rs.idx := rfl
      rw [hidx]
      cases hp : rc.plan rs.idx with
      | some e => simp only [RState.sh, shLog_append]; rfl
      | none =>
        have hex := exec_sh n k rs.ss c hn
        cases c
        case beginTx => simp only [RState.sh, shLog_append, Call.sh]; rfl
        case commitTx => simp only [RState.sh, shLog_append, Call.sh]; rfl
        case rollbackTx =>
          simp only [RState.sh, shLog_append, Call.sh]
          cases rs.snap <;> rfl
        all_goals
          simp only [RState.sh, shLog_append]
          rw [hex]; rfl

/-- what one interpreter step keeps: well-formedness of the state and of the transaction snapshot, the
    answer names only minted names, numeric answers are fresh, the counter only grows -/
theorem step_Below (n : Nat) (rc : RunCfg) (rs : RState) (c : Call) (hn : n ≤ rs.ss.next) (hb : AllBelow rs.ss)
    (hsnap : ∀ s0, rs.snap = some s0 → s0.Below rs.ss.next) (hc : c.Below rs.ss.next) :
    rs.ss.next ≤ (rs.step rc c).1.ss.next ∧ AllBelow (rs.step rc c).1.ss ∧
    (∀ s0, (rs.step rc c).1.snap = some s0 → s0.Below (rs.step rc c).1.ss.next) ∧
    (rs.step rc c).2.Below (rs.step rc c).1.ss.next ∧ (rs.step rc c).2.Above n := by
  rcases step_cases rc rs c with ⟨_, hf, hr⟩ | ⟨_, ⟨e, hr⟩, hss, hsn⟩ | ⟨_, hr, hss, hsn⟩ |
    ⟨_, _, hr, hss, hsn⟩ | ⟨_, _, hr, hss, hsn⟩ | ⟨_, _, hr, hss, hsn⟩
  · rw [hf, hr]; exact ⟨Nat.le_refl _, hb, hsnap, trivial, fun x hx => by cases hx⟩
  · rw [hss, hsn, hr]; exact ⟨Nat.le_refl _, hb, hsnap, trivial, fun x hx => by cases hx⟩
  · rw [hss, hsn, hr]
    have hle := exec_next_le rs.ss c
    obtain ⟨h1, h2⟩ := exec_Below rs.ss c hb hc
    exact ⟨hle, h1, fun s0 h0 => (hsnap s0 h0).mono hle, h2, exec_Above n rs.ss c hn⟩
  · rw [hss, hsn, hr]
    refine ⟨Nat.le_refl _, hb, ?_, trivial, fun x hx => by cases hx⟩
    intro s0 h0; cases h0; exact hb
  · rw [hss, hsn, hr]
    exact ⟨Nat.le_refl _, hb, fun s0 h0 => (by cases h0), trivial, fun x hx => (by cases hx)⟩
  · rw [hss, hsn, hr]
    refine ⟨Nat.le_refl _, ?_, fun s0 h0 => (by cases h0), trivial, fun x hx => (by cases hx)⟩
    cases hsn' : rs.snap with
    | none => exact hb
    | some s0 => exact hsnap s0 hsn'

/-! ### the relational calculus -/

/-- `eqvK n k p p' m K`: `p'` is `p` with every storage call renamed by `sh n k`, provided the answers
    fed to `p'` are the renamed answers fed to `p`; every call of `p` names only names below the bound
    (`m` at the start; the bound only grows, and every answer is below the bound of its time; numeric
    answers are `≥ n`); the final values are related by `K` at the final bound. -/
def eqvK (n k : Nat) {α α' : Type} : Prog α → Prog α' → Nat → (Nat → α → α' → Prop) → Prop
  | .ret a, .ret b, m, K => K m a b
  | .call c f, .call c' f', m, K =>
    c' = c.sh n k ∧ c.Below m ∧
      ∀ r m', m ≤ m' → r.Below m' → r.Above n → eqvK n k (f r) (f' (r.sh n k)) m' K
  | _, _, _, _ => False

theorem eqvK_mono (n k : Nat) {α α' : Type} (p : Prog α) (p' : Prog α') (m : Nat) (K K' : Nat → α → α' → Prop)
    (h : ∀ m' a b, m ≤ m' → K m' a b → K' m' a b) : eqvK n k p p' m K → eqvK n k p p' m K' := by
  induction p generalizing p' m with
  | ret a => cases p' with
    | ret b => exact h m a b (Nat.le_refl _)
    | call c' f' => exact id
  | call c f ih => cases p' with
    | ret b => exact id
    | call c' f' =>
      intro ⟨h1, h2, h3⟩
      exact ⟨h1, h2, fun r m' hm hr ha => ih r _ m' (fun m'' a b hm' => h m'' a b (Nat.le_trans hm hm')) (h3 r m' hm hr ha)⟩

theorem eqvK_bind (n k : Nat) {α α' β β' : Type} (p : Prog α) (p' : Prog α') (f : α → Prog β) (f' : α' → Prog β')
    (m : Nat) (K : Nat → β → β' → Prop) :
    eqvK n k p p' m (fun m' a b => eqvK n k (f a) (f' b) m' K) → eqvK n k (p.bind f) (p'.bind f') m K := by
  induction p generalizing p' m with
  | ret a => cases p' with
    | ret b => exact id
    | call c' f'' => intro h; exact absurd h id
  | call c g ih => cases p' with
    | ret b => intro h; exact absurd h id
    | call c' g' =>
      intro ⟨h1, h2, h3⟩
      exact ⟨h1, h2, fun r m' hm hr ha => ih r _ m' (h3 r m' hm hr ha)⟩

/-- the bound may be raised -/
theorem eqvK_bound (n k : Nat) {α α' : Type} (p : Prog α) (p' : Prog α') (m m0 : Nat) (K : Nat → α → α' → Prop)
    (hK : ∀ m1 m2 a b, m1 ≤ m2 → K m1 a b → K m2 a b) (hm : m ≤ m0) : eqvK n k p p' m K → eqvK n k p p' m0 K := by
  induction p generalizing p' m m0 with
  | ret a => cases p' with
    | ret b => exact hK m m0 a b hm
    | call c' f' => exact id
  | call c f ih => cases p' with
    | ret b => exact id
    | call c' f' =>
      intro ⟨h1, h2, h3⟩
      exact ⟨h1, h2.mono hm, fun r m' hm' hr ha => h3 r m' (Nat.le_trans hm hm') hr ha⟩

/-- **Soundness**: for every run configuration the run of `p'` from the renamed state is the renamed
    run of `p` (state, transaction snapshot, call index, log), the values are related, and the state stays
    well-formed. -/
theorem eqvK_sound (n k : Nat) {α α' : Type} (rc : RunCfg) (p : Prog α) (p' : Prog α') (K : Nat → α → α' → Prop)
    (rs : RState) (hn : n ≤ rs.ss.next) (hb : AllBelow rs.ss)
    (hsnap : ∀ s0, rs.snap = some s0 → s0.Below rs.ss.next)
    (h : eqvK n k p p' rs.ss.next K) :
    (run rc (rs.sh n k) p').1 = (run rc rs p).1.sh n k ∧
    K (run rc rs p).1.ss.next (run rc rs p).2 (run rc (rs.sh n k) p').2 ∧
    AllBelow (run rc rs p).1.ss ∧
    (∀ s0, (run rc rs p).1.snap = some s0 → s0.Below (run rc rs p).1.ss.next) := by
  induction p generalizing p' rs with
  | ret a => cases p' with
    | ret b => exact ⟨rfl, h, hb, hsnap⟩
    | call c' f' => exact absurd h id
  | call c f ih => cases p' with
    | ret b => exact absurd h id
    | call c' f' =>
      obtain ⟨h1, h2, h3⟩ := h
      subst h1
      obtain ⟨g1, g2, g3, g4, g5⟩ := step_Below n rc rs c hn hb hsnap h2
      have hstep := step_sh n k rc rs c hn
      simp only [run_call, hstep]
      exact ih _ _ _ (Nat.le_trans hn g1) g2 g3 (h3 _ _ g1 g4 g5)

end Fosite.Model

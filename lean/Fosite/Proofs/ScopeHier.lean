/-
  `HierarchicScopeStrategy`: the model of the Go loop (`Model.hierarchicOne`) decides exactly
  "equal, or the registered scope followed by a dot is a prefix of the requested one" — for every
  pair of strings, no bound.

  Route:  `hierLoop hay k ns = hl (hay.drop k) ns`  (index loop = structural recursion on the
  remaining segments);  `hl hs ns = true ↔ hs` is a strict list-prefix of `ns`;  on the character
  level  `hl (splitDot h) (splitDot n) = (h ++ ['.']).isPrefixOf n`  (direct induction, together
  with the algebra of `splitDot` / `joinDot` which is proved for its own sake);  the length guard
  `len(this) > len(needle) → continue` is implied by the prefix relation.
-/
import Fosite.Proofs.Scope
namespace Fosite.Proofs
open Fosite.Model Fosite.Spec

/-! ### The loop as a structural recursion -/

/-- The inner loop of `HierarchicScopeStrategy` on (remaining haystack segments, remaining needle
    segments): running out of haystack segments while needle segments remain is `return true`;
    running out of needle segments, or a differing segment, is "fell out of the loop / `break`". -/
def hl : List Seg → List Seg → Bool
  | _, [] => false
  | [], _ :: _ => true
  | h :: hs, n :: ns => if h != n then false else hl hs ns

theorem hierLoop_eq_hl (hay : List Seg) (hne : hay ≠ []) (k : Nat) (ns : List Seg)
    (hk : k ≤ hay.length) : hierLoop hay k ns = hl (hay.drop k) ns := by
  induction ns generalizing k with
  | nil => simp [hierLoop, hl]
  | cons n ns ih =>
    have hpos : 0 < hay.length := List.length_pos_iff.mpr hne
    by_cases hlt : k < hay.length
    · have hdrop : hay.drop k = hay[k] :: hay.drop (k + 1) := List.drop_eq_getElem_cons hlt
      have hget : hay[k]? = some hay[k] := List.getElem?_eq_getElem hlt
      have hc : ¬ (hay.length - 1 < k ∨ hay.length = 0) := by omega
      rw [hdrop]
      simp only [hierLoop, hl, hc, if_false, hget]
      rw [ih (k + 1) (by omega)]
    · have hkeq : k = hay.length := by omega
      have hc : hay.length - 1 < k ∨ hay.length = 0 := by omega
      have hdrop : hay.drop k = [] := by simp [hkeq]
      rw [hdrop]
      simp only [hierLoop, hl, hc, if_true]

/-- `hl` holds exactly when the first list is a strict list-prefix of the second. -/
theorem hl_iff_strict_prefix (hs ns : List Seg) :
    hl hs ns = true ↔ ∃ t, t ≠ [] ∧ ns = hs ++ t := by
  induction hs generalizing ns with
  | nil =>
    cases ns with
    | nil => simp [hl]
    | cons n ns => simp [hl]
  | cons h hs ih =>
    cases ns with
    | nil => simp [hl]
    | cons n ns =>
      simp only [hl]
      by_cases hn : h = n
      · subst hn
        simp only [bne_self_eq_false, Bool.false_eq_true, if_false, ih ns, List.cons_append,
          List.cons.injEq, true_and]
      · have : (h != n) = true := by simp [hn]
        simp only [this, if_true, Bool.false_eq_true, false_iff]
        intro ⟨t, _, ht⟩
        simp only [List.cons_append, List.cons.injEq] at ht
        exact hn ht.1.symm

/-! ### `splitDot` / `joinDot` -/

theorem splitDot_nil : splitDot [] = [[]] := by simp [splitDot]

theorem splitDot_dot (cs : List Char) : splitDot ('.' :: cs) = [] :: splitDot cs := by
  simp [splitDot]

theorem splitDot_cons_of_ne {c : Char} (hc : c ≠ '.') {cs : List Char} {s : Seg} {ss : List Seg}
    (h : splitDot cs = s :: ss) : splitDot (c :: cs) = (c :: s) :: ss := by
  rw [splitDot]; simp only [hc, if_false, h]

/-- for a non-dot head, `splitDot` pushes the character onto the first segment of the rest -/
theorem splitDot_cons_ne (c : Char) (hc : c ≠ '.') (cs : List Char) :
    ∃ s ss, splitDot cs = s :: ss ∧ splitDot (c :: cs) = (c :: s) :: ss := by
  cases h : splitDot cs with
  | nil => exact absurd h (splitDot_ne_nil cs)
  | cons s ss => exact ⟨s, ss, rfl, splitDot_cons_of_ne hc h⟩

/-- segments contain no dot -/
theorem splitDot_no_dot (s : List Char) : ∀ seg ∈ splitDot s, '.' ∉ seg := by
  induction s with
  | nil => intro seg hseg; simp [splitDot_nil] at hseg; simp [hseg]
  | cons c cs ih =>
    by_cases hc : c = '.'
    · subst hc
      intro seg hseg
      rw [splitDot_dot] at hseg
      rcases List.mem_cons.mp hseg with h | h
      · simp [h]
      · exact ih seg h
    · obtain ⟨s, ss, h1, h2⟩ := splitDot_cons_ne c hc cs
      intro seg hseg
      rw [h2] at hseg
      rcases List.mem_cons.mp hseg with h | h
      · subst h
        have := ih s (by rw [h1]; simp)
        intro hm
        rcases List.mem_cons.mp hm with h' | h'
        · exact hc h'.symm
        · exact this h'
      · exact ih seg (by rw [h1]; exact List.mem_cons_of_mem _ h)

/-- `strings.Split(a + "." + b, ".") = strings.Split(a, ".") ++ strings.Split(b, ".")` -/
theorem splitDot_append_dot (a b : List Char) :
    splitDot (a ++ '.' :: b) = splitDot a ++ splitDot b := by
  induction a with
  | nil => simp [splitDot_nil, splitDot_dot]
  | cons c cs ih =>
    by_cases hc : c = '.'
    · subst hc
      simp only [List.cons_append, splitDot_dot, ih]
    · obtain ⟨s, ss, h1, h2⟩ := splitDot_cons_ne c hc cs
      rw [h2, List.cons_append]
      have h3 : splitDot (cs ++ '.' :: b) = s :: (ss ++ splitDot b) := by rw [ih, h1]; rfl
      rw [splitDot_cons_of_ne hc h3]; rfl

/-- `strings.Join(segs, ".")` -/
def joinDot : List Seg → List Char
  | [] => []
  | [s] => s
  | s :: s' :: ss => s ++ '.' :: joinDot (s' :: ss)

theorem joinDot_cons_cons (c : Char) (s : Seg) (ss : List Seg) :
    joinDot ((c :: s) :: ss) = c :: joinDot (s :: ss) := by
  cases ss <;> simp [joinDot]

theorem joinDot_cons_ne_nil (s : Seg) (ss : List Seg) (h : ss ≠ []) :
    joinDot (s :: ss) = s ++ '.' :: joinDot ss := by
  cases ss with
  | nil => exact absurd rfl h
  | cons s' ss => simp [joinDot]

/-- `strings.Join(strings.Split(s, "."), ".") = s` -/
theorem joinDot_splitDot (s : List Char) : joinDot (splitDot s) = s := by
  induction s with
  | nil => simp [splitDot_nil, joinDot]
  | cons c cs ih =>
    by_cases hc : c = '.'
    · subst hc
      rw [splitDot_dot, joinDot_cons_ne_nil _ _ (splitDot_ne_nil cs), ih]; rfl
    · obtain ⟨s, ss, h1, h2⟩ := splitDot_cons_ne c hc cs
      rw [h2, joinDot_cons_cons, ← h1, ih]

theorem joinDot_append (a b : List Seg) (ha : a ≠ []) (hb : b ≠ []) :
    joinDot (a ++ b) = joinDot a ++ '.' :: joinDot b := by
  induction a with
  | nil => exact absurd rfl ha
  | cons s ss ih =>
    cases ss with
    | nil =>
      simp only [List.cons_append, List.nil_append]
      rw [joinDot_cons_ne_nil _ _ hb]; simp [joinDot]
    | cons s' ss' =>
      have := ih (by simp)
      simp only [List.cons_append] at this ⊢
      simp only [joinDot, this, List.append_assoc, List.cons_append]

/-- `splitDot` is injective (it has the left inverse `joinDot`). -/
theorem splitDot_injective {a b : List Char} (h : splitDot a = splitDot b) : a = b := by
  rw [← joinDot_splitDot a, ← joinDot_splitDot b, h]

/-! ### Character level -/

/-- The loop on the segment lists of two strings is the dotted-prefix test on the strings. -/
theorem hl_splitDot (h n : List Char) :
    hl (splitDot h) (splitDot n) = (h ++ ['.']).isPrefixOf n := by
  induction h generalizing n with
  | nil =>
    cases n with
    | nil => simp [splitDot_nil, hl]
    | cons c cs =>
      by_cases hc : c = '.'
      · subst hc
        rw [splitDot_nil, splitDot_dot]
        cases hs : splitDot cs with
        | nil => exact absurd hs (splitDot_ne_nil cs)
        | cons s ss => simp [hl]
      · obtain ⟨s, ss, _, h2⟩ := splitDot_cons_ne c hc cs
        have hc' : ¬ ('.' = c) := fun e => hc e.symm
        rw [splitDot_nil, h2]
        simp [hl, List.isPrefixOf, hc']
  | cons a as ih =>
    by_cases ha : a = '.'
    · subst ha
      rw [splitDot_dot]
      cases n with
      | nil => simp [splitDot_nil, hl]
      | cons c cs =>
        by_cases hc : c = '.'
        · subst hc
          rw [splitDot_dot]
          simp only [hl, bne_self_eq_false, Bool.false_eq_true, if_false, ih cs,
            List.cons_append, List.isPrefixOf, beq_self_eq_true, Bool.true_and]
        · obtain ⟨s, ss, _, h2⟩ := splitDot_cons_ne c hc cs
          have hc' : ¬ ('.' = c) := fun e => hc e.symm
          rw [h2]
          simp [hl, List.isPrefixOf, hc']
    · obtain ⟨s, ss, h1, h2⟩ := splitDot_cons_ne a ha as
      rw [h2]
      cases n with
      | nil => simp [splitDot_nil, hl]
      | cons c cs =>
        by_cases hc : c = '.'
        · subst hc
          rw [splitDot_dot]
          simp [hl, List.isPrefixOf, ha]
        · obtain ⟨s', ss', h1', h2'⟩ := splitDot_cons_ne c hc cs
          rw [h2']
          have ih' := ih cs
          rw [h1, h1'] at ih'
          simp only [hl] at ih'
          simp only [hl, List.cons_append, List.isPrefixOf, ← ih']
          by_cases hac : a = c
          · subst hac
            by_cases hss : s = s'
            · subst hss; simp
            · simp [hss]
          · simp [hac]

/-- `splitDot h` is a strict list-prefix of `splitDot n` exactly when `h ++ "."` is a prefix of `n`. -/
theorem splitDot_strict_prefix_iff (h n : List Char) :
    (∃ t, t ≠ [] ∧ splitDot n = splitDot h ++ t) ↔ (h ++ ['.']).isPrefixOf n = true := by
  rw [← hl_iff_strict_prefix, hl_splitDot]

/-- the same fact through `joinDot`, as a cross-check of `hl_splitDot`: if the segments of `h` are a
    strict prefix of the segments of `n`, then `n = h ++ "." ++ rest`. -/
theorem strict_prefix_decompose (h n : List Char) (t : List Seg) (ht : t ≠ [])
    (e : splitDot n = splitDot h ++ t) : n = h ++ '.' :: joinDot t := by
  have := joinDot_splitDot n
  rw [e, joinDot_append _ _ (splitDot_ne_nil h) ht, joinDot_splitDot] at this
  exact this.symm

theorem isPrefixOf_length_le {α} [BEq α] (a b : List α) (h : a.isPrefixOf b = true) :
    a.length ≤ b.length := by
  induction a generalizing b with
  | nil => simp
  | cons x xs ih =>
    cases b with
    | nil => simp [List.isPrefixOf] at h
    | cons y ys =>
      simp only [List.isPrefixOf, Bool.and_eq_true] at h
      have := ih ys h.2
      simp only [List.length_cons]; omega

/-- The model of one iteration of the outer loop of `HierarchicScopeStrategy` decides
    "equal or dotted parent". -/
theorem hierarchicOne_eq (h n : List Char) :
    Fosite.Model.hierarchicOne h n = (h == n || (h ++ ['.']).isPrefixOf n) := by
  unfold hierarchicOne
  by_cases heq : h = n
  · simp [heq]
  · have hne : (h == n) = false := by simp [heq]
    simp only [hne, Bool.false_eq_true, if_false, Bool.false_or]
    by_cases hlen : h.length > n.length
    · simp only [hlen, if_true]
      cases hp : (h ++ ['.']).isPrefixOf n with
      | false => rfl
      | true =>
        have := isPrefixOf_length_le _ _ hp
        simp only [List.length_append, List.length_cons, List.length_nil] at this
        omega
    · simp only [hlen, if_false]
      rw [hierLoop_eq_hl _ (splitDot_ne_nil h) 0 _ (Nat.zero_le _), List.drop_zero, hl_splitDot]

theorem hierarchic_model_eq_spec (haystack : List (List Char)) (needle : List Char) :
    Model.hierarchicScope haystack needle = Spec.hierarchic haystack needle := by
  unfold hierarchicScope Spec.hierarchic
  congr 1
  funext h
  exact hierarchicOne_eq h needle

end Fosite.Proofs

/-
  Capstone lemmas for C14: the monitor `Spec.IDToken.check` evaluated on the model's own exchange.

  * `obsOf_cap` / `observationOf` / `modelObservation`: the observation of an exchange as a value of
    `Spec.IDToken.Observation`, built field by field like the driver's `render` (`Driver/PureIDToken.lean`):
    same claim map (`toMap freshUUID`), same lookups, same ordering of `aud` (`sortStrings`), same comparison of
    a hash claim with the artefact of the exchange (`bindingOf` = `bindField` read through `decBinding`,
    lemma `decBinding_bindField`).  The driver goes through a text line (`render` then `decObservation`); the
    text round trip (`esc`/`unesc`, `splitOn`, `toString`/`toInt?`) is not reduced by the kernel and is NOT proved
    here — `#guard`s at the end of this file evaluate, for concrete op lines, that parsing the rendered line gives
    exactly `driverObservation`.
  * `caseOf`: the `Case` the driver's `toCase` builds (`toCase_eq_caseOf` for every decoded line).
  * `CapHyp`: the assumptions of the evidence file as explicit hypotheses.
  * `check_none`: sufficient conditions for the monitor to be silent; inversions of the steps; the three parts
    `silent_authz`, `silent_token`, `silent_refresh`.
-/
import Fosite.Proofs.IDToken
import Fosite.Driver.PureIDToken
namespace Fosite.Proofs.IDTokenCap
open Fosite.Model.IDToken Fosite.Spec.IDToken Fosite.Proofs.IDToken Fosite.Driver.IDToken

/-! ## the observation as a structured value -/

/-- `strField` read through `obsStr`: a string claim, `none` if absent or not a string -/
def strOf (m : ClaimMap) (k : String) : Option String :=
  match m.get k with
  | some (.str s) => some s
  | _ => none

/-- `relField` read through `String.toInt?`: a numeric claim relative to `now.Unix()` -/
def relOf (m : ClaimMap) (k : String) (nowUnix : Int) : Option Int :=
  match m.get k with
  | some (.num n) => some (n - nowUnix)
  | _ => none

/-- `listField` read through `decListU` -/
def listOf (m : ClaimMap) (k : String) : List String :=
  match m.get k with
  | some (.strs l) => sortStrings l
  | some (.str s) => [s]
  | _ => []

/-- `bindField` read through `decBinding`, for any hash / encoder -/
def bindingOf (C : Crypto) (m : ClaimMap) (k : String) (sigalg artefact : String) : Binding :=
  match m.get k with
  | none => .absent
  | some v =>
    if artefact == "" then .unbound
    else match algBits sigalg with
      | some bits => if v == .str (halfHash C bits artefact) then .matches else .mismatch
      | none => .mismatch

/-- the driver's comparison is `bindingOf` at the driver's stand-in hash -/
theorem decBinding_bindField (m : ClaimMap) (k sigalg artefact : String) :
    decBinding (bindField m k sigalg artefact) = bindingOf standIn m k sigalg artefact := by
  unfold bindField bindingOf
  cases m.get k with
  | none => exact (by decide : decBinding "absent" = .absent)
  | some v =>
    simp only
    by_cases ha : (artefact == "") = true
    · rw [if_pos ha, if_pos ha]; exact (by decide : decBinding "unbound" = .unbound)
    · rw [if_neg ha, if_neg ha]
      cases algBits sigalg with
      | none => exact (by decide : decBinding "mismatch" = .mismatch)
      | some bits =>
        simp only
        by_cases hv : (v == Val.str (halfHash standIn bits artefact)) = true
        · rw [if_pos hv, if_pos hv]; exact (by decide : decBinding "match" = .matches)
        · rw [if_neg hv, if_neg hv]; exact (by decide : decBinding "mismatch" = .mismatch)

/-- what `render` prints for an issued token, as an `Obs` (signature: the model does not sign; `render` prints
    `sigok=1 alg=<sigalg>`, the harness verifies with go-jose) -/
def obsOf_cap (C : Crypto) (sigalg : String) (c : Claims) (now : Int) (accessToken code : String) : Obs :=
  let m := toMap freshUUID c
  let nu := unix now
  { sigok := true, alg := sigalg
    sub := strOf m "sub", iss := strOf m "iss", aud := listOf m "aud", nonce := strOf m "nonce"
    expRel := relOf m "exp" nu, iatRel := relOf m "iat" nu
    atHash := bindingOf C m "at_hash" sigalg accessToken
    cHash := bindingOf C m "c_hash" sigalg code }

/-- `renderOutcome` as an `Observation` -/
def observationOf (C : Crypto) (sigalg : String) : Outcome → Observation
  | .err _ _ => .err
  | .noIDToken => .noIDToken
  | .idToken c now a k => .idToken (obsOf_cap C sigalg c now a k)

/-- the observation the model produces for an exchange -/
def modelObservation (e : Env) (x : Exchange) (sigalg : String) : Observation :=
  observationOf e.C sigalg (exchange e x)

/-- the same for a decoded op line: the exchange the driver runs (`pureModelIDToken`) -/
def driverObservation (d : Decoded) : Observation := modelObservation d.env d.x d.sigalg

/-- the `Case` of an exchange (`toCase` of the driver, `prompts` = the prompt parameter split at spaces) -/
def caseOf (e : Env) (x : Exchange) (sigalg : String) (prompts : List String) : Case := {
  rt := x.rt, last := x.last, openid := x.openid, sigalg := sigalg
  clientId := e.clientId, sub := x.claims.sub, sessIss := x.claims.iss, cfgIss := e.cfgIssuer
  nonce := x.form.nonce, refreshNonce := x.refreshNonce
  minEntropy := if e.minEntropyRaw = 0 then 8 else e.minEntropyRaw
  now1 := x.now1, dt1 := x.dt1, dt2 := x.dt2, presetExp := x.claims.exp
  authTime := x.claims.authTime, rat := x.claims.rat, cfgLifespan := e.cfgLifespan
  lifeCode := e.lifeCode, lifeImplicit := e.lifeImplicit, lifeRefresh := e.lifeRefresh
  maxAge := x.form.maxAge
  prompts := prompts
  hint := x.form.hint }

/-- the driver's way of splitting the prompt parameter -/
def driverPrompts (prompt : String) : List String := (prompt.splitOn " ").filter (fun p => p != "")

/-- a decoded line is internally consistent: the fields `toCase` reads from `Decoded` directly agree with the
    ones the model reads from `env` / `x` -/
def Decoded.coherent (d : Decoded) : Prop :=
  d.x.openid = d.granted.contains "openid" ∧ d.env.minEntropyRaw = d.minent

theorem toCase_eq_caseOf (d : Decoded) (h : Decoded.coherent d) :
    toCase d = caseOf d.env d.x d.sigalg (driverPrompts d.x.form.prompt) := by
  obtain ⟨h1, h2⟩ := h
  unfold toCase caseOf driverPrompts
  rw [h1, h2]

theorem decode_coherent {fs : List String} {d : Decoded} (h : decode fs = some d) : Decoded.coherent d := by
  unfold decode at h
  simp only [Option.bind_eq_bind, Option.pure_def, Option.bind_eq_some_iff] at h
  obtain ⟨rt, _, last, _, hd⟩ := h
  injection hd with hd
  subst hd
  exact ⟨rfl, rfl⟩

/-! ## sufficient conditions for silence -/

theorem check_none {k : Case} {o : Obs} {e i : Int}
    (h1 : k.openid = true) (h2 : k.sub ≠ "") (h3 : o.sigok = true) (h4 : o.alg = k.sigalg)
    (h5 : o.aud.contains k.clientId = true) (h6 : o.sub = some k.sub)
    (h7 : o.iss = (let i := if k.sessIss ≠ "" then k.sessIss else k.cfgIss; if i ≠ "" then some i else none))
    (h8 : k.last ≠ .refresh → k.nonce ≠ "" → o.nonce = some k.nonce ∧ ¬ (k.nonce.length : Int) < k.minEntropy)
    (h9 : k.last = .refresh → (o.nonce = none ∨ o.nonce = some k.nonce ∨
            (o.nonce = some k.refreshNonce ∧ (k.refreshNonce ≠ "" → ¬ (k.refreshNonce.length : Int) < k.minEntropy))))
    (he : o.expRel = some e) (hi : o.iatRel = some i)
    (h10 : 0 ≤ e)
    (h11 : (k.presetExp = zeroTime ∨ k.last = .refresh) →
             (e + unix k.nowLast) * 1000000000 ≤ k.lifetime.1 + k.lifetime.2)
    (h12 : i = 0)
    (h13 : k.deliversToken = true → o.atHash = .matches)
    (h13' : k.deliversToken = false → o.atHash = .absent)
    (h14 : k.deliversCode = true → o.cHash = .matches)
    (h15 : k.deliversCode = false → k.last = .token → k.rt ≠ .device → o.cHash = .absent ∨ o.cHash = .matches)
    (h16 : k.deliversCode = false → (k.last ≠ .token ∨ k.rt = .device) → o.cHash = .absent)
    (h17 : k.last ≠ .refresh → k.maxAgeViolated = false ∧ k.promptNoneViolated = false ∧
             k.promptLoginViolated = false ∧ k.hintViolated = false) :
    check k (.idToken o) = none := by
  have h7' : ¬ (o.iss ≠ (let i := if k.sessIss ≠ "" then k.sessIss else k.cfgIss; if i ≠ "" then some i else none)) := by
    intro hh; exact hh h7
  simp only [check]
  rw [if_neg (show ¬ (¬ k.openid = true) from fun hh => hh h1), if_neg h2,
    if_neg (show ¬ (¬ o.sigok = true) from fun hh => hh h3),
    if_neg (show ¬ (o.alg ≠ k.sigalg) from fun hh => hh h4),
    if_neg (show ¬ (¬ o.aud.contains k.clientId = true) from fun hh => hh h5),
    if_neg (show ¬ (o.sub ≠ some k.sub) from fun hh => hh h6), if_neg h7']
  rw [if_neg (show ¬ (k.last ≠ .refresh ∧ k.nonce ≠ "" ∧ o.nonce ≠ some k.nonce) from by
        intro ⟨a, b, c⟩; exact c (h8 a b).1),
    if_neg (show ¬ (k.last ≠ .refresh ∧ k.nonce ≠ "" ∧ (k.nonce.length : Int) < k.minEntropy) from by
        intro ⟨a, b, c⟩; exact (h8 a b).2 c)]
  rw [if_neg (show ¬ (k.last = .refresh ∧ o.nonce ≠ none ∧ o.nonce ≠ some k.nonce ∧ o.nonce ≠ some k.refreshNonce) from by
    intro ⟨a, b, c, d⟩
    rcases h9 a with h | h | h
    · exact b h
    · exact c h
    · exact d h.1)]
  rw [if_neg (show ¬ (k.last = .refresh ∧ k.refreshNonce ≠ "" ∧ o.nonce = some k.refreshNonce ∧ o.nonce ≠ some k.nonce
              ∧ (k.refreshNonce.length : Int) < k.minEntropy) from by
    intro ⟨a, b, c, d, f⟩
    rcases h9 a with h | h | h
    · rw [h] at c; cases c
    · exact d h
    · exact h.2 b f)]
  rw [he, hi]
  simp only
  rw [if_neg (show ¬ e < 0 by omega),
    if_neg (show ¬ ((k.presetExp = zeroTime ∨ k.last = .refresh) ∧
                (e + unix k.nowLast) * 1000000000 > k.lifetime.1 + k.lifetime.2) from by
      intro ⟨a, b⟩; have := h11 a; omega),
    if_neg (show ¬ i ≠ 0 from fun hh => hh h12)]
  cases hdt : k.deliversToken with
  | true =>
    rw [if_neg (show ¬ (true = true ∧ o.atHash ≠ .matches) from fun hh => hh.2 (h13 hdt)),
      if_neg (show ¬ (¬ true = true ∧ o.atHash ≠ .absent) from fun hh => hh.1 rfl)]
    cases hdc : k.deliversCode with
    | true =>
      rw [if_neg (show ¬ (true = true ∧ o.cHash ≠ .matches) from fun hh => hh.2 (h14 hdc)),
        if_neg (show ¬ (¬ true = true ∧ _) from fun hh => hh.1 rfl),
        if_neg (show ¬ (¬ true = true ∧ _) from fun hh => hh.1 rfl)]
      by_cases hl : k.last = .refresh
      · rw [if_neg (fun hh => hh.1 hl), if_neg (fun hh => hh.1 hl), if_neg (fun hh => hh.1 hl),
          if_neg (fun hh => hh.1 hl)]
      · obtain ⟨a, b, c, d⟩ := h17 hl
        rw [if_neg (by rw [a]; intro hh; cases hh.2), if_neg (by rw [b]; intro hh; cases hh.2),
          if_neg (by rw [c]; intro hh; cases hh.2), if_neg (by rw [d]; intro hh; cases hh.2)]
    | false =>
      rw [if_neg (show ¬ (false = true ∧ o.cHash ≠ .matches) from fun hh => by cases hh.1),
        if_neg (show ¬ (¬ false = true ∧ k.last = .token ∧ k.rt ≠ .device ∧ o.cHash ≠ .absent ∧ o.cHash ≠ .matches) from by
          intro ⟨_, a, b, c, d⟩
          rcases h15 hdc a b with h | h
          · exact c h
          · exact d h),
        if_neg (show ¬ (¬ false = true ∧ (k.last ≠ .token ∨ k.rt = .device) ∧ o.cHash ≠ .absent) from by
          intro ⟨_, a, b⟩; exact b (h16 hdc a))]
      by_cases hl : k.last = .refresh
      · rw [if_neg (fun hh => hh.1 hl), if_neg (fun hh => hh.1 hl), if_neg (fun hh => hh.1 hl),
          if_neg (fun hh => hh.1 hl)]
      · obtain ⟨a, b, c, d⟩ := h17 hl
        rw [if_neg (by rw [a]; intro hh; cases hh.2), if_neg (by rw [b]; intro hh; cases hh.2),
          if_neg (by rw [c]; intro hh; cases hh.2), if_neg (by rw [d]; intro hh; cases hh.2)]
  | false =>
    rw [if_neg (show ¬ (false = true ∧ o.atHash ≠ .matches) from fun hh => by cases hh.1),
      if_neg (show ¬ (¬ false = true ∧ o.atHash ≠ .absent) from fun hh => hh.2 (h13' hdt))]
    cases hdc : k.deliversCode with
    | true =>
      rw [if_neg (show ¬ (true = true ∧ o.cHash ≠ .matches) from fun hh => hh.2 (h14 hdc)),
        if_neg (show ¬ (¬ true = true ∧ _) from fun hh => hh.1 rfl),
        if_neg (show ¬ (¬ true = true ∧ _) from fun hh => hh.1 rfl)]
      by_cases hl : k.last = .refresh
      · rw [if_neg (fun hh => hh.1 hl), if_neg (fun hh => hh.1 hl), if_neg (fun hh => hh.1 hl),
          if_neg (fun hh => hh.1 hl)]
      · obtain ⟨a, b, c, d⟩ := h17 hl
        rw [if_neg (by rw [a]; intro hh; cases hh.2), if_neg (by rw [b]; intro hh; cases hh.2),
          if_neg (by rw [c]; intro hh; cases hh.2), if_neg (by rw [d]; intro hh; cases hh.2)]
    | false =>
      rw [if_neg (show ¬ (false = true ∧ o.cHash ≠ .matches) from fun hh => by cases hh.1),
        if_neg (show ¬ (¬ false = true ∧ k.last = .token ∧ k.rt ≠ .device ∧ o.cHash ≠ .absent ∧ o.cHash ≠ .matches) from by
          intro ⟨_, a, b, c, d⟩
          rcases h15 hdc a b with h | h
          · exact c h
          · exact d h),
        if_neg (show ¬ (¬ false = true ∧ (k.last ≠ .token ∨ k.rt = .device) ∧ o.cHash ≠ .absent) from by
          intro ⟨_, a, b⟩; exact b (h16 hdc a))]
      by_cases hl : k.last = .refresh
      · rw [if_neg (fun hh => hh.1 hl), if_neg (fun hh => hh.1 hl), if_neg (fun hh => hh.1 hl),
          if_neg (fun hh => hh.1 hl)]
      · obtain ⟨a, b, c, d⟩ := h17 hl
        rw [if_neg (by rw [a]; intro hh; cases hh.2), if_neg (by rw [b]; intro hh; cases hh.2),
          if_neg (by rw [c]; intro hh; cases hh.2), if_neg (by rw [d]; intro hh; cases hh.2)]

/-! ## the assumptions of the evidence file, as hypotheses -/

/-- Assumptions under which the monitor is claimed silent (evidence/C14.json, `assumptions`). -/
structure CapHyp (e : Env) (x : Exchange) (sigalg : String) (prompts : List String) : Prop where
  /-- the session's `alg` header chooses the hash the JWS algorithm of the signing key chooses -/
  header : algBits sigalg = some (hashBits e.alg)
  /-- library fact: the base64url text of half a digest is not empty -/
  digest : ∀ s, halfHash e.C (hashBits e.alg) s ≠ ""
  /-- the OAuth 2.0 core succeeds: the artefacts it mints are not empty -/
  code_ne : x.code ≠ ""
  at0_ne : x.at0 ≠ ""
  at1_ne : x.at1 ≠ ""
  at2_ne : x.at2 ≠ ""
  /-- the clock is after year 1 at every step -/
  clock1 : zeroTime < x.now1
  clock2 : zeroTime < x.now1 + x.dt1
  clock3 : zeroTime < x.now1 + x.dt1 + x.dt2
  /-- the application does not pre-set the claims the handlers own (the op line has no such fields) -/
  atHash0 : x.claims.atHash = ""
  cHash0 : x.claims.cHash = ""
  nonce0 : x.claims.nonce = ""
  /-- authorize endpoint: a prompt value the monitor sees is one `ValidatePrompt` sees (two ways of splitting) -/
  prompts_none : x.rt ≠ .device → prompts.contains "none" = true → (promptList x.form.prompt).contains "none" = true
  prompts_login : x.rt ≠ .device → prompts.contains "login" = true → (promptList x.form.prompt).contains "login" = true
  /-- device flow: the application-supplied form has no `grant_type=refresh_token` and a single-valued prompt -/
  device_gt : x.rt = .device → x.form.grantType ≠ "refresh_token"
  device_none : x.rt = .device → prompts.contains "none" = true → x.form.prompt = "none"
  device_login : x.rt = .device → prompts.contains "login" = true → x.form.prompt = "login"

/-! ## small lemmas -/

theorem strOf_optStr {m : ClaimMap} {k s : String} (h : m.get k = optStr s) :
    strOf m k = if s ≠ "" then some s else none := by
  unfold strOf
  rw [h]
  unfold optStr
  by_cases hs : s ≠ ""
  · rw [if_pos hs, if_pos hs]
  · rw [if_neg hs, if_neg hs]

theorem relOf_optTime {m : ClaimMap} {k : String} {t nu : Int} (h : m.get k = optTime t) (hz : t ≠ zeroTime) :
    relOf m k nu = some (unix t - nu) := by
  unfold relOf
  rw [h]
  unfold optTime
  rw [if_pos hz]

theorem bindingOf_matches {C : Crypto} {m : ClaimMap} {k sigalg art : String} {bits : Nat}
    (hget : m.get k = optStr (halfHash C bits art)) (hne : halfHash C bits art ≠ "") (hart : art ≠ "")
    (halg : algBits sigalg = some bits) : bindingOf C m k sigalg art = .matches := by
  unfold bindingOf
  rw [hget]
  unfold optStr
  rw [if_pos hne]
  simp only
  rw [if_neg (by simpa using hart), halg]
  simp

theorem bindingOf_absent {C : Crypto} {m : ClaimMap} {k sigalg art : String}
    (hget : m.get k = none) : bindingOf C m k sigalg art = .absent := by
  unfold bindingOf
  rw [hget]

theorem optStr_empty : optStr "" = none := by
  unfold optStr
  rw [if_neg (fun h => h rfl)]

theorem mem_insertSorted (x y : String) (l : List String) : y ∈ insertSorted x l ↔ y = x ∨ y ∈ l := by
  induction l with
  | nil => simp [insertSorted]
  | cons z zs ih =>
    unfold insertSorted
    by_cases h : x < z
    · rw [if_pos h]; simp
    · rw [if_neg h]
      simp only [List.mem_cons, ih]
      constructor
      · rintro (h1 | h1 | h1)
        · exact Or.inr (Or.inl h1)
        · exact Or.inl h1
        · exact Or.inr (Or.inr h1)
      · rintro (h1 | h1 | h1)
        · exact Or.inr (Or.inl h1)
        · exact Or.inl h1
        · exact Or.inr (Or.inr h1)

theorem mem_sortStrings (y : String) (l : List String) : y ∈ sortStrings l ↔ y ∈ l := by
  induction l with
  | nil => simp [sortStrings]
  | cons z zs ih =>
    have : sortStrings (z :: zs) = insertSorted z (sortStrings zs) := rfl
    rw [this, mem_insertSorted, ih]
    simp

theorem computeHash_half (C : Crypto) (alg : AlgHeader) (tok : String) :
    computeHash C alg tok = halfHash C (hashBits alg) tok := rfl

/-! ## what a successful `generateIDToken` leaves behind -/

structure GenFacts (cfg : Cfg) (now L : Int) (cid : String) (f : Form) (c0 c' : Claims) : Prop where
  sub_ne : c0.sub ≠ ""
  sub : c'.sub = c0.sub
  iss : c'.iss = if c0.iss = "" then cfg.issuer else c0.iss
  nonce : c'.nonce = if f.nonce.length = 0 then c0.nonce else f.nonce
  entropy : f.nonce.length ≠ 0 → ¬ (f.nonce.length : Int) < cfg.minEntropy
  exp : c'.exp = if c0.exp = zeroTime then now + (if L = 0 then defaultExpiryTime else L) else c0.exp
  exp_ge : now ≤ c'.exp
  iat : c'.iat = now
  atHash : c'.atHash = c0.atHash
  cHash : c'.cHash = c0.cHash
  aud : c'.aud = unique (c0.aud ++ [cid])
  req : f.grantType ≠ "refresh_token" → requestChecks now f c0 = .ok (acrDefault f c0)

theorem genFacts {cfg : Cfg} {now L : Int} {cid : String} {f : Form} {c0 c' : Claims}
    (h : generateIDToken cfg now L cid f c0 = .ok c') : GenFacts cfg now L cid f c0 c' := by
  obtain ⟨hs, hreq, hexp, hn, rfl⟩ := generate_ok h
  rw [expDefault_exp] at hexp
  exact {
    sub_ne := hs
    sub := minted_sub _ _ _ _ _ _
    iss := minted_iss _ _ _ _ _ _
    nonce := minted_nonce _ _ _ _ _ _
    entropy := hn
    exp := minted_exp _ _ _ _ _ _
    exp_ge := by rw [minted_exp]; exact Int.not_lt.mp hexp
    iat := minted_iat _ _ _ _ _ _
    atHash := minted_atHash _ _ _ _ _ _
    cHash := minted_cHash _ _ _ _ _ _
    aud := minted_aud _ _ _ _ _ _
    req := hreq }

/-! ## the session's claims along the exchange -/

/-- the issuer an ID token of the exchange carries -/
def issOf (e : Env) (x : Exchange) : String := if x.claims.iss = "" then e.cfgIssuer else x.claims.iss

/-- fields of the claims object a step works on that equal the application's -/
structure Base (c0 c : Claims) : Prop where
  sub : c0.sub = c.sub
  iss : c0.iss = c.iss
  nonce : c0.nonce = c.nonce
  exp : c0.exp = c.exp
  authTime : c0.authTime = c.authTime
  rat : c0.rat = c.rat

/-- what every step preserves -/
structure Carried (e : Env) (x : Exchange) (c : Claims) : Prop where
  sub : c.sub = x.claims.sub
  iss : c.iss = x.claims.iss ∨ c.iss = issOf e x
  nonce : c.nonce = x.claims.nonce ∨ c.nonce = x.form.nonce

theorem iss_default {e : Env} {x : Exchange} {i : String} (h : i = x.claims.iss ∨ i = issOf e x) :
    (if i = "" then e.cfg.issuer else i) = issOf e x := by
  have hc : e.cfg.issuer = e.cfgIssuer := rfl
  rw [hc]
  rcases h with h | h
  · rw [h]; rfl
  · rw [h]
    unfold issOf
    by_cases h1 : x.claims.iss = ""
    · rw [if_pos h1]
      by_cases h2 : e.cfgIssuer = ""
      · rw [if_pos h2, h2]
      · rw [if_neg h2]
    · rw [if_neg h1, if_neg h1]

theorem Base.carried {e : Env} {x : Exchange} {c0 : Claims} (h : Base c0 x.claims) : Carried e x c0 :=
  ⟨h.sub, Or.inl h.iss, Or.inl h.nonce⟩

/-- a token generated from the exchange's form keeps the invariant -/
theorem Carried.gen {e : Env} {x : Exchange} {c0 c' : Claims} {now L : Int}
    (hc : Carried e x c0) (hg : GenFacts e.cfg now L e.clientId x.form c0 c') : Carried e x c' := by
  refine ⟨by rw [hg.sub, hc.sub], Or.inr (by rw [hg.iss]; exact iss_default hc.iss), ?_⟩
  rw [hg.nonce]
  by_cases h0 : x.form.nonce.length = 0
  · rw [if_pos h0]; exact hc.nonce
  · rw [if_neg h0]; exact Or.inr rfl

/-! ## inversion of the steps -/

theorem explicitAuthorize_inv {e : Env} {now : Int} {openid : Bool} {f : Form} {c : Claims} {s : StepOut}
    (h : explicitAuthorize e now openid f c = .ok s) :
    s.claims = c ∧ s.issued = none ∧
    (s.stored = true → openid = true ∧ validatePrompt e.clientPublic e.redirectSecure now f c = .ok ()) := by
  unfold explicitAuthorize at h
  by_cases hop : ¬ openid
  · rw [if_pos hop] at h; injection h with h; subst h
    exact ⟨rfl, rfl, fun hst => by cases hst⟩
  · rw [if_neg hop] at h
    split at h
    · cases h
    · next hv =>
      injection h with h; subst h
      exact ⟨rfl, rfl, fun _ => ⟨by simpa using hop, hv⟩⟩

theorem implicitAuthorize_inv {e : Env} {now : Int} {openid wt : Bool} {f : Form} {c : Claims} {a : String}
    {s : StepOut} (h : implicitAuthorize e now openid wt f c a = .ok s) :
    openid = true ∧ validatePrompt e.clientPublic e.redirectSecure now f c = .ok () ∧ s.stored = false ∧
    generateIDToken e.cfg now (e.lifespan e.lifeImplicit) e.clientId f
      (if wt then { c with atHash := computeHash e.C e.alg a } else c) = .ok s.claims ∧
    s.issued = some s.claims := by
  unfold implicitAuthorize at h
  by_cases hop : ¬ openid
  · rw [if_pos hop] at h; cases h
  · rw [if_neg hop] at h
    by_cases h0 : f.nonce.length = 0
    · rw [if_pos h0] at h; cases h
    · rw [if_neg h0] at h
      by_cases h1 : (f.nonce.length : Int) < e.cfg.minEntropy
      · rw [if_pos h1] at h; cases h
      · rw [if_neg h1] at h
        split at h
        · cases h
        · next hv =>
          simp only at h
          split at h
          · cases h
          · next c2 hg =>
            injection h with h; subst h
            exact ⟨by simpa using hop, hv, rfl, hg, rfl⟩

theorem hybridAuthorize_inv {e : Env} {now : Int} {openid wi wt : Bool} {f : Form} {c : Claims}
    {code a : String} {s : StepOut} (h : hybridAuthorize e now openid wi wt f c code a = .ok s) :
    validatePrompt e.clientPublic e.redirectSecure now f c = .ok () ∧ s.stored = openid ∧
    ∃ c2, Base c2 c ∧ c2.cHash = computeHash e.C e.alg code ∧
      c2.atHash = (if wt then computeHash e.C e.alg a else c.atHash) ∧
      ((¬ (openid = true ∧ wi = true) ∧ s.issued = none ∧ s.claims = c2) ∨
       (openid = true ∧ wi = true ∧
        generateIDToken e.cfg now (e.lifespan e.lifeImplicit) e.clientId f c2 = .ok s.claims ∧
        s.issued = some s.claims)) := by
  unfold hybridAuthorize at h
  by_cases h0 : f.nonce.length = 0 ∧ wi
  · rw [if_pos h0] at h; cases h
  · rw [if_neg h0] at h
    by_cases h1 : f.nonce.length > 0 ∧ (f.nonce.length : Int) < e.cfg.minEntropy
    · rw [if_pos h1] at h; cases h
    · rw [if_neg h1] at h
      split at h
      · cases h
      · next hv =>
        simp only at h
        refine ⟨hv, ?_⟩
        by_cases hcond : ¬ openid ∨ ¬ wi
        · rw [if_pos hcond] at h; injection h with h; subst h
          refine ⟨rfl, _, ?_, ?_, ?_, Or.inl ⟨?_, rfl, rfl⟩⟩
          · cases wt <;> exact ⟨rfl, rfl, rfl, rfl, rfl, rfl⟩
          · cases wt <;> rfl
          · cases wt <;> rfl
          · intro ⟨ho, hw⟩
            rcases hcond with hc | hc
            · exact hc ho
            · exact hc hw
        · rw [if_neg hcond] at h
          split at h
          · cases h
          · next c3 hg =>
            injection h with h; subst h
            have hcond' : openid = true ∧ wi = true := by
              cases openid <;> cases wi <;> simp_all
            refine ⟨rfl, _, ?_, ?_, ?_, Or.inr ⟨hcond'.1, hcond'.2, hg, rfl⟩⟩
            · cases wt <;> exact ⟨rfl, rfl, rfl, rfl, rfl, rfl⟩
            · cases wt <;> rfl
            · cases wt <;> rfl

/-- the response type is one of the hybrid ones (the hybrid handler sets `c_hash` on the session) -/
def isHybrid_cap (rt : RT) : Prop := rt = .ci ∨ rt = .cit ∨ rt = .ct

instance (rt : RT) : Decidable (isHybrid_cap rt) := by unfold isHybrid_cap; infer_instance

/-- The first step: the claims object `c0` the handler works on, and either no ID token (the session keeps
    `c0`) or the token generated from `c0`. -/
theorem firstStep_inv {e : Env} {x : Exchange} {s1 : StepOut} (h : firstStep e x = .ok s1) :
    ∃ c0, Base c0 x.claims ∧
      c0.atHash = (if x.rt.hasToken then computeHash e.C e.alg x.at0 else x.claims.atHash) ∧
      c0.cHash = (if isHybrid_cap x.rt then computeHash e.C e.alg x.code else x.claims.cHash) ∧
      (x.rt ≠ .device → s1.stored = true ∨ s1.issued ≠ none →
        validatePrompt e.clientPublic e.redirectSecure x.now1 x.form x.claims = .ok ()) ∧
      (s1.stored = true → x.openid = true ∧ x.rt ≠ .it ∧ x.rt ≠ .itt) ∧
      (x.rt = .device → s1.claims = x.claims) ∧
      ((s1.issued = none ∧ s1.claims = c0 ∧ ¬ ((x.rt = .ci ∨ x.rt = .cit) ∧ x.openid = true)) ∨
       (x.openid = true ∧ x.rt.hasIDToken = true ∧
        generateIDToken e.cfg x.now1 (e.lifespan e.lifeImplicit) e.clientId x.form c0 = .ok s1.claims ∧
        s1.issued = some s1.claims)) := by
  unfold firstStep at h
  cases hrt : x.rt with
  | code =>
    rw [hrt] at h
    simp only at h
    split at h
    · cases h
    · obtain ⟨hc, hi, hst⟩ := explicitAuthorize_inv h
      refine ⟨x.claims, ⟨rfl, rfl, rfl, rfl, rfl, rfl⟩, rfl, rfl, ?_, ?_, ?_, Or.inl ⟨hi, hc, ?_⟩⟩
      · intro _ hh
        rcases hh with hh | hh
        · exact (hst hh).2
        · exact absurd hi hh
      · intro hh; exact ⟨(hst hh).1, by decide, by decide⟩
      · intro hh; cases hh
      · intro hh; rcases hh.1 with h1 | h1 <;> cases h1
  | it =>
    rw [hrt] at h
    simp only at h
    obtain ⟨hop, hv, hst, hg, hi⟩ := implicitAuthorize_inv h
    refine ⟨x.claims, ⟨rfl, rfl, rfl, rfl, rfl, rfl⟩, rfl, rfl, fun _ _ => hv, ?_, ?_, Or.inr ⟨hop, rfl, hg, hi⟩⟩
    · intro hh; rw [hst] at hh; cases hh
    · intro hh; cases hh
  | itt =>
    rw [hrt] at h
    simp only at h
    obtain ⟨hop, hv, hst, hg, hi⟩ := implicitAuthorize_inv h
    refine ⟨{ x.claims with atHash := computeHash e.C e.alg x.at0 }, ⟨rfl, rfl, rfl, rfl, rfl, rfl⟩, rfl, rfl,
      fun _ _ => hv, ?_, ?_, Or.inr ⟨hop, rfl, hg, hi⟩⟩
    · intro hh; rw [hst] at hh; cases hh
    · intro hh; cases hh
  | ci =>
    rw [hrt] at h
    simp only at h
    obtain ⟨hv, hst, c2, hb, hch, hah, hcase⟩ := hybridAuthorize_inv h
    refine ⟨c2, hb, hah, hch, fun _ _ => hv, ?_, ?_, ?_⟩
    · intro hh; rw [hst] at hh; exact ⟨hh, by decide, by decide⟩
    · intro hh; cases hh
    · rcases hcase with ⟨hn, hi, hc⟩ | ⟨hop, _, hg, hi⟩
      · exact Or.inl ⟨hi, hc, fun hh => hn ⟨hh.2, rfl⟩⟩
      · exact Or.inr ⟨hop, rfl, hg, hi⟩
  | cit =>
    rw [hrt] at h
    simp only at h
    obtain ⟨hv, hst, c2, hb, hch, hah, hcase⟩ := hybridAuthorize_inv h
    refine ⟨c2, hb, hah, hch, fun _ _ => hv, ?_, ?_, ?_⟩
    · intro hh; rw [hst] at hh; exact ⟨hh, by decide, by decide⟩
    · intro hh; cases hh
    · rcases hcase with ⟨hn, hi, hc⟩ | ⟨hop, _, hg, hi⟩
      · exact Or.inl ⟨hi, hc, fun hh => hn ⟨hh.2, rfl⟩⟩
      · exact Or.inr ⟨hop, rfl, hg, hi⟩
  | ct =>
    rw [hrt] at h
    simp only at h
    obtain ⟨hv, hst, c2, hb, hch, hah, hcase⟩ := hybridAuthorize_inv h
    refine ⟨c2, hb, hah, hch, fun _ _ => hv, ?_, ?_, ?_⟩
    · intro hh; rw [hst] at hh; exact ⟨hh, by decide, by decide⟩
    · intro hh; cases hh
    · rcases hcase with ⟨_, hi, hc⟩ | ⟨_, hw, _, _⟩
      · exact Or.inl ⟨hi, hc, fun hh => by rcases hh.1 with h1 | h1 <;> cases h1⟩
      · cases hw
  | device =>
    rw [hrt] at h
    simp only at h
    injection h with h; subst h
    refine ⟨x.claims, ⟨rfl, rfl, rfl, rfl, rfl, rfl⟩, rfl, rfl, fun hh => absurd rfl hh, ?_, fun _ => rfl,
      Or.inl ⟨rfl, rfl, fun hh => by rcases hh.1 with h1 | h1 <;> cases h1⟩⟩
    intro hh; exact ⟨hh, by decide, by decide⟩

/-- after the first step the session's claims satisfy the invariant -/
theorem firstStep_carried {e : Env} {x : Exchange} {s1 : StepOut} (h : firstStep e x = .ok s1) :
    Carried e x s1.claims := by
  obtain ⟨c0, hb, _, _, _, _, _, hcase⟩ := firstStep_inv h
  rcases hcase with ⟨_, hc, _⟩ | ⟨_, _, hg, _⟩
  · rw [hc]; exact hb.carried
  · exact hb.carried.gen (genFacts hg)

/-- the token step: no stored session, no ID token; otherwise the token generated from the session's claims
    with the new `at_hash` -/
theorem secondStep_inv {e : Env} {x : Exchange} {s1 s2 : StepOut} (h : secondStep e x s1 = .ok s2) :
    (s1.stored = false ∧ s2.issued = none ∧ s2.claims = s1.claims) ∨
    (s1.stored = true ∧
      generateIDToken e.cfg (x.now1 + x.dt1) (e.lifespan (if x.rt = .device then none else e.lifeCode)) e.clientId
        x.form { s1.claims with atHash := computeHash e.C e.alg x.at1 } = .ok s2.claims ∧
      s2.issued = some s2.claims) := by
  have key : ∀ (ov : Option Int) (r : Except RFCErr StepOut),
      r = (if ¬ s1.stored then .ok { claims := s1.claims }
           else if s1.claims.sub = "" then .error .serverError
           else match generateIDToken e.cfg (x.now1 + x.dt1) (e.lifespan ov) e.clientId x.form
                  { s1.claims with atHash := computeHash e.C e.alg x.at1 } with
             | .error err => .error err
             | .ok c2 => .ok { claims := c2, issued := some c2 }) →
      r = .ok s2 →
      (s1.stored = false ∧ s2.issued = none ∧ s2.claims = s1.claims) ∨
      (s1.stored = true ∧
        generateIDToken e.cfg (x.now1 + x.dt1) (e.lifespan ov) e.clientId
          x.form { s1.claims with atHash := computeHash e.C e.alg x.at1 } = .ok s2.claims ∧
        s2.issued = some s2.claims) := by
    intro ov r hr h
    rw [hr] at h
    by_cases hst : ¬ s1.stored
    · rw [if_pos hst] at h; injection h with h; subst h
      exact Or.inl ⟨by simpa using hst, rfl, rfl⟩
    · rw [if_neg hst] at h
      by_cases hsub : s1.claims.sub = ""
      · rw [if_pos hsub] at h; cases h
      · rw [if_neg hsub] at h
        split at h
        · cases h
        · next c2 hg =>
          injection h with h; subst h
          exact Or.inr ⟨by simpa using hst, hg, rfl⟩
  unfold secondStep at h
  by_cases hd : x.rt = .device
  · rw [if_pos hd]
    rw [hd] at h
    exact key none _ rfl h
  · rw [if_neg hd]
    have h' : explicitToken e (x.now1 + x.dt1) s1.stored x.form s1.claims x.at1 = .ok s2 := by
      cases hrt : x.rt <;> rw [hrt] at h hd <;> first | exact h | exact absurd rfl hd
    exact key e.lifeCode _ rfl h'

theorem secondStep_carried {e : Env} {x : Exchange} {s1 s2 : StepOut} (hc : Carried e x s1.claims)
    (h : secondStep e x s1 = .ok s2) : Carried e x s2.claims := by
  rcases secondStep_inv h with ⟨_, _, h2⟩ | ⟨_, hg, _⟩
  · rw [h2]; exact hc
  · exact Carried.gen (c0 := { s1.claims with atHash := computeHash e.C e.alg x.at1 })
      ⟨hc.sub, hc.iss, hc.nonce⟩ (genFacts hg)

/-! ## requests the session does not satisfy -/

/-- what the authorize endpoint (`ValidatePrompt`) or, in the device flow, `GenerateIDToken` has checked -/
structure ReqOK (x : Exchange) (prompts : List String) : Prop where
  maxAge : ¬ (maxAgeOf x.form > 0 ∧ x.claims.authTime + wrap64 (second * maxAgeOf x.form) < x.claims.rat)
  pnone : prompts.contains "none" = true → ¬ (¬ x.claims.authTime = x.claims.rat ∧ x.claims.authTime > x.claims.rat)
  plogin : prompts.contains "login" = true → ¬ (¬ x.claims.authTime = x.claims.rat ∧ x.claims.authTime < x.claims.rat)
  hint : x.form.hint = .absent ∨ x.form.hint = .decoded x.claims.sub

theorem ReqOK.clauses {e : Env} {x : Exchange} {sigalg : String} {prompts : List String} (h : ReqOK x prompts) :
    (caseOf e x sigalg prompts).maxAgeViolated = false ∧ (caseOf e x sigalg prompts).promptNoneViolated = false ∧
    (caseOf e x sigalg prompts).promptLoginViolated = false ∧ (caseOf e x sigalg prompts).hintViolated = false := by
  refine ⟨?_, ?_, ?_, ?_⟩
  · show (match x.form.maxAge with
      | some n => decide (n > 0 ∧ x.claims.authTime ≠ zeroTime ∧ x.claims.rat ≠ zeroTime ∧
                    x.claims.authTime + n * 1000000000 < x.claims.rat)
      | none => false) = false
    cases hm : x.form.maxAge with
    | none => rfl
    | some n =>
      simp only [decide_eq_false_iff_not]
      intro ⟨hpos, _, _, hlt⟩
      have hmo : maxAgeOf x.form = n := by unfold maxAgeOf; rw [hm]
      have h1 := h.maxAge
      rw [hmo] at h1
      have hw := wrap64_le (x := second * n) (by unfold second; omega)
      apply h1
      refine ⟨hpos, ?_⟩
      unfold second at hw ⊢
      omega
  · show (prompts.contains "none" && decide (x.claims.authTime ≠ zeroTime ∧ x.claims.rat ≠ zeroTime ∧
        x.claims.authTime > x.claims.rat)) = false
    cases hc : prompts.contains "none" with
    | false => rfl
    | true =>
      simp only [Bool.true_and, decide_eq_false_iff_not]
      intro ⟨_, _, hgt⟩
      exact h.pnone hc ⟨by omega, hgt⟩
  · show (prompts.contains "login" && decide (x.claims.authTime ≠ zeroTime ∧ x.claims.rat ≠ zeroTime ∧
        x.claims.authTime < x.claims.rat)) = false
    cases hc : prompts.contains "login" with
    | false => rfl
    | true =>
      simp only [Bool.true_and, decide_eq_false_iff_not]
      intro ⟨_, _, hlt⟩
      exact h.plogin hc ⟨by omega, hlt⟩
  · show (match x.form.hint with
      | .absent => false
      | .error => true
      | .decoded s => decide (s ≠ x.claims.sub)) = false
    rcases h.hint with hh | hh <;> rw [hh]
    simp

theorem reqOK_of_validatePrompt {e : Env} {x : Exchange} {sigalg : String} {prompts : List String}
    (hyp : CapHyp e x sigalg prompts) (hrt : x.rt ≠ .device)
    (hv : validatePrompt e.clientPublic e.redirectSecure x.now1 x.form x.claims = .ok ()) : ReqOK x prompts := by
  obtain ⟨_, hma, hpn, hpl, hh⟩ := validatePrompt_ok hv
  exact {
    maxAge := hma
    pnone := fun hc hh => hpn ⟨hyp.prompts_none hrt hc, hh⟩
    plogin := fun hc hh => hpl ⟨hyp.prompts_login hrt hc, hh.2⟩
    hint := hh }

theorem maxAgeCheck_none {n : Int} {c : Claims} (h : maxAgeCheck n c = none) :
    ¬ (n > 0 ∧ c.authTime + wrap64 (second * n) < c.rat) := by
  intro ⟨hpos, hlt⟩
  unfold maxAgeCheck at h
  rw [if_pos hpos] at h
  by_cases h1 : c.authTime = zeroTime
  · rw [if_pos h1] at h; cases h
  · rw [if_neg h1] at h
    by_cases h2 : c.rat = zeroTime
    · rw [if_pos h2] at h; cases h
    · rw [if_neg h2, if_pos hlt] at h; cases h

/-- device flow: the request block of `GenerateIDToken` ran on the application's claims -/
theorem reqOK_of_requestChecks {e : Env} {x : Exchange} {sigalg : String} {prompts : List String}
    (hyp : CapHyp e x sigalg prompts) (hrt : x.rt = .device) {now : Int} {c0 c1 : Claims}
    (hsub : c0.sub = x.claims.sub) (hat : c0.authTime = x.claims.authTime) (hrat : c0.rat = x.claims.rat)
    (hrc : requestChecks now x.form c0 = .ok c1) : ReqOK x prompts := by
  obtain ⟨_, _, hma, _, hps, hhc⟩ := requestChecks_ok hrc
  refine ⟨?_, ?_, ?_, ?_⟩
  · have := maxAgeCheck_none hma
    rw [hat, hrat] at this
    exact this
  · intro hc hh
    have hp := hyp.device_none hrt hc
    unfold promptSwitch at hps
    rw [if_pos hp, hat, hrat, if_pos hh] at hps
    cases hps
  · intro hc hh
    have hp := hyp.device_login hrt hc
    unfold promptSwitch at hps
    have hnn : ¬ x.form.prompt = "none" := by rw [hp]; decide
    rw [if_neg hnn, if_pos hp, hat, hrat, if_pos hh] at hps
    cases hps
  · have hs : (acrDefault x.form c0).sub = x.claims.sub := by
      rw [← hsub]; unfold acrDefault; split <;> rfl
    unfold hintCheck at hhc
    cases hh : x.form.hint with
    | absent => exact Or.inl rfl
    | error => rw [hh] at hhc; cases hhc
    | decoded s =>
      rw [hh] at hhc
      simp only at hhc
      by_cases h1 : s = ""
      · rw [if_pos h1] at hhc; cases hhc
      · rw [if_neg h1] at hhc
        by_cases h2 : s ≠ (acrDefault x.form c0).sub
        · rw [if_pos h2] at hhc; cases hhc
        · right
          have : s = (acrDefault x.form c0).sub := Decidable.of_not_not h2
          rw [this, hs]

/-! ## clauses that hold for every generated token -/

theorem common_facts {e : Env} {x : Exchange} {sigalg : String} {prompts : List String} {t L : Int} {f : Form}
    {c0 c' : Claims} {a kk : String}
    (hg : GenFacts e.cfg t L e.clientId f c0 c') (hzt : zeroTime < t)
    (hsub : c0.sub = x.claims.sub) (hiss : c0.iss = x.claims.iss ∨ c0.iss = issOf e x) :
    (caseOf e x sigalg prompts).sub ≠ "" ∧ (obsOf_cap e.C sigalg c' t a kk).sigok = true ∧
    (obsOf_cap e.C sigalg c' t a kk).alg = (caseOf e x sigalg prompts).sigalg ∧
    (obsOf_cap e.C sigalg c' t a kk).aud.contains (caseOf e x sigalg prompts).clientId = true ∧
    (obsOf_cap e.C sigalg c' t a kk).sub = some (caseOf e x sigalg prompts).sub ∧
    (obsOf_cap e.C sigalg c' t a kk).iss =
      (let i := if (caseOf e x sigalg prompts).sessIss ≠ "" then (caseOf e x sigalg prompts).sessIss
                else (caseOf e x sigalg prompts).cfgIss
       if i ≠ "" then some i else none) ∧
    (obsOf_cap e.C sigalg c' t a kk).expRel = some (unix c'.exp - unix t) ∧
    (obsOf_cap e.C sigalg c' t a kk).iatRel = some 0 ∧ 0 ≤ unix c'.exp - unix t ∧
    (obsOf_cap e.C sigalg c' t a kk).nonce = (if c'.nonce ≠ "" then some c'.nonce else none) := by
  have hsne : x.claims.sub ≠ "" := by rw [← hsub]; exact hg.sub_ne
  have hexpz : c'.exp ≠ zeroTime := by have := hg.exp_ge; omega
  refine ⟨hsne, rfl, rfl, ?_, ?_, ?_, ?_, ?_, ?_, ?_⟩
  · show (listOf (toMap freshUUID c') "aud").contains e.clientId = true
    unfold listOf
    rw [toMap_aud]
    simp only [List.contains_iff_mem, mem_sortStrings]
    rw [hg.aud]
    exact mem_unique _ _ (List.mem_append_right _ List.mem_cons_self)
  · show strOf (toMap freshUUID c') "sub" = some x.claims.sub
    rw [strOf_optStr (toMap_sub _ _), hg.sub, hsub, if_pos hsne]
  · show strOf (toMap freshUUID c') "iss" =
      (let i := if x.claims.iss ≠ "" then x.claims.iss else e.cfgIssuer; if i ≠ "" then some i else none)
    have hio : issOf e x = (if x.claims.iss ≠ "" then x.claims.iss else e.cfgIssuer) := by
      unfold issOf
      by_cases h1 : x.claims.iss = ""
      · rw [if_pos h1, if_neg (fun hh => hh h1)]
      · rw [if_neg h1, if_pos h1]
    rw [strOf_optStr (toMap_iss _ _), hg.iss, iss_default hiss, hio]
  · show relOf (toMap freshUUID c') "exp" (unix t) = _
    exact relOf_optTime (toMap_exp _ _) hexpz
  · show relOf (toMap freshUUID c') "iat" (unix t) = _
    have hiz : c'.iat ≠ zeroTime := by rw [hg.iat]; omega
    rw [relOf_optTime (toMap_iat _ _) hiz, hg.iat, Int.sub_self]
  · have := unix_mono hg.exp_ge
    omega
  · show strOf (toMap freshUUID c') "nonce" = _
    exact strOf_optStr (toMap_nonce _ _)

theorem nonce_echo {cfg : Cfg} {t L : Int} {cid : String} {f : Form} {c0 c' : Claims}
    (G : GenFacts cfg t L cid f c0 c') (hne : f.nonce ≠ "") :
    (if c'.nonce ≠ "" then some c'.nonce else none) = some f.nonce ∧ ¬ (f.nonce.length : Int) < cfg.minEntropy := by
  have hlen : f.nonce.length ≠ 0 := fun h0 => hne (String.length_eq_zero_iff.mp h0)
  have hn : c'.nonce = f.nonce := by rw [G.nonce, if_neg hlen]
  rw [hn, if_pos hne]
  exact ⟨rfl, G.entropy hlen⟩

theorem lifetime_ok {cexp t frm conf : Int} (h : cexp = frm + conf) :
    (unix cexp - unix t + unix t) * 1000000000 ≤ frm + conf := by
  have := unix_mul_le cexp
  rw [← h]
  omega

theorem configured_eq (e : Env) (x : Exchange) (sigalg : String) (prompts : List String) (ov : Option Int) :
    (caseOf e x sigalg prompts).configured ov =
      if e.lifespan ov = 0 then defaultExpiryTime else e.lifespan ov := by
  unfold Case.configured Env.lifespan getEffectiveLifespan getIDTokenLifespan effectiveLifetime defaultExpiryTime
  cases ov <;> rfl

theorem atHash_matches {e : Env} {x : Exchange} {sigalg : String} {prompts : List String}
    (hyp : CapHyp e x sigalg prompts) {c' : Claims} {art : String}
    (h : c'.atHash = computeHash e.C e.alg art) (hart : art ≠ "") :
    bindingOf e.C (toMap freshUUID c') "at_hash" sigalg art = .matches := by
  apply bindingOf_matches (bits := hashBits e.alg) _ (hyp.digest art) hart hyp.header
  rw [toMap_at_hash, h, computeHash_half]

theorem cHash_matches {e : Env} {x : Exchange} {sigalg : String} {prompts : List String}
    (hyp : CapHyp e x sigalg prompts) {c' : Claims} {art : String}
    (h : c'.cHash = computeHash e.C e.alg art) (hart : art ≠ "") :
    bindingOf e.C (toMap freshUUID c') "c_hash" sigalg art = .matches := by
  apply bindingOf_matches (bits := hashBits e.alg) _ (hyp.digest art) hart hyp.header
  rw [toMap_c_hash, h, computeHash_half]

theorem atHash_absent {C : Crypto} {sigalg : String} {c' : Claims} (h : c'.atHash = "") (art : String) :
    bindingOf C (toMap freshUUID c') "at_hash" sigalg art = .absent := by
  apply bindingOf_absent
  rw [toMap_at_hash, h, optStr_empty]

theorem cHash_absent {C : Crypto} {sigalg : String} {c' : Claims} (h : c'.cHash = "") (art : String) :
    bindingOf C (toMap freshUUID c') "c_hash" sigalg art = .absent := by
  apply bindingOf_absent
  rw [toMap_c_hash, h, optStr_empty]

/-! ## facts about `Case` by reported step -/

theorem Case.nowLast_authz {k : Case} (h : k.last = .authz) : k.nowLast = k.now1 := by
  unfold Case.nowLast; rw [h]
theorem Case.nowLast_token {k : Case} (h : k.last = .token) : k.nowLast = k.now1 + k.dt1 := by
  unfold Case.nowLast; rw [h]
theorem Case.nowLast_refresh {k : Case} (h : k.last = .refresh) : k.nowLast = k.now1 + k.dt1 + k.dt2 := by
  unfold Case.nowLast; rw [h]

theorem Case.lifetime_authz {k : Case} (h : k.last = .authz) : k.lifetime = (k.now1, k.configured k.lifeImplicit) := by
  unfold Case.lifetime; rw [h]
theorem Case.lifetime_refresh {k : Case} (h : k.last = .refresh) :
    k.lifetime = (k.nowLast, k.configured k.lifeRefresh) := by
  unfold Case.lifetime; rw [h]
theorem Case.lifetime_token {k : Case} (h : k.last = .token) :
    k.lifetime = (if (k.rt = .ci ∨ k.rt = .cit) ∧ k.openid then (k.now1, k.configured k.lifeImplicit)
      else if k.rt = .device then (k.nowLast, k.configured none)
      else (k.nowLast, k.configured k.lifeCode)) := by
  unfold Case.lifetime; rw [h]

theorem Case.deliversToken_authz {k : Case} (h : k.last = .authz) : k.deliversToken = k.rt.hasToken := by
  unfold Case.deliversToken; rw [h]
theorem Case.deliversToken_token {k : Case} (h : k.last = .token) : k.deliversToken = true := by
  unfold Case.deliversToken; rw [h]
theorem Case.deliversToken_refresh {k : Case} (h : k.last = .refresh) : k.deliversToken = true := by
  unfold Case.deliversToken; rw [h]
theorem Case.deliversCode_authz {k : Case} (h : k.last = .authz) : k.deliversCode = k.rt.hasCode := by
  unfold Case.deliversCode; rw [h]
theorem Case.deliversCode_token {k : Case} (h : k.last = .token) : k.deliversCode = false := by
  unfold Case.deliversCode; rw [h]
theorem Case.deliversCode_refresh {k : Case} (h : k.last = .refresh) : k.deliversCode = false := by
  unfold Case.deliversCode; rw [h]

/-! ## part 1: the reported step is the authorize response -/

theorem silent_authz {e : Env} {x : Exchange} {sigalg : String} {prompts : List String}
    (hyp : CapHyp e x sigalg prompts) (hl : x.last = .authz) :
    check (caseOf e x sigalg prompts) (modelObservation e x sigalg) = none := by
  unfold modelObservation
  cases hex : exchange e x with
  | err _ _ => rfl
  | noIDToken => rfl
  | idToken c' t a kk =>
    show check _ (.idToken (obsOf_cap e.C sigalg c' t a kk)) = none
    have hkl : (caseOf e x sigalg prompts).last = .authz := hl
    rcases exchange_inv hex with ⟨_, s1, h1, hi, ht, ha, hk⟩ | ⟨hl', _⟩ | ⟨hl', _⟩
    · obtain ⟨c0, hb, hah, hch, hvp, _, _, hcase⟩ := firstStep_inv h1
      rcases hcase with ⟨hn, _, _⟩ | ⟨hop, hid, hgen, hi'⟩
      · rw [hn] at hi; cases hi
      · have hc' : s1.claims = c' := by rw [hi'] at hi; injection hi
        rw [hc'] at hgen
        subst ht
        have G := genFacts hgen
        have hdev : x.rt ≠ .device := by intro hh; rw [hh] at hid; cases hid
        have hv := hvp hdev (Or.inr (by rw [hi]; intro hh; cases hh))
        obtain ⟨k2, k3, k4, k5, k6, k7, ke, ki, k10, kn⟩ :=
          common_facts (sigalg := sigalg) (prompts := prompts) (a := a) (kk := kk) G hyp.clock1 hb.sub (Or.inl hb.iss)
        have R := (reqOK_of_validatePrompt hyp hdev hv).clauses (e := e) (sigalg := sigalg)
        have hat' : c'.atHash = (if x.rt.hasToken then computeHash e.C e.alg x.at0 else "") := by
          rw [G.atHash, hah, hyp.atHash0]
        have hct' : c'.cHash = (if x.rt.hasCode then computeHash e.C e.alg x.code else "") := by
          rw [G.cHash, hch, hyp.cHash0]
          cases hrt : x.rt <;> rw [hrt] at hid <;> first | rfl | cases hid
        refine check_none hop k2 k3 k4 k5 k6 k7 ?_ (fun hh => absurd (hl.symm.trans hh) (by decide)) ke ki k10 ?_ rfl
          ?_ ?_ ?_ (fun _ hh => absurd (hl.symm.trans hh) (by decide)) ?_ (fun _ => R)
        · intro _ hne
          rw [kn]
          exact nonce_echo G hne
        · intro hp
          rw [Case.nowLast_authz hkl, Case.lifetime_authz hkl, configured_eq]
          rcases hp with hp | hp
          · have hp' : x.claims.exp = zeroTime := hp
            apply lifetime_ok
            rw [G.exp, hb.exp, if_pos hp']
            rfl
          · exact absurd (hl.symm.trans hp) (by decide)
        · intro hdt
          rw [Case.deliversToken_authz hkl] at hdt
          have hdt' : x.rt.hasToken = true := hdt
          rw [hdt', if_pos rfl] at hat' ha
          subst ha
          exact atHash_matches hyp hat' hyp.at0_ne
        · intro hdt
          rw [Case.deliversToken_authz hkl] at hdt
          have hdt' : x.rt.hasToken = false := hdt
          rw [hdt'] at hat'
          exact atHash_absent hat' a
        · intro hdc
          rw [Case.deliversCode_authz hkl] at hdc
          have hdc' : x.rt.hasCode = true := hdc
          rw [hdc', if_pos rfl] at hct' hk
          subst hk
          exact cHash_matches hyp hct' hyp.code_ne
        · intro hdc _
          rw [Case.deliversCode_authz hkl] at hdc
          have hdc' : x.rt.hasCode = false := hdc
          rw [hdc'] at hct'
          exact cHash_absent hct' kk
    · rw [hl] at hl'; cases hl'
    · rw [hl] at hl'; cases hl'

/-! ## part 2: the reported step is the token response (code / hybrid / device) -/

theorem silent_token {e : Env} {x : Exchange} {sigalg : String} {prompts : List String}
    (hyp : CapHyp e x sigalg prompts) (hl : x.last = .token) :
    check (caseOf e x sigalg prompts) (modelObservation e x sigalg) = none := by
  unfold modelObservation
  cases hex : exchange e x with
  | err _ _ => rfl
  | noIDToken => rfl
  | idToken c' t a kk =>
    show check _ (.idToken (obsOf_cap e.C sigalg c' t a kk)) = none
    have hkl : (caseOf e x sigalg prompts).last = .token := hl
    rcases exchange_inv hex with ⟨hl', _⟩ | ⟨_, s1, s2, h1, h2, hi, ht, ha, hk⟩ | ⟨hl', _⟩
    · rw [hl] at hl'; cases hl'
    · obtain ⟨c0, hb, hah, hch, hvp, hst, hdevc, hcase⟩ := firstStep_inv h1
      have hcar := firstStep_carried h1
      rcases secondStep_inv h2 with ⟨_, hn, _⟩ | ⟨hstored, hgen, hi'⟩
      · rw [hn] at hi; cases hi
      · have hc' : s2.claims = c' := by rw [hi'] at hi; injection hi
        rw [hc'] at hgen
        subst ht ha
        have G := genFacts hgen
        obtain ⟨hop, hnit, hnitt⟩ := hst hstored
        obtain ⟨k2, k3, k4, k5, k6, k7, ke, ki, k10, kn⟩ :=
          common_facts (sigalg := sigalg) (prompts := prompts) (a := x.at1) (kk := kk) G hyp.clock2
            (show ({ s1.claims with atHash := computeHash e.C e.alg x.at1 } : Claims).sub = x.claims.sub from hcar.sub)
            (show ({ s1.claims with atHash := computeHash e.C e.alg x.at1 } : Claims).iss = x.claims.iss ∨ _ from hcar.iss)
        have R : ReqOK x prompts := by
          by_cases hd : x.rt = .device
          · have hs1 := hdevc hd
            exact reqOK_of_requestChecks hyp hd
              (c0 := { s1.claims with atHash := computeHash e.C e.alg x.at1 })
              (show s1.claims.sub = _ by rw [hs1]) (show s1.claims.authTime = _ by rw [hs1])
              (show s1.claims.rat = _ by rw [hs1]) (G.req (hyp.device_gt hd))
          · exact reqOK_of_validatePrompt hyp hd (hvp hd (Or.inl hstored))
        -- the c_hash the session carries after the first step
        have hs1c : s1.claims.cHash = (if isHybrid_cap x.rt then computeHash e.C e.alg x.code else "") := by
          rcases hcase with ⟨_, hc, _⟩ | ⟨_, _, hg1, _⟩
          · rw [hc, hch, hyp.cHash0]
          · rw [(genFacts hg1).cHash, hch, hyp.cHash0]
        have hcc : c'.cHash = (if isHybrid_cap x.rt then computeHash e.C e.alg x.code else "") := by
          rw [G.cHash]; exact hs1c
        refine check_none hop k2 k3 k4 k5 k6 k7 ?_ (fun hh => absurd (hl.symm.trans hh) (by decide)) ke ki k10 ?_ rfl
          ?_ ?_ ?_ ?_ ?_ (fun _ => R.clauses)
        · intro _ hne
          rw [kn]
          exact nonce_echo G hne
        · intro hp
          rw [Case.nowLast_token hkl, Case.lifetime_token hkl]
          rcases hp with hp | hp
          · have hp' : x.claims.exp = zeroTime := hp
            by_cases hci : x.rt = .ci ∨ x.rt = .cit
            · rw [if_pos (show ((caseOf e x sigalg prompts).rt = .ci ∨ (caseOf e x sigalg prompts).rt = .cit) ∧
                  (caseOf e x sigalg prompts).openid = true from ⟨hci, hop⟩), configured_eq]
              rcases hcase with ⟨_, _, hno⟩ | ⟨_, _, hg1, _⟩
              · exact absurd ⟨hci, hop⟩ hno
              · have G1 := genFacts hg1
                have he1 : s1.claims.exp = x.now1 + (if e.lifespan e.lifeImplicit = 0 then defaultExpiryTime
                    else e.lifespan e.lifeImplicit) := by
                  rw [G1.exp, hb.exp, if_pos hp']
                have hge1 := G1.exp_ge
                have hnz : ¬ s1.claims.exp = zeroTime := by have := hyp.clock1; omega
                apply lifetime_ok
                rw [G.exp]
                show (if s1.claims.exp = zeroTime then _ else s1.claims.exp) = _
                rw [if_neg hnz, he1]
                rfl
            · rw [if_neg (show ¬ (((caseOf e x sigalg prompts).rt = .ci ∨ (caseOf e x sigalg prompts).rt = .cit) ∧
                  (caseOf e x sigalg prompts).openid = true) from fun hh => hci hh.1)]
              have he1 : s1.claims.exp = zeroTime := by
                rcases hcase with ⟨_, hc, _⟩ | ⟨_, hid, _, _⟩
                · rw [hc, hb.exp, hp']
                · exfalso
                  have hfour : x.rt = .it ∨ x.rt = .itt ∨ x.rt = .ci ∨ x.rt = .cit := by
                    cases hrt : x.rt <;> rw [hrt] at hid <;> first | exact absurd hid (by decide) | simp
                  rcases hfour with h4 | h4 | h4 | h4
                  · exact hnit h4
                  · exact hnitt h4
                  · exact hci (Or.inl h4)
                  · exact hci (Or.inr h4)
              have hexp : c'.exp = x.now1 + x.dt1 +
                  (if e.lifespan (if x.rt = .device then none else e.lifeCode) = 0 then defaultExpiryTime
                   else e.lifespan (if x.rt = .device then none else e.lifeCode)) := by
                rw [G.exp]
                show (if s1.claims.exp = zeroTime then _ else s1.claims.exp) = _
                rw [if_pos he1]
              by_cases hd : x.rt = .device
              · rw [if_pos (show (caseOf e x sigalg prompts).rt = .device from hd), configured_eq]
                apply lifetime_ok
                rw [hexp, if_pos hd, Case.nowLast_token hkl]
                rfl
              · rw [if_neg (show ¬ (caseOf e x sigalg prompts).rt = .device from hd), configured_eq]
                apply lifetime_ok
                rw [hexp, if_neg hd, Case.nowLast_token hkl]
                rfl
          · exact absurd (hl.symm.trans hp) (by decide)
        · intro _
          exact atHash_matches hyp (show c'.atHash = computeHash e.C e.alg x.at1 by rw [G.atHash]) hyp.at1_ne
        · intro hdt
          rw [Case.deliversToken_token hkl] at hdt; cases hdt
        · intro hdc
          rw [Case.deliversCode_token hkl] at hdc; cases hdc
        · intro _ _ hnd
          have hnd' : ¬ x.rt = .device := hnd
          rw [if_neg hnd'] at hk
          subst hk
          by_cases hh : isHybrid_cap x.rt
          · rw [if_pos hh] at hcc
            exact Or.inr (cHash_matches hyp hcc hyp.code_ne)
          · rw [if_neg hh] at hcc
            exact Or.inl (cHash_absent hcc _)
        · intro _ hor
          rcases hor with hor | hor
          · exact absurd hkl hor
          · have hd : x.rt = .device := hor
            have hh : ¬ isHybrid_cap x.rt := by rw [hd]; decide
            rw [if_neg hh] at hcc
            exact cHash_absent hcc _
    · rw [hl] at hl'; cases hl'

/-! ## part 3: the reported step is the refresh response -/

theorem silent_refresh {e : Env} {x : Exchange} {sigalg : String} {prompts : List String}
    (hyp : CapHyp e x sigalg prompts) (hl : x.last = .refresh) :
    check (caseOf e x sigalg prompts) (modelObservation e x sigalg) = none := by
  unfold modelObservation
  cases hex : exchange e x with
  | err _ _ => rfl
  | noIDToken => rfl
  | idToken c' t a kk =>
    show check _ (.idToken (obsOf_cap e.C sigalg c' t a kk)) = none
    have hkl : (caseOf e x sigalg prompts).last = .refresh := hl
    rcases exchange_inv hex with ⟨hl', _⟩ | ⟨hl', _⟩ | ⟨_, s1, s2, s3, h1, h2, h3, hi, ht, ha, hk⟩
    · rw [hl] at hl'; cases hl'
    · rw [hl] at hl'; cases hl'
    · have hcar := secondStep_carried (firstStep_carried h1) h2
      unfold thirdStep at h3
      obtain ⟨hop, hgen, _⟩ := refreshToken_issued h3 hi
      subst ht ha hk
      have G := genFacts hgen
      obtain ⟨k2, k3, k4, k5, k6, k7, ke, ki, k10, kn⟩ :=
        common_facts (sigalg := sigalg) (prompts := prompts) (a := x.at2) (kk := "") G hyp.clock3
          (show s2.claims.sub = x.claims.sub from hcar.sub)
          (show s2.claims.iss = x.claims.iss ∨ _ from hcar.iss)
      refine check_none hop k2 k3 k4 k5 k6 k7 (fun hh => absurd hkl hh) ?_ ke ki k10 ?_ rfl
        ?_ ?_ ?_ ?_ ?_ (fun hh => absurd hkl hh)
      · intro _
        rw [kn]
        have hnn : c'.nonce = (if x.refreshNonce.length = 0 then s2.claims.nonce else x.refreshNonce) := G.nonce
        by_cases h0 : x.refreshNonce.length = 0
        · rw [if_pos h0] at hnn
          rcases hcar.nonce with hc | hc
          · rw [hnn, hc, hyp.nonce0, if_neg (fun hh => hh rfl)]
            exact Or.inl rfl
          · rw [hnn, hc]
            by_cases hf : x.form.nonce = ""
            · rw [if_neg (fun hh => hh hf)]; exact Or.inl rfl
            · rw [if_pos hf]; exact Or.inr (Or.inl rfl)
        · rw [if_neg h0] at hnn
          have hne : x.refreshNonce ≠ "" := by
            intro hh; apply h0; rw [hh]; rfl
          rw [hnn, if_pos hne]
          exact Or.inr (Or.inr ⟨rfl, fun _ => G.entropy h0⟩)
      · intro _
        rw [Case.nowLast_refresh hkl, Case.lifetime_refresh hkl, configured_eq]
        apply lifetime_ok
        rw [G.exp]
        show (if zeroTime = zeroTime then _ else zeroTime) = _
        rw [if_pos rfl, Case.nowLast_refresh hkl]
        rfl
      · intro _
        exact atHash_matches hyp (show c'.atHash = computeHash e.C e.alg x.at2 by rw [G.atHash]) hyp.at2_ne
      · intro hdt
        rw [Case.deliversToken_refresh hkl] at hdt; cases hdt
      · intro hdc
        rw [Case.deliversCode_refresh hkl] at hdc; cases hdc
      · intro _ hlt
        exact absurd (hl.symm.trans hlt) (by decide)
      · intro _ _
        exact cHash_absent (show c'.cHash = "" by rw [G.cHash]) _

/-! ## the capstone -/

theorem silent {e : Env} {x : Exchange} {sigalg : String} {prompts : List String}
    (hyp : CapHyp e x sigalg prompts) :
    check (caseOf e x sigalg prompts) (modelObservation e x sigalg) = none := by
  cases hl : x.last with
  | authz => exact silent_authz hyp hl
  | token => exact silent_token hyp hl
  | refresh => exact silent_refresh hyp hl

/-! ## the driver's instance: stand-in hash, decoded op lines -/

theorem toList_loop_ne_nil (bs : ByteArray) (i : Nat) (r : List UInt8) (h : r ≠ [] ∨ i < bs.size) :
    ByteArray.toList.loop bs i r ≠ [] := by
  fun_induction ByteArray.toList.loop bs i r with
  | case1 i r hlt ih => exact ih (Or.inl (by simp))
  | case2 i r hge =>
    rcases h with h | h
    · simpa using h
    · exact absurd h hge

theorem toList_ne_nil (bs : ByteArray) (h : 0 < bs.size) : bs.toList ≠ [] := by
  unfold ByteArray.toList
  exact toList_loop_ne_nil bs 0 [] (Or.inr h)

theorem tagged_size (a s : String) : 0 < (a ++ "|" ++ s).toUTF8.size := by
  rw [String.toUTF8_eq_toByteArray, String.size_toByteArray, String.utf8ByteSize_append,
    String.utf8ByteSize_append]
  have : "|".utf8ByteSize = 1 := by decide
  omega

/-- the driver's stand-in never encodes half a digest as the empty string -/
theorem standIn_digest (bits : Nat) (s : String) : halfHash standIn bits s ≠ "" := by
  unfold halfHash
  show standIn.b64 (((toString bits ++ "|" ++ s).toUTF8.toList ++
      List.replicate (toString bits ++ "|" ++ s).toUTF8.toList.length 0).take
    (((toString bits ++ "|" ++ s).toUTF8.toList ++
      List.replicate (toString bits ++ "|" ++ s).toUTF8.toList.length 0).length / 2)) ≠ ""
  generalize hb : (toString bits ++ "|" ++ s).toUTF8.toList = b
  have hne : b ≠ [] := by rw [← hb]; exact toList_ne_nil _ (tagged_size _ _)
  have hlen : (b ++ List.replicate b.length (0 : UInt8)).length / 2 = b.length := by
    simp only [List.length_append, List.length_replicate]; omega
  rw [hlen, List.take_left']
  · show String.ofList (b.map (fun x => Char.ofNat x.toNat)) ≠ ""
    intro h
    have := congrArg String.length h
    simp at this
    exact hne this
  · rfl

/-- what `decode` fixes: the stand-in hash, the artefact names, no pre-set hash / nonce claims -/
theorem decode_facts {fs : List String} {d : Decoded} (h : decode fs = some d) :
    Decoded.coherent d ∧ d.env.C = standIn ∧ d.x.code = "CODE" ∧ d.x.at0 = "AT0" ∧ d.x.at1 = "AT1" ∧
    d.x.at2 = "AT2" ∧ d.x.claims.atHash = "" ∧ d.x.claims.cHash = "" ∧ d.x.claims.nonce = "" := by
  unfold decode at h
  simp only [Option.bind_eq_bind, Option.pure_def, Option.bind_eq_some_iff] at h
  obtain ⟨rt, _, last, _, hd⟩ := h
  injection hd with hd
  subst hd
  exact ⟨⟨rfl, rfl⟩, rfl, rfl, rfl, rfl, rfl, rfl, rfl, rfl⟩

/-- the assumptions that remain for a decoded op line -/
structure DriverHyp (d : Decoded) : Prop where
  /-- the session's `alg` header chooses the hash the JWS algorithm of the signing key chooses -/
  header : algBits d.sigalg = some (hashBits d.env.alg)
  /-- the clock is after year 1 at every step -/
  clock1 : zeroTime < d.x.now1
  clock2 : zeroTime < d.x.now1 + d.x.dt1
  clock3 : zeroTime < d.x.now1 + d.x.dt1 + d.x.dt2
  /-- `toCase` splits the prompt parameter with `String.splitOn`, the model with `promptList` -/
  prompts_none : d.x.rt ≠ .device → (driverPrompts d.x.form.prompt).contains "none" = true →
    (promptList d.x.form.prompt).contains "none" = true
  prompts_login : d.x.rt ≠ .device → (driverPrompts d.x.form.prompt).contains "login" = true →
    (promptList d.x.form.prompt).contains "login" = true
  /-- device flow: the application-supplied form has no `grant_type=refresh_token` and a single-valued prompt -/
  device_gt : d.x.rt = .device → d.x.form.grantType ≠ "refresh_token"
  device_none : d.x.rt = .device → (driverPrompts d.x.form.prompt).contains "none" = true → d.x.form.prompt = "none"
  device_login : d.x.rt = .device → (driverPrompts d.x.form.prompt).contains "login" = true → d.x.form.prompt = "login"

theorem DriverHyp.capHyp {fs : List String} {d : Decoded} (hd : decode fs = some d) (h : DriverHyp d) :
    CapHyp d.env d.x d.sigalg (driverPrompts d.x.form.prompt) := by
  obtain ⟨_, hC, h1, h2, h3, h4, h5, h6, h7⟩ := decode_facts hd
  exact {
    header := h.header
    digest := by rw [hC]; exact standIn_digest _
    code_ne := by rw [h1]; decide
    at0_ne := by rw [h2]; decide
    at1_ne := by rw [h3]; decide
    at2_ne := by rw [h4]; decide
    clock1 := h.clock1, clock2 := h.clock2, clock3 := h.clock3
    atHash0 := h5, cHash0 := h6, nonce0 := h7
    prompts_none := h.prompts_none, prompts_login := h.prompts_login
    device_gt := h.device_gt, device_none := h.device_none, device_login := h.device_login }

theorem silent_driver {fs : List String} {d : Decoded} (hd : decode fs = some d) (h : DriverHyp d) :
    check (toCase d) (driverObservation d) = none := by
  rw [toCase_eq_caseOf d (decode_coherent hd)]
  exact silent (h.capHyp hd)

/-! ## a hash the kernel can evaluate, for the examples -/

def demoBytes (bits : Nat) (s : String) : List UInt8 :=
  UInt8.ofNat (bits / 8) :: s.toList.map (fun c => UInt8.ofNat c.toNat)

/-- a stand-in "digest": the tagged input twice, so that the left half is the tagged input -/
def demoC : Crypto where
  hash := fun bits s => demoBytes bits s ++ demoBytes bits s
  b64 := fun b => String.ofList (b.map (fun x => Char.ofNat x.toNat))

theorem demoC_digest (bits : Nat) (s : String) : halfHash demoC bits s ≠ "" := by
  unfold halfHash
  show String.ofList (((demoBytes bits s ++ demoBytes bits s).take
    ((demoBytes bits s ++ demoBytes bits s).length / 2)).map (fun x => Char.ofNat x.toNat)) ≠ ""
  have hlen : (demoBytes bits s ++ demoBytes bits s).length / 2 = (demoBytes bits s).length := by
    simp only [List.length_append]; omega
  rw [hlen, List.take_left']
  · intro h
    have := congrArg String.length h
    simp [demoBytes] at this
  · rfl

/-! ## the text round trip of the driver, evaluated on concrete op lines

  `roundTrip line` = for the op line, parsing the line `pureModelIDToken` prints (`decObservation ∘ renderOutcome`)
  gives exactly `driverObservation`, the monitor's answer on it is `none`, and the decidable part of `DriverHyp`
  holds.  (Evaluation, not proof: `String.splitOn` / `toInt?` do not reduce in the kernel.) -/

def driverHypB (d : Decoded) : Bool :=
  decide (algBits d.sigalg = some (hashBits d.env.alg)) && decide (zeroTime < d.x.now1) &&
  decide (zeroTime < d.x.now1 + d.x.dt1) && decide (zeroTime < d.x.now1 + d.x.dt1 + d.x.dt2) &&
  (d.x.rt == .device || (!(driverPrompts d.x.form.prompt).contains "none" || (promptList d.x.form.prompt).contains "none")) &&
  (d.x.rt == .device || (!(driverPrompts d.x.form.prompt).contains "login" || (promptList d.x.form.prompt).contains "login")) &&
  (d.x.rt != .device || (d.x.form.grantType != "refresh_token" &&
    (!(driverPrompts d.x.form.prompt).contains "none" || d.x.form.prompt == "none") &&
    (!(driverPrompts d.x.form.prompt).contains "login" || d.x.form.prompt == "login")))

def roundTrip (line : String) (wantToken : Bool) : Bool :=
  match line.splitOn "\t" with
  | "idtoken" :: rest =>
    match decode rest with
    | some d =>
      decObservation (renderOutcome d (exchange d.env d.x)) == driverObservation d &&
      (check (toCase d) (driverObservation d)).isNone && driverHypB d &&
      (match driverObservation d with | .idToken _ => wantToken | _ => !wantToken)
    | none => false
  | _ => false

#guard roundTrip "idtoken\trt=code\tlast=token\tkey=rs256\tsigalg=RS256\thalg=RS256\tcid=client-2\tpublic=0\tredir=https://rp.example/cb\tsecure=1\tlcode=-\tlimpl=-\tlrefr=-\tcfglife=0\tminent=0\tiss=https://as.example\tsub=alice\tsiss=\tsaud=\tauthtime=-28750000000\trat=-58750000000\texp=-\tsjti=\tsacr=\tsamr=\textra=\tgranted=,openid,offline\tnonce=nonce-nonce-1\tmaxage=\tmaxagep=-\tprompt=\tacrv=\thint=-\thintdec=-\tgt=\trnonce=\tt0=1250000000\tdt1=1000000000\tdt2=2000000000" true
#guard roundTrip "idtoken\trt=code\tlast=refresh\tkey=es256\tsigalg=ES256\thalg=ES256\tcid=client-0\tpublic=0\tredir=https://rp.example/cb\tsecure=1\tlcode=-\tlimpl=-\tlrefr=-\tcfglife=0\tminent=0\tiss=https://as.example\tsub=alice\tsiss=\tsaud=\tauthtime=-29250000000\trat=-59250000000\texp=-\tsjti=\tsacr=\tsamr=\textra=\tgranted=,openid,offline\tnonce=nonce-nonce-1\tmaxage=\tmaxagep=-\tprompt=\tacrv=\thint=-\thintdec=-\tgt=\trnonce=\tt0=750000000\tdt1=1000000000\tdt2=0" true
#guard roundTrip "idtoken\trt=cit\tlast=authz\tkey=es384\tsigalg=ES384\thalg=ES384\tcid=client%201\tpublic=0\tredir=https://rp.example/cb\tsecure=1\tlcode=-\tlimpl=120000000000\tlrefr=-\tcfglife=0\tminent=0\tiss=https://as.example\tsub=al%20ice\tsiss=https://session-issuer.example\tsaud=,a1,a2,a1\tauthtime=-28750000000\trat=-58750000000\texp=-\tsjti=\tsacr=\tsamr=\textra=,sub:mallory\tgranted=,openid,offline\tnonce=nonce-nonce-1\tmaxage=100\tmaxagep=100\tprompt=login%20consent\tacrv=\thint=-\thintdec=sub:al%20ice\tgt=\trnonce=\tt0=1250000000\tdt1=1000000000\tdt2=0" true
#guard roundTrip "idtoken\trt=device\tlast=token\tkey=es256\tsigalg=ES256\thalg=-\tcid=client-1\tpublic=0\tredir=https://rp.example/cb\tsecure=1\tlcode=-\tlimpl=-\tlrefr=-\tcfglife=0\tminent=0\tiss=https://as.example\tsub=alice\tsiss=\tsaud=\tauthtime=-28750000000\trat=-58750000000\texp=-\tsjti=\tsacr=\tsamr=\textra=\tgranted=,openid,offline\tnonce=nonce-nonce-1\tmaxage=\tmaxagep=-\tprompt=login\tacrv=\thint=-\thintdec=-\tgt=\trnonce=\tt0=1250000000\tdt1=1000000000\tdt2=0" true
#guard roundTrip "idtoken\trt=cit\tlast=authz\tkey=es256\tsigalg=ES256\thalg=ES256\tcid=client-2\tpublic=0\tredir=https://rp.example/cb\tsecure=1\tlcode=-\tlimpl=-\tlrefr=-\tcfglife=0\tminent=0\tiss=https://as.example\tsub=alice\tsiss=\tsaud=\tauthtime=-28750000000\trat=-58750000000\texp=-\tsjti=\tsacr=\tsamr=\textra=\tgranted=,offline,profile\tnonce=nonce-nonce-1\tmaxage=1\tmaxagep=1\tprompt=\tacrv=\thint=-\thintdec=-\tgt=\trnonce=refresh-nonce-1\tt0=1250000000\tdt1=1000000000\tdt2=0" false

end Fosite.Proofs.IDTokenCap

/-
  Capstone lemmas for C13 (and the writer half of C11): the monitor `Spec.Authz.violations` evaluated on the
  model's own response.

  * `modelObs i`: what the driver's `renderOutcome i` prints, as a `Spec.Authz.Obs`, built from the same
    functions (`authorize`, `respond`, `placementName`, `paramsAt`, `sortNames`, the state lookup of `stateOf`,
    the target of `targetOf` before escaping).  The text round trip `decObs (renderOutcome i)` (escaping,
    `splitOn`) is not reduced by the kernel and is not proved; `#guard`s at the end evaluate it on op lines.
  * `CapHyp i`: the three facts about library parameters the monitor needs.
  * `violations_nil_of_*`: the monitor is silent when each clause's condition is false.
-/
import Fosite.Proofs.Authz
import Fosite.Props.C13
import Fosite.Props.C11b
import Fosite.Driver.PureAuthz
namespace Fosite.Proofs.AuthzCap
open Fosite Fosite.Model Fosite.Model.Authz Fosite.Spec.Authz Fosite.Proofs.Authz Fosite.Driver.Authz

/-! ## the observation as a structured value -/

/-- `targetOf` before `escObs` (= after `unesc` in `decObs`) -/
def targetText (lib : Lib) (r : HTTPResp) : String :=
  match r.base with
  | none => if r.actionBlocked then "://" else "-"
  | some s => targetString (lib.P s)

/-- `stateOf` read through `decObs` -/
def stateText (r : HTTPResp) : Option String :=
  match r.params.find? (fun p => p.1 == "state") with
  | some (_, some v) => some v
  | some (_, none) => some "?"
  | none => none

/-- the observation of the model's response to `i` (what `pureModelAuthz` prints, parsed) -/
def modelObs (i : Input) : Obs :=
  let r := respond i
  let q := sortNames r.queryNames
  { accepted := match authorize i with | .success _ _ => true | .failure _ _ => false
    errName := match authorize i with | .success _ _ => "" | .failure _ e => e.name
    placement := placementName r.placement
    target := targetText i.lib r
    params := paramsAt r
    query := q
    state := stateText r
    tokensInQuery := q.contains "access_token" || q.contains "id_token" }

/-! ## sorting keeps membership -/

theorem mem_insertSorted (x y : String) (l : List String) :
    y ∈ Driver.Authz.insertSorted x l ↔ y = x ∨ y ∈ l := by
  induction l with
  | nil => simp [Driver.Authz.insertSorted]
  | cons z zs ih =>
    unfold Driver.Authz.insertSorted
    by_cases h : x < z
    · rw [if_pos h]; simp
    · rw [if_neg h]
      by_cases he : (x == z) = true
      · rw [if_pos he]
        have : x = z := by simpa using he
        subst this
        simp
      · rw [if_neg he]
        simp only [List.mem_cons, ih]
        constructor
        · rintro (h1 | h1 | h1)
          · exact Or.inr (Or.inl h1)
          · exact Or.inl h1
          · exact Or.inr (Or.inr h1)
        · rintro (h1 | h1 | h1)
          · exact Or.inr (Or.inl h1)
          · exact Or.inl h1
          · exact Or.inr (Or.inr h1)

theorem mem_foldl_insertSorted (y : String) (xs acc : List String) :
    y ∈ xs.foldl (fun a x => Driver.Authz.insertSorted x a) acc ↔ y ∈ xs ∨ y ∈ acc := by
  induction xs generalizing acc with
  | nil => simp
  | cons x xs ih =>
    simp only [List.foldl_cons, ih, mem_insertSorted, List.mem_cons]
    constructor
    · rintro (h | h | h)
      · exact Or.inl (Or.inr h)
      · exact Or.inl (Or.inl h)
      · exact Or.inr h
    · rintro ((h | h) | h)
      · exact Or.inr (Or.inl h)
      · exact Or.inl h
      · exact Or.inr (Or.inr h)

theorem mem_sortNames (y : String) (xs : List String) : y ∈ sortNames xs ↔ y ∈ xs := by
  unfold sortNames
  rw [mem_foldl_insertSorted]
  simp

theorem contains_sortNames (y : String) (xs : List String) : (sortNames xs).contains y = xs.contains y := by
  rw [Bool.eq_iff_iff]
  simp only [List.contains_iff_mem, mem_sortNames]

/-! ## the monitor is silent when no clause's condition holds -/

theorem violations_nil_of_none {i : Input} {o : Obs} (hc : i.clients (i.form.get "client_id") = none)
    (h1 : o.accepted = false) (h2 : o.redirected = false) (h3 : o.tokensInQuery = false) :
    violations i o = [] := by
  unfold violations
  simp only [hc, h1, h2, h3]
  rfl

theorem violations_nil_of_some {i : Input} {o : Obs} {c : Client} (hc : i.clients (i.form.get "client_id") = some c)
    (h1 : ¬ (o.accepted = true ∧ ¬ i.formOK = true))
    (h2 : ¬ (o.accepted = true ∧ ¬ responseTypeRegistered i.lib.lower c ((effective i.lib c i.form).get "response_type")))
    (h3 : ¬ (o.accepted = true ∧ ¬ responseModeAllowed c ((effective i.lib c i.form).get "response_mode")))
    (h4 : ¬ (o.accepted = true ∧ blen ((effective i.lib c i.form).get "state") < i.cfg.minEntropy))
    (h5 : ¬ (o.accepted = true ∧ "openid" ∈ effectiveScopes i.lib c i.form ∧
              (effective i.lib c i.form).get "redirect_uri" = ""))
    (h6 : ¬ (o.accepted = true ∧ o.params.contains "id_token" = true ∧
              blen ((effective i.lib c i.form).get "nonce") < i.cfg.minEntropy))
    (h7 : ¬ (o.accepted = true ∧ o.params.contains "access_token" = true ∧ ¬ hasGrant i.lib.lower c "implicit"))
    (h8 : ¬ (o.accepted = true ∧ o.params.contains "id_token" = true ∧ ¬ o.params.contains "code" = true ∧
              ¬ hasGrant i.lib.lower c "implicit"))
    (h9 : ¬ (o.accepted = true ∧ o.params.contains "code" = true ∧
              (words ((effective i.lib c i.form).get "response_type")).length ≥ 2 ∧
              ¬ hasGrant i.lib.lower c "authorization_code"))
    (h10 : ¬ (o.accepted = true ∧ isOIDC i.lib.lower i.form ∧
              (i.form.get "request" ≠ "" ∨ i.form.get "request_uri" ≠ "") ∧ (honoured i.lib c i.form).isNone = true))
    (h11 : ¬ (o.tokensInQuery = true ∨
              (o.placement == "query") = true ∧ (o.params.contains "access_token" || o.params.contains "id_token") = true ∨
              o.query.contains "access_token" = true ∨ o.query.contains "id_token" = true))
    (h12 : ¬ ((o.accepted = true ∨ o.redirected = true) ∧ o.state ≠ some ((effective i.lib c i.form).get "state")))
    (h13 : ¬ (o.accepted = true ∧ ¬ o.redirected = true))
    (h14 : ¬ (o.redirected = true ∧ (redirectTarget i.lib c i.form).isNone = true))
    (h15 : ∀ s, redirectTarget i.lib c i.form = some s → ¬ (o.redirected = true ∧ o.target ≠ targetString (i.lib.P s))) :
    violations i o = [] := by
  unfold violations
  simp only [hc]
  rw [if_neg h1, if_neg h2, if_neg h3, if_neg h4, if_neg h5, if_neg h6, if_neg h7, if_neg h8, if_neg h9, if_neg h10,
    if_neg h11, if_neg h12, if_neg h13, if_neg h14]
  cases ht : redirectTarget i.lib c i.form with
  | none => rfl
  | some s =>
    simp only
    rw [if_neg (h15 s ht)]
    rfl

/-! ## one more handler invariant: an ID token comes with a code or needs the implicit grant -/

/-- an `id_token` parameter is accompanied by a `code` parameter, or the client holds the implicit grant -/
def IdtGate (x : Ctx) (h : HS) : Prop :=
  pHas h.params "id_token" = true →
    pHas h.params "code" = true ∨ argsHas x.lib.lower x.client.getGrantTypes ["implicit"] = true

theorem hExplicit_idt (x : Ctx) (h h' : HS) (hi : IdtGate x h) (hr : hExplicit x h = .ok h') : IdtGate x h' := by
  unfold IdtGate at hi ⊢
  simp only [hExplicit] at hr
  repeat' (split at hr)
  all_goals (first | cases hr | skip)
  all_goals simp_all

theorem hImplicit_idt (x : Ctx) (h h' : HS) (hi : IdtGate x h) (hr : hImplicit x h = .ok h') : IdtGate x h' := by
  unfold IdtGate at hi ⊢
  simp only [hImplicit] at hr
  repeat' (split at hr)
  all_goals (first | cases hr | skip)
  all_goals simp_all [issueImplicitAccessToken]

theorem hOIDCExplicit_idt (x : Ctx) (h h' : HS) (hi : IdtGate x h) (hr : hOIDCExplicit x h = .ok h') :
    IdtGate x h' := by
  simp only [hOIDCExplicit] at hr
  repeat' (split at hr)
  all_goals (first | cases hr | skip)
  all_goals exact hi

theorem hPKCE_idt (x : Ctx) (h h' : HS) (hi : IdtGate x h) (hr : hPKCE x h = .ok h') : IdtGate x h' := by
  simp only [hPKCE] at hr
  repeat' (split at hr)
  all_goals (first | cases hr | skip)
  all_goals exact hi

theorem hOIDCImplicit_idt (x : Ctx) (h h' : HS) (hi : IdtGate x h) (hr : hOIDCImplicit x h = .ok h') :
    IdtGate x h' := by
  have hi' := hi
  unfold IdtGate at hi ⊢
  by_cases ht : argsHas x.lib.lower h.ar.responseTypes ["token"] = true
  · simp only [hOIDCImplicit, setDefault_ar, ht, ↓reduceIte] at hr
    split at hr
    · cases hr; exact hi
    split at hr
    · cases hr; exact hi
    repeat' (split at hr)
    all_goals (first | cases hr | skip)
    all_goals simp_all [issueImplicitAccessToken]
  · simp only [hOIDCImplicit, setDefault_ar, ht] at hr
    split at hr
    · cases hr; exact hi
    split at hr
    · cases hr; exact hi
    repeat' (split at hr)
    all_goals (first | cases hr | skip)
    all_goals simp_all [issueImplicitAccessToken]

theorem hHybrid_idt (x : Ctx) (h h' : HS) (hi : IdtGate x h) (hr : hHybrid x h = .ok h') : IdtGate x h' := by
  have hi' := hi
  unfold IdtGate at hi ⊢
  by_cases hl : h.ar.responseTypes.length < 2
  · simp only [hHybrid, hl, ↓reduceIte] at hr
    cases hr; exact hi
  by_cases hmt : (argsMatches x.lib.lower h.ar.responseTypes ["token", "id_token", "code"] ||
      argsMatches x.lib.lower h.ar.responseTypes ["token", "code"] ||
      argsMatches x.lib.lower h.ar.responseTypes ["id_token", "code"]) = true
  · have hc := hybrid_has_code hmt
    by_cases ht : argsHas x.lib.lower h.ar.responseTypes ["token"] = true <;>
    by_cases hs : pHas h.params "state" = true
    all_goals (
      simp only [hHybrid, setDefault_ar, sdrm_rts, sdrm_form, sdrm_state, hl, hmt, hc, ht, hs, ↓reduceIte, has_eq,
        Bool.not_true, Bool.false_eq_true, Bool.true_and, Bool.false_and, add_params, add_ar, handle_params, handle_ar,
        setDefault_params, issueImplicitAccessToken, pHas_append, pHas_cons, pHas_nil] at hr
      simp at hr
      repeat' (split at hr)
      all_goals (first | cases hr | skip)
      all_goals simp_all)
  · simp only [hHybrid, hl, hmt, ↓reduceIte] at hr
    simp at hr
    cases hr; exact hi

theorem handlers_idt (x : Ctx) (a0 : AR) (h' : HS) (hr : runHandlers (handlers x) { ar := a0 } = .ok h') :
    IdtGate x h' := by
  unfold handlers at hr
  obtain ⟨h1, e1, hr⟩ := runHandlers_cons hr
  obtain ⟨h2, e2, hr⟩ := runHandlers_cons hr
  obtain ⟨h3, e3, hr⟩ := runHandlers_cons hr
  obtain ⟨h4, e4, hr⟩ := runHandlers_cons hr
  obtain ⟨h5, e5, hr⟩ := runHandlers_cons hr
  obtain ⟨h6, e6, hr⟩ := runHandlers_cons hr
  unfold runHandlers at hr
  cases hr
  have i0 : IdtGate x { ar := a0 } := by intro hh; simp at hh
  have i1 := hExplicit_idt x _ h1 i0 e1
  have i2 := hImplicit_idt x h1 h2 i1 e2
  have i3 := hOIDCExplicit_idt x h2 h3 i2 e3
  have i4 := hOIDCImplicit_idt x h3 h4 i3 e4
  have i5 := hHybrid_idt x h4 h5 i4 e5
  exact hPKCE_idt x h5 _ i5 e6

/-- on success: an `id_token` among the parameters comes with a `code`, or the client holds the implicit grant -/
theorem authorize_success_idt {i : Input} {ar : AR} {ps : List Param} (h : authorize i = .success ar ps) :
    ∃ c, i.clients (i.form.get "client_id") = some c ∧
      (pHas ps "id_token" = true → pHas ps "code" = true ∨ hasGrant i.lib.lower c "implicit") := by
  unfold authorize at h
  split at h
  · cases h
  · rename_i a0 hreq
    obtain ⟨_, _, c, hc, hacc⟩ := newAuthorizeRequest_ok hreq
    rw [hacc.client] at h
    simp only at h
    split at h
    · cases h
    · rename_i hs hresp
      cases h
      refine ⟨c, hc, ?_⟩
      unfold newAuthorizeResponse at hresp
      split at hresp
      · cases hresp
      · rename_i h1 e1
        split at hresp
        · cases hresp
        · split at hresp
          · cases hresp
          · cases hresp
            intro hid
            rcases handlers_idt _ a0 _ e1 hid with hh | hh
            · exact Or.inl hh
            · exact Or.inr (argsHas_single_iff.1 hh)

/-! ## `RemoveEmpty(strings.Split(·, " "))` of a joined list of names gives the list back -/

theorem dropWhile_idem {α} (p : α → Bool) (l : List α) : (l.dropWhile p).dropWhile p = l.dropWhile p := by
  induction l with
  | nil => rfl
  | cons a t ih =>
    by_cases h : p a = true
    · simp only [List.dropWhile_cons, h, ↓reduceIte]; exact ih
    · simp only [List.dropWhile_cons, h, ↓reduceIte, Bool.false_eq_true]

theorem dropWhile_head_false {α} (p : α → Bool) (l : List α) (h : α) (r : List α)
    (e : l.dropWhile p = h :: r) : p h = false := by
  induction l with
  | nil => cases e
  | cons a t ih =>
    by_cases ha : p a = true
    · simp only [List.dropWhile_cons, ha, ↓reduceIte] at e; exact ih e
    · simp only [List.dropWhile_cons, ha, ↓reduceIte, Bool.false_eq_true] at e
      cases e
      simpa using ha

theorem trimSpace_idem (q : List Char) : trimSpace (trimSpace q) = trimSpace q := by
  unfold trimSpace
  generalize ha : q.dropWhile isGoSpace = a
  generalize hb : a.reverse.dropWhile isGoSpace = b
  have hbb : b.dropWhile isGoSpace = b := by rw [← hb, dropWhile_idem]
  have hsplit : a.reverse = a.reverse.takeWhile isGoSpace ++ b := by
    rw [← hb]; exact (List.takeWhile_append_dropWhile).symm
  have hpre : a = b.reverse ++ (a.reverse.takeWhile isGoSpace).reverse := by
    have := congrArg List.reverse hsplit
    simpa using this
  have hfront : b.reverse.dropWhile isGoSpace = b.reverse := by
    cases hbr : b.reverse with
    | nil => rfl
    | cons h r =>
      rw [hbr] at hpre
      have : isGoSpace h = false := dropWhile_head_false isGoSpace q h _ (by rw [ha, hpre]; rfl)
      simp [this]
  rw [hfront, List.reverse_reverse, hbb]

theorem splitSpace_ne_nil (l : List Char) : splitSpace l ≠ [] := by
  induction l with
  | nil => simp [splitSpace]
  | cons c cs ih =>
    unfold splitSpace
    by_cases hc : c = ' '
    · rw [if_pos hc]; simp
    · rw [if_neg hc]
      cases h : splitSpace cs with
      | nil => simp
      | cons p ps => simp

theorem splitSpace_no_space (l : List Char) : ∀ q ∈ splitSpace l, ' ' ∉ q := by
  induction l with
  | nil => intro q hq; simp [splitSpace] at hq; subst hq; simp
  | cons c cs ih =>
    intro q hq
    unfold splitSpace at hq
    by_cases hc : c = ' '
    · rw [if_pos hc] at hq
      rcases List.mem_cons.1 hq with h | h
      · subst h; simp
      · exact ih q h
    · rw [if_neg hc] at hq
      cases h : splitSpace cs with
      | nil => exact absurd h (splitSpace_ne_nil cs)
      | cons p ps =>
        rw [h] at hq ih
        simp only at hq
        rcases List.mem_cons.1 hq with h1 | h1
        · subst h1
          intro hm
          rcases List.mem_cons.1 hm with h2 | h2
          · exact hc h2.symm
          · exact ih p List.mem_cons_self h2
        · exact ih q (List.mem_cons_of_mem _ h1)

theorem splitSpace_cons_ne (c : Char) (cs : List Char) (hc : ¬ c = ' ') (p : List Char) (ps : List (List Char))
    (h : splitSpace cs = p :: ps) : splitSpace (c :: cs) = (c :: p) :: ps := by
  conv => lhs; unfold splitSpace
  rw [if_neg hc, h]

theorem splitSpace_append_space (w rest : List Char) (hw : ' ' ∉ w) :
    splitSpace (w ++ ' ' :: rest) = w :: splitSpace rest := by
  induction w with
  | nil => simp [splitSpace]
  | cons c cs ih =>
    have hc : ¬ c = ' ' := fun h => hw (by rw [h]; exact List.mem_cons_self)
    have hcs : ' ' ∉ cs := fun h => hw (List.mem_cons_of_mem _ h)
    exact splitSpace_cons_ne c _ hc _ _ (ih hcs)

theorem splitSpace_of_no_space (w : List Char) (hw : ' ' ∉ w) : splitSpace w = [w] := by
  induction w with
  | nil => simp [splitSpace]
  | cons c cs ih =>
    have hc : ¬ c = ' ' := fun h => hw (by rw [h]; exact List.mem_cons_self)
    have hcs : ' ' ∉ cs := fun h => hw (List.mem_cons_of_mem _ h)
    exact splitSpace_cons_ne c _ hc _ _ (ih hcs)

theorem splitSpace_intercalate (ws : List (List Char)) (hne : ws ≠ []) (hw : ∀ w ∈ ws, ' ' ∉ w) :
    splitSpace ([' '].intercalate ws) = ws := by
  induction ws with
  | nil => exact absurd rfl hne
  | cons w rest ih =>
    cases rest with
    | nil =>
      simp [List.intercalate]
      exact splitSpace_of_no_space w (hw w List.mem_cons_self)
    | cons w' rest' =>
      have : [' '].intercalate (w :: w' :: rest') = w ++ ' ' :: [' '].intercalate (w' :: rest') := by
        simp [List.intercalate]
      rw [this, splitSpace_append_space _ _ (hw w List.mem_cons_self),
        ih (by simp) (fun v hv => hw v (List.mem_cons_of_mem _ hv))]

theorem mem_trimSpace {x : Char} {q : List Char} (h : x ∈ trimSpace q) : x ∈ q := by
  unfold trimSpace at h
  rw [List.mem_reverse] at h
  have h1 := (List.dropWhile_suffix isGoSpace).subset h
  rw [List.mem_reverse] at h1
  exact (List.dropWhile_suffix isGoSpace).subset h1

/-- a name as `RemoveEmpty(strings.Split(·, " "))` produces them -/
def Clean_cap (w : String) : Prop := w.toList ≠ [] ∧ ' ' ∉ w.toList ∧ trimSpace w.toList = w.toList

theorem removeEmptySplit_clean (s : String) : ∀ w ∈ removeEmptySplit s, Clean_cap w := by
  intro w hw
  unfold removeEmptySplit at hw
  obtain ⟨p, hp, rfl⟩ := List.mem_map.1 hw
  obtain ⟨hp1, hp2⟩ := List.mem_filter.1 hp
  obtain ⟨q, hq, rfl⟩ := List.mem_map.1 hp1
  unfold Clean_cap
  rw [String.toList_ofList]
  refine ⟨?_, ?_, trimSpace_idem q⟩
  · intro h; rw [h] at hp2; simp at hp2
  · intro h; exact splitSpace_no_space _ q hq (mem_trimSpace h)

theorem removeEmptySplit_intercalate (L : List String) (hL : ∀ w ∈ L, Clean_cap w) :
    removeEmptySplit (" ".intercalate L) = L := by
  unfold removeEmptySplit
  rw [String.toList_intercalate]
  have hsp : " ".toList = [' '] := by decide
  rw [hsp]
  cases hne : L with
  | nil => decide
  | cons a t =>
    rw [← hne]
    rw [splitSpace_intercalate (L.map String.toList) (by rw [hne]; simp)
      (by intro w hw; obtain ⟨v, hv, rfl⟩ := List.mem_map.1 hw; exact (hL v hv).2.1)]
    have h1 : (L.map String.toList).map trimSpace = L.map String.toList := by
      rw [List.map_map]
      apply List.map_congr_left
      intro v hv
      exact (hL v hv).2.2
    rw [h1]
    have h2 : (L.map String.toList).filter (fun p => !p.isEmpty) = L.map String.toList := by
      apply List.filter_eq_self.2
      intro p hp
      obtain ⟨v, hv, rfl⟩ := List.mem_map.1 hp
      have := (hL v hv).1
      cases hh : v.toList with
      | nil => exact absurd hh this
      | cons _ _ => rfl
    rw [h2, List.map_map]
    have : (String.ofList ∘ String.toList) = id := by
      funext v; simp
    rw [this, List.map_id]


/-- the scope merge of `authorizeRequestParametersFromOpenIDConnectRequest` -/
def mergeScopes (scope claimScope : List String) : List String :=
  scope.foldl (fun acc s => if sliceHas acc s then acc else acc ++ [s]) claimScope

theorem mem_mergeScopes (x : String) (scope acc : List String) :
    x ∈ mergeScopes scope acc ↔ x ∈ acc ∨ x ∈ scope := by
  unfold mergeScopes
  induction scope generalizing acc with
  | nil => simp
  | cons s ss ih =>
    simp only [List.foldl_cons, ih, List.mem_cons]
    by_cases hs : sliceHas acc s = true
    · rw [if_pos hs]
      have hm : s ∈ acc := by simpa [sliceHas] using hs
      constructor
      · rintro (h | h)
        · exact Or.inl h
        · exact Or.inr (Or.inr h)
      · rintro (h | h | h)
        · exact Or.inl h
        · subst h; exact Or.inl hm
        · exact Or.inr h
    · rw [if_neg hs]
      simp only [List.mem_append, List.mem_singleton]
      constructor
      · rintro ((h | h) | h)
        · exact Or.inl h
        · exact Or.inr (Or.inl h)
        · exact Or.inr (Or.inr h)
      · rintro (h | h | h)
        · exact Or.inl (Or.inl h)
        · exact Or.inl (Or.inr h)
        · exact Or.inr h

/-- the scope parameter of the merged form, read back, is the merged list -/
theorem words_merged (a b : String) :
    words (" ".intercalate (mergeScopes (words a) (words b))) = mergeScopes (words a) (words b) := by
  apply removeEmptySplit_intercalate
  intro w hw
  rcases (mem_mergeScopes w _ _).1 hw with h | h
  · exact removeEmptySplit_clean b w h
  · exact removeEmptySplit_clean a w h

theorem form_get_set_same (f : Form) (k v : String) : (f.set k v).get k = v := by
  unfold Form.get Form.set
  simp

/-! ## the request-object step, with the merged scope made explicit -/

/-- `requestObject_ok` of `Proofs/Authz.lean` with the new `scope` value spelled out -/
theorem requestObject_ok' {lib : Lib} {c : Client} {a a' : AR} (h : requestObjectStep lib c a = .ok a') :
    (a' = a ∧ (argsHas lib.lower (removeEmptySplit (a.form.get "scope")) ["openid"] = false ∨
               (a.form.get "request" = "" ∧ a.form.get "request_uri" = ""))) ∨
    (argsHas lib.lower (removeEmptySplit (a.form.get "scope")) ["openid"] = true ∧
     ¬ (a.form.get "request" ≠ "" ∧ a.form.get "request_uri" ≠ "") ∧
     ¬ (a.form.get "request" = "" ∧ a.form.get "request_uri" = "") ∧
     ∃ o assertion t, c.oidc = some o ∧
       (a.form.get "request_uri" ≠ "" →
          a.form.get "request_uri" ∈ o.requestURIs ∧ lib.fetch (a.form.get "request_uri") = .body assertion) ∧
       (a.form.get "request_uri" = "" → assertion = a.form.get "request") ∧
       verifyRequestObject lib o assertion = .ok t ∧
       a'.form = (t.claims.foldl (fun f kv => f.set kv.1 kv.2) a.form).set "scope"
         (" ".intercalate (mergeScopes (removeEmptySplit (a.form.get "scope"))
            (removeEmptySplit ((t.claims.foldl (fun f kv => f.set kv.1 kv.2) a.form).get "scope"))))) := by
  unfold requestObjectStep at h
  simp only at h
  split at h
  · rename_i ho; cases h
    exact Or.inl ⟨rfl, Or.inl (by simpa using ho)⟩
  · rename_i ho
    have ho' : argsHas lib.lower (removeEmptySplit (a.form.get "scope")) ["openid"] = true := by simpa using ho
    split at h
    · rename_i hn; cases h
      exact Or.inl ⟨rfl, Or.inr (by simpa using hn)⟩
    · rename_i hnn
      split at h
      · cases h
      · rename_i hboth
        split at h
        · split at h <;> cases h
        · rename_i o ho2
          split at h
          · cases h
          · split at h
            · cases h
            · rename_i asn hasn
              split at h
              · cases h
              · rename_i t ht
                cases h
                refine Or.inr ⟨ho', by simpa using hboth, by simpa using hnn, o, asn, t, ho2, ?_, ?_, ht, rfl⟩
                · intro hru
                  have hru' : (a.form.get "request_uri" != "") = true := by simpa using hru
                  rw [if_pos hru'] at hasn
                  split at hasn
                  · cases hasn
                  · rename_i hw
                    split at hasn
                    · cases hasn
                    · cases hasn
                    · rename_i b hb; cases hasn
                      refine ⟨?_, hb⟩
                      simpa [sliceHas] using hw
                · intro hru
                  have hru' : ¬ (a.form.get "request_uri" != "") = true := by simpa using hru
                  rw [if_neg hru'] at hasn
                  cases hasn; rfl

theorem honoured_none_of {lib : Lib} {c : Client} {form : Form}
    (h : ¬ isOIDC lib.lower form ∨ (form.get "request" = "" ∧ form.get "request_uri" = "")) :
    honoured lib c form = none := by
  unfold honoured
  split
  · rename_i hcond
    rcases h with h | h
    · exact absurd hcond.1 h
    · unfold namedObject
      rw [if_neg (fun hh => hh h.1), if_neg (fun hh => hh h.2)]
  · rfl

/-- what the request-object step leaves as the parameter list, in terms of the spec's `honoured` / `effective` -/
theorem requestObject_eff {lib : Lib} {c : Client} {form : Form} {a1 : AR}
    (h : requestObjectStep lib c (initialAR c form) = .ok a1) :
    (honoured lib c form = none ∧ a1.form = form) ∨
    (∃ t, honoured lib c form = some t ∧
      a1.form = (effective lib c form).set "scope"
        (" ".intercalate (mergeScopes (words (form.get "scope")) (words ((effective lib c form).get "scope"))))) := by
  rcases requestObject_ok' h with ⟨he, hwhy⟩ | ⟨hoidc, hboth, hone, o, asn, t, ho, hru, hreq, hver, ef⟩
  · subst he
    refine Or.inl ⟨honoured_none_of ?_, rfl⟩
    rcases hwhy with hw | hw
    · left
      intro hh
      have := argsHas_single_iff.2 hh
      simp only [initialAR] at hw
      rw [this] at hw; cases hw
    · exact Or.inr hw
  · right
    simp only [initialAR] at hoidc hboth hone hru hreq ef
    obtain ⟨hjwt, halg, hvalid, hsig⟩ := verifyRequestObject_ok hver
    have hoidc' : isOIDC lib.lower form := argsHas_single_iff.1 hoidc
    have hreg : form.get "request_uri" ≠ "" → requestURIRegistered c (form.get "request_uri") := by
      intro hne
      unfold requestURIRegistered
      rw [ho]
      exact (hru hne).1
    have hnamed : namedObject lib form = some (.parsed t) := by
      unfold namedObject
      by_cases hr : form.get "request_uri" = ""
      · have := hreq hr
        subst this
        have hne : form.get "request" ≠ "" := fun hq => hone ⟨hq, hr⟩
        simp [hne, hjwt]
      · have hq : form.get "request" = "" := by
          by_cases hq : form.get "request" = ""
          · exact hq
          · exact absurd ⟨hq, hr⟩ hboth
        have := (hru hr).2
        simp [hq, hr, this, hjwt]
    have hsigned : signedAsRegistered c t := by
      unfold signedAsRegistered
      rw [ho]
      refine ⟨halg, ?_⟩
      rcases hsig with hn | ⟨k, hk, hkid, _⟩
      · exact Or.inl hn
      · exact Or.inr ⟨k, hk, hkid⟩
    have hhon : honoured lib c form = some t := by
      unfold honoured
      rw [if_pos ⟨hoidc', hboth, hreg⟩, hnamed]
      simp [hsigned]
    refine ⟨t, hhon, ?_⟩
    have heff : effective lib c form = t.claims.foldl (fun f kv => f.set kv.1 kv.2) form := by
      unfold effective; rw [hhon]
    rw [heff]
    exact ef

/-- …hence, for every parameter but `scope`, the model's parameter list reads like the spec's `effective` -/
theorem requestObject_eff_get {lib : Lib} {c : Client} {form : Form} {a1 : AR}
    (h : requestObjectStep lib c (initialAR c form) = .ok a1) (k : String) (hk : k ≠ "scope") :
    a1.form.get k = (effective lib c form).get k := by
  rcases requestObject_eff h with ⟨hn, hf⟩ | ⟨t, _, hf⟩
  · rw [hf]; unfold effective; rw [hn]
  · rw [hf, form_get_set_ne _ _ _ _ hk]

/-! ## a request that carries a redirect URL went through the request-object step -/

theorem runSteps_redirect_ro {cfg : Cfg} {lib : Lib} {c : Client} {form : Form} {ar : AR} {oe : Option Err} {s : String}
    (h : runSteps (requestSteps cfg lib c) (initialAR c form) = (ar, oe)) (hr : ar.redirect = some s) :
    ∃ a1, requestObjectStep lib c (initialAR c form) = .ok a1 ∧ ar.form = a1.form := by
  unfold requestSteps at h
  have h0 : (initialAR c form).redirect = none := rfl
  rcases runSteps_cases h with ⟨_, _, har, _⟩ | ⟨a1, h1, h⟩
  · subst har; rw [h0] at hr; cases hr
  have hro : a1.redirect = none := by
    rcases requestObject_ok h1 with ⟨he, _⟩ | ⟨_, _, _, o, asn, t, _, _, _, _, _, e2, _⟩
    · subst he; rfl
    · exact e2
  rcases runSteps_cases h with ⟨_, _, har, _⟩ | ⟨a2, h2, h⟩
  · subst har; rw [hro] at hr; cases hr
  obtain ⟨e2, _⟩ := parseResponseMode_ok h2
  rcases runSteps_cases h with ⟨_, _, har, _⟩ | ⟨a3, h3, h⟩
  · subst har e2; simp only at hr; rw [hro] at hr; cases hr
  have e3 := parseScope_ok h3
  rcases runSteps_cases h with ⟨_, _, har, _⟩ | ⟨a4, h4, h⟩
  · subst har e3 e2; simp only at hr; rw [hro] at hr; cases hr
  obtain ⟨s', _, _, e4, _⟩ := validateRedirect_ok h4
  have hinv := runSteps_inv (sameRedirect a4) _ (by
    intro st hst a a' ha hok
    simp only [List.mem_cons, List.mem_nil_iff, or_false] at hst
    rcases hst with rfl | rfl | rfl | rfl | rfl | rfl | rfl
    · rw [(validateScope_ok hok).1]; exact ha
    · rw [(validateAudience_ok hok).1]; exact ha
    · rw [(registration_ok hok).1]; exact ha
    · rw [(validateResponseTypes_ok hok).1]; exact ha
    · rw [(validateResponseMode_ok hok).1]; exact ha
    · rcases defaultResponseMode_ok hok with ⟨_, e⟩ | ⟨_, m, _, _, e⟩
      · rw [e]; exact ha
      · rw [e]; exact ha
    · rw [(state_ok hok).1]; exact ha) a4 ⟨rfl, rfl, rfl, rfl⟩ ar oe h
  obtain ⟨_, ifm, _, _⟩ := hinv
  subst e4 e3 e2
  simp only at ifm
  exact ⟨a1, h1, ifm⟩

theorem newAuthorizeRequest_redirect_ro {cfg : Cfg} {lib : Lib} {clients : String → Option Client} {formOK : Bool}
    {form : Form} {ar : AR} {oe : Option Err} {s : String}
    (h : newAuthorizeRequest cfg lib clients formOK form = (ar, oe)) (hr : ar.redirect = some s) :
    ∃ c a1, clients (form.get "client_id") = some c ∧
      requestObjectStep lib c (initialAR c form) = .ok a1 ∧ ar.form = a1.form := by
  unfold newAuthorizeRequest at h
  split at h
  · cases h; cases hr
  · simp only at h
    split at h
    · cases h; cases hr
    · split at h
      · cases h; cases hr
      · rename_i c hc
        obtain ⟨a1, h1, hf⟩ := runSteps_redirect_ro h hr
        exact ⟨c, a1, hc, h1, hf⟩

/-- whichever writer runs: the parameter list of a request that carries a redirect URL reads like the spec's
    `effective` (every parameter but `scope`) -/
theorem written_form_eff {i : Input} {c : Client} (hc : i.clients (i.form.get "client_id") = some c) {s : String}
    (hr : (Props.C11.requestOf (authorize i)).redirect = some s) (k : String) (hk : k ≠ "scope") :
    (Props.C11.requestOf (authorize i)).form.get k = (effective i.lib c i.form).get k := by
  cases ha : authorize i with
  | failure ar e =>
    rw [ha] at hr
    obtain ⟨oe, hreq⟩ := authorize_failure_request ha
    obtain ⟨c', a1, hc', h1, hf⟩ := newAuthorizeRequest_redirect_ro hreq hr
    rw [hc] at hc'; cases hc'
    show ar.form.get k = _
    rw [hf]; exact requestObject_eff_get h1 k hk
  | success ar ps =>
    obtain ⟨_, _, c', a0, hc', hacc, ⟨fr, _, _⟩, _, _⟩ := authorize_success ha
    rw [hc] at hc'; cases hc'
    obtain ⟨a1, h1, hf, _⟩ := hacc.ro
    show ar.form.get k = _
    rw [fr.form, hf]; exact requestObject_eff_get h1 k hk

theorem matchTarget_of_ok {P : Parser} {raw s : String} {regs : List String}
    (h : matchRedirectURI P raw regs = .ok s) : Spec.matchTarget P raw regs = some s := by
  rw [Proofs.Redirect.match_eq] at h
  split at h
  · rename_i s' hs'; cases h; exact hs'
  · cases h

/-! ## what the writers put where -/

theorem respond_ownQueryKeys (i : Input) :
    (respond i).ownQueryKeys = (match (respond i).base with | some s => i.lib.queryKeys s | none => []) := by
  unfold respond
  cases authorize i with
  | success ar ps =>
    simp only [writeAuthorizeResponse]
    repeat' split
    all_goals simp_all
  | failure ar e =>
    simp only [writeAuthorizeError]
    repeat' split
    all_goals simp_all

theorem placement_query_iff (p : Placement) : (placementName p == "query") = true ↔ p = .query := by
  cases p <;> decide

theorem redirected_iff (p : Placement) :
    (placementName p == "query" || placementName p == "fragment" || placementName p == "form_post") = true ↔
      (p = .query ∨ p = .fragment ∨ p = .formPost) := by
  cases p <;> decide

theorem contains_paramNames (r : HTTPResp) (k : String) :
    r.paramNames.contains k = true ↔ ∃ v, (k, v) ∈ r.params := by
  unfold HTTPResp.paramNames
  simp only [List.contains_iff_mem, List.mem_map]
  constructor
  · rintro ⟨⟨k', v⟩, hm, rfl⟩; exact ⟨v, hm⟩
  · rintro ⟨v, hm⟩; exact ⟨(k, v), hm, rfl⟩

theorem contains_paramsAt {r : HTTPResp} {k : String} (hown : k ∉ r.ownQueryKeys) :
    (paramsAt r).contains k = true ↔ ∃ v, (k, v) ∈ r.params := by
  unfold paramsAt
  cases r.placement <;> simp only [contains_sortNames, List.contains_append, Bool.or_eq_true, contains_paramNames]
  simp only [List.contains_iff_mem]
  constructor
  · rintro (h | h)
    · exact h
    · exact absurd h hown
  · exact Or.inl

theorem contains_queryNames {r : HTTPResp} {k : String} (hown : k ∉ r.ownQueryKeys) :
    (sortNames r.queryNames).contains k = true ↔ (r.placement = .query ∧ ∃ v, (k, v) ∈ r.params) := by
  have hown' : r.ownQueryKeys.contains k = false := by
    cases h : r.ownQueryKeys.contains k
    · rfl
    · exact absurd (List.contains_iff_mem.1 h) hown
  rw [contains_sortNames]
  unfold HTTPResp.queryNames
  cases hp : r.placement
  · simp only [List.contains_append, hown', Bool.or_false, contains_paramNames]
    simp
  all_goals simp [hown]

theorem stateText_of {r : HTTPResp} {v : String} (hex : ∃ w, ("state", w) ∈ r.params)
    (hall : ∀ w, ("state", w) ∈ r.params → w = some v) : stateText r = some v := by
  unfold stateText
  obtain ⟨w, hw⟩ := hex
  cases hf : r.params.find? (fun p => p.1 == "state") with
  | none =>
    have := List.find?_eq_none.1 hf _ hw
    simp at this
  | some kv =>
    obtain ⟨k', v'⟩ := kv
    have hm := List.mem_of_find?_eq_some hf
    have hk := List.find?_some hf
    have hk' : k' = "state" := by simpa using hk
    subst hk'
    rw [hall v' hm]

/-! ## hypotheses -/

/-- The two facts about library parameters the monitor relies on. -/
structure CapHyp (i : Input) : Prop where
  /-- `url.ParseQuery` of the redirect URI the response is written to: its own query has no key named like one
      of the response parameters the monitor looks for (the monitor cannot tell such a key from a parameter) -/
  ownKeys : ∀ s, (respond i).base = some s →
    ∀ k ∈ i.lib.queryKeys s, k ≠ "access_token" ∧ k ≠ "id_token" ∧ k ≠ "code"
  /-- html/template keeps the form action (the redirect URI's scheme is http, https or mailto; otherwise the
      document posts to itself: finding reported with C11b, `WriterExample`) -/
  actionKept : (respond i).actionBlocked = false

theorem CapHyp.own {i : Input} (hyp : CapHyp i) :
    "access_token" ∉ (respond i).ownQueryKeys ∧ "id_token" ∉ (respond i).ownQueryKeys ∧
    "code" ∉ (respond i).ownQueryKeys := by
  rw [respond_ownQueryKeys]
  cases hb : (respond i).base with
  | none => simp
  | some s =>
    simp only
    refine ⟨fun h => (hyp.ownKeys s hb _ h).1 rfl, fun h => (hyp.ownKeys s hb _ h).2.1 rfl,
      fun h => (hyp.ownKeys s hb _ h).2.2 rfl⟩

/-! ## clause groups -/

/-- delivery: no token name in the query string, whatever the outcome -/
theorem tokens_clause (i : Input) (hyp : CapHyp i) :
    ¬ ((modelObs i).tokensInQuery = true ∨
       ((modelObs i).placement == "query") = true ∧
         ((modelObs i).params.contains "access_token" || (modelObs i).params.contains "id_token") = true ∨
       (modelObs i).query.contains "access_token" = true ∨ (modelObs i).query.contains "id_token" = true) := by
  obtain ⟨ha, hi, _⟩ := hyp.own
  have key : ∀ k, (k = "access_token" ∨ k = "id_token") →
      ¬ ((respond i).placement = .query ∧ ∃ v, (k, v) ∈ (respond i).params) := by
    intro k hk ⟨hq, v, hv⟩
    apply Props.C13.tokens_never_in_query i _ hq
    rcases hk with rfl | rfl
    · exact ⟨v, Or.inl hv⟩
    · exact ⟨v, Or.inr hv⟩
  have qa : ¬ (sortNames (respond i).queryNames).contains "access_token" = true :=
    fun h => key _ (Or.inl rfl) ((contains_queryNames ha).1 h)
  have qi : ¬ (sortNames (respond i).queryNames).contains "id_token" = true :=
    fun h => key _ (Or.inr rfl) ((contains_queryNames hi).1 h)
  rintro (h | ⟨hq, ht⟩ | h | h)
  · have h' : ((sortNames (respond i).queryNames).contains "access_token" ||
        (sortNames (respond i).queryNames).contains "id_token") = true := h
    rcases Bool.or_eq_true_iff.1 h' with h1 | h1
    · exact qa h1
    · exact qi h1
  · have hq' : (respond i).placement = .query := (placement_query_iff _).1 hq
    have ht' : ((paramsAt (respond i)).contains "access_token" || (paramsAt (respond i)).contains "id_token") = true := ht
    rcases Bool.or_eq_true_iff.1 ht' with h1 | h1
    · exact key _ (Or.inl rfl) ⟨hq', (contains_paramsAt ha).1 h1⟩
    · exact key _ (Or.inr rfl) ⟨hq', (contains_paramsAt hi).1 h1⟩
  · exact qa h
  · exact qi h

theorem modelObs_accepted_success {i : Input} {ar : AR} {ps : List Param} (ha : authorize i = .success ar ps) :
    (modelObs i).accepted = true := by
  unfold modelObs; simp only [ha]

theorem modelObs_accepted_failure {i : Input} {ar : AR} {e : Err} (ha : authorize i = .failure ar e) :
    (modelObs i).accepted = false := by
  unfold modelObs; simp only [ha]

theorem modelObs_redirected (i : Input) :
    (modelObs i).redirected = true ↔
      ((respond i).placement = .query ∨ (respond i).placement = .fragment ∨ (respond i).placement = .formPost) :=
  redirected_iff _

/-- unknown client: the error is rendered directly -/
theorem silent_unknown (i : Input) (hc : i.clients (i.form.get "client_id") = none) :
    violations i (modelObs i) = [] := by
  have hj := Props.C11.unknown_client_error_is_direct i hc
  apply violations_nil_of_none hc
  · cases ha : authorize i with
    | success ar ps =>
      obtain ⟨_, _, c, _, hc', _⟩ := authorize_success ha
      rw [hc] at hc'; cases hc'
    | failure ar e => exact modelObs_accepted_failure ha
  · cases h : (modelObs i).redirected with
    | false => rfl
    | true =>
      rcases (modelObs_redirected i).1 h with h1 | h1 | h1 <;> rw [hj] at h1 <;> cases h1
  · show ((sortNames (respond i).queryNames).contains "access_token" ||
        (sortNames (respond i).queryNames).contains "id_token") = false
    have : (respond i).queryNames = [] := by unfold HTTPResp.queryNames; rw [hj]
    rw [this]; rfl

/-- the spec's redirect target is the URL the request carries -/
theorem target_some {i : Input} {c : Client} (hc : i.clients (i.form.get "client_id") = some c) {s : String}
    (hr : (Props.C11.requestOf (authorize i)).redirect = some s) : redirectTarget i.lib c i.form = some s := by
  obtain ⟨c', hc', _, hm, _⟩ := Props.C11.outcome_redirect_validated i s hr
  rw [hc] at hc'; cases hc'
  rw [written_form_eff hc hr _ (by decide)] at hm
  exact matchTarget_of_ok hm

/-- acceptance: an OpenID Connect request carries a redirect_uri (scope in force: the object's plus the plain one) -/
theorem scope_clause {i : Input} {ar : AR} {ps : List Param} {c : Client} (ha : authorize i = .success ar ps)
    (hc : i.clients (i.form.get "client_id") = some c) :
    ¬ ("openid" ∈ effectiveScopes i.lib c i.form ∧ (effective i.lib c i.form).get "redirect_uri" = "") := by
  obtain ⟨_, _, c', a0, hc', hacc, _, _, _⟩ := authorize_success ha
  rw [hc] at hc'; cases hc'
  obtain ⟨a1, h1, hf, _⟩ := hacc.ro
  intro ⟨hop, hru⟩
  apply hacc.oidcRedirect
  refine ⟨?_, ?_⟩
  · rw [hf, requestObject_eff_get h1 _ (by decide)]; exact hru
  · rw [hacc.scopes, hf]
    apply argsHas_single_iff.2
    rcases requestObject_eff h1 with ⟨hn, hff⟩ | ⟨t, ht, hff⟩
    · rw [hff]
      unfold effectiveScopes at hop
      rw [hn] at hop
      exact ⟨"openid", hop, rfl⟩
    · rw [hff, form_get_set_same]
      have hw := words_merged (i.form.get "scope") ((effective i.lib c i.form).get "scope")
      unfold words at hw
      rw [hw]
      unfold effectiveScopes at hop
      rw [ht] at hop
      simp only at hop
      refine ⟨"openid", (mem_mergeScopes _ _ _).2 ?_, rfl⟩
      rcases List.mem_append.1 hop with h | h
      · exact Or.inl h
      · exact Or.inr h

theorem targetText_base {lib : Lib} {r : HTTPResp} {s : String} (h : r.base = some s) :
    targetText lib r = targetString (lib.P s) := by
  unfold targetText; rw [h]

/-- the request was accepted -/
theorem silent_success (i : Input) (hyp : CapHyp i) (c : Client) (hc : i.clients (i.form.get "client_id") = some c)
    (ar : AR) (ps : List Param) (ha : authorize i = .success ar ps) : violations i (modelObs i) = [] := by
  obtain ⟨hpar, _, hpl⟩ := respond_success i ar ps ha
  obtain ⟨hfo, c', hc', _, hrts, _, _, hmode, hst, hstlen, _, hnonce⟩ := Props.C13.accepted_request_is_valid i ar ps ha
  rw [hc] at hc'; cases hc'
  obtain ⟨s, hs, hbase⟩ := Props.C11.success_is_delivered_at_validated_uri i ar ps ha
  have hb : (respond i).base = some s := by
    rcases hbase with h | ⟨_, h⟩
    · exact h
    · rw [hyp.actionKept] at h; cases h
  have hreq : Props.C11.requestOf (authorize i) = ar := by rw [ha]; rfl
  have hred : (Props.C11.requestOf (authorize i)).redirect = some s := by rw [hreq]; exact hs
  have heff : ∀ k, k ≠ "scope" → ar.form.get k = (effective i.lib c i.form).get k := by
    intro k hk
    have := written_form_eff hc hred k hk
    rw [hreq] at this; exact this
  obtain ⟨oa, oi, oc⟩ := hyp.own
  have redir : (modelObs i).redirected = true := (modelObs_redirected i).2 hpl
  have pmem : ∀ k, k ∉ (respond i).ownQueryKeys → (modelObs i).params.contains k = true → ∃ v, (k, v) ∈ ps := by
    intro k hk h
    rw [← hpar]; exact (contains_paramsAt hk).1 h
  obtain ⟨hst1, hex, hall, _, _⟩ := Props.C13.state_echoed_on_success i ar ps ha
  have hstate : (modelObs i).state = some ((effective i.lib c i.form).get "state") := by
    show stateText (respond i) = _
    rw [← heff "state" (by decide), ← hst1]
    exact stateText_of (by rw [hpar]; exact hex) (by rw [hpar]; exact hall)
  have htarget := target_some hc hred
  apply violations_nil_of_some hc
  · exact fun h => h.2 hfo
  · exact fun h => h.2 (by
      rw [← heff _ (by decide)]; exact Props.C13.response_type_is_registered_set i ar ps ha c hc)
  · exact fun h => h.2 (by rw [← heff _ (by decide)]; exact hmode)
  · intro h
    have := h.2
    rw [← heff "state" (by decide)] at this
    omega
  · exact fun h => scope_clause ha hc h.2
  · intro ⟨_, hid, hlt⟩
    have := hnonce (pmem _ oi hid)
    rw [heff "nonce" (by decide)] at this
    omega
  · intro ⟨_, hat, hng⟩
    obtain ⟨c', hc', hg, _⟩ := Props.C13.implicit_grant_required_for_tokens_at_authorize i ar ps ha
    rw [hc] at hc'; cases hc'
    exact hng (hg (pmem _ oa hat))
  · intro ⟨_, hid, hnc, hng⟩
    obtain ⟨c', hc', hg⟩ := authorize_success_idt ha
    rw [hc] at hc'; cases hc'
    rcases hg (pHas_iff.2 (pmem _ oi hid)) with h | h
    · apply hnc
      show (paramsAt (respond i)).contains "code" = true
      rw [contains_paramsAt oc, hpar]
      exact pHas_iff.1 h
    · exact hng h
  · intro ⟨_, hcode, hlen, hng⟩
    have hlen' : 2 ≤ ar.responseTypes.length := by
      rw [hrts, heff "response_type" (by decide)]; exact hlen
    obtain ⟨c', hc', hg⟩ := Props.C13.code_needs_authorization_code_grant i ar ps ha (pmem _ oc hcode) hlen'
    rw [hc] at hc'; cases hc'
    exact hng hg
  · intro ⟨_, ho, hn, hnone⟩
    obtain ⟨c', t, hc', ht⟩ := Props.C13.named_request_object_is_verified i ar ps ha ho hn
    rw [hc] at hc'; cases hc'
    rw [ht] at hnone; cases hnone
  · exact tokens_clause i hyp
  · exact fun h => h.2 hstate
  · exact fun h => h.2 redir
  · intro ⟨_, hn⟩
    rw [htarget] at hn; cases hn
  · intro s' hs' ⟨_, hne⟩
    rw [htarget] at hs'; cases hs'
    exact hne (targetText_base hb)

/-- what `WriteAuthorizeError` writes when it redirects -/
theorem failure_redirected {i : Input} {ar : AR} {e : Err} (ha : authorize i = .failure ar e)
    (hr : (respond i).placement ≠ .json) :
    (respond i).params = [("error", none), ("error_description", none), ("state", some ar.state)] := by
  unfold respond at hr ⊢
  rw [ha] at hr ⊢
  simp only at hr ⊢
  have hvalid : isRedirectURIValid i.lib ar = true := by
    cases hv : isRedirectURIValid i.lib ar
    · simp [writeAuthorizeError, hv] at hr
    · rfl
  obtain ⟨s, hs⟩ : ∃ s, ar.redirect = some s := by
    cases hred : ar.redirect with
    | none => simp [isRedirectURIValid, hred] at hvalid
    | some s => exact ⟨s, rfl⟩
  simp only [writeAuthorizeError, hvalid, hs]
  simp only [Bool.not_true, Bool.false_eq_true, ↓reduceIte]
  repeat' split
  all_goals rfl

/-- the request was refused -/
theorem silent_failure (i : Input) (hyp : CapHyp i) (c : Client) (hc : i.clients (i.form.get "client_id") = some c)
    (ar : AR) (e : Err) (ha : authorize i = .failure ar e) : violations i (modelObs i) = [] := by
  have nacc : ¬ (modelObs i).accepted = true := by rw [modelObs_accepted_failure ha]; decide
  have hreq : Props.C11.requestOf (authorize i) = ar := by rw [ha]; rfl
  -- a redirected error: the request carries the validated URL, the response is written to it
  have hredir : (modelObs i).redirected = true →
      ∃ s, (Props.C11.requestOf (authorize i)).redirect = some s ∧ (respond i).base = some s ∧
        (respond i).placement ≠ .json := by
    intro h
    have hj : (respond i).placement ≠ .json := by
      rcases (modelObs_redirected i).1 h with h1 | h1 | h1 <;> rw [h1] <;> decide
    obtain ⟨_, s, _, hs, _, _, hb⟩ := (Props.C11.error_redirect_only_if_valid i ar e ha).1 hj
    refine ⟨s, by rw [hreq]; exact hs, ?_, hj⟩
    rcases hb with hb | ⟨_, hb⟩
    · exact hb
    · rw [hyp.actionKept] at hb; cases hb
  apply violations_nil_of_some hc
  · exact fun h => nacc h.1
  · exact fun h => nacc h.1
  · exact fun h => nacc h.1
  · exact fun h => nacc h.1
  · exact fun h => nacc h.1
  · exact fun h => nacc h.1
  · exact fun h => nacc h.1
  · exact fun h => nacc h.1
  · exact fun h => nacc h.1
  · exact fun h => nacc h.1
  · exact tokens_clause i hyp
  · intro ⟨hor, hne⟩
    rcases hor with h | h
    · exact nacc h
    · obtain ⟨s, hs, _, hj⟩ := hredir h
      apply hne
      show stateText (respond i) = _
      have hst := (Props.C13.state_echoed_on_redirected_error i ar e ha hj).2
      have hk := written_form_eff hc hs "state" (by decide)
      rw [hreq] at hk
      rw [← hk, ← hst]
      unfold stateText
      rw [failure_redirected ha hj]
      rfl
  · exact fun h => nacc h.1
  · intro ⟨h, hn⟩
    obtain ⟨s, hs, _, _⟩ := hredir h
    rw [target_some hc hs] at hn; cases hn
  · intro s' hs' ⟨h, hne⟩
    obtain ⟨s, hs, hb, _⟩ := hredir h
    rw [target_some hc hs] at hs'; cases hs'
    exact hne (targetText_base hb)

/-! ## the capstone -/

theorem silent (i : Input) (hyp : CapHyp i) : violations i (modelObs i) = [] := by
  cases hc : i.clients (i.form.get "client_id") with
  | none => exact silent_unknown i hc
  | some c =>
    cases ha : authorize i with
    | success ar ps => exact silent_success i hyp c hc ar ps ha
    | failure ar e => exact silent_failure i hyp c hc ar e ha

/-! ## two corollaries used by the property file -/

/-- The parameter list of an accepted request reads, for every parameter but `scope`, like the list the monitor
    computes on its own (`Spec.Authz.effective`); its `scope` contains the scope in force. -/
theorem accepted_form_eff (i : Input) (ar : AR) (ps : List Param)
    (ha : authorize i = .success ar ps) (c : Client) (hc : i.clients (i.form.get "client_id") = some c) :
    (∀ k, k ≠ "scope" → ar.form.get k = (effective i.lib c i.form).get k) ∧
    (∀ x, x ∈ effectiveScopes i.lib c i.form → x ∈ words (ar.form.get "scope")) := by
  obtain ⟨_, _, c', a0, hc', hacc, ⟨fr, _, _⟩, _, _⟩ := authorize_success ha
  rw [hc] at hc'; cases hc'
  obtain ⟨a1, h1, hf, _⟩ := hacc.ro
  refine ⟨fun k hk => by rw [fr.form, hf]; exact requestObject_eff_get h1 k hk, ?_⟩
  intro x hx
  rw [fr.form, hf]
  rcases requestObject_eff h1 with ⟨hn, hff⟩ | ⟨t, ht, hff⟩
  · rw [hff]
    unfold effectiveScopes at hx
    rw [hn] at hx
    exact hx
  · rw [hff, form_get_set_same, words_merged]
    unfold effectiveScopes at hx
    rw [ht] at hx
    simp only at hx
    apply (mem_mergeScopes _ _ _).2
    rcases List.mem_append.1 hx with h | h
    · exact Or.inl h
    · exact Or.inr h

/-- a template filter that keeps every action never blocks one -/
theorem actionKept_of_lib {i : Input} (h : ∀ s, i.lib.formActionKept s = true) :
    (respond i).actionBlocked = false := by
  unfold respond
  cases authorize i with
  | success ar ps =>
    simp only [writeAuthorizeResponse]
    repeat' split
    all_goals simp_all
  | failure ar e =>
    simp only [writeAuthorizeError]
    repeat' split
    all_goals simp_all

/-! ## the text round trip of the driver, evaluated on concrete op lines

  `roundTrip line accept` = for the op line: parsing the line `pureModelAuthz` prints (`decObs ∘ renderOutcome`)
  gives exactly `modelObs`; the monitor's answer on it is `[]`; `CapHyp` holds (its decidable form); and the
  verdict is the expected one.  (Evaluation, not proof: `String.splitOn` does not reduce in the kernel.) -/

def obsEq (a b : Obs) : Bool :=
  a.accepted == b.accepted && a.errName == b.errName && a.placement == b.placement && a.target == b.target &&
  a.params == b.params && a.query == b.query && a.state == b.state && a.tokensInQuery == b.tokensInQuery

def capHypB (i : Input) : Bool :=
  (match (respond i).base with
   | some s => (i.lib.queryKeys s).all (fun k => k != "access_token" && k != "id_token" && k != "code")
   | none => true) && !(respond i).actionBlocked

def roundTrip (line : String) (wantAccept : Bool) : Bool :=
  match line.splitOn "\t" with
  | "authz" :: _ :: rest =>
    match decOp rest with
    | some i =>
      match decObs (renderOutcome i) with
      | some o =>
        obsEq o (modelObs i) && (violations i (modelObs i)).isEmpty && capHypB i &&
        (modelObs i).accepted == wantAccept
      | none => false
    | none => false
  | _ => false

#guard roundTrip "authz\tcore\tcfg=,8,0,wildcard,0,0,0,0\tcl=,1,c1,0\tcrt=,code,token,id_token,code token,code id_token,id_token token,code id_token token\tcgt=,authorization_code,implicit\tcsc=,openid,a,b.*\tcru=,https://app.example/cb\tcaud=\tcrm=-\toidc=,,1\tjwks=,k1|sig|rsa|rsa1,k2|sig|ec|ec1\tcqu=,http://ro.example/obj\tbody=1\tform=,client_id,c1,response_type,code,scope,openid a,state,state-12345,redirect_uri,https://app.example/cb,nonce,nonce-12345\tro=-\trocl=\tsess=,peter,-100,-20\tgrant=all\tlw=\taudf=,,1\tpint=,,0\thint=\tft=\tu=https://app.example/cb\te=,1,https://app.example/cb,https,,app.example,app.example,,/cb,,,,0,1,,1\tu=\te=,1,,,,,,,,,,,0,0,,1" true
#guard roundTrip "authz\tcore\tcfg=,8,0,wildcard,0,0,0,0\tcl=,1,c1,0\tcrt=,code,token,id_token,code token,code id_token,id_token token,code id_token token\tcgt=,authorization_code,implicit\tcsc=,openid,a,b.*\tcru=,https://app.example/cb\tcaud=\tcrm=-\toidc=,,1\tjwks=,k1|sig|rsa|rsa1,k2|sig|ec|ec1\tcqu=,http://ro.example/obj\tbody=1\tform=,client_id,c1,response_type,token id_token,scope,openid a,state,state-12345,redirect_uri,https://app.example/cb,nonce,nonce-12345\tro=-\trocl=\tsess=,peter,-100,-20\tgrant=all\tlw=\taudf=,,1\tpint=,,0\thint=\tft=\tu=https://app.example/cb\te=,1,https://app.example/cb,https,,app.example,app.example,,/cb,,,,0,1,,1\tu=\te=,1,,,,,,,,,,,0,0,,1" true
#guard roundTrip "authz\tcore\tcfg=,8,0,wildcard,0,0,0,0\tcl=,1,c1,0\tcrt=,code,token,id_token,code token,code id_token,id_token token,code id_token token\tcgt=,authorization_code,implicit\tcsc=,openid,a,b.*\tcru=,https://app.example/cb\tcaud=\tcrm=,query,fragment,form_post\toidc=,,1\tjwks=,k1|sig|rsa|rsa1,k2|sig|ec|ec1\tcqu=,http://ro.example/obj\tbody=1\tform=,client_id,c1,response_type,code id_token,scope,openid a,state,state 12345,redirect_uri,https://app.example/cb,nonce,nonce-12345,response_mode,form_post\tro=-\trocl=\tsess=,peter,-100,-20\tgrant=all\tlw=\taudf=,,1\tpint=,,0\thint=\tft=\tu=https://app.example/cb\te=,1,https://app.example/cb,https,,app.example,app.example,,/cb,,,,0,1,,1\tu=\te=,1,,,,,,,,,,,0,0,,1" true
#guard roundTrip "authz\tcore\tcfg=,8,0,wildcard,0,0,0,0\tcl=,1,c1,0\tcrt=,code,token,id_token,code token,code id_token,id_token token,code id_token token\tcgt=,authorization_code,implicit\tcsc=,openid,a,b.*\tcru=,https://app.example/cb\tcaud=\tcrm=-\toidc=,,1\tjwks=,k1|sig|rsa|rsa1,k2|sig|ec|ec1\tcqu=,http://ro.example/obj\tbody=1\tform=,client_id,c1,response_type,,scope,a,state,state-12345,redirect_uri,https://app.example/cb\tro=-\trocl=\tsess=,peter,-100,-20\tgrant=all\tlw=\taudf=,,1\tpint=,,0\thint=\tft=\tu=https://app.example/cb\te=,1,https://app.example/cb,https,,app.example,app.example,,/cb,,,,0,1,,1\tu=\te=,1,,,,,,,,,,,0,0,,1" false
#guard roundTrip "authz\tcore\tcfg=,8,0,wildcard,0,0,0,0\tcl=,1,c1,0\tcrt=,code,token,id_token,code token,code id_token,id_token token,code id_token token\tcgt=,authorization_code,implicit\tcsc=,openid,a,b.*\tcru=,https://app.example/cb\tcaud=\tcrm=-\toidc=,,1\tjwks=,k1|sig|rsa|rsa1,k2|sig|ec|ec1\tcqu=,http://ro.example/obj\tbody=1\tform=,client_id,c1,response_type,token,scope,a,state,short,redirect_uri,https://app.example/cb\tro=-\trocl=\tsess=,peter,-100,-20\tgrant=all\tlw=\taudf=,,1\tpint=,,0\thint=\tft=\tu=https://app.example/cb\te=,1,https://app.example/cb,https,,app.example,app.example,,/cb,,,,0,1,,1\tu=\te=,1,,,,,,,,,,,0,0,,1" false
#guard roundTrip "authz\tcore\tcfg=,8,0,wildcard,0,0,0,0\tcl=,1,c1,0\tcrt=,code,token,id_token,code token,code id_token,id_token token,code id_token token\tcgt=,authorization_code,implicit\tcsc=,openid,a,b.*\tcru=,https://app.example/cb\tcaud=\tcrm=-\toidc=,,1\tjwks=,k1|sig|rsa|rsa1,k2|sig|ec|ec1\tcqu=,http://ro.example/obj\tbody=1\tform=,client_id,c1,response_type,code,scope,openid a,state,state-12345,redirect_uri,https://app.example/cb,nonce,nonce-12345,request,@RO\tro=,P,RS256,k1,rsa1,1\trocl=,state,claim-state-2,scope,b.x\tsess=,peter,-100,-20\tgrant=all\tlw=\taudf=,,1\tpint=,,0\thint=\tft=\tu=https://app.example/cb\te=,1,https://app.example/cb,https,,app.example,app.example,,/cb,,,,0,1,,1\tu=\te=,1,,,,,,,,,,,0,0,,1" true
#guard roundTrip "authz\tcore\tcfg=,8,0,wildcard,0,0,0,0\tcl=,1,c1,0\tcrt=,code,token,id_token,code token,code id_token,id_token token,code id_token token\tcgt=,authorization_code,implicit\tcsc=,openid,a,b.*\tcru=,https://app.example/cb\tcaud=\tcrm=-\toidc=,,1\tjwks=,k1|sig|rsa|rsa1,k2|sig|ec|ec1\tcqu=,http://ro.example/obj\tbody=1\tform=,client_id,c1,response_type,code,scope,openid a,state,state-12345,redirect_uri,https://app.example/cb,nonce,nonce-12345,request,@RO\tro=,P,RS256,k1,rsa2,1\trocl=,state,claim-state-2\tsess=,peter,-100,-20\tgrant=all\tlw=\taudf=,,1\tpint=,,0\thint=\tft=\tu=https://app.example/cb\te=,1,https://app.example/cb,https,,app.example,app.example,,/cb,,,,0,1,,1\tu=\te=,1,,,,,,,,,,,0,0,,1" false
#guard roundTrip "authz\tcore\tcfg=,8,0,wildcard,0,0,0,0\tcl=,1,c1,0\tcrt=,code,token,id_token,code token,code id_token,id_token token,code id_token token\tcgt=,authorization_code,implicit\tcsc=,openid,a,b.*\tcru=,https://app.example/cb\tcaud=\tcrm=-\toidc=,,1\tjwks=,k1|sig|rsa|rsa1,k2|sig|ec|ec1\tcqu=,http://ro.example/obj\tbody=1\tform=,client_id,nobody,response_type,code,scope,a,state,state-12345,redirect_uri,https://app.example/cb\tro=-\trocl=\tsess=,peter,-100,-20\tgrant=all\tlw=\taudf=,,1\tpint=,,0\thint=\tft=\tu=https://app.example/cb\te=,1,https://app.example/cb,https,,app.example,app.example,,/cb,,,,0,1,,1\tu=\te=,1,,,,,,,,,,,0,0,,1" false

end Fosite.Proofs.AuthzCap

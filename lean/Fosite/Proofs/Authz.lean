/-
  Lemmas about the authorization-endpoint model (`Model/AuthzRequest.lean`, `Model/AuthzWrite.lean`);
  the property theorems are in `Props/C13.lean` and `Props/C11b.lean`.
-/
import Fosite.Model.AuthzWrite
import Fosite.Spec.Authz
import Fosite.Proofs.Redirect
namespace Fosite.Proofs.Authz
open Fosite.Model Fosite.Model.Authz

/-! ### url.Values -/

theorem form_get_set_ne (f : Form) (k k' v : String) (h : k' ≠ k) : (f.set k v).get k' = f.get k' := by
  have hk : ((k == k') = false) := by simp [Ne.symm h]
  unfold Form.get Form.set
  simp only [List.find?_cons, hk]
  congr 1
  induction f with
  | nil => rfl
  | cons a as ih =>
    simp only [List.filter_cons]
    by_cases ha : a.1 = k
    · simp [ha, ih, hk]
    · simp [ha, List.find?_cons, ih]

/-! ### the steps of `newAuthorizeRequest`, one lemma per step: what a successful step established -/

theorem parseResponseMode_ok {a a' : AR} (h : parseResponseModeStep a = .ok a') :
    a' = { a with responseMode := a.form.get "response_mode" } ∧
    (a.form.get "response_mode" = "" ∨ a.form.get "response_mode" = "fragment" ∨
     a.form.get "response_mode" = "query" ∨ a.form.get "response_mode" = "form_post") := by
  unfold parseResponseModeStep at h
  simp only at h
  split at h
  · rename_i hc
    cases h
    refine ⟨rfl, ?_⟩
    simpa [or_assoc] using hc
  · cases h

theorem parseScope_ok {a a' : AR} (h : parseScopeStep a = .ok a') :
    a' = { a with requestedScopes := removeEmptySplit (a.form.get "scope") } := by
  unfold parseScopeStep at h; cases h; rfl

theorem validateRedirect_ok {lib : Lib} {c : Client} {a a' : AR} (h : validateRedirectStep lib c a = .ok a') :
    ∃ s, matchRedirectURI lib.P (a.form.get "redirect_uri") c.redirectURIs = .ok s ∧
      isValidRedirectURI (lib.P s) = true ∧ a' = { a with redirect := some s } ∧
      ¬ (a.form.get "redirect_uri" = "" ∧ argsHas lib.lower a.requestedScopes ["openid"] = true) := by
  unfold validateRedirectStep at h
  simp only at h
  split at h
  · cases h
  · rename_i hc
    split at h
    · cases h
    · rename_i s hs
      split at h
      · cases h
      · rename_i hv
        cases h
        refine ⟨s, hs, by simpa using hv, rfl, ?_⟩
        simpa using hc

theorem validateScope_ok {cfg : Cfg} {c : Client} {a a' : AR} (h : validateScopeStep cfg c a = .ok a') :
    a' = a ∧ a.requestedScopes.all (scopeAllowed cfg c) = true := by
  unfold validateScopeStep at h
  split at h
  · rename_i hc; cases h; exact ⟨rfl, hc⟩
  · cases h

theorem validateAudience_ok {lib : Lib} {a a' : AR} (h : validateAudienceStep lib a = .ok a') :
    a' = a ∧ lib.audienceOK (a.form.get "audience") = true := by
  unfold validateAudienceStep at h
  split at h
  · rename_i hc; cases h; exact ⟨rfl, hc⟩
  · cases h

theorem registration_ok {a a' : AR} (h : registrationStep a = .ok a') :
    a' = a ∧ a.form.get "registration" = "" := by
  unfold registrationStep at h
  split at h
  · cases h
  · rename_i hc; cases h; exact ⟨rfl, by simpa using hc⟩

theorem validateResponseTypes_ok {lib : Lib} {c : Client} {a a' : AR} (h : validateResponseTypesStep lib c a = .ok a') :
    a' = { a with responseTypes := removeEmptySplit (a.form.get "response_type") } ∧
    removeEmptySplit (a.form.get "response_type") ≠ [] ∧
    c.getResponseTypes.any (fun t => argsMatches lib.lower (removeEmptySplit (a.form.get "response_type")) (removeEmptySplit t)) = true := by
  unfold validateResponseTypesStep at h
  simp only at h
  split at h
  · cases h
  · rename_i hne
    split at h
    · rename_i hc; cases h
      exact ⟨rfl, by simpa using hne, hc⟩
    · cases h

theorem validateResponseMode_ok {c : Client} {a a' : AR} (h : validateResponseModeStep c a = .ok a') :
    a' = a ∧ (a.responseMode = "" ∨ ∃ ms, c.responseModes = some ms ∧ a.responseMode ∈ ms) := by
  unfold validateResponseModeStep at h
  split at h
  · rename_i hc; cases h; exact ⟨rfl, Or.inl (by simpa using hc)⟩
  · split at h
    · cases h
    · rename_i ms hms
      split at h
      · rename_i hc; cases h; exact ⟨rfl, Or.inr ⟨ms, hms, by simpa using hc⟩⟩
      · cases h

theorem defaultResponseMode_ok {a a' : AR} (h : defaultResponseModeStep a = .ok a') :
    (a.responseMode ≠ "" ∧ a' = a) ∨
    (a.responseMode = "" ∧ ∃ m, (m = "query" ∨ m = "fragment") ∧ (m = "query" ↔ argsExactOne a.responseTypes "code" = true) ∧
      a' = { a with responseMode := m, defaultResponseMode := m }) := by
  unfold defaultResponseModeStep at h
  split at h
  · rename_i hc
    have hc' : a.responseMode = "" := by simpa using hc
    right
    split at h
    · rename_i he; cases h
      exact ⟨hc', "query", Or.inl rfl, by simp [he], by simp [AR.setDefaultResponseMode, hc']⟩
    · rename_i he; cases h
      exact ⟨hc', "fragment", Or.inr rfl, by simp [he], by simp [AR.setDefaultResponseMode, hc']⟩
  · rename_i hc; cases h; exact Or.inl ⟨by simpa using hc, rfl⟩

theorem state_ok {cfg : Cfg} {a a' : AR} (h : stateStep cfg a = .ok a') :
    a' = a ∧ cfg.minEntropy ≤ blen a.state := by
  unfold stateStep at h
  split at h
  · cases h
  · rename_i hc; cases h; exact ⟨rfl, by omega⟩

/-- a successful run of the step list is a chain of successful steps -/
theorem runSteps_ok_cons {s : AR → Except Err AR} {ss : List (AR → Except Err AR)} {a ar : AR}
    (h : runSteps (s :: ss) a = (ar, none)) : ∃ a', s a = .ok a' ∧ runSteps ss a' = (ar, none) := by
  unfold runSteps at h
  split at h
  · cases h
  · rename_i a' ha; exact ⟨a', ha, h⟩

theorem runSteps_ok_nil {a ar : AR} (h : runSteps [] a = (ar, none)) : ar = a := by
  unfold runSteps at h; cases h; rfl


/-! ### request objects -/

theorem findPublicKey_some {kid : String} {set : List JWK} {rsa : Bool} {k : JWK}
    (h : findPublicKey kid set rsa = some k) :
    k ∈ set ∧ k.use = "sig" ∧ k.kty = (if rsa then KeyType.rsa else KeyType.ec) ∧ (kid ≠ "" → k.kid = kid) := by
  unfold findPublicKey at h
  by_cases he : set.isEmpty = true
  · simp [he] at h
  · simp only [he] at h
    by_cases hk : kid = ""
    · subst hk
      simp only [bne_self_eq_false] at h
      by_cases he2 : set.isEmpty = true
      · simp [he2] at h
      · simp only [Bool.false_eq_true, ↓reduceIte, he2] at h
        have hm := List.mem_of_find?_eq_some h
        have hp := List.find?_some h
        simp only [Bool.and_eq_true, beq_iff_eq] at hp
        exact ⟨hm, hp.1, hp.2, fun hne => absurd rfl hne⟩
    · have hk' : (kid != "") = true := by simpa using hk
      simp only [hk', ↓reduceIte] at h
      by_cases he2 : (set.filter (fun k => k.kid == kid)).isEmpty = true
      · simp [he2] at h
      · simp only [he2, Bool.false_eq_true, ↓reduceIte] at h
        have hm := List.mem_of_find?_eq_some h
        have hp := List.find?_some h
        simp only [Bool.and_eq_true, beq_iff_eq] at hp
        have hf := List.mem_filter.1 hm
        exact ⟨hf.1, hp.1, hp.2, fun _ => by simpa using hf.2⟩

theorem findClientPublicJWK_some {o : OIDCReg} {kid : String} {rsa : Bool} {k : JWK}
    (h : findClientPublicJWK o kid rsa = some k) :
    k ∈ Spec.Authz.registeredKeys o ∧ k.use = "sig" ∧ k.kty = (if rsa then KeyType.rsa else KeyType.ec) := by
  unfold findClientPublicJWK at h
  unfold Spec.Authz.registeredKeys
  split at h
  · rename_i set hset
    have := findPublicKey_some h
    simp only [hset]
    exact ⟨this.1, this.2.1, this.2.2.1⟩
  · rename_i hset
    simp only [hset]
    split at h
    · split at h
      · cases h
      · rename_i keys hk
        have : findPublicKey kid keys rsa = some k := by
          split at h
          · rename_i k' hk'; cases h; exact hk'
          · exact h
        have := findPublicKey_some this
        simp only [hk, Option.getD_some]
        exact ⟨this.1, this.2.1, this.2.2.1⟩
    · cases h

/-- a request object passes `verifyRequestObject` only if it parses, uses the registered algorithm (or the
    registration names none), its claims are valid, and — unless its algorithm is `none` — its signature was
    made by a registered signature key of the matching type -/
theorem verifyRequestObject_ok {lib : Lib} {o : OIDCReg} {s : String} {t : ParsedJWT}
    (h : verifyRequestObject lib o s = .ok t) :
    lib.jwtOf s = .parsed t ∧ (o.requestObjectSigningAlg = "" ∨ o.requestObjectSigningAlg = t.alg) ∧
    t.claimsValid = true ∧
    (t.alg = "none" ∨ ∃ k ∈ Spec.Authz.registeredKeys o, k.keyId = t.signedBy ∧ k.use = "sig") := by
  unfold verifyRequestObject at h
  split at h
  · cases h
  · rename_i t' ht'
    split at h
    · cases h
    · rename_i halg
      have halg' : o.requestObjectSigningAlg = "" ∨ o.requestObjectSigningAlg = t'.alg := by
        simp only [Bool.and_eq_true, bne_iff_ne, ne_eq, not_and, Decidable.not_not] at halg
        by_cases h0 : o.requestObjectSigningAlg = ""
        · exact Or.inl h0
        · exact Or.inr (halg h0)
      split at h
      · rename_i hfam
        split at h
        · cases h
        · rename_i hv; cases h
          refine ⟨ht', halg', by simpa using hv, Or.inl ?_⟩
          unfold algFamily at hfam
          split at hfam
          · rename_i hn; simpa using hn
          · split at hfam
            · cases hfam
            · split at hfam
              · cases hfam
              · split at hfam <;> cases hfam
      · cases h
      · split at h
        · cases h
        · rename_i key hkey
          split at h
          · cases h
          · rename_i hsig
            split at h
            · cases h
            · rename_i hv; cases h
              have hk := findClientPublicJWK_some hkey
              refine ⟨ht', halg', by simpa using hv, Or.inr ⟨key, hk.1, ?_, hk.2.1⟩⟩
              have : t.signedBy = key.keyId := by simpa using hsig
              exact this.symm

/-- what a successful `requestObjectStep` did: nothing (no OpenID Connect request, or no request object
    named), or it verified exactly one object and merged its claims -/
theorem requestObject_ok {lib : Lib} {c : Client} {a a' : AR} (h : requestObjectStep lib c a = .ok a') :
    (a' = a ∧ (argsHas lib.lower (removeEmptySplit (a.form.get "scope")) ["openid"] = false ∨
               (a.form.get "request" = "" ∧ a.form.get "request_uri" = ""))) ∨
    (argsHas lib.lower (removeEmptySplit (a.form.get "scope")) ["openid"] = true ∧
     ¬ (a.form.get "request" ≠ "" ∧ a.form.get "request_uri" ≠ "") ∧
     ¬ (a.form.get "request" = "" ∧ a.form.get "request_uri" = "") ∧
     ∃ o assertion t, c.oidc = some o ∧
       (a.form.get "request_uri" ≠ "" →
          a.form.get "request_uri" ∈ o.requestURIs ∧ lib.fetch (a.form.get "request_uri") = .body assertion) ∧
       (a.form.get "request_uri" = "" → assertion = a.form.get "request") ∧
       verifyRequestObject lib o assertion = .ok t ∧
       a'.client = a.client ∧ a'.redirect = a.redirect ∧ a'.responseTypes = a.responseTypes ∧
       a'.responseMode = a.responseMode ∧ a'.defaultResponseMode = a.defaultResponseMode ∧
       a'.requestedScopes = a.requestedScopes ∧ a'.handled = a.handled ∧
       a'.state = (t.claims.foldl (fun f kv => f.set kv.1 kv.2) a.form).get "state" ∧
       ∃ sc, a'.form = (t.claims.foldl (fun f kv => f.set kv.1 kv.2) a.form).set "scope" sc) := by
  unfold requestObjectStep at h
  simp only at h
  split at h
  · rename_i ho; cases h
    exact Or.inl ⟨rfl, Or.inl (by simpa using ho)⟩
  · rename_i ho
    have ho' : argsHas lib.lower (removeEmptySplit (a.form.get "scope")) ["openid"] = true := by simpa using ho
    split at h
    · rename_i hn; cases h
      exact Or.inl ⟨rfl, Or.inr (by simpa using hn)⟩
    · rename_i hnn
      split at h
      · cases h
      · rename_i hboth
        split at h
        · split at h <;> cases h
        · rename_i o ho2
          split at h
          · cases h
          · split at h
            · cases h
            · rename_i asn hasn
              split at h
              · cases h
              · rename_i t ht
                cases h
                refine Or.inr ⟨ho', by simpa using hboth, by simpa using hnn, o, asn, t, ho2, ?_, ?_, ht, rfl, rfl, rfl, rfl, rfl, rfl, rfl, rfl, _, rfl⟩
                · intro hru
                  have hru' : (a.form.get "request_uri" != "") = true := by simpa using hru
                  rw [if_pos hru'] at hasn
                  split at hasn
                  · cases hasn
                  · rename_i hw
                    split at hasn
                    · cases hasn
                    · cases hasn
                    · rename_i b hb; cases hasn
                      refine ⟨?_, hb⟩
                      simpa [sliceHas] using hw
                · intro hru
                  have hru' : ¬ (a.form.get "request_uri" != "") = true := by simpa using hru
                  rw [if_neg hru'] at hasn
                  cases hasn; rfl


/-! ### what `newAuthorizeRequest` established when it returns no error -/

/-- the request as it enters the step list -/
def initialAR (c : Client) (form : Form) : AR := { form := form, state := form.get "state", client := some c }

structure Accepted (cfg : Cfg) (lib : Lib) (c : Client) (form : Form) (ar : AR) : Prop where
  ro : ∃ a1, requestObjectStep lib c (initialAR c form) = .ok a1 ∧ ar.form = a1.form ∧ ar.state = a1.state
  client : ar.client = some c
  modeParam : ar.form.get "response_mode" = "" ∨ ar.form.get "response_mode" = "fragment" ∨
              ar.form.get "response_mode" = "query" ∨ ar.form.get "response_mode" = "form_post"
  scopes : ar.requestedScopes = removeEmptySplit (ar.form.get "scope")
  oidcRedirect : ¬ (ar.form.get "redirect_uri" = "" ∧ argsHas lib.lower ar.requestedScopes ["openid"] = true)
  redirect : ∃ s, matchRedirectURI lib.P (ar.form.get "redirect_uri") c.redirectURIs = .ok s ∧
               isValidRedirectURI (lib.P s) = true ∧ ar.redirect = some s
  scopesAllowed : ar.requestedScopes.all (scopeAllowed cfg c) = true
  audience : lib.audienceOK (ar.form.get "audience") = true
  registration : ar.form.get "registration" = ""
  rts : ar.responseTypes = removeEmptySplit (ar.form.get "response_type")
  rtsNonempty : ar.responseTypes ≠ []
  rtsRegistered : c.getResponseTypes.any (fun t => argsMatches lib.lower ar.responseTypes (removeEmptySplit t)) = true
  modeAllowed : ar.form.get "response_mode" = "" ∨ ∃ ms, c.responseModes = some ms ∧ ar.form.get "response_mode" ∈ ms
  mode : ar.responseMode =
    (if ar.form.get "response_mode" = "" then (if argsExactOne ar.responseTypes "code" = true then "query" else "fragment")
     else ar.form.get "response_mode")
  state : cfg.minEntropy ≤ blen ar.state
  handled : ar.handled = []

theorem steps_accepted {cfg : Cfg} {lib : Lib} {c : Client} {form : Form} {ar : AR}
    (h : runSteps (requestSteps cfg lib c) (initialAR c form) = (ar, none)) : Accepted cfg lib c form ar := by
  unfold requestSteps at h
  obtain ⟨a1, h1, h⟩ := runSteps_ok_cons h
  obtain ⟨a2, h2, h⟩ := runSteps_ok_cons h
  obtain ⟨a3, h3, h⟩ := runSteps_ok_cons h
  obtain ⟨a4, h4, h⟩ := runSteps_ok_cons h
  obtain ⟨a5, h5, h⟩ := runSteps_ok_cons h
  obtain ⟨a6, h6, h⟩ := runSteps_ok_cons h
  obtain ⟨a7, h7, h⟩ := runSteps_ok_cons h
  obtain ⟨a8, h8, h⟩ := runSteps_ok_cons h
  obtain ⟨a9, h9, h⟩ := runSteps_ok_cons h
  obtain ⟨a10, h10, h⟩ := runSteps_ok_cons h
  obtain ⟨a11, h11, h⟩ := runSteps_ok_cons h
  have hfin := runSteps_ok_nil h
  subst hfin
  -- the fields the request-object step leaves alone
  have hro : a1.client = some c ∧ a1.redirect = none ∧ a1.responseTypes = [] ∧ a1.responseMode = "" ∧
      a1.defaultResponseMode = "" ∧ a1.requestedScopes = [] ∧ a1.handled = [] := by
    rcases requestObject_ok h1 with ⟨he, _⟩ | ⟨_, _, _, o, asn, t, _, _, _, _, e1, e2, e3, e4, e5, e6, e7, _⟩
    · subst he; exact ⟨rfl, rfl, rfl, rfl, rfl, rfl, rfl⟩
    · exact ⟨e1, e2, e3, e4, e5, e6, e7⟩
  obtain ⟨e2, hm⟩ := parseResponseMode_ok h2
  have e3 := parseScope_ok h3
  obtain ⟨s, hs, hv, e4, hor⟩ := validateRedirect_ok h4
  obtain ⟨e5, hsc⟩ := validateScope_ok h5
  obtain ⟨e6, haud⟩ := validateAudience_ok h6
  obtain ⟨e7, hreg⟩ := registration_ok h7
  obtain ⟨e8, hne, hrt⟩ := validateResponseTypes_ok h8
  obtain ⟨e9, hma⟩ := validateResponseMode_ok h9
  obtain ⟨e11, hst⟩ := state_ok h11
  subst e11 e9 e8 e7 e6 e5 e4 e3 e2
  simp only at hor hsc haud hreg hne hrt hma hst hs hv
  rcases defaultResponseMode_ok h10 with ⟨hmne, e10⟩ | ⟨hme, m, hmq, hmi, e10⟩
  · subst e10
    simp only at hmne
    exact { ro := ⟨a1, h1, rfl, rfl⟩, client := hro.1, modeParam := hm, scopes := rfl, oidcRedirect := hor,
            redirect := ⟨s, hs, hv, rfl⟩, scopesAllowed := hsc, audience := haud, registration := hreg, rts := rfl,
            rtsNonempty := hne, rtsRegistered := hrt, modeAllowed := hma, mode := by simp [hmne],
            state := hst, handled := hro.2.2.2.2.2.2 }
  · subst e10
    simp only at hme hmi
    exact { ro := ⟨a1, h1, rfl, rfl⟩, client := hro.1, modeParam := hm, scopes := rfl, oidcRedirect := hor,
            redirect := ⟨s, hs, hv, rfl⟩, scopesAllowed := hsc, audience := haud, registration := hreg, rts := rfl,
            rtsNonempty := hne, rtsRegistered := hrt, modeAllowed := hma,
            mode := by
              simp only [hme, ↓reduceIte]
              rcases hmq with hq | hf
              · subst hq; simp [hmi.1 rfl]
              · subst hf
                have : ¬ argsExactOne (removeEmptySplit (a1.form.get "response_type")) "code" = true := by
                  intro hx; have := hmi.2 hx; simp at this
                simp [this],
            state := hst, handled := hro.2.2.2.2.2.2 }

/-- `newAuthorizeRequest` without error: the body parsed, PAR is not enforced, the client exists and the
    step list ran through -/
theorem newAuthorizeRequest_ok {cfg : Cfg} {lib : Lib} {clients : String → Option Client} {formOK : Bool}
    {form : Form} {ar : AR} (h : newAuthorizeRequest cfg lib clients formOK form = (ar, none)) :
    formOK = true ∧ cfg.enforcePAR = false ∧
    ∃ c, clients (form.get "client_id") = some c ∧ Accepted cfg lib c form ar := by
  unfold newAuthorizeRequest at h
  split at h
  · cases h
  · rename_i hf
    simp only at h
    split at h
    · cases h
    · rename_i hp
      split at h
      · cases h
      · rename_i c hc
        exact ⟨by simpa using hf, by simpa using hp, c, hc, steps_accepted h⟩

theorem runSteps_cases {s : AR → Except Err AR} {ss : List (AR → Except Err AR)} {a ar : AR} {oe : Option Err}
    (h : runSteps (s :: ss) a = (ar, oe)) :
    (∃ e, s a = .error e ∧ ar = a ∧ oe = some e) ∨ (∃ a', s a = .ok a' ∧ runSteps ss a' = (ar, oe)) := by
  unfold runSteps at h
  split at h
  · rename_i e he; cases h; exact Or.inl ⟨e, he, rfl, rfl⟩
  · rename_i a' ha; exact Or.inr ⟨a', ha, h⟩

/-- an invariant of every step is an invariant of the returned request, with or without error -/
theorem runSteps_inv (I : AR → Prop) :
    ∀ (steps : List (AR → Except Err AR)), (∀ s ∈ steps, ∀ a a', I a → s a = .ok a' → I a') →
    ∀ a, I a → ∀ ar oe, runSteps steps a = (ar, oe) → I ar
  | [], _, a, ha, ar, oe, h => by unfold runSteps at h; cases h; exact ha
  | s :: ss, hp, a, ha, ar, oe, h => by
    rcases runSteps_cases h with ⟨e, _, har, _⟩ | ⟨a', hs, hrest⟩
    · subst har; exact ha
    · exact runSteps_inv I ss (fun s' hs' => hp s' (List.mem_cons_of_mem _ hs')) a'
        (hp s List.mem_cons_self a a' ha hs) ar oe hrest

/-- the part of a request the later steps never touch -/
def sameRedirect (b a : AR) : Prop :=
  a.client = b.client ∧ a.form = b.form ∧ a.redirect = b.redirect ∧ a.state = b.state

/-- whatever `newAuthorizeRequest` returns, a request that carries a redirect URL got it from a
    successful `validateAuthorizeRedirectURI` for its client -/
theorem runSteps_redirect {cfg : Cfg} {lib : Lib} {c : Client} {form : Form} {ar : AR} {oe : Option Err} {s : String}
    (h : runSteps (requestSteps cfg lib c) (initialAR c form) = (ar, oe)) (hr : ar.redirect = some s) :
    ar.client = some c ∧ matchRedirectURI lib.P (ar.form.get "redirect_uri") c.redirectURIs = .ok s ∧
    isValidRedirectURI (lib.P s) = true ∧ ar.state = ar.form.get "state" := by
  unfold requestSteps at h
  have h0 : (initialAR c form).redirect = none := rfl
  rcases runSteps_cases h with ⟨_, _, har, _⟩ | ⟨a1, h1, h⟩
  · subst har; rw [h0] at hr; cases hr
  have hro : a1.client = some c ∧ a1.redirect = none ∧ a1.state = a1.form.get "state" := by
    rcases requestObject_ok h1 with ⟨he, _⟩ | ⟨_, _, _, o, asn, t, _, _, _, _, e1, e2, _, _, _, _, _, est, sc, ef⟩
    · subst he; exact ⟨rfl, rfl, rfl⟩
    · refine ⟨e1, e2, ?_⟩
      rw [est, ef, form_get_set_ne _ _ _ _ (by decide)]
  rcases runSteps_cases h with ⟨_, _, har, _⟩ | ⟨a2, h2, h⟩
  · subst har; rw [hro.2.1] at hr; cases hr
  obtain ⟨e2, _⟩ := parseResponseMode_ok h2
  rcases runSteps_cases h with ⟨_, _, har, _⟩ | ⟨a3, h3, h⟩
  · subst har e2; simp only at hr; rw [hro.2.1] at hr; cases hr
  have e3 := parseScope_ok h3
  rcases runSteps_cases h with ⟨_, _, har, _⟩ | ⟨a4, h4, h⟩
  · subst har e3 e2; simp only at hr; rw [hro.2.1] at hr; cases hr
  obtain ⟨s', hs', hv', e4, _⟩ := validateRedirect_ok h4
  -- the remaining steps keep client, form, redirect URL and state
  have hinv := runSteps_inv (sameRedirect a4) _ (by
    intro st hst a a' ha hok
    simp only [List.mem_cons, List.mem_nil_iff, or_false] at hst
    rcases hst with rfl | rfl | rfl | rfl | rfl | rfl | rfl
    · rw [(validateScope_ok hok).1]; exact ha
    · rw [(validateAudience_ok hok).1]; exact ha
    · rw [(registration_ok hok).1]; exact ha
    · rw [(validateResponseTypes_ok hok).1]; exact ha
    · rw [(validateResponseMode_ok hok).1]; exact ha
    · rcases defaultResponseMode_ok hok with ⟨_, e⟩ | ⟨_, m, _, _, e⟩
      · rw [e]; exact ha
      · rw [e]; exact ha
    · rw [(state_ok hok).1]; exact ha) a4 ⟨rfl, rfl, rfl, rfl⟩ ar oe h
  obtain ⟨ic, ifm, ir, ist⟩ := hinv
  subst e4 e3 e2
  simp only at ic ifm ir ist hs'
  rw [ir] at hr
  cases hr
  rw [ic, ifm, ist]
  exact ⟨hro.1, hs', hv', hro.2.2⟩


/-! ### the handlers of `NewAuthorizeResponse`: invariants of the response under construction -/

def pHas (ps : List Param) (k : String) : Bool := ps.any (fun p => p.1 == k)

theorem has_eq (h : HS) (k : String) : h.has k = pHas h.params k := rfl

@[simp] theorem pHas_nil (k : String) : pHas [] k = false := rfl
@[simp] theorem pHas_append (ps qs : List Param) (k : String) : pHas (ps ++ qs) k = (pHas ps k || pHas qs k) := by
  simp [pHas]
@[simp] theorem pHas_single (k k' : String) (v : Option String) : pHas [(k', v)] k = (k' == k) := by
  simp [pHas]

@[simp] theorem add_params (h : HS) (k : String) (v : Option String) : (h.add k v).params = h.params ++ [(k, v)] := rfl
@[simp] theorem add_ar (h : HS) (k : String) (v : Option String) : (h.add k v).ar = h.ar := rfl
@[simp] theorem handle_params (h : HS) (rt : String) : (h.handle rt).params = h.params := rfl
@[simp] theorem setDefault_params (h : HS) (m : String) : (h.setDefault m).params = h.params := rfl
@[simp] theorem handle_ar (h : HS) (rt : String) : (h.handle rt).ar = { h.ar with handled := h.ar.handled ++ [rt] } := rfl
@[simp] theorem setDefault_ar (h : HS) (m : String) : (h.setDefault m).ar = h.ar.setDefaultResponseMode m := rfl
@[simp] theorem sdrm_client (a : AR) (m : String) : (a.setDefaultResponseMode m).client = a.client := rfl
@[simp] theorem sdrm_form (a : AR) (m : String) : (a.setDefaultResponseMode m).form = a.form := rfl
@[simp] theorem sdrm_state (a : AR) (m : String) : (a.setDefaultResponseMode m).state = a.state := rfl
@[simp] theorem sdrm_redirect (a : AR) (m : String) : (a.setDefaultResponseMode m).redirect = a.redirect := rfl
@[simp] theorem sdrm_rts (a : AR) (m : String) : (a.setDefaultResponseMode m).responseTypes = a.responseTypes := rfl
@[simp] theorem sdrm_scopes (a : AR) (m : String) : (a.setDefaultResponseMode m).requestedScopes = a.requestedScopes := rfl
@[simp] theorem sdrm_handled (a : AR) (m : String) : (a.setDefaultResponseMode m).handled = a.handled := rfl
@[simp] theorem sdrm_default (a : AR) (m : String) : (a.setDefaultResponseMode m).defaultResponseMode = m := rfl
theorem sdrm_mode (a : AR) (m : String) (h : a.responseMode ≠ "") : (a.setDefaultResponseMode m).responseMode = a.responseMode := by
  simp [AR.setDefaultResponseMode, h]

/-- the parameters a successful authorization response can carry -/
def respParamNames : List String := ["code", "state", "scope", "access_token", "expires_in", "token_type", "id_token"]

/-- every `state` parameter carries the value `s` -/
def allState (s : String) (ps : List Param) : Bool := ps.all (fun p => p.1 != "state" || p.2 == some s)
/-- only known parameter names -/
def namesOK (ps : List Param) : Bool := ps.all (fun p => respParamNames.contains p.1)

@[simp] theorem pHas_cons (k k' : String) (v : Option String) (ps : List Param) :
    pHas ((k', v) :: ps) k = (k' == k || pHas ps k) := by simp [pHas]
@[simp] theorem allState_nil (s : String) : allState s [] = true := rfl
@[simp] theorem allState_cons (s k : String) (v : Option String) (ps : List Param) :
    allState s ((k, v) :: ps) = ((k != "state" || v == some s) && allState s ps) := by simp [allState]
@[simp] theorem namesOK_nil : namesOK [] = true := rfl
@[simp] theorem namesOK_cons (k : String) (v : Option String) (ps : List Param) :
    namesOK ((k, v) :: ps) = (respParamNames.contains k && namesOK ps) := by simp [namesOK]
@[simp] theorem allState_append (s : String) (ps qs : List Param) :
    allState s (ps ++ qs) = (allState s ps && allState s qs) := by simp [allState]
@[simp] theorem allState_single (s k : String) (v : Option String) :
    allState s [(k, v)] = (k != "state" || v == some s) := by simp [allState]
@[simp] theorem namesOK_append (ps qs : List Param) : namesOK (ps ++ qs) = (namesOK ps && namesOK qs) := by
  simp [namesOK]
@[simp] theorem namesOK_single (k : String) (v : Option String) : namesOK [(k, v)] = respParamNames.contains k := by
  simp [namesOK]

/-- the request fields no handler touches -/
structure Frame (a0 : AR) (h : HS) : Prop where
  client : h.ar.client = a0.client
  form : h.ar.form = a0.form
  state : h.ar.state = a0.state
  redirect : h.ar.redirect = a0.redirect
  rts : h.ar.responseTypes = a0.responseTypes
  scopes : h.ar.requestedScopes = a0.requestedScopes
  mode : h.ar.responseMode = a0.responseMode

/-- delivery invariants -/
structure Deliv (a0 : AR) (h : HS) : Prop where
  tok : (pHas h.params "access_token" = true ∨ pHas h.params "id_token" = true) → h.ar.defaultResponseMode = "fragment"
  st : allState a0.state h.params = true
  hst : h.ar.handled ≠ [] → pHas h.params "state" = true
  names : namesOK h.params = true

/-- grant and nonce invariants -/
structure Gate (x : Ctx) (a0 : AR) (h : HS) : Prop where
  atk : pHas h.params "access_token" = true → argsHas x.lib.lower x.client.getGrantTypes ["implicit"] = true
  idt : pHas h.params "id_token" = true → x.cfg.minEntropy ≤ blen (a0.form.get "nonce") ∧
    (argsHas x.lib.lower a0.responseTypes ["code"] = false → argsHas x.lib.lower x.client.getGrantTypes ["implicit"] = true)
  code : pHas h.params "code" = true → 2 ≤ a0.responseTypes.length →
    argsHas x.lib.lower x.client.getGrantTypes ["authorization_code"] = true

def HInv (x : Ctx) (a0 : AR) (h : HS) : Prop := Frame a0 h ∧ Deliv a0 h ∧ Gate x a0 h

theorem generateIDToken_ok {x : Ctx} {ar : AR} (h : generateIDToken x ar = .ok ()) :
    ¬ (0 < blen (ar.form.get "nonce") ∧ blen (ar.form.get "nonce") < x.cfg.minEntropy) := by
  unfold generateIDToken at h
  split at h
  · cases h
  · split at h
    · cases h
    · split at h
      · cases h
      · rename_i hn
        simpa using hn

theorem hImplicit_inv (x : Ctx) (a0 : AR) (hm : a0.responseMode ≠ "") (h h' : HS) (hi : HInv x a0 h)
    (hr : hImplicit x h = .ok h') : HInv x a0 h' := by
  obtain ⟨⟨f1, f2, f3, f4, f5, f6, f7⟩, ⟨d1, d2, d3, d4⟩, ⟨g1, g2, g3⟩⟩ := hi
  have hm' : h.ar.responseMode ≠ "" := by rw [f7]; exact hm
  simp only [hImplicit] at hr
  repeat' (split at hr)
  all_goals (first | cases hr | skip)
  · exact ⟨⟨f1, f2, f3, f4, f5, f6, f7⟩, ⟨d1, d2, d3, d4⟩, ⟨g1, g2, g3⟩⟩
  · refine ⟨⟨?_, ?_, ?_, ?_, ?_, ?_, ?_⟩, ⟨?_, ?_, ?_, ?_⟩, ⟨?_, ?_, ?_⟩⟩ <;>
      simp_all [issueImplicitAccessToken, sdrm_mode, respParamNames]

theorem exactOne_length {r : List String} {n : String} (h : argsExactOne r n = true) : r.length = 1 := by
  unfold argsExactOne at h
  split at h
  · rfl
  · cases h

theorem hExplicit_inv (x : Ctx) (a0 : AR) (hm : a0.responseMode ≠ "") (h' : HS)
    (hr : hExplicit x { ar := a0 } = .ok h') (h0 : a0.handled = []) : HInv x a0 h' := by
  by_cases he : argsExactOne a0.responseTypes "code" = true
  · have hl : a0.responseTypes.length = 1 := exactOne_length he
    simp only [hExplicit] at hr
    repeat' (split at hr)
    all_goals (first | cases hr | skip)
    all_goals (refine ⟨⟨?_, ?_, ?_, ?_, ?_, ?_, ?_⟩, ⟨?_, ?_, ?_, ?_⟩, ⟨?_, ?_, ?_⟩⟩ <;>
        simp_all [sdrm_mode, respParamNames])
  · simp only [hExplicit, he] at hr
    cases hr
    refine ⟨⟨?_, ?_, ?_, ?_, ?_, ?_, ?_⟩, ⟨?_, ?_, ?_, ?_⟩, ⟨?_, ?_, ?_⟩⟩ <;> simp_all

theorem hOIDCExplicit_inv (x : Ctx) (a0 : AR) (h h' : HS) (hi : HInv x a0 h)
    (hr : hOIDCExplicit x h = .ok h') : HInv x a0 h' := by
  simp only [hOIDCExplicit] at hr
  repeat' (split at hr)
  all_goals (first | cases hr | skip)
  all_goals exact hi

theorem hPKCE_inv (x : Ctx) (a0 : AR) (h h' : HS) (hi : HInv x a0 h)
    (hr : hPKCE x h = .ok h') : HInv x a0 h' := by
  simp only [hPKCE] at hr
  repeat' (split at hr)
  all_goals (first | cases hr | skip)
  all_goals exact hi

theorem hOIDCImplicit_inv (x : Ctx) (a0 : AR) (hm : a0.responseMode ≠ "") (h h' : HS) (hi : HInv x a0 h)
    (hr : hOIDCImplicit x h = .ok h') : HInv x a0 h' := by
  have hi' := hi
  obtain ⟨⟨f1, f2, f3, f4, f5, f6, f7⟩, ⟨d1, d2, d3, d4⟩, ⟨g1, g2, g3⟩⟩ := hi
  have hm' : h.ar.responseMode ≠ "" := by rw [f7]; exact hm
  by_cases ht : argsHas x.lib.lower a0.responseTypes ["token"] = true
  · simp only [hOIDCImplicit, setDefault_ar, f5, ht, ↓reduceIte] at hr
    split at hr
    · cases hr; exact hi'
    split at hr
    · cases hr; exact hi'
    repeat' (split at hr)
    all_goals (first | cases hr | skip)
    all_goals (refine ⟨⟨?_, ?_, ?_, ?_, ?_, ?_, ?_⟩, ⟨?_, ?_, ?_, ?_⟩, ⟨?_, ?_, ?_⟩⟩ <;>
        simp_all [issueImplicitAccessToken, sdrm_mode, respParamNames])
  · simp only [hOIDCImplicit, setDefault_ar, f5, ht] at hr
    split at hr
    · cases hr; exact hi'
    split at hr
    · cases hr; exact hi'
    repeat' (split at hr)
    all_goals (first | cases hr | skip)
    all_goals (refine ⟨⟨?_, ?_, ?_, ?_, ?_, ?_, ?_⟩, ⟨?_, ?_, ?_, ?_⟩, ⟨?_, ?_, ?_⟩⟩ <;>
        simp_all [issueImplicitAccessToken, sdrm_mode, respParamNames])

theorem argsMatches_all {lower : String → String} {r items : List String} (h : argsMatches lower r items = true) :
    items.all (fun i => stringInSlice lower i r) = true := by
  unfold argsMatches at h
  split at h
  · cases h
  · split at h
    · cases h
    · rename_i ha; simpa using ha

theorem hybrid_has_code {lower : String → String} {rts : List String}
    (h : (argsMatches lower rts ["token", "id_token", "code"] || argsMatches lower rts ["token", "code"] ||
          argsMatches lower rts ["id_token", "code"]) = true) : argsHas lower rts ["code"] = true := by
  simp only [Bool.or_eq_true] at h
  unfold argsHas
  rcases h with (h | h) | h <;> have := argsMatches_all h <;> simp_all

theorem hHybrid_inv (x : Ctx) (a0 : AR) (hm : a0.responseMode ≠ "") (h h' : HS) (hi : HInv x a0 h)
    (hr : hHybrid x h = .ok h') : HInv x a0 h' := by
  have hi' := hi
  obtain ⟨⟨f1, f2, f3, f4, f5, f6, f7⟩, ⟨d1, d2, d3, d4⟩, ⟨g1, g2, g3⟩⟩ := hi
  have hm' : h.ar.responseMode ≠ "" := by rw [f7]; exact hm
  by_cases hl : a0.responseTypes.length < 2
  · simp only [hHybrid, f5, hl, ↓reduceIte] at hr
    cases hr; exact hi'
  by_cases hmt : (argsMatches x.lib.lower a0.responseTypes ["token", "id_token", "code"] ||
      argsMatches x.lib.lower a0.responseTypes ["token", "code"] ||
      argsMatches x.lib.lower a0.responseTypes ["id_token", "code"]) = true
  · have hc := hybrid_has_code hmt
    have hl' : 2 ≤ a0.responseTypes.length := by omega
    by_cases ht : argsHas x.lib.lower a0.responseTypes ["token"] = true <;>
    by_cases hs : pHas h.params "state" = true
    all_goals (
      simp only [hHybrid, setDefault_ar, sdrm_rts, sdrm_form, sdrm_state, f5, f2, f3, hl, hmt, hc, ht, hs, ↓reduceIte, has_eq,
        Bool.not_true, Bool.false_eq_true, Bool.true_and, Bool.false_and, add_params, add_ar, handle_params, handle_ar,
        setDefault_params, issueImplicitAccessToken, pHas_append, pHas_cons, pHas_nil] at hr
      simp at hr
      repeat' (split at hr)
      all_goals (first | cases hr | skip)
      all_goals (refine ⟨⟨?_, ?_, ?_, ?_, ?_, ?_, ?_⟩, ⟨?_, ?_, ?_, ?_⟩, ⟨?_, ?_, ?_⟩⟩ <;>
          simp_all [sdrm_mode, respParamNames] <;> try omega))
  · simp only [hHybrid, f5, hl, hmt, ↓reduceIte] at hr
    simp at hr
    cases hr; exact hi'

theorem runHandlers_cons {f : HS → Except Err HS} {fs : List (HS → Except Err HS)} {h h' : HS}
    (hr : runHandlers (f :: fs) h = .ok h') : ∃ h1, f h = .ok h1 ∧ runHandlers fs h1 = .ok h' := by
  unfold runHandlers at hr
  split at hr
  · cases hr
  · rename_i h1 h1e; exact ⟨h1, h1e, hr⟩

/-- the invariants hold after the six handlers of `compose.ComposeAllEnabled` -/
theorem handlers_inv (x : Ctx) (a0 : AR) (hm : a0.responseMode ≠ "") (h0 : a0.handled = []) (h' : HS)
    (hr : runHandlers (handlers x) { ar := a0 } = .ok h') : HInv x a0 h' := by
  unfold handlers at hr
  obtain ⟨h1, e1, hr⟩ := runHandlers_cons hr
  obtain ⟨h2, e2, hr⟩ := runHandlers_cons hr
  obtain ⟨h3, e3, hr⟩ := runHandlers_cons hr
  obtain ⟨h4, e4, hr⟩ := runHandlers_cons hr
  obtain ⟨h5, e5, hr⟩ := runHandlers_cons hr
  obtain ⟨h6, e6, hr⟩ := runHandlers_cons hr
  unfold runHandlers at hr
  cases hr
  have i1 := hExplicit_inv x a0 hm h1 e1 h0
  have i2 := hImplicit_inv x a0 hm h1 h2 i1 e2
  have i3 := hOIDCExplicit_inv x a0 h2 h3 i2 e3
  have i4 := hOIDCImplicit_inv x a0 hm h3 h4 i3 e4
  have i5 := hHybrid_inv x a0 hm h4 h5 i4 e5
  exact hPKCE_inv x a0 h5 _ i5 e6

/-- `NewAuthorizeResponse` without error -/
theorem newAuthorizeResponse_ok (x : Ctx) (a0 : AR) (hm : a0.responseMode ≠ "") (h0 : a0.handled = []) (h : HS)
    (hr : newAuthorizeResponse x a0 = .ok h) :
    HInv x a0 h ∧ didHandleAll x.lib.lower h.ar = true ∧
    ¬ (h.ar.defaultResponseMode = "fragment" ∧ h.ar.responseMode = "query") := by
  unfold newAuthorizeResponse at hr
  split at hr
  · cases hr
  · rename_i h1 e1
    split at hr
    · cases hr
    · rename_i hd
      split at hr
      · cases hr
      · rename_i hq
        cases hr
        exact ⟨handlers_inv x a0 hm h0 h e1, by simpa using hd, by simpa using hq⟩

theorem didHandleAll_handled {lower : String → String} {ar : AR} (h : didHandleAll lower ar = true) : ar.handled ≠ [] := by
  unfold didHandleAll at h
  simp only [Bool.and_eq_true, decide_eq_true_eq] at h
  intro hn
  obtain ⟨hall, hlen⟩ := h
  cases hrt : ar.responseTypes with
  | nil => rw [hrt] at hlen; simp at hlen
  | cons r rs =>
    rw [hrt] at hall
    simp [argsHas, stringInSlice, hn] at hall

/-! ### the endpoint -/

theorem accepted_mode_ne {cfg : Cfg} {lib : Lib} {c : Client} {form : Form} {ar : AR} (h : Accepted cfg lib c form ar) :
    ar.responseMode ≠ "" := by
  rw [h.mode]
  split
  · split <;> decide
  · assumption

/-- the context `authorize` hands to the handlers -/
def ctxOf (i : Input) (c : Client) (a0 : AR) : Ctx :=
  { cfg := i.cfg, lib := i.lib, client := c, sess := i.sess, granted := i.grant a0.requestedScopes }

/-- a successful run of the endpoint: the request was accepted (`a0`), the handlers kept their invariants,
    every response type was handled and the insecure-response-mode check passed -/
theorem authorize_success {i : Input} {ar : AR} {ps : List Param} (h : authorize i = .success ar ps) :
    i.formOK = true ∧ i.cfg.enforcePAR = false ∧
    ∃ c a0, i.clients (i.form.get "client_id") = some c ∧ Accepted i.cfg i.lib c i.form a0 ∧
      HInv (ctxOf i c a0) a0 { ar := ar, params := ps } ∧ didHandleAll i.lib.lower ar = true ∧
      ¬ (ar.defaultResponseMode = "fragment" ∧ ar.responseMode = "query") := by
  unfold authorize at h
  split at h
  · cases h
  · rename_i a0 hreq
    obtain ⟨hf, hp, c, hc, hacc⟩ := newAuthorizeRequest_ok hreq
    rw [hacc.client] at h
    simp only at h
    split at h
    · cases h
    · rename_i hs hresp
      cases h
      obtain ⟨hinv, hd, hq⟩ := newAuthorizeResponse_ok _ a0 (accepted_mode_ne hacc) hacc.handled hs hresp
      exact ⟨hf, hp, c, a0, hc, hacc, hinv, hd, hq⟩

/-- the request handed to `WriteAuthorizeError` is the one `newAuthorizeRequest` returned (with or
    without error) -/
theorem authorize_failure_request {i : Input} {ar : AR} {e : Err} (h : authorize i = .failure ar e) :
    ∃ oe, newAuthorizeRequest i.cfg i.lib i.clients i.formOK i.form = (ar, oe) := by
  unfold authorize at h
  split at h
  · rename_i ar' e' hreq; cases h; exact ⟨_, hreq⟩
  · rename_i a0 hreq
    split at h
    · cases h; exact ⟨_, hreq⟩
    · simp only at h
      split at h
      · cases h; exact ⟨_, hreq⟩
      · cases h

/-- whatever the endpoint hands to one of the two writers: a request that carries a redirect URL got it
    from a successful validation against the registration of its (existing) client -/
theorem newAuthorizeRequest_redirect {cfg : Cfg} {lib : Lib} {clients : String → Option Client} {formOK : Bool}
    {form : Form} {ar : AR} {oe : Option Err} {s : String}
    (h : newAuthorizeRequest cfg lib clients formOK form = (ar, oe)) (hr : ar.redirect = some s) :
    ∃ c, clients (form.get "client_id") = some c ∧ ar.client = some c ∧
      matchRedirectURI lib.P (ar.form.get "redirect_uri") c.redirectURIs = .ok s ∧
      isValidRedirectURI (lib.P s) = true ∧ ar.state = ar.form.get "state" := by
  unfold newAuthorizeRequest at h
  split at h
  · cases h; cases hr
  · simp only at h
    split at h
    · cases h; cases hr
    · split at h
      · cases h; cases hr
      · rename_i c hc
        have := runSteps_redirect h hr
        exact ⟨c, hc, this.1, this.2.1, this.2.2.1, this.2.2.2⟩


/-! ### `Arguments.Matches` and set equality -/

/-- pigeonhole: a duplicate-free list contained in a list that is not longer covers it -/
theorem nodup_subset_covers {α : Type} [DecidableEq α] :
    ∀ (l1 l2 : List α), l1.Nodup → (∀ x ∈ l1, x ∈ l2) → l2.length ≤ l1.length → ∀ y ∈ l2, y ∈ l1
  | [], l2, _, _, hlen, y, hy => by
    have : l2 = [] := List.eq_nil_of_length_eq_zero (by simpa using hlen)
    subst this; cases hy
  | a :: t, l2, hnd, hsub, hlen, y, hy => by
    have ha : a ∈ l2 := hsub a List.mem_cons_self
    have hnd' := List.nodup_cons.1 hnd
    have hlen' : (l2.erase a).length ≤ t.length := by
      rw [List.length_erase_of_mem ha]
      simp only [List.length_cons] at hlen
      omega
    have hsub' : ∀ x ∈ t, x ∈ l2.erase a := by
      intro x hx
      have hne : x ≠ a := fun h => hnd'.1 (h ▸ hx)
      exact (List.mem_erase_of_ne hne).2 (hsub x (List.mem_cons_of_mem _ hx))
    by_cases hya : y = a
    · subst hya; exact List.mem_cons_self
    · have : y ∈ l2.erase a := (List.mem_erase_of_ne hya).2 hy
      exact List.mem_cons_of_mem _ (nodup_subset_covers t (l2.erase a) hnd'.2 hsub' hlen' y this)

theorem stringInSlice_iff {lower : String → String} {x : String} {xs : List String} :
    stringInSlice lower x xs = true ↔ Spec.Authz.memCI lower x xs := by
  unfold stringInSlice Spec.Authz.memCI
  simp

theorem eraseDups_length_le {α : Type} [BEq α] [LawfulBEq α] : ∀ (n : Nat) (l : List α), l.length ≤ n →
    l.eraseDups.length ≤ l.length
  | 0, l, h => by
    have : l = [] := List.eq_nil_of_length_eq_zero (by omega)
    subst this; simp
  | n + 1, [], _ => by simp
  | n + 1, a :: t, h => by
    rw [List.eraseDups_cons]
    have hf : (t.filter (fun b => !b == a)).length ≤ t.length := List.length_filter_le _ _
    have := eraseDups_length_le n (t.filter (fun b => !b == a)) (by simp only [List.length_cons] at h; omega)
    simp only [List.length_cons]
    omega

/-- a list whose `eraseDups` is as long as itself has no duplicates -/
theorem nodup_of_eraseDups_length {α : Type} [BEq α] [LawfulBEq α] : ∀ (n : Nat) (l : List α), l.length ≤ n →
    l.eraseDups.length = l.length → l.Nodup
  | 0, l, h, _ => by
    have : l = [] := List.eq_nil_of_length_eq_zero (by omega)
    subst this; exact List.nodup_nil
  | n + 1, [], _, _ => List.nodup_nil
  | n + 1, a :: t, h, he => by
    rw [List.eraseDups_cons] at he
    simp only [List.length_cons] at he h
    have hf : (t.filter (fun b => !b == a)).length ≤ t.length := List.length_filter_le _ _
    have hle := eraseDups_length_le n (t.filter (fun b => !b == a)) (by omega)
    have hfl : (t.filter (fun b => !b == a)).length = t.length := by omega
    have hall : ∀ b ∈ t, (!b == a) = true := by
      have := List.length_filter_eq_length_iff.1 hfl
      exact this
    have hft : t.filter (fun b => !b == a) = t := List.filter_eq_self.2 hall
    have hnot : a ∉ t := by
      intro hm
      have := hall a hm
      simp at this
    rw [hft] at he
    have hnd := nodup_of_eraseDups_length n t (by omega) (by omega)
    exact List.nodup_cons.2 ⟨hnot, hnd⟩

/-- `Arguments.Matches` is set equality up to case (since repair f1e5ad8 without any hypothesis on the
    registration; before, a combination listing one name twice in different case matched other sets) -/
theorem argsMatches_sameSet {lower : String → String} {r items : List String}
    (h : argsMatches lower r items = true) :
    Spec.Authz.sameSetCI lower r items := by
  have hall := argsMatches_all h
  unfold argsMatches at h
  split at h
  · cases h
  · rename_i hlen
    have hlen' : r.length = items.length := by simpa using hlen
    split at h
    · cases h
    · have hcount : (items.map lower).eraseDups.length = (items.map lower).length := by
        have : (items.map lower).eraseDups.length = r.length := by simpa using h
        rw [this, hlen']; simp
      have hnd : (items.map lower).Nodup := nodup_of_eraseDups_length _ _ (Nat.le_refl _) hcount
      have hsub : ∀ v ∈ items.map lower, v ∈ r.map lower := by
        intro v hv
        obtain ⟨it, hit, rfl⟩ := List.mem_map.1 hv
        have := List.all_eq_true.1 hall it hit
        obtain ⟨y, hy, hyl⟩ := stringInSlice_iff.1 this
        exact List.mem_map.2 ⟨y, hy, hyl⟩
      have hcov := nodup_subset_covers (items.map lower) (r.map lower) hnd hsub (by simp [hlen'])
      constructor
      · intro x hx
        obtain ⟨it, hit, hitl⟩ := List.mem_map.1 (hcov (lower x) (List.mem_map.2 ⟨x, hx, rfl⟩))
        exact ⟨it, hit, hitl⟩
      · intro y hy
        exact stringInSlice_iff.1 (List.all_eq_true.1 hall y hy)


/-! ### bridges to the vocabulary of `Spec/Authz.lean` -/

theorem pHas_iff {ps : List Param} {k : String} : pHas ps k = true ↔ ∃ v, (k, v) ∈ ps := by
  unfold pHas
  simp only [List.any_eq_true, beq_iff_eq]
  constructor
  · rintro ⟨⟨k', v⟩, hm, hk⟩
    simp only at hk
    subst hk
    exact ⟨v, hm⟩
  · rintro ⟨v, hm⟩
    exact ⟨(k, v), hm, rfl⟩

theorem argsHas_single_iff {lower : String → String} {r : List String} {x : String} :
    argsHas lower r [x] = true ↔ Spec.Authz.memCI lower x r := by
  unfold argsHas
  simp only [List.all_cons, List.all_nil, Bool.and_true]
  exact stringInSlice_iff

theorem allState_mem {s : String} {ps : List Param} (h : allState s ps = true) {v : Option String}
    (hm : ("state", v) ∈ ps) : v = some s := by
  unfold allState at h
  have := List.all_eq_true.1 h _ hm
  simpa using this

theorem namesOK_mem {ps : List Param} (h : namesOK ps = true) {k : String} {v : Option String}
    (hm : (k, v) ∈ ps) : k ∈ respParamNames := by
  unfold namesOK at h
  have := List.all_eq_true.1 h _ hm
  simpa using this

/-- after the request-object step the request's state is the `state` parameter in force -/
theorem requestObject_state {lib : Lib} {c : Client} {form : Form} {a1 : AR}
    (h : requestObjectStep lib c (initialAR c form) = .ok a1) : a1.state = a1.form.get "state" := by
  rcases requestObject_ok h with ⟨he, _⟩ | ⟨_, _, _, o, asn, t, _, _, _, _, _, _, _, _, _, _, _, est, sc, ef⟩
  · subst he; rfl
  · rw [est, ef, form_get_set_ne _ _ _ _ (by decide)]

/-- a successful request-object step either left the parameters alone or honoured exactly the object that
    `Spec.Authz.honoured` allows -/
theorem requestObject_honoured {lib : Lib} {c : Client} {form : Form} {a1 : AR}
    (h : requestObjectStep lib c (initialAR c form) = .ok a1) :
    (a1.form = form ∧ (¬ Spec.Authz.isOIDC lib.lower form ∨ (form.get "request" = "" ∧ form.get "request_uri" = ""))) ∨
    (∃ t, Spec.Authz.honoured lib c form = some t ∧ t.claimsValid = true ∧
      ∃ sc, a1.form = (t.claims.foldl (fun f kv => f.set kv.1 kv.2) form).set "scope" sc) := by
  rcases requestObject_ok h with ⟨he, hwhy⟩ | ⟨hoidc, hboth, hone, o, asn, t, ho, hru, hreq, hver, _, _, _, _, _, _, _, _, sc, ef⟩
  · subst he
    refine Or.inl ⟨rfl, ?_⟩
    rcases hwhy with hw | hw
    · left
      intro hh
      have := argsHas_single_iff.2 hh
      simp only [initialAR] at hw
      rw [this] at hw; cases hw
    · exact Or.inr hw
  · right
    simp only [initialAR] at hoidc hboth hone hru hreq ef
    obtain ⟨hjwt, halg, hvalid, hsig⟩ := verifyRequestObject_ok hver
    refine ⟨t, ?_, hvalid, sc, ef⟩
    have hoidc' : Spec.Authz.isOIDC lib.lower form := argsHas_single_iff.1 hoidc
    have hreg : form.get "request_uri" ≠ "" → Spec.Authz.requestURIRegistered c (form.get "request_uri") := by
      intro hne
      unfold Spec.Authz.requestURIRegistered
      rw [ho]
      exact (hru hne).1
    have hnamed : Spec.Authz.namedObject lib form = some (.parsed t) := by
      unfold Spec.Authz.namedObject
      by_cases hr : form.get "request_uri" = ""
      · have := hreq hr
        subst this
        have hne : form.get "request" ≠ "" := fun hq => hone ⟨hq, hr⟩
        simp [hne, hjwt]
      · have hq : form.get "request" = "" := by
          by_cases hq : form.get "request" = ""
          · exact hq
          · exact absurd ⟨hq, hr⟩ hboth
        have := (hru hr).2
        simp [hq, hr, this, hjwt]
    have hsigned : Spec.Authz.signedAsRegistered c t := by
      unfold Spec.Authz.signedAsRegistered
      rw [ho]
      refine ⟨halg, ?_⟩
      rcases hsig with hn | ⟨k, hk, hkid, _⟩
      · exact Or.inl hn
      · exact Or.inr ⟨k, hk, hkid⟩
    unfold Spec.Authz.honoured
    rw [if_pos ⟨hoidc', hboth, hreg⟩, hnamed]
    simp [hsigned]


/-! ### the writers after a successful run -/

/-- shape of a successful run: the request carries its validated redirect URL, the response mode is one of
    the three placements, and it is not `query` when a token is among the parameters -/
theorem success_shape (i : Input) (ar : AR) (ps : List Param) (h : authorize i = .success ar ps) :
    (∃ s, ar.redirect = some s) ∧
    (ar.responseMode = "query" ∨ ar.responseMode = "fragment" ∨ ar.responseMode = "form_post") ∧
    ((∃ v, ("access_token", v) ∈ ps ∨ ("id_token", v) ∈ ps) → ar.responseMode ≠ "query") := by
  obtain ⟨_, _, c, a0, _, hacc, ⟨fr, dl, _⟩, _, hq⟩ := authorize_success h
  obtain ⟨s, _, _, hred⟩ := hacc.redirect
  refine ⟨⟨s, by rw [fr.redirect]; exact hred⟩, ?_, ?_⟩
  · rw [fr.mode, hacc.mode]
    rcases hacc.modeParam with hm | hm | hm | hm
    · rw [if_pos hm]
      split
      · exact Or.inl rfl
      · exact Or.inr (Or.inl rfl)
    · rw [if_neg (by rw [hm]; decide), hm]; exact Or.inr (Or.inl rfl)
    · rw [if_neg (by rw [hm]; decide), hm]; exact Or.inl rfl
    · rw [if_neg (by rw [hm]; decide), hm]; exact Or.inr (Or.inr rfl)
  · rintro ⟨v, hv⟩ hmq
    have htok : pHas ps "access_token" = true ∨ pHas ps "id_token" = true := by
      rcases hv with hv | hv
      · exact Or.inl (pHas_iff.2 ⟨v, hv⟩)
      · exact Or.inr (pHas_iff.2 ⟨v, hv⟩)
    exact hq ⟨dl.tok htok, hmq⟩

/-- what `WriteAuthorizeResponse` does with an accepted request -/
theorem respond_success (i : Input) (ar : AR) (ps : List Param) (h : authorize i = .success ar ps) :
    (respond i).params = ps ∧
    ((respond i).placement = .query ↔ ar.responseMode = "query") ∧
    ((respond i).placement = .query ∨ (respond i).placement = .fragment ∨ (respond i).placement = .formPost) := by
  obtain ⟨⟨s, hs⟩, hmode, _⟩ := success_shape i ar ps h
  unfold respond
  rw [h]
  simp only [writeAuthorizeResponse, hs]
  rcases hmode with hm | hm | hm
  · simp [hm]
  · simp [hm]
  · simp only [hm, beq_self_eq_true, ↓reduceIte]
    split <;> simp


end Fosite.Proofs.Authz

/-
  Success-path characterisation of `grant_type=authorization_code`.
-/
import Fosite.Proofs.StepLemmas
import Fosite.Model.Step
namespace Fosite.Model

/-- everything but the PKCE and OIDC session tables is the same -/
def SameTokens (ss ss' : SState) : Prop :=
  ss'.next = ss.next ∧ ss'.clients = ss.clients ∧ ss'.store.codes = ss.store.codes ∧
  ss'.store.access = ss.store.access ∧ ss'.store.refresh = ss.store.refresh ∧
  ss'.store.atIdx = ss.store.atIdx ∧ ss'.store.rtIdx = ss.store.rtIdx

theorem SameTokens.refl (ss : SState) : SameTokens ss ss := ⟨rfl, rfl, rfl, rfl, rfl, rfl, rfl⟩
theorem SameTokens.trans {a b c : SState} (h1 : SameTokens a b) (h2 : SameTokens b c) : SameTokens a c := by
  obtain ⟨a1, a2, a3, a4, a5, a6, a7⟩ := h1
  obtain ⟨b1, b2, b3, b4, b5, b6, b7⟩ := h2
  exact ⟨b1.trans a1, b2.trans a2, b3.trans a3, b4.trans a4, b5.trans a5, b6.trans a6, b7.trans a7⟩

/-- the PKCE condition under which the handler lets a redemption through, in terms of the stored
    PKCE session (if any) for the code -/
def pkceAccept (cfg : Config) (pk : Option Req) (verifier : String) (clientPublic : Bool) : Prop :=
  match pk with
  | some pr =>
    pkceValidate cfg (pr.formGet "code_challenge") (pr.formGet "code_challenge_method") pr.client.isPublic = none ∧
    pkceVerify cfg (pr.formGet "code_challenge") (pr.formGet "code_challenge_method") verifier = none
  | none => verifier.length = 0 ∧ validateNoPKCE cfg clientPublic = none

theorem exec_deletePKCE_same (ss : SState) (k) : SameTokens ss (ss.exec (.deletePKCE k)).1 := by
  simp only [SState.exec]; split <;> exact ⟨rfl, rfl, rfl, rfl, rfl, rfl, rfl⟩

theorem exec_deleteOIDC_same (ss : SState) (k) : SameTokens ss (ss.exec (.deleteOIDC k)).1 := by
  simp only [SState.exec]; split <;> exact ⟨rfl, rfl, rfl, rfl, rfl, rfl, rfl⟩

theorem exec_getPKCE_req (ss : SState) (k : Option Nat) (x : Req) (h : (ss.exec (.getPKCE k)).2 = .req x) :
    k.bind (alookup ss.store.pkce) = some x := by
  simp only [SState.exec] at h
  cases hl : k.bind (alookup ss.store.pkce) with
  | none => simp [hl] at h
  | some r => simp only [hl] at h; cases h; rfl

theorem exec_getPKCE_notfound (ss : SState) (k : Option Nat) (h : (ss.exec (.getPKCE k)).2.errKind = some .not_found)
    : k.bind (alookup ss.store.pkce) = none := by
  simp only [SState.exec] at h
  cases hl : k.bind (alookup ss.store.pkce) with
  | none => rfl
  | some r => simp [hl, Res.errKind] at h

theorem optErr_ok (rc) (o : Option Err) (Q) (rs) : wpOk rc (optErr o) Q rs ↔ (o = none → Q rs ()) := by
  cases o <;> simp [optErr, wpOk_ok, wpOk_fail]

/-- success-path specification of `pkce.Handler.HandleTokenEndpointRequest` -/
theorem wpOk_pkceHandle (rc : RunCfg) (cfg : Config) (code : Presented) (v : String) (client : Client)
    (Q : RState → Unit → Prop) (rs : RState) (hnf : NoFaults rc)
    (h : ∀ rs', SameTokens rs.ss rs'.ss →
      pkceAccept cfg (code.sig.bind (alookup rs.ss.store.pkce)) v client.isPublic → Q rs' ()) :
    wpOk rc (pkceHandle cfg code v client) Q rs := by
  unfold pkceHandle
  simp only [wpOk_bind, wpOk_callH]
  have hg := step_eq_exec rc rs (.getPKCE code.sig) rfl
  generalize hr : (rs.step rc (.getPKCE code.sig)).2 = r at *
  cases r with
  | req pr =>
    obtain ⟨hss, hres⟩ := hg _ rfl (by intro e; simp)
    rw [exec_getPKCE_fst] at hss
    simp only [wpOk_bind, optErr_ok]
    intro hv1 hv2
    apply h
    · rw [hss]; exact SameTokens.refl _
    · rw [exec_getPKCE_req rs.ss code.sig pr hres]; exact ⟨hv1, hv2⟩
  | notFound =>
    obtain ⟨hss, hres⟩ := hg _ rfl (by intro e; simp)
    rw [exec_getPKCE_fst] at hss
    simp only [Res.errKind]
    by_cases hv : (v.length == 0) = true
    · simp only [hv, if_true, optErr_ok]
      intro hn
      apply h
      · rw [hss]; exact SameTokens.refl _
      · rw [exec_getPKCE_notfound rs.ss code.sig (by rw [hres]; rfl)]
        exact ⟨by simpa using hv, hn⟩
    · simp only [hv, Bool.false_eq_true, if_false]
      exact wpOk_fail rc _ Q _
  | fail e => exact absurd hr (step_no_fail rc hnf rs _ e)
  | ok => simp only [Res.errKind]; exact wpOk_fail rc _ Q _
  | inactive x => simp only [Res.errKind]; exact wpOk_fail rc _ Q _
  | client c => simp only [Res.errKind]; exact wpOk_fail rc _ Q _
  | nat n => simp only [Res.errKind]; exact wpOk_fail rc _ Q _
  | par p => simp only [Res.errKind]; exact wpOk_fail rc _ Q _
  | dev d => simp only [Res.errKind]; exact wpOk_fail rc _ Q _
  | usedDev d => simp only [Res.errKind]; exact wpOk_fail rc _ Q _

/-- success-path specification of the OIDC explicit `PopulateTokenEndpointResponse`: it only touches
    the OIDC session table -/
theorem wpOk_oidcExplicitPopulate (rc : RunCfg) (code : Presented) (client : Client)
    (Q : RState → Bool → Prop) (rs : RState) (hnf : NoFaults rc)
    (h : ∀ rs' b, SameTokens rs.ss rs'.ss → Q rs' b) :
    wpOk rc (oidcExplicitPopulate code client) Q rs := by
  unfold oidcExplicitPopulate
  simp only [wpOk_bind, wpOk_callH]
  generalize hk : (if code.exact = true then code.sig else none) = key
  have hg := step_eq_exec rc rs (.getOIDC key) rfl
  generalize hr : (rs.step rc (.getOIDC key)).2 = r at *
  have hss : (rs.step rc (.getOIDC key)).1.ss = rs.ss := by
    have := (hg _ rfl (by intro e he; exact step_no_fail rc hnf rs _ e (hr.trans he))).1
    rw [exec_getOIDC_fst] at this; exact this
  cases r with
  | req ar =>
    simp only [wpOk_bind, wpOk_guard, wpOk_expectOk, wpOk_pure]
    intro _ _ _ hd
    have hd' := step_eq_exec rc (rs.step rc (.getOIDC key)).1 (.deleteOIDC key) rfl _ rfl
      (by intro e he; rw [he] at hd; simp [Res.errKind] at hd)
    apply h
    rw [hd'.1, hss]; exact exec_deleteOIDC_same _ _
  | notFound =>
    simp only [Res.errKind, wpOk_pure]
    apply h; rw [hss]; exact SameTokens.refl _
  | fail e => exact absurd hr (step_no_fail rc hnf rs _ e)
  | ok => simp only [Res.errKind]; exact wpOk_fail rc _ Q _
  | inactive x => simp only [Res.errKind]; exact wpOk_fail rc _ Q _
  | client c => simp only [Res.errKind]; exact wpOk_fail rc _ Q _
  | nat n => simp only [Res.errKind]; exact wpOk_fail rc _ Q _
  | par p => simp only [Res.errKind]; exact wpOk_fail rc _ Q _
  | dev d => simp only [Res.errKind]; exact wpOk_fail rc _ Q _
  | usedDev d => simp only [Res.errKind]; exact wpOk_fail rc _ Q _

end Fosite.Model

namespace Fosite.Model

theorem alookup_aset_self {β} (l : List (Nat × β)) (k : Nat) (v : β) : alookup (aset l k v) k = some v := by
  induction l with
  | nil => simp [aset, alookup]
  | cons p t ih =>
    obtain ⟨k', v'⟩ := p
    by_cases hk : k' = k
    · simp [aset, alookup, hk]
    · simp [aset, alookup, hk, ih]

theorem alookup_aset_ne {β} (l : List (Nat × β)) (k k2 : Nat) (v : β) (h : k2 ≠ k) :
    alookup (aset l k v) k2 = alookup l k2 := by
  induction l with
  | nil => simp [aset, alookup, Ne.symm h]
  | cons p t ih =>
    obtain ⟨k', v'⟩ := p
    by_cases hk : k' = k
    · subst hk; simp [aset, alookup, Ne.symm h]
    · by_cases hk2 : k' = k2
      · subst hk2; simp [aset, alookup, h]
      · simp [aset, alookup, hk, hk2, ih]

theorem exec_newId_ss (ss : SState) : (ss.exec .newId).1.store = ss.store ∧ (ss.exec .newId).1.clients = ss.clients := by
  simp [SState.exec]

/-- success-path specification of `pkce.Handler.PopulateTokenEndpointResponse`: only the PKCE table changes -/
theorem wpOk_pkcePopulate (rc : RunCfg) (code : Presented) (Q : RState → Unit → Prop) (rs : RState) (hnf : NoFaults rc)
    (h : ∀ rs', SameTokens rs.ss rs'.ss → Q rs' ()) : wpOk rc (pkcePopulate code) Q rs := by
  unfold pkcePopulate
  simp only [wpOk_bind, wpOk_callH]
  have hd := step_eq_exec rc rs (.deletePKCE code.sig) rfl _ rfl (fun e => step_no_fail rc hnf rs _ e)
  have hsame : SameTokens rs.ss (rs.step rc (.deletePKCE code.sig)).1.ss := by rw [hd.1]; exact exec_deletePKCE_same _ _
  cases hk : (rs.step rc (.deletePKCE code.sig)).2.errKind with
  | none => simp only [wpOk_pure]; exact h _ hsame
  | some e =>
    cases e <;> first | (simp only [wpOk_pure]; exact h _ hsame) | exact wpOk_fail rc _ Q _

/-- What a successful code redemption tells about the state before it, and what it leaves behind
    (fault-free runs; any transaction mode). -/
structure RedeemOk (cfg : Config) (now : Time) (q : RedeemReq) (ss ss' : SState) (rt : Option Nat) (sc : List String) : Prop where
  ex : ∃ sig rec client,
    q.code.sig = some sig ∧ alookup ss.store.codes sig = some rec ∧ rec.active = true ∧ q.code.exact = true ∧
    client ∈ ss.clients ∧ client.id = q.clientId ∧ (client.isPublic || q.credOk) = true ∧
    client.grants.contains "authorization_code" = true ∧ rec.req.client.id = client.id ∧
    (rec.req.formGet "redirect_uri" = "" ∨ rec.req.formGet "redirect_uri" = q.redirect) ∧
    expiredAt rec.req.sess.expCode now cfg.codeLife now = false ∧
    pkceAccept cfg (alookup ss.store.pkce sig) q.verifier client.isPublic ∧
    sc = appendAllUniq [] rec.req.grantedScopes ∧
    rt.isSome = canIssueRefresh cfg rec.req ∧
    alookup ss'.store.codes sig = some { rec with active := false }

theorem exec_invalidateCode_ok (ss : SState) (k : Option Nat) (h : (ss.exec (.invalidateCode k)).2.errKind = none) :
    ∃ sig rec, k = some sig ∧ alookup ss.store.codes sig = some rec ∧
      (ss.exec (.invalidateCode k)).1 = { ss with store := { ss.store with codes := aset ss.store.codes sig { rec with active := false } } } := by
  simp only [SState.exec] at h ⊢
  cases k with
  | none => simp [Res.errKind] at h
  | some sig =>
    cases hl : alookup ss.store.codes sig with
    | none => simp [hl, Res.errKind] at h
    | some rec => exact ⟨sig, rec, rfl, hl, by simp [hl]⟩

theorem exec_createAccess_codes (ss : SState) (r : Req) : (ss.exec (.createAccess r)).1.store.codes = ss.store.codes := by
  simp [SState.exec]
theorem exec_createRefresh_codes (ss : SState) (a) (r : Req) : (ss.exec (.createRefresh a r)).1.store.codes = ss.store.codes := by
  simp [SState.exec]

theorem redeem_wp (rc : RunCfg) (hnf : NoFaults rc) (cfg : Config) (now : Time) (q : RedeemReq) (rs : RState) :
    wpOk rc (redeemH cfg now q)
      (fun rs' o => ∀ a r i e sc, o = .tokens a r i e sc → RedeemOk cfg now q rs.ss rs'.ss r sc) rs := by
  unfold redeemH
  simp only [wpOk_bind, wpOk_callH, wpOk_expectReq, wpOk_expectNat, wpOk_expectOk, wpOk_guard, wpOk_pure,
    authenticate, wpOk_expectClient, wpOk_ite, wpOk_ok]
  intro client hcl hcred hgr ar hgc hexact hcid hredir
  -- states up to the first code lookup
  have nf : ∀ rs c e, (RState.step rc rs c).2 ≠ .fail e := fun rs c e => step_no_fail rc hnf rs c e
  have h1 := step_eq_exec rc rs .newId rfl _ rfl (nf _ _)
  have h2 := step_eq_exec rc (rs.step rc .newId).1 (.getClient q.clientId) rfl _ hcl (by intro e; simp)
  have h3 := step_eq_exec rc _ (.getCode q.code.sig) rfl _ hgc (by intro e; simp)
  rw [exec_getClient_fst] at h2
  rw [exec_getCode_fst] at h3
  have hs3 : ∀ (P : SState → Prop), P (rs.ss.exec .newId).1 →
      P (RState.step rc (RState.step rc (RState.step rc rs .newId).1 (.getClient q.clientId)).1 (.getCode q.code.sig)).1.ss := by
    intro P hp; rw [h3.1, h2.1, h1.1]; exact hp
  obtain ⟨hclm, hclid⟩ := exec_getClient_client _ _ _ h2.2
  rw [h1.1] at hclm
  rw [(exec_newId_ss rs.ss).2] at hclm
  obtain ⟨sig, rec, hsig, hrec, hact, hreq⟩ := exec_getCode_req _ _ _ h3.2
  rw [h2.1, h1.1, (exec_newId_ss rs.ss).1] at hrec
  subst hreq
  apply wpOk_pkceHandle rc cfg q.code q.verifier client _ _ hnf
  intro rs4 hsame hpk
  intro ar2 hgc2 hexp hbegin hinv atk hat
  have hcodes4 : rs4.ss.store.codes = rs.ss.store.codes := by
    rw [hsame.2.2.1]; exact hs3 (fun s => s.store.codes = rs.ss.store.codes) (by rw [(exec_newId_ss rs.ss).1])
  have hpkce3 : (RState.step rc (RState.step rc (RState.step rc rs .newId).1 (.getClient q.clientId)).1 (.getCode q.code.sig)).1.ss.store.pkce = rs.ss.store.pkce :=
    hs3 (fun s => s.store.pkce = rs.ss.store.pkce) (by rw [(exec_newId_ss rs.ss).1])
  rw [hpkce3, hsig] at hpk
  simp only [Option.bind_some] at hpk
  -- second lookup and the issuing bracket
  have h5 := step_eq_exec rc rs4 (.getCode q.code.sig) rfl _ hgc2 (by intro e; simp)
  rw [exec_getCode_fst] at h5
  obtain ⟨sig2, rec2, hsig2, hrec2, _, hreq2⟩ := exec_getCode_req _ _ _ h5.2
  rw [hsig] at hsig2; cases hsig2
  rw [hcodes4, hrec] at hrec2; cases hrec2
  subst hreq2
  have h6 := step_begin_ss rc (RState.step rc rs4 (.getCode q.code.sig)).1
  have h7 := step_eq_exec rc _ (.invalidateCode q.code.sig) rfl _ rfl
    (by intro e he; rw [he] at hinv; simp [Res.errKind] at hinv)
  obtain ⟨sig3, rec3, hsig3, hrec3, hinvst⟩ := exec_invalidateCode_ok _ _ (by rw [h7.2]; exact hinv)
  rw [hsig] at hsig3; cases hsig3
  rw [h6, h5.1, hcodes4, hrec] at hrec3; cases hrec3
  have h8 := step_eq_exec rc _ (.createAccess _) rfl _ hat (by intro e; simp)
  -- the state after invalidate + createAccess has the code dead
  have hdead8 : alookup (RState.step rc (RState.step rc (RState.step rc (RState.step rc rs4 (.getCode q.code.sig)).1 .beginTx).1
      (.invalidateCode q.code.sig)).1 (.createAccess ((redeemStoreReq cfg now q client rec.req rec.req).sanitize []))).1.ss.store.codes sig
        = some { rec with active := false } := by
    rw [h8.1, exec_createAccess_codes, h7.1, hinvst]
    exact alookup_aset_self _ _ _
  have hredir' : rec.req.formGet "redirect_uri" = "" ∨ rec.req.formGet "redirect_uri" = q.redirect := by
    by_cases h0 : rec.req.formGet "redirect_uri" = ""
    · exact Or.inl h0
    · right
      by_cases h1 : rec.req.formGet "redirect_uri" = q.redirect
      · exact h1
      · simp [h0, h1] at hredir
  have hfinal : ∀ (rsE : RState) (rtv : Option Nat) (scv : List String), scv = (redeemStoreReq cfg now q client rec.req rec.req).grantedScopes →
      rtv.isSome = canIssueRefresh cfg rec.req →
      alookup rsE.ss.store.codes sig = some { rec with active := false } → RedeemOk cfg now q rs.ss rsE.ss rtv scv := by
    intro rsE rtv scv hsc hrtv hd
    refine ⟨sig, rec, client, hsig, hrec, hact, hexact, hclm, hclid, hcred, hgr, by simpa using hcid, hredir', by simpa using hexp, hpk, ?_, hrtv, hd⟩
    rw [hsc]; rfl
  constructor
  · intro hcan rt hrt hcommit
    have h9 := step_eq_exec rc _ (.createRefresh atk _) rfl _ hrt (by intro e; simp)
    apply wpOk_oidcExplicitPopulate rc q.code client _ _ hnf
    intro rsE b hsameE
    apply wpOk_pkcePopulate rc q.code _ _ hnf
    intro rsF hsameF a r i e sc ho
    cases ho
    apply hfinal rsF _ _ rfl (by simp [hcan])
    rw [hsameF.2.2.1, hsameE.2.2.1, step_commit_ss, h9.1, exec_createRefresh_codes]
    exact hdead8
  · intro hcan hcommit
    apply wpOk_oidcExplicitPopulate rc q.code client _ _ hnf
    intro rsE b hsameE
    apply wpOk_pkcePopulate rc q.code _ _ hnf
    intro rsF hsameF a r i e sc ho
    cases ho
    apply hfinal rsF _ _ rfl (by simp [hcan])
    rw [hsameF.2.2.1, hsameE.2.2.1, step_commit_ss]
    exact hdead8

/-- **Characterisation of a successful code redemption** (any state, any request). -/
theorem redeem_success (rc : RunCfg) (hnf : NoFaults rc) (cfg : Config) (now : Time) (q : RedeemReq) (rs : RState)
    (a : Nat) (r : Option Nat) (i : Bool) (e : Int) (sc : List String)
    (h : (run rc rs (redeemProg cfg now q)).2 = .tokens a r i e sc) :
    RedeemOk cfg now q rs.ss (run rc rs (redeemProg cfg now q)).1.ss r sc :=
  run_HP_ok rc (redeemH cfg now q) rs _ _ (redeem_wp rc hnf cfg now q rs) h (by intro e; simp) a r i e sc rfl

end Fosite.Model

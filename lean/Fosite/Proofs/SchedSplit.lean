/-
  C19, interleaving half — refinements of the scheduler semantics of `Model/Sched.lean`:

  A. SPLIT ROTATION.  `RotateRefreshToken` of the reference store is two locked sections
     (`RevokeRefreshToken`, then — only when that answered nil — `RevokeAccessToken`).  `splitProg`
     rewrites every `rotateRefresh rid k` node of a program into the two-call sequence, with the result
     mapping of `SState.exec`; running the split threads under `runSched` lets other threads be
     scheduled between the two halves.
       * `splitProg` is the same program sequentially (`runSS_split`, `run_split`);
       * every atomic-rotation run is a split-rotation run (`split_covers_atomic`);
       * split programs never issue `rotateRefresh` (`splitProg_noRotate`, `reach_noRotate`);
       * the ownership calculus of `Proofs/Sched.lean` transfers (`ownK_split`), so split endpoint
         programs still hand out only tokens they created and did not themselves remove.
  B. FAULTS.  `Sys.stepF` / `runSchedF`: every schedule entry carries a fault decision; a storage call
     (not `newId`, not a transaction marker — exactly the calls `RState.step` consults the plan for)
     hit by a fault answers `.fail e` and leaves the shared store untouched.  `runSchedP` is the
     instance with one fault plan per thread, indexed by the thread's own storage-call count
     (`RState.idx`); `stepP_is_RState_step` shows that one `stepP` is one `RState.step` of the
     non-transactional interpreter on the shared store.  `ReachF` is `Reach` for this semantics: the
     store is the fold over the NON-FAILED steps (`okTrace`), which form a genuine sequential order.
-/
import Fosite.Proofs.Sched
import Fosite.Proofs.Tx
namespace Fosite.Model

/-! ## A. split rotation -/

/-- the request id of a `rotateRefresh` call -/
def Call.rotateId : Call → Option Nat
  | .rotateRefresh rid _ => some rid
  | _ => none

theorem Call.rotateId_some (c : Call) (rid : Nat) (h : c.rotateId = some rid) : ∃ k, c = .rotateRefresh rid k := by
  cases c <;> simp [Call.rotateId] at h
  subst h; exact ⟨_, rfl⟩

/-- every `rotateRefresh rid k` node becomes `revokeRefresh rid` followed — only if that answered
    `.ok` — by `revokeAccess rid`; the continuation receives what `SState.exec (.rotateRefresh rid k)`
    would have answered -/
def splitProg {α : Type} : Prog α → Prog α
  | .ret a => .ret a
  | .call c k =>
    match c.rotateId with
    | some rid =>
      .call (.revokeRefresh rid) (fun r1 =>
        match r1 with
        | .ok => .call (.revokeAccess rid) (fun r2 => splitProg (k r2))
        | e => splitProg (k e))
    | none => .call c (fun r => splitProg (k r))

@[simp] theorem splitProg_ret {α} (a : α) : splitProg (.ret a) = .ret a := rfl

theorem splitProg_call_other {α} (c : Call) (k : Res → Prog α) (h : c.rotateId = none) :
    splitProg (.call c k) = .call c (fun r => splitProg (k r)) := by
  simp only [splitProg, h]

theorem splitProg_call_rotate {α} (rid : Nat) (x : Option Nat) (k : Res → Prog α) :
    splitProg (.call (.rotateRefresh rid x) k) =
      .call (.revokeRefresh rid) (fun r1 =>
        match r1 with
        | .ok => .call (.revokeAccess rid) (fun r2 => splitProg (k r2))
        | e => splitProg (k e)) := by
  simp only [splitProg, Call.rotateId]

/-- `SState.exec` composes the two halves exactly like this -/
theorem exec_rotate_eq (ss : SState) (rid : Nat) (x : Option Nat) :
    ss.exec (.rotateRefresh rid x) =
      match (ss.exec (.revokeRefresh rid)).2 with
      | .ok => (ss.exec (.revokeRefresh rid)).1.exec (.revokeAccess rid)
      | e => ((ss.exec (.revokeRefresh rid)).1, e) := by
  simp only [SState.exec]
  cases (revokeRefreshS ss.store rid).2 <;> rfl

/-! ### sequentially the split program is the same program -/

/-- the plain sequential semantics on the store state alone -/
def runSS {α} : SState → Prog α → SState × α
  | ss, .ret a => (ss, a)
  | ss, .call c k => runSS (ss.exec c).1 (k (ss.exec c).2)

theorem rstep_plain_exec (rs : RState) (c : Call) :
    (rs.step {} c).1.ss = (rs.ss.exec c).1 ∧ (rs.step {} c).2 = (rs.ss.exec c).2 := by
  cases c <;> simp [RState.step, Call.isSilent, Call.isTx, SState.exec]

/-- fault-free and without transactions the interpreter `run` is `runSS` on the store state -/
theorem run_plain_runSS {α} (p : Prog α) (rs : RState) :
    (run {} rs p).1.ss = (runSS rs.ss p).1 ∧ (run {} rs p).2 = (runSS rs.ss p).2 := by
  induction p generalizing rs with
  | ret a => exact ⟨rfl, rfl⟩
  | call c k ih =>
    simp only [run_call, runSS]
    have h := rstep_plain_exec rs c
    rw [h.2, ← h.1]
    exact ih _ _

theorem runSS_split {α} (p : Prog α) (ss : SState) : runSS ss (splitProg p) = runSS ss p := by
  induction p generalizing ss with
  | ret a => rfl
  | call c k ih =>
    cases h : c.rotateId with
    | none => rw [splitProg_call_other c k h]; simp only [runSS]; exact ih _ _
    | some rid =>
      obtain ⟨x, rfl⟩ := Call.rotateId_some c rid h
      rw [splitProg_call_rotate]
      simp only [runSS]
      rw [exec_rotate_eq ss rid x]
      cases hr : (ss.exec (.revokeRefresh rid)).2 <;> simp only [runSS] <;> exact ih _ _

/-- **the split program is the same program under the sequential, fault-free, non-transactional
    interpreter**: same final store state, same result (only the log and the call count differ) -/
theorem run_split {α} (p : Prog α) (rs : RState) :
    (run {} rs (splitProg p)).1.ss = (run {} rs p).1.ss ∧ (run {} rs (splitProg p)).2 = (run {} rs p).2 := by
  have h1 := run_plain_runSS (splitProg p) rs
  have h2 := run_plain_runSS p rs
  rw [runSS_split] at h1
  exact ⟨h1.1.trans h2.1.symm, h1.2.trans h2.2.symm⟩

/-! ### split programs never issue `rotateRefresh` -/

def Prog.noRotate {α : Type} : Prog α → Prop
  | .ret _ => True
  | .call c k => c.rotateId = none ∧ ∀ r, Prog.noRotate (k r)

theorem splitProg_noRotate {α} (p : Prog α) : (splitProg p).noRotate := by
  induction p with
  | ret a => trivial
  | call c k ih =>
    cases h : c.rotateId with
    | none => rw [splitProg_call_other c k h]; exact ⟨h, ih⟩
    | some rid =>
      obtain ⟨x, rfl⟩ := Call.rotateId_some c rid h
      rw [splitProg_call_rotate]
      refine ⟨rfl, fun r1 => ?_⟩
      cases r1 <;> first | exact ih _ | exact ⟨rfl, fun r2 => ih r2⟩

theorem follows_noRotate {α} (p q : Prog α) (l : List (Call × Res)) (h : Prog.follows p l q) (hp : p.noRotate) :
    (∀ e ∈ l, e.1.rotateId = none) ∧ q.noRotate := by
  induction h with
  | nil p => exact ⟨fun e he => (by cases he), hp⟩
  | cons c k r l p' _ ih =>
    obtain ⟨h1, h2⟩ := ih (hp.2 r)
    refine ⟨?_, h2⟩
    intro e he
    rcases List.mem_cons.mp he with rfl | he
    · exact hp.1
    · exact h1 e he

/-- every thread runs a program without `rotateRefresh` nodes -/
def Sys.NoRotate (s : Sys) : Prop := ∀ t ∈ s.thr, t.prog.noRotate

theorem mem_subTrace_of_mem (tr : List (Nat × Call × Res)) (e : Nat × Call × Res) (he : e ∈ tr) :
    e.2 ∈ subTrace e.1 tr := mem_subTrace e.1 tr e he rfl

/-- no step of a run of rotation-free threads is a `rotateRefresh` -/
theorem reach_noRotate {s0 s : Sys} {tr} (R : Reach s0 s tr) (h : s0.NoRotate) : ∀ e ∈ tr, e.2.1.rotateId = none := by
  intro e he
  have hlt := R.inRange e he
  obtain ⟨t, _, hf⟩ := R.thr e.1 s0.thr[e.1] (List.getElem?_eq_getElem hlt)
  exact (follows_noRotate _ _ _ hf (h _ (List.getElem_mem hlt))).1 e.2 (mem_subTrace_of_mem tr e he)

/-! ### a path of the split program is the split of a path of the original program -/

/-- `SplitPath l' l`: `l` is `l'` with every `(rotateRefresh rid k, r)` entry replaced by the entries of
    the two halves that compose to the answer `r` the way `SState.exec` composes them -/
inductive SplitPath : List (Call × Res) → List (Call × Res) → Prop
  | nil : SplitPath [] []
  | other (c : Call) (r : Res) (l' l : List (Call × Res)) : c.rotateId = none → SplitPath l' l →
      SplitPath ((c, r) :: l') ((c, r) :: l)
  | both (rid : Nat) (x : Option Nat) (r2 : Res) (l' l : List (Call × Res)) : SplitPath l' l →
      SplitPath ((.rotateRefresh rid x, r2) :: l') ((.revokeRefresh rid, .ok) :: (.revokeAccess rid, r2) :: l)
  | first (rid : Nat) (x : Option Nat) (r1 : Res) (l' l : List (Call × Res)) : r1 ≠ .ok → SplitPath l' l →
      SplitPath ((.rotateRefresh rid x, r1) :: l') ((.revokeRefresh rid, r1) :: l)

theorem follows_call_ret_inv {α} (c : Call) (k : Res → Prog α) (l : List (Call × Res)) (a : α)
    (h : Prog.follows (.call c k) l (.ret a)) : ∃ r l1, l = (c, r) :: l1 ∧ Prog.follows (k r) l1 (.ret a) := by
  cases h with
  | cons _ _ r l1 _ h1 => exact ⟨r, l1, rfl, h1⟩

/-- **a finished request of the split system returned what its ORIGINAL endpoint program returns** along
    the path obtained by reading each pair of halves as one rotation -/
theorem follows_split_ret {α} (p : Prog α) (l : List (Call × Res)) (a : α) (h : Prog.follows (splitProg p) l (.ret a)) :
    ∃ l', Prog.follows p l' (.ret a) ∧ SplitPath l' l := by
  induction p generalizing l with
  | ret b =>
    cases h
    exact ⟨[], .nil _, .nil⟩
  | call c k ih =>
    cases hc : c.rotateId with
    | none =>
      rw [splitProg_call_other c k hc] at h
      obtain ⟨r, l1, rfl, h1⟩ := follows_call_ret_inv _ _ _ _ h
      obtain ⟨l', hf, hs⟩ := ih r l1 h1
      exact ⟨(c, r) :: l', .cons c k r l' _ hf, .other c r l' l1 hc hs⟩
    | some rid =>
      obtain ⟨x, rfl⟩ := Call.rotateId_some c rid hc
      rw [splitProg_call_rotate] at h
      obtain ⟨r1, l1, rfl, h1⟩ := follows_call_ret_inv _ _ _ _ h
      cases r1 with
      | ok =>
        obtain ⟨r2, l2, rfl, h2⟩ := follows_call_ret_inv _ _ _ _ h1
        obtain ⟨l', hf, hs⟩ := ih r2 l2 h2
        exact ⟨(.rotateRefresh rid x, r2) :: l', .cons _ k r2 l' _ hf, .both rid x r2 l' l2 hs⟩
      | _ =>
        obtain ⟨l', hf, hs⟩ := ih _ l1 h1
        exact ⟨(.rotateRefresh rid x, _) :: l', .cons _ k _ l' _ hf, .first rid x _ l' l1 (fun h => by cases h) hs⟩

/-! ### the ownership calculus transfers to split programs -/

/-- `g'` owns at least what `g` owns -/
def Own.le (g g' : Own) : Prop := (∀ x ∈ g.acc, x ∈ g'.acc) ∧ (∀ x ∈ g.rts, x ∈ g'.rts)

theorem Own.le_refl (g : Own) : g.le g := ⟨fun _ h => h, fun _ h => h⟩

theorem Own.upd_mono (g g' : Own) (c : Call) (r : Res) (h : g.le g') : (g.upd c r).le (g'.upd c r) := by
  obtain ⟨h1, h2⟩ := h
  cases c <;> try exact ⟨h1, h2⟩
  case createAccess q =>
    cases r <;> try exact ⟨h1, h2⟩
    exact ⟨fun x hx => by
      simp only [Own.upd, List.mem_cons] at hx ⊢
      exact hx.imp id (h1 x), h2⟩
  case createRefresh a q =>
    cases r <;> try exact ⟨h1, h2⟩
    exact ⟨h1, fun x hx => by
      simp only [Own.upd, List.mem_cons] at hx ⊢
      exact hx.imp id (h2 x)⟩
  case deleteAccess k =>
    exact ⟨fun x hx => by
      simp only [Own.upd, List.mem_filter] at hx ⊢
      exact ⟨h1 x hx.1, hx.2⟩, h2⟩
  case revokeAccess rid =>
    exact ⟨fun x hx => by
      simp only [Own.upd, List.mem_filter] at hx ⊢
      exact ⟨h1 x hx.1, hx.2⟩, h2⟩
  case deleteRefresh k =>
    exact ⟨h1, fun x hx => by
      simp only [Own.upd, List.mem_filter] at hx ⊢
      exact ⟨h2 x hx.1, hx.2⟩⟩
  case revokeRefresh rid =>
    exact ⟨h1, fun x hx => by
      simp only [Own.upd, List.mem_filter] at hx ⊢
      exact ⟨h2 x hx.1, hx.2⟩⟩
  case rotateRefresh rid k =>
    exact ⟨fun x hx => by
      simp only [Own.upd, List.mem_filter] at hx ⊢
      exact ⟨h1 x hx.1, hx.2⟩, fun x hx => by
      simp only [Own.upd, List.mem_filter] at hx ⊢
      exact ⟨h2 x hx.1, hx.2⟩⟩

/-- first half answered `.ok`, then the second half: the ghost state of the atomic rotation -/
theorem Own.upd_rotate_le_both (g g' : Own) (rid : Nat) (x : Option Nat) (r r1 r2 : Res) (h : g.le g') :
    (g.upd (.rotateRefresh rid x) r).le ((g'.upd (.revokeRefresh rid) r1).upd (.revokeAccess rid) r2) := by
  obtain ⟨h1, h2⟩ := h
  constructor
  · intro e he
    simp only [Own.upd, List.mem_filter, Call.removesAccess] at he ⊢
    exact ⟨h1 e he.1, he.2⟩
  · intro e he
    simp only [Own.upd, List.mem_filter, Call.removesRefresh] at he ⊢
    exact ⟨h2 e he.1, he.2⟩

/-- first half answered an error: only the refresh side of the ghost state shrinks -/
theorem Own.upd_rotate_le_first (g g' : Own) (rid : Nat) (x : Option Nat) (r r1 : Res) (h : g.le g') :
    (g.upd (.rotateRefresh rid x) r).le (g'.upd (.revokeRefresh rid) r1) := by
  obtain ⟨h1, h2⟩ := h
  constructor
  · intro e he
    simp only [Own.upd, List.mem_filter] at he ⊢
    exact h1 e he.1
  · intro e he
    simp only [Own.upd, List.mem_filter, Call.removesRefresh] at he ⊢
    exact ⟨h2 e he.1, he.2⟩

/-- a postcondition that survives owning more holds of every run of the split program as well -/
theorem ownK_split {α} (p : Prog α) (K : Own → α → Prop) (hK : ∀ g g' a, g.le g' → K g a → K g' a)
    (g g' : Own) (hle : g.le g') (h : ownK g p K) : ownK g' (splitProg p) K := by
  induction p generalizing g g' with
  | ret a => exact hK g g' a hle h
  | call c k ih =>
    cases hc : c.rotateId with
    | none =>
      rw [splitProg_call_other c k hc]
      intro r
      exact ih r _ _ (Own.upd_mono g g' c r hle) (h r)
    | some rid =>
      obtain ⟨x, rfl⟩ := Call.rotateId_some c rid hc
      rw [splitProg_call_rotate]
      intro r1
      cases r1 with
      | ok =>
        intro r2
        exact ih r2 _ _ (Own.upd_rotate_le_both g g' rid x r2 .ok r2 hle) (h r2)
      | _ => exact ih _ _ _ (Own.upd_rotate_le_first g g' rid x _ _ hle) (h _)

theorem Handed_of_le (g g' : Own) (o : Out) (hle : g.le g') (h : Handed g o) : Handed g' o := by
  constructor
  · intro n hn; obtain ⟨q, hq⟩ := h.1 n hn; exact ⟨q, hle.1 _ hq⟩
  · intro n hn; obtain ⟨a, q, hq⟩ := h.2 n hn; exact ⟨a, q, hle.2 _ hq⟩

/-! ### the split system -/

def Thr.split (t : Thr) : Thr := Thr.ofProg (splitProg t.prog)

@[simp] theorem Thr.prog_split (t : Thr) : t.split.prog = splitProg t.prog := by simp [Thr.split]

/-- the same requests in flight, each running the split version of what it still has to run -/
def Sys.split (s : Sys) : Sys := { s with thr := s.thr.map Thr.split }

/-- one thread per operation, running the split endpoint program -/
def Sys.initSplit (m : MState) (ops : List Op) : Sys := (Sys.init m ops).split

@[simp] theorem Sys.split_ss (s : Sys) : s.split.ss = s.ss := rfl
@[simp] theorem Sys.split_trace (s : Sys) : s.split.trace = s.trace := rfl
@[simp] theorem Sys.split_length (s : Sys) : s.split.thr.length = s.thr.length := by simp [Sys.split]

theorem Sys.split_getElem? (s : Sys) (i : Nat) : s.split.thr[i]? = (s.thr[i]?).map Thr.split := by
  simp [Sys.split]

theorem split_noRotate (s : Sys) : s.split.NoRotate := by
  intro t ht
  simp only [Sys.split, List.mem_map] at ht
  obtain ⟨t0, _, rfl⟩ := ht
  rw [Thr.prog_split]; exact splitProg_noRotate _

theorem split_owned (s : Sys) (h : s.Owned) : s.split.Owned := by
  intro t ht
  simp only [Sys.split, List.mem_map] at ht
  obtain ⟨t0, ht0, rfl⟩ := ht
  rw [Thr.prog_split]
  exact ownK_split _ Handed Handed_of_le {} {} (Own.le_refl _) (h t0 ht0)

theorem initSplit_owned (m : MState) (ops : List Op) : (Sys.initSplit m ops).Owned := split_owned _ (init_owned m ops)

theorem newTrace_initSplit (m : MState) (ops : List Op) (sched : List Nat) :
    newTrace (Sys.initSplit m ops) sched = (runSched (Sys.initSplit m ops) sched).trace := by
  simp [newTrace, Sys.initSplit, Sys.init]

theorem initSplit_getElem? (m : MState) (ops : List Op) (i : Nat) (p : Prog Out)
    (hp : (ops.filterMap (fun op => op.prog m))[i]? = some p) :
    (Sys.initSplit m ops).thr[i]? = some (Thr.ofProg (splitProg p)) := by
  simp [Sys.initSplit, Sys.split, Sys.init, hp, Thr.split]

/-! ## B. faults -/

def Res.isFail : Res → Bool
  | .fail _ => true
  | _ => false

/-- the reference store itself never answers `.fail`: a `.fail` in a trace is an injected fault -/
theorem exec_isFail_false (ss : SState) (c : Call) : (ss.exec c).2.isFail = false := by
  cases c <;> simp only [SState.exec, revokeRefreshS, revokeAccessS] <;> (repeat' split) <;> first | rfl | simp_all [Res.isFail]

/-- thread `x.1` performs its next call; if the schedule entry carries a fault `x.2 = some e` and the
    call is a storage call (not `newId`, not a transaction marker of the plain store — the calls for
    which `RState.step` does not consult the plan), the call answers `.fail e` and the shared store is
    untouched; otherwise the call executes atomically as in `Sys.step` -/
def Sys.stepF (s : Sys) (x : Nat × Option Err) : Sys :=
  match s.thr[x.1]? with
  | some t =>
    match t.prog with
    | .call c k =>
      match (if c.quiet then none else x.2) with
      | some e =>
        { ss := s.ss,
          thr := s.thr.set x.1 (Thr.ofProg (k (.fail e))),
          trace := s.trace ++ [(x.1, c, .fail e)] }
      | none =>
        { ss := (s.ss.exec c).1,
          thr := s.thr.set x.1 (Thr.ofProg (k (s.ss.exec c).2)),
          trace := s.trace ++ [(x.1, c, (s.ss.exec c).2)] }
    | .ret _ => s
  | none => s

def runSchedF (s : Sys) (sched : List (Nat × Option Err)) : Sys := sched.foldl Sys.stepF s

theorem stepF_none (s : Sys) (i : Nat) : s.stepF (i, none) = s.step i := by
  unfold Sys.stepF Sys.step
  cases s.thr[i]? with
  | none => rfl
  | some t =>
    simp only
    cases t.prog with
    | ret o => rfl
    | call c k => simp

/-- without faults `runSchedF` is `runSched` -/
theorem runSchedF_noFault (s : Sys) (sched : List Nat) : runSchedF s (sched.map (fun i => (i, none))) = runSched s sched := by
  induction sched generalizing s with
  | nil => rfl
  | cons i sched ih =>
    simp only [List.map_cons, runSchedF, List.foldl_cons, runSched]
    rw [stepF_none]
    exact ih _

/-- the steps of a trace that were not hit by a fault -/
def okTrace (tr : List (Nat × Call × Res)) : List (Nat × Call × Res) := tr.filter (fun e => !e.2.2.isFail)

theorem okTrace_append (a b : List (Nat × Call × Res)) : okTrace (a ++ b) = okTrace a ++ okTrace b := by
  simp [okTrace]

theorem okTrace_cons_ok (e : Nat × Call × Res) (l : List (Nat × Call × Res)) (h : e.2.2.isFail = false) :
    okTrace (e :: l) = e :: okTrace l := by
  simp [okTrace, h]

theorem okTrace_cons_fail (e : Nat × Call × Res) (l : List (Nat × Call × Res)) (h : e.2.2.isFail = true) :
    okTrace (e :: l) = okTrace l := by
  simp [okTrace, h]

theorem mem_okTrace (tr : List (Nat × Call × Res)) (e : Nat × Call × Res) : e ∈ okTrace tr ↔ e ∈ tr ∧ e.2.2.isFail = false := by
  simp [okTrace]

theorem okTrace_of_noFail (tr : List (Nat × Call × Res)) (h : ∀ e ∈ tr, e.2.2.isFail = false) : okTrace tr = tr := by
  simp only [okTrace, List.filter_eq_self]
  intro e he; simp [h e he]

/-- what a run with faults from `s0` has established: `tr` are the steps taken since `s0` -/
structure ReachF (s0 s : Sys) (tr : List (Nat × Call × Res)) : Prop where
  trace : s.trace = s0.trace ++ tr
  /-- the store is the sequential fold of the steps that were not hit by a fault -/
  ss : s.ss = execAll s0.ss (traceCalls (okTrace tr))
  genuine : Genuine s0.ss (okTrace tr)
  /-- only storage calls fail -/
  faults : ∀ e ∈ tr, e.2.2.isFail = true → e.2.1.quiet = false
  len : s.thr.length = s0.thr.length
  thr : ∀ i t0, s0.thr[i]? = some t0 → ∃ t, s.thr[i]? = some t ∧ Prog.follows t0.prog (subTrace i tr) t.prog
  inRange : ∀ e ∈ tr, e.1 < s0.thr.length

theorem ReachF.refl (s : Sys) : ReachF s s [] where
  trace := by simp
  ss := rfl
  genuine := trivial
  faults := by intro e he; cases he
  len := rfl
  thr := fun i t0 h => ⟨t0, h, .nil _⟩
  inRange := by intro e he; cases he

/-- the thread part of one step, shared by the two kinds of step -/
theorem follows_step_thr {s0 s : Sys} {tr : List (Nat × Call × Res)} (i : Nat) (t : Thr) (c : Call) (k : Res → Prog Out) (r : Res)
    (hthr : ∀ j t0, s0.thr[j]? = some t0 → ∃ t, s.thr[j]? = some t ∧ Prog.follows t0.prog (subTrace j tr) t.prog)
    (hi : s.thr[i]? = some t) (hp : t.prog = .call c k) :
    ∀ j t0, s0.thr[j]? = some t0 →
      ∃ t', (s.thr.set i (Thr.ofProg (k r)))[j]? = some t' ∧ Prog.follows t0.prog (subTrace j (tr ++ [(i, c, r)])) t'.prog := by
  have hilt : i < s.thr.length := (List.getElem?_eq_some_iff.mp hi).1
  intro j t0 hj
  obtain ⟨tj, htj, hf⟩ := hthr j t0 hj
  rw [subTrace_append, subTrace_single]
  by_cases hij : i = j
  · subst hij
    rw [hi] at htj; cases htj
    refine ⟨Thr.ofProg (k r), ?_, ?_⟩
    · simp [hilt]
    · simp only [if_true, Thr.prog_ofProg]
      rw [hp] at hf
      exact follows_snoc _ _ _ _ _ hf
  · refine ⟨tj, ?_, ?_⟩
    · simp [hij, htj]
    · simpa [hij] using hf

/-- one step: nothing happens, or one more step of one thread's program — a genuine one, or a fault -/
theorem stepF_idle_none (s : Sys) (x : Nat × Option Err) (hi : s.thr[x.1]? = none) : s.stepF x = s := by
  unfold Sys.stepF; simp only [hi]

theorem stepF_idle_ret (s : Sys) (x : Nat × Option Err) (t : Thr) (o : Out) (hi : s.thr[x.1]? = some t) (hp : t.prog = .ret o) :
    s.stepF x = s := by
  unfold Sys.stepF; simp only [hi, hp]

theorem stepF_fail (s : Sys) (x : Nat × Option Err) (t : Thr) (c : Call) (k : Res → Prog Out) (e : Err)
    (hi : s.thr[x.1]? = some t) (hp : t.prog = .call c k) (hq : (if c.quiet then none else x.2) = some e) :
    s.stepF x = { ss := s.ss, thr := s.thr.set x.1 (Thr.ofProg (k (.fail e))), trace := s.trace ++ [(x.1, c, .fail e)] } := by
  unfold Sys.stepF; simp only [hi, hp, hq]

theorem stepF_exec (s : Sys) (x : Nat × Option Err) (t : Thr) (c : Call) (k : Res → Prog Out)
    (hi : s.thr[x.1]? = some t) (hp : t.prog = .call c k) (hq : (if c.quiet then none else x.2) = none) :
    s.stepF x = { ss := (s.ss.exec c).1, thr := s.thr.set x.1 (Thr.ofProg (k (s.ss.exec c).2)),
                  trace := s.trace ++ [(x.1, c, (s.ss.exec c).2)] } := by
  unfold Sys.stepF; simp only [hi, hp, hq]

/-- one step: nothing happens, or one more step of one thread's program — a genuine one, or a fault -/
theorem ReachF.step {s0 s : Sys} {tr} (h : ReachF s0 s tr) (x : Nat × Option Err) :
    ReachF s0 (s.stepF x) tr ∨ ∃ c r, ReachF s0 (s.stepF x) (tr ++ [(x.1, c, r)]) := by
  cases hi : s.thr[x.1]? with
  | none => left; rw [stepF_idle_none s x hi]; exact h
  | some t =>
    cases hp : t.prog with
    | ret o => left; rw [stepF_idle_ret s x t o hi hp]; exact h
    | call c k =>
      right
      have hilt : x.1 < s.thr.length := (List.getElem?_eq_some_iff.mp hi).1
      cases hq : (if c.quiet then none else x.2) with
      | some e =>
        have hcq : c.quiet = false := by
          cases hc : c.quiet with
          | true => simp [hc] at hq
          | false => rfl
        refine ⟨c, .fail e, ?_⟩
        rw [stepF_fail s x t c k e hi hp hq]
        have hok : okTrace (tr ++ [(x.1, c, Res.fail e)]) = okTrace tr := by
          rw [okTrace_append, okTrace_cons_fail _ _ rfl]; simp [okTrace]
        constructor
        · simp [h.trace, List.append_assoc]
        · rw [hok]; exact h.ss
        · rw [hok]; exact h.genuine
        · intro e' he' hf'
          rcases List.mem_append.mp he' with he' | he'
          · exact h.faults e' he' hf'
          · simp only [List.mem_singleton] at he'; subst he'; exact hcq
        · simp [h.len]
        · exact follows_step_thr x.1 t c k _ h.thr hi hp
        · intro e' he'
          rcases List.mem_append.mp he' with he' | he'
          · exact h.inRange e' he'
          · simp only [List.mem_singleton] at he'; subst he'; rw [← h.len]; exact hilt
      | none =>
        refine ⟨c, (s.ss.exec c).2, ?_⟩
        rw [stepF_exec s x t c k hi hp hq]
        have hok : okTrace (tr ++ [(x.1, c, (s.ss.exec c).2)]) = okTrace tr ++ [(x.1, c, (s.ss.exec c).2)] := by
          rw [okTrace_append, okTrace_cons_ok _ _ (exec_isFail_false _ _)]; simp [okTrace]
        constructor
        · simp [h.trace, List.append_assoc]
        · rw [hok]
          simp only [traceCalls_append, execAll_append, ← h.ss]
          rfl
        · rw [hok, genuine_append]
          refine ⟨h.genuine, ?_⟩
          simp only [Genuine, ← h.ss, and_true]
        · intro e' he' hf'
          rcases List.mem_append.mp he' with he' | he'
          · exact h.faults e' he' hf'
          · simp only [List.mem_singleton] at he'; subst he'
            rw [exec_isFail_false] at hf'; cases hf'
        · simp [h.len]
        · exact follows_step_thr x.1 t c k _ h.thr hi hp
        · intro e' he'
          rcases List.mem_append.mp he' with he' | he'
          · exact h.inRange e' he'
          · simp only [List.mem_singleton] at he'; subst he'; rw [← h.len]; exact hilt

theorem reachF_runSchedF (s0 : Sys) (sched : List (Nat × Option Err)) : ∃ tr, ReachF s0 (runSchedF s0 sched) tr := by
  suffices H : ∀ (s : Sys) tr, ReachF s0 s tr → ∃ tr', ReachF s0 (runSchedF s sched) tr' from H s0 [] (ReachF.refl s0)
  induction sched with
  | nil => intro s tr h; exact ⟨tr, h⟩
  | cons x sched ih =>
    intro s tr h
    rcases h.step x with h' | ⟨c, r, h'⟩
    · exact ih _ _ h'
    · exact ih _ _ h'

/-- the steps a run with faults adds to the trace -/
def newTraceF (s0 : Sys) (sched : List (Nat × Option Err)) : List (Nat × Call × Res) :=
  (runSchedF s0 sched).trace.drop s0.trace.length

theorem reachF_newTraceF (s0 : Sys) (sched : List (Nat × Option Err)) : ReachF s0 (runSchedF s0 sched) (newTraceF s0 sched) := by
  obtain ⟨tr, h⟩ := reachF_runSchedF s0 sched
  have : newTraceF s0 sched = tr := by simp [newTraceF, h.trace]
  rw [this]; exact h

theorem newTraceF_of_empty (s0 : Sys) (h0 : s0.trace = []) (sched : List (Nat × Option Err)) :
    newTraceF s0 sched = (runSchedF s0 sched).trace := by
  simp [newTraceF, h0]

/-! ### handed tokens under every schedule with faults -/

theorem finished_thread_owns_F (s0 : Sys) (ho : s0.Owned) (sched : List (Nat × Option Err)) (i : Nat) (o : Out)
    (hout : (runSchedF s0 sched).outs[i]? = some (some o)) :
    Prog.follows (s0.thr[i]?.map Thr.prog |>.getD (.ret o)) (subTrace i (newTraceF s0 sched)) (.ret o) ∧
    Handed (ownAfter {} (subTrace i (newTraceF s0 sched))) o := by
  have R := reachF_newTraceF s0 sched
  obtain ⟨t, ht, hp⟩ := outs_getElem? _ i o hout
  have hilt : i < s0.thr.length := by
    rw [← R.len]; exact (List.getElem?_eq_some_iff.mp ht).1
  obtain ⟨t', ht', hf⟩ := R.thr i s0.thr[i] (List.getElem?_eq_getElem hilt)
  rw [ht] at ht'; cases ht'
  rw [hp] at hf
  refine ⟨?_, ownK_sound {} _ Handed _ o (ho _ (List.getElem_mem hilt)) hf⟩
  simp [List.getElem?_eq_getElem hilt, hf]

theorem okTrace_split (l1 l2 : List (Nat × Call × Res)) (e : Nat × Call × Res) (h : e.2.2.isFail = false) :
    okTrace (l1 ++ e :: l2) = okTrace l1 ++ e :: okTrace l2 := by
  rw [okTrace_append, okTrace_cons_ok e l2 h]

theorem handed_access_F (s0 : Sys) (ho : s0.Owned) (sched : List (Nat × Option Err)) (i : Nat) (o : Out) (atk : Nat)
    (hout : (runSchedF s0 sched).outs[i]? = some (some o)) (ha : o.handedAccess = some atk) :
    ∃ q l1 l2, newTraceF s0 sched = l1 ++ (i, .createAccess q, .nat atk) :: l2 ∧
      (alookup (runSchedF s0 sched).ss.store.access atk = some q ∨
        ∃ e ∈ l2, e.1 ≠ i ∧ e.2.2.isFail = false ∧ e.2.1.removesAccess atk q.id = true) := by
  have R := reachF_newTraceF s0 sched
  obtain ⟨q, hq⟩ := (finished_thread_owns_F s0 ho sched i o hout).2.1 atk ha
  rcases ownAfter_acc {} _ atk q hq with ⟨hm, _⟩ | ⟨m1, m2, hl, hcl⟩
  · cases hm
  · obtain ⟨l1, l2, htr, _, h2⟩ := subTrace_split i _ m1 m2 _ hl
    refine ⟨q, l1, l2, htr, ?_⟩
    have hg := R.genuine
    rw [htr, okTrace_split l1 l2 _ rfl] at hg
    rcases created_access_present_or_removed s0.ss (okTrace l1) (okTrace l2) i q atk hg with h | ⟨e, he, hr⟩
    · left; rw [R.ss, htr, okTrace_split l1 l2 _ rfl]; exact h
    · right
      obtain ⟨he2, hnf⟩ := (mem_okTrace l2 e).mp he
      refine ⟨e, he2, ?_, hnf, hr⟩
      intro hi
      have := hcl e.2 (by rw [← h2]; exact mem_subTrace i l2 e he2 hi)
      rw [this] at hr; cases hr

theorem handed_refresh_F (s0 : Sys) (ho : s0.Owned) (hf : Fresh s0.ss) (sched : List (Nat × Option Err)) (i : Nat) (o : Out) (rt : Nat)
    (hout : (runSchedF s0 sched).outs[i]? = some (some o)) (ha : o.handedRefresh = some rt) :
    ∃ a q l1 l2, newTraceF s0 sched = l1 ++ (i, .createRefresh a q, .nat rt) :: l2 ∧
      (alookup (runSchedF s0 sched).ss.store.refresh rt = some { active := true, atSig := a, req := q } ∨
        ∃ e ∈ l2, e.1 ≠ i ∧ e.2.2.isFail = false ∧ e.2.1.removesRefresh rt q.id = true) := by
  have R := reachF_newTraceF s0 sched
  obtain ⟨a, q, hq⟩ := (finished_thread_owns_F s0 ho sched i o hout).2.2 rt ha
  rcases ownAfter_rts {} _ rt a q hq with ⟨hm, _⟩ | ⟨m1, m2, hl, hcl⟩
  · cases hm
  · obtain ⟨l1, l2, htr, _, h2⟩ := subTrace_split i _ m1 m2 _ hl
    refine ⟨a, q, l1, l2, htr, ?_⟩
    have hg := R.genuine
    rw [htr, okTrace_split l1 l2 _ rfl] at hg
    rcases created_refresh_present_or_removed s0.ss hf (okTrace l1) (okTrace l2) i a q rt hg with h | ⟨e, he, hr⟩
    · left; rw [R.ss, htr, okTrace_split l1 l2 _ rfl]; exact h
    · right
      obtain ⟨he2, hnf⟩ := (mem_okTrace l2 e).mp he
      refine ⟨e, he2, ?_, hnf, hr⟩
      intro hi
      have := hcl e.2 (by rw [← h2]; exact mem_subTrace i l2 e he2 hi)
      rw [this] at hr; cases hr

/-- positions `a < b` of a trace, both not hit by a fault, are positions of the fault-free sub-trace in
    the same order -/
theorem okTrace_two (tr : List (Nat × Call × Res)) (a b : Nat) (x y : Nat × Call × Res) (hab : a < b)
    (ha : tr[a]? = some x) (hb : tr[b]? = some y) (hx : x.2.2.isFail = false) (hy : y.2.2.isFail = false) :
    ∃ l1 l2 l3, okTrace tr = l1 ++ x :: (l2 ++ y :: l3) := by
  obtain ⟨l1, l2, l3, htr⟩ := split_at_two tr a b x y hab ha hb
  refine ⟨okTrace l1, okTrace l2, okTrace l3, ?_⟩
  rw [htr, okTrace_split l1 _ x hx, okTrace_split l2 l3 y hy]

theorem okTrace_one (tr : List (Nat × Call × Res)) (a : Nat) (x : Nat × Call × Res)
    (ha : tr[a]? = some x) (hx : x.2.2.isFail = false) :
    ∃ l1 l2, okTrace tr = l1 ++ x :: l2 := by
  obtain ⟨l1, l2, htr, _⟩ := split_at tr a x ha
  exact ⟨okTrace l1, okTrace l2, by rw [htr, okTrace_split l1 l2 x hx]⟩

/-! ### one fault plan per thread (`RunCfg.plan`, indexed by the thread's own storage-call count) -/

/-- the number of storage calls thread `i` has made so far: what `RState.idx` counts -/
def thrIdx (s : Sys) (i : Nat) : Nat := ((subTrace i s.trace).filter (fun e => !e.1.quiet)).length

/-- thread `i` performs its next call under its own fault plan `plans i` -/
def Sys.stepP (plans : Nat → Nat → Option Err) (s : Sys) (i : Nat) : Sys := s.stepF (i, plans i (thrIdx s i))

def runSchedP (plans : Nat → Nat → Option Err) (s : Sys) (sched : List Nat) : Sys := sched.foldl (Sys.stepP plans) s

/-- every run under per-thread fault plans is a `runSchedF` run with the same thread order -/
theorem runSchedP_is_runSchedF (plans : Nat → Nat → Option Err) (s : Sys) (sched : List Nat) :
    ∃ sched', sched'.map Prod.fst = sched ∧ runSchedP plans s sched = runSchedF s sched' := by
  induction sched generalizing s with
  | nil => exact ⟨[], rfl, rfl⟩
  | cons i sched ih =>
    obtain ⟨l, hl, he⟩ := ih (s.stepP plans i)
    exact ⟨(i, plans i (thrIdx s i)) :: l, by simp [hl], by simpa [runSchedP, runSchedF, Sys.stepP] using he⟩

theorem quiet_eq_silent_or_tx (c : Call) : c.quiet = (c.isSilent || c.isTx) := rfl

/-- **one `stepP` is one `RState.step` of the non-transactional interpreter** run by thread `i` on the
    shared store with its own plan and its own call counter (`rs` is the thread's private interpreter
    state: it sees the shared store and has counted `thrIdx s i` storage calls): same store state
    afterwards, same answer handed to the continuation, same counter -/
theorem stepP_is_RState_step (plans : Nat → Nat → Option Err) (s : Sys) (i : Nat) (t : Thr) (c : Call) (k : Res → Prog Out)
    (hi : s.thr[i]? = some t) (hp : t.prog = .call c k) (rs : RState) (hss : rs.ss = s.ss) (hix : rs.idx = thrIdx s i) :
    (s.stepP plans i).ss = (rs.step { plan := plans i, tx := false } c).1.ss ∧
    (s.stepP plans i).thr[i]? = some (Thr.ofProg (k (rs.step { plan := plans i, tx := false } c).2)) ∧
    thrIdx (s.stepP plans i) i = (rs.step { plan := plans i, tx := false } c).1.idx ∧
    (s.stepP plans i).thr.length = s.thr.length := by
  have hilt : i < s.thr.length := (List.getElem?_eq_some_iff.mp hi).1
  have hidx : ∀ (ss' : SState) (thr' : List Thr) (r : Res), thrIdx { ss := ss', thr := thr', trace := s.trace ++ [(i, c, r)] } i
      = thrIdx s i + (if c.quiet then 0 else 1) := by
    intro ss' thr' r
    simp only [thrIdx, subTrace_append, subTrace_single, if_true, List.filter_append, List.length_append]
    cases hc : c.quiet <;> simp [hc]
  unfold Sys.stepP
  cases hq : (if c.quiet then none else plans i (thrIdx s i)) with
  | some e =>
    have hcq : c.quiet = false := by
      cases hc : c.quiet with
      | true => simp [hc] at hq
      | false => rfl
    have hpl : plans i rs.idx = some e := by rw [hix]; simpa [hcq] using hq
    rw [stepF_fail s (i, _) t c k e hi hp hq]
    have hs : c.isSilent = false := by
      have := hcq; rw [quiet_eq_silent_or_tx] at this; simp at this; exact this.1
    have ht : c.isTx = false := by
      have := hcq; rw [quiet_eq_silent_or_tx] at this; simp at this; exact this.2
    refine ⟨?_, ?_, ?_, ?_⟩
    · simp [RState.step, hs, ht, hpl, hss]
    · simp [RState.step, hs, ht, hpl, hilt]
    · rw [hidx, ← hix]; simp [RState.step, hs, ht, hpl, hcq]
    · simp
  | none =>
    rw [stepF_exec s (i, _) t c k hi hp hq]
    have hstep : (rs.step { plan := plans i, tx := false } c).1.ss = (s.ss.exec c).1 ∧
        (rs.step { plan := plans i, tx := false } c).2 = (s.ss.exec c).2 ∧
        (rs.step { plan := plans i, tx := false } c).1.idx = thrIdx s i + (if c.quiet then 0 else 1) := by
      rw [← hss, ← hix]
      cases hcq : c.quiet with
      | true =>
        cases c <;> simp [Call.quiet, Call.isSilent, Call.isTx] at hcq <;>
          simp [RState.step, Call.isSilent, Call.isTx, SState.exec]
      | false =>
        have hpl : plans i rs.idx = none := by rw [hix]; simpa [hcq] using hq
        cases c <;> simp [Call.quiet, Call.isSilent, Call.isTx] at hcq <;>
          simp [RState.step, Call.isSilent, Call.isTx, hpl]
    refine ⟨hstep.1.symm, ?_, ?_, ?_⟩
    · simp [hstep.2.1, hilt]
    · rw [hidx]; exact hstep.2.2.symm
    · simp

theorem stepP_idle (plans : Nat → Nat → Option Err) (s : Sys) (i : Nat) (t : Thr) (o : Out)
    (hi : s.thr[i]? = some t) (hp : t.prog = .ret o) : s.stepP plans i = s :=
  stepF_idle_ret s (i, _) t o hi hp

theorem runSchedP_idle (plans : Nat → Nat → Option Err) (s : Sys) (i : Nat) (t : Thr) (o : Out)
    (hi : s.thr[i]? = some t) (hp : t.prog = .ret o) (m : Nat) : runSchedP plans s (List.replicate m i) = s := by
  induction m with
  | zero => rfl
  | succ m ih =>
    simp only [List.replicate_succ, runSchedP, List.foldl_cons]
    rw [stepP_idle plans s i t o hi hp]
    exact ih

/-- **a thread that is scheduled often enough runs its program exactly as the sequential interpreter
    `run` does under the thread's fault plan** (non-transactional store): scheduling only thread `i`,
    from any system state, ends — after finitely many steps, and stays there — in the store state and
    with the outcome of `run { plan := plans i } ⟨shared store, calls made so far⟩` on the thread's
    program -/
theorem runSchedP_alone_is_run (plans : Nat → Nat → Option Err) (p : Prog Out) :
    ∀ (s : Sys) (i : Nat) (t : Thr) (rs : RState), s.thr[i]? = some t → t.prog = p → rs.ss = s.ss → rs.idx = thrIdx s i →
      ∃ n, ∀ m, n ≤ m →
        (runSchedP plans s (List.replicate m i)).ss = (run { plan := plans i, tx := false } rs p).1.ss ∧
        (runSchedP plans s (List.replicate m i)).outs[i]? = some (some (run { plan := plans i, tx := false } rs p).2) := by
  induction p with
  | ret o =>
    intro s i t rs hi hp hss _
    refine ⟨0, fun m _ => ?_⟩
    rw [runSchedP_idle plans s i t o hi hp m]
    refine ⟨hss.symm, ?_⟩
    simp only [Sys.outs, List.getElem?_map, hi, Option.map_some, run_ret]
    rw [(Thr.out_eq_some t o).mpr hp]
  | call c k ih =>
    intro s i t rs hi hp hss hix
    obtain ⟨h1, h2, h3, _⟩ := stepP_is_RState_step plans s i t c k hi hp rs hss hix
    obtain ⟨n, hn⟩ := ih _ (s.stepP plans i) i _ (rs.step { plan := plans i, tx := false } c).1 h2 (Thr.prog_ofProg _) h1.symm h3.symm
    refine ⟨n + 1, fun m hm => ?_⟩
    obtain ⟨m', rfl⟩ : ∃ m', m = m' + 1 := ⟨m - 1, by omega⟩
    have := hn m' (by omega)
    simp only [List.replicate_succ, runSchedP, List.foldl_cons, run_call]
    exact this

/-! ### every atomic-rotation run is a split-rotation run -/

theorem sysStep_idle_none (s : Sys) (i : Nat) (hi : s.thr[i]? = none) : s.step i = s := by
  unfold Sys.step; simp only [hi]

theorem sysStep_idle_ret (s : Sys) (i : Nat) (t : Thr) (o : Out) (hi : s.thr[i]? = some t) (hp : t.prog = .ret o) : s.step i = s := by
  unfold Sys.step; simp only [hi, hp]

theorem sysStep_call (s : Sys) (i : Nat) (t : Thr) (c : Call) (k : Res → Prog Out) (hi : s.thr[i]? = some t) (hp : t.prog = .call c k) :
    s.step i = { ss := (s.ss.exec c).1, thr := s.thr.set i (Thr.ofProg (k (s.ss.exec c).2)),
                 trace := s.trace ++ [(i, c, (s.ss.exec c).2)] } := by
  unfold Sys.step; simp only [hi, hp]

/-- `s'` is the split version of `s` as far as store and programs go (the traces differ: two entries
    per rotation) -/
def SplitSim (s' s : Sys) : Prop := s'.ss = s.ss ∧ s'.thr.map Thr.prog = s.thr.map (fun t => splitProg t.prog)

theorem SplitSim.getElem? {s' s : Sys} (h : SplitSim s' s) (i : Nat) :
    (s.thr[i]? = none → s'.thr[i]? = none) ∧
    (∀ t, s.thr[i]? = some t → ∃ t', s'.thr[i]? = some t' ∧ t'.prog = splitProg t.prog) := by
  have := congrArg (fun l => l[i]?) h.2
  simp only [List.getElem?_map] at this
  constructor
  · intro hn; rw [hn] at this; simpa using this
  · intro t ht; rw [ht] at this
    cases h' : s'.thr[i]? with
    | none => rw [h'] at this; simp at this
    | some t' => rw [h'] at this; simp at this; exact ⟨t', rfl, this⟩

theorem SplitSim.set {s' s : Sys} (h : SplitSim s' s) (i : Nat) (ss1 : SState) (p : Prog Out) (tr' tr : List (Nat × Call × Res)) :
    SplitSim { ss := ss1, thr := s'.thr.set i (Thr.ofProg (splitProg p)), trace := tr' }
             { ss := ss1, thr := s.thr.set i (Thr.ofProg p), trace := tr } := by
  refine ⟨rfl, ?_⟩
  simp only [List.map_set, Thr.prog_ofProg, h.2]

/-- one atomic step is simulated by zero, one or two steps of the same thread of the split system -/
theorem splitSim_step {s' s : Sys} (h : SplitSim s' s) (i : Nat) :
    ∃ l, (∀ j ∈ l, j = i) ∧ SplitSim (runSched s' l) (s.step i) := by
  obtain ⟨hnone, hsome⟩ := h.getElem? i
  cases hi : s.thr[i]? with
  | none => exact ⟨[], by simp, by rw [sysStep_idle_none s i hi]; exact h⟩
  | some t =>
    obtain ⟨t', hi', hp'⟩ := hsome t hi
    cases hp : t.prog with
    | ret o => exact ⟨[], by simp, by rw [sysStep_idle_ret s i t o hi hp]; exact h⟩
    | call c k =>
      rw [sysStep_call s i t c k hi hp]
      rw [hp] at hp'
      have hilt' : i < s'.thr.length := (List.getElem?_eq_some_iff.mp hi').1
      cases hc : c.rotateId with
      | none =>
        rw [splitProg_call_other c k hc] at hp'
        refine ⟨[i], by simp, ?_⟩
        show SplitSim (s'.step i) _
        rw [sysStep_call s' i t' c _ hi' hp', h.1]
        exact h.set i _ _ _ _
      | some rid =>
        obtain ⟨x, rfl⟩ := Call.rotateId_some c rid hc
        rw [splitProg_call_rotate] at hp'
        have h1 := sysStep_call s' i t' _ _ hi' hp'
        rw [exec_rotate_eq s.ss rid x, ← h.1]
        cases hr : (s'.ss.exec (.revokeRefresh rid)).2 with
        | ok =>
          refine ⟨[i, i], by simp, ?_⟩
          show SplitSim ((s'.step i).step i) _
          rw [h1]
          simp only [hr]
          rw [sysStep_call _ i (Thr.ofProg (.call (.revokeAccess rid) (fun r2 => splitProg (k r2)))) (.revokeAccess rid)
            (fun r2 => splitProg (k r2)) (by simp [hilt']) (Thr.prog_ofProg _)]
          simp only [List.set_set]
          exact h.set i _ _ _ _
        | _ =>
          refine ⟨[i], by simp, ?_⟩
          show SplitSim (s'.step i) _
          rw [h1]
          simp only [hr]
          exact h.set i _ _ _ _

theorem splitSim_split (s : Sys) : SplitSim s.split s := by
  refine ⟨rfl, ?_⟩
  simp [Sys.split, Thr.split]

/-- **every run of the atomic-rotation semantics is a run of the split-rotation semantics**: for every
    schedule there is a schedule of the split system (the same thread order, a thread repeated where it
    rotates) that ends in the same store state with every thread at the split version of where it is -/
theorem split_covers_atomic (s : Sys) (sched : List Nat) :
    ∃ sched', (runSched s.split sched').ss = (runSched s sched).ss ∧
      (runSched s.split sched').thr.map Thr.prog = (runSched s sched).thr.map (fun t => splitProg t.prog) := by
  suffices H : ∀ (s' s : Sys), SplitSim s' s → ∃ sched', SplitSim (runSched s' sched') (runSched s sched) from
    H s.split s (splitSim_split s)
  induction sched with
  | nil => intro s' s h; exact ⟨[], h⟩
  | cons i sched ih =>
    intro s' s h
    obtain ⟨l, _, hl⟩ := splitSim_step h i
    obtain ⟨l2, hl2⟩ := ih _ _ hl
    exact ⟨l ++ l2, by rw [runSched_append]; exact hl2⟩

/-! ### split threads under faults; vocabulary -/

theorem reachF_noRotate {s0 s : Sys} {tr} (R : ReachF s0 s tr) (h : s0.NoRotate) : ∀ e ∈ tr, e.2.1.rotateId = none := by
  intro e he
  have hlt := R.inRange e he
  obtain ⟨t, _, hf⟩ := R.thr e.1 s0.thr[e.1] (List.getElem?_eq_getElem hlt)
  exact (follows_noRotate _ _ _ hf (h _ (List.getElem_mem hlt))).1 e.2 (mem_subTrace_of_mem tr e he)

/-- a removing call for an access token that is not a rotation -/
theorem removesAccess_noRotate (c : Call) (sig rid : Nat) (h : c.removesAccess sig rid = true) (hn : c.rotateId = none) :
    c = .deleteAccess (some sig) ∨ c = .revokeAccess rid := by
  cases c <;> simp [Call.removesAccess, Call.rotateId] at h hn
  case deleteAccess k =>
    cases k with
    | none => simp at h
    | some k => simp at h; left; rw [h]
  case revokeAccess id => right; rw [h]

/-- a removing call for a refresh token that is not a rotation -/
theorem removesRefresh_noRotate (c : Call) (sig rid : Nat) (h : c.removesRefresh sig rid = true) (hn : c.rotateId = none) :
    c = .deleteRefresh (some sig) ∨ c = .revokeRefresh rid := by
  cases c <;> simp [Call.removesRefresh, Call.rotateId] at h hn
  case deleteRefresh k =>
    cases k with
    | none => simp at h
    | some k => simp at h; left; rw [h]
  case revokeRefresh id => right; rw [h]

/-- what one step with a fault decision does to the shared store: nothing (idle thread, or the call
    was hit by the fault and answered `.fail`), or exactly the store operation -/
theorem stepF_store_cases (s : Sys) (x : Nat × Option Err) :
    (s.stepF x = s) ∨
    (∃ c e, c.quiet = false ∧ x.2 = some e ∧ (s.stepF x).ss = s.ss ∧ (s.stepF x).trace = s.trace ++ [(x.1, c, .fail e)]) ∨
    (∃ c, (s.stepF x).ss = (s.ss.exec c).1 ∧ (s.stepF x).trace = s.trace ++ [(x.1, c, (s.ss.exec c).2)]) := by
  cases hi : s.thr[x.1]? with
  | none => left; exact stepF_idle_none s x hi
  | some t =>
    cases hp : t.prog with
    | ret o => left; exact stepF_idle_ret s x t o hi hp
    | call c k =>
      right
      cases hq : (if c.quiet then none else x.2) with
      | some e =>
        left
        have hcq : c.quiet = false := by
          cases hc : c.quiet with
          | true => simp [hc] at hq
          | false => rfl
        refine ⟨c, e, hcq, by simpa [hcq] using hq, ?_, ?_⟩ <;> rw [stepF_fail s x t c k e hi hp hq]
      | none =>
        right
        refine ⟨c, ?_, ?_⟩ <;> rw [stepF_exec s x t c k hi hp hq]

/-- the first half of a rotation leaves the access table and the mint counter alone -/
theorem exec_firstHalf_access (ss : SState) (rid : Nat) :
    (ss.exec (.revokeRefresh rid)).1.store.access = ss.store.access ∧ (ss.exec (.revokeRefresh rid)).1.next = ss.next := by
  have he := revokeRefreshS_effect ss.store rid
  exact ⟨he.2.2.2.1, rfl⟩

/-- the second half, run right after a first half that answered `.ok`, completes the atomic rotation -/
theorem exec_halves_eq_rotate (ss : SState) (rid : Nat) (x : Option Nat) (h : (ss.exec (.revokeRefresh rid)).2 = .ok) :
    (ss.exec (.revokeRefresh rid)).1.exec (.revokeAccess rid) = ss.exec (.rotateRefresh rid x) := by
  rw [exec_rotate_eq, h]

theorem exec_firstHalf_err_eq_rotate (ss : SState) (rid : Nat) (x : Option Nat) (h : (ss.exec (.revokeRefresh rid)).2 ≠ .ok) :
    ss.exec (.revokeRefresh rid) = ss.exec (.rotateRefresh rid x) := by
  rw [exec_rotate_eq]
  cases hr : (ss.exec (.revokeRefresh rid)).2 <;> first | (exact absurd hr h) | (simp only []; rw [← hr])

end Fosite.Model

/-
  PKCE binding over histories (C03, the "stays true after any number of failed attempts" clause).

  * `PkceGuard sig`: the storage calls that could break what is stored under code signature `sig` —
    `createPKCE sig`, `deletePKCE sig`, `invalidateCode sig`.  Every endpoint program other than the code
    redemption is shown never to make such a call (`prog_okG`): the authorization endpoints create PKCE
    sessions only under the code they have just minted (`wpGH_authzPKCE`, with the "fresh code" fact
    threaded through the handler chain), all other programs do not touch the two tables at all.
  * `AtSig sig P`: a fact about the code record and the PKCE record stored under `sig`; preserved by every
    call that satisfies the guard (`exec_AtSig`), hence by every operation other than a code redemption
    (`step_AtSig_other`).
  * The code redemption is analysed through its pure form (`Proofs/Refusals.lean`): presenting another
    code it satisfies the guard; presenting `sig` it either leaves both records alone or consumes the code.
  * `SpentOr B`: "consumed, or `B`" survives EVERY operation (`step_SpentOr`), hence every history.
  * `authorize_establishes`, `history_respects_bindings`: what the authorization endpoint leaves behind for a
    code it returns, and the statement over all bindings of all histories.
  * `OidcInv`: the OIDC session stored under a code grants `openid` and names a subject, in every
    reachable state (`reachable_sessionOk`) — which discharges the side condition `OidcSessionOk`.
-/
import Fosite.Proofs.Refusals
import Fosite.Proofs.GrantHistory
namespace Fosite.Model


/-- calls that could break the PKCE binding of code `sig`: overwriting or deleting its PKCE session,
    invalidating the code -/
def PkceGuard (sig : Nat) : SState → Call → Prop
  | _, .createPKCE k _ => k ≠ sig
  | _, .deletePKCE k => k ≠ some sig
  | _, .invalidateCode k => k ≠ some sig
  | _, _ => True

/-- the calls that write a PKCE or OIDC session, delete a PKCE session, or invalidate a code: the only
    calls the guards of this file constrain -/
def Call.sensitive : Call → Bool
  | .createPKCE _ _ | .deletePKCE _ | .invalidateCode _ | .createOIDC _ _ => true
  | _ => false

theorem pkceGuard_calm (sig : Nat) (ss : SState) (c : Call) (h : c.sensitive = false) : PkceGuard sig ss c := by
  cases c <;> first | trivial | cases h

attribute [local irreducible] wpG wpGH

set_option hygiene false in
/-- discharges `wpG I G p (fun _ _ => True) ss` for programs all of whose calls are insensitive
    (`hG : ∀ ss c, c.sensitive = false → G ss c` in scope) -/
macro "wpg_auto" : tactic => `(tactic| repeat' first
  | trivial
  | intro _
  | apply And.intro
  | (apply hG; first | rfl | (unfold revokeFirst; split <;> rfl) | (unfold revokeSecond; split <;> rfl))
  | (simp only [wpG_run, wpG_toProg, wpGH_bind, wpGH_callH, wpGH_guard, wpGH_expectReq, wpGH_expectNat, wpGH_expectOk,
      wpGH_expectClient, wpGH_expectDev, wpGH_expectPar, wpGH_optErr, wpGH_ite, wpGH_pure, wpGH_ok, wpGH_fail,
      wpG_pbind, wpG_call, wpG_pure, wpG_ret, wpG_retErr, implies_true, and_self, and_true, true_and])
  | split)

section
variable (I : SState → Prop) (G : SState → Call → Prop) (hG : ∀ ss c, c.sensitive = false → G ss c)
include hG

theorem okG_revoke (q : RevokeReq) (ss : SState) :
    wpG I G (revokeProg q) (fun _ _ => True) ss := by
  unfold revokeProg revokeH revokeH.revokeFound revocationError authenticate
  wpg_auto


theorem okG_introspect (cfg now) (q : IntrospectReq) (ss : SState) :
    wpG I G (introspectProg cfg now q) (fun _ _ => True) ss := by
  unfold introspectProg attempt introspectAccess introspectRefresh
  wpg_auto

theorem okG_clientCredentials (cfg now) (q : DirectReq) (ss : SState) :
    wpG I G (clientCredentialsProg cfg now q) (fun _ _ => True) ss := by
  unfold clientCredentialsProg clientCredentialsH authenticate
  wpg_auto

theorem okG_password (cfg now) (q : DirectReq) (ss : SState) :
    wpG I G (passwordProg cfg now q) (fun _ _ => True) ss := by
  unfold passwordProg passwordH authenticate
  wpg_auto

theorem okG_deviceAuth (cfg now) (q : DeviceAuthReq) (ss : SState) :
    wpG I G (deviceAuthProg cfg now q) (fun _ _ => True) ss := by
  unfold deviceAuthProg deviceAuthH authenticate
  wpg_auto

theorem okG_parPush (cfg now) (q : ParPushReq) (ss : SState) :
    wpG I G (parPushProg cfg now q) (fun _ _ => True) ss := by
  unfold parPushProg parPushH authenticate
  wpg_auto

theorem okG_introspectEndpoint (cfg now) (q : IntrospectEndpointReq) (ss : SState) :
    wpG I G (introspectEndpointProg cfg now q) (fun _ _ => True) ss := by
  unfold introspectEndpointProg
  have hi : ∀ q' ss' (Q : SState → Out → Prop), (∀ s o, Q s o) → wpG I G (introspectProg cfg now q') Q ss' := by
    intro q' ss' Q hQ
    exact wpG_mono I _ _ _ Q ss' (fun s o _ => hQ s o) (okG_introspect I G hG cfg now q' ss')
  wpg_auto
  all_goals (apply hi; intro s o; wpg_auto)
  all_goals (apply hi; intro s o; wpg_auto)

theorem okG_devicePoll (cfg now) (q : DevicePollReq) (ss : SState) :
    wpG I G (devicePollProg cfg now q) (fun _ _ => True) ss := by
  unfold devicePollProg devicePollH authenticate deviceStateGate oidcDevicePopulate deviceLookupFailed deviceReplay rollbackThen
  wpg_auto

theorem okG_refresh (cfg now) (q : RefreshReq) (ss : SState) :
    wpG I G (refreshProg cfg now q) (fun _ _ => True) ss := by
  unfold refreshProg refreshH authenticate refreshLookupFailed refreshReuse refreshStorageError
  wpg_auto


end

/-! ### the authorization endpoints: PKCE sessions are created under freshly minted codes only -/



macro "wpg_step" : tactic => `(tactic| (simp only [wpG_run, wpG_toProg, wpGH_bind, wpGH_callH, wpGH_guard, wpGH_expectReq, wpGH_expectNat, wpGH_expectOk,
      wpGH_expectClient, wpGH_expectDev, wpGH_expectPar, wpGH_optErr, wpGH_ite, wpGH_pure, wpGH_ok, wpGH_fail,
      wpG_pbind, wpG_call, wpG_pure, wpG_ret, wpG_retErr, PkceGuard, implies_true, and_self, and_true, true_and]))

/-- the code the handlers have produced so far (if any) is not `sig` -/
def FreshCode (sig : Nat) (acc : AuthzAcc) : Prop := ∀ c, acc.code = some c → c ≠ sig

theorem exec_createCode_snd (ss : SState) (r : Req) : (ss.exec (.createCode r)).2 = .nat ss.next := rfl

section
variable (I : SState → Prop) (sig : Nat) (hlt : ∀ ss, I ss → sig < ss.next)

include hlt in
theorem wpGH_authzExplicit (cfg : Config) (now : Time) (client : Client) (q : AuthzReq) (acc : AuthzAcc)
    (Kok : SState → AuthzAcc → Prop) (ss : SState) (h0 : I ss) (hacc : FreshCode sig acc)
    (hok : ∀ ss' acc', I ss' → FreshCode sig acc' → Kok ss' acc') :
    wpGH I (PkceGuard sig) (authzExplicit cfg now client q acc) Kok (fun _ _ => True) ss := by
  unfold authzExplicit
  wpg_step
  refine ⟨fun _ => hok _ _ h0 hacc, fun _ _ _ _ h1 => ?_⟩
  simp only [exec_createCode_snd, Res.nat.injEq, forall_eq']
  apply hok _ _ h1
  intro c hc
  cases hc
  exact Nat.ne_of_gt (hlt ss h0)

theorem wpGH_authzImplicit (cfg : Config) (now : Time) (client : Client) (q : AuthzReq) (acc : AuthzAcc)
    (Kok : SState → AuthzAcc → Prop) (ss : SState) (h0 : I ss) (hacc : FreshCode sig acc)
    (hok : ∀ ss' acc', I ss' → FreshCode sig acc' → Kok ss' acc') :
    wpGH I (PkceGuard sig) (authzImplicit cfg now client q acc) Kok (fun _ _ => True) ss := by
  unfold authzImplicit
  wpg_step
  refine ⟨fun _ => hok _ _ h0 hacc, fun _ _ _ _ h1 n _ => ?_⟩
  exact hok _ _ h1 hacc

theorem wpGH_authzOIDCExplicit (q : AuthzReq) (acc : AuthzAcc)
    (Kok : SState → AuthzAcc → Prop) (ss : SState) (h0 : I ss) (hacc : FreshCode sig acc)
    (hok : ∀ ss' acc', I ss' → FreshCode sig acc' → Kok ss' acc') :
    wpGH I (PkceGuard sig) (authzOIDCExplicit q acc) Kok (fun _ _ => True) ss := by
  unfold authzOIDCExplicit
  wpg_step
  refine ⟨fun _ => hok _ _ h0 hacc, fun _ => ?_⟩
  split
  · wpg_step
  · wpg_step
    intro _ _ h1 _
    exact hok _ _ h1 hacc

theorem wpGH_authzPKCE (cfg : Config) (client : Client) (q : AuthzReq) (acc : AuthzAcc)
    (Kok : SState → AuthzAcc → Prop) (ss : SState) (h0 : I ss) (hacc : FreshCode sig acc)
    (hok : ∀ ss' acc', I ss' → FreshCode sig acc' → Kok ss' acc') :
    wpGH I (PkceGuard sig) (authzPKCE cfg client q acc) Kok (fun _ _ => True) ss := by
  unfold authzPKCE
  wpg_step
  refine ⟨fun _ => hok _ _ h0 hacc, fun _ _ => ⟨fun _ => hok _ _ h0 hacc, fun _ => ?_⟩⟩
  split
  · wpg_step
  · rename_i c hc
    wpg_step
    exact ⟨hacc c hc, fun h1 _ => hok _ _ h1 hacc⟩

include hlt in
theorem wpGH_authzHybrid (cfg : Config) (now : Time) (minNonce : Nat) (client : Client) (q : AuthzReq) (acc : AuthzAcc)
    (Kok : SState → AuthzAcc → Prop) (ss : SState) (h0 : I ss) (hacc : FreshCode sig acc)
    (hok : ∀ ss' acc', I ss' → FreshCode sig acc' → Kok ss' acc') :
    wpGH I (PkceGuard sig) (authzHybrid cfg now minNonce client q acc) Kok (fun _ _ => True) ss := by
  unfold authzHybrid
  wpg_step
  refine ⟨fun _ => hok _ _ h0 hacc, fun _ _ _ _ _ _ _ h1 => ?_⟩
  simp only [exec_createCode_snd, Res.nat.injEq, forall_eq']
  have hf : ∀ (a : AuthzAcc), a.code = some ss.next → FreshCode sig a := by
    intro a ha c hc
    rw [ha] at hc; cases hc
    exact Nat.ne_of_gt (hlt ss h0)
  repeat' first
    | intro _
    | apply And.intro
    | (apply hok <;> first | assumption | (apply hf; rfl))

include hlt in
theorem okG_authorize (cfg : Config) (now : Time) (minNonce : Nat) (q : AuthzReq) (ss : SState) :
    wpG I (PkceGuard sig) (authorizeProg cfg now minNonce q) (fun _ _ => True) ss := by
  unfold authorizeProg authorizeH
  wpg_step
  intro _ h1 client _ _ _ h2 rid _
  have hI : I ((ss.exec (.getClient q.clientId)).1.exec .newId).1 := h2
  apply wpGH_authzExplicit I sig hlt _ _ _ _ _ _ _ hI (by intro c hc; cases hc)
  intro s1 a1 hI1 hf1
  apply wpGH_authzImplicit I sig _ _ _ _ _ _ _ hI1 hf1
  intro s2 a2 hI2 hf2
  apply wpGH_authzOIDCExplicit I sig _ _ _ _ hI2 hf2
  intro s3 a3 hI3 hf3 _
  apply wpGH_authzHybrid I sig hlt _ _ _ _ _ _ _ _ hI3 hf3
  intro s5 a5 hI5 hf5
  apply wpGH_authzPKCE I sig _ _ _ _ _ _ hI5 hf5
  intro s6 a6 _ _
  trivial

include hlt in
theorem okG_authorizePar (cfg : Config) (now : Time) (minNonce : Nat) (a : AuthzParReq) (ss : SState) :
    wpG I (PkceGuard sig) (authorizeParProg cfg now minNonce a) (fun _ _ => True) ss := by
  unfold authorizeParProg authorizeParH
  wpg_step
  intro _ p _ _ hI _ _
  apply wpGH_authzExplicit I sig hlt _ _ _ _ _ _ _ hI (by intro c hc; cases hc)
  intro s1 a1 hI1 hf1
  apply wpGH_authzImplicit I sig _ _ _ _ _ _ _ hI1 hf1
  intro s2 a2 hI2 hf2
  apply wpGH_authzOIDCExplicit I sig _ _ _ _ hI2 hf2
  intro s3 a3 hI3 hf3 _
  apply wpGH_authzHybrid I sig hlt _ _ _ _ _ _ _ _ hI3 hf3
  intro s5 a5 hI5 hf5
  apply wpGH_authzPKCE I sig _ _ _ _ _ _ hI5 hf5
  intro s6 a6 _ _
  trivial

end

/-! ### facts about one signature -/


theorem exec_pkce_at (ss : SState) (c : Call) (sig : Nat) (hg : PkceGuard sig ss c) :
    alookup (ss.exec c).1.store.pkce sig = alookup ss.store.pkce sig := by
  cases c with
  | createPKCE k r =>
    have : sig ≠ k := fun h => hg h.symm
    simp [SState.exec, alookup_aset, this]
  | deletePKCE k =>
    cases k with
    | none => rfl
    | some k' =>
      have : sig ≠ k' := fun h => hg (by rw [h])
      simp [SState.exec, alookup_adel, this]
  | _ => simp only [SState.exec, revokeAccessS, revokeRefreshS] <;> (repeat' split) <;> rfl

theorem exec_codes_at (ss : SState) (c : Call) (sig : Nat) (hg : PkceGuard sig ss c) (hlt : sig < ss.next) :
    alookup (ss.exec c).1.store.codes sig = alookup ss.store.codes sig := by
  rcases exec_codes_cases ss c with he | ⟨r, hc, he⟩ | ⟨s2, rec2, hc, _, he⟩
  · rw [he]
  · rw [he, alookup_aset]; simp [Nat.ne_of_lt hlt]
  · subst hc
    have : sig ≠ s2 := fun h => hg (by rw [h])
    rw [he, alookup_aset]; simp [this]


/-- a fact about what is stored under signature `sig` in the code table and in the PKCE table
    (`sig` being a signature that has been minted) -/
def AtSig (sig : Nat) (P : Option CodeRec → Option Req → Prop) (ss : SState) : Prop :=
  sig < ss.next ∧ P (alookup ss.store.codes sig) (alookup ss.store.pkce sig)

theorem exec_AtSig (sig : Nat) (P) (ss : SState) (c : Call) (h : AtSig sig P ss) (hg : PkceGuard sig ss c) :
    AtSig sig P (ss.exec c).1 := by
  obtain ⟨hlt, hp⟩ := h
  refine ⟨Nat.lt_of_lt_of_le hlt (exec_next_mono ss c), ?_⟩
  rw [exec_codes_at ss c sig hg hlt, exec_pkce_at ss c sig hg]
  exact hp

/-- every endpoint program other than the code redemption keeps the guard -/
theorem prog_okG (sig : Nat) (P) (s : MState) (op : Op) (p : Prog Out) (hp : op.prog s = some p)
    (hop : ∀ q, op ≠ .redeem q) (ss : SState) :
    wpG (AtSig sig P) (PkceGuard sig) p (fun _ _ => True) ss := by
  have hlt : ∀ ss, AtSig sig P ss → sig < ss.next := fun _ h => h.1
  cases op with
  | authorize q => cases hp; exact okG_authorize _ sig hlt _ _ _ _ _
  | redeem q => exact absurd rfl (hop q)
  | refresh q => cases hp; exact okG_refresh _ _ (pkceGuard_calm sig) _ _ _ _
  | revoke q => cases hp; exact okG_revoke _ _ (pkceGuard_calm sig) _ _
  | introspect q => cases hp; exact okG_introspect _ _ (pkceGuard_calm sig) _ _ _ _
  | introspectEndpoint q => cases hp; exact okG_introspectEndpoint _ _ (pkceGuard_calm sig) _ _ _ _
  | clientCredentials q => cases hp; exact okG_clientCredentials _ _ (pkceGuard_calm sig) _ _ _ _
  | password q => cases hp; exact okG_password _ _ (pkceGuard_calm sig) _ _ _ _
  | deviceAuthorize q => cases hp; exact okG_deviceAuth _ _ (pkceGuard_calm sig) _ _ _ _
  | parPush q => cases hp; exact okG_parPush _ _ (pkceGuard_calm sig) _ _ _ _
  | devicePoll q => cases hp; exact okG_devicePoll _ _ (pkceGuard_calm sig) _ _ _ _
  | authorizePar q => cases hp; exact okG_authorizePar _ sig hlt _ _ _ _ _
  | setCfg _ => cases hp
  | setClient _ => cases hp
  | advance _ => cases hp
  | deviceDecide _ _ _ _ _ => cases hp

/-- **Every operation other than a code redemption** leaves what is stored under `sig` alone. -/
theorem step_AtSig_other (sig : Nat) (P) (s : MState) (op : Op) (hop : ∀ q, op ≠ .redeem q) (h : AtSig sig P s.ss) :
    AtSig sig P (step s op).1.ss := by
  cases hp : op.prog s with
  | some p =>
    rw [step_evalS s op p hp]
    exact (wpG_sound _ _ (fun ss c hi hg => exec_AtSig sig P ss c hi hg) p _ s.ss h (prog_okG sig P s op p hp hop s.ss)).1
  | none =>
    cases op with
    | setCfg c => exact h
    | setClient c => exact h
    | advance d => exact h
    | deviceDecide sg acc gs ga sub =>
      simp only [step]
      cases hl : alookup s.ss.store.device sg with
      | none => exact h
      | some d => exact h
    | _ => simp [Op.prog] at hp


/-! ### the code redemption -/


/-- the storage calls a code redemption can make on its way to the state `redeemPure` returns -/
def RedeemCall (q : RedeemReq) : Call → Prop
  | .newId | .revokeAccess _ | .revokeRefresh _ | .createAccess _ | .createRefresh _ _ => True
  | .invalidateCode k | .deleteOIDC k | .deletePKCE k => k = q.code.sig
  | _ => False

theorem redeemIssue_chain (I : SState → Prop) (q : RedeemReq) (hI : ∀ ss c, I ss → RedeemCall q c → I (ss.exec c).1)
    (cfg : Config) (now : Time) (s1 : SState) (client : Client) (rec : CodeRec) (h : I s1) :
    I (redeemIssue cfg now q s1 client rec).1 := by
  unfold redeemIssue
  simp only
  have h2 := hI _ (.invalidateCode q.code.sig) h rfl
  have h3 := hI _ (.createAccess ((redeemStoreReq cfg now q client rec.req rec.req).sanitize [])) h2 trivial
  have h4 : I (if canIssueRefresh cfg rec.req = true then
      (((s1.exec (.invalidateCode q.code.sig)).1.exec (.createAccess ((redeemStoreReq cfg now q client rec.req rec.req).sanitize []))).1.exec
        (.createRefresh s1.next ((redeemStoreReq cfg now q client rec.req rec.req).sanitize []))).1
      else ((s1.exec (.invalidateCode q.code.sig)).1.exec (.createAccess ((redeemStoreReq cfg now q client rec.req rec.req).sanitize []))).1) := by
    split
    · exact hI _ _ h3 trivial
    · exact h3
  split
  · exact h4
  · rename_i idt _
    apply hI _ (.deletePKCE q.code.sig) _ rfl
    cases idt
    · exact h4
    · exact hI _ (.deleteOIDC q.code.sig) h4 rfl

/-- whatever every call of a redemption preserves, the redemption preserves -/
theorem redeemPure_chain (I : SState → Prop) (q : RedeemReq) (hI : ∀ ss c, I ss → RedeemCall q c → I (ss.exec c).1)
    (cfg : Config) (now : Time) (ss : SState) (h : I ss) : I (redeemPure cfg now q ss).1 := by
  have h1 : I { ss with next := ss.next + 1 } := hI ss .newId h trivial
  unfold redeemPure
  simp only
  split
  · exact h1
  · exact hI _ (.revokeRefresh _) (hI _ (.revokeAccess _) h1 trivial) trivial
  · exact redeemIssue_chain I q hI cfg now _ _ _ h1

/-- a redemption that presents another code leaves what is stored under `sig` alone -/
theorem redeemPure_AtSig_other (sig : Nat) (P) (cfg : Config) (now : Time) (q : RedeemReq) (ss : SState)
    (hne : q.code.sig ≠ some sig) (h : AtSig sig P ss) : AtSig sig P (redeemPure cfg now q ss).1 := by
  apply redeemPure_chain (AtSig sig P) q _ cfg now ss h
  intro ss c hi hc
  apply exec_AtSig sig P ss c hi
  cases c <;> first | trivial | (cases hc; exact hne) | cases hc


/-- the code record says "consumed" -/
def Spent (c : Option CodeRec) : Prop := ∃ rec, c = some rec ∧ rec.active = false

theorem exec_deleteOIDC_codes (ss : SState) (k) : (ss.exec (.deleteOIDC k)).1.store.codes = ss.store.codes ∧
    ss.next ≤ (ss.exec (.deleteOIDC k)).1.next := by
  simp only [SState.exec]; split <;> exact ⟨rfl, Nat.le_refl _⟩
theorem exec_deletePKCE_codes (ss : SState) (k) : (ss.exec (.deletePKCE k)).1.store.codes = ss.store.codes ∧
    ss.next ≤ (ss.exec (.deletePKCE k)).1.next := by
  simp only [SState.exec]; split <;> exact ⟨rfl, Nat.le_refl _⟩

/-- after the issuing bracket the presented code is consumed -/
theorem redeemIssue_spent (cfg : Config) (now : Time) (q : RedeemReq) (s1 : SState) (client : Client) (rec : CodeRec) (sig : Nat)
    (hsig : q.code.sig = some sig) (hrec : alookup s1.store.codes sig = some rec) :
    Spent (alookup (redeemIssue cfg now q s1 client rec).1.store.codes sig) ∧ s1.next ≤ (redeemIssue cfg now q s1 client rec).1.next := by
  have h2 : alookup (s1.exec (.invalidateCode q.code.sig)).1.store.codes sig = some { rec with active := false } ∧
      s1.next ≤ (s1.exec (.invalidateCode q.code.sig)).1.next := by
    rw [hsig]
    simp only [SState.exec, Option.bind_some, hrec]
    exact ⟨alookup_aset_self _ _ _, Nat.le_refl _⟩
  have key : ∀ ss : SState, (alookup ss.store.codes sig = some { rec with active := false } ∧ s1.next ≤ ss.next) →
      Spent (alookup ss.store.codes sig) ∧ s1.next ≤ ss.next := fun ss h => ⟨⟨_, h.1, rfl⟩, h.2⟩
  have st : ∀ (ss : SState) (c : Call), (c.isIssue = true ∨ (∃ k, c = .deleteOIDC k) ∨ (∃ k, c = .deletePKCE k)) →
      (alookup ss.store.codes sig = some { rec with active := false } ∧ s1.next ≤ ss.next) →
      (alookup (ss.exec c).1.store.codes sig = some { rec with active := false } ∧ s1.next ≤ (ss.exec c).1.next) := by
    intro ss c hc h
    have hm := exec_next_mono ss c
    refine ⟨?_, Nat.le_trans h.2 hm⟩
    rcases hc with hc | ⟨k, hc⟩ | ⟨k, hc⟩
    · cases c <;> simp [Call.isIssue] at hc
      · rw [(exec_createAccess_frame' _ _).2.2.2.1]; exact h.1
      · rw [(exec_createRefresh_frame' _ _ _).2.2.2.1]; exact h.1
    · subst hc; rw [(exec_deleteOIDC_codes _ _).1]; exact h.1
    · subst hc; rw [(exec_deletePKCE_codes _ _).1]; exact h.1
  unfold redeemIssue
  simp only
  have h3 := st _ (.createAccess ((redeemStoreReq cfg now q client rec.req rec.req).sanitize [])) (Or.inl rfl) h2
  have h4 : (fun ss : SState => alookup ss.store.codes sig = some { rec with active := false } ∧ s1.next ≤ ss.next)
      (if canIssueRefresh cfg rec.req = true then
      (((s1.exec (.invalidateCode q.code.sig)).1.exec (.createAccess ((redeemStoreReq cfg now q client rec.req rec.req).sanitize []))).1.exec
        (.createRefresh s1.next ((redeemStoreReq cfg now q client rec.req rec.req).sanitize []))).1
      else ((s1.exec (.invalidateCode q.code.sig)).1.exec (.createAccess ((redeemStoreReq cfg now q client rec.req rec.req).sanitize []))).1) := by
    split
    · exact st _ _ (Or.inl rfl) h3
    · exact h3
  split
  · exact key _ h4
  · rename_i idt _
    apply key
    apply st _ (.deletePKCE q.code.sig) (Or.inr (Or.inr ⟨_, rfl⟩))
    cases idt
    · exact h4
    · exact st _ (.deleteOIDC q.code.sig) (Or.inr (Or.inl ⟨_, rfl⟩)) h4

/-- **A redemption presenting `sig`** either leaves the code and PKCE records of `sig` as they were
    (refusal, replay branch) or consumes the code (all checks passed). -/
theorem redeemPure_at_sig (cfg : Config) (now : Time) (q : RedeemReq) (ss : SState) (sig : Nat)
    (hsig : q.code.sig = some sig) (hlt : sig < ss.next) :
    sig < (redeemPure cfg now q ss).1.next ∧
    ((alookup (redeemPure cfg now q ss).1.store.codes sig = alookup ss.store.codes sig ∧
      alookup (redeemPure cfg now q ss).1.store.pkce sig = alookup ss.store.pkce sig) ∨
     ((∃ client rec, redeemVerdict cfg now q ss.store ss.clients = .issue client rec) ∧
      Spent (alookup (redeemPure cfg now q ss).1.store.codes sig))) := by
  cases hv : redeemVerdict cfg now q ss.store ss.clients with
  | refuse e =>
    rw [redeemPure_refuse cfg now q ss e hv]
    exact ⟨Nat.lt_succ_of_lt hlt, Or.inl ⟨rfl, rfl⟩⟩
  | replay rec =>
    obtain ⟨_, h2, h3, _, _, h6⟩ := redeemPure_replay cfg now q ss rec hv
    exact ⟨by rw [h6]; exact Nat.lt_succ_of_lt hlt, Or.inl ⟨by rw [h2], by rw [h3]⟩⟩
  | issue client rec =>
    obtain ⟨_, _, _, hrec, _⟩ := redeemVerdict_issue cfg now q _ _ client rec hv
    rw [hsig] at hrec
    simp only [Option.bind_some] at hrec
    have := redeemIssue_spent cfg now q { ss with next := ss.next + 1 } client rec sig hsig hrec
    simp only [redeemPure, hv]
    exact ⟨Nat.lt_of_lt_of_le (Nat.lt_succ_of_lt hlt) this.2, Or.inr ⟨⟨client, rec, rfl⟩, this.1⟩⟩


/-! ### every operation, every history -/


/-- "consumed, or `B`": the shape of the facts about a code that survive every operation -/
def SpentOr (B : Option CodeRec → Option Req → Prop) : Option CodeRec → Option Req → Prop :=
  fun c p => Spent c ∨ B c p

/-- **Every operation** — code redemptions included, successful or not, of this code or another —
    keeps "`sig` is consumed, or its code and PKCE records satisfy `B`". -/
theorem step_SpentOr (sig : Nat) (B) (s : MState) (op : Op) (h : AtSig sig (SpentOr B) s.ss) :
    AtSig sig (SpentOr B) (step s op).1.ss := by
  by_cases hop : ∃ q, op = .redeem q
  · obtain ⟨q, rfl⟩ := hop
    rw [(step_redeem_pure s q).1]
    show AtSig sig (SpentOr B) (redeemPure s.cfg s.now q s.ss).1
    by_cases hsig : q.code.sig = some sig
    · obtain ⟨hlt, hp⟩ := h
      obtain ⟨h1, h2⟩ := redeemPure_at_sig s.cfg s.now q s.ss sig hsig hlt
      refine ⟨h1, ?_⟩
      rcases h2 with ⟨hc, hk⟩ | ⟨_, hsp⟩
      · rw [hc, hk]; exact hp
      · exact Or.inl hsp
    · exact redeemPure_AtSig_other sig _ s.cfg s.now q s.ss hsig h
  · exact step_AtSig_other sig _ s op (fun q hq => hop ⟨q, hq⟩) h

theorem after_SpentOr (sig : Nat) (B) (ops : List Op) (s : MState) (h : AtSig sig (SpentOr B) s.ss) :
    AtSig sig (SpentOr B) (after s ops).ss := by
  induction ops generalizing s with
  | nil => exact h
  | cons op ops ih => exact ih _ (step_SpentOr sig B s op h)

/-- a token response comes from the issuing bracket: every check of the handler passed -/
theorem redeemPure_tokens (cfg : Config) (now : Time) (q : RedeemReq) (ss : SState)
    (h : (redeemPure cfg now q ss).2.tokensIssued = true) :
    ∃ client rec, redeemVerdict cfg now q ss.store ss.clients = .issue client rec := by
  cases hv : redeemVerdict cfg now q ss.store ss.clients with
  | refuse e => rw [redeemPure_refuse cfg now q ss e hv] at h; cases h
  | replay rec => rw [(redeemPure_replay cfg now q ss rec hv).1] at h; cases h
  | issue client rec => exact ⟨client, rec, rfl⟩

/-- what a token response for `sig` tells when `sig` is "consumed, or `B`": it was not consumed, `B`
    holds of its records, and the PKCE handler accepted the request against the stored session -/
theorem redeem_tokens_SpentOr (sig : Nat) (B) (s : MState) (q : RedeemReq) (h : AtSig sig (SpentOr B) s.ss)
    (hsig : q.code.sig = some sig) (htok : (step s (.redeem q)).2.1.tokensIssued = true) :
    ∃ client, s.ss.clients.find? (fun c => c.id == q.clientId) = some client ∧
      B (alookup s.ss.store.codes sig) (alookup s.ss.store.pkce sig) ∧
      pkceVerdict s.cfg (alookup s.ss.store.pkce sig) q.verifier client.isPublic = none := by
  rw [(step_redeem_pure s q).2.1] at htok
  obtain ⟨client, rec, hv⟩ := redeemPure_tokens s.cfg s.now q s.ss htok
  obtain ⟨hcl, _, _, hrec, hact, _, _, _, hpk, _⟩ := redeemVerdict_issue _ _ _ _ _ _ _ hv
  rw [hsig] at hrec hpk
  simp only [Option.bind_some] at hrec hpk
  refine ⟨client, hcl, ?_, hpk⟩
  rcases h.2 with ⟨rec', hr', ha'⟩ | hb
  · rw [hrec] at hr'; cases hr'; rw [hact] at ha'; cases ha'
  · exact hb



/-! ### the PKCE binding of a code, and codes without a challenge -/

/-- the code `sig` is stored and unredeemed, and its PKCE session records challenge `ch ≠ ""` under method `m` -/
def PKCEBound (ss : SState) (sig : Nat) (ch m : String) : Prop :=
  ch ≠ "" ∧ (∃ rec, alookup ss.store.codes sig = some rec ∧ rec.active = true) ∧
  ∃ pr, alookup ss.store.pkce sig = some pr ∧ pr.formGet "code_challenge" = ch ∧ pr.formGet "code_challenge_method" = m

def BoundAt (ch m : String) : Option CodeRec → Option Req → Prop := fun c p =>
  ch ≠ "" ∧ (∃ rec, c = some rec ∧ rec.active = true) ∧
  ∃ pr, p = some pr ∧ pr.formGet "code_challenge" = ch ∧ pr.formGet "code_challenge_method" = m

theorem PKCEBound_iff (ss : SState) (sig : Nat) (ch m : String) :
    (sig < ss.next ∧ PKCEBound ss sig ch m) ↔ AtSig sig (BoundAt ch m) ss := Iff.rfl

/-- `sig` has been minted and either the code is consumed or the binding is in place -/
def BoundOrSpent (ss : SState) (sig : Nat) (ch m : String) : Prop :=
  sig < ss.next ∧ (CodeDead ss sig ∨ PKCEBound ss sig ch m)

theorem BoundOrSpent_iff (ss : SState) (sig : Nat) (ch m : String) :
    BoundOrSpent ss sig ch m ↔ AtSig sig (SpentOr (BoundAt ch m)) ss := Iff.rfl

/-- no challenge is on record for `sig`: no PKCE session, or one with an empty `code_challenge` -/
def NoChallenge (ss : SState) (sig : Nat) : Prop :=
  ∀ pr, alookup ss.store.pkce sig = some pr → pr.formGet "code_challenge" = ""

def NoChallengeAt : Option CodeRec → Option Req → Prop := fun _ p => ∀ pr, p = some pr → pr.formGet "code_challenge" = ""

/-- the PKCE handler accepts a request against a session with a non-empty challenge only if both
    `validate` and the verifier comparison pass -/
theorem pkceVerdict_some (cfg : Config) (pr : Req) (v : String) (pub : Bool) (h : pkceVerdict cfg (some pr) v pub = none) :
    pkceValidate cfg (pr.formGet "code_challenge") (pr.formGet "code_challenge_method") pr.client.isPublic = none ∧
    pkceVerify cfg (pr.formGet "code_challenge") (pr.formGet "code_challenge_method") v = none := by
  unfold pkceVerdict at h
  simp only at h
  split at h
  · cases h
  · rename_i hv; exact ⟨hv, h⟩

/-- without a challenge on record the PKCE handler lets a request through only if `validateNoPKCE` does -/
theorem pkceVerdict_noChallenge (cfg : Config) (pk : Option Req) (v : String) (pub : Bool)
    (hn : ∀ pr, pk = some pr → pr.formGet "code_challenge" = "") (h : pkceVerdict cfg pk v pub = none) :
    ∃ b, validateNoPKCE cfg b = none := by
  cases pk with
  | none =>
    unfold pkceVerdict at h
    simp only at h
    split at h
    · exact ⟨pub, h⟩
    · cases h
  | some pr =>
    have h1 := (pkceVerdict_some cfg pr v pub h).1
    rw [hn pr rfl] at h1
    unfold pkceValidate at h1
    simp only [String.length_empty, beq_self_eq_true, if_true] at h1
    exact ⟨_, h1⟩

/-! ### histories -/

/-- an entry of a trace is an operation executed in the state reached by the operations before it -/
theorem mem_trace (s : MState) (ops : List Op) (op : Op) (out : Out) (h : (op, out) ∈ trace s ops) :
    ∃ pre post, ops = pre ++ op :: post ∧ out = (step (after s pre) op).2.1 := by
  induction ops generalizing s with
  | nil => cases h
  | cons o ops ih =>
    simp only [trace, List.mem_cons] at h
    rcases h with h | h
    · cases h; exact ⟨[], ops, rfl, rfl⟩
    · obtain ⟨pre, post, h1, h2⟩ := ih _ h
      exact ⟨o :: pre, post, by rw [h1]; rfl, h2⟩

theorem step_cfg (s : MState) (op : Op) : (step s op).1.cfg = match op with | .setCfg c => c | _ => s.cfg := by
  cases op <;> simp only [step, Op.prog] <;> (try split) <;> rfl

/-- a configuration flag that holds initially and in every configuration installed later holds throughout -/
theorem after_cfg_flag (f : Config → Bool) (ops : List Op) (s : MState) (h0 : f s.cfg = true)
    (hops : ∀ c, Op.setCfg c ∈ ops → f c = true) : f (after s ops).cfg = true := by
  induction ops generalizing s with
  | nil => exact h0
  | cons op ops ih =>
    apply ih
    · rw [step_cfg]
      cases op <;> first | exact h0 | exact hops _ (List.mem_cons_self ..)
    · intro c hc; exact hops c (List.mem_cons_of_mem _ hc)


/-! ### what the authorization endpoint establishes -/


theorem find_opt_ne (k k' v : String) (hk : k ≠ k') :
    (if v == "" then ([] : List (String × String)) else [(k, v)]).find? (fun p => p.1 == k') = none := by
  split <;> simp [hk]

theorem filter_find_opt (allowed : List String) (k k' v : String) (hk : k ≠ k') :
    ((if v == "" then ([] : List (String × String)) else [(k, v)]).filter (fun p => allowed.contains p.1)).find? (fun p => p.1 == k') = none := by
  split
  · simp
  · simp only [List.filter_cons]
    split <;> simp [hk]

/-- the stored PKCE session of an authorization request that carried a challenge records it -/
theorem sanitize_challenge (q : AuthzReq) (r : Req) (hf : r.form = q.form) (hch : q.challenge ≠ "") :
    (r.sanitize ["code_challenge", "code_challenge_method"]).formGet "code_challenge" = q.challenge := by
  unfold Req.formGet Req.sanitize
  simp only [hf, AuthzReq.form, List.filter_append, List.find?_append]
  rw [filter_find_opt _ "redirect_uri" _ _ (by decide), filter_find_opt _ "scope" _ _ (by decide),
    filter_find_opt _ "state" _ _ (by decide), filter_find_opt _ "nonce" _ _ (by decide),
    filter_find_opt _ "audience" _ _ (by decide)]
  have hc : (q.challenge == "") = false := by simpa using hch
  simp [hc, defaultAllowed]

theorem sanitize_method (q : AuthzReq) (r : Req) (hf : r.form = q.form) :
    (r.sanitize ["code_challenge", "code_challenge_method"]).formGet "code_challenge_method" = q.method := by
  unfold Req.formGet Req.sanitize
  simp only [hf, AuthzReq.form, List.filter_append, List.find?_append]
  rw [filter_find_opt _ "redirect_uri" _ _ (by decide), filter_find_opt _ "scope" _ _ (by decide),
    filter_find_opt _ "state" _ _ (by decide), filter_find_opt _ "nonce" _ _ (by decide),
    filter_find_opt _ "audience" _ _ (by decide), filter_find_opt _ "code_challenge" _ _ (by decide)]
  by_cases hm : q.method = ""
  · simp [hm, defaultAllowed]
  · have hc : (q.method == "") = false := by simpa using hm
    simp [hc, defaultAllowed]




macro "wps_step" : tactic => `(tactic| (simp only [wpG_run, wpG_toProg, wpGH_bind, wpGH_callH, wpGH_guard, wpGH_expectReq, wpGH_expectNat, wpGH_expectOk,
      wpGH_expectClient, wpGH_expectDev, wpGH_expectPar, wpGH_optErr, wpGH_ite, wpGH_pure, wpGH_ok, wpGH_fail,
      wpG_pbind, wpG_call, wpG_pure, wpG_ret, wpG_retErr, anyState, anyCall, implies_true, and_self, and_true, true_and, true_implies]))

theorem isHybrid_code (rt : List String) (h : isHybrid rt = true) : rt.contains "code" = true := by
  unfold isHybrid matchesArgs at h
  simp only [Bool.and_eq_true, Bool.or_eq_true, List.all_cons, List.all_nil, Bool.and_true] at h
  rcases h.2 with (h | h) | h
  · exact h.2.2.2
  · exact h.2.2
  · exact h.2.2

theorem code_of_explicit (rt : List String) (h : exactOne rt "code" = true) : rt.contains "code" = true := by
  unfold exactOne at h
  simp only [Bool.and_eq_true] at h
  exact h.2

/-- what the handler chain of the authorization endpoint has produced so far: the request's form is the
    one received, and the code (if any) was minted during this request (signature `≥ n0`), is stored and
    unredeemed, and the response type asked for one -/
def AccOK (n0 : Nat) (q : AuthzReq) (ss : SState) (acc : AuthzAcc) : Prop :=
  acc.ar.form = q.form ∧ n0 ≤ ss.next ∧
  ∀ c, acc.code = some c → q.responseTypes.contains "code" = true ∧ n0 ≤ c ∧ c < ss.next ∧
    ∃ rec, alookup ss.store.codes c = some rec ∧ rec.active = true

theorem AccOK_exec (n0 : Nat) (q) (ss : SState) (acc : AuthzAcc) (c : Call) (hc : ∀ k, c ≠ .invalidateCode k)
    (h : AccOK n0 q ss acc) : AccOK n0 q (ss.exec c).1 acc := by
  obtain ⟨h1, h2, h3⟩ := h
  have hm := exec_next_mono ss c
  refine ⟨h1, Nat.le_trans h2 hm, ?_⟩
  intro cd hcd
  obtain ⟨a0, a1, a2, rec, a3, a4⟩ := h3 cd hcd
  refine ⟨a0, a1, Nat.lt_of_lt_of_le a2 hm, rec, ?_, a4⟩
  rcases exec_codes_cases ss c with he | ⟨r, _, he⟩ | ⟨s2, rec2, hc', _, _⟩
  · rw [he]; exact a3
  · rw [he, alookup_aset]; simp [Nat.ne_of_lt a2, a3]
  · exact absurd hc' (hc _)

theorem AccOK_createCode (n0 : Nat) (q) (ss : SState) (acc acc' : AuthzAcc) (r : Req)
    (h : AccOK n0 q ss acc) (hrt : q.responseTypes.contains "code" = true)
    (hf : acc'.ar.form = q.form) (hcode : acc'.code = some ss.next) :
    AccOK n0 q (ss.exec (.createCode r)).1 acc' := by
  obtain ⟨_, h2, _⟩ := h
  refine ⟨hf, ?_, ?_⟩
  · rw [exec_next_createCode]; omega
  · intro c hc
    rw [hcode] at hc; cases hc
    refine ⟨hrt, h2, by rw [exec_next_createCode]; omega, { active := true, req := r }, ?_, rfl⟩
    rw [(exec_createCode_effect ss r).1]; exact alookup_aset_self _ _ _

theorem AccOK_congr (n0 : Nat) (q) (ss : SState) (acc acc' : AuthzAcc) (h : AccOK n0 q ss acc)
    (hf : acc'.ar.form = acc.ar.form) (hc : acc'.code = acc.code) : AccOK n0 q ss acc' :=
  ⟨hf.trans h.1, h.2.1, fun c hcd => h.2.2 c (hc ▸ hcd)⟩

section
variable (n0 : Nat)

theorem acc_authzExplicit (cfg : Config) (now : Time) (client : Client) (q : AuthzReq) (acc : AuthzAcc)
    (Kok : SState → AuthzAcc → Prop) (ss : SState) (h : AccOK n0 q ss acc)
    (hok : ∀ ss' acc', AccOK n0 q ss' acc' → Kok ss' acc') :
    wpGH anyState anyCall (authzExplicit cfg now client q acc) Kok (fun _ _ => True) ss := by
  unfold authzExplicit
  wps_step
  refine ⟨fun _ => hok _ _ h, fun hrt _ _ _ => ?_⟩
  simp only [exec_createCode_snd, Res.nat.injEq, forall_eq']
  exact hok _ _ (AccOK_createCode n0 q ss acc _ _ h (code_of_explicit _ (by simpa using hrt)) h.1 rfl)

theorem acc_authzImplicit (cfg : Config) (now : Time) (client : Client) (q : AuthzReq) (acc : AuthzAcc)
    (Kok : SState → AuthzAcc → Prop) (ss : SState) (h : AccOK n0 q ss acc)
    (hok : ∀ ss' acc', AccOK n0 q ss' acc' → Kok ss' acc') :
    wpGH anyState anyCall (authzImplicit cfg now client q acc) Kok (fun _ _ => True) ss := by
  unfold authzImplicit
  wps_step
  refine ⟨fun _ => hok _ _ h, fun _ _ _ _ n _ => ?_⟩
  apply hok
  exact AccOK_congr n0 q _ acc _ (AccOK_exec n0 q ss acc _ (by intro k hk; cases hk) h) rfl rfl

theorem acc_authzOIDCExplicit (q : AuthzReq) (acc : AuthzAcc)
    (Kok : SState → AuthzAcc → Prop) (ss : SState) (h : AccOK n0 q ss acc)
    (hok : ∀ ss' acc', AccOK n0 q ss' acc' → Kok ss' acc') :
    wpGH anyState anyCall (authzOIDCExplicit q acc) Kok (fun _ _ => True) ss := by
  unfold authzOIDCExplicit
  wps_step
  refine ⟨fun _ => hok _ _ h, fun _ => ?_⟩
  split
  · wps_step
  · wps_step
    intro _ _ _
    exact hok _ _ (AccOK_exec n0 q ss acc _ (by intro k hk; cases hk) h)

theorem acc_authzHybrid (cfg : Config) (now : Time) (minNonce : Nat) (client : Client) (q : AuthzReq) (acc : AuthzAcc)
    (Kok : SState → AuthzAcc → Prop) (ss : SState) (h : AccOK n0 q ss acc)
    (hok : ∀ ss' acc', AccOK n0 q ss' acc' → Kok ss' acc') :
    wpGH anyState anyCall (authzHybrid cfg now minNonce client q acc) Kok (fun _ _ => True) ss := by
  unfold authzHybrid
  wps_step
  refine ⟨fun _ => hok _ _ h, fun hrt _ _ _ _ _ _ => ?_⟩
  have hrt' : q.responseTypes.contains "code" = true := isHybrid_code _ (by simpa using hrt)
  simp only [exec_createCode_snd, Res.nat.injEq, forall_eq']
  refine ⟨fun _ _ => ⟨fun _ _ n _ => ?_, fun _ => ?_⟩, fun _ => ⟨fun _ _ n _ => ?_, fun _ => ?_⟩⟩
  all_goals
    apply hok
    repeat (first
      | exact AccOK_createCode n0 q ss acc _ _ h hrt' h.1 rfl
      | apply AccOK_exec _ _ _ _ _ (by intro k hk; cases hk))

/-- the PKCE handler of the authorization endpoint: when the request carried a challenge, the code's
    PKCE session records it -/
theorem acc_authzPKCE (cfg : Config) (client : Client) (q : AuthzReq) (acc : AuthzAcc)
    (Kok : SState → AuthzAcc → Prop) (ss : SState) (h : AccOK n0 q ss acc)
    (hok : ∀ ss', AccOK n0 q ss' acc →
      (q.challenge ≠ "" → ∀ c, acc.code = some c → ∃ pr, alookup ss'.store.pkce c = some pr ∧
        pr.formGet "code_challenge" = q.challenge ∧ pr.formGet "code_challenge_method" = q.method) → Kok ss' acc) :
    wpGH anyState anyCall (authzPKCE cfg client q acc) Kok (fun _ _ => True) ss := by
  unfold authzPKCE
  wps_step
  refine ⟨fun hrt => ?_, fun _ _ => ⟨fun hemp => ?_, fun _ => ?_⟩⟩
  · apply hok _ h
    intro _ c hc
    have := (h.2.2 c hc).1
    rw [this] at hrt; cases hrt
  · apply hok _ h
    intro hch
    simp only [Bool.and_eq_true, beq_iff_eq] at hemp
    exact absurd hemp.1 hch
  · split
    · wps_step
    · rename_i c hc
      wps_step
      intro _
      apply hok _ (AccOK_exec n0 q ss acc _ (by intro k hk; cases hk) h)
      intro hch c' hc'
      rw [hc] at hc'; cases hc'
      refine ⟨acc.ar.sanitize ["code_challenge", "code_challenge_method"], ?_, sanitize_challenge q _ h.1 hch, sanitize_method q _ h.1⟩
      simp only [SState.exec]
      exact alookup_aset_self _ _ _

end

/-- **What the authorization endpoint leaves behind for a code it returns**: the code's signature is
    fresh (not below the mint counter at the start of the request), the code is stored and unredeemed,
    and — when the request carried a `code_challenge` — its PKCE session records challenge and method. -/
theorem authorize_wpG (cfg : Config) (now : Time) (minNonce : Nat) (q : AuthzReq) (ss : SState) :
    wpG anyState anyCall (authorizeProg cfg now minNonce q)
      (fun ss' o => ∀ c atk idt, o = .authz (some c) atk idt →
        ss.next ≤ c ∧ c < ss'.next ∧ (∃ rec, alookup ss'.store.codes c = some rec ∧ rec.active = true) ∧
        (q.challenge ≠ "" → ∃ pr, alookup ss'.store.pkce c = some pr ∧
          pr.formGet "code_challenge" = q.challenge ∧ pr.formGet "code_challenge_method" = q.method)) ss := by
  unfold authorizeProg authorizeH
  wps_step
  refine ⟨?_, fun _ c atk idt h => by cases h⟩
  intro _
  refine ⟨?_, fun _ c atk idt h => by cases h⟩
  intro client _
  refine ⟨?_, fun _ c atk idt h => by cases h⟩
  intro _
  refine ⟨?_, fun _ _ c atk idt h => by cases h⟩
  intro _
  refine ⟨?_, fun _ c atk idt h => by cases h⟩
  intro rid _
  have h0 : AccOK ss.next q ((ss.exec (.getClient q.clientId)).1.exec .newId).1 { ar := authzBaseReq now client q rid } := by
    refine ⟨rfl, ?_, fun c hc => by cases hc⟩
    rw [exec_getClient_fst]; exact Nat.le_succ _
  have weaken : ∀ {α} (x : HP α) (Kok : SState → α → Prop) (s' : SState),
      wpGH anyState anyCall x Kok (fun _ _ => True) s' →
      wpGH anyState anyCall x Kok (fun ss' e => ∀ (c : Nat) (atk : Option Nat) (idt : Bool), Out.err e = Out.authz (some c) atk idt →
        ss.next ≤ c ∧ c < ss'.next ∧ (∃ rec, alookup ss'.store.codes c = some rec ∧ rec.active = true) ∧
        (q.challenge ≠ "" → ∃ pr, alookup ss'.store.pkce c = some pr ∧
          pr.formGet "code_challenge" = q.challenge ∧ pr.formGet "code_challenge_method" = q.method)) s' := by
    intro α x Kok s' hw
    exact wpGH_mono _ _ x Kok Kok _ _ s' (fun _ _ h => h) (fun _ e _ c atk idt h => by cases h) hw
  apply weaken
  apply acc_authzExplicit ss.next _ _ _ _ _ _ _ h0
  intro s1 a1 h1
  apply weaken
  apply acc_authzImplicit ss.next _ _ _ _ _ _ _ h1
  intro s2 a2 h2
  apply weaken
  apply acc_authzOIDCExplicit ss.next _ _ _ _ h2
  intro s3 a3 h3
  refine ⟨?_, fun _ c atk idt h => by cases h⟩
  intro _
  apply weaken
  apply acc_authzHybrid ss.next _ _ _ _ _ _ _ _ h3
  intro s5 a5 h5
  apply weaken
  apply acc_authzPKCE ss.next _ _ _ _ _ _ h5
  intro s6 h6 hp
  intro c atk idt ho
  have hcode : a5.code = some c := by injection ho
  obtain ⟨_, b1, b2, b3⟩ := h6.2.2 c hcode
  exact ⟨b1, b2, b3, fun hch => hp hch c hcode⟩


/-! ### all bindings, all histories -/


/-- `authorize_wpG` for `step` -/
theorem authorize_establishes (s : MState) (q : AuthzReq) (c : Nat) (atk : Option Nat) (idt : Bool)
    (h : (step s (.authorize q)).2.1 = .authz (some c) atk idt) :
    s.ss.next ≤ c ∧ c < (step s (.authorize q)).1.ss.next ∧
    (∃ rec, alookup (step s (.authorize q)).1.ss.store.codes c = some rec ∧ rec.active = true) ∧
    (q.challenge ≠ "" → PKCEBound (step s (.authorize q)).1.ss c q.challenge q.method) := by
  rw [step_evalS s (.authorize q) (authorizeProg s.cfg s.now s.minNonce q) rfl] at h ⊢
  have hw := (wpG_sound anyState anyCall (fun _ _ _ _ => trivial) _ _ s.ss trivial
    (authorize_wpG s.cfg s.now s.minNonce q s.ss)).2 c atk idt h
  obtain ⟨h1, h2, h3, h4⟩ := hw
  exact ⟨h1, h2, h3, fun hch => ⟨hch, h3, h4 hch⟩⟩

theorem step_next_mono (s : MState) (op : Op) : s.ss.next ≤ (step s op).1.ss.next :=
  step_preserves (fun ss => s.ss.next ≤ ss.next) (fun ss c h => Nat.le_trans h (exec_next_mono ss c))
    (fun _ _ h => h) (fun _ _ _ h => h) s op (Nat.le_refl _)

theorem step_CodesBelow (s : MState) (op : Op) (h : CodesBelow s.ss) : CodesBelow (step s op).1.ss :=
  step_preserves CodesBelow exec_CodesBelow (fun _ _ h => h) (fun _ _ _ h => h) s op h

/-- the codes a trace shows to have been issued by `authorize` for a request with a challenge:
    (signature, challenge, method) -/
def issuedWithChallenge : List (Op × Out) → List (Nat × String × String)
  | [] => []
  | (.authorize q, .authz (some c) _ _) :: t =>
    (if q.challenge != "" then [(c, q.challenge, q.method)] else []) ++ issuedWithChallenge t
  | _ :: t => issuedWithChallenge t

/-- codes issued during a history carry signatures minted during that history -/
theorem issued_ge (ops : List Op) (s : MState) : ∀ x ∈ issuedWithChallenge (trace s ops), s.ss.next ≤ x.1 := by
  induction ops generalizing s with
  | nil => intro x hx; cases hx
  | cons op ops ih =>
    intro x hx
    have htail : ∀ x ∈ issuedWithChallenge (trace (step s op).1 ops), s.ss.next ≤ x.1 :=
      fun x hx => Nat.le_trans (step_next_mono s op) (ih _ x hx)
    simp only [trace] at hx
    cases op with
    | authorize q =>
      cases hout : (step s (.authorize q)).2.1 with
      | authz code atk idt =>
        rw [hout] at hx
        cases code with
        | none => exact htail x hx
        | some c =>
          simp only [issuedWithChallenge, List.mem_append] at hx
          rcases hx with hx | hx
          · split at hx
            · simp only [List.mem_singleton] at hx
              subst hx
              exact (authorize_establishes s q c atk idt hout).1
            · cases hx
          · exact htail x hx
      | _ => rw [hout] at hx; exact htail x hx
    | _ => exact htail x hx



/-- the head of a trace contributes the binding the authorization endpoint has just established -/
theorem issued_cons (s : MState) (op : Op) (ops : List Op) :
    ∃ new, issuedWithChallenge (trace s (op :: ops)) = new ++ issuedWithChallenge (trace (step s op).1 ops) ∧
      (∀ x ∈ new, BoundOrSpent (step s op).1.ss x.1 x.2.1 x.2.2) ∧ ((∃ q, op = .redeem q) → new = []) := by
  simp only [trace]
  cases op with
  | authorize q =>
    cases hout : (step s (.authorize q)).2.1 with
    | authz code atk idt =>
      cases code with
      | none => exact ⟨[], rfl, (fun x hx => by cases hx), fun _ => rfl⟩
      | some c =>
        refine ⟨if q.challenge != "" then [(c, q.challenge, q.method)] else [], rfl, ?_, fun h => by obtain ⟨_, h⟩ := h; cases h⟩
        intro x hx
        split at hx
        · rename_i hch
          simp only [List.mem_singleton] at hx
          subst hx
          obtain ⟨_, h2, _, h4⟩ := authorize_establishes s q c atk idt hout
          exact ⟨h2, Or.inr (h4 (by simpa using hch))⟩
        · cases hx
    | _ => exact ⟨[], rfl, (fun x hx => by cases hx), fun _ => rfl⟩
  | _ => exact ⟨[], rfl, (fun x hx => by cases hx), fun _ => rfl⟩

/-- **Every history respects every binding**: those in place at its start (`K`) and those established
    by `authorize` operations during it — a token response for a bound code means the PKCE handler
    compared the presented verifier with the recorded challenge, and accepted. -/
theorem history_respects_bindings (ops : List Op) (s : MState) (hcb : CodesBelow s.ss)
    (K : List (Nat × String × String)) (hK : ∀ x ∈ K, BoundOrSpent s.ss x.1 x.2.1 x.2.2) :
    ∀ q out, (Op.redeem q, out) ∈ trace s ops → out.tokensIssued = true →
      ∀ x ∈ K ++ issuedWithChallenge (trace s ops), q.code.sig = some x.1 →
        x.2.1 ≠ "" ∧ ∃ cfg pub, pkceVerify cfg x.2.1 x.2.2 q.verifier = none ∧ pkceValidate cfg x.2.1 x.2.2 pub = none := by
  induction ops generalizing s K with
  | nil => intro q out h; cases h
  | cons op ops ih =>
    intro q out hmem htok x hx hsig
    obtain ⟨new, hnew, hbound, hred⟩ := issued_cons s op ops
    rw [hnew] at hx
    simp only [trace, List.mem_cons] at hmem
    rcases hmem with hhead | htail
    · -- the operation at the head is this redemption
      injection hhead with h1 h2
      subst h1
      rw [hred ⟨q, rfl⟩, List.nil_append] at hx
      rw [h2] at htok
      rcases List.mem_append.mp hx with hk | hfut
      · have hb := hK x hk
        obtain ⟨client, _, hB, hpk⟩ := redeem_tokens_SpentOr x.1 (BoundAt x.2.1 x.2.2) s q hb hsig htok
        obtain ⟨hch, _, pr, hpr, e1, e2⟩ := hB
        rw [hpr] at hpk
        obtain ⟨v1, v2⟩ := pkceVerdict_some _ _ _ _ hpk
        rw [e1, e2] at v1 v2
        exact ⟨hch, s.cfg, _, v2, v1⟩
      · -- a code issued later has a signature the presented (stored) code cannot have
        exfalso
        have hge := issued_ge ops (step s (.redeem q)).1 x hfut
        rw [(step_redeem_pure s q).2.1] at htok
        obtain ⟨client, rec, hv⟩ := redeemPure_tokens s.cfg s.now q s.ss htok
        obtain ⟨_, _, _, hrec, _⟩ := redeemVerdict_issue _ _ _ _ _ _ _ hv
        rw [hsig] at hrec
        simp only [Option.bind_some] at hrec
        have hlt := hcb _ _ hrec
        have := step_next_mono s (.redeem q)
        omega
    · -- the redemption happens later: the bindings known then include the new one
      have := ih (step s op).1 (step_CodesBelow s op hcb) (K ++ new) (by
        intro y hy
        rcases List.mem_append.mp hy with hy | hy
        · exact step_SpentOr y.1 (BoundAt y.2.1 y.2.2) s op (hK y hy)
        · exact hbound y hy) q out htail htok x (by rw [List.append_assoc]; exact hx) hsig
      exact this



/-! ### OIDC sessions of reachable states

  The refusal theorems of C02 / C03 (i) need the OIDC session stored under the presented code to be
  well-formed (`OidcSessionOk`).  This section shows that every state the model's operations produce
  from the empty state has that property, by the same method as above: an invariant (`OidcInv`), a
  guard on `createOIDC` (`OidcGuard`), and the guard threaded through the authorization endpoints. -/


/-- an OIDC session as the authorization endpoint writes it: `openid` granted, subject set -/
def goodOidc (r : Req) : Prop := r.grantedScopes.contains "openid" = true ∧ (r.sess.idSubject != "") = true

/-- every OIDC session is created under a minted key and well-formed -/
def OidcGuard : SState → Call → Prop
  | ss, .createOIDC k r => k < ss.next ∧ goodOidc r
  | _, _ => True

/-- codes, device authorizations and OIDC sessions live under minted keys; a key is never both a code
    and a device code; and the OIDC session stored under a code is well-formed (the consent application
    may store a subject-less session under a DEVICE code — `deviceDecide`) -/
structure OidcInv (ss : SState) : Prop where
  codesBelow : ∀ k rec, alookup ss.store.codes k = some rec → k < ss.next
  devBelow : ∀ k d, alookup ss.store.device k = some d → k < ss.next
  oidcBelow : ∀ k r, alookup ss.store.oidc k = some r → k < ss.next
  disjoint : ∀ k d rec, alookup ss.store.device k = some d → alookup ss.store.codes k = some rec → False
  good : ∀ k r rec, alookup ss.store.oidc k = some r → alookup ss.store.codes k = some rec → goodOidc r

theorem codes_origin (ss : SState) (c : Call) (k : Nat) (rec' : CodeRec)
    (h : alookup (ss.exec c).1.store.codes k = some rec') :
    (∃ rec, alookup ss.store.codes k = some rec) ∨ (k = ss.next ∧ ∃ r, c = .createCode r) := by
  rcases exec_codes_cases ss c with he | ⟨r, hc, he⟩ | ⟨s2, rec2, _, hl, he⟩
  · rw [he] at h; exact Or.inl ⟨_, h⟩
  · rw [he, alookup_aset] at h
    by_cases hk : k = ss.next
    · exact Or.inr ⟨hk, r, hc⟩
    · simp only [hk, if_false] at h; exact Or.inl ⟨_, h⟩
  · rw [he, alookup_aset] at h
    by_cases hk : k = s2
    · subst hk; exact Or.inl ⟨_, hl⟩
    · simp only [hk, if_false] at h; exact Or.inl ⟨_, h⟩

theorem device_origin (ss : SState) (c : Call) (k : Nat) (d' : DevRec)
    (h : alookup (ss.exec c).1.store.device k = some d') :
    (∃ d, alookup ss.store.device k = some d) ∨ (k = ss.next ∧ ∃ d, c = .createDevice d) := by
  cases c with
  | createDevice d =>
    simp only [SState.exec, alookup_aset] at h
    by_cases hk : k = ss.next
    · exact Or.inr ⟨hk, d, rfl⟩
    · simp only [hk, if_false] at h; exact Or.inl ⟨_, h⟩
  | invalidateDevice kk =>
    left
    cases kk with
    | none => exact ⟨_, h⟩
    | some sg =>
      simp only [SState.exec] at h
      split at h
      · split at h
        · rename_i d0 hd0
          simp only [alookup_aset] at h
          by_cases hk : k = sg
          · subst hk; exact ⟨_, hd0⟩
          · simp only [hk, if_false] at h; exact ⟨_, h⟩
        · exact ⟨_, h⟩
      · simp only [alookup_adel] at h
        split at h
        · cases h
        · exact ⟨_, h⟩
  | _ =>
    left
    simp only [SState.exec, revokeAccessS, revokeRefreshS] at h
    (repeat' split at h) <;> exact ⟨_, h⟩

theorem oidc_origin (ss : SState) (c : Call) (k : Nat) (r' : Req)
    (h : alookup (ss.exec c).1.store.oidc k = some r') :
    alookup ss.store.oidc k = some r' ∨ c = .createOIDC k r' := by
  cases c with
  | createOIDC k0 r0 =>
    simp only [SState.exec, alookup_aset] at h
    by_cases hk : k = k0
    · subst hk; simp only [if_true] at h; cases h; exact Or.inr rfl
    · simp only [hk, if_false] at h; exact Or.inl h
  | deleteOIDC kk =>
    left
    cases kk with
    | none => exact h
    | some k0 =>
      simp only [SState.exec, alookup_adel] at h
      split at h
      · cases h
      · exact h
  | _ =>
    left
    simp only [SState.exec, revokeAccessS, revokeRefreshS] at h
    (repeat' split at h) <;> exact h

theorem exec_next_createDevice (ss : SState) (d : DevRec) : (ss.exec (.createDevice d)).1.next = ss.next + 2 := by
  simp [SState.exec]

/-- the invariant survives every guarded call -/
theorem exec_OidcInv (ss : SState) (c : Call) (h : OidcInv ss) (hg : OidcGuard ss c) : OidcInv (ss.exec c).1 := by
  have hm := exec_next_mono ss c
  constructor
  · intro k rec' hl
    rcases codes_origin ss c k rec' hl with ⟨rec, h0⟩ | ⟨hk, r, hc⟩
    · exact Nat.lt_of_lt_of_le (h.codesBelow k rec h0) hm
    · subst hc; rw [exec_next_createCode]; omega
  · intro k d' hl
    rcases device_origin ss c k d' hl with ⟨d, h0⟩ | ⟨hk, d, hc⟩
    · exact Nat.lt_of_lt_of_le (h.devBelow k d h0) hm
    · subst hc; rw [exec_next_createDevice]; omega
  · intro k r' hl
    rcases oidc_origin ss c k r' hl with h0 | hc
    · exact Nat.lt_of_lt_of_le (h.oidcBelow k r' h0) hm
    · subst hc; exact Nat.lt_of_lt_of_le hg.1 hm
  · intro k d' rec' hd hc
    rcases device_origin ss c k d' hd with ⟨d, h0⟩ | ⟨hk, d, hcd⟩
    · rcases codes_origin ss c k rec' hc with ⟨rec, h1⟩ | ⟨hk, r, hcc⟩
      · exact h.disjoint k d rec h0 h1
      · have := h.devBelow k d h0; omega
    · rcases codes_origin ss c k rec' hc with ⟨rec, h1⟩ | ⟨_, r, hcc⟩
      · have := h.codesBelow k rec h1; omega
      · rw [hcd] at hcc; cases hcc
  · intro k r' rec' ho hc
    rcases oidc_origin ss c k r' ho with h0 | hco
    · rcases codes_origin ss c k rec' hc with ⟨rec, h1⟩ | ⟨hk, r, hcc⟩
      · exact h.good k r' rec h0 h1
      · have := h.oidcBelow k r' h0; omega
    · subst hco; exact hg.2

/-- the consent application's decision on a device authorization keeps the invariant -/
theorem OidcInv_deviceDecide (s : MState) (sig : Nat) (accept : Bool) (gs ga : List String) (sub : String)
    (h : OidcInv s.ss) : OidcInv (step s (.deviceDecide sig accept gs ga sub)).1.ss := by
  simp only [step]
  cases hl : alookup s.ss.store.device sig with
  | none => exact h
  | some d =>
    simp only
    constructor
    · exact h.codesBelow
    · intro k d' hd
      simp only [alookup_aset] at hd
      by_cases hk : k = sig
      · subst hk; exact h.devBelow k d hl
      · simp only [hk, if_false] at hd; exact h.devBelow k d' hd
    · intro k r' ho
      simp only at ho
      split at ho
      · simp only [alookup_aset] at ho
        by_cases hk : k = sig
        · subst hk; exact h.devBelow k d hl
        · simp only [hk, if_false] at ho; exact h.oidcBelow k r' ho
      · exact h.oidcBelow k r' ho
    · intro k d' rec hd hc
      simp only [alookup_aset] at hd
      by_cases hk : k = sig
      · subst hk; exact h.disjoint k d rec hl hc
      · simp only [hk, if_false] at hd; exact h.disjoint k d' rec hd hc
    · intro k r' rec ho hc
      simp only at ho hc
      split at ho
      · simp only [alookup_aset] at ho
        by_cases hk : k = sig
        · subst hk; exact absurd hc (fun hc => h.disjoint k d rec hl hc)
        · simp only [hk, if_false] at ho; exact h.good k r' rec ho hc
      · exact h.good k r' rec ho hc




theorem oidcGuard_calm (ss : SState) (c : Call) (h : c.sensitive = false) : OidcGuard ss c := by
  cases c <;> first | trivial | cases h

macro "wpo_step" : tactic => `(tactic| (simp only [wpG_run, wpG_toProg, wpGH_bind, wpGH_callH, wpGH_guard, wpGH_expectReq, wpGH_expectNat, wpGH_expectOk,
      wpGH_expectClient, wpGH_expectDev, wpGH_expectPar, wpGH_optErr, wpGH_ite, wpGH_pure, wpGH_ok, wpGH_fail,
      wpG_pbind, wpG_call, wpG_pure, wpG_ret, wpG_retErr, OidcGuard, implies_true, and_self, and_true, true_and]))

/-- the session subject the handler chain carries is the one the consent application supplied, and
    the code produced so far (if any) has been minted -/
def AccO (subj : String) (ss : SState) (acc : AuthzAcc) : Prop :=
  acc.ar.sess.idSubject = subj ∧ ∀ c, acc.code = some c → c < ss.next

theorem AccO_exec (subj : String) (ss : SState) (acc : AuthzAcc) (c : Call) (h : AccO subj ss acc) :
    AccO subj (ss.exec c).1 acc :=
  ⟨h.1, fun cd hcd => Nat.lt_of_lt_of_le (h.2 cd hcd) (exec_next_mono ss c)⟩

theorem AccO_createCode (subj : String) (ss : SState) (acc' : AuthzAcc) (r : Req)
    (hs : acc'.ar.sess.idSubject = subj) (hcode : acc'.code = some ss.next) :
    AccO subj (ss.exec (.createCode r)).1 acc' := by
  refine ⟨hs, fun c hc => ?_⟩
  rw [hcode] at hc; cases hc
  rw [exec_next_createCode]; omega

section
variable (subj : String)

theorem oidc_authzExplicit (cfg : Config) (now : Time) (client : Client) (q : AuthzReq) (acc : AuthzAcc)
    (Kok : SState → AuthzAcc → Prop) (ss : SState) (h : AccO subj ss acc)
    (hok : ∀ ss' acc', AccO subj ss' acc' → Kok ss' acc') :
    wpGH OidcInv OidcGuard (authzExplicit cfg now client q acc) Kok (fun _ _ => True) ss := by
  unfold authzExplicit
  wpo_step
  refine ⟨fun _ => hok _ _ h, fun _ _ _ _ _ => ?_⟩
  simp only [exec_createCode_snd, Res.nat.injEq, forall_eq']
  exact hok _ _ (AccO_createCode subj ss _ _ h.1 rfl)

theorem oidc_authzImplicit (cfg : Config) (now : Time) (client : Client) (q : AuthzReq) (acc : AuthzAcc)
    (Kok : SState → AuthzAcc → Prop) (ss : SState) (h : AccO subj ss acc)
    (hok : ∀ ss' acc', AccO subj ss' acc' → Kok ss' acc') :
    wpGH OidcInv OidcGuard (authzImplicit cfg now client q acc) Kok (fun _ _ => True) ss := by
  unfold authzImplicit
  wpo_step
  refine ⟨fun _ => hok _ _ h, fun _ _ _ _ _ n _ => ?_⟩
  apply hok
  have := AccO_exec subj ss acc (.createAccess ({ acc.ar with sess := stampAccessIfUnset cfg now acc.ar.sess }.sanitize [])) h
  exact ⟨h.1, this.2⟩

theorem oidc_authzOIDCExplicit (q : AuthzReq) (acc : AuthzAcc) (hsub : subj = q.subject)
    (Kok : SState → AuthzAcc → Prop) (ss : SState) (h : AccO subj ss acc)
    (hok : ∀ ss' acc', AccO subj ss' acc' → Kok ss' acc') :
    wpGH OidcInv OidcGuard (authzOIDCExplicit q acc) Kok (fun _ _ => True) ss := by
  unfold authzOIDCExplicit
  wpo_step
  refine ⟨fun _ => hok _ _ h, fun hcond => ?_⟩
  split
  · wpo_step
  · rename_i c hc
    wpo_step
    intro _ hsubj
    refine ⟨⟨h.2 c hc, ?_, ?_⟩, fun _ _ => hok _ _ (AccO_exec subj ss acc _ h)⟩
    · simp only [Bool.not_eq_true', Bool.not_eq_false, Bool.and_eq_true] at hcond
      exact hcond.1
    · show (acc.ar.sess.idSubject != "") = true
      rw [h.1, hsub]; exact hsubj

theorem oidc_authzPKCE (cfg : Config) (client : Client) (q : AuthzReq) (acc : AuthzAcc)
    (Kok : SState → AuthzAcc → Prop) (ss : SState) (h : AccO subj ss acc)
    (hok : ∀ ss' acc', AccO subj ss' acc' → Kok ss' acc') :
    wpGH OidcInv OidcGuard (authzPKCE cfg client q acc) Kok (fun _ _ => True) ss := by
  unfold authzPKCE
  wpo_step
  refine ⟨fun _ => hok _ _ h, fun _ _ => ⟨fun _ => hok _ _ h, fun _ => ?_⟩⟩
  split
  · wpo_step
  · wpo_step
    exact fun _ _ => hok _ _ (AccO_exec subj ss acc _ h)

theorem oidc_authzHybrid (cfg : Config) (now : Time) (minNonce : Nat) (client : Client) (q : AuthzReq) (acc : AuthzAcc)
    (hsub : subj = q.subject)
    (Kok : SState → AuthzAcc → Prop) (ss : SState) (h : AccO subj ss acc)
    (hok : ∀ ss' acc', AccO subj ss' acc' → Kok ss' acc') :
    wpGH OidcInv OidcGuard (authzHybrid cfg now minNonce client q acc) Kok (fun _ _ => True) ss := by
  unfold authzHybrid
  wpo_step
  refine ⟨fun _ => hok _ _ h, fun _ _ _ _ hsubj _ _ _ => ?_⟩
  simp only [exec_createCode_snd, Res.nat.injEq, forall_eq']
  have hgood : acc.ar.grantedScopes.contains "openid" = true →
      (ss.next < (ss.exec (.createCode (({ acc.ar with sess := { acc.ar.sess with expCode := some (roundSecond (addDur now cfg.codeLife)) } } : Req).sanitize ["code", "redirect_uri"]))).1.next ∧
       goodOidc (({ acc.ar with sess := { acc.ar.sess with expCode := some (roundSecond (addDur now cfg.codeLife)) } } : Req).sanitize oidcParameters)) := by
    intro ho
    refine ⟨by rw [exec_next_createCode]; omega, ho, ?_⟩
    show (acc.ar.sess.idSubject != "") = true
    rw [h.1, hsub]; exact hsubj
  refine ⟨fun ho => ⟨hgood ho, fun _ _ => ⟨fun _ _ _ n _ => ?_, fun _ => ?_⟩⟩, fun _ => ⟨fun _ _ _ n _ => ?_, fun _ => ?_⟩⟩
  all_goals
    apply hok
    repeat (first
      | exact AccO_createCode subj ss _ _ h.1 rfl
      | apply AccO_exec)

end

theorem okO_authorize (cfg : Config) (now : Time) (minNonce : Nat) (q : AuthzReq) (ss : SState) :
    wpG OidcInv OidcGuard (authorizeProg cfg now minNonce q) (fun _ _ => True) ss := by
  unfold authorizeProg authorizeH
  wpo_step
  intro _ _ client _ _ _ _ rid _
  have h0 : AccO q.subject ((ss.exec (.getClient q.clientId)).1.exec .newId).1 { ar := authzBaseReq now client q rid } :=
    ⟨rfl, fun c hc => by cases hc⟩
  apply oidc_authzExplicit q.subject _ _ _ _ _ _ _ h0
  intro s1 a1 h1
  apply oidc_authzImplicit q.subject _ _ _ _ _ _ _ h1
  intro s2 a2 h2
  apply oidc_authzOIDCExplicit q.subject _ _ rfl _ _ h2
  intro s3 a3 h3 _
  apply oidc_authzHybrid q.subject _ _ _ _ _ _ rfl _ _ h3
  intro s5 a5 h5
  apply oidc_authzPKCE q.subject _ _ _ _ _ _ h5
  intro s6 a6 _
  trivial

theorem okO_authorizePar (cfg : Config) (now : Time) (minNonce : Nat) (a : AuthzParReq) (ss : SState) :
    wpG OidcInv OidcGuard (authorizeParProg cfg now minNonce a) (fun _ _ => True) ss := by
  unfold authorizeParProg authorizeParH
  wpo_step
  intro _ p _ _ _ _ _
  have h0 : ∀ (S : SState) (acc0 : AuthzAcc), acc0.ar.sess.idSubject = a.subject → acc0.code = none → AccO a.subject S acc0 :=
    fun S acc0 h1 h2 => ⟨h1, fun c hc => by rw [h2] at hc; cases hc⟩
  apply oidc_authzExplicit a.subject _ _ _ _ _ _ _ (h0 _ _ rfl rfl)
  intro s1 a1 h1
  apply oidc_authzImplicit a.subject _ _ _ _ _ _ _ h1
  intro s2 a2 h2
  apply oidc_authzOIDCExplicit a.subject _ _ rfl _ _ h2
  intro s3 a3 h3 _
  apply oidc_authzHybrid a.subject _ _ _ _ _ _ rfl _ _ h3
  intro s5 a5 h5
  apply oidc_authzPKCE a.subject _ _ _ _ _ _ h5
  intro s6 a6 _
  trivial



theorem prog_okO (s : MState) (op : Op) (p : Prog Out) (hp : op.prog s = some p) (hop : ∀ q, op ≠ .redeem q) (ss : SState) :
    wpG OidcInv OidcGuard p (fun _ _ => True) ss := by
  cases op with
  | authorize q => cases hp; exact okO_authorize _ _ _ _ _
  | redeem q => exact absurd rfl (hop q)
  | refresh q => cases hp; exact okG_refresh _ _ oidcGuard_calm _ _ _ _
  | revoke q => cases hp; exact okG_revoke _ _ oidcGuard_calm _ _
  | introspect q => cases hp; exact okG_introspect _ _ oidcGuard_calm _ _ _ _
  | introspectEndpoint q => cases hp; exact okG_introspectEndpoint _ _ oidcGuard_calm _ _ _ _
  | clientCredentials q => cases hp; exact okG_clientCredentials _ _ oidcGuard_calm _ _ _ _
  | password q => cases hp; exact okG_password _ _ oidcGuard_calm _ _ _ _
  | deviceAuthorize q => cases hp; exact okG_deviceAuth _ _ oidcGuard_calm _ _ _ _
  | parPush q => cases hp; exact okG_parPush _ _ oidcGuard_calm _ _ _ _
  | devicePoll q => cases hp; exact okG_devicePoll _ _ oidcGuard_calm _ _ _ _
  | authorizePar q => cases hp; exact okO_authorizePar _ _ _ _ _
  | setCfg _ => cases hp
  | setClient _ => cases hp
  | advance _ => cases hp
  | deviceDecide _ _ _ _ _ => cases hp

/-- **The OIDC-session invariant is preserved by every operation.** -/
theorem step_OidcInv (s : MState) (op : Op) (h : OidcInv s.ss) : OidcInv (step s op).1.ss := by
  by_cases hr : ∃ q, op = .redeem q
  · obtain ⟨q, rfl⟩ := hr
    rw [(step_redeem_pure s q).1]
    apply redeemPure_chain OidcInv q _ s.cfg s.now s.ss h
    intro ss c hi hc
    apply exec_OidcInv ss c hi
    cases c <;> first | trivial | cases hc
  · cases hp : op.prog s with
    | some p =>
      rw [step_evalS s op p hp]
      exact (wpG_sound _ _ exec_OidcInv p _ s.ss h (prog_okO s op p hp (fun q hq => hr ⟨q, hq⟩) s.ss)).1
    | none =>
      cases op with
      | setCfg c => exact h
      | setClient c => exact ⟨h.codesBelow, h.devBelow, h.oidcBelow, h.disjoint, h.good⟩
      | advance d => exact h
      | deviceDecide sg acc gs ga sub => exact OidcInv_deviceDecide s sg acc gs ga sub h
      | _ => simp [Op.prog] at hp

theorem init_OidcInv : OidcInv ({} : MState).ss := by
  constructor <;> intros <;> simp_all [alookup]

theorem after_OidcInv (ops : List Op) (s : MState) (h : OidcInv s.ss) : OidcInv (after s ops).ss := by
  induction ops generalizing s with
  | nil => exact h
  | cons op ops ih => exact ih _ (step_OidcInv s op h)

/-- in a state satisfying the invariant the side condition of the refusal theorems holds for every request -/
theorem OidcInv_sessionOk (ss : SState) (h : OidcInv ss) (q : RedeemReq) : OidcSessionOk ss q := by
  intro r rec hr hrec
  cases hs : q.code.sig with
  | none => rw [hs] at hr; cases hr
  | some sig =>
    rw [hs] at hr hrec
    exact h.good sig r rec hr hrec

/-- … in particular in every state reachable from the empty state -/
theorem reachable_sessionOk (ops : List Op) (q : RedeemReq) : OidcSessionOk (after {} ops).ss q :=
  OidcInv_sessionOk _ (after_OidcInv ops {} init_OidcInv) q


end Fosite.Model

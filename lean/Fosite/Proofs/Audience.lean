/-
  Audience strategies: the model of the Go expressions (`Model/Audience.lean`) decides exactly the
  documented rule (`Spec/Audience.lean`), for all component values / all lists of strings.

  Core of the argument: with `ap = TrimRight(hp, "/")`,
    `len(p) > len(ap) && TrimRight(p[:len(ap)+1], "/") + "/" == ap + "/"`
  holds iff `ap ++ "/"` is a prefix of `p`:  the slice has length `len(ap)+1`; a string is its trim
  followed by slashes only; so the slice is `ap` followed by exactly one slash.
-/
import Fosite.Spec.Audience
namespace Fosite.Proofs
open Fosite.Model Fosite.Spec

/-! ### `strings.TrimRight(s, "/")` -/

/-- the model's `reverse ∘ dropWhile ∘ reverse` is the spec's recursion -/
theorem trimRightSlash_eq (s : List Char) : trimRightSlash s = trimSlashes s := by
  induction s with
  | nil => simp [trimRightSlash, trimSlashes]
  | cons c cs ih =>
    unfold trimRightSlash at ih ⊢
    rw [trimSlashes, ← ih, List.reverse_cons, List.dropWhile_append]
    cases h : List.dropWhile (fun x => x == '/') cs.reverse with
    | nil =>
      by_cases hc : c = '/'
      · simp [hc]
      · simp [hc]
    | cons t ts =>
      simp only [List.isEmpty_cons, Bool.false_eq_true, if_false, List.reverse_append,
        List.reverse_cons, List.reverse_nil, List.nil_append, List.cons_append]
      cases h2 : ts.reverse ++ [t] with
      | nil => simp at h2
      | cons a as => rfl

/-- a string is its trim followed by slashes only -/
theorem trimSlashes_decompose (s : List Char) : ∃ k, s = trimSlashes s ++ List.replicate k '/' := by
  induction s with
  | nil => exact ⟨0, by simp [trimSlashes]⟩
  | cons c cs ih =>
    obtain ⟨k, hk⟩ := ih
    rw [trimSlashes]
    cases h : trimSlashes cs with
    | nil =>
      rw [h] at hk
      by_cases hc : c = '/'
      · refine ⟨k + 1, ?_⟩
        simp only [hc, if_true, List.nil_append, List.replicate_succ]
        rw [← List.nil_append (List.replicate k '/'), ← hk]
      · refine ⟨k, ?_⟩
        simp only [hc, if_false, List.cons_append, List.nil_append]
        rw [← List.nil_append (List.replicate k '/'), ← hk]
    | cons t ts =>
      rw [h] at hk
      exact ⟨k, by simp only [List.cons_append]; rw [← List.cons_append, ← hk]⟩

/-- the trim does not end in a slash -/
theorem trimSlashes_getLast (s : List Char) : (trimSlashes s).getLast? ≠ some '/' := by
  induction s with
  | nil => simp [trimSlashes]
  | cons c cs ih =>
    rw [trimSlashes]
    cases h : trimSlashes cs with
    | nil =>
      by_cases hc : c = '/'
      · simp [hc]
      · simp only [hc, if_false, List.getLast?_singleton]
        intro e; exact hc (Option.some.inj e)
    | cons t ts =>
      rw [h] at ih
      simp only [List.getLast?_cons_cons]
      exact ih

theorem trimSlashes_length_le (s : List Char) : (trimSlashes s).length ≤ s.length := by
  obtain ⟨k, hk⟩ := trimSlashes_decompose s
  have := congrArg List.length hk
  simp only [List.length_append, List.length_replicate] at this
  omega

theorem trimSlashes_idem (s : List Char) : trimSlashes (trimSlashes s) = trimSlashes s := by
  induction s with
  | nil => simp [trimSlashes]
  | cons c cs ih =>
    rw [trimSlashes]
    cases h : trimSlashes cs with
    | nil =>
      by_cases hc : c = '/'
      · simp [hc, trimSlashes]
      · simp [hc, trimSlashes]
    | cons t ts =>
      rw [h] at ih
      simp only
      rw [trimSlashes, ih]

/-- `TrimRight(s + "/", "/") = TrimRight(s, "/")` -/
theorem trimSlashes_append_slash (s : List Char) : trimSlashes (s ++ ['/']) = trimSlashes s := by
  induction s with
  | nil => simp [trimSlashes]
  | cons c cs ih =>
    rw [List.cons_append, trimSlashes, ih, trimSlashes]

theorem trimSlashes_append_slashes (s : List Char) (k : Nat) :
    trimSlashes (s ++ List.replicate k '/') = trimSlashes s := by
  induction k with
  | zero => simp
  | succ k ih =>
    rw [List.replicate_succ', ← List.append_assoc, trimSlashes_append_slash, ih]

/-- `trimSlashes s` is characterised by: `s` is it followed by slashes, and it does not end in one. -/
theorem trimSlashes_unique (s t : List Char) (k : Nat) (hs : s = t ++ List.replicate k '/')
    (ht : t.getLast? ≠ some '/') : trimSlashes s = t := by
  rw [hs, trimSlashes_append_slashes]
  -- a string not ending in a slash is its own trim
  clear hs
  induction t with
  | nil => simp [trimSlashes]
  | cons c cs ih =>
    cases cs with
    | nil =>
      have hc : c ≠ '/' := by
        intro e; apply ht; simp [e]
      simp [trimSlashes, hc]
    | cons d ds =>
      have := ih (by simpa [List.getLast?_cons_cons] using ht)
      rw [trimSlashes, this]

/-! ### The slice expression -/

/-- With `ap` already trimmed: the Go slice test is the prefix test at a segment boundary. -/
theorem slice_test_eq_prefix (ap p : List Char) (hap : trimSlashes ap = ap) :
    (decide (p.length > ap.length) &&
        trimSlashes (p.take (ap.length + 1)) ++ ['/'] == ap ++ ['/']) =
      (ap ++ ['/']).isPrefixOf p := by
  rw [Bool.eq_iff_iff]
  simp only [Bool.and_eq_true, decide_eq_true_eq, beq_iff_eq, List.isPrefixOf_iff_prefix]
  constructor
  · intro ⟨hlen, he⟩
    have he' : trimSlashes (p.take (ap.length + 1)) = ap := List.append_cancel_right he
    obtain ⟨k, hk⟩ := trimSlashes_decompose (p.take (ap.length + 1))
    rw [he'] at hk
    have hl := congrArg List.length hk
    simp only [List.length_take, List.length_append, List.length_replicate] at hl
    have hk1 : k = 1 := by omega
    subst hk1
    have : ap ++ ['/'] = p.take (ap.length + 1) := by rw [hk]; rfl
    rw [this]
    exact List.take_prefix _ _
  · intro ⟨r, hr⟩
    subst hr
    refine ⟨by simp only [List.length_append, List.length_cons, List.length_nil]; omega, ?_⟩
    have ht : List.take (ap.length + 1) (ap ++ ['/'] ++ r) = ap ++ ['/'] := by
      have : ap.length + 1 = (ap ++ ['/']).length := by simp
      rw [this, List.take_left']
      rfl
    rw [ht, trimSlashes_append_slash, hap]

theorem string_beq_eq_toList (a b : String) : (a == b) = (a.toList == b.toList) := by
  rw [Bool.eq_iff_iff]
  simp only [beq_iff_eq, String.toList_inj]

/-- The Go condition inside `DefaultAudienceMatchingStrategy` (on parsed URLs) is the documented
    rule, for all component values. -/
theorem audDefaultOne_eq (hu nu : URLParts) : audDefaultOne hu nu = audienceOne hu nu := by
  unfold audDefaultOne audienceOne audiencePath
  simp only [trimRightSlash_eq]
  rw [slice_test_eq_prefix _ _ (trimSlashes_idem _), string_beq_eq_toList nu.path hu.path]

/-! ### The loops -/

theorem scan_eq (parse : String → Option URLParts) (nu : URLParts) (hs : List String) (found : Bool) :
    audDefault.go.scan parse nu hs found =
      if hs.all (fun h => (parse h).isSome) then
        .ok (found || hs.any (fun h => match parse h with
          | none => false
          | some hu => audienceOne hu nu))
      else .error .invalid_request := by
  induction hs generalizing found with
  | nil => simp [audDefault.go.scan]
  | cons h hs ih =>
    rw [audDefault.go.scan]
    cases hp : parse h with
    | none => simp [hp]
    | some hu =>
      simp only [ih, audDefaultOne_eq, List.all_cons, hp, Option.isSome_some, Bool.true_and,
        List.any_cons, Bool.or_assoc]

/-- the per-needle condition of `Spec.audienceDefault` -/
def needleOk (parse : String → Option URLParts) (hay : List String) (n : String) : Bool :=
  match parse n with
  | none => false
  | some nu =>
    hay.all (fun h => (parse h).isSome) &&
    hay.any (fun h => match parse h with
      | none => false
      | some hu => audienceOne hu nu)

theorem audienceDefault_def (parse : String → Option URLParts) (hay ns : List String) :
    audienceDefault parse hay ns =
      if ns.all (needleOk parse hay) then none else some .invalid_request := rfl

theorem go_eq (parse : String → Option URLParts) (hay ns : List String) :
    audDefault.go parse hay ns = audienceDefault parse hay ns := by
  rw [audienceDefault_def]
  induction ns with
  | nil => simp [audDefault.go]
  | cons n ns ih =>
    rw [audDefault.go, List.all_cons]
    cases hp : parse n with
    | none => simp [needleOk, hp]
    | some nu =>
      have hn : needleOk parse hay n =
          (hay.all (fun h => (parse h).isSome) &&
            hay.any (fun h => match parse h with
              | none => false
              | some hu => audienceOne hu nu)) := by
        simp only [needleOk, hp]
      rw [hn]
      simp only [scan_eq, Bool.false_or]
      cases hay.all (fun h => (parse h).isSome) with
      | false => simp
      | true =>
        simp only [if_true, Bool.true_and]
        cases hay.any (fun h => match parse h with
            | none => false
            | some hu => audienceOne hu nu) with
        | false => simp
        | true => simp only [ih, Bool.true_and]

/-- `DefaultAudienceMatchingStrategy` (model, any parser) = documented rule with parse errors. -/
theorem audDefault_eq (parse : String → Option URLParts) (hay ns : List String) :
    audDefault parse hay ns = audienceDefault parse hay ns := by
  unfold audDefault; exact go_eq parse hay ns

/-- the executable spec in quantifier form -/
theorem needleOk_iff (parse : String → Option URLParts) (hay : List String) (n : String) :
    needleOk parse hay n = true ↔
      ∃ nu, parse n = some nu ∧ (∀ h ∈ hay, (parse h).isSome = true) ∧
        ∃ h ∈ hay, ∃ hu, parse h = some hu ∧ audienceOne hu nu = true := by
  unfold needleOk
  cases hp : parse n with
  | none => simp
  | some nu =>
    simp only [Bool.and_eq_true, List.all_eq_true, List.any_eq_true, Option.some.injEq,
      exists_eq_left']
    constructor
    · intro ⟨h1, h, hm, h2⟩
      refine ⟨h1, h, hm, ?_⟩
      cases hq : parse h with
      | none => rw [hq] at h2; simp at h2
      | some hu => rw [hq] at h2; exact ⟨hu, rfl, h2⟩
    · intro ⟨h1, h, hm, hu, hq, h2⟩
      refine ⟨h1, h, hm, ?_⟩
      rw [hq]; exact h2

theorem audienceDefault_eq_none_iff (parse : String → Option URLParts) (hay ns : List String) :
    audienceDefault parse hay ns = none ↔
      ∀ n ∈ ns, ∃ nu, parse n = some nu ∧ (∀ h ∈ hay, (parse h).isSome = true) ∧
        ∃ h ∈ hay, ∃ hu, parse h = some hu ∧ audienceOne hu nu = true := by
  rw [audienceDefault_def]
  constructor
  · intro h n hn
    by_cases hall : ns.all (needleOk parse hay) = true
    · exact (needleOk_iff parse hay n).mp (List.all_eq_true.mp hall n hn)
    · rw [if_neg hall] at h; cases h
  · intro h
    have hall : ns.all (needleOk parse hay) = true :=
      List.all_eq_true.mpr (fun n hn => (needleOk_iff parse hay n).mpr (h n hn))
    rw [if_pos hall]

/-- every refusal is `invalid_request` -/
theorem audienceDefault_cases (parse : String → Option URLParts) (hay ns : List String) :
    audienceDefault parse hay ns = none ∨ audienceDefault parse hay ns = some .invalid_request := by
  rw [audienceDefault_def]; split <;> simp

/-- Parse-error-free case: with a total parser the default strategy accepts iff every requested
    audience matches some whitelisted entry. -/
theorem audDefault_total_eq (p : String → URLParts) (hay ns : List String) :
    audDefault (fun s => some (p s)) hay ns = audienceDefaultTotal p hay ns := by
  rw [audDefault_eq]
  unfold audienceDefaultTotal
  by_cases h : ∀ n ∈ ns, ∃ h ∈ hay, audienceOne (p h) (p n) = true
  · rw [if_pos h, audienceDefault_eq_none_iff]
    intro n hn
    obtain ⟨x, hx, hm⟩ := h n hn
    exact ⟨p n, rfl, fun _ _ => rfl, x, hx, p x, rfl, hm⟩
  · rw [if_neg h]
    rcases audienceDefault_cases (fun s => some (p s)) hay ns with hc | hc
    · exfalso; apply h
      intro n hn
      obtain ⟨nu, hnu, _, x, hx, hu, hhu, hm⟩ := (audienceDefault_eq_none_iff _ _ _).mp hc n hn
      cases hnu; cases hhu
      exact ⟨x, hx, hm⟩
    · exact hc

/-- Parse errors (1): an unparsable requested audience is refused with `invalid_request`. -/
theorem audDefault_needle_parse_error (parse : String → Option URLParts) (hay ns : List String)
    (n : String) (hn : n ∈ ns) (he : parse n = none) :
    audDefault parse hay ns = some .invalid_request := by
  rw [audDefault_eq]
  rcases audienceDefault_cases parse hay ns with hc | hc
  · obtain ⟨nu, hnu, _⟩ := (audienceDefault_eq_none_iff _ _ _).mp hc n hn
    rw [he] at hnu; cases hnu
  · exact hc

/-- Parse errors (2): with at least one requested audience, an unparsable whitelisted entry makes the
    strategy refuse with `invalid_request`, whatever else is whitelisted. -/
theorem audDefault_haystack_parse_error (parse : String → Option URLParts) (hay ns : List String)
    (hns : ns ≠ []) (h : String) (hh : h ∈ hay) (he : parse h = none) :
    audDefault parse hay ns = some .invalid_request := by
  rw [audDefault_eq]
  rcases audienceDefault_cases parse hay ns with hc | hc
  · cases ns with
    | nil => exact absurd rfl hns
    | cons n ns =>
      obtain ⟨nu, _, hall, _⟩ := (audienceDefault_eq_none_iff _ _ _).mp hc n (by simp)
      have := hall h hh
      rw [he] at this; simp at this
  · exact hc

/-- Parse errors (3): no requested audience — accepted without looking at the whitelist. -/
theorem audDefault_no_needles (parse : String → Option URLParts) (hay : List String) :
    audDefault parse hay [] = none := by
  rw [audDefault_eq, audienceDefault_eq_none_iff]; intro n hn; cases hn

/-- `ExactAudienceMatchingStrategy`: every requested audience is a member of the whitelist. -/
theorem audExact_eq (hay ns : List String) : audExact hay ns = audienceExact hay ns := by
  unfold audExact audienceExact
  have : (ns.all hay.contains = true) ↔ ∀ n ∈ ns, n ∈ hay := by
    simp only [List.all_eq_true, List.contains_iff_mem]
  by_cases h : ∀ n ∈ ns, n ∈ hay
  · rw [if_pos h, if_pos (this.mpr h)]
  · rw [if_neg h, if_neg (fun e => h (this.mp e))]

end Fosite.Proofs

/-
  Confinement of scopes and audiences (C12, last sentence): what every endpoint program hands to
  `createCode` / `createAccess` / `createRefresh`, on every path, and what acceptance of a request
  implies about the client's registration.  Lemmas for `Props/C12c.lean`.

  * `hush`: programs that never mint (no `createCode` / `createAccess` / `createRefresh` call on any
    path, whatever the store answers) — error paths, revocation, introspection, device authorization, PAR push;
  * `callsK` / `callsH`: a calculus for "every storage call made on the path taken satisfies `G`", sound
    for the storage-call log of `run` (`callsK_sound`);
  * per endpoint: the `Req` handed to a minting call carries exactly the granted scopes / audiences of its grant.
-/
import Fosite.Proofs.IssuanceRule
import Fosite.Proofs.WPH
namespace Fosite.Model

/-! ### programs that never mint -/

/-- the call stores a code, an access token or a refresh token -/
def Call.mintsToken : Call → Bool
  | .createCode _ | .createAccess _ | .createRefresh _ _ => true
  | _ => false

def hush {α} : Prog α → Prop
  | .ret _ => True
  | .call c k => c.mintsToken = false ∧ ∀ res, hush (k res)

theorem hush_bind {α β} (p : Prog α) (f : α → Prog β) (hp : hush p) (hf : ∀ a, hush (f a)) : hush (p.bind f) := by
  induction p with
  | ret a => exact hf a
  | call c k ih => exact ⟨hp.1, fun res => ih res (hp.2 res)⟩

theorem hush_call (c : Call) (h : c.mintsToken = false) : hush (call c) :=
  ⟨h, fun _ => trivial⟩

def Mintless (c : Call) : Prop := c.mintsToken = false

theorem hush_ret {α} (a : α) : hush (Prog.ret a) := trivial
theorem hush_pure {α} (a : α) : hush (pure a : Prog α) := trivial
theorem hush_pbind {α β} (p : Prog α) (f : α → Prog β) (hp : hush p) (hf : ∀ a, hush (f a)) : hush (p >>= f) :=
  hush_bind p f hp hf
theorem hush_call' (c : Call) (h : Mintless c) : hush (call c) := hush_call c h
theorem hush_retErr (e : Err) : hush (retErr e) := trivial

/-- hushness of handler programs -/
def hushH {α} (x : HP α) : Prop := hush x.toProg

theorem hushH_ok {α} (a : α) : hushH (HP.ok a) := trivial
theorem hushH_pure {α} (a : α) : hushH (pure a : HP α) := trivial
theorem hushH_fail {α} (e : Err) : hushH (HP.fail e : HP α) := trivial
theorem hushH_failWith {α} (p : Prog Err) (h : hush p) : hushH (HP.failWith p : HP α) :=
  hush_bind p _ h (fun _ => trivial)
theorem hushH_bind {α β} (x : HP α) (f : α → HP β) (hx : hushH x) (hf : ∀ a, hushH (f a)) : hushH (x >>= f) := by
  show hush (HP.bind x f).toProg
  unfold HP.bind HP.mk HP.toProg
  apply hush_bind _ _ hx
  intro r; cases r with
  | ok a => exact hf a
  | error e => trivial
theorem hushH_guard (c : Bool) (e : Err) : hushH (HP.guard c e) := by
  unfold HP.guard; split <;> trivial
theorem hushH_lift {α} (p : Prog α) (h : hush p) : hushH (HP.lift p) := hush_bind p _ h (fun _ => trivial)
theorem hushH_callH (c : Call) (h : Mintless c) : hushH (callH c) := hushH_lift _ (hush_call' c h)
theorem hushH_expectReq (c : Call) (other) (h : Mintless c) (ho : ∀ r, hush (other r)) : hushH (expectReq c other) := by
  refine ⟨h, fun res => ?_⟩
  cases res <;> first | trivial | exact hushH_failWith _ (ho _)
theorem hushH_expectNat (c : Call) (other) (h : Mintless c) (ho : ∀ r, hush (other r)) : hushH (expectNat c other) := by
  refine ⟨h, fun res => ?_⟩
  cases res <;> first | trivial | exact hushH_failWith _ (ho _)
theorem hushH_expectOk (c : Call) (other) (h : Mintless c) (ho : ∀ e, hush (other e)) : hushH (expectOk c other) := by
  refine ⟨h, fun res => ?_⟩
  show hush (match res.errKind with | none => _ | some e => _)
  cases res.errKind <;> first | trivial | exact hushH_failWith _ (ho _)
theorem hushH_expectClient (c : Call) (e) (h : Mintless c) : hushH (expectClient c e) := by
  refine ⟨h, fun res => ?_⟩
  cases res <;> trivial
theorem hushH_optErr (o : Option Err) : hushH (optErr o) := by cases o <;> trivial

theorem hush_run (x : HP Out) (h : hushH x) : hush x.run := by
  unfold HP.run
  apply hush_bind _ _ h
  intro r; cases r <;> trivial

macro "mintless" : tactic => `(tactic| (show Call.mintsToken _ = false; rfl))

/-! ### the error-path programs -/

theorem hush_rollbackThen (e : Err) : hush (rollbackThen e) := by
  unfold rollbackThen
  apply hush_pbind _ _ (hush_call' _ (by mintless))
  intro r; split <;> trivial

theorem hush_refreshStorageError (e : Err) : hush (refreshStorageError e) := by
  unfold refreshStorageError
  apply hush_pbind _ _ (hush_call' _ (by mintless))
  intro r; split <;> trivial

theorem hush_refreshReuse (sig : Option Nat) (rid : Nat) : hush (refreshReuse sig rid) := by
  unfold refreshReuse
  apply hush_pbind _ _ (hush_call' _ (by mintless)); intro r
  split
  · trivial
  · apply hush_pbind _ _ (hush_call' _ (by mintless)); intro r
    split
    · exact hush_refreshStorageError _
    · apply hush_pbind _ _ (hush_call' _ (by mintless)); intro r
      show hush (if _ then _ else _)
      split
      · exact hush_refreshStorageError _
      · apply hush_pbind _ _ (hush_call' _ (by mintless)); intro r
        show hush (if _ then _ else _)
        split
        · exact hush_refreshStorageError _
        · apply hush_pbind _ _ (hush_call' _ (by mintless)); intro r
          split
          · exact hush_refreshStorageError _
          · trivial

theorem hush_redeemLookupFailed (r : Res) : hush (redeemLookupFailed r) := by
  unfold redeemLookupFailed
  split
  · apply hush_pbind _ _ (hush_call' _ (by mintless)); intro _
    apply hush_pbind _ _ (hush_call' _ (by mintless)); intro _
    trivial
  · split <;> trivial

theorem hush_refreshLookupFailed (sig : Option Nat) (r : Res) : hush (refreshLookupFailed sig r) := by
  unfold refreshLookupFailed
  split
  · exact hush_refreshReuse _ _
  · split <;> trivial

/-! ### whole endpoints that are hush -/

theorem hushH_authenticate (id : String) (ok : Bool) : hushH (authenticate id ok) := by
  unfold authenticate
  apply hushH_bind _ _ (hushH_expectClient _ _ (by mintless)); intro c
  apply hushH_bind _ _ (hushH_guard _ _); intro _
  exact hushH_pure _

theorem hushH_revocationError (e1 e2 : Option Err) : hushH (revocationError e1 e2) := by
  unfold revocationError; split <;> trivial

theorem hushH_revokeFound (client : Client) (ar : Req) : hushH (revokeH.revokeFound client ar) := by
  unfold revokeH.revokeFound
  apply hushH_bind _ _ (hushH_guard _ _); intro _
  apply hushH_bind _ _ (hushH_callH _ (by mintless)); intro _
  apply hushH_bind _ _ (hushH_callH _ (by mintless)); intro _
  exact hushH_revocationError _ _

theorem hush_revokeProg (q : RevokeReq) : hush (revokeProg q) := by
  apply hush_run
  unfold revokeH
  apply hushH_bind _ _ (hushH_authenticate _ _); intro client
  apply hushH_bind _ _ (hushH_callH _ (by unfold revokeFirst; split <;> mintless)); intro r1
  split
  · exact hushH_revokeFound _ _
  · apply hushH_bind _ _ (hushH_callH _ (by unfold revokeSecond; split <;> mintless)); intro r2
    split
    · exact hushH_revokeFound _ _
    · exact hushH_revocationError _ _

theorem hushH_introspectAccess (cfg now q) : hushH (introspectAccess cfg now q) := by
  unfold introspectAccess
  apply hushH_bind _ _ (hushH_expectReq _ _ (by mintless) (fun _ => hush_retErr _)); intro r
  apply hushH_bind _ _ (hushH_guard _ _); intro _
  apply hushH_bind _ _ (hushH_guard _ _); intro _
  apply hushH_bind _ _ (hushH_guard _ _); intro _
  exact hushH_pure _

theorem hushH_introspectRefresh (cfg now q) : hushH (introspectRefresh cfg now q) := by
  unfold introspectRefresh
  apply hushH_bind _ _ (hushH_expectReq _ _ (by mintless) (fun _ => hush_retErr _)); intro r
  apply hushH_bind _ _ (hushH_guard _ _); intro _
  apply hushH_bind _ _ (hushH_guard _ _); intro _
  apply hushH_bind _ _ (hushH_guard _ _); intro _
  exact hushH_pure _

theorem hush_introspectProg (cfg now q) : hush (introspectProg cfg now q) := by
  unfold introspectProg attempt
  split
  · apply hush_pbind _ _ (hushH_introspectAccess cfg now q); intro r; split <;> trivial
  · split
    · apply hush_pbind _ _ (hushH_introspectRefresh cfg now q); intro r
      split
      · trivial
      · apply hush_pbind _ _ (hushH_introspectAccess cfg now q); intro r; split <;> trivial
    · apply hush_pbind _ _ (hushH_introspectAccess cfg now q); intro r
      split
      · trivial
      · apply hush_pbind _ _ (hushH_introspectRefresh cfg now q); intro r; split <;> trivial

theorem hush_introspectEndpointProg (cfg now q) : hush (introspectEndpointProg cfg now q) := by
  unfold introspectEndpointProg
  have hinspect : hush (do
      match ← introspectProg cfg now q.q with
      | .active use x => return .active use x
      | _ => return Out.inactive .token_inactive : Prog Out) := by
    apply hush_pbind _ _ (hush_introspectProg cfg now q.q); intro r; split <;> trivial
  cases q.caller with
  | bearer tok identical =>
    simp only
    split
    · trivial
    · apply hush_pbind _ _ (hush_introspectProg cfg now _); intro r
      split
      · split
        · trivial
        · exact hinspect
      · trivial
  | basic id secretOk =>
    simp only
    apply hush_pbind _ _ (hush_call' _ (by mintless)); intro r
    split
    · split
      · exact hinspect
      · trivial
    · trivial
  | anonymous => trivial



/-! ### the calls a run makes -/

/-- every storage call made on the path taken from `rs` satisfies `G`; `K` is what is demanded of the
    final state / value -/
def callsK {α} (G : Call → Prop) (rc : RunCfg) : Prog α → (RState → α → Prop) → RState → Prop
  | .ret a, K, rs => K rs a
  | .call c k, K, rs => G c ∧ callsK G rc (k (rs.step rc c).2) K (rs.step rc c).1

theorem callsK_mono {α} (G) (rc) (p : Prog α) (K K' : RState → α → Prop) (rs)
    (h : ∀ rs' a, K rs' a → K' rs' a) : callsK G rc p K rs → callsK G rc p K' rs := by
  induction p generalizing rs with
  | ret a => exact h rs a
  | call c k ih => intro ⟨h1, h2⟩; exact ⟨h1, ih _ _ h2⟩

theorem callsK_bind {α β} (G) (rc) (p : Prog α) (f : α → Prog β) (K) (rs) :
    callsK G rc (p.bind f) K rs ↔ callsK G rc p (fun rs' a => callsK G rc (f a) K rs') rs := by
  induction p generalizing rs with
  | ret a => exact Iff.rfl
  | call c k ih => simp only [Prog.bind, callsK, ih]

/-- the calls are one thing, the final state another -/
theorem callsK_split {α} (G) (rc) (p : Prog α) (K : RState → α → Prop) (rs) :
    callsK G rc p K rs ↔ callsK G rc p (fun _ _ => True) rs ∧ wp rc p K rs := by
  induction p generalizing rs with
  | ret a => simp [callsK]
  | call c k ih => simp only [callsK, wp_call, ih]; exact ⟨fun ⟨a, b, c⟩ => ⟨⟨a, b⟩, c⟩, fun ⟨⟨a, b⟩, c⟩ => ⟨a, b, c⟩⟩

theorem step_log_cases (rc : RunCfg) (rs : RState) (c : Call) :
    (rs.step rc c).1.log = rs.log ∨ ∃ r, (rs.step rc c).1.log = rs.log ++ [(c, r)] := by
  unfold RState.step
  by_cases hs : c.isSilent = true
  · simp [hs]
  · simp only [hs, Bool.false_eq_true, if_false]
    split
    · exact Or.inl rfl
    · split
      · exact Or.inr ⟨_, rfl⟩
      · split <;> exact Or.inr ⟨_, rfl⟩

/-- every call in the log satisfies `G` -/
def LogOk (G : Call → Prop) (l : List (Call × Res)) : Prop := ∀ e ∈ l, G e.1

/-- **soundness**: the storage-call log of the run only contains calls satisfying `G` -/
theorem callsK_sound {α} (G) (rc : RunCfg) (p : Prog α) (K : RState → α → Prop) (rs : RState)
    (hl : LogOk G rs.log) (h : callsK G rc p K rs) :
    LogOk G (run rc rs p).1.log ∧ K (run rc rs p).1 (run rc rs p).2 := by
  induction p generalizing rs with
  | ret a => exact ⟨hl, h⟩
  | call c k ih =>
    simp only [run_call]
    apply ih _ _ _ h.2
    rcases step_log_cases rc rs c with h' | ⟨r, h'⟩
    · rw [h']; exact hl
    · rw [h']
      intro e he
      rcases List.mem_append.mp he with h1 | h1
      · exact hl e h1
      · simp only [List.mem_singleton] at h1; subst h1; exact h.1

/-- what may be minted: `P` of the request handed over; every other call is free -/
def CallOk (P : Req → Prop) : Call → Prop
  | .createCode r => P r
  | .createAccess r => P r
  | .createRefresh _ r => P r
  | _ => True

theorem CallOk_of_mintless (P : Req → Prop) (c : Call) (h : c.mintsToken = false) : CallOk P c := by
  cases c <;> first | trivial | cases h

theorem callsK_of_hush {α} (P) (rc) (p : Prog α) (rs) (h : hush p) : callsK (CallOk P) rc p (fun _ _ => True) rs := by
  induction p generalizing rs with
  | ret a => trivial
  | call c k ih => exact ⟨CallOk_of_mintless P c h.1, ih _ _ (h.2 _)⟩

/-- handler-level: errors may leave at any point -/
def callsH {α} (G : Call → Prop) (rc : RunCfg) (x : HP α) (K : RState → α → Prop) (rs : RState) : Prop :=
  callsK G rc x.toProg (fun rs' r => match r with | .ok a => K rs' a | .error _ => True) rs

theorem callsH_ok {α} (G rc) (a : α) (K) (rs) : callsH G rc (HP.ok a) K rs ↔ K rs a := Iff.rfl
theorem callsH_pure {α} (G rc) (a : α) (K) (rs) : callsH G rc (pure a : HP α) K rs ↔ K rs a := Iff.rfl
theorem callsH_fail {α} (G rc) (e : Err) (K : RState → α → Prop) (rs) : callsH G rc (HP.fail e) K rs := trivial

theorem callsH_failWith {α} (P rc) (p : Prog Err) (K : RState → α → Prop) (rs) (h : hush p) :
    callsH (CallOk P) rc (HP.failWith p) K rs := by
  unfold callsH HP.failWith HP.mk HP.toProg
  rw [callsK_bind]
  exact callsK_mono _ rc p _ _ rs (fun _ _ _ => trivial) (callsK_of_hush P rc p rs h)

theorem callsH_bind {α β} (G rc) (x : HP α) (f : α → HP β) (K) (rs) :
    callsH G rc (x >>= f) K rs ↔ callsH G rc x (fun rs' a => callsH G rc (f a) K rs') rs := by
  show callsH G rc (HP.bind x f) K rs ↔ _
  unfold callsH HP.bind HP.mk
  show callsK G rc (Prog.bind x.toProg _) _ rs ↔ _
  rw [callsK_bind]
  constructor <;>
  · apply callsK_mono
    intro rs' r h
    cases r with
    | ok a => exact h
    | error e => trivial

theorem callsH_mono {α} (G rc) (x : HP α) (K K' : RState → α → Prop) (rs)
    (h : ∀ rs' a, K rs' a → K' rs' a) : callsH G rc x K rs → callsH G rc x K' rs := by
  unfold callsH
  apply callsK_mono
  intro rs' r hr
  cases r with
  | ok a => exact h rs' a hr
  | error e => trivial

/-- a sub-handler that never mints only matters through its success-path specification -/
theorem callsH_of_hush {α} (P rc) (x : HP α) (K : RState → α → Prop) (rs) (hx : hushH x) (hw : wpOk rc x K rs) :
    callsH (CallOk P) rc x K rs := by
  unfold callsH
  rw [callsK_split]
  refine ⟨callsK_mono _ rc _ _ _ rs (fun _ _ _ => trivial) (callsK_of_hush P rc x.toProg rs hx), ?_⟩
  unfold wpOk at hw
  apply wp_mono rc x.toProg _ _ rs _ hw
  intro rs' r h
  cases r with
  | ok a => exact h a rfl
  | error e => trivial

theorem callsH_guard (G rc) (c : Bool) (e : Err) (K) (rs) : callsH G rc (HP.guard c e) K rs ↔ (c = true → K rs ()) := by
  unfold HP.guard
  cases c
  · simp only [Bool.false_eq_true, if_false, false_implies, iff_true]; exact callsH_fail G rc e K rs
  · simp only [if_true, true_implies]; exact callsH_ok G rc () K rs

theorem callsH_optErr (G rc) (o : Option Err) (K) (rs) : callsH G rc (optErr o) K rs ↔ (o = none → K rs ()) := by
  cases o
  · simp only [optErr, true_implies]; exact callsH_ok G rc () K rs
  · simp only [optErr, reduceCtorEq, false_implies, iff_true]; exact callsH_fail G rc _ K rs

theorem callsH_callH (G rc) (c : Call) (K) (rs : RState) :
    callsH G rc (callH c) K rs ↔ G c ∧ K (rs.step rc c).1 (rs.step rc c).2 := Iff.rfl

theorem callsH_expectReq (P rc) (c : Call) (other) (K) (rs : RState) (hq : ∀ r, hush (other r)) :
    callsH (CallOk P) rc (expectReq c other) K rs ↔
      CallOk P c ∧ ∀ x, (rs.step rc c).2 = .req x → K (rs.step rc c).1 x := by
  unfold expectReq callsH HP.mk
  show callsK _ rc (Prog.call c _) _ rs ↔ _
  simp only [callsK]
  generalize (rs.step rc c).2 = r
  cases r <;> simp only [reduceCtorEq, false_implies, implies_true, and_true, Res.req.injEq, forall_eq']
  all_goals first
    | exact Iff.rfl
    | exact ⟨fun h => h.1, fun h => ⟨h, callsH_failWith P rc _ K _ (hq _)⟩⟩

theorem callsH_expectNat (P rc) (c : Call) (other) (K) (rs : RState) (hq : ∀ r, hush (other r)) :
    callsH (CallOk P) rc (expectNat c other) K rs ↔
      CallOk P c ∧ ∀ n, (rs.step rc c).2 = .nat n → K (rs.step rc c).1 n := by
  unfold expectNat callsH HP.mk
  show callsK _ rc (Prog.call c _) _ rs ↔ _
  simp only [callsK]
  generalize (rs.step rc c).2 = r
  cases r <;> simp only [reduceCtorEq, false_implies, implies_true, and_true, Res.nat.injEq, forall_eq']
  all_goals first
    | exact Iff.rfl
    | exact ⟨fun h => h.1, fun h => ⟨h, callsH_failWith P rc _ K _ (hq _)⟩⟩

theorem callsH_expectOk (P rc) (c : Call) (other) (K) (rs : RState) (hq : ∀ e, hush (other e)) :
    callsH (CallOk P) rc (expectOk c other) K rs ↔
      CallOk P c ∧ ((rs.step rc c).2.errKind = none → K (rs.step rc c).1 ()) := by
  unfold expectOk callsH HP.mk
  show callsK _ rc (Prog.call c _) _ rs ↔ _
  simp only [callsK]
  generalize (rs.step rc c).2.errKind = r
  cases r
  · simp only [true_implies]; exact Iff.rfl
  · simp only [reduceCtorEq, false_implies, and_true]
    exact ⟨fun h => h.1, fun h => ⟨h, callsH_failWith P rc _ K _ (hq _)⟩⟩

theorem callsH_expectClient (G rc) (c : Call) (e) (K) (rs : RState) :
    callsH G rc (expectClient c e) K rs ↔
      G c ∧ ∀ x, (rs.step rc c).2 = .client x → K (rs.step rc c).1 x := by
  unfold expectClient callsH HP.mk
  show callsK G rc (Prog.call c _) _ rs ↔ _
  simp only [callsK]
  generalize (rs.step rc c).2 = r
  cases r <;> simp only [reduceCtorEq, false_implies, implies_true, and_true, Res.client.injEq, forall_eq']
  all_goals first
    | exact Iff.rfl
    | exact ⟨fun h => h.1, fun h => ⟨h, callsH_fail G rc _ K _⟩⟩

theorem callsH_expectDev (P rc) (c : Call) (other) (K) (rs : RState) (hq : ∀ r, hush (other r)) :
    callsH (CallOk P) rc (expectDev c other) K rs ↔
      CallOk P c ∧ ∀ x, (rs.step rc c).2 = .dev x → K (rs.step rc c).1 x := by
  unfold expectDev callsH HP.mk
  show callsK _ rc (Prog.call c _) _ rs ↔ _
  simp only [callsK]
  generalize (rs.step rc c).2 = r
  cases r <;> simp only [reduceCtorEq, false_implies, implies_true, and_true, Res.dev.injEq, forall_eq']
  all_goals first
    | exact Iff.rfl
    | exact ⟨fun h => h.1, fun h => ⟨h, callsH_failWith P rc _ K _ (hq _)⟩⟩

theorem callsH_expectPar (P rc) (c : Call) (other) (K) (rs : RState) (hq : ∀ r, hush (other r)) :
    callsH (CallOk P) rc (expectPar c other) K rs ↔
      CallOk P c ∧ ∀ x, (rs.step rc c).2 = .par x → K (rs.step rc c).1 x := by
  unfold expectPar callsH HP.mk
  show callsK _ rc (Prog.call c _) _ rs ↔ _
  simp only [callsK]
  generalize (rs.step rc c).2 = r
  cases r <;> simp only [reduceCtorEq, false_implies, implies_true, and_true, Res.par.injEq, forall_eq']
  all_goals first
    | exact Iff.rfl
    | exact ⟨fun h => h.1, fun h => ⟨h, callsH_failWith P rc _ K _ (hq _)⟩⟩

theorem callsH_ite {α} (G rc) (c : Prop) [Decidable c] (x y : HP α) (K) (rs) :
    callsH G rc (if c then x else y) K rs ↔ (c → callsH G rc x K rs) ∧ (¬c → callsH G rc y K rs) := by
  split <;> simp_all

/-- closing a handler -/
theorem callsH_run (G rc) (x : HP Out) (rs) (h : callsH G rc x (fun _ _ => True) rs) :
    callsK G rc x.run (fun _ _ => True) rs := by
  unfold HP.run
  rw [callsK_bind]
  apply callsK_mono G rc x.toProg _ _ rs _ h
  intro rs' r _
  cases r <;> trivial


/-! ### (b) what is handed to the minting calls, endpoint by endpoint -/


/-- the request carries exactly these granted scopes and audiences -/
def GrantedIs (gs ga : List String) (r : Req) : Prop := r.grantedScopes = gs ∧ r.grantedAud = ga

theorem GrantedIs_sanitize (gs ga) (r : Req) (l) : GrantedIs gs ga (r.sanitize l) ↔ GrantedIs gs ga r := Iff.rfl

theorem clientCredentials_calls (rc : RunCfg) (cfg : Config) (now : Time) (q : DirectReq) (rs : RState) :
    callsH (CallOk (GrantedIs (appendAllUniq [] q.scopes) (appendAllUniq [] q.aud))) rc
      (clientCredentialsH cfg now q) (fun _ _ => True) rs := by
  unfold clientCredentialsH
  simp only [callsH_bind, callsH_expectNat _ _ _ _ _ _ (fun _ => hush_retErr _), authenticate, callsH_expectClient,
    callsH_guard, callsH_optErr, callsH_pure, CallOk, true_and, and_true, implies_true]
  intros
  exact ⟨rfl, rfl⟩

theorem password_calls (rc : RunCfg) (cfg : Config) (now : Time) (q : DirectReq) (rs : RState) :
    callsH (CallOk (GrantedIs (appendAllUniq [] q.scopes) (appendAllUniq [] q.aud))) rc
      (passwordH cfg now q) (fun _ _ => True) rs := by
  unfold passwordH
  simp only [callsH_bind, callsH_expectNat _ _ _ _ _ _ (fun _ => hush_retErr _), authenticate, callsH_expectClient,
    callsH_guard, callsH_optErr, callsH_pure, callsH_callH, CallOk, true_and]
  intro rid _ client _ _ _ _ _ _
  split
  · simp only [callsH_bind, callsH_expectNat _ _ _ _ _ _ (fun _ => hush_retErr _), callsH_ite, callsH_pure, CallOk,
      implies_true, and_true]
    refine ⟨⟨rfl, rfl⟩, ?_⟩
    intros
    exact ⟨rfl, rfl⟩
  · split <;> exact callsH_fail _ _ _ _ _



theorem authzExplicit_calls (rc) (cfg : Config) (now : Time) (client : Client) (q : AuthzReq) (acc : AuthzAcc) (gs ga) (rs)
    (h : GrantedIs gs ga acc.ar) :
    callsH (CallOk (GrantedIs gs ga)) rc (authzExplicit cfg now client q acc) (fun _ a => GrantedIs gs ga a.ar) rs := by
  unfold authzExplicit
  split
  · exact h
  · simp only [callsH_bind, callsH_guard, callsH_optErr, callsH_expectNat _ _ _ _ _ _ (fun _ => hush_retErr _), callsH_pure, CallOk]
    intros
    exact ⟨h, fun _ _ => h⟩

theorem authzImplicit_calls (rc) (cfg : Config) (now : Time) (client : Client) (q : AuthzReq) (acc : AuthzAcc) (gs ga) (rs)
    (h : GrantedIs gs ga acc.ar) :
    callsH (CallOk (GrantedIs gs ga)) rc (authzImplicit cfg now client q acc) (fun _ a => GrantedIs gs ga a.ar) rs := by
  unfold authzImplicit
  split
  · exact h
  · simp only [callsH_bind, callsH_guard, callsH_optErr, callsH_expectNat _ _ _ _ _ _ (fun _ => hush_retErr _), callsH_pure, CallOk]
    intros
    exact ⟨h, fun _ _ => h⟩

theorem authzOIDCExplicit_calls (rc) (q : AuthzReq) (acc : AuthzAcc) (gs ga) (rs) (h : GrantedIs gs ga acc.ar) :
    callsH (CallOk (GrantedIs gs ga)) rc (authzOIDCExplicit q acc) (fun _ a => GrantedIs gs ga a.ar) rs := by
  unfold authzOIDCExplicit
  split
  · exact h
  · split
    · exact callsH_fail _ _ _ _ _
    · simp only [callsH_bind, callsH_guard, callsH_expectOk _ _ _ _ _ _ (fun _ => hush_retErr _), callsH_pure, CallOk]
      intros
      exact ⟨trivial, fun _ => h⟩

theorem authzPKCE_calls (rc) (cfg : Config) (client : Client) (q : AuthzReq) (acc : AuthzAcc) (gs ga) (rs) (h : GrantedIs gs ga acc.ar) :
    callsH (CallOk (GrantedIs gs ga)) rc (authzPKCE cfg client q acc) (fun _ a => GrantedIs gs ga a.ar) rs := by
  unfold authzPKCE
  split
  · exact h
  · simp only [callsH_bind, callsH_optErr]
    intro _
    split
    · exact h
    · split
      · exact callsH_fail _ _ _ _ _
      · simp only [callsH_bind, callsH_expectOk _ _ _ _ _ _ (fun _ => hush_retErr _), callsH_pure, CallOk]
        exact ⟨trivial, fun _ => h⟩

theorem authzHybrid_calls (rc) (cfg : Config) (now : Time) (mn : Nat) (client : Client) (q : AuthzReq) (acc : AuthzAcc) (gs ga) (rs)
    (h : GrantedIs gs ga acc.ar) :
    callsH (CallOk (GrantedIs gs ga)) rc (authzHybrid cfg now mn client q acc) (fun _ a => GrantedIs gs ga a.ar) rs := by
  unfold authzHybrid
  simp only []
  split
  · exact h
  · simp only [callsH_bind, callsH_guard, callsH_optErr, callsH_expectNat _ _ _ _ _ _ (fun _ => hush_retErr _),
      callsH_expectOk _ _ _ _ _ _ (fun _ => hush_retErr _), callsH_pure, callsH_ite, CallOk]
    intro _ _ _ _ _ _
    refine ⟨h, ?_⟩
    intro c _
    refine ⟨fun _ => ⟨trivial, fun _ => ⟨fun _ _ => ⟨h, fun _ _ => h⟩, fun _ => h⟩⟩, fun _ => ⟨fun _ _ => ⟨h, fun _ _ => h⟩, fun _ => h⟩⟩



/-- `x` keeps an invariant of its result; the rest may assume it -/
theorem callsH_seq {α β} (G rc) (x : HP α) (f : α → HP β) (I : α → Prop) (K) (rs)
    (hx : callsH G rc x (fun _ a => I a) rs) (hf : ∀ rs' a, I a → callsH G rc (f a) K rs') :
    callsH G rc (x >>= f) K rs := by
  rw [callsH_bind]
  exact callsH_mono G rc x _ _ rs (fun rs' a ha => hf rs' a ha) hx

theorem authorize_calls (rc : RunCfg) (cfg : Config) (now : Time) (mn : Nat) (q : AuthzReq) (rs : RState) :
    callsH (CallOk (GrantedIs (appendAllUniq [] q.grantScopes) (appendAllUniq [] q.grantAud))) rc
      (authorizeH cfg now mn q) (fun _ _ => True) rs := by
  unfold authorizeH
  rw [callsH_bind, callsH_guard]; intro _
  rw [callsH_bind, callsH_expectClient]; refine ⟨trivial, ?_⟩; intro client _
  rw [callsH_bind, callsH_guard]; intro _
  rw [callsH_bind, callsH_optErr]; intro _
  rw [callsH_bind, callsH_expectNat _ _ _ _ _ _ (fun _ => hush_retErr _)]; refine ⟨trivial, ?_⟩; intro rid _
  simp only []
  apply callsH_seq _ _ _ _ _ _ _ (authzExplicit_calls rc cfg now client q _ (appendAllUniq [] q.grantScopes) (appendAllUniq [] q.grantAud) _ ⟨rfl, rfl⟩); intro rs1 a1 h1
  apply callsH_seq _ _ _ _ _ _ _ (authzImplicit_calls rc cfg now client q _ _ _ _ h1); intro rs2 a2 h2
  apply callsH_seq _ _ _ _ _ _ _ (authzOIDCExplicit_calls rc q _ _ _ _ h2); intro rs3 a3 h3
  rw [callsH_bind, callsH_guard]; intro _
  apply callsH_seq _ _ _ _ _ _ _ (authzHybrid_calls rc cfg now mn client q _ _ _ _ h3); intro rs5 a5 h5
  apply callsH_seq _ _ _ _ _ _ _ (authzPKCE_calls rc cfg client q _ _ _ _ h5); intro rs6 a6 h6
  trivial

theorem authorizePar_calls (rc : RunCfg) (cfg : Config) (now : Time) (mn : Nat) (a : AuthzParReq) (rs : RState) :
    callsH (CallOk (GrantedIs (appendAllUniq [] a.grantScopes) (appendAllUniq [] a.grantAud))) rc
      (authorizeParH cfg now mn a) (fun _ _ => True) rs := by
  unfold authorizeParH
  rw [callsH_bind, callsH_expectPar _ _ _ _ _ _ (fun _ => hush_retErr _)]; refine ⟨trivial, ?_⟩; intro p _
  rw [callsH_bind, callsH_guard]; intro _
  rw [callsH_bind, callsH_expectOk _ _ _ _ _ _ (fun _ => hush_retErr _)]; refine ⟨trivial, ?_⟩; intro _
  rw [callsH_bind, callsH_guard]; intro _
  simp only []
  apply callsH_seq _ _ _ _ _ _ _ (authzExplicit_calls rc cfg now _ _ _ (appendAllUniq [] a.grantScopes) (appendAllUniq [] a.grantAud) _ ⟨rfl, rfl⟩); intro rs1 a1 h1
  apply callsH_seq _ _ _ _ _ _ _ (authzImplicit_calls rc cfg now _ _ _ _ _ _ h1); intro rs2 a2 h2
  apply callsH_seq _ _ _ _ _ _ _ (authzOIDCExplicit_calls rc _ _ _ _ _ h2); intro rs3 a3 h3
  rw [callsH_bind, callsH_guard]; intro _
  apply callsH_seq _ _ _ _ _ _ _ (authzHybrid_calls rc cfg now mn _ _ _ _ _ _ h3); intro rs5 a5 h5
  apply callsH_seq _ _ _ _ _ _ _ (authzPKCE_calls rc cfg _ _ _ _ _ _ h5); intro rs6 a6 h6
  trivial

theorem hushH_deviceAuth (cfg now q) : hushH (deviceAuthH cfg now q) := by
  unfold deviceAuthH
  apply hushH_bind _ _ (hushH_authenticate _ _); intro client
  apply hushH_bind _ _ (hushH_guard _ _); intro _
  apply hushH_bind _ _ (hushH_guard _ _); intro _
  apply hushH_bind _ _ (hushH_guard _ _); intro _
  apply hushH_bind _ _ (hushH_optErr _); intro _
  apply hushH_bind _ _ (hushH_expectNat _ _ (by mintless) (fun _ => hush_retErr _)); intro _
  apply hushH_bind _ _ (hushH_expectNat _ _ (by mintless) (fun _ => hush_retErr _)); intro _
  exact hushH_pure _

theorem hushH_parPush (cfg now p) : hushH (parPushH cfg now p) := by
  unfold parPushH
  apply hushH_bind _ _ (hushH_authenticate _ _); intro _
  apply hushH_bind _ _ (hushH_guard _ _); intro _
  apply hushH_bind _ _ (hushH_expectClient _ _ (by mintless)); intro client
  apply hushH_bind _ _ (hushH_guard _ _); intro _
  apply hushH_bind _ _ (hushH_optErr _); intro _
  apply hushH_bind _ _ (hushH_guard _ _); intro _
  split
  · exact hushH_pure _
  · apply hushH_bind _ _ (hushH_guard _ _); intro _
    apply hushH_bind _ _ (hushH_guard _ _); intro _
    apply hushH_bind _ _ (hushH_optErr _); intro _
    apply hushH_bind _ _ (hushH_expectNat _ _ (by mintless) (fun _ => hush_retErr _)); intro _
    apply hushH_bind _ _ (hushH_expectNat _ _ (by mintless) (fun _ => hush_retErr _)); intro _
    exact hushH_pure _



theorem hushH_pkceHandle (cfg code v client) : hushH (pkceHandle cfg code v client) := by
  unfold pkceHandle
  apply hushH_bind _ _ (hushH_callH _ (by mintless)); intro r
  split
  · apply hushH_bind _ _ (hushH_optErr _); intro _
    exact hushH_optErr _
  · split
    · split
      · exact hushH_optErr _
      · exact hushH_fail _
    · exact hushH_fail _

theorem hushH_pkcePopulate (code) : hushH (pkcePopulate code) := by
  unfold pkcePopulate
  apply hushH_bind _ _ (hushH_callH _ (by mintless)); intro r
  split
  · exact hushH_pure _
  · exact hushH_pure _
  · exact hushH_fail _

theorem hushH_oidcExplicitPopulate (code client) : hushH (oidcExplicitPopulate code client) := by
  unfold oidcExplicitPopulate
  apply hushH_bind _ _ (hushH_callH _ (by mintless)); intro r
  split
  · apply hushH_bind _ _ (hushH_guard _ _); intro _
    apply hushH_bind _ _ (hushH_guard _ _); intro _
    apply hushH_bind _ _ (hushH_guard _ _); intro _
    apply hushH_bind _ _ (hushH_expectOk _ _ (by mintless) (fun _ => hush_retErr _)); intro _
    exact hushH_pure _
  · split
    · exact hushH_pure _
    · exact hushH_fail _

theorem hush_deviceReplay (rid : Nat) : hush (deviceReplay rid) := by
  unfold deviceReplay
  apply hush_pbind _ _ (hush_call' _ (by mintless)); intro _
  apply hush_pbind _ _ (hush_call' _ (by mintless)); intro _
  trivial

theorem hush_deviceLookupFailed (rid : Nat) (r : Res) : hush (deviceLookupFailed rid r) := by
  unfold deviceLookupFailed
  split
  · exact hush_deviceReplay _
  · split <;> trivial

theorem hushH_oidcDevicePopulate (code client) : hushH (oidcDevicePopulate code client) := by
  unfold oidcDevicePopulate
  apply hushH_bind _ _ (hushH_guard _ _); intro _
  apply hushH_bind _ _ (hushH_callH _ (by mintless)); intro r
  split
  · apply hushH_bind _ _ (hushH_guard _ _); intro _
    apply hushH_bind _ _ (hushH_guard _ _); intro _
    apply hushH_bind _ _ (hushH_expectOk _ _ (by mintless) (fun _ => hush_retErr _)); intro _
    exact hushH_pure _
  · split
    · exact hushH_pure _
    · exact hushH_fail _

/-- a sub-handler that never mints, when nothing is demanded of what follows it -/
theorem callsH_hush_then {α} (P rc) (x : HP α) (K : RState → α → Prop) (rs) (hx : hushH x) (hK : ∀ rs' a, K rs' a) :
    callsH (CallOk P) rc x K rs :=
  callsH_of_hush P rc x K rs hx (wpOk_of_forall rc x K rs hK)

/-! ### refresh -/

/-- the request carries the granted scopes and audiences of the refresh token presented -/
def RefreshGrant (q : RefreshReq) (ss : SState) (r : Req) : Prop :=
  ∃ sig rec, q.token.sig = some sig ∧ alookup ss.store.refresh sig = some rec ∧
    GrantedIs (appendAllUniq [] rec.req.grantedScopes) (appendAllUniq [] rec.req.grantedAud) r

theorem refresh_calls (rc : RunCfg) (cfg : Config) (now : Time) (q : RefreshReq) (rs : RState) :
    callsH (CallOk (RefreshGrant q rs.ss)) rc (refreshH cfg now q) (fun _ _ => True) rs := by
  unfold refreshH
  simp only [callsH_bind, callsH_callH, authenticate, callsH_expectClient, callsH_guard, callsH_optErr, callsH_pure,
    callsH_expectReq _ _ _ _ _ _ (hush_refreshLookupFailed _),
    callsH_expectOk _ _ _ _ _ _ (fun _ => hush_retErr _), callsH_expectOk _ _ _ _ _ _ hush_refreshStorageError,
    callsH_expectNat _ _ _ _ _ _ (fun _ => hush_refreshStorageError _), CallOk, true_and, and_true, implies_true]
  intro client hcl _ _ orig hgr _ _ _ _ _ _ _ _
  have h1 := step_eq_exec rc rs .newId rfl _ rfl (by intro e; simp [RState.step, Call.isSilent, SState.exec])
  have h2 := step_eq_exec rc (rs.step rc .newId).1 (.getClient q.clientId) rfl _ hcl (by intro e; simp)
  have h3 := step_eq_exec rc _ (.getRefresh q.token.sig) rfl _ hgr (by intro e; simp)
  rw [exec_getClient_fst] at h2
  obtain ⟨sig, rec, hsig, hrec, _, hreq⟩ := exec_getRefresh_req _ _ _ h3.2
  rw [h2.1, h1.1, (exec_newId_ss rs.ss).1] at hrec
  subst hreq
  have hP : RefreshGrant q rs.ss ((refreshStoreReq cfg now q client rec.req).sanitize []) :=
    ⟨sig, rec, hsig, hrec, rfl, rfl⟩
  exact ⟨hP, fun _ _ => hP⟩


theorem step_newId_nofail (rc : RunCfg) (rs : RState) (e : Err) : (rs.step rc .newId).2 ≠ .fail e := by
  simp [RState.step, Call.isSilent, SState.exec]

/-! ### device_code -/

def DeviceGrant (q : DevicePollReq) (ss : SState) (r : Req) : Prop :=
  ∃ sig d, q.code.sig = some sig ∧ alookup ss.store.device sig = some d ∧
    GrantedIs (appendAllUniq [] d.req.grantedScopes) (appendAllUniq [] d.req.grantedAud) r

theorem callsH_deviceStateGate (G rc) (d : DevRec) (K : RState → Unit → Prop) (rs) :
    callsH G rc (deviceStateGate d) K rs ↔ (d.state ≠ 0 → d.state ≠ 2 → K rs ()) := by
  unfold deviceStateGate
  by_cases h0 : d.state = 0
  · simp only [h0, beq_self_eq_true, if_true, ne_eq, not_true_eq_false, false_implies, iff_true]; exact callsH_fail G rc _ K rs
  · by_cases h2 : d.state = 2
    · simp [h2]; exact callsH_fail G rc _ K rs
    · simp [h0, h2]; exact callsH_ok G rc () K rs

theorem devicePoll_calls (rc : RunCfg) (cfg : Config) (now : Time) (q : DevicePollReq) (rs : RState) :
    callsH (CallOk (DeviceGrant q rs.ss)) rc (devicePollH cfg now q) (fun _ _ => True) rs := by
  unfold devicePollH
  simp only [callsH_bind, callsH_callH, authenticate, callsH_expectClient, callsH_guard, callsH_pure, callsH_deviceStateGate,
    callsH_expectDev _ _ _ _ _ _ (hush_deviceLookupFailed _), callsH_expectDev _ _ _ _ _ _ (fun _ => hush_retErr _),
    callsH_expectOk _ _ _ _ _ _ (fun _ => hush_retErr _), callsH_expectOk _ _ _ _ _ _ (fun _ => hush_rollbackThen _),
    callsH_expectNat _ _ _ _ _ _ (fun _ => hush_rollbackThen _), callsH_ite, callsH_ok, CallOk, true_and]
  intro client hcl _ _ d hgd _ _ _ _ _ d2 hgd2 _ _ _ _
  have h1 := step_eq_exec rc rs .newId rfl _ rfl (step_newId_nofail rc rs)
  have h2 := step_eq_exec rc (rs.step rc .newId).1 (.getClient q.clientId) rfl _ hcl (by intro e; simp)
  have h3 := step_eq_exec rc _ (.getDevice q.code.sig) rfl _ hgd (by intro e; simp)
  rw [exec_getClient_fst] at h2
  have h5 := step_eq_exec rc _ (.getDevice q.code.sig) rfl _ hgd2 (by intro e; simp)
  obtain ⟨sig, hsig, hdev2, _⟩ := exec_getDevice_dev _ _ _ h5.2
  rw [h3.1, exec_getDevice_fst, h2.1, h1.1, (exec_newId_ss rs.ss).1] at hdev2
  have hP : DeviceGrant q rs.ss ((deviceStoreReq cfg now q client d d2).sanitize []) := ⟨sig, d2, hsig, hdev2, rfl, rfl⟩
  refine ⟨hP, ?_⟩
  intro atk _
  refine ⟨fun _ => ⟨hP, fun _ _ _ => ?_⟩, fun _ _ => ?_⟩
  all_goals exact callsH_hush_then _ rc _ _ _ (hushH_oidcDevicePopulate _ _) (fun _ _ => trivial)

/-! ### authorization_code -/

def CodeGrant (q : RedeemReq) (ss : SState) (r : Req) : Prop :=
  ∃ sig rec, q.code.sig = some sig ∧ alookup ss.store.codes sig = some rec ∧
    GrantedIs (appendAllUniq [] rec.req.grantedScopes) (appendAllUniq [] rec.req.grantedAud) r

theorem redeem_calls (rc : RunCfg) (hnf : NoFaults rc) (cfg : Config) (now : Time) (q : RedeemReq) (rs : RState) :
    callsH (CallOk (CodeGrant q rs.ss)) rc (redeemH cfg now q) (fun _ _ => True) rs := by
  unfold redeemH
  simp only [callsH_bind, callsH_callH, authenticate, callsH_expectClient, callsH_guard,
    callsH_expectReq _ _ _ _ _ _ hush_redeemLookupFailed, CallOk, true_and]
  intro client hcl _ _ ar hgc _ _ _
  have h1 := step_eq_exec rc rs .newId rfl _ rfl (step_newId_nofail rc rs)
  have h2 := step_eq_exec rc (rs.step rc .newId).1 (.getClient q.clientId) rfl _ hcl (by intro e; simp)
  have h3 := step_eq_exec rc _ (.getCode q.code.sig) rfl _ hgc (by intro e; simp)
  rw [exec_getClient_fst] at h2
  rw [exec_getCode_fst] at h3
  have hcodes3 : (RState.step rc (RState.step rc (RState.step rc rs .newId).1 (.getClient q.clientId)).1 (.getCode q.code.sig)).1.ss.store.codes
      = rs.ss.store.codes := by rw [h3.1, h2.1, h1.1, (exec_newId_ss rs.ss).1]
  apply callsH_of_hush _ rc _ _ _ (hushH_pkceHandle _ _ _ _)
  apply wpOk_pkceHandle rc cfg q.code q.verifier client _ _ hnf
  intro rs4 hsame _
  simp only [callsH_bind, callsH_guard, callsH_pure, callsH_expectReq _ _ _ _ _ _ (fun _ => hush_retErr _),
    callsH_expectOk _ _ _ _ _ _ (fun _ => hush_retErr _), callsH_expectOk _ _ _ _ _ _ (fun _ => hush_rollbackThen _),
    callsH_expectNat _ _ _ _ _ _ (fun _ => hush_rollbackThen _), callsH_ite, callsH_ok, CallOk, true_and]
  intro ar2 hgc2 _ _ _
  have h5 := step_eq_exec rc rs4 (.getCode q.code.sig) rfl _ hgc2 (by intro e; simp)
  obtain ⟨sig, rec, hsig, hrec, _, hreq⟩ := exec_getCode_req _ _ _ h5.2
  rw [hsame.2.2.1, hcodes3] at hrec
  subst hreq
  have hP : CodeGrant q rs.ss ((redeemStoreReq cfg now q client ar rec.req).sanitize []) := ⟨sig, rec, hsig, hrec, rfl, rfl⟩
  refine ⟨hP, ?_⟩
  intro atk _
  refine ⟨fun _ => ⟨hP, fun _ _ _ => ?_⟩, fun _ _ => ?_⟩
  all_goals
    apply callsH_hush_then _ rc _ _ _ (hushH_oidcExplicitPopulate _ _); intro _ _
    apply callsH_hush_then _ rc _ _ _ (hushH_pkcePopulate _); intro _ _
    trivial


theorem hushH_authzPKCE (cfg client q acc) : hushH (authzPKCE cfg client q acc) := by
  unfold authzPKCE
  split
  · exact hushH_pure _
  · apply hushH_bind _ _ (hushH_optErr _); intro _
    split
    · exact hushH_pure _
    · split
      · exact hushH_fail _
      · apply hushH_bind _ _ (hushH_expectOk _ _ (by mintless) (fun _ => hush_retErr _)); intro _
        exact hushH_pure _

/-! ### (a) acceptance implies coverage -/


/-- the client's registration covers the requested scopes (under the configured scope strategy) and the
    requested audiences (under the configured audience strategy) -/
def Covers (cfg : Config) (client : Client) (scopes aud : List String) : Prop :=
  scopesAllowed cfg client scopes = true ∧ audienceMatch cfg.audStrategy client.audience aud = none

/-- the registration covers the request, spelled out -/
def Covered (cfg : Config) (client : Client) (scopes aud : List String) : Prop :=
  (∀ sc ∈ scopes, cfg.scopeStrategy.run (client.scopes.map String.toList) sc.toList = true) ∧
  audienceMatch cfg.audStrategy client.audience aud = none

theorem scopesAllowed_iff (cfg : Config) (client : Client) (scopes : List String) :
    scopesAllowed cfg client scopes = true ↔
      ∀ s ∈ scopes, cfg.scopeStrategy.run (client.scopes.map String.toList) s.toList = true := by
  unfold scopesAllowed; exact List.all_eq_true

theorem covered_of (cfg : Config) (client : Client) (scopes aud : List String) (h : Covers cfg client scopes aud) :
    Covered cfg client scopes aud := ⟨(scopesAllowed_iff cfg client scopes).mp h.1, h.2⟩

theorem scopesAllowed_appendAllUniq (cfg : Config) (client : Client) (scopes : List String) :
    scopesAllowed cfg client (appendAllUniq [] scopes) = scopesAllowed cfg client scopes := by
  rw [Bool.eq_iff_iff, scopesAllowed_iff, scopesAllowed_iff]
  constructor
  · intro h s hs; exact h s ((mem_appendAllUniq_nil scopes s).mpr hs)
  · intro h s hs; exact h s ((mem_appendAllUniq_nil scopes s).mp hs)

/-- authorization endpoint: acceptance implies coverage by the registration looked up -/
structure AuthorizeCovered (cfg : Config) (q : AuthzReq) (ss : SState) : Prop where
  ex : ∃ client, ss.clients.find? (fun c => c.id == q.clientId) = some client ∧ Covers cfg client q.scopes q.aud

theorem authorize_cover_wp (rc : RunCfg) (cfg : Config) (now : Time) (mn : Nat) (q : AuthzReq) (rs : RState) :
    wpOk rc (authorizeH cfg now mn q) (fun _ _ => AuthorizeCovered cfg q rs.ss) rs := by
  unfold authorizeH
  rw [wpOk_bind, wpOk_guard]; intro _
  rw [wpOk_bind, wpOk_expectClient]; intro client hcl
  rw [wpOk_bind, wpOk_guard]; intro hsc
  rw [wpOk_bind, optErr_ok]; intro haud
  have h1 := step_eq_exec rc rs (.getClient q.clientId) rfl _ hcl (by intro e; simp)
  have hfind := exec_getClient_find _ _ _ h1.2
  apply wpOk_of_forall
  intro _ _
  exact ⟨client, hfind, by rw [← scopesAllowed_appendAllUniq]; exact hsc, haud⟩

/-- pushed authorization request: acceptance implies coverage by the registration looked up -/
structure ParPushCovered (cfg : Config) (p : ParPushReq) (ss : SState) : Prop where
  ex : ∃ client, ss.clients.find? (fun c => c.id == p.q.clientId) = some client ∧ (client.isPublic || p.credOk) = true ∧
    Covers cfg client p.q.scopes p.q.aud

theorem parPush_cover_wp (rc : RunCfg) (cfg : Config) (now : Time) (p : ParPushReq) (rs : RState) :
    wpOk rc (parPushH cfg now p) (fun _ _ => ParPushCovered cfg p rs.ss) rs := by
  unfold parPushH
  simp only [authenticate]
  rw [wpOk_bind, wpOk_bind, wpOk_expectClient]; intro c0 hcl0
  rw [wpOk_bind, wpOk_guard]; intro hcred
  rw [wpOk_pure, wpOk_bind, wpOk_guard]; intro _
  rw [wpOk_bind, wpOk_expectClient]; intro client hcl
  rw [wpOk_bind, wpOk_guard]; intro hsc
  rw [wpOk_bind, optErr_ok]; intro haud
  have h1 := step_eq_exec rc rs (.getClient p.q.clientId) rfl _ hcl0 (by intro e; simp)
  rw [exec_getClient_fst] at h1
  have h2 := step_eq_exec rc (rs.step rc (.getClient p.q.clientId)).1 (.getClient p.q.clientId) rfl _ hcl (by intro e; simp)
  rw [h1.1] at h2
  have : c0 = client := by have := h1.2.symm.trans h2.2; cases this; rfl
  subst this
  have hfind := exec_getClient_find _ _ _ h1.2
  apply wpOk_of_forall
  intro _ _
  exact ⟨c0, hfind, hcred, by rw [← scopesAllowed_appendAllUniq]; exact hsc, haud⟩

/-- device authorization endpoint -/
structure DeviceAuthCovered (cfg : Config) (q : DeviceAuthReq) (ss : SState) : Prop where
  ex : ∃ client, ss.clients.find? (fun c => c.id == q.clientId) = some client ∧ (client.isPublic || q.credOk) = true ∧
    client.grants.contains deviceGrant = true ∧ Covers cfg client q.scopes q.aud

theorem deviceAuth_cover_wp (rc : RunCfg) (cfg : Config) (now : Time) (q : DeviceAuthReq) (rs : RState) :
    wpOk rc (deviceAuthH cfg now q) (fun _ _ => DeviceAuthCovered cfg q rs.ss) rs := by
  unfold deviceAuthH
  simp only [authenticate]
  rw [wpOk_bind, wpOk_bind, wpOk_expectClient]; intro client hcl
  rw [wpOk_bind, wpOk_guard]; intro hcred
  rw [wpOk_pure, wpOk_bind, wpOk_guard]; intro _
  rw [wpOk_bind, wpOk_guard]; intro hgr
  rw [wpOk_bind, wpOk_guard]; intro hsc
  rw [wpOk_bind, optErr_ok]; intro haud
  have h1 := step_eq_exec rc rs (.getClient q.clientId) rfl _ hcl (by intro e; simp)
  have hfind := exec_getClient_find _ _ _ h1.2
  apply wpOk_of_forall
  intro _ _
  exact ⟨client, hfind, hcred, hgr, hsc, haud⟩


theorem wpOk_mono {α} (rc) (x : HP α) (Q Q' : RState → α → Prop) (rs) (h : ∀ rs' a, Q rs' a → Q' rs' a) :
    wpOk rc x Q rs → wpOk rc x Q' rs := by
  unfold wpOk
  apply wp_mono
  intro rs' r hr a ha
  exact h rs' a (hr a ha)

/-- `x` establishes `I` of its result; the rest may assume it -/
theorem wpOk_seq {α β} (rc) (x : HP α) (f : α → HP β) (I : α → Prop) (K) (rs)
    (hx : wpOk rc x (fun _ a => I a) rs) (hf : ∀ rs' a, I a → wpOk rc (f a) K rs') :
    wpOk rc (x >>= f) K rs := by
  rw [wpOk_bind]
  exact wpOk_mono rc x _ _ rs (fun rs' a ha => hf rs' a ha) hx

/-- the accumulator still carries these requested scopes and audiences -/
def ReqIs (S A : List String) (acc : AuthzAcc) : Prop := acc.ar.reqScopes = S ∧ acc.ar.reqAud = A

theorem authzExplicit_cover (rc) (cfg : Config) (now : Time) (client : Client) (q : AuthzReq) (acc : AuthzAcc) (rs) :
    wpOk rc (authzExplicit cfg now client q acc)
      (fun _ a => ReqIs acc.ar.reqScopes acc.ar.reqAud a ∧
        (exactOne q.responseTypes "code" = true → Covers cfg client acc.ar.reqScopes acc.ar.reqAud)) rs := by
  unfold authzExplicit
  split
  · rename_i h
    rw [wpOk_pure]
    exact ⟨⟨rfl, rfl⟩, fun h' => by simp [h'] at h⟩
  · simp only [wpOk_bind, wpOk_guard, optErr_ok, wpOk_expectNat, wpOk_pure]
    intro _ hsc haud c _
    exact ⟨⟨rfl, rfl⟩, fun _ => ⟨hsc, haud⟩⟩

theorem authzImplicit_cover (rc) (cfg : Config) (now : Time) (client : Client) (q : AuthzReq) (acc : AuthzAcc) (rs) :
    wpOk rc (authzImplicit cfg now client q acc)
      (fun _ a => ReqIs acc.ar.reqScopes acc.ar.reqAud a ∧
        (exactOne q.responseTypes "token" = true → Covers cfg client acc.ar.reqScopes acc.ar.reqAud)) rs := by
  unfold authzImplicit
  split
  · rename_i h
    rw [wpOk_pure]
    exact ⟨⟨rfl, rfl⟩, fun h' => by simp [h'] at h⟩
  · simp only [wpOk_bind, wpOk_guard, optErr_ok, wpOk_expectNat, wpOk_pure]
    intro _ hsc haud c _
    exact ⟨⟨rfl, rfl⟩, fun _ => ⟨hsc, haud⟩⟩

theorem authzOIDCExplicit_keeps (rc) (q : AuthzReq) (acc : AuthzAcc) (rs) :
    wpOk rc (authzOIDCExplicit q acc) (fun _ a => a = acc) rs := by
  unfold authzOIDCExplicit
  split
  · rw [wpOk_pure]
  · split
    · exact wpOk_fail _ _ _ _
    · simp only [wpOk_bind, wpOk_guard, wpOk_expectOk, wpOk_pure]
      intros; trivial

theorem authzHybrid_cover (rc) (cfg : Config) (now : Time) (mn : Nat) (client : Client) (q : AuthzReq) (acc : AuthzAcc) (rs) :
    wpOk rc (authzHybrid cfg now mn client q acc)
      (fun _ _ => isHybrid q.responseTypes = true → scopesAllowed cfg client acc.ar.reqScopes = true) rs := by
  unfold authzHybrid
  simp only []
  split
  · rename_i h
    rw [wpOk_pure]
    intro h'; simp [h'] at h
  · rw [wpOk_bind, wpOk_guard]; intro _
    rw [wpOk_bind, wpOk_guard]; intro _
    rw [wpOk_bind, wpOk_guard]; intro _
    rw [wpOk_bind, wpOk_guard]; intro _
    rw [wpOk_bind, wpOk_guard]; intro hsc
    apply wpOk_of_forall
    intro _ _ _
    exact hsc

/-- authorization endpoint with a `request_uri`: what the handlers re-check against the registration stored
    with the pushed request, by response type -/
structure AuthorizeParCovered (cfg : Config) (a : AuthzParReq) (ss : SState) : Prop where
  ex : ∃ u p, a.uri = some u ∧ alookup ss.store.par u = some p ∧
    ((exactOne p.responseTypes "code" = true ∨ exactOne p.responseTypes "token" = true) →
      Covers cfg p.req.client p.req.reqScopes p.req.reqAud) ∧
    (isHybrid p.responseTypes = true → scopesAllowed cfg p.req.client p.req.reqScopes = true)

theorem authorizePar_cover_wp (rc : RunCfg) (cfg : Config) (now : Time) (mn : Nat) (a : AuthzParReq) (rs : RState) :
    wpOk rc (authorizeParH cfg now mn a) (fun _ _ => AuthorizeParCovered cfg a rs.ss) rs := by
  unfold authorizeParH
  rw [wpOk_bind, wpOk_expectPar]; intro p hgp
  have h1 := step_eq_exec rc rs (.getPAR a.uri) rfl _ hgp (by intro e; simp)
  obtain ⟨u, hu, hl⟩ := exec_getPAR_par _ _ _ h1.2
  rw [wpOk_bind, wpOk_guard]; intro _
  rw [wpOk_bind, wpOk_expectOk]; intro _
  rw [wpOk_bind, wpOk_guard]; intro _
  simp only []
  apply wpOk_seq _ _ _ _ _ _ (authzExplicit_cover rc cfg now _ _ _ _); intro rs1 a1 ⟨hr1, hc1⟩
  apply wpOk_seq _ _ _ _ _ _ (authzImplicit_cover rc cfg now _ _ _ _); intro rs2 a2 ⟨hr2, hc2⟩
  apply wpOk_seq _ _ _ _ _ _ (authzOIDCExplicit_keeps rc _ _ _); intro rs3 a3 h3
  subst h3
  rw [wpOk_bind, wpOk_guard]; intro _
  apply wpOk_seq _ _ _ _ _ _ (authzHybrid_cover rc cfg now mn _ _ _ _); intro rs5 a5 hc5
  apply wpOk_of_forall
  intro _ _
  refine ⟨u, p, hu, hl, ?_, ?_⟩
  · rintro (h | h)
    · exact hc1 h
    · have := hc2 h; rw [hr1.1, hr1.2] at this; exact this
  · intro h; have := hc5 h; rw [hr2.1, hr1.1] at this; exact this

/-- with any other response type the authorization endpoint stores no code and no token at all -/
theorem authorizePar_mints_nothing (rc : RunCfg) (cfg : Config) (now : Time) (mn : Nat) (a : AuthzParReq) (rs : RState)
    (h : ∀ u p, a.uri = some u → alookup rs.ss.store.par u = some p →
      exactOne p.responseTypes "code" = false ∧ exactOne p.responseTypes "token" = false ∧ isHybrid p.responseTypes = false) :
    callsH (CallOk (fun _ => False)) rc (authorizeParH cfg now mn a) (fun _ _ => True) rs := by
  unfold authorizeParH
  rw [callsH_bind, callsH_expectPar _ _ _ _ _ _ (fun _ => hush_retErr _)]; refine ⟨trivial, ?_⟩; intro p hgp
  have h1 := step_eq_exec rc rs (.getPAR a.uri) rfl _ hgp (by intro e; simp)
  obtain ⟨u, hu, hl⟩ := exec_getPAR_par _ _ _ h1.2
  obtain ⟨hE, hT, hH⟩ := h u p hu hl
  rw [callsH_bind, callsH_guard]; intro _
  rw [callsH_bind, callsH_expectOk _ _ _ _ _ _ (fun _ => hush_retErr _)]; refine ⟨trivial, ?_⟩; intro _
  rw [callsH_bind, callsH_guard]; intro _
  simp only []
  rw [authzExplicit_skip _ _ _ _ _ hE, callsH_bind, callsH_pure, authzImplicit_skip _ _ _ _ _ hT, callsH_bind, callsH_pure,
    authzOIDCExplicit_skip _ _ hE, callsH_bind, callsH_pure, callsH_bind, callsH_guard]
  intro _
  rw [authzHybrid_skip _ _ _ _ _ _ hH, callsH_bind, callsH_pure]
  exact callsH_hush_then _ rc _ _ _ (hushH_bind _ _ (hushH_authzPKCE _ _ _ _) (fun _ => hushH_pure _)) (fun _ _ => trivial)



/-! ### one `step` of the history model -/

theorem step_opLog (s : MState) (op : Op) (p : Prog Out) (h : op.prog s = some p) :
    (step s op).2.2 = (run {} { ss := s.ss } p).1.log := by
  cases op <;> simp_all [step, Op.prog, runSeq]

theorem step_opLog_noprog (s : MState) (op : Op) (h : op.prog s = none) : (step s op).2.2 = [] := by
  cases op <;> simp_all [step, Op.prog]
  all_goals (split <;> rfl)

/-- the request a minting call stores -/
def mintedReq : Call → Option Req
  | .createCode r => some r
  | .createAccess r => some r
  | .createRefresh _ r => some r
  | _ => none

/-- the requests handed to `createCode` / `createAccess` / `createRefresh` in a storage-call log -/
def mintedReqs (log : List (Call × Res)) : List Req := log.filterMap (fun e => mintedReq e.1)

theorem mem_minted_of_LogOk (P : Req → Prop) (log : List (Call × Res)) (h : LogOk (CallOk P) log) (r : Req)
    (hr : r ∈ mintedReqs log) : P r := by
  unfold mintedReqs at hr
  obtain ⟨e, he, hm⟩ := List.mem_filterMap.mp hr
  have := h e he
  obtain ⟨c, res⟩ := e
  cases c <;> simp only [mintedReq, Option.some.injEq, reduceCtorEq] at hm <;> (subst hm; exact this)

/-- what a request minted by an operation must carry, in terms of the state the operation runs in:
    * authorization endpoint (also via a `request_uri`): exactly what the consent application granted;
    * client_credentials / password: exactly the scopes and audiences requested (which the application
      grants, and which acceptance shows are covered by the registration);
    * code / refresh / device_code grants: exactly the granted scopes and audiences of the stored code /
      refresh token / device authorization presented;
    * every other operation mints nothing. -/
def MintedFor (s : MState) : Op → Req → Prop
  | .authorize q, r => GrantedIs (appendAllUniq [] q.grantScopes) (appendAllUniq [] q.grantAud) r
  | .authorizePar a, r => GrantedIs (appendAllUniq [] a.grantScopes) (appendAllUniq [] a.grantAud) r
  | .clientCredentials q, r => GrantedIs (appendAllUniq [] q.scopes) (appendAllUniq [] q.aud) r
  | .password q, r => GrantedIs (appendAllUniq [] q.scopes) (appendAllUniq [] q.aud) r
  | .redeem q, r => CodeGrant q s.ss r
  | .refresh q, r => RefreshGrant q s.ss r
  | .devicePoll q, r => DeviceGrant q s.ss r
  | _, _ => False

theorem run_minted (P : Req → Prop) (x : HP Out) (ss : SState)
    (h : callsH (CallOk P) {} x (fun _ _ => True) { ss := ss }) (r : Req)
    (hr : r ∈ mintedReqs (run {} { ss := ss } x.run).1.log) : P r :=
  mem_minted_of_LogOk P _ (callsK_sound _ {} x.run _ { ss := ss } (by intro e he; cases he) (callsH_run _ {} x _ h)).1 r hr

theorem run_minted_hush (p : Prog Out) (ss : SState) (h : hush p) (r : Req)
    (hr : r ∈ mintedReqs (run {} { ss := ss } p).1.log) : False :=
  mem_minted_of_LogOk (fun _ => False) _
    (callsK_sound _ {} p _ { ss := ss } (by intro e he; cases he) (callsK_of_hush _ {} p _ h)).1 r hr

/-- **every request an operation hands to a minting call carries exactly the grant** (one step, any state) -/
theorem step_minted (s : MState) (op : Op) (r : Req) (hr : r ∈ mintedReqs (step s op).2.2) : MintedFor s op r := by
  cases hp : op.prog s with
  | none => rw [step_opLog_noprog s op hp] at hr; cases hr
  | some p =>
    rw [step_opLog s op p hp] at hr
    cases op with
    | authorize q => cases hp; exact run_minted _ _ _ (authorize_calls {} _ _ _ _ _) r hr
    | authorizePar a => cases hp; exact run_minted _ _ _ (authorizePar_calls {} _ _ _ _ _) r hr
    | clientCredentials q => cases hp; exact run_minted _ _ _ (clientCredentials_calls {} _ _ _ _) r hr
    | password q => cases hp; exact run_minted _ _ _ (password_calls {} _ _ _ _) r hr
    | redeem q => cases hp; exact run_minted _ _ _ (redeem_calls {} plain_default.1 _ _ _ _) r hr
    | refresh q => cases hp; exact run_minted _ _ _ (refresh_calls {} _ _ _ _) r hr
    | devicePoll q => cases hp; exact run_minted _ _ _ (devicePoll_calls {} _ _ _ _) r hr
    | deviceAuthorize q => cases hp; exact (run_minted_hush _ _ (hush_run _ (hushH_deviceAuth _ _ _)) r hr).elim
    | parPush q => cases hp; exact (run_minted_hush _ _ (hush_run _ (hushH_parPush _ _ _)) r hr).elim
    | revoke q => cases hp; exact (run_minted_hush _ _ (hush_revokeProg _) r hr).elim
    | introspect q => cases hp; exact (run_minted_hush _ _ (hush_introspectProg _ _ _) r hr).elim
    | introspectEndpoint q => cases hp; exact (run_minted_hush _ _ (hush_introspectEndpointProg _ _ _) r hr).elim
    | setCfg _ => cases hp
    | setClient _ => cases hp
    | advance _ => cases hp
    | deviceDecide _ _ _ _ _ => cases hp

theorem GrantedIs_subset (gs ga : List String) (r : Req) (h : GrantedIs (appendAllUniq [] gs) (appendAllUniq [] ga) r) :
    (∀ x ∈ r.grantedScopes, x ∈ gs) ∧ (∀ x ∈ r.grantedAud, x ∈ ga) := by
  obtain ⟨h1, h2⟩ := h
  rw [h1, h2]
  exact ⟨fun x hx => (mem_appendAllUniq_nil gs x).mp hx, fun x hx => (mem_appendAllUniq_nil ga x).mp hx⟩

/-! ### acceptance, per operation -/

theorem step_authorize_cover (s : MState) (q : AuthzReq) (c t i)
    (h : (step s (.authorize q)).2.1 = .authz c t i) : AuthorizeCovered s.cfg q s.ss := by
  rw [(step_prog s (.authorize q) (authorizeProg s.cfg s.now s.minNonce q) rfl).2] at h
  exact run_HP_ok {} (authorizeH s.cfg s.now s.minNonce q) { ss := s.ss } _ _
    (authorize_cover_wp {} s.cfg s.now s.minNonce q { ss := s.ss }) h (by intro e; simp)

theorem step_authorizePar_cover (s : MState) (a : AuthzParReq) (c t i)
    (h : (step s (.authorizePar a)).2.1 = .authz c t i) : AuthorizeParCovered s.cfg a s.ss := by
  rw [(step_prog s (.authorizePar a) (authorizeParProg s.cfg s.now s.minNonce a) rfl).2] at h
  exact run_HP_ok {} (authorizeParH s.cfg s.now s.minNonce a) { ss := s.ss } _ _
    (authorizePar_cover_wp {} s.cfg s.now s.minNonce a { ss := s.ss }) h (by intro e; simp)

theorem step_parPush_cover (s : MState) (p : ParPushReq) (u e)
    (h : (step s (.parPush p)).2.1 = .par u e) : ParPushCovered s.cfg p s.ss := by
  rw [(step_prog s (.parPush p) (parPushProg s.cfg s.now p) rfl).2] at h
  exact run_HP_ok {} (parPushH s.cfg s.now p) { ss := s.ss } _ _
    (parPush_cover_wp {} s.cfg s.now p { ss := s.ss }) h (by intro e; simp)

theorem step_deviceAuth_cover (s : MState) (q : DeviceAuthReq) (d u e)
    (h : (step s (.deviceAuthorize q)).2.1 = .device d u e) : DeviceAuthCovered s.cfg q s.ss := by
  rw [(step_prog s (.deviceAuthorize q) (deviceAuthProg s.cfg s.now q) rfl).2] at h
  exact run_HP_ok {} (deviceAuthH s.cfg s.now q) { ss := s.ss } _ _
    (deviceAuth_cover_wp {} s.cfg s.now q { ss := s.ss }) h (by intro e; simp)

theorem step_authorizePar_mints_nothing (s : MState) (a : AuthzParReq)
    (h : ∀ u p, a.uri = some u → alookup s.ss.store.par u = some p →
      exactOne p.responseTypes "code" = false ∧ exactOne p.responseTypes "token" = false ∧ isHybrid p.responseTypes = false) :
    mintedReqs (step s (.authorizePar a)).2.2 = [] := by
  rw [step_opLog s (.authorizePar a) (authorizeParProg s.cfg s.now s.minNonce a) rfl]
  apply List.eq_nil_iff_forall_not_mem.mpr
  intro r hr
  exact run_minted (fun _ => False) _ _ (authorizePar_mints_nothing {} s.cfg s.now s.minNonce a { ss := s.ss } h) r hr

end Fosite.Model

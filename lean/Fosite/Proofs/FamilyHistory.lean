/-
  Token families over histories: the tokens derived from one authorization code (by redeeming it and
  by refreshing, any number of times) all carry the code's request id; a replay of the code kills
  them all, and nothing is ever derived from the code again.
-/
import Fosite.Proofs.Family
namespace Fosite.Model

/-! ### signatures identify records -/

def keys {β} (l : List (Nat × β)) : List Nat := l.map (·.1)

theorem keys_aset {β} (l : List (Nat × β)) (k : Nat) (v : β) :
    keys (aset l k v) = if k ∈ keys l then keys l else keys l ++ [k] := by
  induction l with
  | nil => simp [aset, keys]
  | cons p t ih =>
    obtain ⟨k', v'⟩ := p
    unfold keys at ih ⊢
    by_cases hk : k' = k
    · subst hk; simp [aset]
    · have hk2 : k ≠ k' := fun h => hk h.symm
      simp only [aset, hk, if_false, List.map_cons, ih, List.mem_cons, hk2, false_or]
      split <;> simp

theorem nodup_keys_aset {β} (l : List (Nat × β)) (k : Nat) (v : β) (h : (keys l).Nodup) : (keys (aset l k v)).Nodup := by
  rw [keys_aset]
  split
  · exact h
  · rename_i hk
    rw [List.nodup_append]
    refine ⟨h, by simp, ?_⟩
    intro a ha b hb
    simp only [List.mem_singleton] at hb
    subst hb
    intro hab; subst hab; exact hk ha

theorem nodup_keys_filter {β} (l : List (Nat × β)) (p : Nat × β → Bool) (h : (keys l).Nodup) : (keys (l.filter p)).Nodup := by
  unfold keys at *
  exact List.Nodup.sublist (List.Sublist.map _ List.filter_sublist) h

theorem mem_of_alookup {β} (l : List (Nat × β)) (k : Nat) (v : β) (h : alookup l k = some v) : (k, v) ∈ l := by
  induction l with
  | nil => simp [alookup] at h
  | cons p t ih =>
    obtain ⟨k', v'⟩ := p
    by_cases hk : k' = k
    · subst hk; simp only [alookup, if_true] at h; cases h; exact List.mem_cons_self
    · simp only [alookup, hk, if_false] at h; exact List.mem_cons_of_mem _ (ih h)

theorem alookup_of_mem {β} (l : List (Nat × β)) (k : Nat) (v : β) (hn : (keys l).Nodup) (h : (k, v) ∈ l) : alookup l k = some v := by
  induction l with
  | nil => cases h
  | cons p t ih =>
    obtain ⟨k', v'⟩ := p
    unfold keys at hn ih
    simp only [List.map_cons, List.nodup_cons] at hn
    rcases List.mem_cons.mp h with heq | ht
    · cases heq; simp [alookup]
    · have hne : k' ≠ k := by
        intro hk; subst hk
        exact hn.1 (List.mem_map.mpr ⟨(k', v), ht, rfl⟩)
      simp only [alookup, hne, if_false]
      exact ih hn.2 ht

/-- under unique keys a filtered table answers with the original record -/
theorem alookup_filter_orig {β} (l : List (Nat × β)) (p : Nat × β → Bool) (k : Nat) (v : β) (hn : (keys l).Nodup)
    (h : alookup (l.filter p) k = some v) : alookup l k = some v :=
  alookup_of_mem l k v hn (List.mem_filter.mp (mem_of_alookup _ _ _ h)).1

/-- signatures are unique in the access-token and refresh-token tables -/
def KeysNodup (ss : SState) : Prop := (keys ss.store.access).Nodup ∧ (keys ss.store.refresh).Nodup

theorem init_KeysNodup : KeysNodup ({} : MState).ss := ⟨List.nodup_nil, List.nodup_nil⟩

theorem exec_KeysNodup (ss : SState) (c : Call) (h : KeysNodup ss) : KeysNodup (ss.exec c).1 := by
  refine ⟨?_, ?_⟩
  · rcases exec_access_shapes ss c with he | ⟨r, _, he⟩ | ⟨s2, he⟩ | ⟨rid, he⟩
    · rw [he]; exact h.1
    · rw [he]; exact nodup_keys_aset _ _ _ h.1
    · rw [he]; exact nodup_keys_filter _ _ h.1
    · rw [he]; exact nodup_keys_filter _ _ h.1
  · cases (exec_refresh_effect ss c).1 with
    | same hr _ _ => rw [hr]; exact h.2
    | create a r hr _ _ => rw [hr]; exact nodup_keys_aset _ _ _ h.2
    | deactivate sig rec _ hr _ _ => rw [hr]; exact nodup_keys_aset _ _ _ h.2
    | delete sig hr _ _ => rw [hr]; exact nodup_keys_filter _ _ h.2

theorem step_KeysNodup (s : MState) (op : Op) (h : KeysNodup s.ss) : KeysNodup (step s op).1.ss :=
  step_preserves KeysNodup exec_KeysNodup (fun _ _ h => h) (fun _ _ _ h => h) s op h

/-! ### members of a family keep their request id -/

/-- the access tokens `A` and refresh tokens `R` are minted signatures whose records, as long as they
    exist, carry request id `rid` -/
def Carry (ss : SState) (A R : List Nat) (rid : Nat) : Prop :=
  (∀ a ∈ A, a < ss.next ∧ ∀ x, alookup ss.store.access a = some x → x.id = rid) ∧
  (∀ t ∈ R, t < ss.next ∧ ∀ y, alookup ss.store.refresh t = some y → y.req.id = rid)

theorem exec_Carry (ss : SState) (c : Call) (A R : List Nat) (rid : Nat) (hn : KeysNodup ss) (h : Carry ss A R rid) :
    Carry (ss.exec c).1 A R rid := by
  have hm := exec_next_mono ss c
  refine ⟨?_, ?_⟩
  · intro a ha
    obtain ⟨hlt, hx⟩ := h.1 a ha
    refine ⟨Nat.lt_of_lt_of_le hlt hm, ?_⟩
    intro x hl
    rcases exec_access_shapes ss c with he | ⟨r, _, he⟩ | ⟨s2, he⟩ | ⟨rid', he⟩
    · rw [he] at hl; exact hx x hl
    · rw [he, alookup_aset] at hl
      simp only [Nat.ne_of_lt hlt, if_false] at hl; exact hx x hl
    · rw [he, alookup_adel] at hl
      split at hl
      · cases hl
      · exact hx x hl
    · rw [he] at hl
      unfold revokeAccessS at hl
      exact hx x (alookup_filter_orig _ _ _ _ hn.1 hl)
  · intro t ht
    obtain ⟨hlt, hy⟩ := h.2 t ht
    refine ⟨Nat.lt_of_lt_of_le hlt hm, ?_⟩
    intro y hl
    cases (exec_refresh_effect ss c).1 with
    | same hr _ _ => rw [hr] at hl; exact hy y hl
    | create a r hr _ _ =>
      rw [hr, alookup_aset] at hl
      simp only [Nat.ne_of_lt hlt, if_false] at hl; exact hy y hl
    | deactivate sig rec hl0 hr _ _ =>
      rw [hr, alookup_aset] at hl
      by_cases hs : t = sig
      · subst hs
        simp only [if_true] at hl; cases hl
        exact hy rec hl0
      · simp only [hs, if_false] at hl; exact hy y hl
    | delete sig hr _ _ =>
      rw [hr, alookup_adel] at hl
      split at hl
      · cases hl
      · exact hy y hl

theorem step_Carry (s : MState) (op : Op) (A R : List Nat) (rid : Nat) (hn : KeysNodup s.ss) (h : Carry s.ss A R rid) :
    Carry (step s op).1.ss A R rid :=
  (step_preserves (fun ss => KeysNodup ss ∧ Carry ss A R rid)
    (fun ss c h => ⟨exec_KeysNodup ss c h.1, exec_Carry ss c A R rid h.1 h.2⟩) (fun _ _ h => h) (fun _ _ _ h => h) s op ⟨hn, h⟩).2

/-! ### a code keeps its request -/

theorem exec_code_req (ss : SState) (c : Call) (sig : Nat) (rec : CodeRec) (hb : CodesBelow ss)
    (h : alookup ss.store.codes sig = some rec) :
    ∃ rec', alookup (ss.exec c).1.store.codes sig = some rec' ∧ rec'.req = rec.req := by
  rcases exec_codes_cases ss c with he | ⟨r, _, he⟩ | ⟨s2, rec2, _, hl2, he⟩
  · exact ⟨rec, by rw [he]; exact h, rfl⟩
  · have : sig ≠ ss.next := Nat.ne_of_lt (hb _ _ h)
    exact ⟨rec, by rw [he, alookup_aset]; simp [this, h], rfl⟩
  · by_cases hs : sig = s2
    · subst hs; rw [h] at hl2; cases hl2
      exact ⟨{ rec with active := false }, by rw [he, alookup_aset]; simp, rfl⟩
    · exact ⟨rec, by rw [he, alookup_aset]; simp [hs, h], rfl⟩

/-- the code is stored and belongs to request id `rid` -/
def CodeOf (ss : SState) (sig rid : Nat) : Prop := ∃ rec, alookup ss.store.codes sig = some rec ∧ rec.req.id = rid

theorem step_CodeOf (s : MState) (op : Op) (sig rid : Nat) (hb : CodesBelow s.ss) (h : CodeOf s.ss sig rid) :
    CodeOf (step s op).1.ss sig rid :=
  (step_preserves (fun ss => CodesBelow ss ∧ CodeOf ss sig rid)
    (fun ss c h => ⟨exec_CodesBelow ss c h.1, by
      obtain ⟨rec, hl, hid⟩ := h.2
      obtain ⟨rec', hl', hreq⟩ := exec_code_req ss c sig rec h.1 hl
      exact ⟨rec', hl', by rw [hreq]; exact hid⟩⟩)
    (fun _ _ h => h) (fun _ _ _ h => h) s op ⟨hb, h⟩).2

/-! ### histories -/

theorem trace_append (s : MState) (l1 l2 : List Op) : trace s (l1 ++ l2) = trace s l1 ++ trace (after s l1) l2 := by
  induction l1 generalizing s with
  | nil => rfl
  | cons op l1 ih => simp only [List.cons_append, trace, after, ih]

theorem after_append (s : MState) (l1 l2 : List Op) : after s (l1 ++ l2) = after (after s l1) l2 := by
  induction l1 generalizing s with
  | nil => rfl
  | cons op l1 ih => simp only [List.cons_append, after, ih]

end Fosite.Model

namespace Fosite.Model

/-- every stored access-token signature was minted before -/
def AccessBelow (ss : SState) : Prop := ∀ sig r, alookup ss.store.access sig = some r → sig < ss.next

theorem init_AccessBelow : AccessBelow ({} : MState).ss := by intro sig r h; simp [alookup] at h

theorem exec_AccessBelow (ss : SState) (c : Call) (hn : KeysNodup ss) (h : AccessBelow ss) : AccessBelow (ss.exec c).1 := by
  intro sig r hl
  have hm := exec_next_mono ss c
  rcases exec_access_shapes ss c with he | ⟨r', hc, he⟩ | ⟨s2, he⟩ | ⟨rid', he⟩
  · rw [he] at hl; exact Nat.lt_of_lt_of_le (h _ _ hl) hm
  · rw [he, alookup_aset] at hl
    subst hc
    have : (ss.exec (.createAccess r')).1.next = ss.next + 1 := by simp [SState.exec]
    rw [this]
    by_cases hs : sig = ss.next
    · omega
    · simp only [hs, if_false] at hl; have := h _ _ hl; omega
  · rw [he, alookup_adel] at hl
    split at hl
    · cases hl
    · exact Nat.lt_of_lt_of_le (h _ _ hl) hm
  · rw [he] at hl
    unfold revokeAccessS at hl
    exact Nat.lt_of_lt_of_le (h _ _ (alookup_filter_orig _ _ _ _ hn.1 hl)) hm

theorem step_AccessBelow (s : MState) (op : Op) (hn : KeysNodup s.ss) (h : AccessBelow s.ss) : AccessBelow (step s op).1.ss :=
  (step_preserves (fun ss => KeysNodup ss ∧ AccessBelow ss)
    (fun ss c h => ⟨exec_KeysNodup ss c h.1, exec_AccessBelow ss c h.1 h.2⟩) (fun _ _ h => h) (fun _ _ _ h => h) s op ⟨hn, h⟩).2

/-- a dead grant's known tokens are individually dead -/
theorem dead_of_carry (ss : SState) (A R : List Nat) (rid : Nat) (hc : Carry ss A R rid) (hd : GrantDead ss rid) :
    (∀ a ∈ A, ATGone ss a) ∧ (∀ t ∈ R, RTDead ss t) := by
  refine ⟨?_, ?_⟩
  · intro a ha
    obtain ⟨hlt, hx⟩ := hc.1 a ha
    refine ⟨hlt, ?_⟩
    cases hl : alookup ss.store.access a with
    | none => rfl
    | some x => exact absurd (hx x hl) (hd.1 a x hl)
  · intro t ht
    obtain ⟨hlt, hy⟩ := hc.2 t ht
    exact ⟨hlt, fun y hl => hd.2 t y hl (hy y hl)⟩

/-! ### frame: what reuse detection leaves alone -/

theorem reuse_frame (ss : SState) (hs : IdxSound ss) (sig rid : Nat) (rec : RefreshRec)
    (hrec : alookup ss.store.refresh sig = some rec) (hid : rec.req.id = rid) :
    let ss' := ((((ss.exec .newId).1.exec (.deleteRefresh (some sig))).1.exec (.revokeRefresh rid)).1.exec (.revokeAccess rid)).1
    (∀ a x, alookup ss.store.access a = some x → x.id ≠ rid → alookup ss'.store.access a = some x) ∧
    (∀ t y, alookup ss.store.refresh t = some y → y.req.id ≠ rid → alookup ss'.store.refresh t = some y) ∧
    ss'.store.codes = ss.store.codes := by
  intro ss'
  have e0 : (ss.exec .newId).1.store = ss.store := (exec_newId_ss ss).1
  refine ⟨?_, ?_, ?_⟩
  · intro a x hl hne
    show alookup (revokeAccessS _ rid).1.access a = some x
    apply revokeAccessS_frame _ _ _ _ _ hne
    rw [exec_revokeRefresh_access]
    simp only [SState.exec, e0]; exact hl
  · intro t y hl hne
    have hts : t ≠ sig := by intro h; subst h; rw [hrec] at hl; cases hl; exact hne hid
    show alookup (revokeAccessS _ rid).1.refresh t = some y
    rw [(revokeAccessS_effect _ rid).1]
    show alookup (revokeRefreshS _ rid).1.refresh t = some y
    apply revokeRefreshS_frame' _ _ _ _ _ _ hne
    · intro r s0 rec0 hi hl0
      simp only [SState.exec, e0] at hi hl0
      rw [alookup_adel] at hl0
      split at hl0
      · cases hl0
      · exact hs.2.2 r s0 rec0 hi hl0
    · simp only [SState.exec, e0]
      rw [alookup_adel]; simp [hts, hl]
  · show (revokeAccessS _ rid).1.codes = _
    rw [(revokeAccessS_effect _ rid).2.2.1]
    show (revokeRefreshS _ rid).1.codes = _
    rw [(revokeRefreshS_effect _ rid).2.2.1]
    simp only [SState.exec, e0]

end Fosite.Model

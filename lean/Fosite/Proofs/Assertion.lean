/-
  Lemmas for C15 (JWT assertions): the jti memory, the `Blocked` invariant of replay histories,
  characterisations of the success paths, and the interleaving invariant.
  Property theorems are in `Fosite/Props/C15.lean`.
-/
import Fosite.Model.Assertion
import Fosite.Spec.Assertion
set_option linter.unusedSimpArgs false
namespace Fosite.Proofs.Assertion
open Fosite.Model.Assertion Fosite.Spec.Assertion

/-! ### the jti memory -/

theorem lookup_mem {st : JtiStore} {j : String} {e : Int} (h : lookup st j = some e) : (j, e) ∈ st := by
  induction st with
  | nil => simp [lookup] at h
  | cons p rest ih =>
    obtain ⟨k, x⟩ := p
    simp only [lookup] at h
    split at h
    · rename_i hk; injection h with h; subst hk; subst h; exact List.mem_cons_self
    · exact List.mem_cons_of_mem _ (ih h)

/-- an entry that has not expired survives the purge -/
theorem lookup_purge_some {st : JtiStore} {j : String} {e now : Int}
    (h : lookup st j = some e) (hn : now ≤ e) : lookup (purge st now) j = some e := by
  induction st with
  | nil => simp [lookup] at h
  | cons p rest ih =>
    obtain ⟨k, x⟩ := p
    simp only [lookup] at h
    by_cases hk : k = j
    · simp only [hk, if_true] at h
      injection h with h
      subst h; subst hk
      have : ¬ x < now := by omega
      simp [purge, List.filter, this, lookup]
    · simp only [hk, if_false] at h
      have ih' := ih h
      by_cases hx : x < now
      · simpa [purge, List.filter, hx] using ih'
      · simp only [purge, List.filter, hx, decide_false, Bool.not_false]
        simp only [lookup, hk, if_false]
        simpa [purge] using ih'

/-- whatever the purged memory returns has not expired -/
theorem lookup_purge_ge {st : JtiStore} {j : String} {e now : Int}
    (h : lookup (purge st now) j = some e) : now ≤ e := by
  have hm := lookup_mem h
  simp only [purge, List.mem_filter] at hm
  have := hm.2
  simp at this
  omega

theorem jtiSet_false {st st' : JtiStore} {j : String} {x now : Int}
    (h : jtiSet st j x now = (false, st')) :
    lookup (purge st now) j = none ∧ st' = (j, x) :: purge st now := by
  unfold jtiSet at h
  split at h
  · simp at h
  · rename_i hl
    simp only [Prod.mk.injEq, true_and] at h
    exact ⟨hl, h.symm⟩

theorem jtiSet_true {st st' : JtiStore} {j : String} {x now : Int}
    (h : jtiSet st j x now = (true, st')) : st' = purge st now := by
  unfold jtiSet at h
  split at h
  · simp only [Prod.mk.injEq, true_and] at h; exact h.symm
  · simp at h

theorem jtiSet_snd (st : JtiStore) (j : String) (x now : Int) :
    (jtiSet st j x now).2 = purge st now ∨
    (lookup (purge st now) j = none ∧ (jtiSet st j x now).2 = (j, x) :: purge st now) := by
  unfold jtiSet
  split
  · exact Or.inl rfl
  · rename_i hl; exact Or.inr ⟨hl, rfl⟩

/-! ### `Blocked`: the ticket (j, E) cannot be accepted any more -/

/-- either the assertion's expiry instant has passed, or the memory holds a record of `j` that
    lives at least as long as the assertion -/
def Blocked (j : String) (E : Int) (st : JtiStore) (now : Int) : Prop :=
  E * second < now ∨ ∃ e, lookup st j = some e ∧ E * second ≤ e

theorem blocked_mono {j : String} {E : Int} {st : JtiStore} {now now' : Int}
    (h : Blocked j E st now) (hn : now ≤ now') : Blocked j E st now' := by
  rcases h with h | h
  · exact Or.inl (by omega)
  · exact Or.inr h

theorem blocked_purge {j : String} {E : Int} {st : JtiStore} {now : Int}
    (h : Blocked j E st now) : Blocked j E (purge st now) now := by
  rcases h with h | ⟨e, he, hle⟩
  · exact Or.inl h
  · by_cases hx : e < now
    · exact Or.inl (by omega)
    · exact Or.inr ⟨e, lookup_purge_some he (by omega), hle⟩

theorem blocked_insert {j j' : String} {E x : Int} {st : JtiStore} {now : Int}
    (h : Blocked j E st now) (hn : lookup st j' = none) : Blocked j E ((j', x) :: st) now := by
  rcases h with h | ⟨e, he, hle⟩
  · exact Or.inl h
  · by_cases hk : j' = j
    · subst hk; rw [hn] at he; cases he
    · exact Or.inr ⟨e, by simp [lookup, hk, he], hle⟩

theorem blocked_jtiSet {j j' : String} {E x : Int} {st : JtiStore} {now : Int}
    (h : Blocked j E st now) : Blocked j E (jtiSet st j' x now).2 now := by
  rcases jtiSet_snd st j' x now with h1 | ⟨h1, h2⟩
  · rw [h1]; exact blocked_purge h
  · rw [h2]; exact blocked_insert (blocked_purge h) h1

/-- a successful `jtiSet` of (j, E·s) while the assertion is unexpired: the ticket was not blocked
    before and is blocked afterwards -/
theorem jtiSet_ok_blocked {j : String} {E : Int} {st st' : JtiStore} {now : Int}
    (h : jtiSet st j (E * second) now = (false, st')) (hn : now ≤ E * second) :
    ¬ Blocked j E st now ∧ Blocked j E st' now := by
  obtain ⟨h1, h2⟩ := jtiSet_false h
  constructor
  · rintro (hb | ⟨e, he, hle⟩)
    · omega
    · rw [lookup_purge_some he (by omega)] at h1; cases h1
  · subst h2
    exact Or.inr ⟨E * second, by simp [lookup], Int.le_refl _⟩

/-- a successful `jtiSet` of `j` while some ticket (j, E) is blocked: E's instant has passed -/
theorem jtiSet_ok_of_blocked {j : String} {E x : Int} {st st' : JtiStore} {now : Int}
    (h : jtiSet st j x now = (false, st')) (hb : Blocked j E st now) : E * second < now := by
  obtain ⟨h1, _⟩ := jtiSet_false h
  rcases hb with hb | ⟨e, he, hle⟩
  · exact hb
  · by_cases hx : e < now
    · omega
    · rw [lookup_purge_some he (by omega)] at h1; cases h1

/-! ### success path of the client assertion -/

theorem clientPre_ok {cfg : Config} {clients : List ClientReg} {formId : String} {w : Wire} {now : Int}
    {t : ClientTicket} (h : clientPre cfg clients formId w now = .ok t) :
    w = .jws t.jws ∧
    (∃ cid, clientIdOf formId t.jws = some cid ∧ getClient clients cid = some t.client ∧
      verifyIssuer t.jws.claims.iss cid = true ∧ t.jws.claims.sub = .str cid) ∧
    clientKey t.client t.jws = .ok t.key ∧
    verifies t.jws t.key.key t.key.type = true ∧
    claimsValid t.jws.claims now = true ∧
    cfg.tokenURLs ≠ [] ∧ t.jws.claims.jti = .str t.jti ∧ t.jti ≠ "" := by
  unfold clientPre at h
  split at h
  · cases h
  · cases h
  · rename_i j
    split at h
    · cases h
    · rename_i cid hcid
      split at h
      · cases h
      · rename_i c hc
        split at h
        · cases h
        · rename_i k hk
          split at h
          · cases h
          · rename_i hver
            split at h
            · cases h
            · rename_i hval
              split at h
              · cases h
              · rename_i hiss
                split at h
                · cases h
                · rename_i hurls
                  split at h
                  · cases h
                  · rename_i hsub
                    split at h
                    · rename_i jti hjti
                      split at h
                      · cases h
                      · rename_i hne
                        injection h with h
                        subst h
                        simp only [Bool.not_eq_true, Bool.not_eq_eq_eq_not, Bool.not_not, Bool.not_true,
                          Bool.not_false] at hver hval hiss hurls
                        refine ⟨rfl, ⟨cid, hcid, hc, ?_, ?_⟩, hk, ?_, ?_, ?_, hjti, hne⟩
                        · simpa using hiss
                        · simpa using hsub
                        · simpa using hver
                        · simpa using hval
                        · intro he; simp [he] at hurls
                    · cases h

theorem getClient_some {clients : List ClientReg} {id : String} {c : ClientReg}
    (h : getClient clients id = some c) : c ∈ clients ∧ c.id = id := by
  unfold getClient at h
  refine ⟨List.mem_of_find?_eq_some h, ?_⟩
  have := List.find?_some h
  simpa using this

theorem findPublicKey_ok {kid : String} {set : List JWK} {rsa : Bool} {k : JWK}
    (h : findPublicKey kid set rsa = .ok k) :
    k ∈ set ∧ k.use = "sig" ∧ k.type = wantType rsa ∧ (kid ≠ "" → k.kid = kid) := by
  unfold findPublicKey at h
  split at h
  · cases h
  · split at h
    · cases h
    · split at h
      · rename_i k' hk
        injection h with h
        subst h
        have hp := List.find?_some hk
        have hm := List.mem_of_find?_eq_some hk
        simp only [Bool.and_eq_true, beq_iff_eq] at hp
        unfold keysByKid at hm
        by_cases hkid : kid ≠ ""
        · rw [if_pos hkid] at hm
          simp only [List.mem_filter, beq_iff_eq] at hm
          exact ⟨hm.1, hp.1, hp.2, fun _ => hm.2⟩
        · rw [if_neg hkid] at hm
          exact ⟨hm, hp.1, hp.2, fun hh => absurd hh hkid⟩
      · cases h

theorem clientKey_ok {c : ClientReg} {j : JWS} {k : JWK} (h : clientKey c j = .ok k) :
    c.oidc = true ∧ c.authMethod = "private_key_jwt" ∧ c.authAlg = j.alg ∧
    (algFamily j.alg = .rsa ∨ algFamily j.alg = .ec) ∧
    k ∈ registeredKeys c ∧ k.use = "sig" ∧ k.type.family = algFamily j.alg ∧ (j.kid ≠ "" → k.kid = j.kid) := by
  unfold clientKey at h
  split at h
  · cases h
  · rename_i hoidc
    split at h
    · cases h
    · rename_i hm
      split at h
      · cases h
      · rename_i ha
        have hoidc' : c.oidc = true := by simpa using hoidc
        have hm' : c.authMethod = "private_key_jwt" := by simpa using hm
        have ha' : c.authAlg = j.alg := by simpa using ha
        split at h
        · rename_i hf
          unfold findClientPublicJWK at h
          split at h
          · rename_i set hs
            obtain ⟨h1, h2, h3, h4⟩ := findPublicKey_ok h
            refine ⟨hoidc', hm', ha', Or.inl hf, ?_, h2, ?_, h4⟩
            · simp [registeredKeys, hs, h1]
            · rw [h3, hf]; rfl
          · cases h
        · rename_i hf
          unfold findClientPublicJWK at h
          split at h
          · rename_i set hs
            obtain ⟨h1, h2, h3, h4⟩ := findPublicKey_ok h
            refine ⟨hoidc', hm', ha', Or.inr hf, ?_, h2, ?_, h4⟩
            · simp [registeredKeys, hs, h1]
            · rw [h3, hf]; rfl
          · cases h
        · cases h
        · cases h

theorem verifyIssuer_true {c : Claim} {cmp : String} (h : verifyIssuer c cmp = true) :
    c = .str cmp ∧ cmp ≠ "" := by
  unfold verifyIssuer at h
  split at h
  · rename_i iss
    split at h
    · cases h
    · rename_i hne
      have : iss = cmp := by simpa using h
      subst this
      exact ⟨rfl, hne⟩
  · cases h

theorem audMatches_contains {aud : Claim} {u : String} (h : audMatches aud u = true) : audContains aud u := by
  unfold audMatches at h
  split at h
  · rename_i xs
    exact Or.inr ⟨xs, rfl, by simpa using h⟩
  · rename_i s
    have : s = u := by simpa using h
    exact Or.inl (by rw [this])
  · cases h

theorem audMatchesAny_contains {aud : Claim} {urls : List String} (h : audMatchesAny aud urls = true) :
    ∃ u ∈ urls, audContains aud u := by
  unfold audMatchesAny at h
  rw [List.any_eq_true] at h
  obtain ⟨u, hu, hm⟩ := h
  exact ⟨u, hu, audMatches_contains hm⟩

theorem clientExpiry_ok' {c : Claims} {E : Int} (h : clientExpiry c = .ok E) :
    c.exp.toInt64 = some E ∧ 0 < E := by
  unfold clientExpiry at h
  split at h
  · rename_i t ht
    split at h
    · cases h
    · rename_i hpos; injection h with h; subst h; rw [ht]; exact ⟨rfl, by omega⟩
  · rename_i i hi
    split at h
    · cases h
    · rename_i hpos; injection h with h; subst h; rw [hi]; exact ⟨rfl, by omega⟩
  · cases h

theorem clientExpiry_ok {c : Claims} {E : Int} (h : clientExpiry c = .ok E) : c.exp.toInt64 = some E :=
  (clientExpiry_ok' h).1

theorem clientExpiry_pos {c : Claims} {E : Int} (h : clientExpiry c = .ok E) : 0 < E :=
  (clientExpiry_ok' h).2

/-- what `Valid()` says about a numeric exp: second 0 is "no exp", otherwise whole-second comparison -/
theorem claimsValid_exp {c : Claims} {now E : Int} (h : claimsValid c now = true)
    (he : c.exp.toInt64 = some E) : E = 0 ∨ nowSec now ≤ E := by
  unfold claimsValid at h
  simp only [Bool.and_eq_true] at h
  have h1 := h.1.1
  unfold verifyExp at h1
  rw [he] at h1
  by_cases h0 : E = 0
  · exact Or.inl h0
  · simp only [h0, if_false, decide_eq_true_eq] at h1
    exact Or.inr h1

theorem nowSec_le {now E : Int} (h : nowSec now ≤ E) : now < (E + 1) * second := by
  unfold nowSec second at *
  omega

/-- the whole success path of `clientAssertionAuth` -/
theorem clientAuth_ok {cfg : Config} {clients : List ClientReg} {formId : String} {w : Wire} {now : Int}
    {st st' : JtiStore} {cid : String}
    (h : clientAssertionAuth cfg clients formId w now st = (.ok cid, st')) :
    ∃ t E, clientPre cfg clients formId w now = .ok t ∧ jtiValid st t.jti now = false ∧
      clientExpiry t.jws.claims = .ok E ∧ jtiSet st t.jti ((E + 1) * second) now = (false, st') ∧
      clientFin cfg t = .ok cid := by
  unfold clientAssertionAuth at h
  split at h
  · cases h
  · rename_i t ht
    split at h
    · cases h
    · rename_i hv
      split at h
      · cases h
      · rename_i E hE
        split at h
        · cases h
        · rename_i st'' hset
          simp only [Prod.mk.injEq] at h
          obtain ⟨h1, h2⟩ := h
          subst h2
          exact ⟨t, E, ht, by simpa using hv, hE, hset, h1⟩

/-- a rejected presentation leaves the memory unchanged or purged (possibly with a new record) -/
theorem clientAuth_store (cfg : Config) (clients : List ClientReg) (formId : String) (w : Wire) (now : Int)
    (st : JtiStore) :
    (clientAssertionAuth cfg clients formId w now st).2 = st ∨
    ∃ j x, (clientAssertionAuth cfg clients formId w now st).2 = (jtiSet st j x now).2 := by
  unfold clientAssertionAuth
  split
  · exact Or.inl rfl
  · rename_i t _
    split
    · exact Or.inl rfl
    · split
      · exact Or.inl rfl
      · rename_i E _
        split
        · rename_i st'' hset; exact Or.inr ⟨t.jti, (E + 1) * second, by rw [hset]⟩
        · rename_i st'' hset; exact Or.inr ⟨t.jti, (E + 1) * second, by rw [hset]⟩

/-! ### success path of the JWT-bearer grant -/

theorem decodeStr_some {c : Claim} {s : String} (h : decodeStr c = some s) :
    (c = .absent ∧ s = "") ∨ c = .str s := by
  cases c <;> simp [decodeStr] at h
  · exact Or.inl ⟨rfl, h⟩
  · exact Or.inr (by rw [h])

theorem decodeStr_nonempty {c : Claim} {s : String} (h : decodeStr c = some s) (hs : s ≠ "") : c = .str s := by
  rcases decodeStr_some h with ⟨_, h2⟩ | h2
  · exact absurd h2 hs
  · exact h2

theorem decodeDate_some {c : Claim} {e : Int} (h : decodeDate c = some (some e)) : c.toInt64 = some e := by
  cases c <;> simp [decodeDate] at h <;> simp [Claim.toInt64, h]

theorem decodeDate_none {c : Claim} (h : decodeDate c = some none) : c = .absent := by
  cases c <;> simp [decodeDate] at h
  rfl

theorem allStrings_mem {xs : List (Option String)} {l : List String} (h : allStrings xs = some l) (u : String) :
    u ∈ l ↔ some u ∈ xs := by
  induction xs generalizing l with
  | nil => simp [allStrings] at h; subst h; simp
  | cons x rest ih =>
    cases x with
    | none => simp [allStrings] at h
    | some s =>
      simp only [allStrings] at h
      split at h
      · rename_i ss hss
        injection h with h
        subst h
        simp [ih hss]
      · cases h

theorem decodeAud_contains {c : Claim} {l : List String} {u : String} (h : decodeAud c = some l)
    (hu : l.contains u = true) : audContains c u := by
  have hu' : u ∈ l := by simpa using hu
  cases c with
  | absent => simp [decodeAud] at h; subst h; simp at hu'
  | str s => simp [decodeAud] at h; subst h; simp at hu'; exact Or.inl (by rw [hu'])
  | list xs => simp [decodeAud] at h; exact Or.inr ⟨xs, rfl, (allStrings_mem h u).1 hu'⟩
  | int i => simp [decodeAud] at h
  | flt t => simp [decodeAud] at h
  | other => simp [decodeAud] at h

theorem decodeClaims_some {c : Claims} {tc : TypedClaims} (h : decodeClaims c = some tc) :
    decodeStr c.iss = some tc.iss ∧ decodeStr c.sub = some tc.sub ∧ decodeAud c.aud = some tc.aud ∧
    decodeDate c.exp = some tc.exp ∧ decodeDate c.nbf = some tc.nbf ∧ decodeDate c.iat = some tc.iat ∧
    decodeStr c.jti = some tc.jti := by
  unfold decodeClaims at h
  split at h
  · rename_i h1 h2 h3 h4 h5 h6 h7
    injection h with h
    subst h
    exact ⟨h1, h2, h3, h4, h5, h6, h7⟩
  · cases h

theorem findKey_some {keys : List IssuerKey} {iss sub : String} {j : JWS} {k : IssuerKey}
    (h : findKey keys iss sub j = some k) : k ∈ keys ∧ k.iss = iss ∧ k.sub = sub ∧ (j.kid ≠ "" → k.mapKid = j.kid) := by
  unfold findKey at h
  split at h
  · rename_i hk
    have hp := List.find?_some h
    have hm := List.mem_of_find?_eq_some h
    simp only [keyFor, Bool.and_eq_true, beq_iff_eq] at hp
    exact ⟨hm, hp.1.1, hp.1.2, fun _ => hp.2⟩
  · rename_i hk
    have hm := List.mem_of_find?_eq_some h
    simp only [List.mem_filter, keyFor, Bool.and_eq_true, beq_iff_eq] at hm
    exact ⟨hm.1, hm.2.1, hm.2.2, fun hh => absurd hh hk⟩

theorem bearerPre_ok {cfg : BearerConfig} {keys : List IssuerKey} {w : Wire} {now : Int} {t : BearerTicket}
    (h : bearerPre cfg keys w now = .ok t) :
    w = .jws t.jws ∧ decodeClaims t.jws.claims = some t.tc ∧ t.tc.iss ≠ "" ∧ t.tc.sub ≠ "" ∧
    findKey keys t.tc.iss t.tc.sub t.jws = some t.key ∧
    verifies t.jws t.key.key t.key.type = true ∧
    (∃ u ∈ cfg.tokenURLs, t.tc.aud.contains u = true) ∧
    t.tc.exp = some t.exp ∧ now ≤ t.exp * second ∧
    (∀ n, t.tc.nbf = some n → n * second < now) ∧
    (cfg.iatOptional = false → t.tc.iat.isSome = true) ∧
    t.exp * second ≤ issuedAt t.tc.iat now + cfg.maxDur ∧
    (cfg.jtiOptional = false → t.tc.jti ≠ "") := by
  unfold bearerPre at h
  split at h
  · cases h
  · cases h
  · rename_i j
    split at h
    · cases h
    · rename_i tc htc
      split at h
      · cases h
      · rename_i hiss
        split at h
        · cases h
        · rename_i hsub
          split at h
          · cases h
          · rename_i key hkey
            split at h
            · cases h
            · rename_i hver
              split at h
              · cases h
              · rename_i haud0
                split at h
                · cases h
                · rename_i haud
                  split at h
                  · cases h
                  · rename_i e he
                    split at h
                    · cases h
                    · rename_i hexp
                      split at h
                      · cases h
                      · rename_i hnbf
                        split at h
                        · cases h
                        · rename_i hiat
                          split at h
                          · cases h
                          · rename_i hmax
                            split at h
                            · cases h
                            · rename_i hjti
                              injection h with h
                              subst h
                              show _ ∧ decodeClaims j.claims = some tc ∧ tc.iss ≠ "" ∧ tc.sub ≠ "" ∧
                                findKey keys tc.iss tc.sub j = some key ∧ verifies j key.key key.type = true ∧
                                (∃ u ∈ cfg.tokenURLs, tc.aud.contains u = true) ∧ tc.exp = some e ∧ now ≤ e * second ∧
                                (∀ n, tc.nbf = some n → n * second < now) ∧ (cfg.iatOptional = false → tc.iat.isSome = true) ∧
                                e * second ≤ issuedAt tc.iat now + cfg.maxDur ∧ (cfg.jtiOptional = false → tc.jti ≠ "")
                              refine ⟨rfl, htc, hiss, hsub, hkey, by simpa using hver, ?_, he, by omega, ?_, ?_, by omega, ?_⟩
                              · have haud' : (cfg.tokenURLs.any fun u => tc.aud.contains u) = true := by
                                  cases hh : (cfg.tokenURLs.any fun u => tc.aud.contains u)
                                  · rw [hh] at haud; simp at haud
                                  · rfl
                                rw [List.any_eq_true] at haud'
                                exact haud'
                              · intro n hn
                                rw [hn] at hnbf
                                simpa [nbfBlocks] using hnbf
                              · intro ho
                                simp only [ho, Bool.not_false, Bool.true_and, Bool.not_eq_true] at hiat
                                cases hh : tc.iat with
                                | none => simp [hh] at hiat
                                | some _ => rfl
                              · intro ho
                                simp only [ho, Bool.not_false, Bool.true_and, decide_eq_true_eq] at hjti
                                exact hjti

theorem bearerMid_ok {strat : List String → String → Bool} {keys : List IssuerKey} {t : BearerTicket}
    {requested : List String} (h : bearerMid strat keys t requested = .ok ()) :
    ∃ r ∈ keys, r.iss = t.tc.iss ∧ r.sub = t.tc.sub ∧ r.mapKid = t.key.jwkKid ∧
      ∀ s ∈ requested, strat r.scopes s = true := by
  unfold bearerMid at h
  split at h
  · cases h
  · rename_i r hr
    split at h
    · rename_i hall
      have hp := List.find?_some hr
      have hm := List.mem_of_find?_eq_some hr
      simp only [keyFor, Bool.and_eq_true, beq_iff_eq] at hp
      rw [List.all_eq_true] at hall
      exact ⟨r, hm, hp.1.1, hp.1.2, hp.2, hall⟩
    · cases h

/-- the whole success path of `jwtBearer` -/
theorem bearer_ok {cfg : BearerConfig} {strat : List String → String → Bool} {keys : List IssuerKey}
    {w : Wire} {requested : List String} {now : Int} {st st' : JtiStore} {sub : String}
    (h : jwtBearer cfg strat keys w requested now st = (.ok sub, st')) :
    ∃ t, bearerPre cfg keys w now = .ok t ∧ sub = t.tc.sub ∧
      bearerMid strat keys t requested = .ok () ∧
      ((t.tc.jti ≠ "" ∧ jtiValid st t.tc.jti now = false ∧
          jtiSet st t.tc.jti (t.exp * second) now = (false, st')) ∨
       (t.tc.jti = "" ∧ st' = st)) := by
  unfold jwtBearer at h
  split at h
  · cases h
  · rename_i t ht
    split at h
    · cases h
    · rename_i hv
      split at h
      · cases h
      · rename_i hmid
        split at h
        · rename_i hj
          split at h
          · cases h
          · rename_i st'' hset
            simp only [Prod.mk.injEq, Result.ok.injEq] at h
            obtain ⟨h1, h2⟩ := h
            subst h2
            have hj' : t.tc.jti ≠ "" := by simpa using hj
            refine ⟨t, ht, h1.symm, hmid, Or.inl ⟨hj', ?_, hset⟩⟩
            simp only [hj', ne_eq, not_false_eq_true, decide_true, Bool.true_and, Bool.not_eq_true] at hv
            exact hv
        · rename_i hj
          simp only [Prod.mk.injEq, Result.ok.injEq] at h
          have hj' : t.tc.jti = "" := by simpa using hj
          exact ⟨t, ht, h.1.symm, hmid, Or.inr ⟨hj', h.2.symm⟩⟩

theorem bearer_store (cfg : BearerConfig) (strat : List String → String → Bool) (keys : List IssuerKey)
    (w : Wire) (requested : List String) (now : Int) (st : JtiStore) :
    (jwtBearer cfg strat keys w requested now st).2 = st ∨
    ∃ j x, (jwtBearer cfg strat keys w requested now st).2 = (jtiSet st j x now).2 := by
  unfold jwtBearer
  split
  · exact Or.inl rfl
  · rename_i t _
    split
    · exact Or.inl rfl
    · split
      · exact Or.inl rfl
      · split
        · split
          · rename_i st'' hset; exact Or.inr ⟨t.tc.jti, t.exp * second, by rw [hset]⟩
          · rename_i st'' hset; exact Or.inr ⟨t.tc.jti, t.exp * second, by rw [hset]⟩
        · exact Or.inl rfl

/-! ### histories: a blocked ticket is never accepted again -/

/-- every item of the history satisfies `Good` at the instant it is presented -/
def AllAt {α : Type} (Good : α → Int → Prop) : List (Nat × α) → Int → Prop
  | [], _ => True
  | (dt, a) :: rest, now => Good a (now + dt) ∧ AllAt Good rest (now + dt)

/-- the counter agrees with the outcomes `runSeq` lists -/
theorem countOk_eq_filter {α : Type} (P : α → Bool) (step : α → Int → JtiStore → Result × JtiStore)
    (hist : List (Nat × α)) (now : Int) (st : JtiStore) :
    countOk P step hist now st =
      ((hist.zip (runSeq step hist now st)).filter (fun x => P x.1.2 && x.2.isOk)).length := by
  induction hist generalizing now st with
  | nil => rfl
  | cons x rest ih =>
    obtain ⟨dt, a⟩ := x
    simp only [countOk, runSeq, List.zip_cons_cons, List.filter_cons]
    rw [ih]
    split <;> simp <;> omega

section Counting
variable {α : Type} (P : α → Bool) (step : α → Int → JtiStore → Result × JtiStore)
  (B : JtiStore → Int → Prop) (Good : α → Int → Prop)
  (hmono : ∀ st now now', B st now → now ≤ now' → B st now')
  (hkeep : ∀ a st now, B st now → B (step a now st).2 now)
  (hacc : ∀ a st now, P a = true → Good a now → (step a now st).1.isOk = true →
    ¬ B st now ∧ B (step a now st).2 now)
include hmono hkeep hacc

theorem count_zero_of_blocked (hist : List (Nat × α)) (now : Int) (st : JtiStore)
    (hg : AllAt (fun a t => P a = true → Good a t) hist now) (hb : B st now) :
    countOk P step hist now st = 0 := by
  induction hist generalizing now st with
  | nil => rfl
  | cons x rest ih =>
    obtain ⟨dt, a⟩ := x
    have hb' : B st (now + dt) := hmono _ _ _ hb (by omega)
    simp only [countOk]
    rw [ih _ _ hg.2 (hkeep a st _ hb')]
    by_cases hp : P a = true
    · by_cases ho : (step a (now + dt) st).1.isOk = true
      · exact absurd hb' (hacc a st _ hp (hg.1 hp) ho).1
      · simp [ho]
    · simp [hp]

theorem count_le_one (hist : List (Nat × α)) (now : Int) (st : JtiStore)
    (hg : AllAt (fun a t => P a = true → Good a t) hist now) :
    countOk P step hist now st ≤ 1 := by
  induction hist generalizing now st with
  | nil => simp [countOk]
  | cons x rest ih =>
    obtain ⟨dt, a⟩ := x
    simp only [countOk]
    by_cases hp : P a = true
    · by_cases ho : (step a (now + dt) st).1.isOk = true
      · have hz := count_zero_of_blocked P step B Good hmono hkeep hacc rest (now + dt) _ hg.2
          (hacc a st _ hp (hg.1 hp) ho).2
        rw [hz]; simp [hp, ho]
      · have := ih (now + dt) (step a (now + dt) st).2 hg.2
        simp [ho]; exact this
    · have := ih (now + dt) (step a (now + dt) st).2 hg.2
      simp [hp]; exact this

end Counting

/-! ### the two steps keep `Blocked`, and an acceptance flips it -/

theorem atEndpoint_ok {ep : Endpoint} {formId : String} {r : Result} (h : (atEndpoint ep formId r).isOk = true) :
    r.isOk = true := by
  unfold atEndpoint at h
  split at h
  · split at h <;> simp [Result.isOk] at h
  · rfl
  · exact h

theorem clientStep_keeps (cfg : Config) (clients : List ClientReg) (ep : Endpoint) (j : String) (E : Int)
    (a : String × Wire) (st : JtiStore) (now : Int) (h : Blocked j E st now) :
    Blocked j E (clientStep cfg clients ep a now st).2 now := by
  show Blocked j E (clientAssertionAuth cfg clients a.1 a.2 now st).2 now
  rcases clientAuth_store cfg clients a.1 a.2 now st with h1 | ⟨j', x, h1⟩
  · rw [h1]; exact h
  · rw [h1]; exact blocked_jtiSet h

theorem bearerStep_keeps (cfg : BearerConfig) (strat : List String → String → Bool) (keys : List IssuerKey)
    (j : String) (E : Int) (a : Wire × List String) (st : JtiStore) (now : Int) (h : Blocked j E st now) :
    Blocked j E (bearerStep cfg strat keys a now st).2 now := by
  show Blocked j E (jwtBearer cfg strat keys a.1 a.2 now st).2 now
  rcases bearer_store cfg strat keys a.1 a.2 now st with h1 | ⟨j', x, h1⟩
  · rw [h1]; exact h
  · rw [h1]; exact blocked_jtiSet h

theorem hasTicket_jws {j : String} {E : Int} {w : Wire} (h : hasTicket j E w = true) :
    ∃ x, w = .jws x ∧ x.claims.jti = .str j ∧ x.claims.exp.toInt64 = some E := by
  unfold hasTicket at h
  split at h
  · rename_i x
    simp only [Bool.and_eq_true, beq_iff_eq] at h
    exact ⟨x, rfl, h.1, h.2⟩
  · cases h

/-- JWT bearer: accepting a presentation of ticket (j, E), j ≠ "", flips `Blocked` -/
theorem bearerStep_accepts (cfg : BearerConfig) (strat : List String → String → Bool) (keys : List IssuerKey)
    (j : String) (E : Int) (hj : j ≠ "") (a : Wire × List String) (st : JtiStore) (now : Int)
    (hp : hasTicket j E a.1 = true) (ho : (bearerStep cfg strat keys a now st).1.isOk = true) :
    ¬ Blocked j E st now ∧ Blocked j E (bearerStep cfg strat keys a now st).2 now := by
  obtain ⟨x, hw, hjti, hexp⟩ := hasTicket_jws hp
  have hst : bearerStep cfg strat keys a now st = jwtBearer cfg strat keys a.1 a.2 now st := rfl
  rw [hst] at ho ⊢
  cases hr : jwtBearer cfg strat keys a.1 a.2 now st with
  | mk r st' =>
    rw [hr] at ho
    cases r with
    | err e => simp [Result.isOk] at ho
    | ok sub =>
      obtain ⟨t, hpre, _, _, hcase⟩ := bearer_ok hr
      obtain ⟨hw', hdec, _, _, _, _, _, hte, hnow, _⟩ := bearerPre_ok hpre
      rw [hw] at hw'
      injection hw' with hw'
      subst hw'
      obtain ⟨_, _, _, hde, _, _, hdj⟩ := decodeClaims_some hdec
      have hjt : t.tc.jti = j := by
        rw [hjti] at hdj; simp [decodeStr] at hdj; exact hdj.symm
      have hE : t.exp = E := by
        rw [hte] at hde
        have := decodeDate_some hde
        rw [hexp] at this
        injection this with this
        exact this.symm
      rcases hcase with ⟨_, _, hset⟩ | ⟨hempty, _⟩
      · rw [hjt, hE] at hset
        rw [hE] at hnow
        exact jtiSet_ok_blocked hset hnow
      · rw [hjt] at hempty; exact absurd hempty hj

/-- the instant lies outside the window in which whole-second validity and nanosecond memory disagreed
    before repair b819172 (kept for the regression statements) -/
def OutsideWindow (E : Int) (now : Int) : Prop := now ≤ E * second ∨ (E + 1) * second ≤ now

/-- client assertion: accepting a presentation of ticket (j, E) flips `Blocked j (E + 1)` — the record
    written lives until the end of the second `E`, which is as long as `Valid()` accepts the assertion.
    No hypothesis on the instant or on `E` (before the repairs: `E ≠ 0` and `OutsideWindow E now`). -/
theorem clientStep_accepts (cfg : Config) (clients : List ClientReg) (ep : Endpoint)
    (j : String) (E : Int) (a : String × Wire) (st : JtiStore) (now : Int)
    (hp : hasTicket j E a.2 = true)
    (ho : (clientStep cfg clients ep a now st).1.isOk = true) :
    ¬ Blocked j (E + 1) st now ∧ Blocked j (E + 1) (clientStep cfg clients ep a now st).2 now := by
  obtain ⟨x, hwire, hjti, hexp⟩ := hasTicket_jws hp
  have ho' : (clientAssertionAuth cfg clients a.1 a.2 now st).1.isOk = true := atEndpoint_ok ho
  show ¬ Blocked j (E + 1) st now ∧ Blocked j (E + 1) (clientAssertionAuth cfg clients a.1 a.2 now st).2 now
  cases hr : clientAssertionAuth cfg clients a.1 a.2 now st with
  | mk r st' =>
    rw [hr] at ho'
    cases r with
    | err e => simp [Result.isOk] at ho'
    | ok cid =>
      obtain ⟨t, E', hpre, _, hE', hset, _⟩ := clientAuth_ok hr
      obtain ⟨hw', _, _, _, hval, _, htj, _⟩ := clientPre_ok hpre
      rw [hwire] at hw'
      injection hw' with hw'
      subst hw'
      have hjt : t.jti = j := by rw [hjti] at htj; injection htj with htj; exact htj.symm
      have hpos : 0 < E' := clientExpiry_pos hE'
      have hEE : E' = E := by
        have := clientExpiry_ok hE'
        rw [hexp] at this; injection this with this; exact this.symm
      subst hEE
      rw [hjt] at hset
      have hnow : now ≤ (E' + 1) * second := by
        rcases claimsValid_exp hval hexp with h0 | h1
        · omega
        · have := nowSec_le h1
          omega
      exact jtiSet_ok_blocked hset hnow

/-! ### both paths are instances of the three-step protocol -/

theorem clientAuth_eq_runProto (cfg : Config) (clients : List ClientReg) (formId : String) (w : Wire)
    (now : Int) (st : JtiStore) :
    clientAssertionAuth cfg clients formId w now st = runProto (clientProto cfg clients formId w now) now st := by
  cases hpre : clientPre cfg clients formId w now with
  | error e =>
    have hp : clientProto cfg clients formId w now = ⟨some e, true, "", none, 0, .jti_known, .err e⟩ := by
      unfold clientProto; rw [hpre]
    unfold clientAssertionAuth
    rw [hpre, hp]
    rfl
  | ok t =>
    cases hE : clientExpiry t.jws.claims with
    | error e =>
      have hp : clientProto cfg clients formId w now = ⟨none, true, t.jti, some e, 0, .jti_known, .err e⟩ := by
        unfold clientProto; rw [hpre]; dsimp only; rw [hE]
      unfold clientAssertionAuth
      rw [hpre, hp]
      dsimp only
      rw [hE]
      unfold runProto
      dsimp only
      simp only [Bool.true_and]
    | ok x =>
      have hp : clientProto cfg clients formId w now =
          ⟨none, true, t.jti, none, (x + 1) * second, .jti_known, clientFin cfg t⟩ := by
        unfold clientProto; rw [hpre]; dsimp only; rw [hE]
      unfold clientAssertionAuth
      rw [hpre, hp]
      dsimp only
      rw [hE]
      unfold runProto
      dsimp only
      simp only [Bool.true_and, if_true]

theorem bearer_eq_runProto (cfg : BearerConfig) (strat : List String → String → Bool) (keys : List IssuerKey)
    (w : Wire) (requested : List String) (now : Int) (st : JtiStore) :
    jwtBearer cfg strat keys w requested now st = runProto (bearerProto cfg strat keys w requested now) now st := by
  unfold jwtBearer bearerProto runProto
  cases hpre : bearerPre cfg keys w now with
  | error e => rfl
  | ok t =>
    simp only [errOf]
    by_cases hj : t.tc.jti = ""
    · simp only [hj, ne_eq, not_true_eq_false, decide_false, Bool.false_and, Bool.false_eq_true, if_false]
      cases bearerMid strat keys t requested with
      | error e => rfl
      | ok u => cases u; rfl
    · simp only [ne_eq, hj, not_false_eq_true, decide_true, Bool.true_and, if_true]
      split
      · rfl
      · cases bearerMid strat keys t requested with
        | error e => rfl
        | ok u =>
          cases u
          simp only

/-- the sequential execution is the schedule that lets one thread take its three steps -/
theorem runProto_is_a_schedule (p : Proto) (now : Int) (st : JtiStore) :
    runSchedule p now ⟨[.start], st⟩ [0, 0, 0] = ⟨[.done (runProto p now st).1], (runProto p now st).2⟩ := by
  unfold runSchedule runProto
  simp only [List.foldl, sysStep, tstep]
  cases hp : p.pre with
  | some e => simp [tstep]
  | none =>
    simp only [List.getElem?_cons_zero, List.set_cons_zero, tstep]
    by_cases hv : (p.useJti && jtiValid st p.jti now) = true
    · simp [hv, tstep]
    · simp only [hv, Bool.false_eq_true, if_false]
      cases hm : p.mid with
      | some e => simp [tstep]
      | none =>
        simp only [List.getElem?_cons_zero, List.set_cons_zero, tstep]
        by_cases hu : p.useJti = true
        · simp only [hu, if_true]
          cases hs : jtiSet st p.jti p.expNs now with
          | mk b st' => cases b <;> simp
        · simp [hu]

/-! ### interleavings: at most one acceptance -/

theorem acceptedCount_set (pcs : List PC) (i : Nat) (old new : PC) (h : pcs[i]? = some old) :
    acceptedCount (pcs.set i new) + (if old.accepted then 1 else 0) =
      acceptedCount pcs + (if new.accepted then 1 else 0) := by
  induction pcs generalizing i with
  | nil => simp at h
  | cons x rest ih =>
    cases i with
    | zero =>
      simp only [List.getElem?_cons_zero, Option.some.injEq] at h
      subst h
      simp only [List.set_cons_zero, acceptedCount, List.filter_cons]
      cases x.accepted <;> cases new.accepted <;> simp <;> omega
    | succ k =>
      simp only [List.getElem?_cons_succ] at h
      have := ih k h
      simp only [List.set_cons_succ, acceptedCount, List.filter_cons] at this ⊢
      cases x.accepted <;> simp <;> omega

theorem acceptedCount_replicate_start (n : Nat) : acceptedCount (List.replicate n PC.start) = 0 := by
  induction n with
  | zero => rfl
  | succ k ih =>
    simp only [List.replicate_succ, acceptedCount, List.filter_cons, PC.accepted] at ih ⊢
    simpa using ih

/-- the memory holds a record of the protocol's jti that outlives the instant -/
def Held (p : Proto) (now : Int) (st : JtiStore) : Prop := ∃ e, lookup st p.jti = some e ∧ now ≤ e

def SysInv (p : Proto) (now : Int) (s : Sys) : Prop :=
  acceptedCount s.pcs = 0 ∨ (acceptedCount s.pcs = 1 ∧ Held p now s.st)

theorem sysStep_inv (p : Proto) (now : Int) (huse : p.useJti = true)
    (hfin : p.fin.isOk = true → now ≤ p.expNs) (s : Sys) (i : Nat) (h : SysInv p now s) :
    SysInv p now (sysStep p now s i) := by
  unfold sysStep
  cases hpc : s.pcs[i]? with
  | none => exact h
  | some pc =>
    simp only
    -- a step that neither touches the memory nor produces an acceptance from a non-accepted thread
    have quiet : ∀ new : PC, pc.accepted = false → new.accepted = false →
        SysInv p now ⟨s.pcs.set i new, s.st⟩ := by
      intro new ho hn
      have := acceptedCount_set s.pcs i pc new hpc
      rw [ho, hn] at this
      simp only [Bool.false_eq_true, if_false, Nat.add_zero] at this
      unfold SysInv
      rw [this]
      exact h
    cases pc with
    | start =>
      simp only [tstep]
      cases p.pre with
      | some e => exact quiet _ rfl rfl
      | none => exact quiet _ rfl rfl
    | checked =>
      simp only [tstep]
      split
      · exact quiet _ rfl rfl
      · cases p.mid with
        | some e => exact quiet _ rfl rfl
        | none => exact quiet _ rfl rfl
    | done r =>
      simp only [tstep]
      have := acceptedCount_set s.pcs i (.done r) (.done r) hpc
      unfold SysInv
      have hc : acceptedCount (s.pcs.set i (.done r)) = acceptedCount s.pcs := by omega
      rw [hc]
      exact h
    | ready =>
      simp only [tstep, huse, if_true]
      cases hs : jtiSet s.st p.jti p.expNs now with
      | mk b st' =>
        cases b with
        | true =>
          simp only
          have hst := jtiSet_true hs
          have := acceptedCount_set s.pcs i .ready (.done (.err p.knownAtSet)) hpc
          simp only [PC.accepted, Bool.false_eq_true, if_false, Nat.add_zero] at this
          unfold SysInv
          rw [this]
          rcases h with h | ⟨h1, e, he, hle⟩
          · exact Or.inl h
          · exact Or.inr ⟨h1, e, by rw [hst]; exact lookup_purge_some he hle, hle⟩
        | false =>
          simp only
          obtain ⟨hnone, hst⟩ := jtiSet_false hs
          have hcount0 : acceptedCount s.pcs = 0 := by
            rcases h with h | ⟨_, e, he, hle⟩
            · exact h
            · rw [lookup_purge_some he hle] at hnone; cases hnone
          have := acceptedCount_set s.pcs i .ready (.done p.fin) hpc
          simp only [PC.accepted, Bool.false_eq_true, if_false, Nat.add_zero] at this
          unfold SysInv
          cases hf : p.fin with
          | err e =>
            rw [hf] at this
            simp only [PC.accepted, Bool.false_eq_true, if_false, Nat.add_zero] at this
            exact Or.inl (by rw [this]; exact hcount0)
          | ok who =>
            rw [hf] at this
            simp only [PC.accepted, if_true] at this
            refine Or.inr ⟨by rw [this, hcount0], p.expNs, ?_, hfin (by rw [hf]; rfl)⟩
            rw [hst]; simp [lookup]

theorem runSchedule_inv (p : Proto) (now : Int) (huse : p.useJti = true)
    (hfin : p.fin.isOk = true → now ≤ p.expNs) (sched : List Nat) (s : Sys) (h : SysInv p now s) :
    SysInv p now (runSchedule p now s sched) := by
  unfold runSchedule
  induction sched generalizing s with
  | nil => exact h
  | cons i rest ih => exact ih _ (sysStep_inv p now huse hfin s i h)

/-- any schedule of any number of copies of one protocol instance: at most one acceptance -/
theorem schedule_at_most_one (p : Proto) (now : Int) (huse : p.useJti = true)
    (hfin : p.fin.isOk = true → now ≤ p.expNs) (n : Nat) (st : JtiStore) (sched : List Nat) :
    acceptedCount (runSchedule p now ⟨List.replicate n .start, st⟩ sched).pcs ≤ 1 := by
  have := runSchedule_inv p now huse hfin sched ⟨List.replicate n .start, st⟩
    (Or.inl (acceptedCount_replicate_start n))
  rcases this with h | ⟨h, _⟩ <;> omega

end Fosite.Proofs.Assertion

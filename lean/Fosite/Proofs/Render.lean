/-
  Lemmas about the rendering model (`Model/Render.lean`) and its relation to `Spec/Render.lean`.
  Property theorems are in `Props/C20.lean`.
-/
import Fosite.Model.Render
import Fosite.Spec.Render
namespace Fosite.Proofs.Render
open Fosite.Model.Render

/-! ### quotes -/

theorem replaceQuotes_no_dq (b : Bytes) : dq ∉ replaceQuotes b := by
  unfold replaceQuotes
  intro h
  rcases List.mem_map.mp h with ⟨c, _, hc⟩
  by_cases hq : c = dq
  · rw [if_pos hq] at hc
    exact absurd hc (by decide)
  · rw [if_neg hq] at hc
    exact hq hc

theorem replaceQuotes_length (b : Bytes) : (replaceQuotes b).length = b.length := by
  simp [replaceQuotes]

theorem deQuote_eq (b : Bytes) : Spec.Render.deQuote b = replaceQuotes b := by
  induction b with
  | nil => rfl
  | cons c cs ih => simp [Spec.Render.deQuote, replaceQuotes, ih] at *

/-! ### debug text is irrelevant while exposure is off -/

/-- the error with its debug text removed -/
def clearDebug (e : RFCError) : RFCError := { e with debug := [] }

theorem getDescription_clearDebug (e : RFCError) (h : e.exposeDebug = false) :
    getDescription e = getDescription (clearDebug e) := by
  simp [getDescription, clearDebug, h]

theorem marshalJSON_clearDebug (e : RFCError) (h : e.exposeDebug = false) :
    marshalJSON e = marshalJSON (clearDebug e) := by
  simp [marshalJSON, getDescription, clearDebug, h]

theorem toValues_clearDebug (e : RFCError) (h : e.exposeDebug = false) :
    toValues e = toValues (clearDebug e) := by
  simp [toValues, getDescription, clearDebug, h]

/-- every internal text of a Go error chain blanked: debug fields and the messages of non-RFC links -/
def redactLink : Link → Link
  | .rfc e => .rfc (clearDebug e)
  | .val e => .val (clearDebug e)
  | .msg _ => .msg []

def redact (err : GoErr) : GoErr := err.map redactLink

theorem redact_eq_nil (err : GoErr) : redact err = [] ↔ err = [] := by
  simp [redact]

theorem firstRFC_redact (err : GoErr) : firstRFC (redact err) = (firstRFC err).map clearDebug := by
  induction err with
  | nil => rfl
  | cons l rest ih =>
    cases l with
    | rfc e => simp [redact, redactLink, firstRFC]
    | msg m => simpa [redact, redactLink, firstRFC] using ih
    | val e => simpa [redact, redactLink, firstRFC] using ih

theorem isErr_redact (err : GoErr) (t : RFCError) : isErr (redact err) t = isErr err t := by
  induction err with
  | nil => rfl
  | cons l rest ih =>
    have ih' : List.any (redact rest) _ = List.any rest _ := ih
    cases l <;> simp [isErr, redact, redactLink, clearDebug, List.any_cons] at ih' ⊢ <;> simp [ih']

theorem configured_exposeDebug (cfg : Cfg) (err : GoErr) :
    (configured cfg err).exposeDebug = cfg.sendDebugMessagesToClients := rfl

/-- what survives of `configured` once the debug text is removed does not depend on the internal texts -/
theorem configured_redact (cfg : Cfg) (err : GoErr) :
    clearDebug (configured cfg (redact err)) = clearDebug (configured cfg err) := by
  unfold configured errorToRFC
  rw [firstRFC_redact]
  cases firstRFC err <;>
    simp [clearDebug, RFCError.withLegacyFormat, RFCError.withExposeDebug]

theorem code_clearDebug (e : RFCError) : (clearDebug e).code = e.code := rfl

theorem configured_redact_code (cfg : Cfg) (err : GoErr) :
    (configured cfg (redact err)).code = (configured cfg err).code := by
  rw [← code_clearDebug, configured_redact, code_clearDebug]

theorem configured_redact_marshal (cfg : Cfg) (h : cfg.sendDebugMessagesToClients = false) (err : GoErr) :
    marshalJSON (configured cfg (redact err)) = marshalJSON (configured cfg err) := by
  rw [marshalJSON_clearDebug _ (by rw [configured_exposeDebug]; exact h), configured_redact,
      ← marshalJSON_clearDebug _ (by rw [configured_exposeDebug]; exact h)]

theorem configured_redact_values (cfg : Cfg) (h : cfg.sendDebugMessagesToClients = false) (err : GoErr) :
    toValues (configured cfg (redact err)) = toValues (configured cfg err) := by
  rw [toValues_clearDebug _ (by rw [configured_exposeDebug]; exact h), configured_redact,
      ← toValues_clearDebug _ (by rw [configured_exposeDebug]; exact h)]

theorem writeJsonError_redact (cfg : Cfg) (h : cfg.sendDebugMessagesToClients = false) (err : GoErr) :
    writeJsonError cfg (redact err) = writeJsonError cfg err := by
  simp only [writeJsonError, configured_redact_code, configured_redact_marshal cfg h]

theorem writeError_redact (w : ErrWriter) (cfg : Cfg) (h : cfg.sendDebugMessagesToClients = false) (err : GoErr) :
    writeError w cfg (redact err) = writeError w cfg err := by
  cases w with
  | access => exact writeJsonError_redact cfg h err
  | authorize ar =>
    simp only [writeError, writeAuthorizeError, configured_redact_code, configured_redact_marshal cfg h,
      configured_redact_values cfg h]
  | introspection =>
    simp only [writeError, writeIntrospectionError, isErr_redact, writeJsonError_redact cfg h, redact_eq_nil]
  | revocation => simp only [writeError, writeRevocationResponse, isErr_redact]
  | pushedAuthorize =>
    simp only [writeError, writePushedAuthorizeError, configured_redact_code, configured_redact_marshal cfg h]

/-- the revocation writer ignores the internal texts whatever the configuration says -/
theorem writeRevocation_redact (err : GoErr) :
    writeRevocationResponse (redact err) = writeRevocationResponse err := by
  simp only [writeRevocationResponse, isErr_redact]

/-! ### headers -/

theorem headerValues_setHeader_same (h : Headers) (k v : String) :
    headerValues (setHeader h k v) k = [v] := by
  simp [headerValues, setHeader, List.filter_append, List.filter_filter]

theorem headerValues_setHeader_other (h : Headers) (k k' v : String) (hne : k ≠ k') :
    headerValues (setHeader h k v) k' = headerValues h k' := by
  have : (k == k') = false := by simpa using hne
  simp only [headerValues, setHeader, List.filter_append, List.filter_filter, List.filter_cons, List.filter_nil,
    this, Bool.false_eq_true, ↓reduceIte, List.append_nil]
  congr 1
  apply List.filter_congr
  intro p _
  by_cases hp : p.1 = k'
  · subst hp
    have : (p.1 != k) = true := by simpa using (fun h' => hne h'.symm)
    simp [this]
  · have : (p.1 == k') = false := by simpa using hp
    simp [this]

theorem headerValues_addHeader_other (h : Headers) (k k' v : String) (hne : k ≠ k') :
    headerValues (addHeader h k v) k' = headerValues h k' := by
  have : (k == k') = false := by simpa using hne
  simp [headerValues, addHeader, List.filter_append, this]

/-- "has exactly `Cache-Control: no-store` and `Pragma: no-cache`" -/
def Cached (h : Headers) : Prop :=
  headerValues h hCC = ["no-store"] ∧ headerValues h hPragma = ["no-cache"]

instance (h : Headers) : Decidable (Cached h) := by unfold Cached; infer_instance

theorem cached_setCache (h : Headers) : Cached (setCache h) := by
  constructor
  · rw [setCache, headerValues_setHeader_other _ _ _ _ (by decide), headerValues_setHeader_same]
  · rw [setCache, headerValues_setHeader_same]

theorem cached_setHeader (h : Headers) (k v : String) (h1 : k ≠ hCC) (h2 : k ≠ hPragma) (hc : Cached h) :
    Cached (setHeader h k v) := by
  constructor
  · rw [headerValues_setHeader_other _ _ _ _ h1]; exact hc.1
  · rw [headerValues_setHeader_other _ _ _ _ h2]; exact hc.2

theorem cached_addHeader (h : Headers) (k v : String) (h1 : k ≠ hCC) (h2 : k ≠ hPragma) (hc : Cached h) :
    Cached (addHeader h k v) := by
  constructor
  · rw [headerValues_addHeader_other _ _ _ _ h1]; exact hc.1
  · rw [headerValues_addHeader_other _ _ _ _ h2]; exact hc.2

theorem cached_json (h : Headers) (hc : Cached h) : Cached (setHeader h hCT ctJSON) :=
  cached_setHeader _ _ _ (by decide) (by decide) hc

theorem cached_html (h : Headers) (hc : Cached h) : Cached (setHeader h hCT ctHTML) :=
  cached_setHeader _ _ _ (by decide) (by decide) hc

theorem cached_location (h : Headers) (hc : Cached h) : Cached (setHeader h hLocation "*") :=
  cached_setHeader _ _ _ (by decide) (by decide) hc

theorem cached_writeJsonError (cfg : Cfg) (err : GoErr) : Cached (writeJsonError cfg err).headers :=
  cached_setCache _

theorem cached_writeAuthorizeError (cfg : Cfg) (ar : AuthReq) (err : GoErr) :
    Cached (writeAuthorizeError cfg ar err).headers := by
  unfold writeAuthorizeError
  simp only
  split
  · exact cached_json _ (cached_setCache _)
  · split
    · exact cached_html _ (cached_setCache _)
    · split
      · exact cached_location _ (cached_setCache _)
      · exact cached_location _ (cached_setCache _)

theorem cached_writeAuthorizeResponse (ar : AuthReq) (rh : Headers) (params : List (Bytes × Bytes)) :
    Cached (writeAuthorizeResponse ar rh params).headers := by
  unfold writeAuthorizeResponse
  simp only
  split
  · exact cached_addHeader _ _ _ (by decide) (by decide) (cached_setCache _)
  · split
    · exact cached_location _ (cached_setCache _)
    · split
      · exact cached_location _ (cached_setCache _)
      · exact cached_setCache _

theorem cached_writeIntrospectionError (cfg : Cfg) (err : GoErr) (hne : err ≠ []) :
    Cached (writeIntrospectionError cfg err).headers := by
  unfold writeIntrospectionError
  rw [if_neg hne]
  split
  · exact cached_writeJsonError cfg err
  · exact cached_setCache _

theorem cached_writeIntrospectionResponse (r : Introspection) :
    Cached (writeIntrospectionResponse r).headers := by
  unfold writeIntrospectionResponse
  simp only
  split <;> exact cached_setCache _

theorem cached_writeRevocationResponse (err : GoErr) : Cached (writeRevocationResponse err).headers := by
  unfold writeRevocationResponse
  simp only
  split
  · exact cached_json _ (cached_setCache _)
  · split
    · exact cached_json _ (cached_setCache _)
    · exact cached_setCache _

theorem cached_writeError (w : ErrWriter) (cfg : Cfg) (err : GoErr) (hne : err ≠ []) :
    Cached (writeError w cfg err).headers := by
  cases w with
  | access => exact cached_writeJsonError cfg err
  | authorize ar => exact cached_writeAuthorizeError cfg ar err
  | introspection => exact cached_writeIntrospectionError cfg err hne
  | revocation => exact cached_writeRevocationResponse err
  | pushedAuthorize => exact cached_json _ (cached_setCache _)


/-! ### status and error code -/

theorem configured_code_rfc (cfg : Cfg) (e : RFCError) (rest : GoErr) :
    (configured cfg (.rfc e :: rest)).code = e.code := rfl

theorem configured_name_rfc (cfg : Cfg) (e : RFCError) (rest : GoErr) :
    (configured cfg (.rfc e :: rest)).name = e.name := rfl

theorem marshalJSON_error_mem (e : RFCError) : (kError, JVal.str e.name) ∈ marshalJSON e := by
  unfold marshalJSON
  split <;> simp

theorem toValues_error_mem (e : RFCError) : (kError, e.name) ∈ toValues e := by
  unfold toValues
  split <;> simp

theorem jsonFields_mem {l : List (Bytes × JVal)} {k : Bytes} {v : JVal} (h : (k, v) ∈ l) :
    (⟨.json, k, v⟩ : Field) ∈ jsonFields l := by
  unfold jsonFields
  exact List.mem_map.mpr ⟨(k, v), h, rfl⟩

theorem strFields_mem {pl : Place} {l : List (Bytes × Bytes)} {k v : Bytes} (h : (k, v) ∈ l) :
    (⟨pl, k, .str v⟩ : Field) ∈ strFields pl l := by
  unfold strFields
  exact List.mem_map.mpr ⟨(k, v), h, rfl⟩

theorem kError_ne_kState : kError ≠ kState := by decide

theorem setValue_mem_other {l : List (Bytes × Bytes)} {k k' v v' : Bytes} (hne : k ≠ k') (h : (k, v) ∈ l) :
    (k, v) ∈ setValue l k' v' := by
  unfold setValue
  apply List.mem_append_left
  apply List.mem_filter.mpr
  refine ⟨h, ?_⟩
  simpa using hne

/-- the three placements of `WriteAuthorizeError` behind a valid redirect URI -/
theorem writeAuthorizeError_form (cfg : Cfg) (ar : AuthReq) (err : GoErr) (hv : ar.redirValid = true)
    (m : ar.mode = mFormPost) :
    writeAuthorizeError cfg ar err =
      { status := 200, headers := setHeader (setCache []) hCT ctHTML, bodyKind := .html, target := formTarget ar,
        fields := strFields .query (formQuery ar)
                  ++ strFields .form (setValue (toValues (configured cfg err)) kState ar.state) } := by
  unfold writeAuthorizeError
  simp only
  rw [if_neg (by simp [hv]), if_pos m]

theorem writeAuthorizeError_fragment (cfg : Cfg) (ar : AuthReq) (err : GoErr) (hv : ar.redirValid = true)
    (m1 : ar.mode ≠ mFormPost) (m2 : ar.mode = mFragment) :
    writeAuthorizeError cfg ar err =
      { status := 303, headers := setHeader (setCache []) hLocation "*", bodyKind := .empty, target := ar.redirBase,
        fields := strFields .query ar.redirQuery
                  ++ strFields .fragment (setValue (toValues (configured cfg err)) kState ar.state) } := by
  unfold writeAuthorizeError
  simp only
  rw [if_neg (by simp [hv]), if_neg m1, if_pos m2]

theorem writeAuthorizeError_query (cfg : Cfg) (ar : AuthReq) (err : GoErr) (hv : ar.redirValid = true)
    (m1 : ar.mode ≠ mFormPost) (m2 : ar.mode ≠ mFragment) :
    writeAuthorizeError cfg ar err =
      { status := 303, headers := setHeader (setCache []) hLocation "*", bodyKind := .empty, target := ar.redirBase,
        fields := strFields .query (setValue (toValues (configured cfg err)) kState ar.state ++ ar.redirQuery) } := by
  unfold writeAuthorizeError
  simp only
  rw [if_neg (by simp [hv]), if_neg m1, if_neg m2]

theorem location_mem : (hLocation, "*") ∈ setHeader (setCache []) hLocation "*" := by decide

/-! ### which members the two formats have -/

theorem marshalJSON_new_keys (e : RFCError) (h : e.useLegacyFormat = false) :
    (marshalJSON e).map (·.1) = [kError, kDescription] := by
  simp [marshalJSON, h]

theorem toValues_new_keys (e : RFCError) (h : e.useLegacyFormat = false) :
    (toValues e).map (·.1) = [kError, kDescription] := by
  simp [toValues, h]

theorem marshalJSON_legacy (e : RFCError) (h : e.useLegacyFormat = true) :
    marshalJSON e =
      [(kError, .str e.name), (kDescription, .str e.description)]
      ++ (if e.hint ≠ [] then [(kHint, .str e.hint)] else [])
      ++ (if e.code ≠ 0 then [(kStatusCode, .num e.code)] else [])
      ++ (if e.exposeDebug = true ∧ e.debug ≠ [] then [(kDebug, .str e.debug)] else []) := by
  unfold marshalJSON
  rw [if_neg (by simp [h])]
  cases hx : e.exposeDebug <;> simp

theorem toValues_legacy (e : RFCError) (h : e.useLegacyFormat = true) :
    toValues e =
      [(kError, e.name), (kDescription, e.description)]
      ++ (if e.hint ≠ [] then [(kHint, e.hint)] else [])
      ++ (if e.exposeDebug = true ∧ e.debug ≠ [] then [(kDebug, e.debug)] else []) := by
  unfold toValues
  rw [if_neg (by simp [h])]
  cases hx : e.exposeDebug <;> simp

theorem keys_distinct : kDebug ≠ kError ∧ kDebug ≠ kDescription ∧ kDebug ≠ kHint ∧ kDebug ≠ kStatusCode
    ∧ kDebug ≠ kState := by decide

theorem marshalJSON_debug_key (e : RFCError) :
    kDebug ∈ (marshalJSON e).map (·.1) ↔ (e.useLegacyFormat = true ∧ e.exposeDebug = true ∧ e.debug ≠ []) := by
  obtain ⟨h1, h2, h3, h4, _⟩ := keys_distinct
  cases hl : e.useLegacyFormat
  · rw [marshalJSON_new_keys e hl]
    simp [h1, h2]
  · rw [marshalJSON_legacy e hl]
    by_cases a : e.hint = [] <;> by_cases b : e.code = 0 <;> by_cases c : e.exposeDebug = true <;>
      by_cases d : e.debug = [] <;> simp [a, b, c, d, h1, h2, h3, h4]

theorem toValues_debug_key (e : RFCError) :
    kDebug ∈ (toValues e).map (·.1) ↔ (e.useLegacyFormat = true ∧ e.exposeDebug = true ∧ e.debug ≠ []) := by
  obtain ⟨h1, h2, h3, _, _⟩ := keys_distinct
  cases hl : e.useLegacyFormat
  · rw [toValues_new_keys e hl]
    simp [h1, h2]
  · rw [toValues_legacy e hl]
    by_cases a : e.hint = [] <;> by_cases c : e.exposeDebug = true <;>
      by_cases d : e.debug = [] <;> simp [a, c, d, h1, h2, h3]


/-! ### the model implements the specification wherever the specification prescribes -/

theorem description_refines (e : RFCError) (d : Bytes) (h : Spec.Render.description e = some d) :
    getDescription e = d := by
  unfold Spec.Render.description at h
  by_cases h0 : e.description = []
  · simp [h0] at h
  · rw [if_neg h0] at h
    injection h with h
    rw [← h, deQuote_eq]
    by_cases hh : e.hint = [] <;> cases hx : e.exposeDebug <;> by_cases hd : e.debug = [] <;>
      simp [getDescription, Spec.Render.visibleTexts, Spec.Render.joinSpace, h0, hh, hx, hd]

theorem errorObject_refines (e : RFCError) (o : List (Bytes × JVal)) (h : Spec.Render.errorObject e = some o) :
    marshalJSON e = o := by
  unfold Spec.Render.errorObject Spec.Render.errorRows at h
  cases hl : e.useLegacyFormat
  · simp only [hl, Bool.false_eq_true, ↓reduceIte, Option.map_map] at h
    cases hd : Spec.Render.description e with
    | none => simp [hd] at h
    | some d =>
      simp [hd, Spec.Render.present] at h
      rw [← h]
      simp [marshalJSON, hl, description_refines e d hd]
  · simp only [hl, ↓reduceIte, Option.map_some, Option.some.injEq] at h
    rw [← h, marshalJSON_legacy e hl]
    by_cases a : e.hint = [] <;> by_cases b : e.code = 0 <;> cases c : e.exposeDebug <;>
      by_cases d : e.debug = [] <;> simp [Spec.Render.present, Spec.Render.nonEmpty, a, b, d]

theorem errorParams_refines (e : RFCError) (ps : List (Bytes × Bytes)) (h : Spec.Render.errorParams e = some ps) :
    toValues e = ps := by
  have hk : (kError != kStatusCode) = true ∧ (kDescription != kStatusCode) = true ∧ (kHint != kStatusCode) = true
      ∧ (kDebug != kStatusCode) = true := by decide
  obtain ⟨k1, k2, k3, k4⟩ := hk
  unfold Spec.Render.errorParams Spec.Render.errorRows at h
  cases hl : e.useLegacyFormat
  · simp only [hl, Bool.false_eq_true, ↓reduceIte, Option.map_map] at h
    cases hd : Spec.Render.description e with
    | none => simp [hd] at h
    | some d =>
      simp [hd, Spec.Render.present, k1, k2] at h
      rw [← h]
      simp [toValues, hl, description_refines e d hd]
  · simp only [hl, ↓reduceIte, Option.map_some, Option.some.injEq] at h
    rw [← h, toValues_legacy e hl]
    by_cases a : e.hint = [] <;> by_cases b : e.code = 0 <;> cases c : e.exposeDebug <;>
      by_cases d : e.debug = [] <;>
      simp [Spec.Render.present, Spec.Render.nonEmpty, a, b, d, k1, k2, k3, k4]


theorem findSome_eq_firstRFC (err : GoErr) :
    err.findSome? Spec.Render.rfcOf = firstRFC err := by
  induction err with
  | nil => rfl
  | cons l rest ih => cases l <;> simp [List.findSome?, firstRFC, Spec.Render.rfcOf, ih]

theorem told_some {cfg : Cfg} {err : GoErr} {e : RFCError} (h : Spec.Render.told cfg err = some e) :
    err ≠ [] ∧ e = configured cfg err := by
  unfold Spec.Render.told at h
  by_cases h0 : err = []
  · simp [h0] at h
  · rw [if_neg h0] at h
    refine ⟨h0, ?_⟩
    injection h with h
    rw [← h, findSome_eq_firstRFC]
    unfold configured errorToRFC
    cases firstRFC err <;> rfl

theorem jsonError_some {e : RFCError} {H : Headers} {r : Response} (h : Spec.Render.jsonError e H = some r) :
    r = { status := e.code, headers := H, bodyKind := .json, fields := jsonFields (marshalJSON e) } := by
  unfold Spec.Render.jsonError at h
  cases ho : Spec.Render.errorObject e with
  | none => simp [ho] at h
  | some o =>
    simp [ho] at h
    rw [← h, errorObject_refines e o ho]

theorem headers_json_first : setCache (setHeader [] hCT ctJSON) = (hCT, ctJSON) :: Spec.Render.noStore := by decide
theorem headers_json_last : setHeader (setCache []) hCT ctJSON = Spec.Render.noStore ++ [(hCT, ctJSON)] := by decide
theorem headers_html_last : setHeader (setCache []) hCT ctHTML = Spec.Render.noStore ++ [(hCT, ctHTML)] := by decide
theorem headers_location_last : setHeader (setCache []) hLocation "*" = Spec.Render.noStore ++ [(hLocation, "*")] := by decide
theorem headers_cache_only : setCache [] = Spec.Render.noStore := by decide

theorem toValues_keys (e : RFCError) :
    ∀ p ∈ toValues e, p.1 = kError ∨ p.1 = kDescription ∨ p.1 = kHint ∨ p.1 = kDebug := by
  intro p hp
  cases hl : e.useLegacyFormat
  · simp [toValues, hl] at hp
    rcases hp with rfl | rfl <;> simp
  · rw [toValues_legacy e hl] at hp
    simp only [List.mem_append, List.mem_cons, List.not_mem_nil, or_false] at hp
    rcases hp with ((rfl | rfl) | hp) | hp
    · simp
    · simp
    · split at hp
      · simp at hp; subst hp; simp
      · simp at hp
    · split at hp
      · simp at hp; subst hp; simp
      · simp at hp

theorem setValue_state (e : RFCError) (st : Bytes) :
    setValue (toValues e) kState st = toValues e ++ [(kState, st)] := by
  unfold setValue
  congr 1
  apply List.filter_eq_self.mpr
  intro p hp
  have hk : kError ≠ kState ∧ kDescription ≠ kState ∧ kHint ≠ kState ∧ kDebug ≠ kState := by decide
  rcases toValues_keys e p hp with h | h | h | h <;> simp [h, hk.1, hk.2.1, hk.2.2.1, hk.2.2.2]

theorem errorResponse_refines (w : ErrWriter) (cfg : Cfg) (err : GoErr) (r : Response)
    (h : Spec.Render.errorResponse w cfg err = some r) : writeError w cfg err = r := by
  cases w with
  | access =>
    simp only [Spec.Render.errorResponse] at h
    cases ht : Spec.Render.told cfg err with
    | none => simp [ht] at h
    | some e =>
      obtain ⟨_, he⟩ := told_some ht
      simp only [ht, Option.bind_some] at h
      rw [jsonError_some h, he]
      simp only [writeError, writeAccessError, writeJsonError, headers_json_first]
  | pushedAuthorize =>
    simp only [Spec.Render.errorResponse] at h
    cases ht : Spec.Render.told cfg err with
    | none => simp [ht] at h
    | some e =>
      obtain ⟨_, he⟩ := told_some ht
      simp only [ht, Option.bind_some] at h
      rw [jsonError_some h, he]
      simp only [writeError, writePushedAuthorizeError, headers_json_last]
  | authorize ar =>
    simp only [Spec.Render.errorResponse] at h
    cases ht : Spec.Render.told cfg err with
    | none => simp [ht] at h
    | some e =>
      obtain ⟨_, he⟩ := told_some ht
      simp only [ht, Option.bind_some] at h
      by_cases hv : ar.redirValid = false
      · rw [if_pos hv] at h
        rw [jsonError_some h, he]
        simp only [writeError, writeAuthorizeError, hv, ↓reduceIte, headers_json_last]
      · rw [if_neg hv] at h
        have hv' : ar.redirValid = true := by simpa using hv
        cases hp : Spec.Render.errorParams e with
        | none => simp [hp] at h
        | some ps =>
          have hps := errorParams_refines e ps hp
          subst hps
          simp only [hp, Option.bind_some] at h
          simp only [writeError, writeAuthorizeError, hv', Bool.true_eq_false, ↓reduceIte, ← he, setValue_state,
            headers_html_last, headers_location_last]
          by_cases m1 : ar.mode = mFormPost
          · rw [if_pos m1] at h ⊢
            exact Option.some.inj h
          · by_cases m2 : ar.mode = mFragment
            · rw [if_neg m1, if_pos m2] at h ⊢
              exact Option.some.inj h
            · by_cases m3 : ar.mode = mQuery ∨ ar.mode = []
              · rw [if_neg m1, if_neg m2, if_pos m3] at h
                rw [if_neg m1, if_neg m2]
                exact Option.some.inj h
              · rw [if_neg m1, if_neg m2, if_neg m3] at h
                cases h
  | introspection =>
    simp only [Spec.Render.errorResponse] at h
    by_cases h0 : err = []
    · simp [h0] at h
    · simp only [h0, ↓reduceIte] at h
      simp only [writeError, writeIntrospectionError, h0, ↓reduceIte]
      split
      · rename_i hc
        rw [if_pos hc] at h
        cases ht : Spec.Render.told cfg err with
        | none => simp [ht] at h
        | some e =>
          obtain ⟨_, he⟩ := told_some ht
          simp only [ht, Option.bind_some] at h
          rw [jsonError_some h, he]
          simp only [writeJsonError, headers_json_first]
      · rename_i hc
        rw [if_neg hc] at h
        have h' := Option.some.inj h
        subst h'
        simp only [headers_json_first]
        rfl
  | revocation =>
    simp only [Spec.Render.errorResponse] at h
    simp only [writeError, writeRevocationResponse]
    split
    · rename_i hc
      rw [if_pos hc] at h
      rw [jsonError_some h, headers_json_last]
    · rename_i hc
      rw [if_neg hc] at h
      split
      · rename_i hc2
        rw [if_pos hc2] at h
        rw [jsonError_some h, headers_json_last]
      · rename_i hc2
        rw [if_neg hc2] at h
        have h' := Option.some.inj h
        subst h'
        simp only [headers_cache_only]


/-! ### success writers against the specification -/

theorem setHeader_absent (h : Headers) (k v : String) (ha : ∀ p ∈ h, p.1 ≠ k) :
    setHeader h k v = h ++ [(k, v)] := by
  unfold setHeader
  congr 1
  apply List.filter_eq_self.mpr
  intro p hp
  simpa using ha p hp

theorem copyHeaders_distinct (h : Headers) (hd : Spec.Render.distinctKeys h = true) : copyHeaders h = h := by
  induction h with
  | nil => rfl
  | cons kv rest ih =>
    obtain ⟨k, v⟩ := kv
    simp only [Spec.Render.distinctKeys, Bool.and_eq_true, Bool.not_eq_true', List.any_eq_false] at hd
    simp only [copyHeaders, ih hd.2]
    congr 1
    apply List.filter_eq_self.mpr
    intro p hp
    have := hd.1 p hp
    simpa using this

theorem foreign_spec {rh : Headers} (hf : Spec.Render.foreign rh = true) :
    Spec.Render.distinctKeys rh = true ∧
    ∀ p ∈ rh, p.1 ≠ hCC ∧ p.1 ≠ hPragma ∧ p.1 ≠ hCT ∧ p.1 ≠ hLocation := by
  simp only [Spec.Render.foreign, Bool.and_eq_true, List.all_eq_true, Bool.not_eq_true'] at hf
  refine ⟨hf.2, ?_⟩
  intro p hp
  have h := hf.1 p hp
  simp only [Spec.Render.ownHeaders, List.contains_cons, List.contains_nil, Bool.or_false, Bool.or_eq_false_iff,
    beq_eq_false_iff_ne, ne_eq] at h
  exact ⟨h.1, h.2.1, h.2.2.1, h.2.2.2⟩

theorem setCache_foreign {rh : Headers} (hf : Spec.Render.foreign rh = true) :
    setCache (copyHeaders rh) = rh ++ Spec.Render.noStore := by
  obtain ⟨hd, hk⟩ := foreign_spec hf
  rw [copyHeaders_distinct rh hd]
  unfold setCache
  rw [setHeader_absent rh hCC _ (fun p hp => (hk p hp).1)]
  rw [setHeader_absent _ hPragma _ ?_]
  · simp [Spec.Render.noStore]
  · intro p hp
    rcases List.mem_append.mp hp with hp | hp
    · exact (hk p hp).2.1
    · simp at hp; subst hp; decide

theorem setHeader_after_cache {rh : Headers} (hf : Spec.Render.foreign rh = true) (k v : String)
    (hk1 : k = hCT ∨ k = hLocation) :
    setHeader (rh ++ Spec.Render.noStore) k v = rh ++ Spec.Render.noStore ++ [(k, v)] := by
  obtain ⟨_, hk⟩ := foreign_spec hf
  apply setHeader_absent
  intro p hp
  rcases List.mem_append.mp hp with hp | hp
  · rcases hk1 with rfl | rfl
    · exact (hk p hp).2.2.1
    · exact (hk p hp).2.2.2
  · simp [Spec.Render.noStore] at hp
    rcases hk1 with rfl | rfl <;> rcases hp with rfl | rfl <;> decide

theorem filter_keys_absent {β : Type} (l : List (Bytes × β)) (q : Bytes → Bool)
    (h : l.any (fun p => q p.1) = false) : l.filter (fun p => !(q p.1)) = l := by
  apply List.filter_eq_self.mpr
  intro p hp
  have := (List.any_eq_false.mp h) p hp
  simpa using this

theorem accessResponse_refines (a t : Bytes) (x : List (Bytes × JVal)) (r : Response)
    (h : Spec.Render.accessResponse a t x = some r) : writeAccessResponse a t x = r := by
  unfold Spec.Render.accessResponse at h
  split at h
  · cases h
  · rename_i hc
    have h' := Option.some.inj h
    subst h'
    have hc' : x.any (fun p => p.1 == asc "access_token" || p.1 == asc "token_type") = false := by simpa using hc
    have hf := filter_keys_absent x (fun k => k == asc "access_token" || k == asc "token_type") hc'
    have hq : x.filter (fun p => p.1 != asc "access_token" && p.1 != asc "token_type") = x := by
      refine Eq.trans (List.filter_congr ?_) hf
      intro p _
      simp [bne, Bool.not_or]
    simp only [writeAccessResponse, headers_json_last, hq]

theorem parResponse_refines (rh : Headers) (u : Bytes) (n : Nat) (x : List (Bytes × JVal)) (r : Response)
    (h : Spec.Render.parResponse rh u n x = some r) : writePushedAuthorizeResponse rh u n x = r := by
  unfold Spec.Render.parResponse at h
  split at h
  · cases h
  · rename_i hc
    have h' := Option.some.inj h
    subst h'
    simp only [Bool.or_eq_true, Bool.not_eq_true', not_or, Bool.not_eq_false, Bool.not_eq_true] at hc
    obtain ⟨hf, hx⟩ := hc
    have hflt := filter_keys_absent x (fun k => k == asc "request_uri" || k == asc "expires_in") hx
    have hq : x.filter (fun p => p.1 != asc "request_uri" && p.1 != asc "expires_in") = x := by
      refine Eq.trans (List.filter_congr ?_) hflt
      intro p _
      simp [bne, Bool.not_or]
    simp only [writePushedAuthorizeResponse, setCache_foreign hf, setHeader_after_cache hf hCT ctJSON (Or.inl rfl), hq]

theorem firstPerKey_distinct (l : List (Bytes × Bytes)) (hd : Spec.Render.distinctParamKeys l = true) :
    firstPerKey l = l := by
  induction l with
  | nil => rfl
  | cons kv rest ih =>
    obtain ⟨k, v⟩ := kv
    simp only [Spec.Render.distinctParamKeys, Bool.and_eq_true, Bool.not_eq_true', List.any_eq_false] at hd
    simp only [firstPerKey, ih hd.2]
    congr 1
    apply List.filter_eq_self.mpr
    intro p hp
    have := hd.1 p hp
    simpa using this

theorem authorizeResponse_refines (ar : AuthReq) (rh : Headers) (ps : List (Bytes × Bytes)) (r : Response)
    (h : Spec.Render.authorizeResponse ar rh ps = some r) : writeAuthorizeResponse ar rh ps = r := by
  unfold Spec.Render.authorizeResponse at h
  split at h
  · cases h
  · rename_i hc
    simp only [Bool.or_eq_true, Bool.not_eq_true', not_or, Bool.not_eq_false, Bool.not_eq_true] at hc
    obtain ⟨⟨hf, hd⟩, hcoll⟩ := hc
    simp only at h
    unfold writeAuthorizeResponse
    simp only [setCache_foreign hf, setHeader_after_cache hf hLocation "*" (Or.inr rfl), firstPerKey_distinct ps hd]
    by_cases m1 : ar.mode = mFormPost
    · rw [if_pos m1] at h ⊢
      have h' := Option.some.inj h
      subst h'
      rfl
    · rw [if_neg m1] at h ⊢
      by_cases m2 : ar.mode = mQuery ∨ ar.mode = []
      · rw [if_pos m2] at h ⊢
        have h' := Option.some.inj h
        subst h'
        congr 3
        apply List.filter_eq_self.mpr
        intro q hq
        simp only [Bool.not_eq_true', List.any_eq_false, beq_iff_eq]
        intro p hp heq
        have := (List.any_eq_false.mp hcoll) p hp
        simp only [List.any_eq_true, beq_iff_eq, not_exists, not_and] at this
        exact this q hq heq.symm
      · rw [if_neg m2] at h ⊢
        by_cases m3 : ar.mode = mFragment
        · rw [if_pos m3] at h ⊢
          exact Option.some.inj h
        · rw [if_neg m3] at h
          cases h


theorem joinSpace_eq_joinSp (l : List Bytes) : Spec.Render.joinSpace l = joinSp l := by
  induction l with
  | nil => rfl
  | cons x rest ih =>
    cases rest with
    | nil => rfl
    | cons y r => simp only [Spec.Render.joinSpace, joinSp, ih]

theorem present_append (a b : List (Bytes × Option JVal)) :
    Spec.Render.present (a ++ b) = Spec.Render.present a ++ Spec.Render.present b := by
  simp [Spec.Render.present, List.filterMap_append]

theorem present_all (l : List (Bytes × JVal)) :
    Spec.Render.present (l.map (fun p => (p.1, some p.2))) = l := by
  induction l with
  | nil => rfl
  | cons p rest ih =>
    simp only [Spec.Render.present, List.map_cons, List.filterMap_cons, Option.map_some] at ih ⊢
    rw [ih]

theorem introspectionResponse_refines (r : Introspection) (resp : Response)
    (h : Spec.Render.introspectionResponse r = some resp) : writeIntrospectionResponse r = resp := by
  unfold Spec.Render.introspectionResponse at h
  simp only at h
  unfold writeIntrospectionResponse
  simp only [headers_json_first]
  by_cases ha : r.active = false
  · rw [if_pos ha] at h ⊢
    exact Option.some.inj h
  · rw [if_neg ha] at h ⊢
    split at h
    · cases h
    · rename_i hc
      have h' := Option.some.inj h
      subst h'
      have hc' : r.extraClaims.any (fun p => p.1 == asc "active" || reservedClaims.contains p.1) = false := by
        simpa using hc
      have hres : r.extraClaims.any (fun p => reservedClaims.contains p.1) = false := by
        apply List.any_eq_false.mpr
        intro p hp
        have := (List.any_eq_false.mp hc') p hp
        simp only [Bool.or_eq_true, not_or] at this
        exact this.2
      have hact : r.extraClaims.any (fun p => p.1 == asc "active") = false := by
        apply List.any_eq_false.mpr
        intro p hp
        have := (List.any_eq_false.mp hc') p hp
        simp only [Bool.or_eq_true, not_or] at this
        exact this.1
      have hflt := filter_keys_absent r.extraClaims (fun k => reservedClaims.contains k) hres
      simp only [hflt, hact, Bool.false_eq_true, ↓reduceIte, present_append, present_all, joinSpace_eq_joinSp]
      congr 2
      cases r.exp <;> cases r.iat <;> by_cases h1 : r.clientID = [] <;> by_cases h2 : r.scopes = [] <;>
        by_cases h3 : r.subject = [] <;> by_cases h4 : r.audience = [] <;> by_cases h5 : r.username = [] <;>
        simp [Spec.Render.present, Spec.Render.nonEmpty, h1, h2, h3, h4, h5]

end Fosite.Proofs.Render

/-
  C18, "retry" clause — every endpoint program is equivariant under the renaming of fresh names
  (`Proofs/Shift.lean`):

  * handler-level rules of the relational calculus `eqvK` (`eqvH`: both exits of an `HP` program; one rule per
    combinator of `Model/HP.lean`), in the style of `safeH` / `txH`;
  * the shared sub-handlers and the twelve endpoint programs: the program of the renamed request
    (`RedeemReq.sh`, … : the signatures the request presents) is the renamed program of the request;
  * `Op.sh`, `eqv_op_sh`, `stepWith_sh`: one operation, every run configuration; `Op.Below n` (decidable: the
    operation presents only names `< n`) makes the operation its own renaming (`stepWith_sh_fixed`);
  * `stepWith_AllBelow`: well-formedness (`AllBelow`) is an invariant of every operation under every fault
    plan (the identity renaming `k = 0` instance of the same calculus);
  * `history_sh`: whole histories, every operation under its own run configuration.

  The only literal name in an endpoint program is the request URI `0` in the push endpoint's answer to a
  push no handler is responsible for (`ParPushReq.literalOk`).
-/
import Fosite.Proofs.Shift
namespace Fosite.Model

/-! ### handler-level rules -/

/-- error answers carry no names -/
def ErrRel : Nat → Err → Err → Prop := fun _ e e' => e' = e

/-- results of two handler programs: the same error, or related values -/
def HRel {α α' : Type} (Kok : Nat → α → α' → Prop) : Nat → Except Err α → Except Err α' → Prop
  | m, .ok a, .ok b => Kok m a b
  | _, .error e, .error e' => e' = e
  | _, _, _ => False

def eqvH (n k : Nat) {α α' : Type} (x : HP α) (x' : HP α') (m : Nat) (Kok : Nat → α → α' → Prop) : Prop :=
  eqvK n k x.toProg x'.toProg m (HRel Kok)

section rules
variable {n k : Nat} {α α' β β' : Type} {m : Nat}

theorem eqvH_ok {Kok : Nat → α → α' → Prop} (a : α) (b : α') (h : Kok m a b) : eqvH n k (HP.ok a) (HP.ok b) m Kok := h
theorem eqvH_pure {Kok : Nat → α → α' → Prop} (a : α) (b : α') (h : Kok m a b) :
    eqvH n k (pure a : HP α) (pure b : HP α') m Kok := h
theorem eqvH_fail {Kok : Nat → α → α' → Prop} (e : Err) : eqvH n k (HP.fail e : HP α) (HP.fail e : HP α') m Kok := rfl

theorem eqvH_mono {Kok Kok' : Nat → α → α' → Prop} (x : HP α) (x' : HP α')
    (h : ∀ m' a b, m ≤ m' → Kok m' a b → Kok' m' a b) : eqvH n k x x' m Kok → eqvH n k x x' m Kok' := by
  apply eqvK_mono
  intro m' r r' hm hr
  cases r <;> cases r' <;> first | exact hr | exact h _ _ _ hm hr

theorem eqvH_bind {K : Nat → β → β' → Prop} (x : HP α) (x' : HP α') (f : α → HP β) (f' : α' → HP β')
    (h : eqvH n k x x' m (fun m' a b => eqvH n k (f a) (f' b) m' K)) : eqvH n k (x >>= f) (x' >>= f') m K := by
  show eqvK n k (Prog.bind x.toProg _) (Prog.bind x'.toProg _) m _
  apply eqvK_bind
  refine eqvK_mono n k _ _ m _ _ ?_ h
  intro m' r r' _ hr
  cases r <;> cases r' <;> first | exact hr | exact absurd hr id

/-- a sub-handler, then the rest -/
theorem eqvH_seq {K1 : Nat → α → α' → Prop} {K : Nat → β → β' → Prop} {x : HP α} {x' : HP α'} {f : α → HP β} {f' : α' → HP β'}
    (hx : eqvH n k x x' m K1) (hf : ∀ a b m', m ≤ m' → K1 m' a b → eqvH n k (f a) (f' b) m' K) :
    eqvH n k (x >>= f) (x' >>= f') m K :=
  eqvH_bind x x' f f' (eqvH_mono x x' (fun m' a b hm h => hf a b m' hm h) hx)

theorem eqvH_guard {Kok : Nat → Unit → Unit → Prop} {c c' : Bool} (hc : c' = c) (e : Err) (h : c = true → Kok m () ()) :
    eqvH n k (HP.guard c e) (HP.guard c' e) m Kok := by
  subst hc
  unfold HP.guard
  cases c'
  · exact eqvH_fail e
  · exact h rfl

theorem eqvH_guard_bind {K : Nat → β → β' → Prop} {c c' : Bool} (hc : c' = c) {e : Err} {rest : Unit → HP β} {rest' : Unit → HP β'}
    (h : c = true → eqvH n k (rest ()) (rest' ()) m K) :
    eqvH n k (HP.guard c e >>= rest) (HP.guard c' e >>= rest') m K :=
  eqvH_bind _ _ _ _ (eqvH_guard hc e h)

theorem eqvH_optErr {Kok : Nat → Unit → Unit → Prop} {o o' : Option Err} (ho : o' = o) (h : o = none → Kok m () ()) :
    eqvH n k (optErr o) (optErr o') m Kok := by
  subst ho
  cases o' with
  | none => exact h rfl
  | some e => exact eqvH_fail e

theorem eqvH_optErr_bind {K : Nat → β → β' → Prop} {o o' : Option Err} (ho : o' = o) {rest : Unit → HP β} {rest' : Unit → HP β'}
    (h : o = none → eqvH n k (rest ()) (rest' ()) m K) :
    eqvH n k (optErr o >>= rest) (optErr o' >>= rest') m K :=
  eqvH_bind _ _ _ _ (eqvH_optErr ho h)

theorem eqvH_ite {K : Nat → α → α' → Prop} {c c' : Prop} [Decidable c] [Decidable c'] (hc : c' ↔ c) {x y : HP α} {x' y' : HP α'}
    (h1 : c → eqvH n k x x' m K) (h2 : ¬ c → eqvH n k y y' m K) :
    eqvH n k (if c then x else y) (if c' then x' else y') m K := by
  by_cases h : c
  · rw [if_pos h, if_pos (hc.mpr h)]; exact h1 h
  · rw [if_neg h, if_neg (fun h' => h (hc.mp h'))]; exact h2 h

theorem eqvK_ite {K : Nat → α → α' → Prop} {c c' : Prop} [Decidable c] [Decidable c'] (hc : c' ↔ c) {x y : Prog α} {x' y' : Prog α'}
    (h1 : c → eqvK n k x x' m K) (h2 : ¬ c → eqvK n k y y' m K) :
    eqvK n k (if c then x else y) (if c' then x' else y') m K := by
  by_cases h : c
  · rw [if_pos h, if_pos (hc.mpr h)]; exact h1 h
  · rw [if_neg h, if_neg (fun h' => h (hc.mp h'))]; exact h2 h

theorem eqvH_failWith {Kok : Nat → α → α' → Prop} {p p' : Prog Err} (h : eqvK n k p p' m ErrRel) :
    eqvH n k (HP.failWith p : HP α) (HP.failWith p' : HP α') m Kok := by
  show eqvK n k (Prog.bind p _) (Prog.bind p' _) m _
  apply eqvK_bind
  refine eqvK_mono n k _ _ m _ _ ?_ h
  intro m' e e' _ he
  exact he

theorem eqvK_retErr (e : Err) : eqvK n k (retErr e) (retErr e) m ErrRel := rfl
theorem eqvK_ret_err (e : Err) : eqvK n k (Prog.ret e) (Prog.ret e) m ErrRel := rfl

/-- one storage call of a plain program, then the rest -/
theorem eqvK_call_bind {K : Nat → β → β' → Prop} {c c' : Call} (hc : c' = c.sh n k) (hb : c.Below m)
    {f : Res → Prog β} {f' : Res → Prog β'}
    (h : ∀ r m', m ≤ m' → r.Below m' → r.Above n → eqvK n k (f r) (f' (r.sh n k)) m' K) :
    eqvK n k (call c >>= f) (call c' >>= f') m K := ⟨hc, hb, h⟩

/-- a call whose answer the handler inspects itself -/
theorem eqvH_callH_bind {K : Nat → β → β' → Prop} {c c' : Call} (hc : c' = c.sh n k) (hb : c.Below m)
    {rest : Res → HP β} {rest' : Res → HP β'}
    (h : ∀ r m', m ≤ m' → r.Below m' → r.Above n → eqvH n k (rest r) (rest' (r.sh n k)) m' K) :
    eqvH n k (callH c >>= rest) (callH c' >>= rest') m K := by
  apply eqvH_bind
  exact ⟨hc, hb, fun r m' hm hr ha => h r m' hm hr ha⟩

theorem eqvH_expectReq {c c' : Call} (hc : c' = c.sh n k) (hb : c.Below m) {other other' : Res → Prog Err}
    (hother : ∀ r m', m ≤ m' → r.Below m' → eqvK n k (other r) (other' (r.sh n k)) m' ErrRel) :
    eqvH n k (expectReq c other) (expectReq c' other') m (fun m' a b => b = a.sh n k ∧ a.id < m') := by
  refine ⟨hc, hb, ?_⟩
  intro r m' hm hr _
  cases r <;> first
    | exact ⟨rfl, hr⟩
    | exact eqvH_failWith (hother _ m' hm hr)

theorem eqvH_expectNat {c c' : Call} (hc : c' = c.sh n k) (hb : c.Below m) {other other' : Res → Prog Err}
    (hother : ∀ r m', m ≤ m' → r.Below m' → eqvK n k (other r) (other' (r.sh n k)) m' ErrRel) :
    eqvH n k (expectNat c other) (expectNat c' other') m (fun m' a b => b = shN n k a ∧ a < m' ∧ n ≤ a) := by
  refine ⟨hc, hb, ?_⟩
  intro r m' hm hr ha
  cases r <;> first
    | exact ⟨rfl, hr, ha _ rfl⟩
    | exact eqvH_failWith (hother _ m' hm hr)

theorem eqvH_expectDev {c c' : Call} (hc : c' = c.sh n k) (hb : c.Below m) {other other' : Res → Prog Err}
    (hother : ∀ r m', m ≤ m' → r.Below m' → eqvK n k (other r) (other' (r.sh n k)) m' ErrRel) :
    eqvH n k (expectDev c other) (expectDev c' other') m (fun m' a b => b = a.sh n k ∧ a.req.id < m') := by
  refine ⟨hc, hb, ?_⟩
  intro r m' hm hr _
  cases r <;> first
    | exact ⟨rfl, hr.1⟩
    | exact eqvH_failWith (hother _ m' hm hr)

theorem eqvH_expectPar {c c' : Call} (hc : c' = c.sh n k) (hb : c.Below m) {other other' : Res → Prog Err}
    (hother : ∀ r m', m ≤ m' → r.Below m' → eqvK n k (other r) (other' (r.sh n k)) m' ErrRel) :
    eqvH n k (expectPar c other) (expectPar c' other') m (fun m' a b => b = a.sh n k ∧ a.req.id < m') := by
  refine ⟨hc, hb, ?_⟩
  intro r m' hm hr _
  cases r <;> first
    | exact ⟨rfl, hr⟩
    | exact eqvH_failWith (hother _ m' hm hr)

theorem eqvH_expectClient {c c' : Call} (hc : c' = c.sh n k) (hb : c.Below m) (e : Err) :
    eqvH n k (expectClient c e) (expectClient c' e) m (fun _ a b => a = b) := by
  refine ⟨hc, hb, ?_⟩
  intro r m' _ _ _
  cases r <;> first
    | exact rfl
    | exact eqvH_fail e

theorem eqvH_expectOk {c c' : Call} (hc : c' = c.sh n k) (hb : c.Below m) {other other' : Err → Prog Err}
    (hother : ∀ e m', m ≤ m' → eqvK n k (other e) (other' e) m' ErrRel) :
    eqvH n k (expectOk c other) (expectOk c' other') m (fun _ _ _ => True) := by
  refine ⟨hc, hb, ?_⟩
  intro r m' hm _ _
  show eqvK n k (match r.errKind with | none => _ | some e => _) (match (r.sh n k).errKind with | none => _ | some e => _) m' _
  rw [Res.sh_errKind]
  cases r.errKind with
  | none => trivial
  | some e => exact eqvH_failWith (hother e m' hm)

end rules

/-! ### closing a handler -/

/-- endpoint answers of the two runs: the second is the renamed first -/
def OutRel (n k : Nat) : Nat → Out → Out → Prop := fun _ o o' => o' = o.sh n k

theorem eqvK_run {n k m : Nat} {x x' : HP Out} (h : eqvH n k x x' m (OutRel n k)) :
    eqvK n k x.run x'.run m (OutRel n k) := by
  unfold HP.run
  apply eqvK_bind
  refine eqvK_mono n k _ _ m _ _ ?_ h
  intro m' r r' _ hr
  cases r <;> cases r' <;> first
    | exact absurd hr id
    | (cases hr; rfl)
    | exact hr

theorem OptBelow.map_fixed {n k : Nat} {x : Option Nat} (h : OptBelow n x) : x.map (shN n k) = x := by
  cases x with
  | none => rfl
  | some x => simp only [Option.map_some, shN_lt h]

/-! ### the renaming on what a request presents -/

def Presented.sh (n k : Nat) (p : Presented) : Presented := { p with sig := p.sig.map (shN n k) }
def RedeemReq.sh (n k : Nat) (q : RedeemReq) : RedeemReq := { q with code := q.code.sh n k }
def RefreshReq.sh (n k : Nat) (q : RefreshReq) : RefreshReq := { q with token := q.token.sh n k }
def RevokeReq.sh (n k : Nat) (q : RevokeReq) : RevokeReq := { q with token := q.token.sh n k }
def IntrospectReq.sh (n k : Nat) (q : IntrospectReq) : IntrospectReq := { q with token := q.token.sh n k }
def Caller.sh (n k : Nat) : Caller → Caller
  | .bearer tok i => .bearer (tok.sh n k) i
  | c => c
def IntrospectEndpointReq.sh (n k : Nat) (r : IntrospectEndpointReq) : IntrospectEndpointReq :=
  { caller := r.caller.sh n k, q := r.q.sh n k }
def DevicePollReq.sh (n k : Nat) (q : DevicePollReq) : DevicePollReq := { q with code := q.code.sh n k }
def AuthzParReq.sh (n k : Nat) (a : AuthzParReq) : AuthzParReq := { a with uri := a.uri.map (shN n k) }

theorem Presented.sh_fixed {n k : Nat} {p : Presented} (h : p.sig.map (shN n k) = p.sig) : p.sh n k = p := by
  unfold Presented.sh; rw [h]

/-! ### shared sub-handlers -/

section sub
variable {n k m : Nat}

theorem eqv_authenticate (id : String) (ok : Bool) :
    eqvH n k (authenticate id ok) (authenticate id ok) m (fun _ a b => a = b) := by
  unfold authenticate
  refine eqvH_seq (eqvH_expectClient rfl (by trivial) _) ?_
  rintro c _ m' _ rfl
  refine eqvH_guard_bind rfl ?_
  intro _
  exact eqvH_pure _ _ rfl

theorem eqv_pkceHandle (cfg : Config) (code : Presented) (v : String) (client : Client) :
    eqvH n k (pkceHandle cfg code v client) (pkceHandle cfg (code.sh n k) v client) m (fun _ _ _ => True) := by
  unfold pkceHandle
  refine eqvH_callH_bind rfl (by trivial) ?_
  intro r m' _ _ _
  cases r with
  | req pr =>
    refine eqvH_optErr_bind rfl ?_
    intro _
    exact eqvH_optErr rfl (fun _ => trivial)
  | _ =>
    simp only [Res.sh, Res.errKind]
    (repeat' split) <;> first
      | exact eqvH_fail _
      | exact eqvH_optErr rfl (fun _ => trivial)

theorem eqv_pkcePopulate (code : Presented) :
    eqvH n k (pkcePopulate code) (pkcePopulate (code.sh n k)) m (fun _ _ _ => True) := by
  unfold pkcePopulate
  refine eqvH_callH_bind rfl (by trivial) ?_
  intro r m' _ _ _
  simp only [Res.sh_errKind]
  (repeat' split) <;> first
    | exact eqvH_fail _
    | exact eqvH_pure _ _ trivial

theorem eqvK_rollbackThen (e : Err) : eqvK n k (rollbackThen e) (rollbackThen e) m ErrRel := by
  unfold rollbackThen
  refine eqvK_call_bind rfl (by trivial) ?_
  intro r m' _ _ _
  simp only [Res.sh_errKind]
  split <;> rfl

theorem eqv_oidcExplicitPopulate (code : Presented) (client : Client) :
    eqvH n k (oidcExplicitPopulate code client) (oidcExplicitPopulate (code.sh n k) client) m (fun _ a b => a = b) := by
  unfold oidcExplicitPopulate
  have hkey : (if (code.sh n k).exact then (code.sh n k).sig else none) =
      (if code.exact then code.sig else none).map (shN n k) := by
    obtain ⟨sig, ex⟩ := code
    cases ex <;> rfl
  refine eqvH_callH_bind (by simp only [Call.sh, hkey]) (by trivial) ?_
  intro r m' hm' _ _
  cases r with
  | req ar =>
    refine eqvH_guard_bind rfl (fun _ => ?_)
    refine eqvH_guard_bind rfl (fun _ => ?_)
    refine eqvH_guard_bind rfl (fun _ => ?_)
    refine eqvH_seq (eqvH_expectOk (by simp only [Call.sh, hkey]) (by trivial)
      (fun _ _ _ => eqvK_retErr _)) ?_
    intro _ _ _ _ _
    exact eqvH_pure _ _ rfl
  | _ =>
    simp only [Res.sh, Res.errKind]
    (repeat' split) <;> first
      | exact eqvH_fail _
      | exact eqvH_pure _ _ rfl

theorem eqvK_redeemLookupFailed (r : Res) (hr : r.Below m) :
    eqvK n k (redeemLookupFailed r) (redeemLookupFailed (r.sh n k)) m ErrRel := by
  cases r with
  | inactive ar =>
    simp only [redeemLookupFailed, Res.sh]
    refine eqvK_call_bind rfl (by trivial) ?_
    intro _ m1 hm1 _ _
    refine eqvK_call_bind rfl (by trivial) ?_
    intro _ _ _ _ _
    rfl
  | _ =>
    simp only [redeemLookupFailed, Res.sh, Res.errKind]
    (repeat' split) <;> rfl

end sub

/-! ### `grant_type=authorization_code` -/

section handlers
variable {n k m : Nat}

theorem eqv_redeemH (cfg : Config) (now : Time) (q : RedeemReq) :
    eqvH n k (redeemH cfg now q) (redeemH cfg now (q.sh n k)) m (OutRel n k) := by
  unfold redeemH
  refine eqvH_callH_bind rfl (by trivial) ?_
  intro _ m1 hm1 _ _
  refine eqvH_seq (eqv_authenticate _ _) ?_
  rintro client _ m2 hm2 rfl
  refine eqvH_guard_bind rfl (fun _ => ?_)
  refine eqvH_seq (eqvH_expectReq rfl (by trivial)
    (fun r m' _ hr => eqvK_redeemLookupFailed r hr)) ?_
  rintro ar _ m3 hm3 ⟨rfl, har⟩
  refine eqvH_guard_bind rfl (fun _ => ?_)
  refine eqvH_guard_bind rfl (fun _ => ?_)
  refine eqvH_guard_bind rfl (fun _ => ?_)
  refine eqvH_seq (eqv_pkceHandle cfg q.code q.verifier client) ?_
  intro _ _ m4 hm4 _
  refine eqvH_seq (eqvH_expectReq rfl (by trivial)
    (fun _ _ _ _ => eqvK_retErr _)) ?_
  rintro ar2 _ m5 hm5 ⟨rfl, har2⟩
  refine eqvH_guard_bind rfl (fun _ => ?_)
  refine eqvH_seq (eqvH_expectOk rfl (by trivial) (fun _ _ _ => eqvK_retErr _)) ?_
  intro _ _ m6 hm6 _
  refine eqvH_seq (eqvH_expectOk rfl (by trivial)
    (fun _ _ _ => eqvK_rollbackThen _)) ?_
  intro _ _ m7 hm7 _
  refine eqvH_seq (eqvH_expectNat rfl (by exact (by omega : ar.id < m7)) (fun _ _ _ _ => eqvK_rollbackThen _)) ?_
  rintro atk _ m8 hm8 ⟨rfl, hatk, hatkn⟩
  extract_lets jp jp'
  have hjp : ∀ rt m9, m8 ≤ m9 → eqvH n k (jp rt) (jp' (rt.map (shN n k))) m9 (OutRel n k) := by
    intro rt m9 h9
    refine eqvH_seq (eqvH_expectOk rfl (by trivial) (fun _ _ _ => eqvK_rollbackThen _)) ?_
    intro _ _ m10 h10 _
    refine eqvH_seq (eqv_oidcExplicitPopulate q.code client) ?_
    rintro idt _ m11 h11 rfl
    refine eqvH_seq (eqv_pkcePopulate q.code) ?_
    intro _ _ m12 h12 _
    exact eqvH_pure _ _ rfl
  refine eqvH_ite Iff.rfl (fun _ => ?_) (fun _ => ?_)
  · refine eqvH_seq (K1 := fun _ a b => b = a.map (shN n k)) ?_ (fun rt _ m9 h9 hrt => by subst hrt; exact hjp rt m9 h9)
    refine eqvH_seq (eqvH_expectNat rfl (by exact ⟨hatk, (by omega : ar.id < m8)⟩) (fun _ _ _ _ => eqvK_rollbackThen _)) ?_
    rintro nn _ m9 h9 ⟨rfl, _, _⟩
    exact eqvH_pure _ _ rfl
  · exact eqvH_seq (K1 := fun _ a b => b = a.map (shN n k)) (eqvH_ok _ _ rfl) (fun rt _ m9 h9 hrt => by subst hrt; exact hjp rt m9 h9)

theorem eqv_redeemProg (cfg : Config) (now : Time) (q : RedeemReq) :
    eqvK n k (redeemProg cfg now q) (redeemProg cfg now (q.sh n k)) m (OutRel n k) :=
  eqvK_run (eqv_redeemH cfg now q)

/-! ### `grant_type=refresh_token` -/

theorem eqvK_refreshStorageError (e : Err) : eqvK n k (refreshStorageError e) (refreshStorageError e) m ErrRel := by
  unfold refreshStorageError
  refine eqvK_call_bind rfl (by trivial) ?_
  intro r m' _ _ _
  simp only [Res.sh_errKind]
  split <;> rfl

theorem eqvK_refreshReuse (sig : Option Nat) (rid : Nat) :
    eqvK n k (refreshReuse sig rid) (refreshReuse (sig.map (shN n k)) (shN n k rid)) m ErrRel := by
  unfold refreshReuse
  refine eqvK_call_bind rfl (by trivial) ?_
  intro r m1 hm1 _ _
  simp only [Res.sh_errKind]
  split
  · rfl
  refine eqvK_call_bind rfl (by trivial) ?_
  intro r m2 hm2 _ _
  simp only [Res.sh_errKind]
  split
  · exact eqvK_refreshStorageError _
  refine eqvK_call_bind rfl (by trivial) ?_
  intro r m3 hm3 _ _
  simp only [Res.sh_errKind]
  refine eqvK_ite Iff.rfl (fun _ => eqvK_refreshStorageError _) (fun _ => ?_)
  refine eqvK_call_bind rfl (by trivial) ?_
  intro r m4 hm4 _ _
  simp only [Res.sh_errKind]
  refine eqvK_ite Iff.rfl (fun _ => eqvK_refreshStorageError _) (fun _ => ?_)
  refine eqvK_call_bind rfl (by trivial) ?_
  intro r m5 hm5 _ _
  simp only [Res.sh_errKind]
  split
  · exact eqvK_refreshStorageError _
  · rfl

theorem eqvK_refreshLookupFailed (sig : Option Nat) (r : Res) :
    eqvK n k (refreshLookupFailed sig r) (refreshLookupFailed (sig.map (shN n k)) (r.sh n k)) m ErrRel := by
  cases r with
  | inactive orig => exact eqvK_refreshReuse sig orig.id
  | _ =>
    simp only [refreshLookupFailed, Res.sh, Res.errKind]
    (repeat' split) <;> rfl

theorem eqv_refreshH (cfg : Config) (now : Time) (q : RefreshReq) :
    eqvH n k (refreshH cfg now q) (refreshH cfg now (q.sh n k)) m (OutRel n k) := by
  unfold refreshH
  refine eqvH_callH_bind rfl (by trivial) ?_
  intro _ m1 hm1 _ _
  refine eqvH_seq (eqv_authenticate _ _) ?_
  rintro client _ m2 hm2 rfl
  refine eqvH_guard_bind rfl (fun _ => ?_)
  refine eqvH_seq (eqvH_expectReq rfl (by trivial)
    (fun r _ _ _ => eqvK_refreshLookupFailed _ r)) ?_
  rintro orig _ m3 hm3 ⟨rfl, horig⟩
  refine eqvH_guard_bind rfl (fun _ => ?_)
  refine eqvH_guard_bind rfl (fun _ => ?_)
  refine eqvH_guard_bind rfl (fun _ => ?_)
  refine eqvH_guard_bind rfl (fun _ => ?_)
  refine eqvH_guard_bind rfl (fun _ => ?_)
  refine eqvH_optErr_bind rfl (fun _ => ?_)
  refine eqvH_seq (eqvH_expectOk rfl (by trivial) (fun _ _ _ => eqvK_retErr _)) ?_
  intro _ _ m4 hm4 _
  refine eqvH_seq (eqvH_expectOk rfl
    (by trivial) (fun _ _ _ => eqvK_refreshStorageError _)) ?_
  intro _ _ m5 hm5 _
  refine eqvH_seq (eqvH_expectNat rfl (by exact (by omega : orig.id < m5))
    (fun r _ _ _ => by rw [Res.sh_errKind]; exact eqvK_refreshStorageError _)) ?_
  rintro atk _ m6 hm6 ⟨rfl, hatk, _⟩
  refine eqvH_seq (eqvH_expectNat rfl (by exact ⟨hatk, (by omega : orig.id < m6)⟩)
    (fun r _ _ _ => by rw [Res.sh_errKind]; exact eqvK_refreshStorageError _)) ?_
  rintro rt _ m7 hm7 ⟨rfl, _, _⟩
  refine eqvH_seq (eqvH_expectOk rfl (by trivial) (fun _ _ _ => eqvK_refreshStorageError _)) ?_
  intro _ _ m8 hm8 _
  refine eqvH_guard_bind rfl (fun _ => ?_)
  exact eqvH_pure _ _ rfl

theorem eqv_refreshProg (cfg : Config) (now : Time) (q : RefreshReq) :
    eqvK n k (refreshProg cfg now q) (refreshProg cfg now (q.sh n k)) m (OutRel n k) :=
  eqvK_run (eqv_refreshH cfg now q)

/-! ### `client_credentials`, `password` -/

theorem eqv_clientCredentialsH (cfg : Config) (now : Time) (q : DirectReq) :
    eqvH n k (clientCredentialsH cfg now q) (clientCredentialsH cfg now q) m (OutRel n k) := by
  unfold clientCredentialsH
  refine eqvH_seq (eqvH_expectNat rfl (by trivial) (fun _ _ _ _ => eqvK_retErr _)) ?_
  rintro rid _ m1 hm1 ⟨rfl, hrid, _⟩
  refine eqvH_seq (eqv_authenticate _ _) ?_
  rintro client _ m2 hm2 rfl
  refine eqvH_guard_bind rfl (fun _ => ?_)
  refine eqvH_optErr_bind rfl (fun _ => ?_)
  refine eqvH_guard_bind rfl (fun _ => ?_)
  refine eqvH_guard_bind rfl (fun _ => ?_)
  refine eqvH_seq (eqvH_expectNat rfl (by exact (by omega : rid < m2))
    (fun r _ _ _ => by simp only [Res.sh_errKind]; exact eqvK_retErr _)) ?_
  rintro atk _ m3 hm3 ⟨rfl, _, _⟩
  exact eqvH_pure _ _ rfl

theorem eqv_clientCredentialsProg (cfg : Config) (now : Time) (q : DirectReq) :
    eqvK n k (clientCredentialsProg cfg now q) (clientCredentialsProg cfg now q) m (OutRel n k) :=
  eqvK_run (eqv_clientCredentialsH cfg now q)

theorem eqv_passwordH (cfg : Config) (now : Time) (q : DirectReq) :
    eqvH n k (passwordH cfg now q) (passwordH cfg now q) m (OutRel n k) := by
  unfold passwordH
  refine eqvH_seq (eqvH_expectNat rfl (by trivial) (fun _ _ _ _ => eqvK_retErr _)) ?_
  rintro rid _ m1 hm1 ⟨rfl, hrid, _⟩
  refine eqvH_seq (eqv_authenticate _ _) ?_
  rintro client _ m2 hm2 rfl
  refine eqvH_guard_bind rfl (fun _ => ?_)
  refine eqvH_guard_bind rfl (fun _ => ?_)
  refine eqvH_optErr_bind rfl (fun _ => ?_)
  refine eqvH_guard_bind rfl (fun _ => ?_)
  refine eqvH_callH_bind rfl (by trivial) ?_
  intro r m3 hm3 _ _
  cases r with
  | ok =>
    refine eqvH_seq (eqvH_expectNat rfl (by exact (by omega : rid < m3))
      (fun r _ _ _ => by simp only [Res.sh_errKind]; exact eqvK_retErr _)) ?_
    rintro atk _ m4 hm4 ⟨rfl, hatk, _⟩
    refine eqvH_ite Iff.rfl (fun _ => ?_) (fun _ => ?_)
    · refine eqvH_seq (eqvH_expectNat rfl (by exact ⟨hatk, (by omega : rid < m4)⟩) (fun _ _ _ _ => eqvK_retErr _)) ?_
      rintro rt _ m5 hm5 ⟨rfl, _, _⟩
      exact eqvH_pure _ _ rfl
    · exact eqvH_pure _ _ rfl
  | _ =>
    simp only [Res.sh, Res.errKind]
    (repeat' split) <;> exact eqvH_fail _

theorem eqv_passwordProg (cfg : Config) (now : Time) (q : DirectReq) :
    eqvK n k (passwordProg cfg now q) (passwordProg cfg now q) m (OutRel n k) :=
  eqvK_run (eqv_passwordH cfg now q)

/-! ### device authorization grant -/

theorem eqv_deviceAuthH (cfg : Config) (now : Time) (q : DeviceAuthReq) :
    eqvH n k (deviceAuthH cfg now q) (deviceAuthH cfg now q) m (OutRel n k) := by
  unfold deviceAuthH
  refine eqvH_seq (eqv_authenticate _ _) ?_
  rintro client _ m1 hm1 rfl
  refine eqvH_guard_bind rfl (fun _ => ?_)
  refine eqvH_guard_bind rfl (fun _ => ?_)
  refine eqvH_guard_bind rfl (fun _ => ?_)
  refine eqvH_optErr_bind rfl (fun _ => ?_)
  refine eqvH_seq (eqvH_expectNat rfl (by trivial) (fun _ _ _ _ => eqvK_retErr _)) ?_
  rintro rid _ m2 hm2 ⟨rfl, hrid, _⟩
  refine eqvH_seq (eqvH_expectNat rfl (by exact hrid) (fun _ _ _ _ => eqvK_retErr _)) ?_
  rintro d _ m3 hm3 ⟨rfl, _, hdn⟩
  refine eqvH_pure _ _ ?_
  simp only [OutRel, Out.sh, shN_succ hdn]

theorem eqv_deviceAuthProg (cfg : Config) (now : Time) (q : DeviceAuthReq) :
    eqvK n k (deviceAuthProg cfg now q) (deviceAuthProg cfg now q) m (OutRel n k) :=
  eqvK_run (eqv_deviceAuthH cfg now q)

theorem eqv_deviceStateGate (d : DevRec) :
    eqvH n k (deviceStateGate d) (deviceStateGate (d.sh n k)) m (fun _ _ _ => True) := by
  unfold deviceStateGate
  refine eqvH_ite Iff.rfl (fun _ => eqvH_fail _) (fun _ => ?_)
  exact eqvH_ite Iff.rfl (fun _ => eqvH_fail _) (fun _ => eqvH_ok _ _ (by trivial))

theorem eqvK_deviceLookupFailed (a b : Nat) (r : Res) (hr : r.Below m) :
    eqvK n k (deviceLookupFailed a r) (deviceLookupFailed b (r.sh n k)) m ErrRel := by
  cases r with
  | usedDev d =>
    simp only [deviceLookupFailed, Res.sh, deviceReplay]
    refine eqvK_call_bind rfl (by trivial) ?_
    intro _ m1 hm1 _ _
    refine eqvK_call_bind rfl (by trivial) ?_
    intro _ _ _ _ _
    rfl
  | _ =>
    simp only [deviceLookupFailed, Res.sh, Res.errKind]
    (repeat' split) <;> rfl

theorem eqv_oidcDevicePopulate (code : Presented) (client : Client) :
    eqvH n k (oidcDevicePopulate code client) (oidcDevicePopulate (code.sh n k) client) m (fun _ a b => a = b) := by
  unfold oidcDevicePopulate
  refine eqvH_guard_bind rfl (fun _ => ?_)
  refine eqvH_callH_bind rfl (by trivial) ?_
  intro r m' hm' _ _
  cases r with
  | req ar =>
    refine eqvH_guard_bind rfl (fun _ => ?_)
    refine eqvH_guard_bind rfl (fun _ => ?_)
    refine eqvH_seq (eqvH_expectOk rfl (by trivial)
      (fun _ _ _ => eqvK_retErr _)) ?_
    intro _ _ _ _ _
    exact eqvH_pure _ _ rfl
  | _ =>
    simp only [Res.sh, Res.errKind]
    (repeat' split) <;> first
      | exact eqvH_fail _
      | exact eqvH_pure _ _ rfl

theorem eqv_devicePollH (cfg : Config) (now : Time) (q : DevicePollReq) :
    eqvH n k (devicePollH cfg now q) (devicePollH cfg now (q.sh n k)) m (OutRel n k) := by
  unfold devicePollH
  refine eqvH_callH_bind rfl (by trivial) ?_
  intro idr m1 hm1 _ _
  refine eqvH_seq (eqv_authenticate _ _) ?_
  rintro client _ m2 hm2 rfl
  refine eqvH_guard_bind rfl (fun _ => ?_)
  refine eqvH_seq (eqvH_expectDev rfl (by trivial)
    (fun r m' _ hr => eqvK_deviceLookupFailed _ _ r hr)) ?_
  rintro d _ m3 hm3 ⟨rfl, hd⟩
  refine eqvH_seq (eqv_deviceStateGate d) ?_
  intro _ _ m4 hm4 _
  refine eqvH_guard_bind rfl (fun _ => ?_)
  refine eqvH_guard_bind rfl (fun _ => ?_)
  refine eqvH_guard_bind rfl (fun _ => ?_)
  refine eqvH_seq (eqvH_expectDev rfl (by trivial)
    (fun _ _ _ _ => eqvK_retErr _)) ?_
  rintro d2 _ m5 hm5 ⟨rfl, hd2⟩
  refine eqvH_guard_bind rfl (fun _ => ?_)
  refine eqvH_guard_bind rfl (fun _ => ?_)
  refine eqvH_seq (eqvH_expectOk rfl (by trivial) (fun _ _ _ => eqvK_retErr _)) ?_
  intro _ _ m6 hm6 _
  refine eqvH_seq (eqvH_expectOk rfl (by trivial)
    (fun _ _ _ => eqvK_rollbackThen _)) ?_
  intro _ _ m7 hm7 _
  refine eqvH_seq (eqvH_expectNat rfl (by exact (by omega : d.req.id < m7)) (fun _ _ _ _ => eqvK_rollbackThen _)) ?_
  rintro atk _ m8 hm8 ⟨rfl, hatk, hatkn⟩
  extract_lets jp jp'
  have hjp : ∀ rt m9, m8 ≤ m9 → eqvH n k (jp rt) (jp' (rt.map (shN n k))) m9 (OutRel n k) := by
    intro rt m9 h9
    refine eqvH_seq (eqvH_expectOk rfl (by trivial) (fun _ _ _ => eqvK_rollbackThen _)) ?_
    intro _ _ m10 h10 _
    refine eqvH_seq (eqv_oidcDevicePopulate q.code client) ?_
    rintro idt _ m11 h11 rfl
    exact eqvH_pure _ _ rfl
  refine eqvH_ite Iff.rfl (fun _ => ?_) (fun _ => ?_)
  · refine eqvH_seq (K1 := fun _ a b => b = a.map (shN n k)) ?_ (fun rt _ m9 h9 hrt => by subst hrt; exact hjp rt m9 h9)
    refine eqvH_seq (eqvH_expectNat rfl (by exact ⟨hatk, (by omega : d.req.id < m8)⟩) (fun _ _ _ _ => eqvK_rollbackThen _)) ?_
    rintro nn _ m9 h9 ⟨rfl, _, _⟩
    exact eqvH_pure _ _ rfl
  · exact eqvH_seq (K1 := fun _ a b => b = a.map (shN n k)) (eqvH_ok _ _ rfl) (fun rt _ m9 h9 hrt => by subst hrt; exact hjp rt m9 h9)

theorem eqv_devicePollProg (cfg : Config) (now : Time) (q : DevicePollReq) :
    eqvK n k (devicePollProg cfg now q) (devicePollProg cfg now (q.sh n k)) m (OutRel n k) :=
  eqvK_run (eqv_devicePollH cfg now q)

/-! ### revocation -/

theorem eqv_revocationError (e1 e2 : Option Err) :
    eqvH n k (revocationError e1 e2) (revocationError e1 e2) m (OutRel n k) := by
  unfold revocationError
  split
  · exact eqvH_ok _ _ rfl
  · exact eqvH_fail _

theorem eqv_revokeFound (client : Client) (ar : Req) :
    eqvH n k (revokeH.revokeFound client ar) (revokeH.revokeFound client (ar.sh n k)) m (OutRel n k) := by
  unfold revokeH.revokeFound
  refine eqvH_guard_bind rfl (fun _ => ?_)
  refine eqvH_callH_bind rfl (by trivial) ?_
  intro r1 m1 hm1 _ _
  refine eqvH_callH_bind rfl (by trivial) ?_
  intro r2 m2 hm2 _ _
  simp only [Res.sh_errKind]
  exact eqv_revocationError _ _

theorem eqv_revokeH (q : RevokeReq) :
    eqvH n k (revokeH q) (revokeH (q.sh n k)) m (OutRel n k) := by
  have h1 : revokeFirst (q.sh n k) = (revokeFirst q).sh n k := by
    unfold revokeFirst; simp only [RevokeReq.sh]
    by_cases h : (q.hint == Hint.access) = true <;> simp only [h, ↓reduceIte] <;> rfl
  have h2 : revokeSecond (q.sh n k) = (revokeSecond q).sh n k := by
    unfold revokeSecond; simp only [RevokeReq.sh]
    by_cases h : (q.hint == Hint.access) = true <;> simp only [h, ↓reduceIte] <;> rfl
  have b1 : ∀ m', (revokeFirst q).Below m' := by
    intro m'; unfold revokeFirst; split <;> trivial
  have b2 : ∀ m', (revokeSecond q).Below m' := by
    intro m'; unfold revokeSecond; split <;> trivial
  unfold revokeH
  refine eqvH_seq (eqv_authenticate _ _) ?_
  rintro client _ m1 hm1 rfl
  refine eqvH_callH_bind h1 (b1 m1) ?_
  intro r1 m2 hm2 hr1 _
  cases r1 with
  | req ar => exact eqv_revokeFound client ar
  | _ =>
    all_goals
      refine eqvH_callH_bind h2 (b2 _) ?_
      intro r2 m3 hm3 hr2 _
      cases r2 with
      | req ar => exact eqv_revokeFound client ar
      | _ => exact eqv_revocationError _ _

theorem eqv_revokeProg (q : RevokeReq) :
    eqvK n k (revokeProg q) (revokeProg (q.sh n k)) m (OutRel n k) :=
  eqvK_run (eqv_revokeH q)

/-! ### introspection -/

theorem eqvK_seq {α α' β β' : Type} {K1 : Nat → α → α' → Prop} {K : Nat → β → β' → Prop} {p : Prog α} {p' : Prog α'}
    {f : α → Prog β} {f' : α' → Prog β'}
    (hp : eqvK n k p p' m K1) (hf : ∀ a b m', m ≤ m' → K1 m' a b → eqvK n k (f a) (f' b) m' K) :
    eqvK n k (p >>= f) (p' >>= f') m K :=
  eqvK_bind n k p p' f f' m K (eqvK_mono n k p p' m _ _ (fun m' a b hm h => hf a b m' hm h) hp)

/-- run a sub-validator and look at its verdict -/
theorem eqvK_attempt_bind {α α' β β' : Type} {K1 : Nat → α → α' → Prop} {K : Nat → β → β' → Prop} {x : HP α} {x' : HP α'}
    {f : Except Err α → Prog β} {f' : Except Err α' → Prog β'}
    (hx : eqvH n k x x' m K1)
    (hok : ∀ a b m', m ≤ m' → K1 m' a b → eqvK n k (f (.ok a)) (f' (.ok b)) m' K)
    (herr : ∀ e m', m ≤ m' → eqvK n k (f (.error e)) (f' (.error e)) m' K) :
    eqvK n k (attempt x >>= f) (attempt x' >>= f') m K := by
  refine eqvK_seq hx ?_
  intro r r' m' hm hr
  cases r <;> cases r' <;> first
    | exact absurd hr id
    | (cases hr; exact herr _ m' hm)
    | exact hok _ _ m' hm hr

theorem eqv_introspectAccess (cfg : Config) (now : Time) (q : IntrospectReq) :
    eqvH n k (introspectAccess cfg now q) (introspectAccess cfg now (q.sh n k)) m (fun _ a b => b = a.sh n k) := by
  unfold introspectAccess
  refine eqvH_seq (eqvH_expectReq rfl (by trivial) (fun _ _ _ _ => eqvK_retErr _)) ?_
  rintro r _ m1 hm1 ⟨rfl, _⟩
  refine eqvH_guard_bind rfl (fun _ => ?_)
  refine eqvH_guard_bind rfl (fun _ => ?_)
  refine eqvH_guard_bind rfl (fun _ => ?_)
  exact eqvH_pure _ _ rfl

theorem eqv_introspectRefresh (cfg : Config) (now : Time) (q : IntrospectReq) :
    eqvH n k (introspectRefresh cfg now q) (introspectRefresh cfg now (q.sh n k)) m (fun _ a b => b = a.sh n k) := by
  unfold introspectRefresh
  refine eqvH_seq (eqvH_expectReq rfl (by trivial) (fun _ _ _ _ => eqvK_retErr _)) ?_
  rintro r _ m1 hm1 ⟨rfl, _⟩
  refine eqvH_guard_bind rfl (fun _ => ?_)
  refine eqvH_guard_bind rfl (fun _ => ?_)
  refine eqvH_guard_bind rfl (fun _ => ?_)
  exact eqvH_pure _ _ rfl

theorem eqv_introspectProg (cfg : Config) (now : Time) (q : IntrospectReq) :
    eqvK n k (introspectProg cfg now q) (introspectProg cfg now (q.sh n k)) m (OutRel n k) := by
  unfold introspectProg
  refine eqvK_ite Iff.rfl (fun _ => ?_) (fun _ => ?_)
  · refine eqvK_attempt_bind (eqv_introspectAccess cfg now q) ?_ ?_
    · rintro r _ m1 _ rfl; rfl
    · intro e m1 _; rfl
  · refine eqvK_ite Iff.rfl (fun _ => ?_) (fun _ => ?_)
    · refine eqvK_attempt_bind (eqv_introspectRefresh cfg now q) ?_ ?_
      · rintro r _ m1 _ rfl; rfl
      · intro e m1 hm1
        refine eqvK_attempt_bind (eqv_introspectAccess cfg now q) ?_ ?_
        · rintro r _ m2 _ rfl; rfl
        · intro e m2 _; rfl
    · refine eqvK_attempt_bind (eqv_introspectAccess cfg now q) ?_ ?_
      · rintro r _ m1 _ rfl; rfl
      · intro e m1 hm1
        refine eqvK_attempt_bind (eqv_introspectRefresh cfg now q) ?_ ?_
        · rintro r _ m2 _ rfl; rfl
        · intro e m2 _; rfl

/-- the signature a bearer caller of the introspection endpoint presents -/
def Caller.sig : Caller → Option Nat
  | .bearer tok _ => tok.sig
  | _ => none

theorem eqv_introspectEndpointProg (cfg : Config) (now : Time) (r : IntrospectEndpointReq) :
    eqvK n k (introspectEndpointProg cfg now r) (introspectEndpointProg cfg now (r.sh n k)) m (OutRel n k) := by
  unfold introspectEndpointProg
  extract_lets inspect inspect'
  have hinspect : ∀ m', m ≤ m' → eqvK n k inspect inspect' m' (OutRel n k) := by
    intro m' hm'
    refine eqvK_seq (eqv_introspectProg cfg now r.q) ?_
    rintro o _ m1 _ rfl
    cases o <;> rfl
  obtain ⟨caller, q⟩ := r
  cases caller with
  | anonymous => rfl
  | basic id secretOk =>
    refine eqvK_call_bind rfl (by trivial) ?_
    intro res m1 hm1 _ _
    cases res <;> try rfl
    cases secretOk
    · rfl
    · exact hinspect m1 hm1
  | bearer tok identical =>
    cases identical
    · refine eqvK_seq (eqv_introspectProg cfg now { token := tok, hint := .access, scopes := [] }) ?_
      rintro o _ m1 hm1 rfl
      cases o <;> try rfl
      simp only [Out.sh]
      split
      · rfl
      · exact hinspect m1 hm1
    · rfl

/-! ### authorization endpoint -/

def AuthzAcc.sh (n k : Nat) (a : AuthzAcc) : AuthzAcc :=
  { ar := a.ar.sh n k, code := a.code.map (shN n k), atk := a.atk.map (shN n k), idt := a.idt }

def AuthzAcc.Below (m : Nat) (a : AuthzAcc) : Prop := a.ar.id < m ∧ OptBelow m a.code ∧ OptBelow m a.atk

theorem AuthzAcc.Below.mono {m m' : Nat} {a : AuthzAcc} (h : a.Below m) (hm : m ≤ m') : a.Below m' :=
  ⟨Nat.lt_of_lt_of_le h.1 hm, h.2.1.mono hm, h.2.2.mono hm⟩

/-- accumulators of the two runs -/
def AccRel (n k : Nat) : Nat → AuthzAcc → AuthzAcc → Prop := fun m a b => b = a.sh n k ∧ a.Below m

theorem eqv_authzExplicit (cfg : Config) (now : Time) (client : Client) (q : AuthzReq) (acc : AuthzAcc) (ha : acc.Below m) :
    eqvH n k (authzExplicit cfg now client q acc) (authzExplicit cfg now client q (acc.sh n k)) m (AccRel n k) := by
  unfold authzExplicit
  refine eqvH_ite Iff.rfl (fun _ => eqvH_pure _ _ ⟨rfl, ha⟩) (fun _ => ?_)
  refine eqvH_guard_bind rfl (fun _ => ?_)
  refine eqvH_guard_bind rfl (fun _ => ?_)
  refine eqvH_optErr_bind rfl (fun _ => ?_)
  refine eqvH_seq (eqvH_expectNat rfl (by exact ha.1) (fun _ _ _ _ => eqvK_retErr _)) ?_
  rintro c _ m1 hm1 ⟨rfl, hc, _⟩
  exact eqvH_pure _ _ ⟨rfl, Nat.lt_of_lt_of_le ha.1 hm1, hc, ha.2.2.mono hm1⟩

theorem eqv_authzImplicit (cfg : Config) (now : Time) (client : Client) (q : AuthzReq) (acc : AuthzAcc) (ha : acc.Below m) :
    eqvH n k (authzImplicit cfg now client q acc) (authzImplicit cfg now client q (acc.sh n k)) m (AccRel n k) := by
  unfold authzImplicit
  refine eqvH_ite Iff.rfl (fun _ => eqvH_pure _ _ ⟨rfl, ha⟩) (fun _ => ?_)
  refine eqvH_guard_bind rfl (fun _ => ?_)
  refine eqvH_guard_bind rfl (fun _ => ?_)
  refine eqvH_optErr_bind rfl (fun _ => ?_)
  refine eqvH_seq (eqvH_expectNat rfl (by exact ha.1) (fun _ _ _ _ => eqvK_retErr _)) ?_
  rintro c _ m1 hm1 ⟨rfl, hc, _⟩
  exact eqvH_pure _ _ ⟨rfl, Nat.lt_of_lt_of_le ha.1 hm1, ha.2.1.mono hm1, hc⟩

theorem eqv_authzOIDCExplicit (q : AuthzReq) (acc : AuthzAcc) (ha : acc.Below m) :
    eqvH n k (authzOIDCExplicit q acc) (authzOIDCExplicit q (acc.sh n k)) m (AccRel n k) := by
  unfold authzOIDCExplicit
  refine eqvH_ite Iff.rfl (fun _ => eqvH_pure _ _ ⟨rfl, ha⟩) (fun _ => ?_)
  cases hcode : acc.code with
  | none =>
    simp only [AuthzAcc.sh, hcode, Option.map_none]
    exact eqvH_fail _
  | some c =>
    simp only [AuthzAcc.sh, hcode, Option.map_some]
    have hc : c < m := by have := ha.2.1; rw [hcode] at this; exact this
    refine eqvH_guard_bind rfl (fun _ => ?_)
    refine eqvH_guard_bind rfl (fun _ => ?_)
    refine eqvH_seq (eqvH_expectOk rfl (by exact ⟨hc, ha.1⟩) (fun _ _ _ => eqvK_retErr _)) ?_
    intro _ _ m1 hm1 _
    refine eqvH_pure _ _ ⟨?_, ha.mono hm1⟩
    simp only [AuthzAcc.sh, hcode, Option.map_some]

theorem eqv_authzPKCE (cfg : Config) (client : Client) (q : AuthzReq) (acc : AuthzAcc) (ha : acc.Below m) :
    eqvH n k (authzPKCE cfg client q acc) (authzPKCE cfg client q (acc.sh n k)) m (AccRel n k) := by
  unfold authzPKCE
  refine eqvH_ite Iff.rfl (fun _ => eqvH_pure _ _ ⟨rfl, ha⟩) (fun _ => ?_)
  refine eqvH_optErr_bind rfl (fun _ => ?_)
  refine eqvH_ite Iff.rfl (fun _ => eqvH_pure _ _ ⟨rfl, ha⟩) (fun _ => ?_)
  cases hcode : acc.code with
  | none =>
    simp only [AuthzAcc.sh, hcode, Option.map_none]
    exact eqvH_fail _
  | some c =>
    simp only [AuthzAcc.sh, hcode, Option.map_some]
    have hc : c < m := by have := ha.2.1; rw [hcode] at this; exact this
    refine eqvH_seq (eqvH_expectOk rfl (by exact ⟨hc, ha.1⟩) (fun _ _ _ => eqvK_retErr _)) ?_
    intro _ _ m1 hm1 _
    refine eqvH_pure _ _ ⟨?_, ha.mono hm1⟩
    simp only [AuthzAcc.sh, hcode, Option.map_some]

theorem eqv_authzHybrid (cfg : Config) (now : Time) (minNonce : Nat) (client : Client) (q : AuthzReq) (acc : AuthzAcc)
    (ha : acc.Below m) :
    eqvH n k (authzHybrid cfg now minNonce client q acc) (authzHybrid cfg now minNonce client q (acc.sh n k)) m (AccRel n k) := by
  unfold authzHybrid
  refine eqvH_ite Iff.rfl (fun _ => eqvH_pure _ _ ⟨rfl, ha⟩) (fun _ => ?_)
  refine eqvH_guard_bind rfl (fun _ => ?_)
  refine eqvH_guard_bind rfl (fun _ => ?_)
  refine eqvH_guard_bind rfl (fun _ => ?_)
  refine eqvH_guard_bind rfl (fun _ => ?_)
  refine eqvH_guard_bind rfl (fun _ => ?_)
  refine eqvH_guard_bind rfl (fun _ => ?_)
  refine eqvH_seq (eqvH_expectNat rfl (by exact ha.1) (fun _ _ _ _ => eqvK_retErr _)) ?_
  rintro c _ m1 hm1 ⟨rfl, hc, _⟩
  have hid := ha.1
  extract_lets s1 s2 idt art jp s1' s2' idt' art' jp'
  have hjp : ∀ u m2, m1 ≤ m2 → eqvH n k (jp u) (jp' u) m2 (AccRel n k) := by
    intro u m2 hm2
    refine eqvH_ite Iff.rfl (fun _ => ?_) (fun _ => ?_)
    · refine eqvH_guard_bind rfl (fun _ => ?_)
      refine eqvH_seq (eqvH_expectNat rfl (by exact (by omega : acc.ar.id < m2)) (fun _ _ _ _ => eqvK_retErr _)) ?_
      rintro a _ m3 hm3 ⟨rfl, ha3, _⟩
      exact eqvH_pure _ _ ⟨rfl, (by omega : acc.ar.id < m3), (by omega : c < m3), ha3⟩
    · exact eqvH_pure _ _ ⟨rfl, (by omega : acc.ar.id < m2), (by omega : c < m2), ha.2.2.mono (by omega)⟩
  refine eqvH_ite Iff.rfl (fun _ => ?_) (fun _ => ?_)
  · refine eqvH_seq (eqvH_expectOk rfl (by exact ⟨hc, (by omega : acc.ar.id < m1)⟩) (fun _ _ _ => eqvK_retErr _)) ?_
    intro _ _ m2 hm2 _
    exact hjp () m2 hm2
  · exact hjp () m1 (Nat.le_refl _)

/-- the five response-type handlers in a row, as both authorization endpoints run them -/
theorem eqv_authzChain (cfg : Config) (now : Time) (minNonce : Nat) (client : Client) (q : AuthzReq) (acc : AuthzAcc)
    (ha : acc.Below m) :
    eqvH n k
      (do let acc1 ← authzExplicit cfg now client q acc
          let acc2 ← authzImplicit cfg now client q acc1
          let acc3 ← authzOIDCExplicit q acc2
          HP.guard (!(matchesArgs q.responseTypes ["id_token"] || matchesArgs q.responseTypes ["token", "id_token"])) .unsupported_response_type
          let acc5 ← authzHybrid cfg now minNonce client q acc3
          let acc6 ← authzPKCE cfg client q acc5
          return .authz acc6.code acc6.atk acc6.idt)
      (do let acc1 ← authzExplicit cfg now client q (acc.sh n k)
          let acc2 ← authzImplicit cfg now client q acc1
          let acc3 ← authzOIDCExplicit q acc2
          HP.guard (!(matchesArgs q.responseTypes ["id_token"] || matchesArgs q.responseTypes ["token", "id_token"])) .unsupported_response_type
          let acc5 ← authzHybrid cfg now minNonce client q acc3
          let acc6 ← authzPKCE cfg client q acc5
          return .authz acc6.code acc6.atk acc6.idt)
      m (OutRel n k) := by
  refine eqvH_seq (eqv_authzExplicit cfg now client q acc ha) ?_
  rintro acc1 _ m1 hm1 ⟨rfl, h1⟩
  refine eqvH_seq (eqv_authzImplicit cfg now client q acc1 h1) ?_
  rintro acc2 _ m2 hm2 ⟨rfl, h2⟩
  refine eqvH_seq (eqv_authzOIDCExplicit q acc2 h2) ?_
  rintro acc3 _ m3 hm3 ⟨rfl, h3⟩
  refine eqvH_guard_bind rfl (fun _ => ?_)
  refine eqvH_seq (eqv_authzHybrid cfg now minNonce client q acc3 h3) ?_
  rintro acc5 _ m5 hm5 ⟨rfl, h5⟩
  refine eqvH_seq (eqv_authzPKCE cfg client q acc5 h5) ?_
  rintro acc6 _ m6 hm6 ⟨rfl, h6⟩
  exact eqvH_pure _ _ rfl

theorem eqv_authorizeH (cfg : Config) (now : Time) (minNonce : Nat) (q : AuthzReq) :
    eqvH n k (authorizeH cfg now minNonce q) (authorizeH cfg now minNonce q) m (OutRel n k) := by
  unfold authorizeH
  refine eqvH_guard_bind rfl (fun _ => ?_)
  refine eqvH_seq (eqvH_expectClient rfl (by trivial) _) ?_
  rintro client _ m1 hm1 rfl
  refine eqvH_guard_bind rfl (fun _ => ?_)
  refine eqvH_optErr_bind rfl (fun _ => ?_)
  refine eqvH_seq (eqvH_expectNat rfl (by trivial) (fun _ _ _ _ => eqvK_retErr _)) ?_
  rintro rid _ m2 hm2 ⟨rfl, hrid, _⟩
  exact eqv_authzChain cfg now minNonce client q { ar := authzBaseReq now client q rid } ⟨hrid, trivial, trivial⟩

theorem eqv_authorizeProg (cfg : Config) (now : Time) (minNonce : Nat) (q : AuthzReq) :
    eqvK n k (authorizeProg cfg now minNonce q) (authorizeProg cfg now minNonce q) m (OutRel n k) :=
  eqvK_run (eqv_authorizeH cfg now minNonce q)

/-! ### pushed authorization requests -/

/-- the push endpoint answers a push that no handler is responsible for with the literal request URI `0`:
    that name must not be moved by the renaming -/
def ParPushReq.literalOk (n k : Nat) (p : ParPushReq) : Prop :=
  hasOneOf p.q.responseTypes ["token", "code", "id_token"] = true ∨ shN n k 0 = 0

theorem eqv_parPushH (cfg : Config) (now : Time) (p : ParPushReq) (hz : p.literalOk n k) :
    eqvH n k (parPushH cfg now p) (parPushH cfg now p) m (OutRel n k) := by
  unfold parPushH
  refine eqvH_seq (eqv_authenticate _ _) ?_
  rintro _ _ m1 hm1 rfl
  refine eqvH_guard_bind rfl (fun _ => ?_)
  refine eqvH_seq (eqvH_expectClient rfl (by trivial) _) ?_
  rintro client _ m2 hm2 rfl
  refine eqvH_guard_bind rfl (fun _ => ?_)
  refine eqvH_optErr_bind rfl (fun _ => ?_)
  refine eqvH_guard_bind rfl (fun _ => ?_)
  refine eqvH_ite Iff.rfl (fun hno => ?_) (fun _ => ?_)
  · refine eqvH_pure _ _ ?_
    rcases hz with hz | hz
    · rw [hz] at hno; cases hno
    · simp only [OutRel, Out.sh, hz]
  refine eqvH_guard_bind rfl (fun _ => ?_)
  refine eqvH_guard_bind rfl (fun _ => ?_)
  refine eqvH_optErr_bind rfl (fun _ => ?_)
  refine eqvH_seq (eqvH_expectNat rfl (by trivial) (fun _ _ _ _ => eqvK_retErr _)) ?_
  rintro rid _ m3 hm3 ⟨rfl, hrid, _⟩
  refine eqvH_seq (eqvH_expectNat rfl (by exact hrid) (fun _ _ _ _ => eqvK_retErr _)) ?_
  rintro uri _ m4 hm4 ⟨rfl, _, _⟩
  exact eqvH_pure _ _ rfl

theorem eqv_parPushProg (cfg : Config) (now : Time) (p : ParPushReq) (hz : p.literalOk n k) :
    eqvK n k (parPushProg cfg now p) (parPushProg cfg now p) m (OutRel n k) :=
  eqvK_run (eqv_parPushH cfg now p hz)

theorem eqv_authorizeParH (cfg : Config) (now : Time) (minNonce : Nat) (a : AuthzParReq) :
    eqvH n k (authorizeParH cfg now minNonce a) (authorizeParH cfg now minNonce (a.sh n k)) m (OutRel n k) := by
  unfold authorizeParH
  refine eqvH_seq (eqvH_expectPar rfl (by trivial) (fun _ _ _ _ => eqvK_retErr _)) ?_
  rintro p _ m1 hm1 ⟨rfl, hp⟩
  refine eqvH_guard_bind rfl (fun _ => ?_)
  refine eqvH_seq (eqvH_expectOk rfl (by trivial) (fun _ _ _ => eqvK_retErr _)) ?_
  intro _ _ m2 hm2 _
  refine eqvH_guard_bind rfl (fun _ => ?_)
  exact eqv_authzChain cfg now minNonce p.req.client (authzReqOfPar p a)
    { ar := { p.req with
        grantedScopes := appendAllUniq [] a.grantScopes, grantedAud := appendAllUniq [] a.grantAud,
        form := mergeForm ([("client_id", a.clientId)] ++ a.extra) p.req.form,
        sess := { subject := a.subject, idSubject := a.subject } } }
    ⟨(by omega : p.req.id < m2), trivial, trivial⟩

theorem eqv_authorizeParProg (cfg : Config) (now : Time) (minNonce : Nat) (a : AuthzParReq) :
    eqvK n k (authorizeParProg cfg now minNonce a) (authorizeParProg cfg now minNonce (a.sh n k)) m (OutRel n k) :=
  eqvK_run (eqv_authorizeParH cfg now minNonce a)

end handlers

/-! ### every endpoint program -/

/-- the renaming on an operation: the signatures it presents -/
def Op.sh (n k : Nat) : Op → Op
  | .redeem q => .redeem (q.sh n k)
  | .refresh q => .refresh (q.sh n k)
  | .revoke q => .revoke (q.sh n k)
  | .introspect q => .introspect (q.sh n k)
  | .introspectEndpoint r => .introspectEndpoint (r.sh n k)
  | .devicePoll q => .devicePoll (q.sh n k)
  | .authorizePar a => .authorizePar (a.sh n k)
  | .deviceDecide sig acc gs ga sub => .deviceDecide (shN n k sig) acc gs ga sub
  | op => op

/-- the only literal name in an endpoint program (the request URI `0` in the push endpoint's "no handler
    responsible" answer) is not moved by the renaming -/
def Op.LiteralOk (n k : Nat) : Op → Prop
  | .parPush p => p.literalOk n k
  | _ => True

instance (n k : Nat) (op : Op) : Decidable (op.LiteralOk n k) := by
  cases op <;> unfold Op.LiteralOk <;> first | (unfold ParPushReq.literalOk; infer_instance) | infer_instance

/-- the names the operation itself presents (codes, tokens, request URIs, and that literal) are not
    moved by the renaming -/
def Op.Fixed (n k : Nat) : Op → Prop
  | .redeem q => q.code.sig.map (shN n k) = q.code.sig
  | .refresh q => q.token.sig.map (shN n k) = q.token.sig
  | .revoke q => q.token.sig.map (shN n k) = q.token.sig
  | .introspect q => q.token.sig.map (shN n k) = q.token.sig
  | .introspectEndpoint r =>
    r.q.token.sig.map (shN n k) = r.q.token.sig ∧ r.caller.sig.map (shN n k) = r.caller.sig
  | .devicePoll q => q.code.sig.map (shN n k) = q.code.sig
  | .parPush p => p.literalOk n k
  | .authorizePar a => a.uri.map (shN n k) = a.uri
  | .deviceDecide sig _ _ _ _ => shN n k sig = sig
  | _ => True

/-- **the request presents only names that have been minted**: every signature it presents is `< n`
    (decidable; for the push endpoint: the literal request URI `0` of its "no handler responsible" answer
    is `< n` unless the pushed response types have a handler) -/
def Op.Below (n : Nat) : Op → Prop
  | .redeem q => OptBelow n q.code.sig
  | .refresh q => OptBelow n q.token.sig
  | .revoke q => OptBelow n q.token.sig
  | .introspect q => OptBelow n q.token.sig
  | .introspectEndpoint r => OptBelow n r.q.token.sig ∧ OptBelow n r.caller.sig
  | .devicePoll q => OptBelow n q.code.sig
  | .parPush p => hasOneOf p.q.responseTypes ["token", "code", "id_token"] = true ∨ 0 < n
  | .authorizePar a => OptBelow n a.uri
  | .deviceDecide sig _ _ _ _ => sig < n
  | _ => True

instance (n : Nat) (op : Op) : Decidable (op.Below n) := by
  cases op <;> unfold Op.Below <;> infer_instance

theorem Op.Below.fixed {n : Nat} {op : Op} (h : op.Below n) (k : Nat) : op.Fixed n k := by
  cases op <;> simp only [Op.Below, Op.Fixed] at h ⊢ <;> first
    | trivial
    | exact h.map_fixed
    | exact ⟨h.1.map_fixed, h.2.map_fixed⟩
    | exact shN_lt h
    | (rcases h with h | h
       · exact Or.inl h
       · exact Or.inr (shN_lt h))

theorem map_shN_zero (n : Nat) (x : Option Nat) : x.map (shN n 0) = x := by
  cases x <;> simp [shN_zero]

/-- the identity renaming moves nothing -/
theorem Op.fixed_zero (n : Nat) (op : Op) : op.Fixed n 0 := by
  cases op <;> simp only [Op.Fixed, map_shN_zero, and_self, shN_zero] <;> first
    | trivial
    | exact Or.inr (shN_zero _ _)

theorem Op.Fixed.literalOk {n k : Nat} {op : Op} (h : op.Fixed n k) : op.LiteralOk n k := by
  cases op <;> first | trivial | exact h

/-- an operation whose names are fixed is its own renaming -/
theorem Op.Fixed.sh_eq {n k : Nat} {op : Op} (h : op.Fixed n k) : op.sh n k = op := by
  cases op <;> simp only [Op.Fixed] at h <;> simp only [Op.sh]
  · rename_i q; obtain ⟨a, b, c, d, e, f, g, i⟩ := q; simp only [RedeemReq.sh, Presented.sh_fixed h]
  · rename_i q; obtain ⟨a, b, c, d, e, f⟩ := q; simp only [RefreshReq.sh, Presented.sh_fixed h]
  · rename_i q; obtain ⟨a, b, c, d⟩ := q; simp only [RevokeReq.sh, Presented.sh_fixed h]
  · rename_i q; obtain ⟨a, b, c⟩ := q; simp only [IntrospectReq.sh, Presented.sh_fixed h]
  · rename_i r; obtain ⟨c, q⟩ := r; obtain ⟨a, b, d⟩ := q
    cases c <;> simp only [IntrospectEndpointReq.sh, IntrospectReq.sh, Caller.sh, Presented.sh_fixed h.1]
    rename_i tok i
    simp only [Caller.sig] at h
    rw [Presented.sh_fixed h.2]
  · rw [h]
  · rename_i q; obtain ⟨a, b, c, d⟩ := q; simp only [DevicePollReq.sh, Presented.sh_fixed h]
  · rename_i a; obtain ⟨a1, a2, a3, a4, a5, a6⟩ := a; simp only [AuthzParReq.sh] at h ⊢; rw [h]

/-- **Every endpoint program is equivariant**: the program of the renamed operation is the renamed
    program of the operation. -/
theorem eqv_op_sh (n k m : Nat) (s : MState) (op : Op) (p p' : Prog Out) (hp : op.prog s = some p)
    (hp' : (op.sh n k).prog s = some p') (hl : op.LiteralOk n k) :
    eqvK n k p p' m (OutRel n k) := by
  cases op <;> simp only [Op.sh, Op.prog, Option.some.injEq, reduceCtorEq] at hp hp' <;> subst hp <;> subst hp'
  · exact eqv_authorizeProg _ _ _ _
  · exact eqv_redeemProg _ _ _
  · exact eqv_refreshProg _ _ _
  · exact eqv_revokeProg _
  · exact eqv_introspectProg _ _ _
  · exact eqv_introspectEndpointProg _ _ _
  · exact eqv_clientCredentialsProg _ _ _
  · exact eqv_passwordProg _ _ _
  · exact eqv_deviceAuthProg _ _ _
  · exact eqv_devicePollProg _ _ _
  · exact eqv_parPushProg _ _ _ hl
  · exact eqv_authorizeParProg _ _ _ _

/-- … in particular for an operation the renaming fixes -/
theorem eqv_op (n k m : Nat) (s : MState) (op : Op) (p : Prog Out) (hp : op.prog s = some p) (hf : op.Fixed n k) :
    eqvK n k p p m (OutRel n k) :=
  eqv_op_sh n k m s op p p hp (by rw [hf.sh_eq]; exact hp) hf.literalOk

/-- the endpoint program of an operation does not depend on the storage state -/
theorem Op.prog_ss (s : MState) (ss : SState) (op : Op) : op.prog { s with ss := ss } = op.prog s := by
  cases op <;> rfl

theorem Op.sh_prog_isSome (n k : Nat) (s : MState) (op : Op) : ((op.sh n k).prog s).isSome = (op.prog s).isSome := by
  cases op <;> simp only [Op.sh, Op.prog, Option.isSome]

/-- **the run of the renamed operation's program from the renamed state is the renamed run**, and the
    state stays well-formed — for every run configuration -/
theorem run_op_sh (rc : RunCfg) (s : MState) (op : Op) (p p' : Prog Out) (hp : op.prog s = some p)
    (hp' : (op.sh n k).prog s = some p') (hn : n ≤ s.ss.next) (hb : AllBelow s.ss) (hl : op.LiteralOk n k) :
    (run rc { ss := s.ss.sh n k } p').1 = (run rc { ss := s.ss } p).1.sh n k ∧
    (run rc { ss := s.ss.sh n k } p').2 = (run rc { ss := s.ss } p).2.sh n k ∧
    AllBelow (run rc { ss := s.ss } p).1.ss := by
  obtain ⟨h1, h2, h3, _⟩ := eqvK_sound n k rc p p' (OutRel n k) { ss := s.ss } hn hb (fun s0 h0 => by cases h0)
    (eqv_op_sh n k s.ss.next s op p p' hp hp' hl)
  exact ⟨h1, h2, h3⟩

def MState.sh (n k : Nat) (s : MState) : MState := { s with ss := s.ss.sh n k }

/-- the state with `k` mint-counter values burnt -/
def MState.bump (k : Nat) (s : MState) : MState := { s with ss := { s.ss with next := s.ss.next + k } }

theorem MState.sh_of_allBelow (k : Nat) (s : MState) (h : AllBelow s.ss) : s.sh s.ss.next k = s.bump k := by
  unfold MState.sh MState.bump
  rw [SState.sh_of_allBelow k s.ss h]

/-- the consent application's decision on a user code commutes with the renaming -/
theorem step_deviceDecide_sh (n k : Nat) (s : MState) (sig : Nat) (acc : Bool) (gs ga : List String) (sub : String) :
    step (s.sh n k) (.deviceDecide (shN n k sig) acc gs ga sub) =
      ((step s (.deviceDecide sig acc gs ga sub)).1.sh n k, .ok, []) := by
  simp only [step, MState.sh, SState.sh_store, Store.sh, alookup_shT]
  cases alookup s.ss.store.device sig with
  | none => rfl
  | some d =>
    simp only [Option.map_some]
    have e1 := aset_shT n k (DevRec.sh n k) s.ss.store.device sig
    have e2 := aset_shT n k (Req.sh n k) s.ss.store.oidc sig
    cases acc
    · simp only [Bool.false_eq_true, if_false, Bool.false_and, SState.sh, Store.sh]
      rw [← e1]; rfl
    · simp only [if_true, Bool.true_and, SState.sh, Store.sh]
      rw [← e1]
      cases gs.contains "openid"
      · rfl
      · simp only [if_true]
        rw [← e2]; rfl

/-- **one operation — the renamed operation from the renamed state — is the renamed operation**: state,
    answer and storage-call log; every operation, every run configuration -/
theorem stepWith_sh (rc : RunCfg) (s : MState) (op : Op) (n k : Nat)
    (hn : n ≤ s.ss.next) (hb : AllBelow s.ss) (hl : op.LiteralOk n k) :
    stepWith rc (s.sh n k) (op.sh n k) =
      ((stepWith rc s op).1.sh n k, (stepWith rc s op).2.1.sh n k, shLog n k (stepWith rc s op).2.2) := by
  cases hp : op.prog s with
  | none =>
    have hp' : (op.sh n k).prog (s.sh n k) = none := by
      unfold MState.sh; rw [Op.prog_ss]
      have := Op.sh_prog_isSome n k s op
      rw [hp] at this
      cases h : (op.sh n k).prog s with
      | none => rfl
      | some p => rw [h] at this; cases this
    rw [(stepWith_noprog rc _ _ hp').1, (stepWith_noprog rc s op hp).1]
    cases op with
    | setCfg c => rfl
    | setClient c => rfl
    | advance d => rfl
    | deviceDecide sig accept gs ga sub =>
      rw [Op.sh, step_deviceDecide_sh]
      have := (stepWith_noprog rc s _ hp).2
      rw [this.1, this.2]; rfl
    | _ => simp [Op.prog] at hp
  | some p =>
    cases hp2 : (op.sh n k).prog s with
    | none =>
      have := Op.sh_prog_isSome n k s op
      rw [hp, hp2] at this; cases this
    | some p' =>
      have hp' : (op.sh n k).prog (s.sh n k) = some p' := by unfold MState.sh; rw [Op.prog_ss, hp2]
      obtain ⟨h1, h2, _⟩ := run_op_sh rc s op p p' hp hp2 hn hb hl
      rw [stepWith_prog rc _ _ p' hp', stepWith_prog rc s op p hp]
      show (_, _, _) = (_, _, _)
      have e1 : (s.sh n k).ss = s.ss.sh n k := rfl
      rw [e1, h1, h2]
      rfl

/-- … for an operation the renaming fixes (the retry of the same request) -/
theorem stepWith_sh_fixed (rc : RunCfg) (s : MState) (op : Op) (n k : Nat)
    (hn : n ≤ s.ss.next) (hb : AllBelow s.ss) (hf : op.Fixed n k) :
    stepWith rc (s.sh n k) op =
      ((stepWith rc s op).1.sh n k, (stepWith rc s op).2.1.sh n k, shLog n k (stepWith rc s op).2.2) := by
  have := stepWith_sh rc s op n k hn hb hf.literalOk
  rw [hf.sh_eq] at this
  exact this

/-- **well-formedness is an invariant**: every operation, under every run configuration, whatever names
    the operation presents -/
theorem stepWith_AllBelow (rc : RunCfg) (s : MState) (op : Op) (hb : AllBelow s.ss) : AllBelow (stepWith rc s op).1.ss := by
  cases hp : op.prog s with
  | some p =>
    rw [stepWith_prog rc s op p hp]
    have hp' : (op.sh 0 0).prog s = some p := by rw [(Op.fixed_zero 0 op).sh_eq]; exact hp
    exact (run_op_sh (n := 0) (k := 0) rc s op p p hp hp' (Nat.zero_le _) hb (Op.fixed_zero 0 op).literalOk).2.2
  | none =>
    rw [(stepWith_noprog rc s op hp).1]
    cases op with
    | setCfg c => exact hb
    | setClient c => exact hb
    | advance d => exact hb
    | deviceDecide sig accept gs ga sub =>
      simp only [step]
      cases hl : alookup s.ss.store.device sig with
      | none => exact hb
      | some d =>
        have hd := hb.device.lookup hl
        unfold AllBelow at hb ⊢
        simp only
        refine { hb with device := hb.device.aset _ _ hd.1 (by split <;> exact hd.2), oidc := ?_ }
        split
        · exact hb.oidc.aset _ _ hd.1 (by split <;> exact hd.2.1)
        · exact hb.oidc
    | _ => simp [Op.prog] at hp

theorem step_AllBelow (s : MState) (op : Op) (hb : AllBelow s.ss) : AllBelow (step s op).1.ss := by
  rw [← stepWith_plain]; exact stepWith_AllBelow {} s op hb

theorem init_AllBelow : AllBelow ({} : MState).ss := by
  unfold AllBelow
  exact ⟨TBelow.nil _, TBelow.nil _, TBelow.nil _, TBelow.nil _, TBelow.nil _, TBelow.nil _, TBelow.nil _, TBelow.nil _, TBelow.nil _⟩

theorem after_AllBelow (ops : List Op) (s : MState) (hb : AllBelow s.ss) : AllBelow (after s ops).ss := by
  induction ops generalizing s with
  | nil => exact hb
  | cons op ops ih => exact ih _ (step_AllBelow s op hb)

/-- the mint counter only grows -/
theorem stepWith_next_le (rc : RunCfg) (s : MState) (op : Op) : s.ss.next ≤ (stepWith rc s op).1.ss.next := by
  cases hp : op.prog s with
  | some p => rw [(stepWith_log rc s op p hp).2.2]; exact (run_frame rc p { ss := s.ss }).2.2
  | none =>
    rw [(stepWith_noprog rc s op hp).1]
    cases op <;> simp only [Op.prog, reduceCtorEq] at hp <;> simp only [step] <;> (try split) <;> exact Nat.le_refl _

/-! ### histories: every operation under its own run configuration -/

/-- state after a history in which every operation runs under its own run configuration -/
def afterWith (s : MState) : List (RunCfg × Op) → MState
  | [] => s
  | x :: l => afterWith (stepWith x.1 s x.2).1 l

/-- the answers and storage-call logs of such a history -/
def outsWith (s : MState) : List (RunCfg × Op) → List (Out × List (Call × Res))
  | [] => []
  | x :: l => (stepWith x.1 s x.2).2 :: outsWith (stepWith x.1 s x.2).1 l

def shHist (n k : Nat) (l : List (RunCfg × Op)) : List (RunCfg × Op) := l.map (fun x => (x.1, x.2.sh n k))

theorem afterWith_AllBelow (l : List (RunCfg × Op)) (s : MState) (hb : AllBelow s.ss) : AllBelow (afterWith s l).ss := by
  induction l generalizing s with
  | nil => exact hb
  | cons x l ih => exact ih _ (stepWith_AllBelow x.1 s x.2 hb)

/-- **The whole future is renamed**: the renamed history from the renamed state gives the renamed final
    state and the renamed answers and logs, every operation under its own fault plan. -/
theorem history_sh (n k : Nat) (l : List (RunCfg × Op)) (s : MState) (hn : n ≤ s.ss.next) (hb : AllBelow s.ss)
    (hl : ∀ x ∈ l, x.2.LiteralOk n k) :
    afterWith (s.sh n k) (shHist n k l) = (afterWith s l).sh n k ∧
    outsWith (s.sh n k) (shHist n k l) = (outsWith s l).map (fun o => (o.1.sh n k, shLog n k o.2)) := by
  induction l generalizing s with
  | nil => exact ⟨rfl, rfl⟩
  | cons x l ih =>
    have hstep := stepWith_sh x.1 s x.2 n k hn hb (hl x List.mem_cons_self)
    have hih := ih (stepWith x.1 s x.2).1 (Nat.le_trans hn (stepWith_next_le x.1 s x.2))
      (stepWith_AllBelow x.1 s x.2 hb) (fun y hy => hl y (List.mem_cons_of_mem _ hy))
    simp only [shHist, List.map_cons, afterWith, outsWith, hstep] at hih ⊢
    exact ⟨hih.1, by rw [hih.2]⟩

end Fosite.Model

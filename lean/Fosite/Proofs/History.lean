/- Histories: the trace of a run of `Model.step`, and how run-level facts lift to `step`. -/
import Fosite.Proofs.Inv
namespace Fosite.Model

/-- operations paired with their outcomes, oldest first -/
def trace (s : MState) : List Op → List (Op × Out)
  | [] => []
  | op :: ops => (op, (step s op).2.1) :: trace (step s op).1 ops

/-- state after a history -/
def after (s : MState) : List Op → MState
  | [] => s
  | op :: ops => after (step s op).1 ops

theorem step_prog (s : MState) (op : Op) (p : Prog Out) (h : op.prog s = some p) :
    (step s op).1.ss = (run {} { ss := s.ss } p).1.ss ∧ (step s op).2.1 = (run {} { ss := s.ss } p).2 := by
  cases op <;> simp_all [step, Op.prog, runSeq]

theorem step_noprog (s : MState) (op : Op) (h : op.prog s = none) :
    (step s op).1.ss.store.codes = s.ss.store.codes ∧ (step s op).1.ss.store.access = s.ss.store.access ∧
    (step s op).1.ss.store.refresh = s.ss.store.refresh ∧ (step s op).1.ss.store.rtIdx = s.ss.store.rtIdx ∧
    (step s op).1.ss.next = s.ss.next ∧
    (∀ a r i e sc, (step s op).2.1 ≠ .tokens a r i e sc) := by
  cases op <;> simp_all [step, Op.prog]
  all_goals (split <;> simp)

/-- any store property preserved by every storage call, and not mentioning the client table, the
    device table or the OIDC session table (which the consent application edits directly), is
    preserved by every operation -/
theorem step_preserves (P : SState → Prop) (hP : ∀ ss c, P ss → P (ss.exec c).1)
    (hC : ∀ ss cl, P ss → P { ss with clients := cl })
    (hD : ∀ ss dev oidc, P ss → P { ss with store := { ss.store with device := dev, oidc := oidc } })
    (s : MState) (op : Op) (h : P s.ss) : P (step s op).1.ss := by
  cases hp : op.prog s with
  | some p => rw [(step_prog s op p hp).1]; exact run_preserves {} plain_default P hP p _ h
  | none =>
    cases op with
    | setCfg c => exact h
    | setClient c => exact hC _ _ h
    | advance d => exact h
    | deviceDecide sig acc gs ga sub =>
      simp only [step]
      cases hl : alookup s.ss.store.device sig with
      | none => exact h
      | some d => exact hD _ _ _ h
    | _ => simp [Op.prog] at hp

end Fosite.Model
